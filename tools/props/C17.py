"""C17 — AAT morx subtables run as the extended state-machine model prescribes.

Stages: regenerate Gen/Morx.lean -> prove Props/C17.lean -> correspondence (hook-level rearrangement,
whole morx tables through `hb_aat_layout_substitute` on hand-built fonts, chain-flag compilation)
-> search (the reference interpreter of Spec/Aat.lean against the crate; corpus TestMORX fonts)."""
import os, struct, re
import vlib

MODULE = "RbModel.Props.C17"
LEVEL = "proof"

# ------------------------------------------------------------------------------------------------
# a minimal sfnt builder with a morx (+feat) table.  The *same* recipe object is flattened to the
# integer tokens the Lean driver parses; unsized arrays are passed as the views ttf-parser keeps
# (everything from the array's offset to the end of the subtable), computed from the final bytes.

U16 = lambda *v: struct.pack(">%dH" % len(v), *v)
U32 = lambda *v: struct.pack(">%dI" % len(v), *v)


def bsearch_header(unit, n):
    sr = 1
    es = 0
    while sr * 2 <= max(n, 1):
        sr *= 2
        es += 1
    return U16(unit, n, sr * unit, es, (n - sr) * unit if n >= sr else 0)


def build_lookup(pairs, fmt, num_glyphs, term=True):
    """pairs: dict gid -> value (gid < 0xFFFF). Returns (bytes, effective dict as the parser sees it)."""
    pairs = {g: v for g, v in pairs.items() if 0 <= g < 0xFFFF}
    if fmt == 0:
        vals = [pairs.get(g, None) for g in range(num_glyphs)]
        # format 0 has a value for every glyph: unmapped glyphs get the filler chosen by the caller
        raise ValueError("use build_lookup0")
    if fmt == 6:
        items = sorted(pairs.items())
        if not items:
            return None
        body = b"".join(U16(g, v) for g, v in items)
        n = len(items)
        if term:
            body += U16(0xFFFF, 0xFFFF)
            n += 1
        return U16(6) + bsearch_header(4, n) + body, dict(items)
    if fmt == 2:
        items = sorted(pairs.items())
        if not items:
            return None
        segs = []
        for g, v in items:
            if segs and segs[-1][1] + 1 == g and segs[-1][2] == v:
                segs[-1][1] = g
            else:
                segs.append([g, g, v])
        body = b"".join(U16(last, first, v) for first, last, v in segs)
        n = len(segs)
        if term:
            body += U16(0xFFFF, 0xFFFF, 0)
            n += 1
        return U16(2) + bsearch_header(6, n) + body, dict(items)
    if fmt == 8:
        items = sorted(pairs.items())
        if not items:
            return None
        first, last = items[0][0], items[-1][0]
        return None if last - first > 64 else (
            U16(8, first, last - first + 1) + b"".join(U16(pairs.get(g, 0xFFFE)) for g in range(first, last + 1)),
            None)
    raise ValueError(fmt)


def make_lookup(r, pairs, num_glyphs, filler):
    """Chooses a format; returns (bytes, dict gid->value as seen by `Lookup::value`)."""
    pairs = {g: v for g, v in pairs.items() if 0 <= g < 0xFFFF}
    fmt = r.choice([0, 0, 2, 6, 8]) if pairs else 0
    if fmt == 8:
        items = sorted(pairs.items())
        first, last = items[0][0], items[-1][0]
        if last - first > 64:
            fmt = 6
        else:
            seen = {g: pairs.get(g, filler) for g in range(first, last + 1)}
            return U16(8, first, last - first + 1) + b"".join(U16(seen[g]) for g in range(first, last + 1)), seen
    if fmt == 0:
        seen = {g: pairs.get(g, filler) for g in range(num_glyphs)}
        return U16(0) + b"".join(U16(seen[g]) for g in range(num_glyphs)), seen
    data, seen = build_lookup(pairs, fmt, num_glyphs, term=r.chance(1, 2))
    return data, seen


def lookup_tokens(seen):
    items = sorted(seen.items())
    t = [len(items)]
    for g, v in items:
        t += [g, v]
    return t


ENTRY_EXTRA = {0: 0, 1: 4, 2: 2, 5: 4}


def build_stx(r, kind, mach, num_glyphs, extra_arrays):
    """mach: dict(nclasses, classes{gid:cls}, states[[entry idx]*], entries[(ns, flags, x1, x2)]).
    extra_arrays: per kind payload. Returns (payload bytes, tokens for the model)."""
    ncls = mach["nclasses"]
    cls_bytes, cls_seen = make_lookup(r, mach["classes"], num_glyphs, 1)
    ex = ENTRY_EXTRA[kind]
    ent = b""
    for ns, fl, x1, x2 in mach["entries"]:
        ent += U16(ns, fl)
        if kind == 1:
            ent += U16(x1, x2)
        elif kind == 2:
            ent += U16(x1)
        elif kind == 5:
            ent += U16(x1, x2)
    st = b"".join(U16(*row) for row in mach["states"])
    hdr_len = {0: 16, 1: 20, 2: 28, 5: 20}[kind]
    off_cls = hdr_len
    off_ent = off_cls + len(cls_bytes)
    pos = off_ent + len(ent)
    extra_hdr = b""
    tail = b""
    tokens_extra = None
    if kind == 1:
        lookups = extra_arrays["lookups"]      # list of (bytes, seen)
        off_sub = pos
        offs = []
        cur = 4 * len(lookups)
        blob = b""
        for data, _ in lookups:
            offs.append(cur)
            blob += data
            cur += len(data)
        tail = b"".join(U32(o) for o in offs) + blob
        extra_hdr = U32(off_sub)
    elif kind == 2:
        acts = b"".join(U32(a) for a in extra_arrays["actions"])
        comps = b"".join(U16(c) for c in extra_arrays["components"])
        ligs = b"".join(U16(g) for g in extra_arrays["ligatures"])
        off_a = pos
        off_c = off_a + len(acts)
        off_l = off_c + len(comps)
        tail = acts + comps + ligs
        extra_hdr = U32(off_a, off_c, off_l)
    elif kind == 5:
        gl = b"".join(U16(g) for g in extra_arrays["glyphs"])
        off_g = pos
        tail = gl
        extra_hdr = U32(off_g)
    off_st = pos + len(tail)
    payload = U32(ncls, off_cls, off_st, off_ent) + extra_hdr + cls_bytes + ent + tail + st
    assert len(U32(ncls, off_cls, off_st, off_ent) + extra_hdr) == hdr_len

    # views, exactly as ttf-parser slices them
    def u16s(b):
        return [struct.unpack(">H", b[i:i + 2])[0] for i in range(0, len(b) - 1, 2)]

    def u32s(b):
        return [struct.unpack(">I", b[i:i + 4])[0] for i in range(0, len(b) - 3, 4)]

    st_view = u16s(payload[off_st:])
    stride = 4 + ex
    ev = payload[off_ent:]
    ent_view = []
    for i in range(0, len(ev) - stride + 1, stride):
        w = u16s(ev[i:i + stride])
        ns, fl = w[0], w[1]
        x1 = w[2] if ex >= 2 else 0
        x2 = w[3] if ex >= 4 else 0
        ent_view.append((ns, fl, x1, x2))
    tok = [ncls] + lookup_tokens(cls_seen) + [len(st_view)] + st_view + [len(ent_view)]
    for e in ent_view:
        tok += list(e)
    if kind == 1:
        tok += [len(extra_arrays["lookups"])]
        for _, seen in extra_arrays["lookups"]:
            tok += lookup_tokens(seen)
        # indices >= number of real lookups but inside the unsized offsets view would parse garbage:
        # the generator never uses them (see rand_entry); indices beyond the view give None = model's none
        views = {"offsets_view_len": len(u32s(payload[off_sub:]))}
    elif kind == 2:
        a = u32s(payload[off_a:]); c = u16s(payload[off_c:]); l = u16s(payload[off_l:])
        tok += [len(a)] + a + [len(c)] + c + [len(l)] + l
        views = {}
    elif kind == 5:
        g = u16s(payload[off_g:])
        tok += [len(g)] + g
        views = {}
    else:
        views = {}
    return payload, tok, views


def build_morx(r, chains, num_glyphs):
    """chains: list of dict(default, features[(kind,setting,enable,disable)], subtables[dict(coverage, flags, kind, ...)])."""
    out = U16(2, 0) + U32(len(chains))
    tokens = [len(chains)]
    for ch in chains:
        feats = b"".join(U16(k, s) + U32(en, dis) for k, s, en, dis in ch["features"])
        subs = b""
        stoks = [len(ch["subtables"])]
        for st in ch["subtables"]:
            kind = st["kind"]
            if kind == 4:
                payload, seen = st["lookup"]
                tok = lookup_tokens(seen)
            else:
                payload, tok, _ = st["built"]
            subs += U32(12 + len(payload)) + bytes([st["coverage"], 0, 0, kind]) + U32(st["flags"]) + payload
            stoks += [st["coverage"], st["flags"], kind] + tok
        body = feats + subs
        out += U32(ch["default"], 16 + len(body), len(ch["features"]), len(ch["subtables"])) + body
        tokens += [ch["default"], len(ch["features"])]
        for k, s, en, dis in ch["features"]:
            tokens += [k, s, en, dis]
        tokens += stoks
    return out, tokens


def build_feat(names):
    """names: list of (type, nsettings, exclusive) sorted by type."""
    n = len(names)
    out = U32(0x00010000) + U16(n, 0) + U32(0)
    off = 12 + 12 * n
    recs = b""
    sets = b""
    for ty, ns, ex in names:
        recs += U16(ty, ns) + U32(off + len(sets)) + bytes([0x80 if ex else 0, 0]) + U16(256)
        for i in range(ns):
            sets += U16(i, 256)
    return out + recs + sets


def build_font(num_glyphs, morx, feat=None, cmap_first=0xE000):
    head = struct.pack(">IIIIHHqqhhhhHHhhh", 0x00010000, 0x00010000, 0, 0x5F0F3CF5, 0, 1000, 0, 0,
                       0, 0, 1000, 1000, 0, 8, 2, 0, 0)
    hhea = struct.pack(">IhhhHhhhhhhhhhhhH", 0x00010000, 800, -200, 0, 1000, 0, 0, 1000, 1, 0, 0, 0, 0, 0, 0, 0,
                       num_glyphs)
    maxp = struct.pack(">IH", 0x00005000, num_glyphs)
    hmtx = b"".join(struct.pack(">Hh", 500 + 10 * g, 0) for g in range(num_glyphs))
    # cmap format 12: U+E000+i -> glyph i+1 ; ASCII 'a'+i -> glyph i+1 as well
    groups = [(0x61, 0x61 + min(25, num_glyphs - 2), 1), (cmap_first, cmap_first + num_glyphs - 2, 1)]
    sub = struct.pack(">HHIII", 12, 0, 16 + 12 * len(groups), 0, len(groups)) + b"".join(
        struct.pack(">III", a, b, g) for a, b, g in groups)
    cmap = struct.pack(">HHHHI", 0, 1, 3, 10, 12) + sub
    tables = {b"head": head, b"hhea": hhea, b"maxp": maxp, b"hmtx": hmtx, b"cmap": cmap, b"morx": morx}
    if feat is not None:
        tables[b"feat"] = feat
    tags = sorted(tables)
    n = len(tags)
    sr = 1; es = 0
    while sr * 2 <= n:
        sr *= 2; es += 1
    hdr = struct.pack(">IHHHH", 0x00010000, n, sr * 16, es, n * 16 - sr * 16)
    off = 12 + 16 * n
    recs = b""; body = b""
    for t in tags:
        d = tables[t]
        pad = (-len(d)) % 4
        recs += t + struct.pack(">III", 0, off + len(body), len(d))
        body += d + b"\0" * pad
    return hdr + recs + body


# ------------------------------------------------------------------------------------------------
# random recipes

NG = 12   # glyph ids 0..11 are "in the font"


def rand_gid(r, hi=NG):
    k = r.below(12)
    if k == 0: return 0xFFFF
    if k == 1: return hi + r.below(3)
    return r.below(hi)


def rand_classes(r, ncls, wf=False):
    d = {}
    for g in range(NG):
        if r.chance(3, 4):
            k = r.below(10)
            if wf: d[g] = 4 + r.below(ncls - 4) if ncls > 4 else 1
            elif k == 0: d[g] = r.below(4)
            elif k == 1: d[g] = ncls + r.below(2)
            else: d[g] = 4 + r.below(max(1, ncls - 4)) if ncls > 4 else r.below(4)
    return d


def rand_machine(r, kind, extra, wf=False):
    ncls = r.range(5, 7) if wf else r.range(4, 7)
    nstates = r.range(2, 5)
    nent = r.range(1, 8)
    entries = [rand_entry(r, kind, nstates, extra, wf) for _ in range(nent)]
    # entry indices past the real entries read whatever follows (faithfully passed to the model as a view);
    # not for contextual tables: a garbage entry would name a lookup offset that parses garbage bytes
    states = [[(r.below(nent) if wf or kind == 1 or not r.chance(1, 40) else nent + r.below(3)) for _ in range(ncls)]
              for _ in range(nstates)]
    return {"nclasses": ncls if wf or not r.chance(1, 30) else r.choice([0, 1, 2, 3]),
            "classes": rand_classes(r, ncls, wf), "states": states, "entries": entries}


def rand_entry(r, kind, nstates, extra, wf=False):
    ns = r.below(nstates) if wf or not r.chance(1, 30) else nstates + r.below(2)
    if kind == 0:
        fl = (0x8000 if r.chance(1, 3) else 0) | (0x4000 if r.chance(1, 6) else 0) | (0x2000 if r.chance(1, 3) else 0)
        fl |= r.below(16) if r.chance(2, 3) else 0
        return (ns, fl, 0, 0)
    if kind == 1:
        n = extra["nlookups"]
        pick = lambda: 0xFFFF if r.chance(1, 2) or n == 0 else (r.below(n) if wf or not r.chance(1, 40) else 0xFFF0)
        fl = (0x8000 if r.chance(1, 3) else 0) | (0x4000 if r.chance(1, 6) else 0)
        return (ns, fl, pick(), pick())
    if kind == 2:
        fl = (0x8000 if r.chance(1, 2) else 0) | (0x4000 if r.chance(1, 8) else 0) | (0x2000 if r.chance(1, 3) else 0)
        if wf:
            return (ns, fl, r.choice(extra["action_starts"]), 0)
        return (ns, fl, r.below(max(1, extra["nactions"])) if not r.chance(1, 30) else r.below(200), 0)
    if kind == 5:
        n = extra["nglyphs"]
        if wf:
            cc, mc = r.below(4), r.below(4)
            ci = 0xFFFF if r.chance(1, 2) else r.below(n - cc + 1)
            mi = 0xFFFF if r.chance(1, 2) else r.below(n - mc + 1)
            fl = (0x8000 if r.chance(1, 3) else 0) | (0x4000 if r.chance(1, 6) else 0)
            fl |= (0x0800 if r.chance(1, 2) else 0) | (0x0400 if r.chance(1, 2) else 0) | (cc << 5) | mc
            if wf != "setmark-quirk" and mi != 0xFFFF and mc > 0:
                fl &= ~0x8000      # SET_MARK together with a marked insertion: see finding F3 (mark_loc)
            return (ns, fl, ci, mi)
        pick = lambda: 0xFFFF if r.chance(1, 2) else (r.below(max(1, n)) if not r.chance(1, 30) else r.below(300))
        fl = (0x8000 if r.chance(1, 3) else 0) | (0x4000 if r.chance(1, 6) else 0)
        fl |= (0x0800 if r.chance(1, 2) else 0) | (0x0400 if r.chance(1, 2) else 0)
        fl |= (r.below(4) << 5) | r.below(4)
        if r.chance(1, 30): fl |= (r.below(32) << 5) | r.below(32)
        return (ns, fl, pick(), pick())
    raise ValueError(kind)


def rand_subst(r, wf=False):
    if wf:
        return {g: r.below(NG) for g in r.sample(list(range(NG)), r.range(1, 6))}
    return {g: rand_gid(r, NG) if not r.chance(1, 10) else r.below(65535) for g in r.sample(list(range(NG)), r.range(0, 6))}


def identity_lookup(r, subst):
    seen = {g: g for g in range(NG)}
    seen.update(subst)
    return (U16(0) + b"".join(U16(seen[g]) for g in range(NG)), seen)


def rand_subtable(r, kinds=(0, 1, 2, 4, 5), wf=False):
    kind = r.choice(kinds)
    cov = 0
    if r.chance(1, 3): cov |= 0x40
    if r.chance(1, 3): cov |= 0x10
    if r.chance(1, 4): cov |= 0x80
    if r.chance(1, 2): cov |= 0x20
    st = {"kind": kind, "coverage": cov, "flags": r.choice([1, 1, 1, 2, 3, 4, 0, 0xFFFFFFFF])}
    if kind == 4:
        if wf:
            st["lookup"] = identity_lookup(r, rand_subst(r, True)) if r.chance(1, 2) else \
                make_lookup(r, rand_subst(r, True), NG, 0) if False else identity_lookup(r, rand_subst(r, True))
            return st
        st["lookup"] = make_lookup(r, rand_subst(r), NG, r.choice([0xFFFF, 0, 5]))
        if r.chance(1, 2):   # format 0 with an identity filler is the usual shape of real fonts
            st["lookup"] = identity_lookup(r, rand_subst(r))
        return st
    extra = {}
    arrays = {}
    if kind == 1:
        n = r.range(1, 3) if wf else r.range(0, 3)
        if wf:
            # sparse formats (2, 6) so that uncovered glyphs stay; format 0/8 with identity filler
            arrays["lookups"] = []
            for _ in range(n):
                sub = rand_subst(r, True)
                if r.chance(1, 2):
                    arrays["lookups"].append(identity_lookup(r, sub))
                else:
                    arrays["lookups"].append(build_lookup(sub, r.choice([2, 6]), NG, term=r.chance(1, 2)))
        else:
            arrays["lookups"] = [make_lookup(r, rand_subst(r) or {1: 2}, NG, 0xFFFF) for _ in range(n)]
        # a filler of 0xFFFF in format 0/8 means "replace by the deleted glyph": fine, it is what the table says
        extra["nlookups"] = n
    elif kind == 2:
        if wf:
            # action lists: 1-3 actions, the last one has LAST; offsets 0..7 into a component table that
            # covers every glyph id + offset; component values 0/1; enough ligatures for every sum
            acts, starts = [], []
            for _ in range(r.range(1, 3)):
                starts.append(len(acts))
                k = r.range(1, 3)
                for j in range(k):
                    a = r.below(8)
                    if j == k - 1: a |= 0x80000000
                    elif r.chance(1, 3): a |= 0x40000000
                    acts.append(a)
            arrays["actions"] = acts
            arrays["components"] = [r.below(2) for _ in range(NG + 8)]
            arrays["ligatures"] = [r.below(NG) if not r.chance(1, 8) else 0xFFFF for _ in range(14)]
            extra["nactions"] = len(acts)
            extra["action_starts"] = starts
        else:
            na = r.range(1, 6)
            acts = []
            for _ in range(na):
                off = r.below(6) if r.chance(3, 4) else (0x3FFFFFFF - r.below(12))   # small +/- offsets
                a = off | (0x80000000 if r.chance(1, 3) else 0) | (0x40000000 if r.chance(1, 3) else 0)
                acts.append(a)
            arrays["actions"] = acts
            arrays["components"] = [r.below(4) for _ in range(r.range(4, 16))]
            arrays["ligatures"] = [rand_gid(r) for _ in range(r.range(1, 6))]
            extra["nactions"] = na
    elif kind == 5:
        ng = r.range(4, 8) if wf else r.range(1, 8)
        arrays["glyphs"] = [r.below(NG) for _ in range(ng)] if wf else [rand_gid(r) for _ in range(ng)]
        extra["nglyphs"] = ng
    mach = rand_machine(r, kind, extra, wf)
    st["mach"], st["arrays"] = mach, arrays
    st["built"] = build_stx(r, kind, mach, NG, arrays)
    return st


def rand_chains(r, nchains=None, kinds=(0, 1, 2, 4, 5), max_sub=3, wf=False):
    chains = []
    for _ in range(nchains or r.choice([1, 1, 1, 2])):
        feats = []
        for _ in range(r.below(4)):
            feats.append((r.choice([1, 3, 37, 17, 35, 14]), r.below(6), r.choice([0, 1, 2, 4, 6]),
                          r.choice([0xFFFFFFFF, 0xFFFFFFFE, 0xFFFFFFF9, 0])))
        chains.append({"default": r.choice([1, 1, 3, 0, 7, 0xFFFFFFFF]), "features": feats,
                       "subtables": [rand_subtable(r, kinds, wf) for _ in range(r.range(1, max_sub))]})
    return chains


FEAT_TYPES = [1, 3, 14, 17, 35, 37]
USER_TAGS = ["smcp", "liga", "dlig", "aalt", "ss01", "ss02", "c2sc", "kern", "zero", "frac", "onum", "unic"]


def tag_hex(t):
    return "".join(f"{ord(c):02x}" for c in t)


def rand_feat_table(r):
    return [(ty, r.choice([0, 1, 2, 4]), r.chance(1, 2)) for ty in FEAT_TYPES if r.chance(2, 3)]


def rand_user_feats(r, n_glyphs):
    fs = []
    for _ in range(r.below(4)):
        a = r.below(n_glyphs + 2)
        k = r.below(4)
        if k == 0: s, e = 0, 0xFFFFFFFF
        elif k == 1: s, e = a, a + r.below(4)
        elif k == 2: s, e = a, 0xFFFFFFFF
        else: s, e = 0, a
        fs.append(f"{tag_hex(r.choice(USER_TAGS))}:{r.choice([0, 1, 1, 2, 3])}:{s}:{e}")
    return ",".join(fs) or "-"


def rand_glyph_string(r, maxlen=10):
    n = r.below(maxlen + 1)
    gids = [rand_gid(r) for _ in range(n)]
    k = r.below(5)
    if k <= 1: cl = list(range(n))
    elif k == 2: cl = list(range(n - 1, -1, -1))
    elif k == 3:
        cl, c = [], 0
        for _ in range(n):
            cl.append(c)
            if r.chance(2, 3): c += r.range(1, 3)
    else:
        cl = [r.below(6) for _ in range(n)]
    return ",".join(f"{g}:{c}" for g, c in zip(gids, cl)) or "-"


def font_case(r, kinds=(0, 1, 2, 4, 5), with_feat=False, nchains=None, max_sub=3, wf=False):
    chains = rand_chains(r, nchains, kinds, max_sub, wf)
    morx, tok = build_morx(r, chains, NG)
    feat_rows = rand_feat_table(r) if with_feat else None
    font = build_font(NG, morx, build_feat(feat_rows) if feat_rows is not None else None)
    ftok = [NG, 1 if feat_rows is not None else 0]
    if feat_rows is not None:
        ftok += [len(feat_rows)]
        for ty, ns, ex in feat_rows:
            ftok += [ty, ns, 1 if ex else 0]
    return font.hex(), " ".join(map(str, ftok + tok)), chains


def run_lines(r, n, kinds=(0, 1, 2, 4, 5), per_font=6, with_feat=False, small_ops=True):
    """`morx run` requests. Fonts with an insertion subtable always get an explicit small max_ops: with the
    default budget (>= 16384) some tables need minutes (finding F2: cubic work), which would stall a stream."""
    lines = []
    while len(lines) < n:
        hexf, rec, chains = font_case(r, kinds, with_feat)
        has_ins = any(st["kind"] == 5 for ch in chains for st in ch["subtables"])
        for _ in range(per_font):
            d = r.choice(["l", "l", "r", "t", "b"])
            level = r.choice([0, 0, 1, 2])
            if has_ins:
                mo = str(r.choice([0, 1, 2, 3, 5, 8, 13, 40, 100, 300, -3]))
            else:
                mo = "-" if not small_ops or r.chance(2, 3) else str(r.choice([0, 1, 2, 3, 5, 8, 13, 40, -3]))
            ml = "-" if r.chance(9, 10) else str(r.choice([0, 3, 8, 12, 20]))
            gs = rand_glyph_string(r)
            fs = rand_user_feats(r, 10) if with_feat else "-"
            lines.append(f"morx run {hexf} R {rec} I {d} {level} {mo} {ml} {fs} {gs}")
    return lines[:n]


def compile_lines(r, n):
    lines = []
    while len(lines) < n:
        hexf, rec, chains = font_case(r, (4,), True, max_sub=1)
        for _ in range(8):
            lines.append(f"morx compile {hexf} R {rec} I {rand_user_feats(r, 10)}")
    return lines[:n]


def classify_compile(ln, out):
    if not out.startswith("ok"):
        return [out[:16]]
    o = out.split()
    return ["added:%d" % (0 if o[2] == "-" else len(o[2].split(","))),
            "ranges:%d" % max(len(c.split(",")) for c in o[4].split(";"))]


def canon(s):
    """panic <file>:<line> <message>  ->  panic <kind>"""
    if s.startswith("panic "):
        m = s[6:]
        if m in ("oob", "assert", "wrap", "budget"):
            return s
        if "out of bounds" in m or "out of range" in m or "index" in m and "len" in m:
            return "panic oob"
        if "assertion failed" in m or "unwrap" in m:
            return "panic assert"
        return "panic other:" + m
    return s


KIND_NAMES = {0: "rearr", 1: "ctx", 2: "lig", 4: "noncontext", 5: "insert"}


def classify_run(ln, out):
    t = ln.split()
    i = t.index("I")
    rec = t[4:i]
    ks = []
    if out.startswith("panic"):
        ks.append(out if len(out) < 20 else out[:20])
    elif out.startswith("ok"):
        o = out.split()
        ks.append("result:changed" if o[3] != t[i + 6] else "result:same")
        if o[1] == "0": ks.append("unsuccessful")
        if len(o[5].split(",")) > 1: ks.append("multi-range")
        ks.append("len-in:%d" % (0 if t[i + 6] == "-" else min(10, len(t[i + 6].split(",")))))
        nout = 0 if o[3] == "-" else len(o[3].split(","))
        nin = 0 if t[i + 6] == "-" else len(t[i + 6].split(","))
        ks.append("grew" if nout > nin else ("shrunk" if nout < nin else "same-len"))
    ks.append("dir:" + t[i + 1]); ks.append("level:" + t[i + 2])
    if t[i + 3] != "-": ks.append("small-max-ops")
    return ks


# ------------------------------------------------------------------------------------------------
# `morx-run-feat-extreme` (added after the seeded change C01f): cluster values and feature ranges at the edges of u32, glyphs that
# sit exactly on a range's cluster_first / cluster_last, on fonts whose OpenType tags really switch state-table subtables


def extreme_run_lines(shim, r, n, per_font=8):
    """`morx run` on (a) the directed morx+feat fonts of C15.aat_font (every tag owns a flag bit; non-contextual, contextual,
    ligature, rearrangement subtables keyed to the bits) and (b) the random morx+feat fonts of font_case; glyph strings whose
    clusters come from C01.extreme_clusters (u32 extremes: all equal, ascending to / from an extreme, descending, replaced,
    random, sorted) or are ordinary ascending ones; 1-4 user features whose bounds are u32 extremes, cluster values and cluster
    values +-1 (C01.extreme_feats: global, start == end, start > end, end == start + 1, [0, x), [x, MAX], overlapping)"""
    import C01, C15
    fm = C15.featmap(shim)
    lines = []
    while len(lines) < n:
        if r.chance(3, 4):
            hexf, tags, _ = C15.aat_font(r, fm)
            rec = C15.aat_font.recipe
        else:
            hexf, rec, _ = font_case(r, (0, 1, 2, 4), True, wf=True)
            tags = USER_TAGS
        for _ in range(per_font):
            k = r.range(1, 9)
            if r.chance(2, 3):
                _, cl = C01.extreme_clusters(r, k)
            else:
                c, cl = r.below(4), []
                for _ in range(k):
                    cl.append(c); c += r.choice([0, 1, 1, 2, 3])
            gs = ",".join(f"{1 + r.below(NG - 1)}:{c}" for c in cl)
            fs, _ = C01.extreme_feats(r, tags, cl)
            lines.append(f"morx run {hexf} R {rec} I {r.choice(['l', 'r', 't', 'b'])} {r.below(3)} - - {fs} {gs}")
    return lines[:n]


def extreme_search(ctx, shim, lines):
    """oracle on the crate alone: on these well-formed morx+feat fonts hb_aat_layout_substitute returns (no index past the range list
    or the buffer) whatever the cluster values and the feature ranges are; the compiled ranges in the reply tile [0, u32::MAX]"""
    outs = vlib.run_lines(shim, lines, timeout=300)
    sites, nontriv, badtile = {}, 0, None
    for ln, o in zip(lines, outs):
        if not o.startswith("ok"):
            k = panic_site(o) if o.startswith("panic") else o[:30]
            if k not in sites or len(ln) < len(sites[k][0]): sites[k] = (ln, o, sites.get(k, (0, 0, 0))[2] + 1)
            else: sites[k] = (sites[k][0], sites[k][1], sites[k][2] + 1)
            continue
        t = o.split()
        if "F" not in t: continue
        for ch in t[t.index("F") + 1].split(";"):
            rs = [tuple(int(v) for v in x.split("/")) for x in ch.split(",") if x.count("/") == 2]
            if len(rs) > 1: nontriv += 1
            ok = bool(rs) and rs[0][1] == 0 and rs[-1][2] == 0xFFFFFFFF and all(a <= b for _, a, b in rs) and \
                all(n[1] == p[2] + 1 for p, n in zip(rs, rs[1:]))
            if rs and not ok and (badtile is None or len(ln) < len(badtile[0])): badtile = (ln, o)
    for k, (ln, o, n) in sorted(sites.items()):
        ctx.violation(f"hb_aat_layout_substitute does not return on a well-formed morx+feat font ({n} requests): {o[:160]} — "
                      f"I {ln.split(' I ', 1)[1]}",
                      {"stage": "search", "stream": "morx-extreme", "request": ln, "observed": o[:300], "site": k})
    if badtile:
        ctx.violation(f"the compiled feature ranges of a chain do not tile [0, u32::MAX]: {badtile[1].split(' F ')[1][:200]} — "
                      f"I {badtile[0].split(' I ', 1)[1]}",
                      {"stage": "search", "stream": "morx-extreme", "request": badtile[0], "observed": badtile[1][:400]})
    ctx.note_search("morx-extreme", len(lines), nontriv,
                    rule="the requests of morx-run-feat-extreme on the crate alone: no panic; every chain's compiled ranges start at 0, "
                         "end at u32::MAX, are non-empty and contiguous (the hypothesis `Tiles` of C17_range_walk_inclusive); "
                         "non-trivial = chains with more than one range")


def classify_extreme(ln, out):
    ks = classify_run(ln, out)
    t = ln.split()
    i = t.index("I")
    cls = [] if t[i + 6] == "-" else [int(x.split(":")[1]) for x in t[i + 6].split(",")]
    if 0xFFFFFFFF in cls: ks.append("cluster:u32max")
    if any(c >= 0x80000000 for c in cls): ks.append("cluster:>=2^31")
    if out.startswith("ok"):
        o = out.split()
        if "F" in o:
            on_last = on_first = False
            for ch in o[o.index("F") + 1].split(";"):
                rs = [tuple(int(v) for v in x.split("/")) for x in ch.split(",") if x.count("/") == 2]
                for (fl, a, b), nxt in zip(rs, rs[1:]):
                    if b in cls and fl != nxt[0]: on_last = True
                    if nxt[1] in cls and fl != nxt[0]: on_first = True
            if on_last: ks.append("glyph-on-cluster_last-of-a-range-whose-successor-differs")
            if on_first: ks.append("glyph-on-cluster_first-of-a-range-whose-predecessor-differs")
    return ks


# ------------------------------------------------------------------------------------------------
# hook-level rearrangement: all 16 verbs x all marked ranges in buffers of <= 10 glyphs (exhaustive)

def rearr_lines(maxlen, extra_flags=(0,)):
    lines = []
    for n in range(0, maxlen + 1):
        gs = ",".join(f"{10 + i}:{i}" for i in range(n)) or "-"
        for verb in range(16):
            for start in range(0, n + 1):
                for end in range(start, n + 1):
                    idx = max(0, end - 1)
                    for xf in extra_flags:
                        lines.append(f"morx rearr {verb | xf} {start} {end} {idx} 0 {gs}")
    return lines


def rearr_random(r, n):
    lines = []
    for _ in range(n):
        ln = r.below(12)
        gs = rand_glyph_string(r, 11)
        ln = 0 if gs == "-" else len(gs.split(","))
        start = r.below(ln + 2); end = r.below(ln + 2); idx = r.below(ln + 1)
        fl = r.below(16) | (0x8000 if r.chance(1, 4) else 0) | (0x2000 if r.chance(1, 4) else 0) | (0x4000 if r.chance(1, 8) else 0)
        lines.append(f"morx rearr {fl} {start} {end} {idx} {r.choice([0, 1, 2])} {gs}")
    return lines


def classify_rearr(ln, out):
    t = ln.split()
    ks = ["verb:%d" % (int(t[2]) & 15)]
    if out.startswith("panic"):
        ks.append(out[:14])
    else:
        ks.append("moved" if out.split()[3] != t[7] else "unchanged")
    return ks


PANIC_AT = re.compile(r"(\w+\.rs):(\d+)")


def panic_site(out):
    m = PANIC_AT.search(out)
    return f"{m.group(1)}:{m.group(2)}" if m else out[:40]


def gids_of(field):
    return [] if field == "-" else [int(t.split(":")[0]) for t in field.split(",")]


def spec_search(ctx, shim, model, r, nfonts):
    """The crate (hook: hb_aat_layout_substitute) against the reference interpreter of Spec/Aat.lean on
    well-formed tables (all indices in range), one subtable per font, glyph ids only."""
    per_kind = {}
    lines, slines, kinds = [], [], []
    for it in range(nfonts):
        kind = [0, 1, 2, 4, 5, 5, 2][it % 7]
        hexf, rec, chains = font_case(r, (kind,), nchains=1, max_sub=1, wf=True)
        for _ in range(6):
            n = r.range(1, 8)
            if kind == 2 and r.chance(1, 3): n = r.range(60, 200)     # long enough for the component stack to pass 64
            gs = ",".join(f"{r.below(NG)}:{i}" for i in range(n))
            d = r.choice(["l", "l", "r", "t"])
            mo = "-" if kind != 5 else str(r.choice([20, 60, 200]))
            tail = f"{hexf} R {rec} I {d} 0 {mo} - - {gs}"
            lines.append("morx run " + tail); slines.append("morx spec " + tail); kinds.append(kind)
    a = vlib.run_lines(shim, lines, timeout=120)
    b = vlib.run_lines(model, slines, timeout=120)
    seen_sites = set()
    total = nontriv = 0
    dist = {}
    for ln, x, y, kind in zip(lines, a, b, kinds):
        kn = KIND_NAMES[kind]
        total += 1
        if y == "undef":
            dist[kn + ":outside-domain"] = dist.get(kn + ":outside-domain", 0) + 1
            continue
        t = ln.split(); i = t.index("I")
        if not x.startswith("ok"):
            site = panic_site(x)
            dist[kn + ":crate-panic"] = dist.get(kn + ":crate-panic", 0) + 1
            if (kn, site) not in seen_sites:
                seen_sites.add((kn, site))
                ctx.violation(f"{kn} subtable on a well-formed table: crate panics at {site} where the AAT reference "
                              f"interpreter gives {y}", {"stage": "search", "stream": "morx-spec", "kind": kn,
                              "panic_at": site, "request": ln, "input": t[i + 1:], "expected": y, "observed": x})
            continue
        nontriv += 1
        got = gids_of(x.split()[3])
        exp = gids_of(y.split()[1])
        if got != gids_of(t[i + 6]):
            dist[kn + ":changed"] = dist.get(kn + ":changed", 0) + 1
        if got != exp:
            dist[kn + ":differs"] = dist.get(kn + ":differs", 0) + 1
            if (kn, "differs") not in seen_sites:
                seen_sites.add((kn, "differs"))
                ctx.violation(f"{kn} subtable: glyphs differ from the AAT reference interpreter",
                              {"stage": "search", "stream": "morx-spec", "kind": kn, "request": ln,
                               "input": t[i + 1:], "expected": exp, "observed": got})
        else:
            dist[kn + ":agree"] = dist.get(kn + ":agree", 0) + 1
    ctx.note_search("morx-spec", total, nontriv, distribution=dist,
                    rule="well-formed single-subtable fonts x glyph strings <= 8 (ligature: a third of the strings 60-200 glyphs) x 3 directions; crate through the "
                         "substitute hook vs Spec/Aat reference interpreter; non-trivial = inside the reference's domain "
                         "and no crash")


def promote_run(ctx, shim, model, dis, limit=300):
    """a `morx run` request on which crate and operational model disagree is a candidate failing input of the property: it is
    judged as the `morx-spec` search judges its own requests — the crate's glyphs against the AAT reference interpreter
    (Spec/Aat.lean) wherever that is defined.  Nothing is assumed about why the two disagreed."""
    lines = sorted({d["request"] for d in dis if d.get("request", "").startswith("morx run ")}, key=len)[:limit]
    if not lines:
        ctx.note_search("promoted-morx-run", 0, 0, rule="no morx-run / morx-run-feat disagreement to promote in this run")
        return
    a = vlib.run_lines(shim, lines, timeout=120)
    b = vlib.run_lines(model, [ln.replace("morx run", "morx spec", 1) for ln in lines], timeout=120)
    total = nontriv = bad = 0
    for ln, x, y in zip(lines, a, b):
        total += 1
        if y == "undef" or not y.startswith("ok"):
            continue
        nontriv += 1
        t = ln.split(); i = t.index("I")
        if not x.startswith("ok"):
            bad += 1
            if bad <= 2:
                ctx.violation(f"promoted morx-run disagreement: the crate panics at {panic_site(x)} where the AAT reference interpreter gives {y}",
                              {"stage": "search", "stream": "promoted-morx-run", "request": ln, "input": t[i + 1:], "expected": y, "observed": x})
            continue
        try:
            got = gids_of(x.split()[3]); exp = gids_of(y.split()[1])
        except Exception:
            continue
        if got != exp:
            bad += 1
            if bad <= 2:
                ctx.violation("promoted morx-run disagreement: glyphs differ from the AAT reference interpreter",
                              {"stage": "search", "stream": "promoted-morx-run", "request": ln, "input": t[i + 1:],
                               "expected": exp, "observed": got})
    ctx.note_search("promoted-morx-run", total, nontriv, deviations=bad,
                    rule="the morx-run / morx-run-feat requests on which crate and model disagree (shortest first), judged by the AAT reference "
                         "interpreter; non-trivial = inside the reference's domain")


def seed_search(ctx, shim, model):
    """corpus/C17/seeds.json: requests that once crashed the crate; they must pass for good."""
    import json
    path = os.path.join(vlib.ROOT, "corpus", "C17", "seeds.json")
    seeds = json.load(open(path))["seeds"] if os.path.exists(path) else []
    for sd in seeds:
        ln = sd["request"]
        x = vlib.run_lines(shim, [ln], nproc=1, timeout=120)[0]
        y = vlib.run_lines(model, [ln], nproc=1, timeout=120)[0]
        z = vlib.run_lines(model, [ln.replace("morx run", "morx spec", 1)], nproc=1, timeout=120)[0]
        bad = None
        if not x.startswith("ok"): bad = "crate: " + x[:120]
        elif canon(x) != canon(y): bad = "crate and model differ"
        elif z.startswith("ok") and gids_of(x.split()[3]) != gids_of(z.split()[1]): bad = "crate differs from the AAT reference"
        if bad:
            ctx.violation(f"corpus seed {sd['name']}: {bad}", {"stage": "search", "stream": "morx-seeds", "seed": sd["name"],
                          "request": ln, "crate": x[:300], "model": y[:300], "spec": z[:300]})
    ctx.note_search("morx-seeds", len(seeds), len(seeds), rule="corpus/C17/seeds.json, run first: no panic, crate == model, "
                    "crate == reference where defined")


def verb_search(ctx, shim, model, maxlen):
    """hook `RearrangementCtx::transition` against Apple's verb table (Spec/Aat.applyVerb), all 16 verbs x all
    marked ranges: a changed nibble of MAP shows up here with the failing verb and range."""
    lines = rearr_lines(maxlen)
    a = vlib.run_lines(shim, lines)
    b = vlib.run_lines(model, [ln.replace("morx rearr", "morx specverb", 1) for ln in lines])
    bad = moved = 0
    for ln, x, y in zip(lines, a, b):
        got = gids_of(x.split()[3]) if x.startswith("ok") else x
        exp = gids_of(y.split()[1]) if y.startswith("ok") else y
        if got != gids_of(ln.split()[7]): moved += 1
        if got != exp:
            bad += 1
            if bad <= 1:
                t = ln.split()
                ctx.violation(f"rearrangement verb {int(t[2]) & 15} on range [{t[3]},{t[4]}) of {t[7]}: crate gives {got}, "
                              f"Apple's verb table gives {exp}", {"stage": "search", "stream": "morx-verbs", "request": ln,
                              "expected": exp, "observed": got})
    ctx.note_search("morx-verbs", len(lines), moved, mismatches=bad,
                    rule="16 verbs x every marked range of buffers <= %d glyphs; non-trivial = the range was permuted" % maxlen)


# "lLAvA" (TestMORXThirtyone) and "bYMBbA"/"blMXvBvA" (TestMORXTwentynine) crashed shape() before the D6 repair
CORPUS_SEEDS = ["lLAvA", "bYMBbA", "blMXvBvA", "hMBA", "XXAYYAZZ", "ABCDE", "aeiou"]
ALPHA = "abcdefghijklmnopqrstuvwxyzABCDEFGHIJKLMNOPQRSTUVWXYZ0123456789 .,-'"


def corpus_fonts():
    import glob
    return sorted(glob.glob(os.path.join(vlib.REPO, "tests", "fonts", "*", "*MORX*.ttf")))


def text_req(text):
    return "shape f - - - 0 0 - - - " + ",".join(f"{ord(c):x}:{i}" for i, c in enumerate(text))


def corpus_search(ctx, shim, r, per_font):
    """The repository's own morx fonts x random short ASCII strings through shape(): no panic, no timeout,
    glyph count within the buffer's own limit."""
    groups, meta = [], []
    for f in corpus_fonts():
        texts = list(CORPUS_SEEDS)
        for _ in range(per_font):
            n = r.range(1, 8)
            k = r.below(3)
            if k == 0: t = "".join(r.choice(ALPHA) for _ in range(n))
            elif k == 1:
                a = [r.choice(ALPHA) for _ in range(3)]; t = "".join(r.choice(a) for _ in range(n))
            else: t = "".join(r.choice("AaLlvVXxYyZzBbMmHh") for _ in range(n))
            texts.append(t)
        groups.append([f"fontfile f {f}"] + [text_req(t) for t in texts]); meta.append((f, texts))
    outs = vlib.run_groups(shim, groups, timeout=300)
    total = nontriv = 0
    worst = {}
    for (f, texts), o in zip(meta, outs):
        base = os.path.basename(f)
        for t, x in zip(texts, o[1:]):
            total += 1
            if x.startswith("ok"):
                n = int(x.split()[1])
                if n != len(t): nontriv += 1
                if n > max(64 * len(t), 16384):
                    ctx.violation(f"{base}: {n} glyphs for {len(t)} characters", {"stage": "search",
                                  "stream": "morx-corpus", "font": base, "text": t, "glyphs": n})
            else:
                site = panic_site(x) if x.startswith("panic") else x[:20]
                key = (base, site)
                if key not in worst or len(t) < len(worst[key][0]) or (t == "lLAvA"):
                    if key in worst and worst[key][0] == "lLAvA": continue
                    worst[key] = (t, x)
    for (base, site), (t, x) in sorted(worst.items()):
        ctx.violation(f"{base} + {t!r}: shape() {'panics at ' + site if x.startswith('panic') else x}",
                      {"stage": "search", "stream": "morx-corpus", "font": base, "text": t,
                       "panic_at": site, "observed": x[:200]})
    ctx.note_search("morx-corpus", total, nontriv, fonts=len(meta),
                    rule="every *MORX*.ttf of tests/fonts x (7 fixed + random) ASCII strings <= 8 chars through "
                         "shape(); non-trivial = the glyph count differs from the character count")


def shape_vs_hook(ctx, shim, r, nfonts):
    """public shape() against the substitute hook on generated fonts (ties the hook to the public path):
    glyph ids after shape() = glyph ids of the hook result without the deleted glyph 0xFFFF."""
    lines, hooks = [], []
    for _ in range(nfonts):
        hexf, rec, chains = font_case(r, (0, 1, 2, 4), nchains=1, max_sub=2, wf=True)
        for _ in range(4):
            n = r.range(1, 8)
            gl = [r.range(1, NG - 1) for _ in range(n)]
            d = r.choice(["l", "r"])
            text = ",".join(f"{0xE000 + g - 1:x}:{i}" for i, g in enumerate(gl))
            cl = list(range(n))
            gs = ",".join(f"{g}:{c}" for g, c in zip(gl, cl))
            lines.append(f"morx shape {hexf} R 0 I {d} 0 - {text}")
            hooks.append(f"morx run {hexf} R 0 I {d} 0 - - - {gs}")
    a = vlib.run_lines(shim, lines, timeout=120)
    b = vlib.run_lines(shim, hooks, timeout=120)
    total = nontriv = bad = 0
    for ln, hk, x, y in zip(lines, hooks, a, b):
        total += 1
        if not (x.startswith("ok") and y.startswith("ok")):
            if x.split()[:1] != y.split()[:1]:
                bad += 1
                if bad <= 1:
                    ctx.violation("shape() and the substitute hook disagree on crashing", {"stage": "search",
                                  "stream": "morx-shape-vs-hook", "request": ln, "shape": x[:200], "hook": y[:200]})
            continue
        gx = gids_of(x.split()[1])
        gy = [g for g in gids_of(y.split()[3]) if g != 0xFFFF]
        rtl = " I r " in ln
        if rtl: gx = gx[::-1]       # shape() returns visual order for right-to-left text
        if gy != [int(t.split(":")[0]) for t in hk.split()[-1].split(",")]: nontriv += 1
        if gx != gy:
            bad += 1
            if bad <= 1:
                ctx.violation("shape() differs from hb_aat_layout_substitute on the same glyphs", {"stage": "search",
                              "stream": "morx-shape-vs-hook", "request": ln, "shape": gx, "hook": gy})
    ctx.note_search("morx-shape-vs-hook", total, nontriv,
                    rule="generated fonts (cmap U+E000+i -> glyph i+1) x strings <= 8, LTR/RTL: glyph ids of shape() "
                         "== hook result minus deleted glyphs; non-trivial = the subtables changed the string")


def to_fontbuild_recipe(chains):
    """the same logical tables as a recipe of tools/fontbuild.py (an independently written builder)"""
    out = []
    for ch in chains:
        subs = []
        for st in ch["subtables"]:
            k = st["kind"]
            d = {"kind": k, "coverage": st["coverage"], "feature_flags": st["flags"]}
            if k == 4:
                d["map"] = dict(st["lookup"][1]); d["format"] = 6
            else:
                m, a = st["mach"], st["arrays"]
                d.update({"classes": dict(m["classes"]), "nclasses": m["nclasses"], "class_format": 6,
                          "states": [list(row) for row in m["states"]]})
                ents = []
                for ns, fl, x1, x2 in m["entries"]:
                    e = {"new_state": ns, "flags": fl}
                    if k == 1: e.update({"mark_index": x1, "current_index": x2})
                    elif k == 2: e.update({"action_index": x1})
                    elif k == 5: e.update({"current_insert_index": x1, "marked_insert_index": x2})
                    ents.append(e)
                d["entries"] = ents
                if k == 1: d["substitutions"] = [{"format": 6, "map": dict(seen)} for _, seen in a["lookups"]]
                elif k == 2: d.update({"lig_actions": a["actions"], "components": a["components"], "ligatures": a["ligatures"]})
                elif k == 5: d["insert_glyphs"] = a["glyphs"]
            subs.append(d)
        out.append({"default_flags": ch["default"], "subtables": subs,
                    "features": [{"type": t, "setting": sg, "enable": en, "disable": di} for t, sg, en, di in ch["features"]]})
    return {"num_glyphs": NG, "cmap": "pua", "morx": {"version": 2, "chains": out}}


def fontbuild_cross(ctx, shim, r, nfonts):
    """The same well-formed tables serialised by this file's builder and by tools/fontbuild.py (different
    lookup formats and a different array layout) must behave identically in the crate. Active once
    tools/fontbuild.py (with morx support) is present, i.e. after the merge into main."""
    try:
        import fontbuild
    except Exception:
        ctx.cov.setdefault("probes", {})["fontbuild-cross"] = "tools/fontbuild.py not present in this worktree: stream skipped"
        return
    la, lb = [], []
    for it in range(nfonts):
        kind = [0, 1, 2, 4, 5][it % 5]
        hexf, rec, chains = font_case(r, (kind,), nchains=1, max_sub=2, wf=True)
        hexb = fontbuild.build(to_fontbuild_recipe(chains)).hex()
        for _ in range(5):
            n = r.range(1, 8)
            gs = ",".join(f"{r.below(NG)}:{i}" for i in range(n))
            tail = f"R 0 I {r.choice(['l', 'r', 't'])} {r.choice([0, 1, 2])} {r.choice([20, 60, 200])} - - {gs}"
            la.append(f"morx run {hexf} {tail}"); lb.append(f"morx run {hexb} {tail}")
    a = vlib.run_lines(shim, la, timeout=120); b = vlib.run_lines(shim, lb, timeout=120)
    bad = nontriv = 0
    for x, y, l1, l2 in zip(a, b, la, lb):
        if x.startswith("ok") and x.split()[3] != l1.split()[-1]: nontriv += 1
        if canon(x) != canon(y):
            bad += 1
            if bad <= 1:
                ctx.violation("the same morx tables built by C17.py and by fontbuild.py behave differently",
                              {"stage": "search", "stream": "morx-fontbuild-cross", "request": l1, "request_fontbuild": l2,
                               "own_builder": x[:300], "fontbuild": y[:300]})
    ctx.note_search("morx-fontbuild-cross", len(la), nontriv, mismatches=bad,
                    rule="well-formed tables x strings <= 8: crate result on this file's font == crate result on "
                         "fontbuild.py's font; non-trivial = the string was changed")


def d17_probe(ctx, shim):
    """D17 (repaired in the crate by the fix commit \"morx non-contextual subtable looks up the feature range of the
    glyph being substituted\") through the public API: a non-contextual subtable switched on by `smcp` for clusters
    [2,4) only. Kept as a permanent regression probe; also smcp[0:2] (used to substitute every glyph)."""
    r = vlib.Rng(0, "d17")
    seen = {g: g for g in range(NG)}
    seen.update({g: g + 1 for g in range(1, 8)})
    lk = (U16(0) + b"".join(U16(seen[g]) for g in range(NG)), seen)
    chains = [{"default": 0, "features": [(37, 1, 1, 0xFFFFFFFF)],
               "subtables": [{"kind": 4, "coverage": 0x20, "flags": 1, "lookup": lk}]}]
    morx, tok = build_morx(r, chains, NG)
    font = build_font(NG, morx, build_feat([(37, 2, False)]))
    gl = [1, 2, 3, 4, 5]
    text = ",".join(f"{0xE000 + g - 1:x}:{i}" for i, g in enumerate(gl))
    feat = f"{tag_hex('smcp')}:1:2:4"
    ln = f"morx shape {font.hex()} R 0 I l 0 {feat} {text}"
    out = vlib.run_lines(shim, [ln], nproc=1)[0]
    want = [1, 2, 4, 5, 5]        # only the glyphs of clusters 2 and 3 go through the lookup
    got = gids_of(out.split()[1]) if out.startswith("ok") else out
    ctx.cov.setdefault("probes", {})["D17"] = {"request_feature": "smcp[2:4]=1", "glyphs_in": gl, "expected": want,
                                               "observed": got}
    ln2 = f"morx shape {font.hex()} R 0 I l 0 {tag_hex('smcp')}:1:0:2 {text}"
    out2 = vlib.run_lines(shim, [ln2], nproc=1)[0]
    got2 = gids_of(out2.split()[1]) if out2.startswith("ok") else out2
    if got2 != [2, 3, 3, 4, 5]:
        ctx.violation(f"non-contextual subtable ignores the feature range: smcp[0:2] on glyphs {gl} gives {got2}, "
                      f"expected [2, 3, 3, 4, 5] (D17)", {"stage": "search", "stream": "morx-d17", "request": ln2,
                      "feature": "smcp[0:2]=1", "expected": [2, 3, 3, 4, 5], "observed": got2})
    if got != want:
        ctx.violation(f"non-contextual subtable ignores the feature range: smcp[2:4] on glyphs {gl} gives {got}, "
                      f"expected {want} (D17)", {"stage": "search", "stream": "morx-d17", "request": ln,
                      "feature": "smcp[2:4]=1", "expected": want, "observed": got})
    ctx.note_search("morx-d17", 2, 2, rule="two fixed probes of the feature-range handling of the non-contextual subtable")


# finding F2 (repaired in the crate: "morx insertion subtable inserts nothing when the glyph list reaches past the
# insertion table"): a font found by the morx-run generator whose single insertion subtable made a 3-glyph string
# cost work cubic in max_ops — an out-of-range marked-insert index made InsertionCtx::transition return
# (`glyphs.get(i)?`) right after move_to(mark)+copy_glyph, so the cursor stayed rewound at the mark (=0) and one
# glyph was duplicated; drive re-scanned the whole buffer once per unit of max_ops, and every re-scanned glyph ran a
# zero-count marked insertion (move_to(0) and back: O(n) for 0 ops). With the default budget of shape()
# (max_ops = 16384) the 3 glyphs did not finish in 15 minutes. Kept as a permanent timing probe (also
# corpus/C01/morx_insertion_slow.json for the C01 check).
SLOW_FONT_HEX = "000100000006004000020020636d6170000000000000006c000000346865616400000000000000a0000000366868656100000000000000d800000024686d747800000000000000fc000000306d617870000000000000012c000000066d6f72780000000000000134000000dc000000010003000a0000000c000c0000000000280000000000000002000000610000006b000000010000e0000000e00a000000010001000000010000000000005f0f3cf5000003e8000000000000000000000000000000000000000003e803e8000000080002000000000000000100000320ff38000003e80000000003e800010000000000000000000000000000000c01f4000001fe00000208000002120000021c00000226000002300000023a000002440000024e0000025800000262000000005000000c0000000200000000000100000001000000d40000000200000001000e000100000001000000000001000200000001fffffff9000000ac00000005000000010000000700000014000000680000002e0000005e0000000600010001000100050006000300020001000400040001000148610064ffff00010c620002ffff00000c430001000100020861ffff0056000200000003000200030043ffffffff000c00030008000300050005000100030000000200000000000200020000000100080000000300010004000300050005000100030001000000050005000300030000"
SLOW_FONT_RECIPE = "12 0 1 1 2 14 1 1 0 1 2 1 4294967289 1 0 1 5 7 12 0 6 1 1 2 1 3 1 4 5 5 6 6 3 7 2 8 1 9 4 10 4 11 1 28 5 1 3 0 2 0 0 2 2 0 1 8 0 3 1 4 3 5 5 1 3 1 0 5 5 3 3 0 14 1 18529 100 65535 1 3170 2 65535 0 3139 1 1 2 2145 65535 86 2 0 3 2 3 67 65535 65535 12 3 8 3 5 5 1 3 0 2 0 0 2 2 0 1 8 0 3 1 4 3 5 5 1 3 1 0 5 5 3 3 33 12 3 8 3 5 5 1 3 0 2 0 0 2 2 0 1 8 0 3 1 4 3 5 5 1 3 1 0 5 5 3 3 0"
SLOW_GLYPHS = "11:2,8:1,0:0"


def slow_probe(ctx, shim, model):
    import time
    obs = []
    for mo in ("400", "3200", "-"):
        ln = f"morx run {SLOW_FONT_HEX} R {SLOW_FONT_RECIPE} I l 0 {mo} - - {SLOW_GLYPHS}"
        t0 = time.time(); x = vlib.run_lines(shim, [ln], nproc=1, timeout=60)[0]; dt = time.time() - t0
        y = vlib.run_lines(model, [ln], nproc=1, timeout=120)[0]
        obs.append({"max_ops": mo, "seconds": round(dt, 3), "model_agrees": canon(x) == canon(y),
                    "glyphs_out": len(gids_of(x.split()[3])) if x.startswith("ok") else x[:30]})
    t0 = time.time()
    z = vlib.run_groups(shim, [["font f " + SLOW_FONT_HEX, "shape f l - - 0 0 - - - 6b:0,68:1,21:2"]], nproc=1, timeout=60)[0][1]
    obs.append({"shape()": "kh!", "seconds": round(time.time() - t0, 3), "reply": z[:40]})
    ctx.cov.setdefault("probes", {})["F2-insertion-rescan"] = {"glyphs_in": SLOW_GLYPHS, "observations": obs}
    slow = [o for o in obs if o["seconds"] > 10 or str(o.get("glyphs_out", o.get("reply", ""))).startswith(("timeout", "abort"))]
    if slow or any(not o.get("model_agrees", True) for o in obs) or not z.startswith("ok 14 "):
        ctx.violation("F2 probe (insertion subtable with an out-of-range glyph list): slow, crashing or not as the model",
                      {"stage": "search", "stream": "morx-f2", "observations": obs})
    ctx.note_search("morx-f2", len(obs), len(obs), rule="the former hang: 3 glyphs on SLOW_FONT_HEX at max_ops 400 / 3200 / "
                    "default through the hook and through shape(); must finish in < 10 s and agree with the model")



# ------------------------------------------------------------------------------------------------
# shape() on fonts that carry the morx table NEXT TO other layout tables ("table environments").
# The glyph string after AAT substitution must be the morx result with the deleted-glyph records (0xFFFF) purged,
# whoever positions afterwards (GPOS / kerx / kern / nothing) and whether or not there is a GSUB / GDEF.

DELETED = 0xFFFF


def kerx_table(pairs):
    """kerx version 2 with one format 0 subtable (horizontal, no cross-stream)"""
    pairs = sorted({(l, r): v for l, r, v in pairs}.items())
    body = U32(len(pairs), 0, 0, 0) + b"".join(U16(l, r) + struct.pack(">h", v) for (l, r), v in pairs)
    return U16(2, 0) + U32(1) + U32(12 + len(body)) + bytes([0, 0, 0, 0]) + U32(0) + body


def rand_env(r, base=False):
    """which tables accompany morx: gsub 0 none / 1 no features / 2 one single substitution under `ccmp`;
    gpos 0 none / 1 no features / 2 pair kerning under `kern` / 3 single adjustment under `mark`; kerx, kern, gdef 0 / 1"""
    if base:
        return {"gsub": 0, "gpos": 0, "kerx": 0, "kern": 0, "gdef": 0, "gsub_map": {}}
    e = {"gsub": r.choice([0, 0, 1, 2]), "gpos": r.choice([0, 1, 1, 2, 2, 3]), "kerx": r.choice([0, 0, 1]),
         "kern": r.choice([0, 0, 1]), "gdef": r.choice([0, 1]), "gsub_map": {}}
    if e["gsub"] == 2:
        e["gsub_map"] = {g: r.range(1, NG - 1) for g in r.sample(list(range(1, NG)), r.range(1, 5))}
    return e


def env_token(e):
    bits = [e["gsub"] != 0, e["gpos"] != 0, e["gpos"] == 2, e["kerx"] != 0, e["kern"] != 0, e["gdef"] != 0]
    mp = ".".join(f"{a}>{b}" for a, b in sorted(e["gsub_map"].items())) or "-"
    return "".join("1" if b else "0" for b in bits) + "/" + mp


def env_name(e):
    return "+".join(["morx"] + [k + (str(e[k]) if k in ("gsub", "gpos") else "") for k in ("gsub", "gpos", "kerx", "kern", "gdef")
                                if e[k]])


def env_font(r, morx, feat, e):
    """the sfnt through tools/fontbuild.py (GSUB / GPOS / GDEF / kern serialised there), morx / feat / kerx verbatim"""
    import fontbuild
    rec = {"num_glyphs": NG, "cmap": "pua", "advances": [500 + 10 * g for g in range(NG)],
           "tables": {"morx": morx}}
    if feat is not None:
        rec["tables"]["feat"] = feat
    pairs = lambda: [(r.range(1, NG - 1), r.range(1, NG - 1), r.range(-90, 90)) for _ in range(r.range(1, 6))]
    if e["gsub"] == 1:
        rec["gsub"] = {"features": [], "lookups": []}
    elif e["gsub"] == 2:
        cov = sorted(e["gsub_map"])
        rec["gsub"] = {"features": [{"tag": "ccmp", "lookups": [0]}],
                       "lookups": [{"type": 1, "flag": 0, "subtables": [{"format": 2, "coverage": cov,
                                                                          "subst": [e["gsub_map"][g] for g in cov]}]}]}
    if e["gpos"] == 1:
        rec["gpos"] = {"features": [], "lookups": []}
    elif e["gpos"] == 2:
        first = sorted(set(r.range(1, NG - 1) for _ in range(3)))
        rec["gpos"] = {"features": [{"tag": "kern", "lookups": [0]}],
                       "lookups": [{"type": 2, "flag": 0, "subtables": [{"format": 1, "coverage": first, "pairsets": [
                           [(s, {"xAdvance": r.range(-80, 80)}, None) for s in sorted(set(r.range(1, NG - 1) for _ in range(3)))]
                           for _ in first]}]}]}
    elif e["gpos"] == 3:
        cov = sorted(set(r.range(1, NG - 1) for _ in range(4)))
        rec["gpos"] = {"features": [{"tag": "mark", "lookups": [0]}],
                       "lookups": [{"type": 1, "flag": 0, "subtables": [{"format": 1, "coverage": cov,
                                                                          "value": {"xPlacement": r.range(-50, 50), "xAdvance": r.range(-50, 50)}}]}]}
    if e["kerx"]:
        rec["tables"]["kerx"] = kerx_table(pairs())
    if e["kern"]:
        rec["kern"] = [{"pairs": pairs()}]
    if e["gdef"]:
        rec["gdef"] = {"classes": {g: r.choice([1, 1, 2, 3]) for g in r.sample(list(range(1, NG)), r.range(1, 8))}}
    return fontbuild.build(rec)


def deleting_subst(r):
    """a substitution map in which some glyphs go to the deleted glyph"""
    d = {g: r.below(NG) for g in r.sample(list(range(NG)), r.range(1, 6))}
    for g in r.sample(list(range(1, NG)), r.range(1, 4)):
        d[g] = DELETED
    return d


def deleting_chains(r, with_ins):
    """well-formed chains (C17's generator) in which deletion is frequent: non-contextual and contextual lookups that
    map to 0xFFFF, ligature subtables (which delete the components they consume)"""
    kinds = (2, 2, 4, 4, 1, 0, 5) if with_ins else (2, 2, 4, 4, 1, 0)
    chains = rand_chains(r, None, kinds, 3, wf=True)
    for ch in chains:
        for st in ch["subtables"]:
            if st["kind"] == 4 and r.chance(2, 3):
                st["lookup"] = identity_lookup(r, deleting_subst(r))
            elif st["kind"] == 1 and r.chance(2, 3):
                st["arrays"]["lookups"] = [identity_lookup(r, deleting_subst(r)) if r.chance(1, 2) else
                                           build_lookup(deleting_subst(r), r.choice([2, 6]), NG, term=r.chance(1, 2))
                                           for _ in st["arrays"]["lookups"]]
                st["built"] = build_stx(r, 1, st["mach"], NG, st["arrays"])
            if st["kind"] in (1, 2, 4) and r.chance(1, 2):
                st["flags"] = 1          # switched on by the usual default flags
                st["coverage"] |= 0x20   # all directions
    return chains


ENV_TAGS = [t for t in USER_TAGS if t != "kern"]     # `kern=0` changes who positions; not part of this stream's model


def env_user_feats(r, cl):
    fs = []
    for _ in range(r.below(3)):
        a = r.choice(cl); k = r.below(4)
        if k == 0: s, e = 0, 0xFFFFFFFF
        elif k == 1: s, e = a, a + r.range(1, 4)
        elif k == 2: s, e = a, 0xFFFFFFFF
        else: s, e = 0, a
        fs.append(f"{tag_hex(r.choice(ENV_TAGS))}:{r.choice([0, 1, 1, 2])}:{s}:{e}")
    return ",".join(fs) or "-"


def env_clusters(r, n):
    k = r.below(4)
    if k == 0: return list(range(n))
    c, out = r.below(4), []
    for _ in range(n):
        out.append(c)
        c += r.range(1, 4) if k == 1 else (r.below(2) if k == 2 else r.choice([0, 1, 1, 2, 3]))
    return out


def env_cases(r, nfonts, per_font=3, nenv=3):
    """[(shapeenv request, hook request, meta)]: every text on the bare morx font and on `nenv` environments"""
    cases = []
    for it in range(nfonts):
        with_feat = r.chance(1, 3)
        chains = deleting_chains(r, with_ins=(it % 4 == 0))
        ls_info = None
        if it % 6 == 5:
            # a stack-machine ligature subtable (component stack deeper than the 64 remembered positions), alone or in front
            # of a non-contextual subtable that deletes
            st, ls_info = stack_subtable(r)
            subs = [st]
            if r.chance(1, 3):
                subs.append({"kind": 4, "coverage": 0x20, "flags": 1, "lookup": identity_lookup(r, deleting_subst(r))})
            chains = [{"default": 1, "features": [], "subtables": subs}]
            with_feat = False
        morx, tok = build_morx(r, chains, NG)
        feat_rows = rand_feat_table(r) if with_feat else None
        feat = build_feat(feat_rows) if feat_rows is not None else None
        ftok = [NG, 1 if feat_rows is not None else 0]
        if feat_rows is not None:
            ftok += [len(feat_rows)]
            for ty, ns, ex in feat_rows:
                ftok += [ty, ns, 1 if ex else 0]
        rec = " ".join(map(str, ftok + tok))
        envs = [rand_env(r, base=True)] + [rand_env(r) for _ in range(nenv)]
        fonts = [env_font(r, morx, feat, e).hex() for e in envs]
        for _ in range(per_font):
            n = r.range(1, 8)
            pool = [r.range(1, NG - 1) for _ in range(r.range(1, 4))] if r.chance(1, 2) else list(range(1, NG))
            gl = [r.choice(pool) for _ in range(n)]
            if ls_info is not None:
                gl = stack_text(r, ls_info, maxlen=r.choice([70, 100, 140]))[0] or gl
                n = len(gl)
            cl = env_clusters(r, n)
            d = r.choice(["l", "l", "r", "r", "t", "b"])
            level = r.choice([0, 0, 1, 2])
            fs = env_user_feats(r, cl) if with_feat else "-"
            text = ",".join(f"{0xE000 + g - 1:x}:{c}" for g, c in zip(gl, cl))
            # the substitute hook sees the buffer as morx does: bottom-to-top text has been reversed and is top-to-bottom
            hg, hd = (list(zip(gl, cl))[::-1], "t") if d == "b" else (list(zip(gl, cl)), d)
            hook = f"morx run {fonts[0]} R 0 I {hd} {level} - - {fs} " + ",".join(f"{g}:{c}" for g, c in hg)
            group = len(cases)
            for e, hexf in zip(envs, fonts):
                cases.append((f"morx shapeenv {hexf} R {rec} I {env_token(e)} {d} {level} {fs} {text}",
                              hook, {"env": e, "base": e is envs[0], "group": group,
                                     "insertion": any(st["kind"] == 5 for ch in chains for st in ch["subtables"]), "dir": d, "level": level, "glyphs": gl, "clusters": cl,
                                     "features": fs}))
    return cases


def canon_env(s):
    """the advances after ` A ` are for the search oracle only (the model has no positions)"""
    return canon(s.split(" A ")[0])


def classify_env(ln, out):
    t = ln.split(); i = t.index("I")
    ks = ["env:" + t[i + 1].split("/")[0], "dir:" + t[i + 2], "level:" + t[i + 3]]
    if out.startswith("ok"):
        o = out.split()
        ks.append("plan:" + o[3])
    else:
        ks.append(out[:16])
    return ks


def purge_lines(r, n):
    lines = []
    for _ in range(n):
        k = r.below(11)
        gs = []
        mode = r.below(5)
        c = r.below(5)
        for _ in range(k):
            g = DELETED if r.chance(1, 2) else r.below(NG)
            gs.append(f"{g}:{c}")
            if mode == 0: c += 1
            elif mode == 1: c += r.below(3)
            elif mode == 2: c = max(0, c - r.below(3))
            elif mode == 3: c = r.below(6)
            else: c += r.choice([0, 0, 1, 2])
        lines.append(f"morx purge {r.choice([0, 0, 1, 2])} " + (",".join(gs) or "-"))
    return lines


def classify_purge(ln, out):
    t = ln.split()
    n = 0 if t[3] == "-" else len(t[3].split(","))
    m = 0 if not out.startswith("ok") or out.split()[1] == "-" else len(out.split()[1].split(","))
    return ["level:" + t[2], "deleted:%d" % min(n - m, 5), "kept:%d" % min(m, 5)]


def pairs_of(field):
    return [] if field == "-" else [tuple(int(v) for v in t.split(":")) for t in field.split(",")]


def purge_search(ctx, shim, lines):
    """oracle on the crate alone: hb_aat_layout_remove_deleted_glyphs keeps exactly the records whose glyph is not
    0xFFFF, in order, and every cluster value that comes out went in; at the merging levels 0 / 1, for a string whose
    clusters do not decrease: the clusters that come out do not decrease either, no record gets a larger cluster than
    it had, and the smallest cluster value survives when anything does"""
    outs = vlib.run_lines(shim, lines)
    bad = nontriv = 0
    worst = None
    for ln, x in zip(lines, outs):
        inp = pairs_of(ln.split()[3])
        level = int(ln.split()[2])
        if any(g == DELETED for g, _ in inp): nontriv += 1
        got = pairs_of(x.split()[1]) if x.startswith("ok") else None
        want = [g for g, _ in inp if g != DELETED]
        why = None
        if got is None or [g for g, _ in got] != want: why = f"expected the glyphs {want}"
        elif not {c for _, c in got} <= {c for _, c in inp}: why = "a cluster value that was not in the input"
        elif level != 2 and got and all(a[1] <= b[1] for a, b in zip(inp, inp[1:])):
            kept = [c for g, c in inp if g != DELETED]
            if any(a[1] > b[1] for a, b in zip(got, got[1:])): why = "clusters no longer monotone"
            elif any(c > k for (_, c), k in zip(got, kept)): why = "a record got a larger cluster than it had"
            elif min(c for _, c in got) != min(c for _, c in inp): why = "the smallest cluster value was lost"
        if why:
            bad += 1
            if worst is None or len(ln) < len(worst[0]): worst = (ln, level, x, why, want)
    if worst:
        ln, level, x, why, want = worst
        ctx.violation(f"hb_aat_layout_remove_deleted_glyphs on {ln.split()[3]} (level {level}) gives {x}: {why} ({bad} requests)",
                      {"stage": "search", "stream": "morx-purge", "request": ln, "expected": want, "why": why,
                       "observed": x[:300], "count": bad})
    ctx.note_search("morx-purge", len(lines), nontriv, mismatches=bad,
                    rule="glyph strings <= 10 (half of the records deleted glyphs; ascending / repeated / descending / random "
                         "clusters) x 3 levels through the purge hook: the glyph ids that come out are exactly the non-deleted "
                         "ones in order, no new cluster value; levels 0 / 1 on non-decreasing clusters: still non-decreasing, no "
                         "record's cluster grows, the minimum survives; non-trivial = something was deleted")


def env_search(ctx, shim, cases):
    """oracles on the crate alone, over the same requests as the morx-shape-env correspondence.  Whether morx substitutes is
    decided here from the request (horizontal text, or no GSUB table: harfbuzz#2124), not read from the crate's plan:
    (1) no glyph 0xFFFF in the output of shape();
    (2) if morx substitutes, the glyph ids of shape() are the glyph ids of hb_aat_layout_substitute (hook, on the bare morx
        font) without the deleted glyphs, reversed for right-to-left text; if GSUB does (vertical text, GSUB present), they
        are the input glyphs through the font's single substitution;
    (3) the glyph ids do not depend on the environment (same substituting table);
    (4) on the bare morx font (nothing positions) every horizontal advance is the hmtx advance of the glyph it belongs to."""
    reqs = [c[0] for c in cases]
    hooks = sorted({c[1] for c in cases})
    a = vlib.run_lines(shim, reqs, timeout=300)
    hb = dict(zip(hooks, vlib.run_lines(shim, hooks, timeout=300)))
    total = nontriv = 0
    dist = {}
    found = {}
    base = {}
    for (ln, hk, m), x in zip(cases, a):
        total += 1
        name = env_name(m["env"])
        y = hb[hk]
        if not x.startswith("ok"):
            if y.startswith("ok"):
                found.setdefault("crash", []).append((len(m["glyphs"]), ln, m, x, y, None, hk))
            continue
        o = x.split()
        got = pairs_of(o[1]); plan = o[3]
        gids = [g for g, _ in got]
        exp_morx = m["dir"] in "lr" or m["env"]["gsub"] == 0
        if m["base"]:
            base[m["group"]] = gids
        dist["plan:" + plan] = dist.get("plan:" + plan, 0) + 1
        want = None
        if exp_morx and y.startswith("ok"):
            hooked = gids_of(y.split()[3])
            want = [g for g in hooked if g != DELETED]
            if m["dir"] == "r": want = want[::-1]
            if DELETED in hooked:
                nontriv += 1
                dist["deleted-in:" + name] = dist.get("deleted-in:" + name, 0) + 1
        elif not exp_morx:
            want = [m["env"]["gsub_map"].get(g, g) for g in m["glyphs"]]
            if m["dir"] == "b": want = want[::-1]
        key = None
        if DELETED in gids: key = "deleted-glyph-in-output"
        elif want is not None and gids != want: key = "differs-from-substitute-hook" if exp_morx else "differs-from-gsub"
        elif exp_morx and m["group"] in base and base[m["group"]] != gids: key = "depends-on-environment"
        elif m["base"] and m["dir"] in "lr" and len(o) > 5 and o[5] != "-" and \
                [int(v) for v in o[5].split(",")] != [500 + 10 * g if g < NG else None for g in gids]:
            key = "advance-not-of-its-glyph"
        if key:
            found.setdefault(key, []).append((len(m["glyphs"]) * 100 + len(name), ln, m, x, y, want, hk))
    for key, lst in sorted(found.items()):
        lst.sort(key=lambda t: t[0])
        _, ln, m, x, y, want, hk = lst[0]
        envs = sorted({env_name(t[2]["env"]) for t in lst})
        ctx.violation(f"shape() on a font with {env_name(m['env'])}: {key} — glyphs {m['glyphs']} clusters {m['clusters']} "
                      f"dir {m['dir']} level {m['level']} features {m['features']} -> {x[:200]}"
                      + (f", expected the glyph ids {want}" if want is not None else "")
                      + f" ({len(lst)} requests; environments: {', '.join(envs[:8])})",
                      {"stage": "search", "stream": "morx-shape-env", "class": key, "environment": env_name(m["env"]),
                       "request": ln, "hook_request": hk,
                       "glyphs": m["glyphs"], "clusters": m["clusters"],
                       "dir": m["dir"], "level": m["level"], "features": m["features"], "expected": want,
                       "observed": x[:400], "substitute_hook": y[:400], "count": len(lst), "environments": envs})
    ctx.note_search("morx-shape-env", total, nontriv, distribution=dist,
                    violations_by_class={k: len(v) for k, v in found.items()},
                    rule="generated well-formed morx tables in which deletion is frequent (non-contextual / contextual lookups "
                         "mapping to 0xFFFF, ligatures, plus rearrangement and - every 4th font - insertion), each text on the "
                         "bare morx font and on 3 environments drawn from GSUB (none / no features / ccmp single substitution) x "
                         "GPOS (none / no features / kern pairs / mark-feature adjustment) x kerx x kern x GDEF; every 6th font a stack-machine "
                         "ligature subtable with texts of 70-140 glyphs (component stack deeper than 64); otherwise strings <= 8 over "
                         "the PUA alphabet, 4 directions, 3 levels, ascending / gapped / repeated clusters, 0-2 user features on "
                         "fonts with feat; oracles: no 0xFFFF in the output, glyph ids = substitute hook minus deleted glyphs "
                         "(horizontal text or no GSUB; else = input through the GSUB substitution), glyph ids independent of the "
                         "environment, on the bare font every advance is the hmtx advance of its glyph; non-trivial = the hook "
                         "result contains a deleted glyph")

# ------------------------------------------------------------------------------------------------
# ligature subtables with a DEEP component stack.  The stack of a ligature subtable is never emptied except by an
# underflow: every ligature formed stays on it, and so does every component that is pushed and not consumed, so its depth
# grows over a whole run of text.  rustybuzz (like HarfBuzz) remembers the newest 64 positions in a ring
# (HB_MAX_CONTEXT_LENGTH) under an unbounded depth counter.  "Stack machines": component classes that push, trigger classes
# that (push and) perform an action list popping j components, neutral glyphs; texts are words of k components + a trigger
# with k and j drawn around the ring size and its multiples, so that actions run with the depth just below / at / above
# 64, 128, ... and pop up to (and past) everything the ring remembers.

RING = 64
LS_POPS = [1, 2, 2, 3, 3, 4, 5, 8, 17, 33, 62, 63, 64, 64, 65, 70]


def stack_subtable(r):
    """a well-formed ligature subtable of the shape described above; returns (subtable, info for the text generator)"""
    ncomp = r.range(1, 2)
    ntrig = r.range(1, 3)
    nneut = r.below(2)
    ncls = 4 + ncomp + ntrig + nneut
    comp_cls = list(range(4, 4 + ncomp))
    trig_cls = list(range(4 + ncomp, 4 + ncomp + ntrig))
    neut_cls = list(range(4 + ncomp + ntrig, ncls))
    gl = r.shuffle(list(range(1, NG)))
    classes, by_class = {}, {}
    for i, c in enumerate(comp_cls + trig_cls + neut_cls):
        classes[gl[i]] = c
    for g in gl[ncomp + ntrig + nneut:]:
        k = r.below(4)
        if k <= 1: classes[g] = r.choice(comp_cls)           # most glyphs are components
        elif k == 2 and neut_cls: classes[g] = r.choice(neut_cls)
        # else: out of bounds (class 1)
    for g, c in classes.items():
        by_class.setdefault(c, []).append(g)
    oob = [g for g in range(1, NG) if g not in classes]
    acts = []
    trig = {}
    small = r.chance(1, 4)                                  # a font whose action lists are all short
    for c in trig_cls:
        j = r.choice(LS_POPS[:8]) if small else r.choice(LS_POPS)
        start = len(acts)
        for a in range(j):
            v = r.below(8)
            if a == j - 1: v |= 0x80000000 | (0x40000000 if r.chance(1, 2) else 0)
            elif r.chance(1, 12 if j > 8 else 4): v |= 0x40000000      # a Store in the middle of the list
            acts.append(v)
        pushes = r.chance(3, 4)
        ns = r.choice([0, 2, 2])
        trig[c] = {"pops": j, "start": start, "pushes": pushes, "new_state": ns}
    arrays = {"actions": acts, "components": [r.below(2) for _ in range(NG + 8)],
              "ligatures": [r.range(1, NG - 1) for _ in range(max(LS_POPS) + 2)]}
    entries = []

    def ent(e):
        if e not in entries: entries.append(e)
        return entries.index(e)

    rows = []
    for st_ in range(3):
        row = []
        for c in range(ncls):
            if c in comp_cls: row.append(ent((2, 0x8000, 0, 0)))
            elif c in trig_cls:
                t = trig[c]
                row.append(ent((t["new_state"], 0x2000 | (0x8000 if t["pushes"] else 0), t["start"], 0)))
            else: row.append(ent((st_ if st_ == 2 else 0, 0, 0, 0)))
        rows.append(row)
    mach = {"nclasses": ncls, "classes": classes, "states": rows, "entries": entries}
    cov = 0x20 | (0x40 if r.chance(1, 4) else 0) | (0x10 if r.chance(1, 4) else 0)
    st = {"kind": 2, "coverage": cov, "flags": 1, "mach": mach, "arrays": arrays}
    st["built"] = build_stx(r, 2, mach, NG, arrays)
    return st, {"comp": [g for c in comp_cls for g in by_class[c]], "trig": {by_class[c][0]: trig[c] for c in trig_cls},
                "neutral": [g for c in neut_cls for g in by_class.get(c, [])] + oob}


def stack_text(r, info, maxlen=260):
    """words of k component glyphs + a trigger glyph.  The run lengths are drawn so that the stack depth at the triggers
    lands around the ring size and its multiples; returns (glyphs, depth profile for the distribution)"""
    trigs = sorted(info["trig"])
    gl, depth, prof = [], 0, []
    mode = r.below(6)
    # 0: many short words (the depth creeps up by the ligatures that stay); 1: one long run to the ring size; 2: to twice
    # the ring size; 3: long run then short words; 4: short text; 5: mixed
    target = {0: None, 1: RING, 2: 2 * RING, 3: RING, 4: None, 5: None}[mode]
    budget = r.range(2, 12) if mode == 4 else maxlen
    first = True
    while len(gl) < budget:
        t = r.choice(trigs)
        ti = info["trig"][t]
        if first and target is not None:
            k = max(0, target - r.range(0, 6) - (1 if ti["pushes"] else 0) + r.below(4))
        elif mode == 5 and r.chance(1, 6):
            k = r.choice([30, 61, 62, 63, 64, 65, 66, 70])
        else:
            k = r.choice([0, 1, 1, 1, 2, 2, 3, 4])
        first = False
        if len(gl) + k + 1 > maxlen: break
        for _ in range(k):
            if info["neutral"] and r.chance(1, 10): gl.append(r.choice(info["neutral"]))
            gl.append(r.choice(info["comp"]))
        gl.append(t)
        depth += k + (1 if ti["pushes"] else 0)
        prof.append((depth, ti["pops"]))
        depth = 0 if ti["pops"] > depth else depth - ti["pops"] + 1        # a guide (exact without middle Stores)
        if mode in (1, 2) and len(prof) >= r.range(2, 6): break
    return gl[:maxlen], prof


def longstack_cases(r, nfonts, per_font=4):
    """[(hook request, spec request, shape request, meta)] on single-subtable stack-machine fonts"""
    cases = []
    for _ in range(nfonts):
        st, info = stack_subtable(r)
        chains = [{"default": 1, "features": [], "subtables": [st]}]
        morx, tok = build_morx(r, chains, NG)
        hexf = build_font(NG, morx).hex()
        rec = " ".join(map(str, [NG, 0] + tok))
        for _ in range(per_font):
            gl, prof = stack_text(r, info)
            if not gl: continue
            d = r.choice(["l", "l", "r", "t"])
            level = r.choice([0, 0, 1, 2])
            gs = ",".join(f"{g}:{i}" for i, g in enumerate(gl))
            text = ",".join(f"{0xE000 + g - 1:x}:{i}" for i, g in enumerate(gl))
            tail = f"{hexf} R {rec} I {d} {level} - - - {gs}"
            cases.append(("morx run " + tail, "morx spec " + tail, f"morx shape {hexf} R 0 I {d} {level} - {text}",
                          {"glyphs": gl, "dir": d, "level": level, "profile": prof,
                           "pops": sorted(t["pops"] for t in info["trig"].values())}))
    return cases


def depth_class(prof):
    """where the deepest action of the text ran, relative to the ring"""
    ks = set()
    for depth, pops in prof:
        m = depth % RING
        if depth >= RING and (m < 4 or m > RING - 4): ks.add("action-at-depth-near-multiple-of-ring")
        if depth > RING: ks.add("depth>ring")
        if depth > 2 * RING: ks.add("depth>2*ring")
        if pops >= RING - 2 and depth >= RING - 2: ks.add("pops-whole-ring")
        if pops > RING and depth > RING: ks.add("pops-past-ring")
        if depth >= RING and depth - pops < RING: ks.add("pops-across-ring-boundary")
    return sorted(ks) or ["shallow"]


def classify_longstack(ln, out):
    ks = [k for k in classify_run(ln, out) if not k.startswith("len-in:")]
    n = len(ln.split()[-1].split(","))
    ks.append("len-in:>=128" if n >= 128 else ("len-in:64-127" if n >= 64 else "len-in:<64"))
    return ks


def longstack_search(ctx, shim, model, cases):
    """Oracle = the reference interpreter of Spec/Aat (component stack of unbounded depth, the newest 64 remembered; an
    action that pops an older component is outside its domain).  Compared with it: (1) hb_aat_layout_substitute through the
    hook, all glyph ids incl. the deleted ones; (2) the public shape(): the glyph ids that come out are the reference's
    without the deleted glyphs (reversed for right-to-left text)."""
    a = vlib.run_lines(shim, [c[0] for c in cases], timeout=300)
    b = vlib.run_lines(model, [c[1] for c in cases], timeout=300)
    s = vlib.run_lines(shim, [c[2] for c in cases], timeout=300)
    total = nontriv = 0
    dist, found = {}, {}
    for (hk, sp, sh, m), x, y, z in zip(cases, a, b, s):
        total += 1
        for k in depth_class(m["profile"]): dist[k] = dist.get(k, 0) + 1
        if y == "undef":
            dist["outside-domain"] = dist.get("outside-domain", 0) + 1
            continue
        n = len(m["glyphs"])
        if not x.startswith("ok") or not z.startswith("ok"):
            bad = x if not x.startswith("ok") else z
            found.setdefault("crash", []).append((n, hk, sp, sh, m, x, y, z, None, None))
            continue
        exp = gids_of(y.split()[1])
        got = gids_of(x.split()[3])
        want_shape = [g for g in exp if g != DELETED]
        if m["dir"] == "r": want_shape = want_shape[::-1]
        got_shape = [g for g, _ in pairs_of(z.split()[1])]
        if exp != m["glyphs"]:
            nontriv += 1
            if any(d >= RING for d, _ in m["profile"]): dist["ligatures-formed-at-depth>=ring"] = dist.get("ligatures-formed-at-depth>=ring", 0) + 1
        if got != exp:
            found.setdefault("hook-differs", []).append((n, hk, sp, sh, m, x, y, z, exp, got))
        if got_shape != want_shape:
            found.setdefault("shape-differs", []).append((n, hk, sp, sh, m, x, y, z, want_shape, got_shape))
    for key, lst in sorted(found.items()):
        lst.sort(key=lambda t: t[0])
        n, hk, sp, sh, m, x, y, z, want, got = lst[0]
        if key == "crash":
            what = (f"ligature subtable with a deep component stack: {len(m['glyphs'])} glyphs, dir {m['dir']}: the crate gives "
                    f"{(x if not x.startswith('ok') else z)[:120]} where the AAT reference interpreter is defined")
        elif key == "hook-differs":
            i = next((i for i, (p, q) in enumerate(zip(want, got)) if p != q), min(len(want), len(got)))
            what = (f"ligature subtable with a deep component stack (action lists popping {m['pops']}; stack depth / pops at the "
                    f"actions {m['profile'][:8]}): hb_aat_layout_substitute on {len(m['glyphs'])} glyphs, dir {m['dir']}, differs from the "
                    f"AAT reference interpreter at glyph {i}: crate {got[max(0, i - 2):i + 3]}, reference {want[max(0, i - 2):i + 3]}")
        else:
            i = next((i for i, (p, q) in enumerate(zip(want, got)) if p != q), min(len(want), len(got)))
            what = (f"shape() on a morx font whose ligature subtable runs with a deep component stack (action lists popping "
                    f"{m['pops']}; stack depth / pops at the actions {m['profile'][:8]}): {len(m['glyphs'])} characters, dir {m['dir']}: "
                    f"{len(got)} glyphs come out, the AAT reference interpreter gives {len(want)}; first difference at output glyph "
                    f"{i}: crate {got[max(0, i - 2):i + 3]}, reference {want[max(0, i - 2):i + 3]}")
        ctx.violation(what + f" ({len(lst)} requests)",
                      {"stage": "search", "stream": "morx-longstack", "class": key, "request": sh if key != "hook-differs" else hk,
                       "shape_request": sh, "hook_request": hk, "spec_request": sp, "glyphs": m["glyphs"], "dir": m["dir"],
                       "level": m["level"], "depth_and_pops_at_actions": m["profile"], "expected": want, "observed": got,
                       "crate_hook": x[:200], "crate_shape": z[:200], "count": len(lst)})
    ctx.note_search("morx-longstack", total, nontriv, distribution=dist,
                    violations_by_class={k: len(v) for k, v in found.items()},
                    rule="stack-machine ligature fonts (1-2 component classes that push, 1-3 trigger classes that (push and) perform "
                         "an action list popping 1-5 / 8 / 17 / 33 / 62-65 / 70 components with Store on the last and sometimes in the "
                         "middle, neutral and out-of-bounds glyphs, ascending / descending / logical coverage) x texts of up to 260 "
                         "glyphs made of words `k components + trigger`, k drawn so that the stack depth at the actions lands around 64, "
                         "128 and in between (the depth grows by every ligature formed), LTR / RTL / TTB, 3 levels; oracles: substitute "
                         "hook == Spec/Aat reference interpreter (all glyph ids), shape() == reference minus deleted glyphs; "
                         "non-trivial = the reference changes the string; cases where an action pops a component older than the "
                         "newest 64 are outside the reference's domain (crate == model only)")


# ------------------------------------------------------------------------------------------------
# state-table subtables under RANGED user features: a subtable that is switched off for a stretch of the text is
# skipped there, and the machine is back in the start-of-text state behind it (HarfBuzz StateTableDriver::drive).
# Two generators share the segment / cluster / feature machinery:
#   * pattern machines ("real-font-like": a trie of class patterns, the action at the end of a pattern) for the
#     shape()-level oracle `whole text with the subtable off on some stretches == the pieces shaped separately`;
#   * the file's random machines, with texts that walk the generated state table to a non-initial state, put the
#     switched-off stretch there and go on with a glyph whose transition from that state differs from the one from
#     state 0 — for the crate / model correspondence through the substitute hook.

# OpenType tag -> (AAT feature type, selector that enables, selector that disables); Apple's font feature registry
# as mapped by HarfBuzz (hb-aat-layout.cc feature_mappings)
OFF_FEATS = [("liga", 1, 2, 3), ("dlig", 1, 4, 5), ("smcp", 37, 1, 0), ("ss01", 35, 2, 3), ("ss02", 35, 4, 5),
             ("zero", 14, 4, 5), ("c2sc", 38, 1, 0)]
GLOBAL_END = 0xFFFFFFFF


def ranged_plumbing(r, sub, extra_subs=True):
    """chain + feat rows in which subtable `sub` is governed by one OpenType feature.
    Returns (chains, feat_rows, plumb) with plumb = dict(tag, default_on, distractor tag or None)."""
    tag, ty, on, off = r.choice(OFF_FEATS)
    F = r.choice([1, 2, 4, 8, 0x10, 0x8000])
    G = r.choice([b for b in (0x20, 0x40, 0x100) if b != F])      # the bit of the always-on neighbours
    default_on = r.chance(1, 2)
    sub["flags"] = F if r.chance(3, 4) else F | 0x20000
    feats = [(ty, on, F, 0xFFFFFFFF), (ty, off, 0, 0xFFFFFFFF ^ F)]
    others = [t for t in OFF_FEATS if t[1] != ty]
    dis = r.choice(others) if r.chance(1, 2) else None
    if dis is not None and r.chance(1, 2):
        feats.append((dis[1], dis[2], 0x1000, 0xFFFFFFFF))       # a feature entry that moves an unrelated bit
    feats = r.shuffle(feats)
    subs = [sub]
    if extra_subs and r.chance(1, 3):
        nc = {"kind": 4, "coverage": 0x20, "flags": G, "lookup": identity_lookup(r, rand_subst(r, True))}
        subs = [nc, sub] if r.chance(1, 2) else [sub, nc]
    chains = [{"default": (F if default_on else 0) | G | r.choice([0, 0, 0x40000]), "features": feats, "subtables": subs}]
    types = {ty} | ({dis[1]} if dis is not None else set()) | {t for t in FEAT_TYPES if r.chance(1, 4)}
    rows = [(t, r.choice([1, 2, 4]), r.chance(1, 2)) for t in sorted(types)]
    return chains, rows, {"tag": tag, "default_on": default_on, "distractor": dis[0] if dis is not None else None}


def font_of(r, chains, rows):
    morx, tok = build_morx(r, chains, NG)
    font = build_font(NG, morx, build_feat(rows))
    ftok = [NG, 1, len(rows)]
    for ty, ns, ex in rows:
        ftok += [ty, ns, 1 if ex else 0]
    return font.hex(), " ".join(map(str, ftok + tok))


def segment_clusters(r, segs):
    """cluster values for the glyphs of `segs` (list of glyph lists): non-decreasing, repeated only inside a segment"""
    c = r.below(3)
    out = []
    for sg in segs:
        cs = []
        for i, _ in enumerate(sg):
            if i > 0: c += r.choice([0, 1, 1, 1, 2]) if r.chance(1, 3) else 1
            cs.append(c)
        out.append(cs)
        c += r.choice([1, 1, 1, 2, 4])
    return out


def segment_features(r, cls, on, plumb, n_all):
    """user features that switch the subtable on exactly on the segments with on[i] (cluster ranges; the boundaries are
    drawn anywhere in the gap between two segments), plus at most one ranged feature of an unrelated type"""
    tag = tag_hex(plumb["tag"])
    bounds = []
    for i, cs in enumerate(cls):
        lo = 0 if i == 0 else r.range(cls[i - 1][-1] + 1, cs[0])
        bounds.append(lo)
    fs = []
    for i, cs in enumerate(cls):
        s = bounds[i]
        e = bounds[i + 1] if i + 1 < len(cls) else (GLOBAL_END if r.chance(2, 3) else cs[-1] + 1 + r.below(3))
        if plumb["default_on"] and not on[i]: fs.append(f"{tag}:0:{s}:{e}")
        if not plumb["default_on"] and on[i]: fs.append(f"{tag}:{r.choice([1, 1, 2])}:{s}:{e}")
    fs = r.shuffle(fs)
    if plumb["distractor"] is not None and r.chance(2, 3):
        a = r.below(n_all + 2); b = a + r.range(1, 4)
        fs.insert(r.below(len(fs) + 1), f"{tag_hex(plumb['distractor'])}:{r.choice([0, 1])}:{a}:{b if r.chance(2, 3) else GLOBAL_END}")
    return ",".join(fs) or "-"


def piece_features(plumb, on, whole):
    """the features for one piece shaped on its own: the governing feature global (or absent), the distractor as it was"""
    tag = tag_hex(plumb["tag"])
    keep = [f for f in ([] if whole == "-" else whole.split(",")) if not f.startswith(tag + ":")]
    if plumb["default_on"] and not on: keep.append(f"{tag}:0:0:{GLOBAL_END}")
    if not plumb["default_on"] and on: keep.append(f"{tag}:1:0:{GLOBAL_END}")
    return ",".join(keep) or "-"


def alternate(r, n):
    first = r.chance(1, 2)
    return [first if i % 2 == 0 else not first for i in range(n)]


# -- pattern machines ----------------------------------------------------------------------------

def pattern_subtable(r, kind):
    """A well-formed state table of the usual shape of real fonts: patterns over glyph classes, one trie node per matched
    prefix, the action on the last glyph of a pattern, a mismatch falls back to the root (or to the node of the class if it
    starts a pattern). By construction no action refers to a register (mark, marked range, component stack) that was not set
    since the machine last left the start state, and nothing happens at end of text."""
    nreal = r.range(2, 4)
    ncls = 4 + nreal
    real = list(range(4, ncls))
    classes = {}
    gl = r.shuffle(list(range(1, NG)))
    for i, c in enumerate(real):                      # every class has a glyph, most have two or three
        classes[gl[i]] = c
    for g in gl[nreal:]:
        if r.chance(2, 3): classes[g] = r.choice(real)
    pats = set()
    for _ in range(r.range(1, 3)):
        pats.add(tuple(r.choice(real) for _ in range(r.range(2, 4))))
    pats = [p for p in sorted(pats) if not any(q != p and q[:len(p)] == p for q in pats)]
    pats = [p for p in pats if not any(q != p and p[:len(q)] == q for q in pats)] or pats[:1]
    nodes = {(): 0}
    inner = sorted({p[:k] for p in pats for k in range(1, len(p))})
    use1 = r.chance(1, 2)                              # state 1 (start of line) as an ordinary trie node, or a copy of row 0
    ids = r.shuffle(list(range(1 if use1 else 2, (1 if use1 else 2) + len(inner))))
    for p, i in zip(inner, ids): nodes[p] = i
    nstates = max(2, max(nodes.values()) + 1)
    transparent_oob = r.chance(1, 3)
    arrays, extra = {}, {}
    if kind == 1:
        lks = []
        for _ in range(r.range(1, 3)):
            sub = {g: ((g + r.range(0, NG - 3)) % (NG - 1)) + 1 for g in range(1, NG)}     # every glyph changes
            lks.append(identity_lookup(r, sub) if r.chance(1, 2) else build_lookup(sub, r.choice([2, 6]), NG, term=r.chance(1, 2)))
        arrays["lookups"] = lks
    elif kind == 2:
        arrays["components"] = [r.below(2) for _ in range(NG + 8)]
        arrays["ligatures"] = [r.range(1, NG - 1) for _ in range(16)]
        arrays["actions"] = []
    elif kind == 5:
        arrays["glyphs"] = [r.range(1, NG - 1) for _ in range(r.range(4, 8))]
    entries = []

    def ent(e):
        if e not in entries: entries.append(e)
        return entries.index(e)

    NOOP = (0, 0, 0xFFFF if kind in (1, 5) else 0, 0xFFFF if kind in (1, 5) else 0)
    finals = {}

    def final(p):
        if p in finals: return finals[p]
        k = len(p)
        if kind == 0:
            e = (0, 0x2000 | r.range(1, 15), 0, 0)
        elif kind == 1:
            n = len(arrays["lookups"])
            mi = r.below(n) if r.chance(2, 3) else 0xFFFF
            ci = r.below(n) if mi == 0xFFFF or r.chance(1, 2) else 0xFFFF
            e = (0, 0, mi, ci)
        elif kind == 2:
            start = len(arrays["actions"])
            for j in range(k):
                a = r.below(8)
                if j == k - 1: a |= 0x80000000 | (0x40000000 if r.chance(1, 2) else 0)
                elif r.chance(1, 5): a |= 0x40000000
                arrays["actions"].append(a)
            e = (0, 0x8000 | 0x2000, start, 0)
        else:
            n = len(arrays["glyphs"])
            cc = r.range(1, 2) if r.chance(2, 3) else 0
            mc = r.range(1, 2) if cc == 0 or r.chance(1, 2) else 0
            fl = (0x0800 if r.chance(1, 2) else 0) | (0x0400 if r.chance(1, 2) else 0) | (cc << 5) | mc
            e = (0, fl, r.below(n - cc + 1) if cc else 0xFFFF, r.below(n - mc + 1) if mc else 0xFFFF)
        finals[p] = e
        return e

    def step(q):
        first = len(q) == 1
        if kind == 0: return (nodes[q], 0x8000 if first else 0, 0, 0)
        if kind == 1: return (nodes[q], 0x8000 if first else 0, 0xFFFF, 0xFFFF)
        if kind == 2: return (nodes[q], 0x8000, 0, 0)
        return (nodes[q], 0x8000 if first else 0, 0xFFFF, 0xFFFF)

    rows = {}
    for p, sidx in nodes.items():
        row = []
        for c in range(ncls):
            if c < 4:
                row.append(ent((sidx, 0, NOOP[2], NOOP[3])) if (c == 1 and transparent_oob and p) else ent(NOOP))
                continue
            q = p + (c,)
            if q in pats: row.append(ent(final(q)))
            elif q in nodes: row.append(ent(step(q)))
            elif (c,) in nodes: row.append(ent(step((c,))))
            else: row.append(ent(NOOP))
        rows[sidx] = row
    states = [rows.get(i, rows[0]) for i in range(nstates)]
    mach = {"nclasses": ncls, "classes": classes, "states": states, "entries": entries}
    st = {"kind": kind, "coverage": 0x20 | (0x40 if r.chance(1, 3) else 0) | (0x10 if r.chance(1, 3) else 0)
          | (0x80 if r.chance(1, 4) else 0), "flags": 1, "mach": mach, "arrays": arrays}
    if r.chance(1, 6): st["coverage"] &= ~0x20
    st["built"] = build_stx(r, kind, mach, NG, arrays)
    by_class = {c: [g for g, k in classes.items() if k == c] for c in real}
    oob = [g for g in range(1, NG) if g not in classes]
    return st, {"patterns": pats, "by_class": by_class, "oob": oob, "transparent_oob": transparent_oob}


def mach_next(mach, state, g):
    """(entry index, new state) of the transition on glyph g, as the parser reads the arrays; None outside them"""
    ncls = mach["nclasses"]
    cls = mach["classes"].get(g, 1)
    if cls >= ncls: cls = 1
    if ncls == 0 or state >= len(mach["states"]) or cls >= len(mach["states"][state]): return None
    ei = mach["states"][state][cls]
    if ei >= len(mach["entries"]): return None
    return ei, mach["entries"][ei][0]


def mach_state_after(mach, glyphs):
    """state after the glyphs (transitions only: exact for tables without DONT_ADVANCE, a guide otherwise)"""
    s = 0
    for g in glyphs:
        t = mach_next(mach, s, g)
        s = t[1] if t is not None else 0
    return s


def walk_text(r, mach, pool):
    """prefix that leaves the machine in a non-initial state if there is one, and a glyph that behaves differently there"""
    state, pre = 0, []
    for _ in range(r.range(1, 4)):
        opts = [(g, mach_next(mach, state, g)) for g in pool]
        good = [g for g, t in opts if t is not None and t[1] != 0]
        g = r.choice(good) if good and r.chance(7, 8) else r.choice(pool)
        t = mach_next(mach, state, g)
        pre.append(g)
        state = t[1] if t is not None else 0
    diff = [g for g in pool if mach_next(mach, state, g) != mach_next(mach, 0, g)]
    nxt = r.choice(diff) if diff and r.chance(7, 8) else r.choice(pool)
    return pre, state, nxt


def pattern_segments(r, info):
    """glyph segments and their on/off pattern: mostly a pattern of the machine cut by a switched-off stretch"""
    pool = list(range(1, NG))
    inst = lambda p: [r.choice(info["by_class"][c]) for c in p]
    fill = lambda a, b: [r.choice(pool) for _ in range(r.range(a, b))]
    k = r.below(8)
    if k <= 4:
        p = r.choice(info["patterns"])
        j = r.range(1, len(p) - 1)
        gl = inst(p)
        gap = [r.choice(gl + pool) for _ in range(r.range(1, 3))]
        pre = (inst(r.choice(info["patterns"])) if r.chance(1, 3) else fill(0, 2)) + gl[:j]
        suf = gl[j:] + (inst(r.choice(info["patterns"])) if r.chance(1, 3) else fill(0, 2))
        segs, on = [pre, gap, suf], [True, False, True]
        if r.chance(1, 4):
            segs.append(fill(1, 2)); on.append(False)
        if r.chance(1, 4):
            segs.insert(0, fill(1, 2)); on.insert(0, False)
        return segs, on
    if k <= 6:
        n = r.range(2, 4)
        segs = []
        for _ in range(n):
            segs.append(inst(r.choice(info["patterns"])) if r.chance(1, 2) else
                        inst(r.choice(info["patterns"]))[:r.range(1, 2)] + fill(0, 1))
        return segs, alternate(r, n)
    n = r.range(2, 4)
    small = r.sample(pool, 3)
    return [[r.choice(small) for _ in range(r.range(1, 3))] for _ in range(n)], alternate(r, n)


def offrange_cases(r, nfonts, per_font=5):
    """shape()-level cases on pattern machines: (whole request, [piece requests], meta)"""
    cases = []
    for it in range(nfonts):
        kind = [2, 1, 0, 5, 2, 1][it % 6]
        st, info = pattern_subtable(r, kind)
        chains, rows, plumb = ranged_plumbing(r, st)
        hexf, rec = font_of(r, chains, rows)
        mach = st["mach"]
        for _ in range(per_font):
            segs, on = pattern_segments(r, info)
            cls = segment_clusters(r, segs)
            d = r.choice(["l", "l", "r", "r", "t"])
            level = r.choice([0, 0, 1, 2])
            fs = segment_features(r, cls, on, plumb, sum(map(len, segs)))
            txt = lambda gs, cs: ",".join(f"{0xE000 + g - 1:x}:{c}" for g, c in zip(gs, cs))
            whole = f"morx shape {hexf} R 0 I {d} {level} {fs} " + txt(sum(segs, []), sum(cls, []))
            pieces = [f"morx shape {hexf} R 0 I {d} {level} {piece_features(plumb, o, fs)} " + txt(sg, cs)
                      for sg, cs, o in zip(segs, cls, on)]
            # what the machine was doing when a switched-off stretch began (processing order = text order unless reversed;
            # the figure is for the distribution only)
            mid = []
            for i in range(1, len(segs)):
                if on[i - 1] and not on[i] and any(on[i + 1:]):
                    mid.append(mach_state_after(mach, segs[i - 1]))
            hook = None
            if kind != 5:
                hg = ",".join(f"{g}:{c}" for g, c in zip(sum(segs, []), sum(cls, [])))
                hook = f"morx run {hexf} R {rec} I {d} {level} - - {fs} {hg}"
            cases.append((whole, pieces, {"kind": KIND_NAMES[kind], "segments": segs, "clusters": cls, "on": on, "dir": d,
                                          "level": level, "features": fs, "tag": plumb["tag"],
                                          "default_on": plumb["default_on"], "states_at_off": mid, "hook": hook}))
    return cases


def offrange_expected(m, piece_outs):
    """the pieces in the order shape() returns the text (right-to-left text comes back reversed)"""
    outs = [pairs_of(o.split()[1]) for o in piece_outs]
    if m["dir"] == "r": outs = outs[::-1]
    return [p for o in outs for p in o]


def offrange_agree(m, got, want, piece_outs):
    """(agree, glyph-ids-only). At cluster level 2 a ligature leaves its deleted components with their own cluster values, and
    the purge at the end of shape() (hb_aat_layout_remove_deleted_glyphs, level-independent, see C17_purge) merges such a
    value into the neighbour in buffer order - which may be the last glyph of the neighbouring stretch: when a stretch lost
    glyphs at level 2 only the glyph ids are compared."""
    shrank = any(len(pairs_of(o.split()[1])) < len(sg) for o, sg in zip(piece_outs, m["segments"]))
    if m["level"] == 2 and shrank:
        return [g for g, _ in got] == [g for g, _ in want], True
    return got == want, False


def offrange_search(ctx, shim, cases):
    """oracle on the crate alone, through the public shape(): on a font whose state-table subtable is governed by one
    OpenType feature, shaping a text with the subtable switched off on some cluster ranges gives the same glyphs and
    clusters as shaping every maximal switched-on / switched-off stretch as a text of its own (feature global) and
    concatenating — the machine is skipped on the switched-off glyphs and starts afresh behind them."""
    reqs = [c[0] for c in cases]
    flat = [p for c in cases for p in c[1]]
    a = vlib.run_lines(shim, reqs, timeout=300)
    pb = dict(zip(flat, vlib.run_lines(shim, flat, timeout=300)))
    total = nontriv = 0
    dist = {}
    found = {}
    for (ln, pieces, m), x in zip(cases, a):
        total += 1
        po = [pb[p] for p in pieces]
        kn = m["kind"]
        if not x.startswith("ok") or not all(o.startswith("ok") for o in po):
            if x.startswith("ok") != all(o.startswith("ok") for o in po):
                found.setdefault((kn, "crash"), []).append((len(ln), ln, pieces, m, x, po, None))
            continue
        got = pairs_of(x.split()[1])
        want = offrange_expected(m, po)
        plain = [(g, c) for sg, cs in zip(m["segments"], m["clusters"]) for g, c in zip(sg, cs)]
        if m["dir"] == "r": plain = plain[::-1]
        mids = [s for s in m["states_at_off"] if s != 0]
        if mids:
            nontriv += 1
            dist[kn + ":off-range-in-non-initial-state"] = dist.get(kn + ":off-range-in-non-initial-state", 0) + 1
        if want != plain: dist[kn + ":pieces-changed"] = dist.get(kn + ":pieces-changed", 0) + 1
        dist["dir:" + m["dir"]] = dist.get("dir:" + m["dir"], 0) + 1
        dist["segments:%d" % len(m["segments"])] = dist.get("segments:%d" % len(m["segments"]), 0) + 1
        dist["default-on" if m["default_on"] else "default-off"] = dist.get("default-on" if m["default_on"] else "default-off", 0) + 1
        agree, ids_only = offrange_agree(m, got, want, po)
        if ids_only: dist["level-2-purge:glyph-ids-only"] = dist.get("level-2-purge:glyph-ids-only", 0) + 1
        if not agree:
            n = sum(map(len, m["segments"]))
            found.setdefault((kn, "differs"), []).append((n * 1000 + len(m["features"]), ln, pieces, m, x, po, want))
    for (kn, key), lst in sorted(found.items()):
        lst.sort(key=lambda t: t[0])
        _, ln, pieces, m, x, po, want = lst[0]
        offs = [[cs[0], cs[-1]] for cs, o in zip(m["clusters"], m["on"]) if not o]
        ctx.violation(f"{kn} subtable governed by `{m['tag']}`, switched off on the clusters {offs}: shape() of glyphs {m['segments']} "
                      f"clusters {m['clusters']} dir {m['dir']} level {m['level']} features {m['features']} gives {x[:160]}, the "
                      f"switched-on / switched-off stretches shaped on their own give {want} ({len(lst)} requests)",
                      {"stage": "search", "stream": "morx-offrange", "class": key, "kind": kn, "request": ln, "piece_requests": pieces,
                       "segments": m["segments"], "clusters": m["clusters"], "on": m["on"], "dir": m["dir"], "level": m["level"],
                       "features": m["features"], "expected": [list(p) for p in want] if want is not None else None,
                       "observed": x[:400], "pieces_observed": [o[:200] for o in po], "count": len(lst)})
    ctx.note_search("morx-offrange", total, nontriv, distribution=dist,
                    violations_by_class={f"{k[0]}:{k[1]}": len(v) for k, v in found.items()},
                    rule="pattern machines (trie of 1-3 class patterns of length 2-4, action on the last glyph, ligature / contextual / "
                         "rearrangement / insertion in turn; state 1 an ordinary node in half of the fonts; out-of-bounds glyphs "
                         "transparent in a third) in a chain where one OpenType feature (liga, dlig, smcp, ss01, ss02, zero, c2sc) "
                         "switches the subtable, default on or default off, with feat; texts of 2-5 stretches alternately on / off, "
                         "mostly a pattern cut by a switched-off stretch; clusters ascending with gaps and repeats, range "
                         "boundaries anywhere in the gaps, an unrelated ranged feature in a third; LTR / RTL / TTB, 3 levels; oracle: "
                         "glyphs and clusters of shape() == concatenation of the stretches shaped on their own; non-trivial = a "
                         "switched-off stretch that is followed by a switched-on one began while the machine was in a non-initial state")


def offrange_run_lines(r, n, pattern_cases):
    """`morx run` requests (hook, crate vs model): the pattern-machine cases above (no insertion) and the file's random
    machines - all four state-table types, well-formed or not - in a chain where one feature governs the subtable, with
    texts that walk the state table to a non-initial state, switch the subtable off there and on again."""
    lines = [c[2]["hook"] for c in pattern_cases if c[2]["hook"] is not None][:n // 3]
    pool = list(range(1, NG))
    while len(lines) < n:
        kind = r.choice([0, 1, 2, 5])
        st = rand_subtable(r, (kind,), wf=r.chance(2, 3))
        if r.chance(2, 3): st["coverage"] |= 0x20
        chains, rows, plumb = ranged_plumbing(r, st)
        hexf, rec = font_of(r, chains, rows)
        mach = st["mach"]
        for _ in range(5):
            pre, state, nxt = walk_text(r, mach, pool)
            lead = [r.choice(pool) for _ in range(r.below(2))]
            gap = [r.choice(pool + [nxt]) for _ in range(r.range(1, 3))]
            suf = [nxt] + [r.choice(pool) for _ in range(r.below(3))]
            segs, on = [lead + pre, gap, suf], [True, False, True]
            if r.chance(1, 5):
                segs.append([r.choice(pool)]); on.append(False)
            if r.chance(1, 8):
                n2 = r.range(2, 4)
                segs, on = [[r.choice(pool) for _ in range(r.range(1, 3))] for _ in range(n2)], alternate(r, n2)
            cls = segment_clusters(r, segs)
            fs = segment_features(r, cls, on, plumb, sum(map(len, segs)))
            d = r.choice(["l", "l", "r", "t", "b"])
            level = r.choice([0, 0, 1, 2])
            mo = str(r.choice([0, 1, 2, 3, 5, 8, 13, 40, 100, 300, -3])) if kind == 5 else \
                ("-" if r.chance(2, 3) else str(r.choice([0, 1, 2, 3, 5, 8, 13, 40, -3])))
            gl, cl = sum(segs, []), sum(cls, [])
            if d in "rb" and r.chance(1, 2): gl, cl = gl[::-1], cl[::-1]       # the buffer as shape() hands it over
            hg = ",".join(f"{g}:{c}" for g, c in zip(gl, cl))
            lines.append(f"morx run {hexf} R {rec} I {d} {level} {mo} - {fs} {hg}")
    return lines[:n]


def classify_offrange(ln, out):
    ks = classify_run(ln, out)
    if out.startswith("ok"):
        o = out.split()
        fl = o[5].split(";")[0].split(",")
        vals = {f.split("/")[0] for f in fl}
        if len(vals) > 1: ks.append("flags-vary-over-ranges")
    return ks



def run(ctx):
    ctx.assumptions += [
        "theorems are about the Lean model RbModel/Morx.lean; it is tied to the crate by the correspondence "
        "streams below (hook level and whole morx tables through hb_aat_layout_substitute)",
        "glyph masks/flags and GDEF glyph props are not modelled (fonts without GDEF glyph classes)",
        "the buffer of the model is Rust's representation (info / separate out vector / Vec lengths), so it "
        "reproduces D5/D6/D19; the list view of it is only used by the reference interpreter of Spec/Aat",
    ]
    ctx.regen()
    ctx.prove(MODULE)
    shim = vlib.build_harness()
    model = vlib.build_model()
    # 1. rearrangement through the hook: all 16 verbs x all marked ranges of buffers <= 8 / 10 glyphs
    ctx.correspond("morx-rearr-exhaustive", lines=rearr_lines(ctx.budget(8, 10)), classify=classify_rearr, canon=canon)
    ctx.correspond("morx-rearr-random", lines=rearr_random(ctx.rng("rearr"), ctx.budget(4000, 200000)),
                   classify=classify_rearr, canon=canon)
    # 2. whole tables through hb_aat_layout_substitute
    dis_run = ctx.correspond("morx-run", lines=run_lines(ctx.rng("run"), ctx.budget(3000, 150000)), classify=classify_run,
                             canon=canon, timeout=300) or []
    dis_feat = ctx.correspond("morx-run-feat", lines=run_lines(ctx.rng("runfeat"), ctx.budget(1200, 60000), kinds=(0, 1, 2, 4),
                              with_feat=True), classify=classify_run, canon=canon, timeout=300) or []
    xl = extreme_run_lines(shim, ctx.rng("runfeat-extreme"), ctx.budget(2400, 80000))
    dis_fx = ctx.correspond("morx-run-feat-extreme", lines=xl, classify=classify_extreme, canon=canon, timeout=300) or []
    # 2b. ligature subtables whose component stack grows past the 64 positions the ring remembers
    lsc = longstack_cases(ctx.rng("longstack"), ctx.budget(60, 2500))
    dis_l = ctx.correspond("morx-run-longstack", lines=[c[0] for c in lsc], classify=classify_longstack, canon=canon, timeout=300) or []
    promote_run(ctx, shim, model, list(dis_run) + list(dis_feat) + list(dis_fx) + list(dis_l))
    # 3. chain-flag compilation (add_feature + compile + compile_flags)
    dis_c = ctx.correspond("morx-compile", lines=compile_lines(ctx.rng("compile"), ctx.budget(1500, 80000)),
                           classify=classify_compile, canon=canon)
    # 3b. the same on fonts whose chain entries carry exclusive-group masks and the deprecated small-caps entry (_morxflags.py)
    import _morxflags
    ffc = _morxflags.cases(shim, ctx.rng("feature-flags"), ctx.budget(150, 4000), 8)
    dis_x = ctx.correspond("morx-compile-exclusive", lines=list(dict.fromkeys(c["compile"] for c in ffc)),
                           classify=classify_compile, canon=canon)
    # 4. the purge of deleted glyphs (hook) and shape() on fonts with morx next to GSUB / GPOS / kerx / kern / GDEF
    pl = purge_lines(ctx.rng("purge"), ctx.budget(4000, 150000))
    ctx.correspond("morx-purge", lines=pl, classify=classify_purge, canon=canon)
    envc = env_cases(ctx.rng("shape-env"), ctx.budget(220, 6000))
    # (fonts with an insertion subtable go to the search only: with the budget of shape() - max_ops >= 16384, which a request
    # cannot lower - the model's insertion loop takes minutes on tables that spend the budget, see run_lines)
    ctx.correspond("morx-shape-env", lines=[c[0] for c in envc if not c[2]["insertion"]], classify=classify_env,
                   canon=canon_env, timeout=300)
    # 5. state-table subtables under ranged features: switched off in the middle of the text, on again behind it
    offc = offrange_cases(ctx.rng("offrange"), ctx.budget(240, 6000))
    ctx.correspond("morx-run-offrange", lines=offrange_run_lines(ctx.rng("run-offrange"), ctx.budget(1500, 60000), offc),
                   classify=classify_offrange, canon=canon, timeout=300)
    # search
    _morxflags.search(ctx, shim, ffc, [d["request"] for d in dis_x])
    _morxflags.promote(ctx, shim, model, "morx-compile / morx-compile-exclusive", list(dis_c) + list(dis_x))
    extreme_search(ctx, shim, xl)
    offrange_search(ctx, shim, offc)
    purge_search(ctx, shim, pl)
    env_search(ctx, shim, envc)
    seed_search(ctx, shim, model)
    verb_search(ctx, shim, model, ctx.budget(8, 10))
    spec_search(ctx, shim, model, ctx.rng("spec"), ctx.budget(350, 20000))
    longstack_search(ctx, shim, model, lsc)
    corpus_search(ctx, shim, ctx.rng("corpus"), ctx.budget(400, 15000))
    shape_vs_hook(ctx, shim, ctx.rng("shapehook"), ctx.budget(150, 6000))
    fontbuild_cross(ctx, shim, ctx.rng("fontbuild"), ctx.budget(150, 3000))
    d17_probe(ctx, shim)
    slow_probe(ctx, shim, model)


def replay(ctx, rp):
    shim = vlib.build_harness()
    st = rp.get("stream")
    if st in ("morx-feature-flags", "morx-compile-promoted"):
        import _morxflags
        return _morxflags.replay(shim, None, rp)
    if st == "morx-corpus":
        f = [x for x in corpus_fonts() if os.path.basename(x) == rp["font"]][0]
        o = vlib.run_groups(shim, [[f"fontfile f {f}", text_req(rp["text"])]], nproc=1)[0][1]
        print("shape():", o[:300])
        return 0 if o.startswith("ok") else 1
    if st == "morx-spec":
        model = vlib.build_model()
        a = vlib.run_lines(shim, [rp["request"]], nproc=1)[0]
        b = vlib.run_lines(model, [rp["request"].replace("morx run", "morx spec", 1)], nproc=1)[0]
        print("crate:", a[:300]); print("spec :", b[:300])
        ok = a.startswith("ok") and (b == "undef" or gids_of(a.split()[3]) == gids_of(b.split()[1]))
        return 0 if ok else 1
    if st == "morx-extreme":
        a = vlib.run_lines(shim, [rp["request"]], nproc=1)[0]
        print("request: morx run <font> … I", rp["request"].split(" I ", 1)[1]); print("crate:", a[:300])
        return 0 if a.startswith("ok") else 1
    if st == "morx-seeds":
        model = vlib.build_model()
        a = vlib.run_lines(shim, [rp["request"]], nproc=1)[0]
        b = vlib.run_lines(model, [rp["request"]], nproc=1)[0]
        print("crate:", a[:300]); print("model:", b[:300])
        return 0 if a.startswith("ok") and canon(a) == canon(b) else 1
    if st == "morx-verbs":
        model = vlib.build_model()
        a = vlib.run_lines(shim, [rp["request"]], nproc=1)[0]
        b = vlib.run_lines(model, [rp["request"].replace("morx rearr", "morx specverb", 1)], nproc=1)[0]
        print("crate:", a); print("spec :", b)
        return 0 if a.startswith("ok") and gids_of(a.split()[3]) == gids_of(b.split()[1]) else 1
    if st == "morx-purge":
        a = vlib.run_lines(shim, [rp["request"]], nproc=1)[0]
        print("crate:", a[:300], "expected glyph ids", rp.get("expected"))
        return 0 if a.startswith("ok") and [g for g, _ in pairs_of(a.split()[1])] == rp.get("expected") else 1
    if st == "morx-shape-env":
        a = vlib.run_lines(shim, [rp["request"]], nproc=1)[0]
        print("environment:", rp.get("environment"), "glyphs", rp.get("glyphs"), "clusters", rp.get("clusters"),
              "dir", rp.get("dir"), "level", rp.get("level"), "features", rp.get("features"))
        print("shape():", a[:300], "expected glyph ids", rp.get("expected"))
        if not a.startswith("ok"): return 1
        g = [x for x, _ in pairs_of(a.split()[1])]
        return 0 if DELETED not in g and (rp.get("expected") is None or g == rp["expected"]) else 1
    if st == "morx-offrange":
        a = vlib.run_lines(shim, [rp["request"]], nproc=1)[0]
        po = vlib.run_lines(shim, rp["piece_requests"], nproc=1)
        print("segments", rp.get("segments"), "clusters", rp.get("clusters"), "on", rp.get("on"), "dir", rp.get("dir"),
              "level", rp.get("level"), "features", rp.get("features"))
        print("shape() of the whole text:", a[:300])
        for sg, o in zip(rp.get("segments", []), po): print("  stretch", sg, "on its own:", o[:200])
        if not a.startswith("ok") or not all(o.startswith("ok") for o in po): return 1
        want = offrange_expected(rp, po)
        print("expected:", want)
        return 0 if offrange_agree(rp, pairs_of(a.split()[1]), want, po)[0] else 1
    if st == "morx-longstack":
        model = vlib.build_model()
        x = vlib.run_lines(shim, [rp["hook_request"]], nproc=1)[0]
        z = vlib.run_lines(shim, [rp["shape_request"]], nproc=1)[0]
        y = vlib.run_lines(model, [rp["spec_request"]], nproc=1)[0]
        print("glyphs", rp.get("glyphs"), "dir", rp.get("dir"), "stack depth / pops at the actions", rp.get("depth_and_pops_at_actions"))
        print("substitute hook:", x[:300]); print("shape():        ", z[:300]); print("AAT reference:  ", y[:300])
        if not (x.startswith("ok") and z.startswith("ok")): return 1
        if y == "undef": return 0
        exp = gids_of(y.split()[1])
        want = [g for g in exp if g != DELETED]
        if rp.get("dir") == "r": want = want[::-1]
        return 0 if gids_of(x.split()[3]) == exp and [g for g, _ in pairs_of(z.split()[1])] == want else 1
    if st in ("morx-d17", "morx-shape-vs-hook"):
        a = vlib.run_lines(shim, [rp["request"]], nproc=1)[0]
        print("shape():", a[:300], "expected", rp.get("expected"))
        return 0 if a.startswith("ok") and gids_of(a.split()[1]) == rp.get("expected") else 1
    if "request" in rp:
        model = vlib.build_model()
        a = canon(vlib.run_lines(shim, [rp["request"]], nproc=1)[0])
        b = canon(vlib.run_lines(model, [rp["request"]], nproc=1)[0])
        print("impl :", a); print("model:", b)
        return 0 if a == b and a == rp.get("expected", a) else 1
    print(rp); return 1
