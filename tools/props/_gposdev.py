"""GPOS SinglePos / PairPos subtables with ALL eight value-format bits, i.e. with Device / VariationIndex tables
(tools/fontbuild.py writes null device offsets only).  The subtables are serialised here byte by byte and handed to
fontbuild as raw subtables (`"subtables": [bytes]`), or to the `gp subd` hook request directly.

value record   vr = {"v": [xPlacement, yPlacement, xAdvance, yAdvance], "dev": [d | None] * 4}   (same field order)
device         d  = {"start": ppem, "fmt": 1|2|3, "deltas": [int per size]}                hinting Device table
                    {"var": (outer, inner)}                                                  VariationIndex table
`device_delta` is what ttf-parser 0.25 returns for the table at a ppem (the crate's `get_x_delta` / `get_y_delta`):
the delta of the size, scaled `delta * upem / ppem` and truncated toward zero; ttf-parser rounds the number of delta
words DOWN, so sizes in a trailing partial word have no delta.
"""
import struct

BITS = (0x01, 0x02, 0x04, 0x08, 0x10, 0x20, 0x40, 0x80)
UPEM = 1000


def u16(x): return struct.pack(">H", x & 0xFFFF)
def i16(x): return struct.pack(">h", x)


def coverage(gids):
    gids = sorted(gids)
    return u16(1) + u16(len(gids)) + b"".join(u16(g) for g in gids)


def classdef(classes):
    """{gid: class} -> ClassDef format 2 (one range per glyph)"""
    gl = sorted(g for g in classes if classes[g])
    return u16(2) + u16(len(gl)) + b"".join(u16(g) + u16(g) + u16(classes[g]) for g in gl)


def device_bytes(d):
    if "var" in d:
        return u16(d["var"][0]) + u16(d["var"][1]) + u16(0x8000)
    fmt, deltas = d["fmt"], d["deltas"]
    bits, per = 1 << fmt, 16 >> fmt
    words = []
    for w in range((len(deltas) + per - 1) // per):
        x = 0
        for k in range(per):
            i = w * per + k
            v = deltas[i] if i < len(deltas) else 0
            x |= (v & ((1 << bits) - 1)) << (16 - bits * (k + 1))
        words.append(x)
    return u16(d["start"]) + u16(d["start"] + len(deltas) - 1) + u16(fmt) + b"".join(u16(w) for w in words)


def device_delta(d, ppem, upem=UPEM, var_delta=None):
    """get_{x,y}_delta(face).unwrap_or(0)"""
    if "var" in d:
        return var_delta(d["var"]) if var_delta else 0
    n = len(d["deltas"])
    if ppem == 0 or ppem < d["start"] or ppem > d["start"] + n - 1:
        return 0
    s = ppem - d["start"]
    per = 16 >> d["fmt"]
    if s // per >= n // per:           # ttf-parser: word count rounded down
        return 0
    t = d["deltas"][s] * upem
    return t // ppem if t >= 0 else -((-t) // ppem)


def vr_size(vf):
    return 2 * bin(vf & 0xFF).count("1")


def mask_vr(vr, vf):
    return {"v": [x if vf & BITS[k] else 0 for k, x in enumerate(vr["v"])],
            "dev": [x if vf & BITS[4 + k] else None for k, x in enumerate(vr["dev"])]}


EMPTY_VR = {"v": [0, 0, 0, 0], "dev": [None] * 4}


class _Sub:
    """fixed part + tail blocks; value records reference device tables placed in the tail"""

    def __init__(self):
        self.parts = []          # bytes | ("off", key)
        self.tail = []           # (key, bytes)

    def add(self, b): self.parts.append(b)
    def off(self, key): self.parts.append(("off", key))

    def block(self, key, data):
        self.tail.append((key, data))

    def vr(self, vr, vf, tag):
        for k in range(4):
            if vf & BITS[k]: self.add(i16(vr["v"][k]))
        for k in range(4):
            if vf & BITS[4 + k]:
                d = vr["dev"][k]
                if d is None: self.add(u16(0))
                else:
                    key = ("dev", tag, k)
                    self.off(key); self.block(key, device_bytes(d))

    def build(self, base=0):
        head = sum(2 if isinstance(p, tuple) else len(p) for p in self.parts)
        offs, pos = {}, head
        for key, data in self.tail:
            offs[key] = pos; pos += len(data)
        out = b"".join(u16(offs[p[1]] - base) if isinstance(p, tuple) else p for p in self.parts)
        return out + b"".join(d for _, d in self.tail)


def single_subtable(values, vf, fmt):
    """values: {gid: vr}; format 1 stores the record of the smallest gid for all"""
    gids = sorted(values)
    s = _Sub()
    s.add(u16(fmt)); s.off("cov"); s.add(u16(vf))
    s.block("cov", coverage(gids))
    if fmt == 1:
        s.vr(values[gids[0]], vf, 0)
    else:
        s.add(u16(len(gids)))
        for g in gids: s.vr(values[g], vf, g)
    return s.build()


def pair_subtable_f1(pairs, vf1, vf2, tp_base=False):
    """pairs: {first: {second: (vr1, vr2)}}.  Device offsets inside a PairSet are written relative to the PairSet (the
    OpenType base) or, with `tp_base`, to the start of its record array (PairSet + 2), the base ttf-parser 0.25 uses —
    which does not help: its slice ends with the records (`pairset_visible`)."""
    firsts = sorted(pairs)
    head = u16(1)
    cov = coverage(firsts)
    sets = []
    for f in firsts:
        ps = _Sub()
        ps.add(u16(len(pairs[f])))
        for sec in sorted(pairs[f]):
            v1, v2 = pairs[f][sec]
            ps.add(u16(sec)); ps.vr(v1, vf1, (sec, 1)); ps.vr(v2, vf2, (sec, 2))
        sets.append(ps.build(base=2 if tp_base else 0))
    fixed = 10 + 2 * len(firsts)
    out = head + u16(fixed) + u16(vf1) + u16(vf2) + u16(len(firsts))
    pos = fixed + len(cov)
    for b in sets:
        out += u16(pos); pos += len(b)
    return out + cov + b"".join(sets)


def pair_subtable_f2(cov_gids, cls1, cls2, matrix, vf1, vf2):
    """cls1 / cls2: {gid: class}; matrix[c1][c2] = (vr1, vr2)"""
    s = _Sub()
    s.add(u16(2)); s.off("cov"); s.add(u16(vf1) + u16(vf2)); s.off("cd1"); s.off("cd2")
    s.add(u16(len(matrix)) + u16(len(matrix[0])))
    s.block("cov", coverage(cov_gids)); s.block("cd1", classdef(cls1)); s.block("cd2", classdef(cls2))
    for a, row in enumerate(matrix):
        for b, (v1, v2) in enumerate(row):
            s.vr(v1, vf1, (a, b, 1)); s.vr(v2, vf2, (a, b, 2))
    return s.build()


# ------------------------------------------------------------------------------------------------
# random records / subtables with their semantics

def rand_device(r, want_nonzero=True):
    if r.chance(1, 8):
        return {"var": (r.below(3), r.below(4))}
    fmt = r.choice([1, 2, 3, 3])
    per = 16 >> fmt
    n = per * r.range(1, 2) if r.chance(4, 5) else r.range(1, 2 * per)
    lo, hi = -(1 << ((1 << fmt) - 1)), (1 << ((1 << fmt) - 1)) - 1
    deltas = [r.choice([lo, hi, r.range(lo, hi), r.range(lo, hi) or 1]) for _ in range(n)]
    if want_nonzero and not any(deltas):
        deltas[0] = hi
    return {"start": r.range(8, 14), "fmt": fmt, "deltas": deltas}


def rand_vf(r):
    k = r.below(6)
    if k == 0: return 0xFF
    if k == 1: return r.choice(BITS[4:])                      # a single device bit
    if k == 2: return r.choice(BITS[4:]) | r.choice(BITS[:4])
    if k == 3: return 0xF0
    return r.range(1, 255)


def rand_val(r):
    return r.choice([0, r.range(-300, 300), r.range(-30, 30), r.range(-300, 300) or 5])


def rand_vr(r, vf):
    return mask_vr({"v": [rand_val(r) for _ in range(4)],
                    "dev": [rand_device(r) if r.chance(4, 5) else None for _ in range(4)]}, vf)


def vr_is_empty(vr):
    return not any(vr["v"]) and all(d is None for d in vr["dev"])


def pairset_visible(vr):
    """what the crate sees of a record stored in a PairSet (PairPos format 1): ttf-parser 0.25 resolves the device offsets
    against a slice that holds the PairValueRecords only (and starts after the count), so a Device table behind the
    records is never found: the plain values survive, every device is absent."""
    return {"v": list(vr["v"]), "dev": [None] * 4}


def vr_tokens(vr, ppx, ppy):
    """the eight model tokens of a record on a face with these ppem: values, then per device `-` or its delta"""
    out = [str(x) for x in vr["v"]]
    for k, d in enumerate(vr["dev"]):
        out.append("-" if d is None else str(device_delta(d, ppx if k % 2 == 0 else ppy)))
    return out


def device_sizes(vrs):
    """ppem values at which some hinting device of these records has a non-zero delta"""
    res = set()
    for vr in vrs:
        for d in vr["dev"]:
            if d and "var" not in d:
                for k in range(len(d["deltas"])):
                    if device_delta(d, d["start"] + k):
                        res.add(d["start"] + k)
    return sorted(res)


# ------------------------------------------------------------------------------------------------
# variable-font scaffolding: one axis, a GDEF ItemVariationStore whose single region peaks at the axis maximum

def fvar_table(tag=b"wght", lo=100, default=400, hi=900):
    fx = lambda v: struct.pack(">i", int(v * 65536))
    return (u16(1) + u16(0) + u16(16) + u16(2) + u16(1) + u16(20) + u16(0) + u16(8)
            + tag + fx(lo) + fx(default) + fx(hi) + u16(0) + u16(256))


def gdef_with_store(classes, deltas):
    """GDEF 1.3: glyph class definition + an ItemVariationStore with ONE ItemVariationData (outer index 0) of
    len(deltas) items, one region (0, 1, 1) on the single axis: at the axis maximum item k yields deltas[k]"""
    cd = classdef(classes) if classes else b""
    head_len = 18
    off_cd = head_len if classes else 0
    off_store = head_len + len(cd)
    regions = u16(1) + u16(1) + struct.pack(">hhh", 0, 0x4000, 0x4000)
    data = u16(len(deltas)) + u16(1) + u16(1) + u16(0) + b"".join(i16(d) for d in deltas)
    store = u16(1) + struct.pack(">I", 12) + u16(1) + struct.pack(">I", 12 + len(regions)) + regions + data
    return (u16(1) + u16(3) + u16(off_cd) + u16(0) + u16(0) + u16(0) + u16(0) + struct.pack(">I", off_store)
            + cd + store)


# ------------------------------------------------------------------------------------------------
# whole fonts for the axis / glyph-id monitors (C16): every positioning mechanism, every value-format bit

RAW = lambda b: {"raw_bytes": b.hex()}
NG = 14
F_BASES = list(range(1, 8))
F_MARKS = list(range(8, 12))


def _ra(r):
    return (r.range(-400, 400), r.range(-400, 400))


def rand_gpos_font(r, kerx_mod=None, kern_tables=None):
    """recipe (tools/fontbuild.py) + facts: {"sizes": live ppem values, "variable": bool, "layout": what positions}"""
    adv = [0] + [r.range(300, 900) for _ in range(NG - 1)]
    rec = {"num_glyphs": NG, "cmap": "pua", "advances": adv}
    if r.chance(1, 2):
        rec["vadvances"] = [0] + [r.range(700, 1200) for _ in range(NG - 1)]
    if r.chance(1, 4):
        rec["vorg"] = {"default": r.range(600, 900), "glyphs": {g: r.range(500, 950) for g in r.sample(range(1, NG), 4)}}
    classes = {**{g: 1 for g in F_BASES if r.chance(5, 6)}, **{g: 3 for g in F_MARKS}}
    variable = r.chance(1, 3)
    var_deltas = [r.choice([r.range(-90, 90), r.range(-9, 9) or 3]) for _ in range(4)]
    allv = []

    def vr(vf):
        v = rand_vr(r, vf)
        if variable:                                  # variation indices must exist in the store
            for d in v["dev"]:
                if d and "var" in d: d["var"] = (0, d["var"][1])
        allv.append(v); return v

    lookups, kinds = [], []
    for _ in range(r.range(1, 4)):
        kd = r.choice(["single", "single", "pair1", "pair2", "pair2", "curs", "mark", "mkmk"])
        kinds.append(kd)
        if kd == "single":
            vf, fmt = rand_vf(r), r.choice([1, 2])
            gl = [g for g in range(1, NG) if r.chance(1, 2)] or [1]
            vals = {g: vr(vf) for g in gl}
            if fmt == 1:
                v0 = vals[min(vals)]; vals = {g: v0 for g in vals}
            lookups.append({"type": 1, "flag": 0, "subtables": [RAW(single_subtable(vals, vf, fmt))]})
        elif kd == "pair1":
            vf1, vf2 = rand_vf(r), r.choice([0, 0, rand_vf(r)])
            pairs = {}
            for a in range(1, NG):
                if r.chance(1, 2):
                    pairs[a] = {b: (vr(vf1), vr(vf2)) for b in range(1, NG) if r.chance(1, 3)} or {1: (vr(vf1), vr(vf2))}
            pairs = pairs or {1: {2: (vr(vf1), vr(vf2))}}
            lookups.append({"type": 2, "flag": r.choice([0, 0, 8]), "subtables": [RAW(pair_subtable_f1(pairs, vf1, vf2))]})
        elif kd == "pair2":
            vf1, vf2 = rand_vf(r), r.choice([0, rand_vf(r), r.choice(BITS[4:])])
            nc1, nc2 = r.range(1, 3), r.range(1, 3)
            cov = [g for g in range(1, NG) if r.chance(2, 3)] or [1]
            cls1 = {g: r.below(nc1) for g in range(1, NG)}
            cls2 = {g: r.below(nc2) for g in range(1, NG)}
            matrix = [[(vr(vf1), vr(vf2)) for _ in range(nc2)] for _ in range(nc1)]
            lookups.append({"type": 2, "flag": r.choice([0, 0, 8]),
                            "subtables": [RAW(pair_subtable_f2(cov, cls1, cls2, matrix, vf1, vf2))]})
        elif kd == "curs":
            cv = [g for g in F_BASES if r.chance(5, 6)] or F_BASES[:2]
            ee = {g: (_ra(r) if r.chance(8, 9) else None, _ra(r) if r.chance(8, 9) else None) for g in cv}
            lookups.append({"type": 3, "flag": r.choice([0, 1, 8, 9]),
                            "subtables": [{"coverage": cv, "entry_exit": [ee[g] for g in cv]}]})
        elif kd == "mark":
            k = r.range(1, 2)
            mk = [g for g in F_MARKS if r.chance(5, 6)] or [F_MARKS[0]]
            bs = [g for g in F_BASES if r.chance(5, 6)] or [F_BASES[0]]
            lookups.append({"type": 4, "flag": 0, "subtables": [{
                "mark_coverage": mk, "base_coverage": bs, "class_count": k,
                "marks": [(r.below(k), _ra(r)) for _ in mk], "bases": [[_ra(r) for _ in range(k)] for _ in bs]}]})
        else:
            k = r.range(1, 2)
            m1 = [g for g in F_MARKS if r.chance(5, 6)] or [F_MARKS[0]]
            m2 = [g for g in F_MARKS if r.chance(5, 6)] or [F_MARKS[1]]
            lookups.append({"type": 6, "flag": 0, "subtables": [{
                "mark1_coverage": m1, "mark2_coverage": m2, "class_count": k,
                "marks": [(r.below(k), _ra(r)) for _ in m1], "mark2": [[_ra(r) for _ in range(k)] for _ in m2]}]})
    # features: `mark` runs in every direction, `kern` / `dist` in horizontal text by default, `vkrn` on request
    feats = {}
    for li in range(len(lookups)):
        feats.setdefault(r.choice(["mark", "mark", "kern", "dist", "vkrn"]), []).append(li)
    rec["gpos"] = {"features": [{"tag": t, "lookups": ls} for t, ls in sorted(feats.items())], "lookups": lookups}
    layout = "gpos"
    tables = {}
    k = r.below(6)
    if k == 0 and kerx_mod is not None:               # kerx wins over GPOS when there is no GSUB
        gl = list(range(1, NG))
        subs = kerx_mod.rand_subs(r, r.sample(gl, r.range(2, 8)), list(range(NG + 1)))
        tables["kerx"] = kerx_mod.kerx_table(subs).hex(); layout = "gpos-table+kerx(applied)"
    elif k == 1 and kern_tables is not None and "kern" not in feats:
        tables["kern"] = kern_tables(r, list(range(1, NG))).hex(); layout = "gpos+kern"
    if variable:
        tables["fvar"] = fvar_table().hex()
        tables["GDEF"] = gdef_with_store(classes, var_deltas).hex()
    else:
        rec["gdef"] = {"classes": classes}
    if tables:
        rec["tables"] = tables
    return rec, {"sizes": device_sizes(allv), "variable": variable, "layout": layout, "kinds": kinds,
                 "features": sorted(feats), "has_device": any(d for v in allv for d in v["dev"])}
