"""Shared pieces of the C03 / C04 checks: flag-walk generators for the `flagw` correspondence stream and the
shape()-level oracles (flag hygiene monitors, the break-safety verifier, the concat redistribution experiment).

The shape-level oracles only use the public API (`shape` request of rbshim; glyph flags come from
serialize(GLYPH_FLAGS)).  Reference for how pieces are cut, which buffer flags are cleared and what is compared:
HarfBuzz hb-buffer-verify.cc (buffer_verify_unsafe_to_break / buffer_verify_unsafe_to_concat)."""
import os, struct
import vlib, corpus, bufgen

BOT, EOT = 1, 2
BREAK, CONCAT, TATWEEL, DEFINED = 1, 2, 4, 7
CONTEXT_LENGTH = 5


# ------------------------------------------------------------------------------------------------
# constants of the compiled crate

def constants(shim):
    o = vlib.run_lines(shim, ["flagconst"], nproc=1)[0].split()
    k = o.index("bf")
    gf = {x.split("=")[0]: int(x.split("=")[1]) for x in o[1:k]}
    bf = [(x.split("=")[0], int(x.split("=")[1])) for x in o[k + 1:]]
    return gf, bf


# ------------------------------------------------------------------------------------------------
# hook-level walks (correspondence `flagwt`)

def flag_walk(r, pc, pt, adversarial=False, reachable=False):
    """a buffer with monotone (or random) clusters and feature bits, a few flag primitives, then propagate.
    `reachable`: flag bits already present in the initial masks are restricted to what the setters can leave
    (BREAK only together with CONCAT, TATWEEL only when requested, scratch flag set) — used by the hygiene oracle;
    the correspondence stream uses arbitrary masks."""
    n = r.range(0, 8)
    mono = r.choice(["asc", "asc", "desc", "rand"])
    fl = r.choice([0, pc, pt, pc | pt, pc | pt | 3])
    st = bufgen.fresh_state(r, n, level=r.below(3), flags=fl, mono=mono, slack=r.below(2), maxlen=1000)
    if r.chance(1, 3):
        # flag bits already present (as left by earlier passes), with or without the scratch flag
        if reachable:
            vals = [0, 0, 2, 3]
            if pt and fl & pt == pt: vals += [4, 6, 7]
            if not (pc and fl & pc == pc): vals = [v for v in vals if v != 2 and v != 6]
        else:
            vals = [0, 0, 1, 2, 3, 4, 5, 6, 7]
        st["I"] = [(g, m | r.choice(vals), c, a, b) if i < n else (g, m, c, a, b)
                   for i, (g, m, c, a, b) in enumerate(st["I"])]
        st["sc"] = 0x20 if reachable else r.choice([0x20, 0x20, 0, 0x24])
    ops = []
    out_mode = r.chance(1, 3) and n > 0
    idx = out = 0
    if out_mode:
        ops.append("clearout")
        k = r.range(0, n)
        if k:
            ops.append(f"nexts {k}")
        idx = out = k
    for _ in range(r.range(0, 5)):
        rem = n - idx
        cand = []
        if rem > 0:
            cand += ["utb", "utb", "utc", "tatweel"]
            if out_mode:
                cand += ["utbo", "utbo", "utco"]
        if rem > 1:
            cand += ["merge"]
        if not cand:
            break
        k = r.choice(cand)
        if k in ("utb", "utc", "tatweel", "merge"):
            s = r.range(idx, n - 1)
            e = r.range(s, n) if k != "merge" else r.range(s + 1, n)
            if r.chance(1, 8) and k != "merge":
                ops.append(f"{k} {s}")           # end = None
            else:
                ops.append(f"{k} {s} {e}")
        else:
            s = r.range(0, out)
            e = r.range(idx, n)
            ops.append(f"{k} {s} {e}")
    if out_mode:
        ops.append("sync")
    ops.append("propagate")
    if adversarial and r.chance(1, 12):
        # len beyond the Vec: propagate must report the same panic kind
        st["n"] = n + r.range(1, 2)
        st["sc"] = 0x20
        ops = ["propagate"]
    return "flagwt " + bufgen.state_str(st) + " ; " + " ; ".join(ops)


def classify_walk(ln, out):
    ks = []
    for op in ln.split(" ; ")[1:]:
        ks.append("op:" + op.split()[0])
    kv = dict(t.split("=", 1) for t in ln.split(" ; ")[0].split()[1:])
    ks.append(f"level:{kv['L']}")
    ks.append(f"bufflags:{kv['F']}")
    ks.append("panic" if out.startswith("panic") else "ok")
    if out.startswith("ok"):
        last = out.split(" | ")[-1]
        st = bufgen.parse_state(last.split(" ", 2)[2] if last.startswith("ok ") else last)
        fl = [m & DEFINED for (_, m, _, _, _) in st["I"][:st["n"]]]
        if any(fl): ks.append("some-flag-set")
        if any(f & TATWEEL for f in fl): ks.append("tatweel-exposed")
    return ks


def canon_panic(x):
    if x.startswith("panic"):
        if "assertion" in x: return "panic assert"
        if any(k in x for k in ("index out of bounds", "out of range", "slice index", "range end", "range start")):
            return "panic oob"
    return x


def final_state(reply):
    if not reply.startswith("ok r="):
        return None
    last = reply.split(" | ")[-1]
    if last.startswith("ok r="):
        last = last.split(" ", 2)[2]
    return bufgen.parse_state(last)


# ------------------------------------------------------------------------------------------------
# fonts and texts

def sfnt_tables(path, idx=0):
    try:
        d = open(path, "rb").read()
        off = 0
        if d[:4] == b"ttcf":
            off = struct.unpack(">I", d[12 + 4 * idx:16 + 4 * idx])[0]
        n = struct.unpack(">H", d[off + 4:off + 6])[0]
        return {d[off + 12 + 16 * i:off + 16 + 16 * i].decode("latin1") for i in range(n)}
    except Exception:
        return set()


def is_aat(case):
    t = sfnt_tables(case.font, case.index)
    return "morx" in t or "kerx" in t


class FontSet:
    """corpus cases grouped per font, with the alphabet of all texts the repository shapes with that font"""

    def __init__(self, r, limit=None, only_aat=None):
        cases = corpus.load()
        self.groups = []
        for fid, reg, cs in corpus.font_groups(cases):
            aat = is_aat(cs[0])
            if only_aat is not None and aat != only_aat:
                continue
            alphabet = sorted({ch for c in cs for ch in c.text})
            self.groups.append({"fid": fid, "reg": reg, "cases": cs, "alphabet": alphabet, "aat": aat})
        self.groups = r.shuffle(self.groups)
        if limit:
            self.groups = self.groups[:limit]


def rand_text(r, g):
    """a text for font group g: a fixture text, a shuffle/slice/repeat of one, or a resample of the alphabet"""
    c = r.choice(g["cases"])
    t = list(c.text)
    k = r.below(6)
    if k == 0 or not t:
        pass
    elif k == 1:
        t = r.shuffle(t)
    elif k == 2:
        a = r.below(len(t)); t = t[a:a + r.range(1, 10)]
    elif k == 3:
        c2 = r.choice(g["cases"]); t = t[:r.range(1, 6)] + list(c2.text)[:r.range(1, 6)]
    elif k == 4:
        t = [r.choice(t) for _ in range(r.range(1, 10))]
    else:
        t = [r.choice(g["alphabet"]) for _ in range(r.range(1, 10))]
    t = [ch for ch in t if ord(ch) not in (0x0A, 0x0D)][:24]
    return c, "".join(t) or c.text[:8]


def rand_clusters(r, n, repeats=False):
    """input cluster numbering: 0..n-1 or strictly increasing with gaps; with `repeats` also equal neighbours"""
    k = r.below(5)
    if k < 3 and not repeats:
        return list(range(n))
    out, c = [], r.below(4)
    for _ in range(n):
        out.append(c)
        c += r.choice([1, 1, 0, 2, 0]) if repeats else r.choice([1, 2, 5])
    return out


EXTRA_FEATURES = [None, None, None, "-kern", "-liga", "+smcp", "kern[1:3]=0", "-calt", "+dlig", "-mark", "-ccmp"]


def fix_fstr(x):
    """the fixtures quote some feature lists (--features="a,b"): drop the quotes before Feature::from_str sees them"""
    if x.startswith("fstr="):
        t = bytes.fromhex(x[5:]).decode().replace('"', "")
        return "fstr=" + t.encode().hex()
    return x


def feature_extra(r):
    f = r.choice(EXTRA_FEATURES)
    return [] if f is None else ["fstr=" + f.encode().hex()]


class Shaping:
    """one whole-text request with everything needed to derive piece requests.  Direction and script are
    *resolved* first (UnicodeBuffer::guess_segment_properties through `segprops`) and then given explicitly to
    the whole text and to every piece, as HarfBuzz's verifier copies the shaped buffer's segment properties."""
    __slots__ = ("g", "case", "text", "clusters", "dir", "script", "flags", "level", "extra", "pre", "post", "line",
                 "subset", "req_dir", "native")

    def shape_line(self, text, clusters, flags, pre, post):
        c = self.case
        t = ",".join(f"{ord(ch):x}:{cl}" for ch, cl in zip(text, clusters)) or "-"
        f = ",".join(f"{corpus.tag_hex(a)}:{v}:{st}:{e}" for a, v, st, e in c.feats) or "-"
        lang = ("x" + c.lang.encode().hex()) if c.lang else "-"
        cp = lambda x: ",".join(f"{ord(ch):x}" for ch in x) or "-"
        return " ".join(["shape", self.g["fid"], self.dir or "-", self.script or "-", lang, str(flags), str(self.level),
                         f, cp(pre), cp(post), t] + self.extra)

    def piece_line(self, a, b, flags, pre, post):
        return self.shape_line(self.text[a:b], self.clusters[a:b], flags, pre, post)

    def describe(self):
        return {"font": self.case.font, "font_index": self.case.index, "font_line": self.g["reg"],
                "fid": self.g["fid"], "feats": [list(f) for f in self.case.feats], "pre": self.pre, "post": self.post,
                "text": [f"U+{ord(c):04X}" for c in self.text], "clusters": self.clusters,
                "direction": self.dir, "direction_requested": self.req_dir or "guess",
                "script_direction": getattr(self, "native", None), "shaped_reversed": shaped_reversed(self),
                "script": self.script, "language": self.case.lang, "buffer_flags": self.flags, "cluster_level": self.level,
                "options": self.case.opts, "extra": self.extra, "request": self.line, "engine": "aat" if self.g["aat"] else "ot"}


def shaping_from_replay(rp):
    """rebuilds the Shaping recorded by describe() (replay of a shape-level violation)"""
    class C: pass
    c = C()
    c.font, c.index, c.lang, c.opts = rp["font"], rp["font_index"], rp["language"], rp.get("options", "")
    c.feats = [tuple(f) for f in rp.get("feats", [])]
    s = Shaping()
    s.case = c
    s.g = {"fid": rp["fid"], "reg": rp["font_line"], "aat": rp.get("engine") == "aat"}
    s.text = "".join(chr(int(x[2:], 16)) for x in rp["text"])
    s.clusters = rp["clusters"]
    s.dir, s.script, s.flags, s.level = rp["direction"], rp["script"], rp["buffer_flags"], rp["cluster_level"]
    s.req_dir = None if rp.get("direction_requested") in (None, "guess") else rp["direction_requested"]
    s.extra, s.pre, s.post, s.subset = rp["extra"], rp.get("pre", ""), rp.get("post", ""), None
    s.native = rp.get("script_direction") or "l"
    s.line = s.shape_line(s.text, s.clusters, s.flags, s.pre, s.post)
    return s


def make_shaping(r, g, flags, subset=None, dirs=("-", "l", "r", "t", "b"), levels=(0, 1), feats=True, repeats=False):
    s = Shaping()
    s.g = g
    s.case, s.text = rand_text(r, g)
    s.clusters = rand_clusters(r, len(s.text), repeats)
    d = r.choice(dirs)
    s.req_dir = None if d == "-" else d
    s.dir = s.req_dir or s.case.dir
    s.script = s.case.script
    s.flags = flags | (s.case.flags & ~0xC3) | r.choice([0, 3, 3, 3])
    s.level = r.choice(levels)
    s.extra = [fix_fstr(x) for x in s.case.extra] + (feature_extra(r) if feats else [])
    # the metamorphic experiments are about the text alone: no caller-supplied pre/post context (a piece cannot
    # inherit the part of the caller's context that is hidden behind other pieces)
    s.pre, s.post = "", ""
    s.subset = subset
    s.line = None
    return s


def resolve(shim, shapings):
    """fills in the resolved direction/script, the script's own horizontal direction and the whole-text request line"""
    q = []
    for s in shapings:
        cps = ",".join(f"{ord(c):x}" for c in s.text)
        sc = (s.script or '-').replace(' ', '_')
        q.append(f"segprops {s.dir or '-'} {sc} {cps}")
        q.append(f"segprops - {sc} {cps}")
    outs = vlib.run_lines(shim, q)
    for k, s in enumerate(shapings):
        t = outs[2 * k].split()
        n = outs[2 * k + 1].split()
        if len(t) == 2 and t[0] in "lrtb":
            s.dir = t[0]
            if s.script is None and t[1] != "-":
                s.script = t[1]
        s.native = n[0] if len(n) == 2 and n[0] in "lr" else "l"
        s.line = s.shape_line(s.text, s.clusters, s.flags, s.pre, s.post)


def shaped_reversed(s):
    """ot_shape.rs::ensure_native_direction reverses the buffer (grapheme-wise), shapes it in the script's own
    direction and reverses the result: horizontal direction != the script's, or vertical != top-to-bottom."""
    if s.dir in ("l", "r"):
        return s.dir != getattr(s, "native", s.dir)
    return s.dir == "b"


def parse_shape(reply):
    """-> list of (gid, cluster, flags, xa, ya, xo, yo) or None"""
    if not reply.startswith("ok "):
        return None
    t = reply.split()
    return [tuple(int(x) for x in e.split(":")) for e in t[2:]]


def run_shapings(shim, shapings, timeout=900):
    """runs the whole-text requests, grouped per font; returns parsed results in order"""
    resolve(shim, [s for s in shapings if s.line is None])
    by = {}
    for i, s in enumerate(shapings):
        by.setdefault(s.g["fid"], []).append(i)
    groups, order = [], []
    for fid, idxs in by.items():
        groups.append([shapings[idxs[0]].g["reg"]] + [shapings[i].line for i in idxs]); order.append(idxs)
    outs = vlib.run_groups(shim, groups, timeout=timeout)
    res = [None] * len(shapings)
    raw = [None] * len(shapings)
    for idxs, o in zip(order, outs):
        for i, x in zip(idxs, o[1:]):
            res[i] = parse_shape(x); raw[i] = x
    return res, raw


# ------------------------------------------------------------------------------------------------
# (1) flag hygiene on one result

def hygiene(glyphs, want_concat, want_tatweel):
    """-> list of (kind, detail) deviations from the C04 hygiene sentences"""
    bad = []
    per = {}
    for i, g in enumerate(glyphs):
        fl = g[2]
        if fl & ~DEFINED:
            bad.append(("undefined-bit", f"glyph {i} exposes flags {fl:#x}"))
        if not want_concat and fl & CONCAT:
            bad.append(("optin-concat", f"glyph {i} (cluster {g[1]}) exposes UNSAFE_TO_CONCAT although PRODUCE_UNSAFE_TO_CONCAT was not requested"))
        if not want_tatweel and fl & TATWEEL:
            bad.append(("optin-tatweel", f"glyph {i} (cluster {g[1]}) exposes SAFE_TO_INSERT_TATWEEL although PRODUCE_SAFE_TO_INSERT_TATWEEL was not requested"))
        if want_concat and fl & BREAK and not fl & CONCAT:
            bad.append(("break-without-concat", f"glyph {i} (cluster {g[1]}) is UNSAFE_TO_BREAK but not UNSAFE_TO_CONCAT"))
        per.setdefault(g[1], set()).add(fl)
    for c, fs in per.items():
        if len(fs) > 1:
            bad.append(("non-uniform", f"glyphs of cluster {c} expose different flags {sorted(fs)}"))
    seen = set()
    out = []
    for k, d in bad:
        if k not in seen:
            seen.add(k); out.append((k, d))
    return out


# ------------------------------------------------------------------------------------------------
# (2) break safety: HarfBuzz's verifier

def is_forward(dir_token, glyphs, n_chars):
    return dir_token in ("l", "t")


def monotone(glyphs, forward):
    cl = [g[1] for g in glyphs]
    return all(a <= b for a, b in zip(cl, cl[1:])) if forward else all(a >= b for a, b in zip(cl, cl[1:]))


def resolved_forward(s, glyphs):
    """direction of the output (explicit after `resolve`)"""
    if s.dir in ("l", "t"): return True
    if s.dir in ("r", "b"): return False
    return None


def cut_ranges(s, glyphs, forward, bit):
    """text ranges (a,b) of the pieces in *visual* (glyph) order, cutting at every cluster boundary whose
    first glyph does not carry `bit` — the loop of buffer_verify_unsafe_to_break/concat."""
    n, nc = len(glyphs), len(s.text)
    tcl = s.clusters
    pieces = []
    ts = 0 if forward else nc
    te = ts
    for end in range(1, n + 1):
        if end < n and (glyphs[end][1] == glyphs[end - 1][1] or glyphs[end - (0 if forward else 1)][2] & bit):
            continue
        if end == n:
            if forward: te = nc
            else: ts = 0
        elif forward:
            c = glyphs[end][1]
            while te < nc and tcl[te] < c: te += 1
        else:
            c = glyphs[end - 1][1]
            while ts > 0 and tcl[ts - 1] >= c: ts -= 1
        if not ts < te:
            return None
        pieces.append((ts, te))
        if forward: ts = te
        else: te = ts
    return pieces


def piece_requests(s, pieces, with_context, clear_bot_eot=True):
    nc = len(s.text)
    lines = []
    for a, b in pieces:
        fl = s.flags
        if clear_bot_eot:
            if a > 0: fl &= ~BOT
            if b < nc: fl &= ~EOT
        if with_context:
            pre = (s.pre + s.text[:a])[-CONTEXT_LENGTH:]
            post = (s.text[b:] + s.post)[:CONTEXT_LENGTH]
        else:
            pre = s.pre if a == 0 else ""
            post = s.post if b == nc else ""
        lines.append(s.piece_line(a, b, fl, pre, post))
    return lines


def same_shape(a, b):
    """gid, cluster, advances, offsets (flags are not compared, as in hb_buffer_diff's use by the verifier)"""
    if len(a) != len(b):
        return f"length {len(b)} != {len(a)}"
    for i, (x, y) in enumerate(zip(a, b)):
        if (x[0], x[1]) != (y[0], y[1]):
            return f"glyph {i}: whole gid={x[0]} cluster={x[1]}, pieces gid={y[0]} cluster={y[1]}"
        if x[3:] != y[3:]:
            return f"glyph {i} (gid {x[0]}): whole adv/off={x[3:]}, pieces adv/off={y[3:]}"
    return None


def fmt_glyphs(gl):
    return " ".join(f"{g[0]}={g[1]}#{g[2]:x}@{g[3]},{g[4]}+{g[5]},{g[6]}" for g in gl)


# ------------------------------------------------------------------------------------------------
# batch drivers for the two metamorphic experiments

def _run_piece_groups(shim, jobs, timeout=900):
    """jobs: list of (shaping, [piece request lines]); returns, per job, the list of raw replies"""
    by = {}
    for j, (s, lines) in enumerate(jobs):
        by.setdefault(s.g["fid"], []).append(j)
    groups, where = [], {}
    for fid, js in by.items():
        lines = [jobs[js[0]][0].g["reg"]]
        for j in js:
            where[j] = (len(groups), len(lines), len(jobs[j][1]))
            lines += jobs[j][1]
        groups.append(lines)
    outs = vlib.run_groups(shim, groups, timeout=timeout)
    res = []
    for j in range(len(jobs)):
        gi, off, n = where[j]
        res.append(outs[gi][off:off + n])
    return res


def verify_break(shim, shapings, with_context=False):
    """HarfBuzz's unsafe-to-break verifier on every shaping.  Returns one dict per shaping:
    status in {"noresult", "nonmonotone", "cutfail", "single", "piecefail", "ok", "DIFF"}"""
    res, raw = run_shapings(shim, shapings)
    out = [None] * len(shapings)
    jobs, idx = [], []
    for i, (s, gl, rw) in enumerate(zip(shapings, res, raw)):
        if gl is None:
            out[i] = {"status": "noresult", "raw": rw}; continue
        fwd = resolved_forward(s, gl)
        if fwd is None or not monotone(gl, fwd):
            out[i] = {"status": "nonmonotone", "whole": gl}; continue
        pc = cut_ranges(s, gl, fwd, BREAK)
        if pc is None:
            out[i] = {"status": "cutfail", "whole": gl}; continue
        if len(pc) < 2:
            out[i] = {"status": "single", "whole": gl, "pieces": pc}; continue
        jobs.append((s, piece_requests(s, pc, with_context))); idx.append((i, gl, pc))
    for (i, gl, pc), (s, lines), replies in zip(idx, jobs, _run_piece_groups(shim, jobs)):
        rec, ok = [], True
        for x in replies:
            p = parse_shape(x)
            if p is None:
                ok = False; break
            rec += p
        if not ok:
            out[i] = {"status": "piecefail", "whole": gl, "pieces": pc, "piece_requests": lines, "piece_replies": replies}
            continue
        d = same_shape(gl, rec)
        out[i] = {"status": "DIFF" if d else "ok", "whole": gl, "pieces": pc, "recon": rec, "diff": d,
                  "piece_requests": lines, "piece_replies": replies}
    return out


def clone_without(s, k):
    """the same shaping with character k removed (cluster numbering of the others kept)"""
    t = Shaping()
    for a in Shaping.__slots__:
        setattr(t, a, getattr(s, a, None))
    t.text = s.text[:k] + s.text[k + 1:]
    t.clusters = s.clusters[:k] + s.clusters[k + 1:]
    t.extra = list(s.extra)
    t.line = t.shape_line(t.text, t.clusters, t.flags, t.pre, t.post)
    return t


def shrink(shim, s, verifier, max_rounds=30):
    """greedy one-character deletion while `verifier(shim, [candidates])` still reports DIFF"""
    cur = s
    last = verifier(shim, [cur])[0]
    for _ in range(max_rounds):
        if len(cur.text) <= 1:
            break
        cands = [clone_without(cur, k) for k in range(len(cur.text))]
        rs = verifier(shim, cands)
        hit = [(c, r) for c, r in zip(cands, rs) if r and r["status"] == "DIFF"]
        if not hit:
            break
        cur, last = hit[0]
    return cur, last


def verify_concat(shim, shapings):
    """the UNSAFE_TO_CONCAT redistribution experiment (buffer_verify_unsafe_to_concat): segment the text at all cluster
    starts free of UNSAFE_TO_CONCAT, even segments -> one text, odd segments -> another, shape both with the same
    settings, take every segment's glyphs back (by cluster ownership) and interleave them in visual order."""
    res, raw = run_shapings(shim, shapings)
    out = [None] * len(shapings)
    jobs, idx = [], []
    for i, (s, gl, rw) in enumerate(zip(shapings, res, raw)):
        if gl is None:
            out[i] = {"status": "noresult", "raw": rw}; continue
        fwd = resolved_forward(s, gl)
        if fwd is None or not monotone(gl, fwd):
            out[i] = {"status": "nonmonotone", "whole": gl}; continue
        pc = cut_ranges(s, gl, fwd, CONCAT)
        if pc is None:
            out[i] = {"status": "cutfail", "whole": gl}; continue
        if len(pc) < 2:
            out[i] = {"status": "single", "whole": gl, "pieces": pc}; continue
        segs = sorted(pc)                       # logical order
        lines = []
        for par in (0, 1):
            chars = [k for j, (a, b) in enumerate(segs) if j % 2 == par for k in range(a, b)]
            lines.append(s.shape_line("".join(s.text[k] for k in chars), [s.clusters[k] for k in chars], s.flags, "", ""))
        jobs.append((s, lines)); idx.append((i, gl, segs, fwd))
    for (i, gl, segs, fwd), (s, lines), replies in zip(idx, jobs, _run_piece_groups(shim, jobs)):
        parts = [parse_shape(x) for x in replies]
        base = {"whole": gl, "pieces": segs, "piece_requests": lines, "piece_replies": replies}
        if any(p is None for p in parts):
            out[i] = dict(base, status="piecefail"); continue
        owner = {}
        for j, (a, b) in enumerate(segs):
            for k in range(a, b):
                owner[s.clusters[k]] = j
        per = {j: [] for j in range(len(segs))}
        problem = None
        for par, p in enumerate(parts):
            order = []
            for g in p:
                j = owner.get(g[1])
                if j is None or j % 2 != par:
                    problem = f"glyph with cluster {g[1]} in the {'even' if par == 0 else 'odd'} text belongs to no segment of it"
                    break
                if not order or order[-1] != j:
                    order.append(j)
                per[j].append(g)
            want = [j for j in range(len(segs)) if j % 2 == par]
            if not fwd: want = want[::-1]
            if problem is None and order != want:
                problem = f"segments come back interleaved/out of order in the {'even' if par == 0 else 'odd'} text: {order} (expected {want})"
            if problem: break
        seq = range(len(segs)) if fwd else range(len(segs) - 1, -1, -1)
        rec = [g for j in seq for g in per[j]]
        d = problem or same_shape(gl, rec)
        out[i] = dict(base, status="DIFF" if d else "ok", recon=rec, diff=d)
    return out


# ------------------------------------------------------------------------------------------------
# documented finding classes of the two metamorphic experiments (see known_class)

# Arabic/Syriac "prepended concatenation marks" and the Syriac abbreviation mark: their glyphs are stretched /
# positioned over the *following* word by ot_shaper_arabic.rs (apply_stch, postprocess) without any glyph flag
PCM = set(range(0x0600, 0x0606)) | {0x06DD, 0x070F, 0x0890, 0x0891, 0x08E2, 0x110BD, 0x110CD}

KNOWN_CLASSES = {
    "aat": "AAT path (morx/kerx): the state-machine driver's is_safe_to_break heuristic (aat_layout_morx_table.rs:251-296, same as "
           "HarfBuzz) does not see SET_MARK / later mark substitutions, so a cluster start can be unflagged although the "
           "machine state before it mattered (e.g. TestMORXTwentyfive.ttf 'AEAD': cut before the second A)",
    "reversed": "direction forced against the script's own (or bottom-to-top): ensure_native_direction shapes the grapheme-reversed "
                "text; marks / variation selectors / digits that open the text land behind another base, ligatures drop the flag of "
                "their second component (set_cluster resets flags), digit-only pieces are not reversed at all — unflagged cluster "
                "starts are then not safe (e.g. <FE00,0069> dir=rtl nfvs glyph; <0628,0661,06DD> dir=ltr)",
    "repeated-clusters": "input cluster numbering with equal neighbours + a reordering shaper: merge_clusters after the reorder leaves "
                         "one of two characters that share an input cluster value in the other output cluster "
                         "(e.g. Malayalam <0D46:0,0D46:1,0D30:1> level 1 -> clusters 0,0,1)",
    "arabic-pcm-stch": "Syriac abbreviation mark U+070F / Arabic prepended concatenation marks (U+0600..0605, 06DD, 0890, 0891, 08E2) in a "
                       "font with the `stch` feature: ot_shaper_arabic.rs::apply_stch tiles them over the following word and flags "
                       "mark + word unsafe_to_break, but nothing marks the END of the word (or the mark itself when the word is empty) "
                       "unsafe_to_concat (same in HarfBuzz): re-joining segments so that other word characters / marks come to stand "
                       "next to the mark or its word changes the number and offsets of the tiles.  Decided per case "
                       "(stch_attribution): no cut inside a mark + word span, only glyphs of marks whose context changed differ",
}


# scripts that ot_shaper.rs gives to the Thai, Hangul, Indic, Khmer, Myanmar or Universal shaper (ISO 15924 tags)
SYLLABIC_SCRIPTS = set("""Thai Laoo Hang Beng Deva Gujr Guru Knda Mlym Orya Taml Telu Khmr Mymr Qaag Tibt Mong Sinh Buhd Hano Tglg
Tagb Limb Tale Bugi Khar Sylo Tfng Bali Nkoo Phag Cham Kali Lepc Rjng Saur Sund Egyp Java Kthi Mtei Lana Tavt Batk Brah Mand Cakm
Plrd Shrd Takr Dupl Gran Khoj Sind Mahj Mani Modi Hmng Phlp Sidd Tirh Ahom Mult Adlm Bhks Marc Newa Gonm Soyo Zanb Dogr Gong Rohg
Maka Medf Sogo Sogd Elym Nand Hmnp Wcho Chrs Diak Kits Yezi Cpmn Ougr Tnsa Toto Vith Kawi Nagm Gara Gukh Krai Onao Sunu Todr
Tutg""".split())

KNOWN_CLASSES["syllabic-concat"] = (
    "the Thai (SARA AM), Hangul (jamo composition), Indic, Khmer, Myanmar and Universal shapers flag the inside of a syllable "
    "UNSAFE_TO_BREAK but never call unsafe_to_concat at its edges (no call site in ot_shaper_{thai,hangul,indic,khmer,myanmar,use}.rs, "
    "same upstream): joining two UNSAFE_TO_CONCAT-free segments can form a new syllable "
    "(e.g. Thai <0E4C | 0E01 | 0E33> -> <0E4C,0E33>; Devanagari <091F,094D,0930,094D | 0020 | 091F,094D,0930>)")


def stch_attribution(s, o):
    """is this DIFF of the concat redistribution experiment the documented upstream behaviour of apply_stch — and nothing else?
    Decided from the concrete cut and the concrete difference, not from the text alone:
      (a) the text has a mark the font stretches (a PCM character whose cluster holds several glyphs in the whole result);
      (b) NO cut lies inside a span apply_stch flags: for a mark at i, followed by further marks up to j and the word [j, e),
          none of the boundaries i+1 .. e-1 is a segment start (a cut there means the flag apply_stch owes is missing) —
          except in front of default ignorables that end the word (deleted before apply_stch runs when the font has no space);
      (c) the redistribution gave some mark a different stretch context (neighbouring marks + following word) than it has in
          the whole text — text moved next to a mark / its word — and
      (d) every glyph that differs belongs to the cluster of such a mark."""
    if not o or not o.get("pieces") or o.get("recon") is None or not o.get("whole"):
        return False
    text, n = s.text, len(s.text)
    whole_cl = sorted({g[1] for g in o["whole"]})

    def out_cluster(i):
        below = [c for c in whole_cl if c <= s.clusters[i]]
        return below[-1] if below else None

    # a mark the font really stretches: a PCM character whose cluster holds several glyphs (the tiles) in the whole result
    marks = [i for i, ch in enumerate(text) if ord(ch) in PCM and sum(1 for g in o["whole"] if g[1] == out_cluster(i)) >= 2]
    if not marks:
        return False
    stretched = {text[i] for i in marks}
    segs = sorted(o["pieces"])
    cuts = {a for a, b in segs if a > 0}

    def context(t, i):
        a = i
        while a > 0 and t[a - 1] in stretched: a -= 1
        j = i + 1
        while j < len(t) and t[j] in stretched: j += 1
        e = j
        while e < len(t) and t[e] not in stretched and is_word_char(t[e]): e += 1
        return a, j, e

    for i in marks:
        _, _, e = context(text, i)
        # default ignorables that END the word may have been deleted (hide_default_ignorables runs before apply_stch):
        # a cut in front of them is a cut at the end of the word; kept ones are flagged like any word glyph
        if any(i < p < e and not all(is_default_ignorable_cp(ord(c)) for c in text[p:e]) for p in cuts):
            return False
    seg_of = {}
    for j, (a, b) in enumerate(segs):
        for k in range(a, b):
            seg_of[k] = j
    par = {0: [k for k in range(n) if seg_of.get(k, -1) % 2 == 0], 1: [k for k in range(n) if seg_of.get(k, -1) % 2 == 1]}
    changed = set()
    for i in marks:
        if i not in seg_of:
            return False
        idx = par[seg_of[i] % 2]
        t2 = "".join(text[k] for k in idx)
        a, j, e = context(text, i)
        a2, j2, e2 = context(t2, idx.index(i))
        if text[a:e] != t2[a2:e2] or i - a != idx.index(i) - a2:
            if out_cluster(i) is not None:
                changed.add(out_cluster(i))
    if not changed:
        return False
    per = lambda gl: {c: [(g[0],) + tuple(g[3:]) for g in gl if g[1] == c] for c in {g[1] for g in gl}}
    pw, pr = per(o["whole"]), per(o["recon"])
    differing = {c for c in set(pw) | set(pr) if pw.get(c) != pr.get(c)}
    return bool(differing) and differing <= changed


def known_class(s, kind="break", o=None):
    """signature of a documented finding class this DIFF falls into, or None (= anything that differs is new).
    `o` = the verifier's outcome (cuts made, whole and reassembled glyphs): the class arabic-pcm-stch is decided from it."""
    if s.g["aat"]:
        return "aat"
    if shaped_reversed(s):
        return "reversed"
    if len(set(s.clusters)) < len(s.clusters):
        return "repeated-clusters"
    if kind == "concat" and stch_attribution(s, o):
        return "arabic-pcm-stch"
    if kind == "concat" and (s.script or "").capitalize() in SYLLABIC_SCRIPTS:
        return "syllabic-concat"
    return None


def note_known(ctx, prop_stream, cls, count, example):
    kid = f"{ctx.prop}-{cls}"
    if kid not in [k.get("id") for k in ctx.known_hits]:
        ctx.known_hits.append({"id": kid, "what": f"[{prop_stream}: {count} case(s), e.g. {example}] {KNOWN_CLASSES[cls]}"})


# ------------------------------------------------------------------------------------------------
# flag-carrying cluster primitives (hook level): delete_glyph, delete_glyphs_inplace, merge_clusters,
# merge_out_clusters, replace_glyphs on buffers whose masks already carry glyph flags
#
# What the flag of a glyph means for C03: the flag on the first glyph of cluster c governs the boundary at the text
# start of c.  When a primitive changes the cluster value of a glyph it therefore has to decide which flags the
# renamed glyph carries (buffer.rs::set_cluster(info, cluster, mask): "if the cluster value changes, the DEFINED bits
# are replaced by those of `mask`").  The contract checked (and proved for the model, Props/C03.lean):
#   * delete_glyph / delete_glyphs_inplace, glyph alone in its cluster c, previous (kept) glyph has cluster p > c
#     (descending buffer): the whole trailing run of p is renamed to c and carries exactly the deleted glyph's flags
#     (the boundary at the start of c is still there and is now theirs);
#   * the cluster survives in a neighbour, or p < c (ascending: the boundary at c disappears): nothing but the
#     deletion happens;
#   * every primitive: a glyph whose cluster value is unchanged keeps its whole mask; a glyph whose cluster value
#     changes keeps every non-flag bit; a glyph renamed by merge_clusters / merge_out_clusters carries no flag
#     (set_cluster(.., 0), as in HarfBuzz).

CARRY_FLAG_VALUES = [0, 0, 1, 2, 3, 3, 3, 4, 5, 6, 7]


def carry_walk(r, pc, pt):
    """-> request line (flagwt).  In/out walks around `del` (+ merges, replacements) or one in-place `delin` /
    `merge`, masks with flag bits, ascending / descending / unordered clusters, levels 0-2."""
    n = r.range(2, 8)
    mono = r.choice(["asc", "desc", "desc", "rand"])
    fl = r.choice([0, pc, pc | pt])
    st = bufgen.fresh_state(r, n, level=r.choice([0, 0, 1, 1, 2]), flags=fl, mono=mono, slack=r.below(2), maxlen=1000)
    one_del = r.chance(1, 2)
    kd = r.below(n)
    items = []
    for i, (g, m, c, a, b) in enumerate(st["I"]):
        if i < n:
            m |= r.choice(CARRY_FLAG_VALUES)
            if one_del:
                b = 1 if i == kd else 0
        items.append((g, m, c, a, b))
    st["I"] = items
    st["sc"] = 0x20
    ops = []
    if r.chance(2, 3):
        ops.append("clearout")
        idx = out = 0
        gid = 700
        for _ in range(r.range(1, 7)):
            rem = n - idx
            cand = []
            if rem > 0:
                cand += ["next", "next", "del", "del", "del", "repl", "repls", "copy", "utbo"]
            if rem > 1:
                cand += ["merge", "nexts"]
            if out > 1:
                cand += ["mergeout"]
            if not cand:
                break
            k = r.choice(cand)
            if k == "next": ops.append("next"); idx += 1; out += 1
            elif k == "nexts":
                c = r.range(1, rem - 1); ops.append(f"nexts {c}"); idx += c; out += c
            elif k == "del": ops.append("del"); idx += 1
            elif k == "copy": ops.append("copy"); out += 1
            elif k == "repl": gid += 1; ops.append(f"repl {gid}"); idx += 1; out += 1
            elif k == "repls":
                nin = r.range(1, min(3, rem)); no = r.range(0, 3)
                gs = []
                for _ in range(no):
                    gid += 1; gs.append(str(gid))
                ops.append(f"repls {nin} " + " ".join(gs)); idx += nin; out += no
            elif k == "merge":
                s = r.range(idx, n - 2); ops.append(f"merge {s} {r.range(s + 2, n)}")
            elif k == "mergeout":
                s = r.range(0, out - 2); ops.append(f"mergeout {s} {r.range(s + 2, out)}")
            elif k == "utbo":
                ops.append(f"utbo {r.range(0, out)} {r.range(idx, n)}")
        ops.append("sync")
    else:
        for _ in range(r.range(0, 2)):
            s = r.range(0, n - 2)
            ops.append(f"{r.choice(['merge', 'merge', 'utb'])} {s} {r.range(s + 2, n)}")
        ops.append("delin")
    if r.chance(1, 2):
        ops.append("propagate")
    return "flagwt " + bufgen.state_str(st) + " ; " + " ; ".join(ops)


def del_contract(O, cur, nxt):
    """delete_glyph on (kept glyphs O, deleted glyph cur, following glyph nxt or None) -> (O', case).
    O' is None in the forward-merge case (nothing kept yet), whose exact outcome is merge_clusters' business."""
    c = cur[2]
    if (nxt is not None and nxt[2] == c) or (O and O[-1][2] == c):
        return list(O), "survives"
    if O:
        p = O[-1][2]
        if c < p:
            k = len(O)
            while k > 0 and O[k - 1][2] == p:
                k -= 1
            return list(O[:k]) + [(g, (m & ~DEFINED) | (cur[1] & DEFINED), c, a, b) for (g, m, _, a, b) in O[k:]], "backward"
        return list(O), "vanishes"
    return None, "forward"


def _frame(before, after, what, level=0):
    """the set_cluster frame on two versions of one glyph array: same cluster -> same record; renamed -> every
    non-flag bit kept.  At level 2 merge_clusters is unsafe_to_break: clusters stay, masks may gain BREAK|CONCAT."""
    for i, (x, y) in enumerate(zip(before, after)):
        if (x[0], x[3], x[4]) != (y[0], y[3], y[4]):
            return f"{what}[{i}]: glyph/var fields changed {x} -> {y}"
        if level == 2 and x[2] == y[2] and y[1] == x[1] | BREAK | CONCAT:
            continue
        if x[2] == y[2] and x[1] != y[1]:
            return f"{what}[{i}]: cluster unchanged but mask {x[1]:#x} -> {y[1]:#x}"
        if x[2] != y[2] and (x[1] & ~DEFINED) != (y[1] & ~DEFINED):
            return f"{what}[{i}]: renamed glyph lost non-flag mask bits {x[1]:#x} -> {y[1]:#x}"
    return None


def carry_eval(ln, reply):
    """oracle on the crate's trace of one carry walk -> (deviation or None, {case: count})"""
    tr = bufgen.parse_trace(reply) if reply.startswith("ok r=") else None
    if tr is None:
        return f"crash {reply[:160]}", {}
    rets, states = tr
    ops = [x.strip() for x in ln.split(" ; ")[1:]]
    prev = bufgen.parse_state(ln.split(" ; ")[0].split(" ", 1)[1])
    seen = {}
    for k, (op, st) in enumerate(zip(ops, states)):
        name = op.split()[0]
        if name == "del" and prev["ok"] == 1 and prev["i"] < prev["n"]:
            O, R = bufgen.view(prev)
            want, case = del_contract(O, R[0], R[1] if len(R) > 1 else None)
            seen[f"del:{case}"] = seen.get(f"del:{case}", 0) + 1
            O2, R2 = bufgen.view(st)
            if want is not None:
                if [tuple(x) for x in O2] != [tuple(x) for x in want] or list(R2) != list(R[1:]):
                    return (f"step {k} delete_glyph ({case}): kept glyphs {O2} + {R2}, contract says {want} + {R[1:]} "
                            f"(deleted glyph {R[0]})"), seen
            else:
                if len(O2) != 0 or len(R2) != len(R) - 1:
                    return f"step {k} delete_glyph (forward): wrong lengths", seen
                d = _frame(R[1:], R2, "in", prev["L"])
                if d:
                    return f"step {k} delete_glyph (forward): {d}", seen
        elif name == "delin" and prev["ok"] == 1:
            I = prev["I"][:prev["n"]]
            dels = [i for i, x in enumerate(I) if x[4] == 1]
            got = st["I"][:st["n"]]
            if len(dels) == 1:
                i = dels[0]
                want, case = del_contract(I[:i], I[i], I[i + 1] if i + 1 < len(I) else None)
                seen[f"delin:{case}"] = seen.get(f"delin:{case}", 0) + 1
                if want is not None:
                    if [tuple(x) for x in got] != [tuple(x) for x in want + I[i + 1:]]:
                        return (f"step {k} delete_glyphs_inplace ({case}): result {got}, contract says {want + I[i + 1:]} "
                                f"(deleted glyph {I[i]})"), seen
                else:
                    d = _frame(I[1:], got, "info", prev["L"]) if len(got) == len(I) - 1 else "wrong length"
                    if d:
                        return f"step {k} delete_glyphs_inplace (forward): {d}", seen
            else:
                seen["delin:multi"] = seen.get("delin:multi", 0) + 1
                if len(got) != len(I) - len(dels):
                    return f"step {k} delete_glyphs_inplace: {len(dels)} glyphs to delete, length {len(I)} -> {len(got)}", seen
        elif name in ("merge", "mergeout") and prev["L"] != 2 and prev["ok"] == 1:
            seen[name] = seen.get(name, 0) + 1
            for arr in ("I", "U"):
                d = _frame(prev[arr], st[arr], arr)
                if d is None:
                    # merges never hand flags on: a renamed glyph carries none
                    for i, (x, y) in enumerate(zip(prev[arr], st[arr])):
                        if x[2] != y[2] and y[1] & DEFINED:
                            d = f"{arr}[{i}]: renamed by a merge but carries flags {y[1] & DEFINED:#x}"
                            break
                if d:
                    return f"step {k} {op}: {d}", seen
        prev = st
    return None, seen


# ------------------------------------------------------------------------------------------------
# synthetic GSUB fonts for the two metamorphic experiments: contextual lookups (types 5 / 6, all formats, with
# backtrack / lookahead) whose nested lookups substitute, multiply and DELETE glyphs (MultipleSubst with an empty
# sequence), over a small alphabet so that random texts match often; shaped in all four directions, i.e. also with
# the buffer reversed (descending clusters during GSUB).

import fontbuild, gsubgen

ALPHABETS = {
    # name: (first code point, script the segment-property guess resolves to, the script's own horizontal direction)
    "latin": (0x61, "Latn", "l"),
    "hebrew": (0x5D0, "Hebr", "r"),
    "pua": (0xE000, None, "l"),
}
SYNTH_TAGS = ["ccmp", "ccmp", "locl", "rlig", "liga", "calt", "clig"]


class SynthCase:
    """stands in for a corpus case (same attributes)"""
    __slots__ = ("name", "font", "index", "text", "dir", "script", "lang", "flags", "level", "feats", "pre", "post",
                 "extra", "opts")


def _letters_cov(r, k, kmin=1, kmax=3):
    return sorted(set(r.sample(list(range(1, k + 1)), r.range(kmin, min(kmax, k)))))


def _deleting(lk):
    """can this leaf lookup delete a glyph (MultipleSubst with an empty sequence)?"""
    return lk["type"] == 2 and any(len(q) == 0 for st in lk["subtables"] for q in st["sequences"])


def _rules_of(st):
    """all nested-lookup record lists of one contextual subtable"""
    if st.get("format") == 3:
        return [st["lookups"]]
    out = []
    for rs in st.get("rulesets") or st.get("classsets") or []:
        for ru in rs or []:
            out.append(ru["lookups"])
    return out


def _tame_records(recs, lookups):
    """profile `core`: at most one deleting record per rule and nothing after it (see class nested-delete-drift)"""
    keep, dele = [], None
    for (si, li) in recs:
        if _deleting(lookups[li]):
            dele = dele or (si, li)
        else:
            keep.append((si, li))
    return keep + ([dele] if dele else [])


def synth_recipe(r, profile="core"):
    """a fontbuild recipe: k letters (glyphs 1..k, in the cmap), a few extra glyphs that only substitutions produce;
    leaf lookups (deletion always among them) that are reached through contextual lookups and, sometimes, directly.
    profiles: `core` — sequences of at most one glyph, a deleting record is the last record of its rule;
    `multi` — sequences of up to three glyphs; `drift` — any record order; `lig` — ligature leaves as well;
    `rev` — `core` plus a ReverseChainSingleSubst lookup."""
    alpha = r.choice(sorted(ALPHABETS))
    first = ALPHABETS[alpha][0]
    k = r.range(3, 6)
    n = 1 + k + r.range(1, 3)
    rec = {"num_glyphs": n, "cmap": {first + g - 1: g for g in range(1, k + 1)},
           "advances": [400 + 37 * g for g in range(n)]}
    if r.chance(1, 3):
        # GDEF classes so that lookup flags (IgnoreMarks / IgnoreBaseGlyphs) skip glyphs inside a match
        rec["gdef"] = {"classes": {g: r.choice([1, 1, 3, 2]) for g in range(1, n) if r.chance(2, 3)}}
    maxseq = 3 if profile in ("multi", "lig") else 1
    leaf_kinds = ["del"] + [r.choice(["del", "single", "multi", "multi", "lig" if profile == "lig" else "single"])
                            for _ in range(r.range(0, 3))]
    lookups = []
    for kind in leaf_kinds:
        cov = _letters_cov(r, k)
        if kind == "del":
            st = {"coverage": cov, "sequences": [[] if r.chance(3, 4) else [r.range(1, n - 1)] for _ in cov]}
            lookups.append({"type": 2, "flag": 0, "subtables": [st]})
        elif kind == "single":
            lookups.append({"type": 1, "flag": 0, "subtables": [{"format": 2, "coverage": cov,
                                                                 "subst": [r.range(1, n - 1) for _ in cov]}]})
        elif kind == "multi":
            st = {"coverage": cov, "sequences": [[r.range(1, n - 1) for _ in range(r.range(0, maxseq))] for _ in cov]}
            lookups.append({"type": 2, "flag": 0, "subtables": [st]})
        else:
            sets = [[{"components": [r.range(1, k) for _ in range(r.range(1, 2))], "glyph": r.range(1, n - 1)}] for _ in cov]
            lookups.append({"type": 4, "flag": 0, "subtables": [{"coverage": cov, "ligsets": sets}]})
    nleaf = len(lookups)
    classdefs = [{g: r.range(1, 2) for g in range(1, k + 1) if r.chance(2, 3)} for _ in range(2)] + [{}]
    top = []
    for _ in range(r.range(1, 3)):
        t = r.choice([5, 6, 6, 6])
        sub = None
        if r.chance(1, 2):
            # format 3 with coverages over the letters: the common shape of real fonts' contextual rules
            inp = [_letters_cov(r, k) for _ in range(r.range(1, 3))]
            recs = [(r.below(len(inp)), r.below(nleaf)) for _ in range(r.range(1, 2))]
            if t == 5:
                sub = {"format": 3, "coverages": inp, "lookups": recs}
            else:
                sub = {"format": 3, "backtrack": [_letters_cov(r, k, 1, 4) for _ in range(r.range(0, 2))], "coverages": inp,
                       "lookahead": [_letters_cov(r, k, 1, 4) for _ in range(r.range(0, 2))], "lookups": recs}
        else:
            sub = gsubgen.rand_subtable(r, t, k + 1, nleaf, None, classdefs)
        if profile != "drift":
            if sub.get("format") == 3:
                sub["lookups"] = _tame_records(sub["lookups"], lookups)
            else:
                for rs in sub.get("rulesets") or sub.get("classsets") or []:
                    for ru in rs or []:
                        ru["lookups"] = _tame_records(ru["lookups"], lookups)
        flag = r.choice([0, 0, 0, 8, 2]) if "gdef" in rec else 0
        top.append(len(lookups))
        lookups.append({"type": t, "flag": flag, "subtables": [sub]})
    if r.chance(1, 3):
        top.append(r.below(nleaf))          # a leaf also runs on its own, after / before the contextual lookups
    if profile == "rev":
        # ReverseChainSingleSubst can only be a top-level lookup ("no chaining to this type")
        cov = _letters_cov(r, k)
        top.append(len(lookups))
        lookups.append({"type": 8, "flag": 0, "subtables": [{
            "coverage": cov, "backtrack": [_letters_cov(r, k, 1, 4) for _ in range(r.range(0, 2))],
            "lookahead": [_letters_cov(r, k, 1, 4) for _ in range(r.range(0, 2))],
            "subst": [r.range(1, n - 1) for _ in cov]}]})
    feats = []
    order = r.shuffle(top)
    tags = r.sample(sorted(set(SYNTH_TAGS)), r.range(1, 2))
    for j, t in enumerate(tags):
        mine = [x for i, x in enumerate(order) if i % len(tags) == j]
        if mine:
            feats.append({"tag": t, "lookups": mine})
    rec["gsub"] = {"features": feats, "lookups": lookups}
    return rec, alpha, k


def recipe_traits(rec):
    """what a synthetic font can do that matters for the documented finding classes"""
    lk = rec["gsub"]["lookups"]
    tr = {"has_lig": any(l["type"] == 4 for l in lk), "has_reverse": any(l["type"] == 8 for l in lk),
          "has_seq2": any(l["type"] == 2 and any(len(q) > 1 for st in l["subtables"] for q in st["sequences"]) for l in lk),
          "has_drift": False}
    for l in lk:
        if l["type"] in (5, 6):
            for st in l["subtables"]:
                for recs in _rules_of(st):
                    for j, (si, li) in enumerate(recs):
                        if li < len(lk) and lk[li]["type"] == 2 and _deleting(lk[li]) and j + 1 < len(recs):
                            tr["has_drift"] = True
    return tr


SYNTH_PROFILES = ["core", "core", "core", "core", "core", "multi", "drift", "lig", "core", "rev"]


def synth_groups(r, count, prefix="S"):
    """font groups (same shape as FontSet.groups) of synthetic fonts, 6 in 10 of profile `core`"""
    groups = []
    i = 0
    while len(groups) < count:
        profile = SYNTH_PROFILES[i % len(SYNTH_PROFILES)]
        i += 1
        rec, alpha, k = synth_recipe(r, profile)
        try:
            hx = fontbuild.hexfont(rec)
        except fontbuild.FontBuildError:
            continue
        first, script, native = ALPHABETS[alpha]
        fid = f"{prefix}{len(groups)}"
        c = SynthCase()
        c.name, c.font, c.index, c.text = fid, f"synthetic:{fid}", 0, ""
        c.dir, c.script, c.lang, c.flags, c.level, c.feats = None, script, None, 0, 0, []
        c.pre, c.post, c.extra, c.opts = "", "", [], ""
        alphabet = [chr(first + j) for j in range(k)]
        g = {"fid": fid, "reg": f"font {fid} {hx}", "cases": [c], "alphabet": alphabet, "aat": False,
             "synthetic": True, "profile": profile, "recipe": rec}
        g.update(recipe_traits(rec))
        groups.append(g)
    return groups + witness_groups(prefix + "w")


_ABC = {0x61: 1, 0x62: 2, 0x63: 3}
WITNESS_FONTS = {
    # class: (recipe, text) — smallest inputs of the finding classes above, shaped left to right (the script's own direction)
    "deleted-flag-carrier": ({"num_glyphs": 7, "cmap": _ABC, "gsub": {"features": [{"tag": "ccmp", "lookups": [1, 2]}], "lookups": [
        {"type": 2, "flag": 0, "subtables": [{"coverage": [4], "sequences": [[]]}]},                       # delete x
        {"type": 2, "flag": 0, "subtables": [{"coverage": [1], "sequences": [[4, 5]]}]},                   # a -> x y
        {"type": 6, "flag": 0, "subtables": [{"format": 3, "backtrack": [[3]], "coverages": [[4]], "lookahead": [],
                                              "lookups": [(0, 0)]}]}]}}, "ca"),                              # c x| -> delete x
    "nested-delete-drift": ({"num_glyphs": 7, "cmap": _ABC, "gsub": {"features": [{"tag": "ccmp", "lookups": [2]}], "lookups": [
        {"type": 2, "flag": 0, "subtables": [{"coverage": [2], "sequences": [[]]}]},                       # delete b
        {"type": 1, "flag": 0, "subtables": [{"format": 2, "coverage": [3], "subst": [6]}]},               # c -> z
        {"type": 5, "flag": 0, "subtables": [{"format": 3, "coverages": [[1], [2]], "lookups": [(1, 0), (1, 1)]}]}]}}, "abc"),
    # repaired (fix: ReverseChainSingleSubst ... backtrack does not match): kept as a regression witness, class None
    "reverse-chain-concat": ({"num_glyphs": 7, "cmap": _ABC, "gsub": {"features": [{"tag": "ccmp", "lookups": [0]}], "lookups": [
        {"type": 8, "flag": 0, "subtables": [{"coverage": [3], "backtrack": [[1]], "lookahead": [], "subst": [6]}]}]}}, "abc"),
    # repaired (fix: match_input left end_position unset when it declined in the ligature-component rules): regression witness,
    # class None.  b (marks skipped) c -> ligature 5, the skipped mark d becomes component 1 of it; a (ligatures skipped) d -> 6
    # declines AT that d because it belongs to another ligature.  Before the repair nothing was flagged and the even text
    # <a, d#4> of the redistribution ligated to 6 (Lean: C04_ligcomp_fail_flagged)
    "ligcomp-concat": ({"num_glyphs": 7, "cmap": {0x61: 1, 0x62: 2, 0x63: 3, 0x64: 4},
                        "gdef": {"classes": {1: 1, 2: 1, 3: 1, 4: 3, 5: 2, 6: 1}},
                        "gsub": {"features": [{"tag": "ccmp", "lookups": [0, 1]}], "lookups": [
        {"type": 4, "flag": 8, "subtables": [{"coverage": [2], "ligsets": [[{"components": [3], "glyph": 5}]]}]},
        {"type": 4, "flag": 4, "subtables": [{"coverage": [1], "ligsets": [[{"components": [4], "glyph": 6}]]}]}]}}, "abdcd"),
}


def witness_groups(prefix="W"):
    groups = []
    for cls, (rec, text) in sorted(WITNESS_FONTS.items()):
        fid = f"{prefix}{len(groups)}"
        c = SynthCase()
        c.name, c.font, c.index, c.text = fid, f"synthetic:{fid}", 0, ""
        c.dir, c.script, c.lang, c.flags, c.level, c.feats = None, "Latn", None, 0, 0, []
        c.pre, c.post, c.extra, c.opts = "", "", [], ""
        g = {"fid": fid, "reg": f"font {fid} {fontbuild.hexfont(rec)}", "cases": [c], "alphabet": sorted(chr(cp) for cp in rec["cmap"]), "aat": False,
             "synthetic": True, "profile": "witness:" + cls, "recipe": rec, "witness_text": text}
        g.update(recipe_traits(rec))
        groups.append(g)
    return groups


def make_synth_shaping(r, g, flags, dirs=("l", "r", "t", "b"), levels=(0, 1)):
    s = Shaping()
    s.g = g
    s.case = g["cases"][0]
    s.text = "".join(r.choice(g["alphabet"]) for _ in range(r.range(2, 9)))
    s.clusters = rand_clusters(r, len(s.text), False)
    s.req_dir = r.choice(dirs)
    if "witness_text" in g:
        s.text, s.req_dir = g["witness_text"], "l"
        s.clusters = list(range(len(s.text)))
    s.dir = s.req_dir
    s.script = s.case.script
    s.flags = flags | r.choice([0, 3, 3, 3])
    s.level = r.choice(levels)
    s.extra = []
    s.pre, s.post = "", ""
    s.subset = None
    s.line = None
    return s


KNOWN_CLASSES["deleted-flag-carrier"] = (
    "delete_glyph / delete_glyphs_inplace, branch `Cluster survives; do nothing` (buffer.rs, same in HarfBuzz hb-buffer.cc): when the "
    "deleted glyph shares its cluster with a neighbour, its glyph flags are dropped although the cluster lives on.  A MultipleSubst "
    "that made a cluster of several glyphs, a contextual match that covers (and flags) only some of them, and the deletion of exactly "
    "those leaves the rest of the cluster unflagged (propagate_flags can no longer see the flag)")
KNOWN_CLASSES["nested-delete-drift"] = (
    "apply_lookup (ot_layout_gsubgpos.rs, the TODO copied from HarfBuzz: `if buffer length was decreased by n, we assume n match "
    "positions after the current one were removed`): after a nested MultipleSubst deleted the glyph at the LAST match position, the "
    "position still counts as part of the match and now addresses the glyph after the match; a later record of the same rule "
    "substitutes / deletes that glyph, which lies outside the span flagged by unsafe_to_break / unsafe_to_concat")


def synth_known_class(s, kind="break", o=None):
    """synthetic fonts have no marks, digits, variation selectors and no reordering shaper.  Documented classes they can
    fall into, decided from the recipe alone (over-approximation; fonts of profile `core` are in none of them):
    ligatures under a reversed buffer (class `reversed`), multi-glyph sequences + deletion, records after a deleting record"""
    g = s.g
    if g.get("has_drift"):
        return "nested-delete-drift"
    if g.get("has_seq2"):
        return "deleted-flag-carrier"
    if shaped_reversed(s) and g.get("has_lig"):
        return "reversed"
    return None


# ------------------------------------------------------------------------------------------------
# default ignorables inside the text: ot_shape.rs::hide_default_ignorables either turns them into the invisible (space)
# glyph or — font without a glyph for U+0020, or REMOVE_DEFAULT_IGNORABLES — DELETES them after positioning through
# buffer.rs::delete_glyphs_inplace, i.e. after the final reversal of a right-to-left run (descending clusters: the
# "Merge cluster backward" branch hands the deleted glyph's flags to the run that takes over its cluster value).
# Which flag an ignorable carries depends on how lookups treat it: ZWNJ is not skipped inside an input sequence, so a
# ligature / context attempt that fails AT the ZWNJ flags a span ending on it; ZWJ and the other ignorables are skipped
# (the span runs over them); in backtrack / lookahead all are skipped.

DEFAULT_IGNORABLES = [0x200C] * 8 + [0x200D, 0x200D, 0x00AD, 0x034F, 0x2060, 0x200B, 0xFEFF, 0x061C, 0x180E]


DI_RULE = ("synthetic GSUB fonts (tools/flagslib.py::di_recipe: 3-5 letters of Hebrew (3 in 4) / Latin; top-level ligature and single "
           "substitutions, chaining contexts over them; 3 fonts in 4 WITHOUT a glyph for U+0020, so default ignorables are deleted by "
           "delete_glyphs_inplace after positioning, i.e. after the final reversal of a right-to-left run) x texts of letters, of the "
           "sequences the font's own lookups look for (whole / only the beginning / with an ignorable inside) and of default "
           "ignorables (ZWNJ half of them; ZWJ, SHY, CGJ, WJ, ZWSP, BOM, ALM, MVS) after any chunk, several in a row, first x the "
           "script's own direction (6 in 10) or l / r / t / b x levels 0/1 x PRESERVE / REMOVE_DEFAULT_IGNORABLES 1 in 6 each; ")


def di_recipe(r):
    """a fontbuild recipe: k letters of Latin / Hebrew (both native directions), a few extra glyphs; TOP-LEVEL ligature and
    single substitutions plus chaining-context lookups (format 3, backtrack / lookahead) whose records call them; no
    multi-glyph sequence, no deletion (so outside the classes deleted-flag-carrier / nested-delete-drift); 1 font in 4 has a
    glyph for U+0020 (ignorables become invisible glyphs instead of being deleted), 1 in 4 real glyphs for ZWNJ / ZWJ"""
    alpha = r.choice(["latin", "hebrew", "hebrew", "hebrew"])
    first = ALPHABETS[alpha][0]
    k = r.range(3, 5)
    nx = r.range(2, 4)
    n = 1 + k + nx
    extra = list(range(k + 1, n))
    cmap = {first + g - 1: g for g in range(1, k + 1)}
    if r.chance(1, 4):
        cmap[0x20] = n; n += 1
    if r.chance(1, 4):
        cmap[0x200C] = n; cmap[0x200D] = n + 1; n += 2
    rec = {"num_glyphs": n, "cmap": cmap, "advances": [400 + 37 * g for g in range(n)]}
    lookups = []
    for _ in range(r.range(1, 3)):
        if r.chance(2, 3):
            cov = _letters_cov(r, k)
            sets = [[{"components": [r.range(1, k) for _ in range(r.choice([1, 1, 2]))], "glyph": r.choice(extra)}
                     for _ in range(r.range(1, 2))] for _ in cov]
            lookups.append({"type": 4, "flag": 0, "subtables": [{"coverage": cov, "ligsets": sets}]})
        else:
            cov = _letters_cov(r, k)
            lookups.append({"type": 1, "flag": 0, "subtables": [{"format": 2, "coverage": cov,
                                                                 "subst": [r.range(1, n - 1) for _ in cov]}]})
    nleaf = len(lookups)
    top = list(range(nleaf)) if r.chance(3, 4) else [0]
    for _ in range(r.range(0, 2)):
        inp = [_letters_cov(r, k) for _ in range(r.range(1, 3))]
        sub = {"format": 3, "backtrack": [_letters_cov(r, k, 1, 4) for _ in range(r.range(0, 2))], "coverages": inp,
               "lookahead": [_letters_cov(r, k, 1, 4) for _ in range(r.range(0, 2))],
               "lookups": [(r.below(len(inp)), r.below(nleaf))]}
        top.append(len(lookups))
        lookups.append({"type": 6, "flag": 0, "subtables": [sub]})
    order = r.shuffle(top)
    tags = r.sample(sorted(set(SYNTH_TAGS)), r.range(1, 2))
    feats = []
    for j, t in enumerate(tags):
        mine = [x for i, x in enumerate(order) if i % len(tags) == j]
        if mine:
            feats.append({"tag": t, "lookups": mine})
    rec["gsub"] = {"features": feats, "lookups": lookups}
    return rec, alpha, k


def di_groups(r, count, prefix="D"):
    groups = []
    while len(groups) < count:
        rec, alpha, k = di_recipe(r)
        try:
            hx = fontbuild.hexfont(rec)
        except fontbuild.FontBuildError:
            continue
        first, script, native = ALPHABETS[alpha]
        fid = f"{prefix}{len(groups)}"
        c = SynthCase()
        c.name, c.font, c.index, c.text = fid, f"synthetic:{fid}", 0, ""
        c.dir, c.script, c.lang, c.flags, c.level, c.feats = None, script, None, 0, 0, []
        c.pre, c.post, c.extra, c.opts = "", "", [], ""
        g = {"fid": fid, "reg": f"font {fid} {hx}", "cases": [c], "alphabet": [chr(first + j) for j in range(k)], "aat": False,
             "synthetic": True, "profile": "default-ignorables", "recipe": rec, "native": native,
             "has_space": 0x20 in rec["cmap"], "patterns": di_patterns(rec)}
        g.update(recipe_traits(rec))
        groups.append(g)
    return groups


def di_patterns(rec):
    """glyph sequences the font's lookups look for: every ligature (first glyph + components) and one instance of
    every chaining-context input sequence (with its backtrack before and lookahead after it)"""
    pats = []
    for lk in rec["gsub"]["lookups"]:
        for st in lk["subtables"]:
            if lk["type"] == 4:
                for g, ls in zip(fontbuild.coverage_order(st["coverage"]), st["ligsets"]):
                    for lig in ls:
                        pats.append([g] + list(lig["components"]))
            elif lk["type"] == 6 and st.get("format") == 3:
                pats.append([c[0] for c in st["backtrack"][::-1]] + [c[-1] for c in st["coverages"]] + [c[0] for c in st["lookahead"]])
    return pats


def make_di_shaping(r, g, flags, preserve=4, remove=8):
    """chunks of: a random letter; a sequence one of the font's lookups looks for (di_patterns) — whole, or only its
    beginning, or with a default ignorable put inside it; default ignorables (also several in a row) after any chunk and
    sometimes first.  So ignorables stand inside and right after ligature / context starts.  Mostly the script's own
    direction, sometimes forced; PRESERVE / REMOVE_DEFAULT_IGNORABLES sometimes"""
    inv = {gid: cp for cp, gid in g["recipe"]["cmap"].items()}
    pats = [p for p in (g.get("patterns") or []) if all(x in inv for x in p)]
    t = []
    di = lambda: chr(r.choice(DEFAULT_IGNORABLES))
    for _ in range(r.range(2, 5)):
        k = r.below(5)
        if k < 2 or not pats:
            t.append(r.choice(g["alphabet"]))
        else:
            p = [chr(inv[x]) for x in r.choice(pats)]
            if k == 2:
                t += p
            elif k == 3:
                t += p[:r.range(1, len(p))]
            else:
                a = r.range(1, max(1, len(p) - 1))
                t += p[:a] + [di()] + p[a:]
        while r.chance(1, 3):
            t.append(di())
    if r.chance(1, 6):
        t.insert(0, di())
    t = t[:20]
    s = Shaping()
    s.g = g
    s.case = g["cases"][0]
    s.text = "".join(t)
    s.clusters = rand_clusters(r, len(s.text), False)
    s.req_dir = r.choice([g["native"]] * 6 + ["l", "r", "t", "b"])
    s.dir = s.req_dir
    s.script = s.case.script
    s.flags = flags | r.choice([0, 3, 3, 3]) | r.choice([0, 0, 0, 0, preserve, remove])
    s.level = r.choice((0, 1))
    s.extra = []
    s.pre, s.post = "", ""
    s.subset = None
    s.line = None
    return s


def di_known_class(s, kind="break", o=None):
    return "reversed" if shaped_reversed(s) else None


# ------------------------------------------------------------------------------------------------
# the Arabic shaper's `stch` post-processing (ot_shaper_arabic.rs::record_stch / apply_stch): every glyph multiplied while the
# `stch` feature ran becomes a fixed (even component) or repeating (odd component) tile; after positioning the repeating
# tiles are copied until the tiles fill the summed advance of the WORD that follows the stretching mark in the text (glyphs of
# word category — letters other than cased ones, marks, numbers, symbols — and default ignorables), and all tiles get
# offsets.  So the tiles of a mark depend on every glyph of its word; apply_stch flags mark + word unsafe_to_break.

STCH_SCRIPTS = {
    # script: (font script tag, marks that fonts stretch, word characters, separators = not word category)
    "Arab": ("arab", [0x0600, 0x0601, 0x0602, 0x0603, 0x0604, 0x0605, 0x06DD, 0x0890, 0x0891, 0x08E2],
             [0x0660, 0x0661, 0x0662, 0x0031, 0x0032, 0x0621, 0x0627, 0x062F, 0x0648, 0x0628, 0x0644, 0x064E, 0x200C, 0x200D, 0x06F1],
             [0x0020, 0x060C, 0x002E, 0x0061, 0x066B]),
    "Syrc": ("syrc", [0x070F],
             [0x0030, 0x0031, 0x0032, 0x0710, 0x0712, 0x0715, 0x0718, 0x0730, 0x200C, 0x034F],
             [0x0020, 0x0700, 0x002E, 0x0061]),
}
WORD_GC = {"Cn", "Co", "Lm", "Lo", "Mc", "Me", "Mn", "Nd", "Nl", "No", "Sc", "Sk", "Sm", "So"}     # is_word_category


def is_default_ignorable_cp(c):
    return (c in (0x00AD, 0x034F, 0x061C, 0x115F, 0x1160, 0x17B4, 0x17B5, 0x3164, 0xFEFF, 0xFFA0) or 0x180B <= c <= 0x180F
            or 0x200B <= c <= 0x200F or 0x202A <= c <= 0x202E or 0x2060 <= c <= 0x206F or 0xFE00 <= c <= 0xFE0F
            or 0xFFF0 <= c <= 0xFFF8 or 0x1D173 <= c <= 0x1D17A or 0xE0000 <= c <= 0xE0FFF)


def is_word_char(ch):
    import unicodedata
    return ord(ch) not in PCM and (unicodedata.category(ch) in WORD_GC or is_default_ignorable_cp(ord(ch)))


def stch_recipe(r):
    """a fontbuild recipe for the Arabic shaper: one glyph per mark / word character / separator, 2-5 tile glyphs; feature
    `stch` = MultipleSubst of every mark into 2-5 tiles (components 0, 2, 4 fixed; 1, 3 repeating); advances drawn so that
    words are shorter, about as long as, or several times longer than the tiles; half of the fonts also have positional
    forms (isol / init / medi / fina) for the joining letters, so joining flags mix with the stretch flags"""
    script = r.choice(["Arab", "Arab", "Syrc"])
    tag, marks, words, seps = STCH_SCRIPTS[script]
    marks = r.sample(marks, r.range(1, min(3, len(marks))))
    chars = marks + [c for c in words if not is_default_ignorable_cp(c)] + seps
    cmap = {cp: 1 + j for j, cp in enumerate(chars)}
    n = 1 + len(chars)
    ntiles = r.range(2, 5)
    tiles = list(range(n, n + ntiles)); n += ntiles
    forms = {}
    if r.chance(1, 2):
        for cp in (0x0628, 0x0644, 0x0712):
            if cp in cmap:
                forms[cmap[cp]] = n; n += 1
    adv = [0] * n
    for cp, g in cmap.items():
        adv[g] = r.choice([0, 100, 250]) if cp in marks else (0 if cp in (0x064E, 0x0730) else r.range(150, 700))
    for g in tiles:
        adv[g] = r.choice([0, 40, 90, 150, 300, 500]) if r.chance(1, 6) else r.range(40, 300)
    for g in forms.values():
        adv[g] = r.range(150, 700)
    mg = sorted(cmap[m] for m in marks)
    lookups = [{"type": 2, "flag": 0, "subtables": [{"coverage": mg, "sequences": [
        [r.choice(tiles) for _ in range(r.range(2, 5))] for _ in mg]}]}]
    feats = [{"tag": "stch", "lookups": [0]}]
    if forms:
        lookups.append({"type": 1, "flag": 0, "subtables": [{"format": 2, "coverage": sorted(forms),
                                                             "subst": [forms[g] for g in sorted(forms)]}]})
        for t in r.sample(["isol", "init", "medi", "fina"], r.range(1, 4)):
            feats.append({"tag": t, "lookups": [1]})
    scripts = [{"tag": tag, "default": {"required": None, "features": list(range(len(feats)))}, "langs": []}]
    if script == "Arab" and r.chance(1, 2):
        scripts[0]["tag"] = "DFLT"
    rec = {"num_glyphs": n, "cmap": cmap, "advances": adv,
           "gsub": {"scripts": scripts, "features": feats, "lookups": lookups}}
    return rec, script, marks


def _stch_group(fid, reg, font, script, marks, words, seps, recipe=None):
    c = SynthCase()
    c.name, c.font, c.index, c.text = fid, font, 0, ""
    c.dir, c.script, c.lang, c.flags, c.level, c.feats = None, script, None, 0, 0, []
    c.pre, c.post, c.extra, c.opts = "", "", [], ""
    return {"fid": fid, "reg": reg, "cases": [c], "aat": False, "alphabet": [chr(x) for x in words], "synthetic": recipe is not None,
            "profile": "stch", "recipe": recipe, "stch_marks": [chr(x) for x in marks], "separators": [chr(x) for x in seps]}


def stch_groups(r, count, prefix="T"):
    """synthetic stch fonts + every OpenType font under tests/fonts whose GSUB names the `stch` feature (for those the marks
    are all PCM characters of the script; which of them the font stretches is the font's business)"""
    groups = []
    while len(groups) < count:
        rec, script, marks = stch_recipe(r)
        try:
            hx = fontbuild.hexfont(rec)
        except fontbuild.FontBuildError:
            continue
        fid = f"{prefix}{len(groups)}"
        _, _, words, seps = STCH_SCRIPTS[script]
        groups.append(_stch_group(fid, f"font {fid} {hx}", f"synthetic:{fid}", script, marks, words, seps, rec))
    k = 0
    for dp, dn, fn in sorted(os.walk(os.path.join(vlib.REPO, "tests", "fonts"))):
        for f in sorted(fn):
            p = os.path.join(dp, f)
            try:
                data = open(p, "rb").read()
            except OSError:
                continue
            if data[:4] == b"ttcf" or b"stch" not in data:
                continue
            tabs = sfnt_tables(p)
            if "GSUB" not in tabs or "morx" in tabs:
                continue
            for script in sorted(STCH_SCRIPTS):
                if STCH_SCRIPTS[script][0].encode() not in data:
                    continue
                fid = f"{prefix}f{k}"; k += 1
                _, marks, words, seps = STCH_SCRIPTS[script]
                groups.append(_stch_group(fid, f"fontfile {fid} {p} 0", p, script, marks, words, seps))
    return groups


def make_stch_shaping(r, g, flags):
    """[separator] then 1-3 times: stretching mark (sometimes two), a word of 0-4 word characters, sometimes a separator and
    a second word; the script's own direction (right to left) 3 in 4, else forced left to right"""
    t = []
    word = lambda a, b: [r.choice(g["alphabet"]) for _ in range(r.range(a, b))]
    if r.chance(1, 3):
        t += word(0, 2) + [r.choice(g["separators"])]
    for _ in range(r.range(1, 3)):
        t.append(r.choice(g["stch_marks"]))
        if r.chance(1, 8):
            t.append(r.choice(g["stch_marks"]))
        t += word(0, 4)
        if r.chance(1, 2):
            t += [r.choice(g["separators"])] + word(0, 3)
    t = t[:16]
    s = Shaping()
    s.g = g
    s.case = g["cases"][0]
    s.text = "".join(t)
    s.clusters = rand_clusters(r, len(s.text), False)
    s.req_dir = r.choice(["r", "r", "r", "l"])
    s.dir = s.req_dir
    s.script = s.case.script
    s.flags = flags | r.choice([0, 3, 3, 3])
    s.level = r.choice((0, 1))
    s.extra = []
    s.pre, s.post = "", ""
    s.subset = None
    s.line = None
    return s


def stch_known_class(s, kind="break", o=None):
    """break: apply_stch flags everything the tiles depend on, so nothing is documented (any DIFF outside `reversed` is new);
    concat: the class arabic-pcm-stch, decided from the cut and the difference"""
    if shaped_reversed(s):
        return "reversed"
    if kind == "concat" and stch_attribution(s, o):
        return "arabic-pcm-stch"
    return None


STCH_RULE = ("fonts with the `stch` feature (synthetic, tools/flagslib.py::stch_recipe: Arabic / Syriac script tags or DFLT, 1-3 stretching "
             "marks of U+0600..0605, 06DD, 0890, 0891, 08E2 / U+070F multiplied into 2-5 fixed / repeating tiles, advances from 0 to "
             "several tile widths, half with positional forms for the joining letters; plus every OpenType font under tests/fonts "
             "whose GSUB names stch) x texts of [separator] (mark [mark] word-of-0-4 [separator word])x1-3 with words over digits, "
             "non-joining / right-joining / dual-joining letters, a vowel mark, ZWNJ / ZWJ / CGJ and separators space, punctuation, "
             "a cased letter (not word category) x direction r (3 in 4) / forced l x levels 0/1; ")


# hook level: the real apply_stch on an injected buffer (`stch` request, harness/src/ops/stch.rs) vs the Lean model Stch.lean

def stch_prim_groups(r, nfonts, per_font):
    """request groups: a font that only fixes the advances of 12 glyphs, then buffers in BUFFER order: tile runs of 1-5 glyphs
    (fixed / repeating by component parity, sometimes all of one kind), words of 0-4 word-category / default-ignorable glyphs
    with advances 0..800 (rarely negative), non-word glyphs; clusters monotone in the buffer's direction (1 in 6: unordered),
    masks with random flag and feature bits, levels 0-2, right-to-left and left-to-right buffers"""
    groups = []
    for f in range(nfonts):
        n = 12
        adv = [0] + [r.choice([0, 30, 60, 100, 150, 300, r.range(1, 700)]) for _ in range(n - 1)]
        fid = f"ST{f}"
        lines = [f"font {fid} " + fontbuild.hexfont({"num_glyphs": n, "cmap": {0x41: 1}, "advances": adv})]
        for _ in range(per_font):
            chars = []                        # logical order: (glyphs of one character)
            for _ in range(r.range(1, 4)):
                k = r.below(8)
                if k < 4:
                    nt = r.range(1, 5)
                    mode = r.choice([0, 0, 0, 1, 2, 3])
                    acts = [(2 if j % 2 else 1) if mode == 0 else (1 if mode == 1 else 2 if mode == 2 else r.range(1, 2)) for j in range(nt)]
                    chars.append([(r.range(1, n - 1), a, 0, 0) for a in acts])
                    for _ in range(r.range(0, 4)):
                        chars.append([(r.range(1, n - 1), 0, r.choice([1, 1, 1, 2]),
                                       r.choice([0, r.range(0, 800), r.range(0, 800), -r.range(1, 200) if r.chance(1, 8) else r.range(100, 400)]))])
                elif k < 6:
                    chars.append([(r.range(1, n - 1), 0, 0, r.range(0, 600))])
                else:
                    chars.append([(r.range(1, n - 1), 0, r.choice([1, 2]), r.range(0, 600))])
            cl, c = [], r.below(3)
            for _ in chars:
                cl.append(c); c += r.choice([1, 1, 2, 0] if r.chance(1, 5) else [1, 1, 2])
            if r.chance(1, 6):
                cl = r.shuffle(cl)
            rtl = r.chance(2, 3)
            level = r.choice([0, 0, 1, 1, 2])
            glyphs = []
            for ch, c in zip(chars, cl):
                for (g, a, kind, ad) in ch:
                    m = r.choice([0, 0, 0, 1, 2, 3, 4, 7]) | (r.choice([0, 0x100, 0x80000000]))
                    glyphs.append(f"{g}:{c}:{m}:{a}:{kind}:{ad}:{adv[g]}")
            if rtl:
                glyphs = glyphs[::-1]
            lines.append(f"stch {fid} {1 if rtl else 0} {level} " + " ".join(glyphs))
        groups.append(lines)
    return groups


def classify_stch(ln, out):
    t = ln.split()
    items = [x.split(":") for x in t[4:]]
    ks = [f"dir:{'rtl' if t[2] == '1' else 'ltr'}", f"level:{t[3]}", "ok" if out.startswith("ok") else "other"]
    if any(x[3] != "0" for x in items): ks.append("has-tiles")
    if out.startswith("ok") and len(out.split()) - 1 > len(items): ks.append("tiles-repeated")
    return ks


# ------------------------------------------------------------------------------------------------
# U+2044 FRACTION SLASH: ot_shape.rs::setup_masks_fraction turns <digits> U+2044 <digits> into numerator / fraction /
# denominator feature ranges.  Whether a digit is shaped as part of a fraction depends on what stands on the other
# side of the slash, so the boundaries around a slash with digits on at most one side, and the outer ends of a full
# fraction, are places where re-joining text changes the result.

FRACTION_SLASH = 0x2044


def fraction_recipe(r):
    """synthetic font with fraction features: glyphs = 5 digits, slash, 3 letters, then numerator / denominator / `frac`
    forms of the digits and a fraction bar.  Which of frac / numr / dnom exist varies (the plan needs frac, or numr+dnom)"""
    alpha = r.choice(["latin", "hebrew"])
    first = ALPHABETS[alpha][0]
    digits = list(range(0x30, 0x35))
    cmap = {cp: 1 + j for j, cp in enumerate(digits)}
    cmap[FRACTION_SLASH] = 6
    cmap[0x20] = 7
    letters = [first + j for j in range(3)]
    for j, cp in enumerate(letters):
        cmap[cp] = 8 + j
    n = 11 + 16
    numr = {g: 11 + g - 1 for g in range(1, 6)}
    dnom = {g: 16 + g - 1 for g in range(1, 6)}
    fr = {g: 21 + g - 1 for g in range(1, 6)}
    fr[6] = 26
    which = r.choice([("frac", "numr", "dnom"), ("numr", "dnom"), ("frac",), ("frac", "numr", "dnom")])
    lookups, feats = [], []
    for tag, m in (("frac", fr), ("numr", numr), ("dnom", dnom)):
        if tag in which:
            feats.append({"tag": tag, "lookups": [len(lookups)]})
            lookups.append({"type": 1, "flag": 0, "subtables": [{"format": 2, "coverage": sorted(m), "subst": [m[g] for g in sorted(m)]}]})
    rec = {"num_glyphs": n, "cmap": cmap, "advances": [300 + 11 * g for g in range(n)],
           "gsub": {"features": feats, "lookups": lookups}}
    return rec, alpha, digits, letters


def fraction_groups(r, count, prefix="Q", shim=None):
    """synthetic fraction fonts + every font under tests/fonts that names a fraction feature"""
    groups = []
    for i in range(count):
        rec, alpha, digits, letters = fraction_recipe(r)
        fid = f"{prefix}{i}"
        c = SynthCase()
        c.name, c.font, c.index, c.text = fid, f"synthetic:{fid}", 0, ""
        c.dir, c.script, c.lang, c.flags, c.level, c.feats = None, ALPHABETS[alpha][1], None, 0, 0, []
        c.pre, c.post, c.extra, c.opts = "", "", [], ""
        groups.append({"fid": fid, "reg": f"font {fid} {fontbuild.hexfont(rec)}", "cases": [c], "aat": False,
                       "alphabet": [chr(x) for x in letters], "digits": [chr(x) for x in digits],
                       "synthetic": True, "profile": "fraction", "recipe": rec, "has_reverse": False})
    root = os.path.join(vlib.REPO, "tests", "fonts")
    k = 0
    for dp, dn, fn in sorted(os.walk(root)):
        for f in sorted(fn):
            p = os.path.join(dp, f)
            try:
                data = open(p, "rb").read()
            except OSError:
                continue
            if data[:4] == b"ttcf" or not (b"frac" in data or (b"numr" in data and b"dnom" in data)):
                continue
            tabs = sfnt_tables(p)
            if "GSUB" not in tabs or "morx" in tabs:
                continue
            fid = f"{prefix}f{k}"; k += 1
            c = SynthCase()
            c.name, c.font, c.index, c.text = fid, p, 0, ""
            c.dir, c.script, c.lang, c.flags, c.level, c.feats = None, "Latn", None, 0, 0, []
            c.pre, c.post, c.extra, c.opts = "", "", [], ""
            groups.append({"fid": fid, "reg": f"fontfile {fid} {p} 0", "cases": [c], "aat": False, "alphabet": ["a", "b", "x"],
                           "digits": list("01234"), "synthetic": False, "has_reverse": gsub_has_reverse(data)})
    return groups


def gsub_has_reverse(data):
    """does the font's GSUB contain a ReverseChainSingleSubst lookup (type 8, also behind an extension)?"""
    try:
        n = struct.unpack(">H", data[4:6])[0]
        off = None
        for i in range(n):
            if data[12 + 16 * i:16 + 16 * i] == b"GSUB":
                off = struct.unpack(">I", data[20 + 16 * i:24 + 16 * i])[0]
        if off is None:
            return False
        g = data[off:]
        u16 = lambda b, o: struct.unpack(">H", b[o:o + 2])[0]
        L = g[u16(g, 8):]
        for i in range(u16(L, 0)):
            lk = L[u16(L, 2 + 2 * i):]
            t = u16(lk, 0)
            if t == 8:
                return True
            if t == 7 and u16(lk, 4) > 0 and u16(lk[u16(lk, 6):], 2) == 8:
                return True
    except Exception:
        pass
    return False


def make_fraction_shaping(r, g, flags, dirs=("l", "r", "l", "r", "t", "b"), levels=(0, 1)):
    """texts built from digit runs, U+2044, letters and spaces with at least one slash"""
    toks = []
    for _ in range(r.range(2, 6)):
        k = r.below(8)
        if k < 3: toks.append("".join(r.choice(g["digits"]) for _ in range(r.range(1, 2))))
        elif k < 5: toks.append(chr(FRACTION_SLASH))
        elif k < 7: toks.append(r.choice(g["alphabet"]))
        else: toks.append(" ")
    if chr(FRACTION_SLASH) not in toks:
        toks.insert(r.below(len(toks) + 1), chr(FRACTION_SLASH))
    s = Shaping()
    s.g = g
    s.case = g["cases"][0]
    s.text = "".join(toks)
    s.clusters = rand_clusters(r, len(s.text), False)
    s.req_dir = r.choice(dirs)
    s.dir = s.req_dir
    s.script = s.case.script
    s.flags = flags | r.choice([0, 3, 3, 3])
    s.level = r.choice(levels)
    s.extra = []
    s.pre, s.post = "", ""
    s.subset = None
    s.line = None
    return s


def fraction_known_class(s, kind="break", o=None):
    if s.g.get("synthetic"):
        # the recorded "reversed" class needs marks / selectors / ligatures, or an RTL-native script shaped LTR (digit-only
        # pieces are then not reversed); a synthetic fraction font has single substitutions only, so on its Latin variant a
        # reversed buffer is judged like any other
        if shaped_reversed(s) and (s.dir == "b" or s.script != "Latn"):
            return "reversed"
        return None
    return known_class(s, kind, o)
