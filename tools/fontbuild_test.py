#!/usr/bin/env python3
"""Self test of tools/fontbuild.py: every lookup type/format, kern, morx kinds, cmap formats and vertical
metrics are built into tiny fonts, registered with `font F<i> <hex>` and shaped through
harness/target/release/rbshim; glyph ids / clusters / positions are compared with values computed by hand
(the derivation is in the comment of each case).  Prints PASS/FAIL per case, exit 1 on any FAIL.

Conventions of the cases: 10..12 glyphs, advance of glyph g is A(g) = 500 + 10*g, cmap "pua"
(U+E000 -> glyph 1, U+E001 -> glyph 2, ...), script DFLT, direction l, cluster level 0, text given as glyph ids.
Expected glyphs are tuples (gid, cluster, x_advance, y_advance, x_offset, y_offset); shorter tuples compare a prefix."""
import os
import subprocess
import sys

HERE = os.path.dirname(os.path.abspath(__file__))
sys.path.insert(0, HERE)
import fontbuild  # noqa: E402

ROOT = os.path.dirname(HERE)
SHIM = os.path.join(ROOT, "harness", "target", "release", "rbshim")
NG = 12


def A(g):
    return 500 + 10 * g


def base(**kw):
    r = {"num_glyphs": NG, "cmap": "pua", "advances": [A(g) for g in range(NG)]}
    r.update(kw)
    return r


def T(*gids):
    """text of glyph ids through the PUA alphabet"""
    return [0xE000 + g - 1 for g in gids]


def feat(tag, value=1, start=0, end=0xFFFFFFFF):
    return "%s:%d:%d:%d" % (tag.encode().hex(), value, start, end)


def plain(*gids):
    """expected output when nothing happens to the glyphs: cluster i, advance A(g)"""
    return [(g, i, A(g), 0, 0, 0) for i, g in enumerate(gids)]


def single(g_from, g_to):
    return {"type": 1, "subtables": [{"format": 2, "coverage": [g_from], "subst": [g_to]}]}


def gsub(lookups, feature_lookups=(0,), tag="liga", **kw):
    d = {"features": [{"tag": tag, "lookups": list(feature_lookups)}], "lookups": lookups}
    d.update(kw)
    return d


CASES = []


def case(name, recipe, text, expect, direction="l", feats="-", script="DFLT", expect_reject=False):
    CASES.append(dict(name=name, recipe=recipe, text=text, expect=expect, dir=direction, feats=feats,
                      script=script, expect_reject=expect_reject))


# ------------------------------------------------------------------------------------------------
# milestone 1: cmap, metrics, GDEF, GSUB

case("cmap4+hmtx", base(), T(1, 2, 3), plain(1, 2, 3))
# unmapped character -> glyph 0 (notdef) with advance A(0)
case("cmap4 unmapped", base(), [0xE000, 0xF000], [(1, 0, A(1)), (0, 1, A(0))])
case("cmap12 auto (cp > 0xFFFF)", base(cmap={0xE000: 1, 0x1F600: 4, 0x1F601: 5, 0x1F603: 9}),
     [0xE000, 0x1F600, 0x1F601, 0x1F603, 0x1F602], [(1, 0, A(1)), (4, 1, A(4)), (5, 2, A(5)), (9, 3, A(9)), (0, 4, A(0))])
# short hmtx: 3 long metrics for 12 glyphs -> glyphs >= 3 take the last advance (520)
case("hmtx short (last advance repeats)", base(advances=[500, 510, 520]), T(1, 2, 3, 7),
     [(1, 0, 510), (2, 1, 520), (3, 2, 520), (7, 3, 520)])
case("upem/ascender only, no hmtx -> advance = upem", base(advances=None, upem=2048), T(1), [(1, 0, 2048)])

case("GSUB1.1 delta", base(gsub=gsub([{"type": 1, "subtables": [{"format": 1, "coverage": [1, 2], "delta": 2}]}])),
     T(1, 2, 3), plain(3, 4, 3))
case("GSUB1.1 negative delta wraps mod 65536", base(gsub=gsub([{"type": 1, "subtables": [{"coverage": [5], "delta": -3}]}])),
     T(5), [(2, 0, A(2))])
# coverage written [3,1] with subst [7,8] means 3->7, 1->8 (builder sorts the coverage and permutes the array)
case("GSUB1.2 (unsorted recipe coverage is permuted)",
     base(gsub=gsub([{"type": 1, "subtables": [{"format": 2, "coverage": [3, 1], "subst": [7, 8]}]}])),
     T(1, 3, 2), plain(8, 7, 2))
# raw coverage [3,1] is not sorted: binary search for 1 in [3,1] probes index 1 (value 1)?  ttf-parser's
# binary_search on 2 elements: probes per std-like algorithm; we only assert that glyph 2 is untouched and
# the font is accepted -- the precise behaviour of unsorted coverages belongs to the malformed-font streams.
case("coverage raw (accepted, uncovered glyph untouched)",
     base(gsub=gsub([{"type": 1, "subtables": [{"format": 2, "coverage": {"glyphs": [3, 1], "raw": True}, "subst": [7, 8]}]}])),
     T(2), plain(2))
case("coverage format 2 ranges", base(gsub=gsub([{"type": 1, "subtables": [
    {"format": 2, "coverage": {"ranges": [(1, 2), (5, 6)]}, "subst": [8, 9, 10, 11]}]}])),
    T(1, 2, 3, 5, 6), plain(8, 9, 3, 10, 11))
case("coverage {glyphs, format 2}", base(gsub=gsub([{"type": 1, "subtables": [
    {"format": 2, "coverage": {"glyphs": [6, 1, 2], "format": 2}, "subst": [11, 8, 9]}]}])),
    T(1, 2, 6), plain(8, 9, 11))
# one to many: all outputs keep the cluster of the input
case("GSUB2 multiple", base(gsub=gsub([{"type": 2, "subtables": [{"coverage": [1], "sequences": [[4, 5, 6]]}]}])),
     T(1, 2), [(4, 0, A(4)), (5, 0, A(5)), (6, 0, A(6)), (2, 1, A(2))])
# alternates: feature value v selects alternate v-1; 'liga' is on with value 1, 'aalt' is requested with 2
case("GSUB3 alternate (value 1)", base(gsub=gsub([{"type": 3, "subtables": [{"coverage": [1], "alternates": [[4, 5]]}]}])),
     T(1), plain(4))
case("GSUB3 alternate (aalt=2)",
     base(gsub=gsub([{"type": 3, "subtables": [{"coverage": [1], "alternates": [[4, 5]]}]}], tag="aalt")),
     T(1), plain(5), feats=feat("aalt", 2))
# ligatures: 1 2 3 -> 7, 1 2 -> 8 (first matching ligature in set order); cluster = first component's
LIG = {"type": 4, "subtables": [{"coverage": [1], "ligsets": [[{"components": [2, 3], "glyph": 7},
                                                                {"components": [2], "glyph": 8}]]}]}
case("GSUB4 ligature", base(gsub=gsub([LIG])), T(1, 2, 3, 1, 2, 4), [(7, 0, A(7)), (8, 3, A(8)), (4, 5, A(4))])
# context format 1: 1 followed by 2 -> apply lookup 1 (2 -> 9) at sequence index 1
case("GSUB5.1 context glyphs", base(gsub=gsub([
    {"type": 5, "subtables": [{"format": 1, "coverage": [1], "rulesets": [[{"input": [2], "lookups": [(1, 1)]}]]}]},
    single(2, 9)])), T(1, 2, 2), plain(1, 9, 2))
# context format 2: class1={1}, class2={2}; class set 1: [1 2] -> lookup 1 (1 -> 5) at index 0; class set 0 / 2 absent
case("GSUB5.2 context classes", base(gsub=gsub([
    {"type": 5, "subtables": [{"format": 2, "coverage": [1, 2], "classdef": {1: 1, 2: 2},
                               "classsets": [None, [{"input": [2], "lookups": [(0, 1)]}], None]}]},
    single(1, 5)])), T(1, 2, 1, 3), plain(5, 2, 1, 3))
case("GSUB5.3 context coverages", base(gsub=gsub([
    {"type": 5, "subtables": [{"format": 3, "coverages": [[1], [2, 3]], "lookups": [(1, 1)]}]},
    {"type": 1, "subtables": [{"coverage": [2, 3], "delta": 7}]}])), T(1, 3, 1, 4), plain(1, 10, 1, 4))
# chain format 1: backtrack 3, input 1, lookahead 2 -> 1 becomes 6
CH1 = {"type": 6, "subtables": [{"format": 1, "coverage": [1], "rulesets": [[
    {"backtrack": [3], "input": [], "lookahead": [2], "lookups": [(0, 1)]}]]}]}
case("GSUB6.1 chain glyphs (match)", base(gsub=gsub([CH1, single(1, 6)])), T(3, 1, 2), plain(3, 6, 2))
case("GSUB6.1 chain glyphs (no backtrack -> no match)", base(gsub=gsub([CH1, single(1, 6)])), T(1, 2), plain(1, 2))
# backtrack is stored closest-first: backtrack [3, 4] means "... 4 3 <input>"
CH1B = {"type": 6, "subtables": [{"format": 1, "coverage": [1], "rulesets": [[
    {"backtrack": [3, 4], "input": [], "lookahead": [], "lookups": [(0, 1)]}]]}]}
case("GSUB6.1 backtrack order is closest-first", base(gsub=gsub([CH1B, single(1, 6)])), T(4, 3, 1, 3, 4, 1),
     plain(4, 3, 6, 3, 4, 1))
case("GSUB6.2 chain classes", base(gsub=gsub([
    {"type": 6, "subtables": [{"format": 2, "coverage": [1], "backtrack_classdef": {3: 1}, "input_classdef": {1: 1, 2: 2},
                               "lookahead_classdef": {4: 3},
                               "classsets": [None, [{"backtrack": [1], "input": [2], "lookahead": [3], "lookups": [(1, 1)]}]]}]},
    single(2, 9)])), T(3, 1, 2, 4, 1, 2, 4), plain(3, 1, 9, 4, 1, 2, 4))
case("GSUB6.3 chain coverages", base(gsub=gsub([
    {"type": 6, "subtables": [{"format": 3, "backtrack": [[3, 4]], "coverages": [[1]], "lookahead": [[2], [5]],
                               "lookups": [(0, 1)]}]},
    single(1, 6)])), T(4, 1, 2, 5, 3, 1, 2, 2), plain(4, 6, 2, 5, 3, 1, 2, 2))
case("GSUB7 extension", base(gsub=gsub([{"type": 7, "subtables": [
    {"ext_type": 1, "extension": {"format": 2, "coverage": [1], "subst": [9]}}]}])), T(1, 2), plain(9, 2))
# reverse chaining: 1 -> 5 when preceded by 2 and followed by 3
REV = {"type": 8, "subtables": [{"coverage": [1], "backtrack": [[2]], "lookahead": [[3]], "subst": [5]}]}
case("GSUB8 reverse chain (match)", base(gsub=gsub([REV])), T(2, 1, 3), plain(2, 5, 3))
case("GSUB8 reverse chain (no match)", base(gsub=gsub([REV])), T(1, 3), plain(1, 3))
# features / scripts: lookup only under 'smcp' (off by default) does nothing, requested it applies;
# required feature of the default langsys applies always
case("feature off by default", base(gsub=gsub([single(1, 9)], tag="smcp")), T(1), plain(1))
case("feature requested", base(gsub=gsub([single(1, 9)], tag="smcp")), T(1), plain(9), feats=feat("smcp"))
case("required feature + explicit scripts (sorted by builder)", base(gsub={
    "scripts": [{"tag": "latn", "default": {"required": None, "features": []}, "langs": []},
                {"tag": "DFLT", "default": {"required": 1, "features": [0]},
                 "langs": [{"tag": "ENG ", "required": None, "features": []}]}],
    "features": [{"tag": "smcp", "lookups": [0]}, {"tag": "xxxx", "lookups": [1]}],
    "lookups": [single(1, 9), single(2, 8)]}), T(1, 2), plain(1, 8))
# two subtables in one lookup: first that covers the glyph wins
case("two subtables", base(gsub=gsub([{"type": 1, "subtables": [
    {"format": 2, "coverage": [1], "subst": [9]}, {"format": 2, "coverage": [1, 2], "subst": [10, 11]}]}])),
    T(1, 2), plain(9, 11))

# GDEF: glyph 5 and 6 are marks.  Without GPOS, LTR: mark advances are zeroed and the mark is shifted back by its
# advance (adjust_mark_positioning_when_zeroing), so a mark g shapes as (g, cl, 0, 0, -A(g), 0).
GDEF = {"classes": {1: 1, 2: 1, 5: 3, 6: 3, 8: 2}, "mark_attach": {5: 1, 6: 2}, "mark_sets": [[5], [6]]}
LIG12 = [{"components": [2], "glyph": 8}]


def mark(g, cl):
    return (g, cl, 0, 0, -A(g), 0)


case("GDEF mark class zeroes advance", base(gdef={"classes": {5: 3}}), T(1, 5), [(1, 0, A(1)), mark(5, 1)])
# IgnoreMarks (0x8): 1 <5> 2 ligates across the mark; clusters of the matched range are merged (level 0)
case("GDEF + flag IgnoreMarks", base(gdef=GDEF, gsub=gsub([{"type": 4, "flag": 0x8, "subtables": [
    {"coverage": [1], "ligsets": [LIG12]}]}])), T(1, 5, 2), [(8, 0, A(8)), mark(5, 0)])
case("no IgnoreMarks: mark blocks the ligature", base(gdef=GDEF, gsub=gsub([{"type": 4, "flag": 0, "subtables": [
    {"coverage": [1], "ligsets": [LIG12]}]}])), T(1, 5, 2), [(1, 0, A(1)), mark(5, 1), (2, 2, A(2))])
# mark filtering set 1 = {6}: marks outside the set (5) are skipped, marks inside (6) block
MFS = gsub([{"type": 4, "flag": 0, "mark_set": 1, "subtables": [{"coverage": [1], "ligsets": [LIG12]}]}])
case("GDEF 1.2 mark filtering set (5 not in set: skipped)", base(gdef=GDEF, gsub=MFS), T(1, 5, 2), [(8, 0, A(8)), mark(5, 0)])
case("GDEF 1.2 mark filtering set (6 in set: blocks)", base(gdef=GDEF, gsub=MFS), T(1, 6, 2),
     [(1, 0, A(1)), mark(6, 1), (2, 2, A(2))])
# mark attachment type 2 (flag 0x0200): marks of other attachment classes (5 has class 1) are skipped
MAT = gsub([{"type": 4, "flag": 0x0200, "subtables": [{"coverage": [1], "ligsets": [LIG12]}]}])
case("GDEF mark attach class (class 1 skipped)", base(gdef=GDEF, gsub=MAT), T(1, 5, 2), [(8, 0, A(8)), mark(5, 0)])
case("GDEF mark attach class (class 2 blocks)", base(gdef=GDEF, gsub=MAT), T(1, 6, 2),
     [(1, 0, A(1)), mark(6, 1), (2, 2, A(2))])

# ------------------------------------------------------------------------------------------------
# milestone 2: GPOS, kern


def gpos(lookups, feature_lookups=(0,), tag="kern", **kw):
    return gsub(lookups, feature_lookups, tag, **kw)


case("GPOS1.1 single", base(gpos=gpos([{"type": 1, "subtables": [
    {"format": 1, "coverage": [1], "value": {"xAdvance": 50, "xPlacement": 10}}]}])), T(1, 2),
    [(1, 0, A(1) + 50, 0, 10, 0), (2, 1, A(2), 0, 0, 0)])
# coverage written [2,1]: values follow the written order, 2 -> yPlacement 7, 1 -> xAdvance -20
case("GPOS1.2 single per glyph", base(gpos=gpos([{"type": 1, "subtables": [
    {"format": 2, "coverage": [2, 1], "values": [{"yPlacement": 7}, {"xAdvance": -20}]}]}])), T(1, 2, 3),
    [(1, 0, A(1) - 20, 0, 0, 0), (2, 1, A(2), 0, 0, 7), (3, 2, A(3), 0, 0, 0)])
case("GPOS1.1 yAdvance ignored in horizontal text? (applied to y_advance only when vertical)",
     base(gpos=gpos([{"type": 1, "subtables": [{"format": 1, "coverage": [1], "value": {"yAdvance": 33, "yPlacement": -4}}]}])),
     T(1), [(1, 0, A(1), 0, 0, -4)])
# pairs: (1,2): first gets xAdvance -30 ; (1,3): second gets xPlacement 5 ; pair sets are sorted by the builder
PAIR1 = {"type": 2, "subtables": [{"format": 1, "coverage": [1], "pairsets": [[
    (3, None, {"xPlacement": 5}), (2, {"xAdvance": -30}, None)]]}]}
case("GPOS2.1 pair glyphs", base(gpos=gpos([PAIR1])), T(1, 2, 1, 3, 1, 4),
     [(1, 0, A(1) - 30, 0, 0, 0), (2, 1, A(2), 0, 0, 0), (1, 2, A(1), 0, 0, 0), (3, 3, A(3), 0, 5, 0),
      (1, 4, A(1), 0, 0, 0), (4, 5, A(4), 0, 0, 0)])
# class pairs: class1 {1:1}, class2 {2:1, 3:2}
PAIR2 = {"type": 2, "subtables": [{"format": 2, "coverage": [1], "classdef1": {1: 1}, "classdef2": {2: 1, 3: 2},
                                   "matrix": [[None, None, None],
                                              [None, ({"xAdvance": -40}, None), ({"xAdvance": 25}, None)]]}]}
case("GPOS2.2 pair classes", base(gpos=gpos([PAIR2])), T(1, 2, 1, 3, 1, 4),
     [(1, 0, A(1) - 40), (2, 1, A(2)), (1, 2, A(1) + 25), (3, 3, A(3)), (1, 4, A(1)), (4, 5, A(4))])
# cursive: exit of 1 = (400,100), entry of 2 = (50,30).  LTR: adv(1) = exit.x = 400; d = entry.x = 50 is removed from
# advance and offset of 2; y of the child (2) = exit.y - entry.y = 70
case("GPOS3 cursive", base(gpos=gpos([{"type": 3, "subtables": [
    {"coverage": [1, 2], "entry_exit": [(None, (400, 100)), ((50, 30), None)]}]}], tag="curs")), T(1, 2),
    [(1, 0, 400, 0, 0, 0), (2, 1, A(2) - 50, 0, -50, 70)])
# mark to base: base anchor (300,400), mark anchor (20,10): offset (280,390) from the base origin; the base's
# advance is subtracted because the mark follows it (LTR); mark advance zeroed by GDEF
MB = {"type": 4, "subtables": [{"mark_coverage": [5], "base_coverage": [1], "class_count": 1,
                                "marks": [(0, (20, 10))], "bases": [[(300, 400)]]}]}
case("GPOS4 mark to base", base(gdef=GDEF, gpos=gpos([MB], tag="mark")), T(1, 5),
     [(1, 0, A(1), 0, 0, 0), (5, 1, 0, 0, 280 - A(1), 390)])
# two mark classes, two bases, unsorted coverages; base 1 has no anchor for class 1: the last 6 stays unattached
# (advance zeroed, and no shift because GPOS is present)
MB2 = {"type": 4, "subtables": [{"mark_coverage": [6, 5], "base_coverage": [2, 1],
                                 "marks": [(1, (0, 0)), (0, (20, 10))],
                                 "bases": [[(100, 100), (200, 200)], [(300, 400), None]]}]}
case("GPOS4 classes / permuted coverages", base(gdef=GDEF, gpos=gpos([MB2], tag="mark")), T(2, 6, 1, 5, 1, 6),
     [(2, 0, A(2)), (6, 1, 0, 0, 200 - A(2), 200), (1, 2, A(1)), (5, 3, 0, 0, 280 - A(1), 390),
      (1, 4, A(1)), (6, 5, 0, 0, 0, 0)])
# mark to ligature: ligature 8 = 1+2 (GSUB), component anchors (100,500) and (350,500), mark anchor (10,20).
# "1 2 5": mark after the ligature attaches to the last component; "1 5 2": mark inside attaches to component 1.
ML = {"type": 5, "subtables": [{"mark_coverage": [5], "lig_coverage": [8], "class_count": 1,
                                "marks": [(0, (10, 20))], "ligs": [[[(100, 500)], [(350, 500)]]]}]}
LIGM = gsub([{"type": 4, "flag": 0x8, "subtables": [{"coverage": [1], "ligsets": [LIG12]}]}])
case("GPOS5 mark to ligature (last component)", base(gdef=GDEF, gsub=LIGM, gpos=gpos([ML], tag="mark")), T(1, 2, 5),
     [(8, 0, A(8), 0, 0, 0), (5, 2, 0, 0, 340 - A(8), 480)])
case("GPOS5 mark to ligature (first component)", base(gdef=GDEF, gsub=LIGM, gpos=gpos([ML], tag="mark")), T(1, 5, 2),
     [(8, 0, A(8), 0, 0, 0), (5, 0, 0, 0, 90 - A(8), 480)])
# mark to mark: 6 on 5: mark2 anchor (30,200), mark1 anchor (5,15) -> (25,185) relative to 5, whose advance is 0
MM = {"type": 6, "subtables": [{"mark1_coverage": [6], "mark2_coverage": [5], "class_count": 1,
                                "marks": [(0, (5, 15))], "mark2": [[(30, 200)]]}]}
case("GPOS6 mark to mark", base(gdef=GDEF, gpos=gpos([MM], tag="mkmk")), T(1, 5, 6),
     [(1, 0, A(1), 0, 0, 0), (5, 1, 0, 0, 0, 0), (6, 2, 0, 0, 25, 185)])
# mark to base + mark to mark chained: 5 on 1 at (280-A1, 390), 6 on 5 adds (25,185)
case("GPOS4+6 chained attachment", base(gdef=GDEF, gpos={
    "features": [{"tag": "mark", "lookups": [0]}, {"tag": "mkmk", "lookups": [1]}], "lookups": [MB, MM]}), T(1, 5, 6),
    [(1, 0, A(1), 0, 0, 0), (5, 1, 0, 0, 280 - A(1), 390), (6, 2, 0, 0, 280 - A(1) + 25, 390 + 185)])
ADJ = {"type": 1, "subtables": [{"format": 1, "coverage": [2], "value": {"xAdvance": 11}}]}
case("GPOS7 context", base(gpos=gpos([
    {"type": 7, "subtables": [{"format": 3, "coverages": [[1], [2]], "lookups": [(1, 1)]}]}, ADJ])), T(1, 2, 2),
    [(1, 0, A(1)), (2, 1, A(2) + 11), (2, 2, A(2))])
case("GPOS8 chain context", base(gpos=gpos([
    {"type": 8, "subtables": [{"format": 3, "backtrack": [[1]], "coverages": [[2]], "lookahead": [[3]], "lookups": [(0, 1)]}]},
    ADJ])), T(1, 2, 3, 2, 3), [(1, 0, A(1)), (2, 1, A(2) + 11), (3, 2, A(3)), (2, 3, A(2)), (3, 4, A(3))])
case("GPOS9 extension", base(gpos=gpos([{"type": 9, "subtables": [
    {"ext_type": 1, "extension": {"format": 1, "coverage": [1], "value": {"xAdvance": -7}}}]}])), T(1),
    [(1, 0, A(1) - 7)])
# kern table: value -51 between 1 and 2 is split: first advance += -51>>1 = -26, second advance and offset += -25
case("kern format 0", base(kern=[{"pairs": [(1, 3, 40), (1, 2, -51)]}]), T(1, 2, 1, 3),
     [(1, 0, A(1) - 26, 0, 0, 0), (2, 1, A(2) - 25, 0, -25, 0), (1, 2, A(1) + 20, 0, 0, 0), (3, 3, A(3) + 20, 0, 20, 0)])
case("kern: vertical subtable skipped, second subtable used",
     base(kern=[{"horizontal": False, "pairs": [(1, 2, 100)]}, {"horizontal": True, "pairs": [(1, 2, -10)]}]), T(1, 2),
     [(1, 0, A(1) - 5, 0, 0, 0), (2, 1, A(2) - 5, 0, -5, 0)])
case("kern off (-kern)", base(kern=[{"pairs": [(1, 2, -50)]}]), T(1, 2), plain(1, 2), feats=feat("kern", 0))

# ------------------------------------------------------------------------------------------------
# milestone 3: vertical metrics, VORG, cmap subtable control

V = [700 + g for g in range(NG)]
# TTB: y_advance = -vadv, x_offset = -(h_advance/2), y_offset = -origin_y (VORG value, default when absent)
case("vmtx + VORG (ttb)", base(vadvances=V, vorg={"default": 880, "glyphs": {2: 900}}), T(1, 2),
     [(1, 0, 0, -701, -(A(1) // 2), -880), (2, 1, 0, -702, -(A(2) // 2), -900)], direction="t")
# no VORG, no glyf: origin_y = hhea ascender
case("vmtx without VORG (origin = ascender)", base(vadvances=V, ascender=750), T(3),
     [(3, 0, 0, -703, -(A(3) // 2), -750)], direction="t")
# no vmtx: vertical advance = ascender - descender
case("ttb without vmtx (advance = asc - desc)", base(ascender=750, descender=-250), T(3),
     [(3, 0, 0, -1000, -(A(3) // 2), -750)], direction="t")
case("vmtx short (last advance repeats)", base(vadvances=[700, 701], vorg={"default": 0}), T(5),
     [(5, 0, 0, -701, -(A(5) // 2), 0)], direction="t")
# glyf extents: origin_y = y_bearing(yMax) + top side bearing when vmtx is present and no VORG
case("extents (glyf) + vmtx tsb", base(vadvances=V, tsbs=[10 * g for g in range(NG)], extents={3: [10, -20, 300, 650]}), T(3),
     [(3, 0, 0, -703, -(A(3) // 2), -(650 + 30))], direction="t")

# rustybuzz prefers (3,10) over (3,1); give them different maps to see which one is used
case("cmap subtables: 3/10 format 12 preferred over 3/1 format 4", base(cmap_subtables=[
    {"platform": 3, "encoding": 1, "format": 4, "map": {0xE000: 1}},
    {"platform": 3, "encoding": 10, "format": 12, "map": {0xE000: 2, 0x10000: 3}}]), [0xE000, 0x10000],
    [(2, 0, A(2)), (3, 1, A(3))])
case("cmap format 6", base(cmap_subtables=[{"platform": 3, "encoding": 1, "format": 6, "map": {0xE000: 1, 0xE002: 3}}]),
     [0xE000, 0xE001, 0xE002, 0xE003], [(1, 0), (0, 1), (3, 2), (0, 3)])
# Macintosh platform format 0: code points > 0x7F go through the MacRoman table (U+00C4 -> 0x80)
case("cmap format 0 (mac roman)", base(cmap_subtables=[{"platform": 1, "encoding": 0, "format": 0, "map": {0x41: 3, 0x80: 4}}]),
     [0x41, 0xC4, 0x42], [(3, 0), (4, 1), (0, 2)])
case("cmap format 4 segments (runs, gap, 0xFFFF)", base(cmap_subtables=[
    {"platform": 3, "encoding": 1, "format": 4, "map": {0xE000: 5, 0xE001: 6, 0xE002: 2, 0xE010: 3, 0xFFFF: 7}}]),
    [0xE000, 0xE001, 0xE002, 0xE003, 0xE010], [(5, 0), (6, 1), (2, 2), (0, 3), (3, 4)])
case("cmap format 13 (many to one)", base(cmap_subtables=[
    {"platform": 3, "encoding": 10, "format": 13, "map": {0xE000: 4, 0xE001: 4, 0xE002: 4, 0xE005: 2}}]),
    [0xE001, 0xE002, 0xE005, 0xE003], [(4, 0), (4, 1), (2, 2), (0, 3)])
# format 14: <E000, FE00> has a non-default mapping to glyph 7; <E001, FE00> is a default UVS entry (keeps cmap glyph,
# selector is removed); <E002, FE00> has no entry: the selector stays as its own (unmapped -> glyph 0, zero width ignorable)
case("cmap format 14 variation sequences", base(cmap_subtables=[
    {"platform": 3, "encoding": 1, "format": 4, "map": fontbuild.pua_cmap(NG)},
    {"platform": 0, "encoding": 5, "format": 14, "uvs": [(0xE000, 0xFE00, 7), (0xE001, 0xFE00, None)]}]),
    [0xE000, 0xFE00, 0xE001, 0xFE00], [(7, 0, A(7)), (2, 2, A(2))])

# ------------------------------------------------------------------------------------------------
# milestone 4: morx, feat


def morx(*subtables, **chain):
    c = {"default_flags": 1, "features": [], "subtables": list(subtables)}
    c.update(chain)
    return {"chains": [c]}


case("morx noncontextual", base(morx=morx({"kind": "noncontextual", "map": {1: 5, 3: 6}})), T(1, 2, 3), plain(5, 2, 6))
for f in (0, 2, 4, 8, 10):
    case("morx noncontextual lookup format %d" % f,
         base(morx=morx({"kind": "noncontextual", "format": f, "map": {1: 5, 2: 7, 4: 6}})), T(1, 2, 3, 4), plain(5, 7, 3, 6))
case("morx noncontextual with terminator unit", base(morx=morx({"kind": "noncontextual", "terminator": True, "map": {1: 5}})),
     T(1, 2), plain(5, 2))
# rearrangement: classes 1->4, 2->5; 1 marks first, later 2 marks last with verb 3 (AxD -> DxA); clusters merged
REARR = {"kind": "rearrangement", "classes": {1: 4, 2: 5}, "nclasses": 6,
         "states": [[0, 0, 0, 0, 1, 0], [0, 0, 0, 0, 1, 0], [0, 3, 3, 0, 1, 2]],
         "entries": [{"new_state": 0, "flags": 0}, {"new_state": 2, "flags": 0x8000},
                     {"new_state": 0, "flags": 0x2000 | 3}, {"new_state": 2, "flags": 0}]}
case("morx rearrangement (verb AxD -> DxA)", base(morx=morx(REARR)), T(1, 3, 2, 4),
     [(2, 0, A(2)), (3, 0, A(3)), (1, 0, A(1)), (4, 3, A(4))])
for cf in (0, 2, 4, 8, 10):
    case("morx class table lookup format %d" % cf, base(morx=morx(dict(REARR, class_format=cf))), T(1, 3, 2, 4),
         [(2, 0, A(2)), (3, 0, A(3)), (1, 0, A(1)), (4, 3, A(4))])
# contextual: 1 sets the mark; at 2: marked glyph through table 0 (1 -> 6), current through table 1 (2 -> 7)
CTX = {"kind": "contextual", "classes": {1: 4, 2: 5}, "nclasses": 6,
       "states": [[0, 0, 0, 0, 1, 0], [0, 0, 0, 0, 1, 0], [0, 0, 0, 0, 1, 2]],
       "entries": [{"new_state": 0, "flags": 0}, {"new_state": 2, "flags": 0x8000},
                   {"new_state": 0, "flags": 0, "mark_index": 0, "current_index": 1}],
       "substitutions": [{1: 6}, {2: 7}]}
case("morx contextual", base(morx=morx(CTX)), T(1, 2, 2, 1, 3), plain(6, 7, 2, 1, 3))
# ligature: 1 pushes, 2 pushes and performs: actions pop 2 (offset -2 -> component[0] = 0) then 1 (offset 0 ->
# component[1] = 0, last + store) -> ligatures[0] = 8 stored at the position of 1; 2 is deleted
LIGA = {"kind": "ligature", "classes": {1: 4, 2: 5}, "nclasses": 6,
        "states": [[0, 0, 0, 0, 1, 0], [0, 0, 0, 0, 1, 0], [0, 0, 0, 0, 1, 2]],
        "entries": [{"new_state": 0, "flags": 0}, {"new_state": 2, "flags": 0x8000},
                    {"new_state": 0, "flags": 0xA000, "action_index": 0}],
        "lig_actions": [0x3FFFFFFE, 0xC0000000], "components": [0, 0], "ligatures": [8]}
case("morx ligature", base(morx=morx(LIGA)), T(1, 2, 3, 1), [(8, 0, A(8)), (3, 2, A(3)), (1, 3, A(1))])
# insertion: at 1 insert glyphs [6,7] after the current glyph (count 2 << 5, currentInsertBefore clear)
INS = {"kind": "insertion", "classes": {1: 4}, "nclasses": 5,
       "states": [[0, 0, 0, 0, 1], [0, 0, 0, 0, 1]],
       "entries": [{"new_state": 0, "flags": 0}, {"new_state": 0, "flags": 2 << 5, "current_insert_index": 0}],
       "insert_glyphs": [6, 7]}
case("morx insertion (after)", base(morx=morx(INS)), T(1, 2), [(1, 0, A(1)), (6, 0, A(6)), (7, 0, A(7)), (2, 1, A(2))])
INSB = dict(INS, entries=[{"new_state": 0, "flags": 0},
                          {"new_state": 0, "flags": (1 << 5) | 0x0800, "current_insert_index": 1}])
case("morx insertion (before)", base(morx=morx(INSB)), T(2, 1), [(2, 0, A(2)), (7, 1, A(7)), (1, 1, A(1))])
# two subtables in a chain run in sequence; subtable flags not in the chain's flags are skipped
case("morx two subtables + feature flags", base(morx=morx(
    {"kind": "noncontextual", "map": {1: 2}}, {"kind": "noncontextual", "feature_flags": 2, "map": {2: 9}},
    {"kind": "noncontextual", "map": {2: 3}})), T(1), plain(3))
# vertical subtable is skipped in horizontal text, all_directions applies
case("morx vertical / all_directions", base(morx=morx(
    {"kind": "noncontextual", "vertical": True, "map": {1: 9}},
    {"kind": "noncontextual", "vertical": True, "all_directions": True, "map": {1: 4}})), T(1), plain(4))
# feat: 'dlig' maps to AAT (type 1, setting 4); the chain enables flag 2 for it.  Needs the feat table to expose type 1.
DLIG = morx({"kind": "noncontextual", "feature_flags": 2, "map": {1: 5}}, default_flags=0,
            features=[{"type": 1, "setting": 4, "enable": 2, "disable": 0xFFFFFFFF}])
FEAT = [{"type": 3, "settings": [0, 1], "exclusive": True}, {"type": 1, "settings": [2, 4], "exclusive": False}]
case("morx + feat: feature not requested", base(morx=DLIG, feat=FEAT), T(1), plain(1))
case("morx + feat: dlig requested", base(morx=DLIG, feat=FEAT), T(1), plain(5), feats=feat("dlig"))
case("morx without feat: dlig cannot be mapped", base(morx=DLIG), T(1), plain(1), feats=feat("dlig"))
# GSUB is ignored when morx is present (horizontal)
case("morx wins over GSUB", base(morx=morx({"kind": "noncontextual", "map": {1: 5}}), gsub=gsub([single(1, 9)])), T(1), plain(5))

# ------------------------------------------------------------------------------------------------
# more formats of shared pieces
# cross-stream kern: all glyphs are chained cursively; the value becomes the y offset of the second glyph and
# is inherited by everything after it
case("kern cross-stream", base(kern=[{"cross": True, "pairs": [(1, 2, 30)]}]), T(1, 2, 3),
     [(1, 0, A(1), 0, 0, 0), (2, 1, A(2), 0, 0, 30), (3, 2, A(3), 0, 0, 30)])
case("anchor formats 2 and 3 read like format 1", base(gdef=GDEF, gpos=gpos([{"type": 4, "subtables": [
    {"mark_coverage": [5], "base_coverage": [1], "marks": [(0, {"x": 20, "y": 10, "format": 3})],
     "bases": [[{"x": 300, "y": 400, "format": 2, "point": 3}]]}]}], tag="mark")), T(1, 5),
    [(1, 0, A(1), 0, 0, 0), (5, 1, 0, 0, 280 - A(1), 390)])
for cf in (1, 2):
    case("classdef forced format %d" % cf, base(gsub=gsub([
        {"type": 5, "subtables": [{"format": 2, "coverage": [1, 2], "classdef": {"format": cf, "map": {1: 1, 2: 2, 7: 2}},
                                   "classsets": [None, [{"input": [2, 2], "lookups": [(2, 1)]}]]}]},
        single(7, 9)])), T(1, 2, 7, 1, 3, 7), plain(1, 2, 9, 1, 3, 7))
case("classdef verbatim ranges", base(gsub=gsub([
    {"type": 5, "subtables": [{"format": 2, "coverage": [1], "classdef": {"format": 2, "ranges": [(1, 1, 1), (2, 4, 2)]},
                               "classsets": [None, [{"input": [2], "lookups": [(1, 1)]}]]}]},
    {"type": 1, "subtables": [{"coverage": [2, 3, 4], "delta": 5}]}])), T(1, 4, 1, 5), plain(1, 9, 1, 5))
case("GPOS2.1 both value records (second glyph is consumed)", base(gpos=gpos([{"type": 2, "subtables": [
    {"format": 1, "coverage": [1, 2], "pairsets": [[(2, {"xAdvance": -10}, {"xAdvance": 4, "yPlacement": 3})],
                                                    [(3, {"xAdvance": 100}, None)]]}]}])), T(1, 2, 3),
    # (1,2) applies; because value format 2 is not empty the next pair starts at 3, so (2,3) is not tried
    [(1, 0, A(1) - 10, 0, 0, 0), (2, 1, A(2) + 4, 0, 0, 3), (3, 2, A(3), 0, 0, 0)])
case("GPOS7.2 context classes", base(gpos=gpos([
    {"type": 7, "subtables": [{"format": 2, "coverage": [1], "classdef": {1: 1, 2: 2},
                               "classsets": [None, [{"input": [2], "lookups": [(1, 1)]}]]}]}, ADJ])), T(1, 2),
    [(1, 0, A(1)), (2, 1, A(2) + 11)])
case("GPOS3 cursive, RightToLeft lookup flag (parent/child swapped)", base(gpos=gpos([{"type": 3, "flag": 1, "subtables": [
    {"coverage": [1, 2], "entry_exit": [(None, (400, 100)), ((50, 30), None)]}]}], tag="curs")), T(1, 2),
    # with the flag the first glyph is the child: y = entry.y - exit.y = -70 on glyph 1
    [(1, 0, 400, 0, 0, -70), (2, 1, A(2) - 50, 0, -50, 0)])
# right-to-left run: output is in visual order (reversed), clusters descending
case("direction rtl reverses output", base(), T(1, 2, 3), [(3, 2, A(3)), (2, 1, A(2)), (1, 0, A(1))], direction="r")

# ------------------------------------------------------------------------------------------------
# escape hatches / liberal serialisation
case("raw_bytes subtable + null subtable offset",
     base(gsub=gsub([{"type": 1, "subtables": [None, {"raw_bytes": "0001" "0006" "0002" "0001" "0001" "0001"}]}])),
     T(1, 2), plain(3, 2))
case("extra raw table + post", base(post=True, tables={"XXXX": "deadbeef"}), T(1), plain(1))
case("values are masked, not rejected", base(gsub=gsub([{"type": 1, "subtables": [{"coverage": [1], "delta": 65536 + 2}]}])),
     T(1), plain(3))
case("num_glyphs = 0 is rejected by the crate", {"num_glyphs": 0}, [], None, expect_reject=True)


# ------------------------------------------------------------------------------------------------
# random recipes (smoke): type-directed, every table kind; `wild` adds malformed pieces (unsorted raw coverages,
# out-of-range lookup / class / entry indices, null offsets).  Usable by other streams:
#     import fontbuild_test; r = fontbuild_test.random_recipe(random.Random(seed), wild=False)

def _r_cov(rng, ng, wild, lo=1, kmax=4):
    gl = rng.sample(range(lo, ng), rng.randint(1, min(kmax, ng - lo)))
    form = rng.randint(0, 3)
    if wild and rng.random() < 0.3:
        return {"glyphs": gl + ([gl[0]] if rng.random() < 0.3 else []), "format": rng.choice([1, 2]), "raw": True}
    if form == 0:
        return gl
    if form == 1:
        return {"glyphs": gl, "format": 2}
    if form == 2:
        a = rng.randint(lo, ng - 1)
        b = min(ng - 1, a + rng.randint(0, 3))
        return {"ranges": [(a, b)]}
    return sorted(gl)


def _cov_len(c):
    if isinstance(c, list):
        return len(c)
    if "ranges" in c:
        return sum(max(0, r[1] - r[0] + 1) for r in c["ranges"])
    return len(c["glyphs"])


def _r_classdef(rng, ng, nclass):
    return {g: rng.randint(0, nclass - 1) for g in rng.sample(range(1, ng), rng.randint(1, ng - 1))}


def _r_seqlookups(rng, nlook, seqlen, wild):
    hi = nlook + (2 if wild else 0)
    return [(rng.randint(0, seqlen - 1 + (1 if wild else 0)), rng.randint(0, max(0, hi - 1))) for _ in range(rng.randint(0, 2))]


def _r_context(rng, ng, nlook, chain, wild):
    fmt = rng.randint(1, 3)
    g = lambda: rng.randint(1, ng - 1)
    if fmt == 3:
        n = rng.randint(1, 3)
        st = {"format": 3, "coverages": [_r_cov(rng, ng, wild) for _ in range(n)], "lookups": _r_seqlookups(rng, nlook, n, wild)}
        if chain:
            st["backtrack"] = [_r_cov(rng, ng, wild) for _ in range(rng.randint(0, 2))]
            st["lookahead"] = [_r_cov(rng, ng, wild) for _ in range(rng.randint(0, 2))]
        return st

    def rule(val):
        n = rng.randint(1, 3)
        r = {"input": [val() for _ in range(n - 1)], "lookups": _r_seqlookups(rng, nlook, n, wild)}
        if chain:
            r["backtrack"] = [val() for _ in range(rng.randint(0, 2))]
            r["lookahead"] = [val() for _ in range(rng.randint(0, 2))]
        return r
    cov = _r_cov(rng, ng, wild)
    if fmt == 1:
        return {"format": 1, "coverage": cov,
                "rulesets": [None if rng.random() < 0.1 else [rule(g) for _ in range(rng.randint(1, 2))] for _ in range(_cov_len(cov))]}
    nc = rng.randint(2, 4)
    c = lambda: rng.randint(0, nc - 1 + (1 if wild else 0))
    st = {"format": 2, "coverage": cov,
          "classsets": [None if rng.random() < 0.3 else [rule(c) for _ in range(rng.randint(1, 2))] for _ in range(nc)]}
    if chain:
        st["backtrack_classdef"] = _r_classdef(rng, ng, nc) if rng.random() < 0.8 else None
        st["input_classdef"] = _r_classdef(rng, ng, nc)
        st["lookahead_classdef"] = _r_classdef(rng, ng, nc) if rng.random() < 0.8 else None
    else:
        st["classdef"] = _r_classdef(rng, ng, nc)
    return st


def _r_gsub_subtable(rng, typ, ng, nlook, wild, ext=0):
    g = lambda: rng.randint(0 if wild else 1, ng - 1 + (3 if wild else 0))
    cov = _r_cov(rng, ng, wild)
    n = _cov_len(cov)
    if typ == 1:
        if rng.random() < 0.5:
            return {"format": 1, "coverage": cov, "delta": rng.randint(-3, 3)}
        return {"format": 2, "coverage": cov, "subst": [g() for _ in range(n)]}
    if typ == 2:
        return {"coverage": cov, "sequences": [[g() for _ in range(rng.randint(0, 3))] for _ in range(n)]}
    if typ == 3:
        return {"coverage": cov, "alternates": [[g() for _ in range(rng.randint(0 if wild else 1, 3))] for _ in range(n)]}
    if typ == 4:
        return {"coverage": cov, "ligsets": [[{"components": [g() for _ in range(rng.randint(0, 2))], "glyph": g()}
                                              for _ in range(rng.randint(1, 2))] for _ in range(n)]}
    if typ == 5:
        return _r_context(rng, ng, nlook, False, wild)
    if typ == 6:
        return _r_context(rng, ng, nlook, True, wild)
    if typ == 7:
        et = ext if ext else rng.choice([1, 2, 3, 4, 5, 6, 8])
        return {"ext_type": et, "extension": _r_gsub_subtable(rng, et, ng, nlook, wild)}
    return {"coverage": cov, "backtrack": [_r_cov(rng, ng, wild) for _ in range(rng.randint(0, 2))],
            "lookahead": [_r_cov(rng, ng, wild) for _ in range(rng.randint(0, 2))], "subst": [g() for _ in range(n)]}


def _r_vr(rng):
    if rng.random() < 0.2:
        return None
    return {k: rng.randint(-60, 60) for k in rng.sample(["xPlacement", "yPlacement", "xAdvance", "yAdvance"], rng.randint(1, 3))}


def _r_anchor(rng, none=0.2):
    return None if rng.random() < none else (rng.randint(-100, 600), rng.randint(-100, 600))


def _r_gpos_subtable(rng, typ, ng, nlook, wild, ext=0):
    cov = _r_cov(rng, ng, wild)
    n = _cov_len(cov)
    if typ == 1:
        if rng.random() < 0.5:
            return {"format": 1, "coverage": cov, "value": _r_vr(rng)}
        return {"format": 2, "coverage": cov, "values": [_r_vr(rng) for _ in range(n)]}
    if typ == 2:
        if rng.random() < 0.5:
            return {"format": 1, "coverage": cov, "pairsets": [
                [(rng.randint(1, ng - 1), _r_vr(rng), _r_vr(rng)) for _ in range(rng.randint(0, 3))] for _ in range(n)]}
        c1, c2 = rng.randint(1, 3), rng.randint(1, 3)
        return {"format": 2, "coverage": cov, "classdef1": _r_classdef(rng, ng, c1 + (1 if wild else 0)),
                "classdef2": _r_classdef(rng, ng, c2 + (1 if wild else 0)),
                "matrix": [[(_r_vr(rng), _r_vr(rng)) for _ in range(c2)] for _ in range(c1)]}
    if typ == 3:
        return {"coverage": cov, "entry_exit": [(_r_anchor(rng, 0.3), _r_anchor(rng, 0.3)) for _ in range(n)]}
    if typ in (4, 5, 6):
        k = rng.randint(1, 3)
        cov2 = _r_cov(rng, ng, wild)
        marks = [(rng.randint(0, k - 1 + (1 if wild else 0)), _r_anchor(rng, 0.0)) for _ in range(n)]
        row = lambda: [_r_anchor(rng) for _ in range(k)]
        if typ == 4:
            return {"mark_coverage": cov, "base_coverage": cov2, "class_count": k, "marks": marks,
                    "bases": [row() for _ in range(_cov_len(cov2))]}
        if typ == 5:
            return {"mark_coverage": cov, "lig_coverage": cov2, "class_count": k, "marks": marks,
                    "ligs": [[row() for _ in range(rng.randint(1, 3))] for _ in range(_cov_len(cov2))]}
        return {"mark1_coverage": cov, "mark2_coverage": cov2, "class_count": k, "marks": marks,
                "mark2": [row() for _ in range(_cov_len(cov2))]}
    if typ == 7:
        return _r_context(rng, ng, nlook, False, wild)
    if typ == 8:
        return _r_context(rng, ng, nlook, True, wild)
    et = ext if ext else rng.randint(1, 8)
    return {"ext_type": et, "extension": _r_gpos_subtable(rng, et, ng, nlook, wild)}


def _r_layout(rng, ng, ntypes, subfn, tags, wild, nsets, mixed_ext=False):
    nlook = rng.randint(1, 5)
    lookups = []
    for _ in range(nlook):
        typ = rng.randint(1, ntypes)
        flag = rng.choice([0, 0, 0, 1, 2, 4, 8, 0x100, 0x200, 0xE])
        # all extension subtables of a lookup share one type (the spec demands it, HarfBuzz rejects fonts that
        # do not, and rustybuzz loops forever on "reverse chain + anything else", see the final report)
        ext = 0 if mixed_ext else rng.choice([t for t in range(1, ntypes + 1) if t != (7 if ntypes == 8 else 9)])
        l = {"type": typ, "flag": flag,
             "subtables": [None if wild and rng.random() < 0.05 else subfn(rng, typ, ng, nlook, wild, ext)
                           for _ in range(rng.randint(1, 2))]}
        if nsets and rng.random() < 0.2:
            l["mark_set"] = rng.randint(0, nsets - 1 + (1 if wild else 0))
        lookups.append(l)
    feats = [{"tag": rng.choice(tags), "lookups": sorted(rng.sample(range(nlook), rng.randint(1, nlook)))}
             for _ in range(rng.randint(1, 3))]
    t = {"features": feats, "lookups": lookups}
    if rng.random() < 0.3:
        nf = len(feats)
        t["scripts"] = [{"tag": "DFLT", "default": {"required": rng.choice([None, 0]), "features": list(range(nf))},
                         "langs": [{"tag": "ENG ", "required": None, "features": [0]}]},
                        {"tag": "latn", "default": None, "langs": []}]
    return t


def _r_morx_subtable(rng, ng, wild):
    kind = rng.choice(["rearrangement", "contextual", "ligature", "noncontextual", "insertion"])
    s = {"kind": kind, "feature_flags": rng.choice([1, 1, 1, 3]), "descending": rng.random() < 0.2,
         "logical": rng.random() < 0.2}
    g = lambda: rng.randint(1, ng - 1)
    if kind == "noncontextual":
        s["map"] = {g(): g() for _ in range(rng.randint(0, 4))}
        s["format"] = rng.choice([None, 0, 2, 4, 6, 8, 10])
        return s
    ncls = rng.randint(4, 7)
    nst = rng.randint(2, 4)
    nent = rng.randint(1, 5)
    s["classes"] = {g(): rng.randint(4, ncls - 1 + (1 if wild else 0)) for _ in range(rng.randint(0, 5))} if ncls > 4 else {}
    s["nclasses"] = ncls
    s["class_format"] = rng.choice([None, 0, 2, 4, 6, 8, 10])
    s["states"] = [[rng.randint(0, nent - 1 + (1 if wild else 0)) for _ in range(ncls)] for _ in range(nst)]
    ents = []
    for _ in range(nent):
        e = {"new_state": rng.randint(0, nst - 1 + (1 if wild else 0))}
        if kind == "rearrangement":
            e["flags"] = rng.choice([0, 0x8000, 0x2000, 0x4000]) | rng.randint(0, 15)
        elif kind == "contextual":
            e["flags"] = rng.choice([0, 0x8000, 0x4000])
            e["mark_index"] = rng.choice([0xFFFF, 0, 1, 2 if wild else 1])
            e["current_index"] = rng.choice([0xFFFF, 0, 1])
        elif kind == "ligature":
            e["flags"] = rng.choice([0, 0x8000, 0xA000, 0x2000, 0x4000])
            e["action_index"] = rng.randint(0, 2 + (2 if wild else 0))
        else:
            e["flags"] = rng.choice([0, 0x8000, 0x4000]) | (rng.randint(0, 2) << 5) | rng.randint(0, 2) | \
                rng.choice([0, 0x0800, 0x0400])
            e["current_insert_index"] = rng.choice([0xFFFF, 0, 1])
            e["marked_insert_index"] = rng.choice([0xFFFF, 0, 1])
        ents.append(e)
    s["entries"] = ents
    if kind == "contextual":
        s["substitutions"] = [{g(): g() for _ in range(rng.randint(1, 3))} for _ in range(2)]
    elif kind == "ligature":
        s["lig_actions"] = [rng.choice([0, 0x80000000, 0xC0000000, 0x40000000]) | (rng.randint(-3, 3) & 0x3FFFFFFF) for _ in range(3)]
        s["components"] = [rng.randint(0, 2) for _ in range(ng + 3)]
        s["ligatures"] = [g() for _ in range(4)]
    elif kind == "insertion":
        s["insert_glyphs"] = [g() for _ in range(4)]
    return s


def random_recipe(rng, wild=False, mixed_ext=False):
    ng = rng.randint(6, 14)
    r = {"num_glyphs": ng, "cmap": "pua", "advances": [A(g) for g in range(ng)]}
    nsets = 0
    if rng.random() < 0.7:
        gd = {"classes": {g: rng.randint(1, 4) for g in rng.sample(range(1, ng), rng.randint(1, ng - 1))}}
        if rng.random() < 0.5:
            gd["mark_attach"] = {g: rng.randint(1, 3) for g in range(1, ng) if gd["classes"].get(g) == 3}
        if rng.random() < 0.5:
            nsets = rng.randint(1, 2)
            gd["mark_sets"] = [_r_cov(rng, ng, wild) for _ in range(nsets)]
        r["gdef"] = gd
    if rng.random() < 0.8:
        r["gsub"] = _r_layout(rng, ng, 8, _r_gsub_subtable, ["liga", "ccmp", "calt", "rlig", "smcp"], wild, nsets, mixed_ext)
    if rng.random() < 0.7:
        r["gpos"] = _r_layout(rng, ng, 9, _r_gpos_subtable, ["kern", "mark", "mkmk", "curs", "dist"], wild, nsets, mixed_ext)
    if rng.random() < 0.3:
        r["kern"] = [{"horizontal": rng.random() < 0.8, "cross": rng.random() < 0.2,
                      "pairs": [(rng.randint(1, ng - 1), rng.randint(1, ng - 1), rng.randint(-80, 80)) for _ in range(rng.randint(0, 6))]}
                     for _ in range(rng.randint(1, 2))]
    if rng.random() < 0.3:
        r["morx"] = {"chains": [{"default_flags": 1, "features": [],
                                 "subtables": [_r_morx_subtable(rng, ng, wild) for _ in range(rng.randint(1, 3))]}
                                for _ in range(rng.randint(1, 2))]}
    if rng.random() < 0.2:
        r["vadvances"] = [700 + g for g in range(ng)]
        if rng.random() < 0.5:
            r["vorg"] = {"default": 800, "glyphs": {rng.randint(1, ng - 1): 850}}
    return r


def smoke(nfonts, seed=1):
    """builds random recipes and shapes random texts: the builder must not raise, the crate must accept every font
    and answer `ok` (a crate panic is printed as a NOTE with a replay, it is not a builder failure)."""
    import json
    import random
    rng = random.Random(seed)
    lines, meta = [], []
    fails = 0
    for i in range(nfonts):
        wild = i % 3 == 2
        rec = random_recipe(rng, wild)
        try:
            hexf = fontbuild.hexfont(rec)
            if fontbuild.hexfont(json.loads(json.dumps(rec))) != hexf:
                raise ValueError("JSON round trip changes the font")
        except Exception as e:
            fails += 1
            print("FAIL smoke: builder raised %r on %s" % (e, json.dumps(rec)))
            continue
        lines.append("font S %s" % hexf)
        meta.append(("font", rec, None))
        for _ in range(4):
            ng = rec["num_glyphs"]
            text = [rng.randint(1, ng - 1) for _ in range(rng.randint(0, 8))]
            d = rng.choice("lllrt")
            lines.append("shape S %s DFLT - 0 0 - - - %s" % (d, ",".join("%x:%d" % (0xE000 + g - 1, j) for j, g in enumerate(text)) or "-"))
            meta.append(("shape", rec, (d, text)))
    try:
        p = subprocess.run([SHIM], input="\n".join(lines) + "\n", capture_output=True, text=True, timeout=120)
    except subprocess.TimeoutExpired:
        print("FAIL smoke: rbshim did not finish within 120 s (a shaping call hangs)")
        return fails + 1
    out = p.stdout.split("\n")
    panics = 0
    shaped = changed = 0
    for (kind, rec, arg), reply in zip(meta, out):
        if kind == "font":
            if reply != "ok":
                fails += 1
                print("FAIL smoke: font reply %r for %s" % (reply, json.dumps(rec)))
        elif reply.startswith("panic"):
            panics += 1
            if panics <= 5:
                print("NOTE crate panic: %s | dir=%s text=%s recipe=%s" % (reply, arg[0], arg[1], json.dumps(rec)))
        elif not reply.startswith("ok "):
            fails += 1
            print("FAIL smoke: shape reply %r" % reply)
        else:
            shaped += 1
            gids = [int(t.split(":")[0]) for t in reply.split(" ")[2:]]
            if arg[0] == "r":
                gids = gids[::-1]
            if gids != arg[1]:
                changed += 1
    if p.returncode != 0 or len(out) - 1 != len(lines):
        fails += 1
        print("FAIL smoke: rbshim exit %d, %d replies for %d requests" % (p.returncode, len(out) - 1, len(lines)))
    print("%s smoke: %d random fonts (1/3 malformed), %d shapes ok (%d with substitutions), %d crate panics"
          % ("FAIL" if fails else "PASS", nfonts, shaped, changed, panics))
    return fails


# ------------------------------------------------------------------------------------------------
# crate defects found while testing the builder (`python3 tools/fontbuild_test.py --defects` replays them against
# the current rbshim; they are not part of PASS/FAIL).  All three fonts are tiny; the text is one or two characters.
DEFECTS = [
    # D6 (ensure() shrinks the out-buffer) is reachable from a well-formed GSUB: a context rule whose first lookup
    # record is a 1->3 multiple substitution and which has a second record.  Panics for exactly this text length.
    dict(name="D6 via plain GSUB: context rule = [multiple 3->4 5 3, then any lookup], text <2 3>",
         expect="panic buffer.rs:1191 index out of bounds", text=[2, 3],
         recipe={"num_glyphs": 8, "cmap": "pua", "gsub": {"features": [{"tag": "ccmp", "lookups": [0]}], "lookups": [
             {"type": 5, "subtables": [{"format": 1, "coverage": [3], "rulesets": [[{"input": [], "lookups": [(0, 1), (0, 2)]}]]}]},
             {"type": 2, "subtables": [{"coverage": [3], "sequences": [[4, 5, 3]]}]},
             {"type": 1, "subtables": [{"format": 2, "coverage": [4], "subst": [6]}]}]}}),
    # new: apply_lookup keeps `end` as usize; when recursed lookups delete more glyphs than remain before `end`,
    # `end + delta` wraps instead of going negative, the clamp `end < match_positions[idx]` (HarfBuzz: signed int)
    # does not fire and the final move_to(end) asserts.  ot_layout_gsubgpos.rs:931-943.
    dict(name="apply_lookup: unsigned `end` wraps when nested lookups delete glyphs (empty Multiple sequence), text <5 5>",
         expect="panic buffer.rs:1156 assertion failed: i <= self.out_len + (self.len - self.idx)", text=[5, 5],
         recipe={"num_glyphs": 7, "cmap": "pua", "gsub": {"features": [{"tag": "calt", "lookups": [0]}], "lookups": [
             {"type": 5, "subtables": [{"format": 1, "coverage": [5], "rulesets": [[{"input": [], "lookups": [(0, 1), (0, 0)]}]]}]},
             {"type": 2, "subtables": [{"coverage": [5], "sequences": [[]]}]}]}}),
    # new: SubstLookup::parse computes reverse = AND of all subtables; an Extension lookup mixing a reverse-chain (8)
    # subtable with any other type is applied forward, ReverseChainSingleSubst::apply succeeds without advancing idx,
    # and apply_forward loops forever when the substitute is covered again (1 -> 1).  HarfBuzz's sanitize rejects such
    # lookups ("all subtables of an Extension lookup should have the same type").  ot_layout_common.rs:113-117.
    dict(name="infinite loop: extension lookup mixing reverse-chain with another type, text <1>",
         expect="hang", text=[1],
         recipe={"num_glyphs": 3, "cmap": "pua", "gsub": {"features": [{"tag": "ccmp", "lookups": [0]}], "lookups": [
             {"type": 7, "subtables": [
                 {"ext_type": 8, "extension": {"coverage": [1], "backtrack": [], "lookahead": [], "subst": [1]}},
                 {"ext_type": 1, "extension": {"format": 1, "coverage": [2], "delta": 0}}]}]}}),
    # D6/D19 through morx insertion on a one character text
    dict(name="D6 via morx insertion, text <7>", expect="panic buffer.rs:1191 index out of bounds", text=[7],
         recipe={"num_glyphs": 9, "cmap": "pua", "morx": {"chains": [{"default_flags": 1, "features": [], "subtables": [
             {"kind": "insertion", "feature_flags": 3, "descending": True, "logical": True, "classes": {4: 5, 1: 5, 6: 4},
              "nclasses": 7, "states": [[3, 2, 2, 3, 1, 1, 3], [1, 3, 1, 2, 0, 1, 0], [1, 0, 1, 2, 3, 0, 3], [2, 1, 0, 0, 1, 2, 1]],
              "entries": [{"new_state": 2, "flags": 2112, "current_insert_index": 65535, "marked_insert_index": 1},
                          {"new_state": 1, "flags": 34849, "current_insert_index": 65535, "marked_insert_index": 0},
                          {"new_state": 1, "flags": 18497, "current_insert_index": 1, "marked_insert_index": 0},
                          {"new_state": 1, "flags": 18497, "current_insert_index": 0, "marked_insert_index": 65535}],
              "insert_glyphs": [1, 3, 1, 4]}]}]}}),
]


def replay_defects():
    for d in DEFECTS:
        lines = ["font D %s" % fontbuild.hexfont(d["recipe"]),
                 "shape D l DFLT - 0 0 - - - %s" % ",".join("%x:%d" % (cp, j) for j, cp in enumerate(T(*d["text"])))]
        try:
            p = subprocess.run([SHIM], input="\n".join(lines) + "\n", capture_output=True, text=True, timeout=5)
            reply = (p.stdout.split("\n") + ["", ""])[1]
        except subprocess.TimeoutExpired:
            reply = "hang (no reply within 5 s)"
        print("DEFECT %s\n    expected: %s\n    now:      %s\n    font:     %s" % (d["name"], d["expect"], reply, lines[0].split(" ")[2]))
    return 0


def unit():
    """checks that need no shaping"""
    fails = 0

    def check(name, ok):
        nonlocal fails
        print("%s %s" % ("PASS" if ok else "FAIL", name))
        fails += 0 if ok else 1
    f = fontbuild
    check("coverage_order / parallel (cooked)", f.coverage_order([5, 3, 5]) == [3, 5] and f.parallel([5, 3, 5], [10, 11, 12]) == [11, 10])
    check("coverage_order / parallel (ranges)", f.coverage_order({"ranges": [(4, 6), (1, 2)]}) == [1, 2, 4, 5, 6]
          and f.parallel({"ranges": [(4, 6), (1, 2)]}, list("abcde")) == list("deabc"))
    check("coverage_order / parallel (raw)", f.coverage_order({"glyphs": [3, 1], "raw": True}) == [3, 1]
          and f.parallel({"glyphs": [3, 1], "raw": True}, [7, 8]) == [7, 8])
    big = {"num_glyphs": 4, "gsub": {"features": [], "lookups": [
        {"type": 2, "subtables": [{"coverage": [1], "sequences": [[2] * 40000]}, {"coverage": [1], "sequences": [[2] * 40000]}]}]}}
    try:
        f.build(big)
        check("Offset16 overflow raises FontBuildError", False)
    except f.FontBuildError:
        check("Offset16 overflow raises FontBuildError", True)
    data = f.build(base(post=True, gdef=GDEF))
    ntab = int.from_bytes(data[4:6], "big")
    tags = [data[12 + 16 * i:16 + 16 * i] for i in range(ntab)]
    total = sum(int.from_bytes(data[i:i + 4], "big") for i in range(0, len(data), 4)) & 0xFFFFFFFF
    check("table directory sorted, 4-byte aligned, checkSumAdjustment makes the file sum 0xB1B0AFBA",
          tags == sorted(tags) and len(data) % 4 == 0 and total == 0xB1B0AFBA)
    check("deterministic", f.build(base(gdef=GDEF)) == f.build(base(gdef=GDEF)))
    check("hexfont", f.hexfont(base()) == f.build(base()).hex())
    return fails


def ensure_shim():
    if os.path.exists(SHIM):
        return True
    print("rbshim not found, building it (cargo build --release --offline) ...")
    env = dict(os.environ, CARGO_NET_OFFLINE="true")
    p = subprocess.run(["cargo", "build", "--release", "--offline"], cwd=os.path.join(ROOT, "harness"), env=env)
    return p.returncode == 0 and os.path.exists(SHIM)


def fmt_glyphs(gl):
    return " ".join(":".join(str(x) for x in g) for g in gl)


def main(argv):
    only = argv[1:]
    if not ensure_shim():
        print("FAIL cannot build/find %s (run ./check --setup)" % SHIM)
        return 1
    if only == ["--defects"]:
        return replay_defects()
    lines, index = [], []
    for i, c in enumerate(CASES):
        if only and not any(o in c["name"] for o in only):
            continue
        try:
            hexf = fontbuild.hexfont(c["recipe"])
        except Exception as e:  # a builder crash is a failure of that case
            index.append((c, None, "builder raised %r" % (e,)))
            continue
        text = ",".join("%x:%d" % (cp, j) for j, cp in enumerate(c["text"])) or "-"
        lines.append("font F%d %s" % (i, hexf))
        lines.append("shape F%d %s %s - 0 0 %s - - %s" % (i, c["dir"], c["script"], c["feats"], text))
        lines.append("fontdrop F%d" % i)
        index.append((c, len(lines) - 3, None))
    p = subprocess.run([SHIM], input="\n".join(lines) + "\n", capture_output=True, text=True)
    out = p.stdout.split("\n")
    fails = 0
    for c, at, err in index:
        why = err
        got = None
        if why is None:
            freply, sreply = out[at], out[at + 1]
            if c["expect_reject"]:
                if freply != "reject":
                    why = "font reply %r, expected reject" % freply
            elif freply != "ok":
                why = "font not accepted: %r" % freply
            elif not sreply.startswith("ok "):
                why = "shape reply %r" % sreply
            else:
                toks = sreply.split(" ")[2:]
                got = []
                for t in toks:
                    g, cl, _fl, xa, ya, xo, yo = (int(x) for x in t.split(":"))
                    got.append((g, cl, xa, ya, xo, yo))
                exp = c["expect"]
                if len(got) != len(exp) or any(tuple(g[:len(e)]) != tuple(e) for g, e in zip(got, exp)):
                    why = "expected %s" % fmt_glyphs(exp)
        if why is None:
            print("PASS %s" % c["name"])
        else:
            fails += 1
            print("FAIL %s: %s%s" % (c["name"], why, ("\n     got      %s" % fmt_glyphs(got)) if got is not None else ""))
    if p.returncode != 0:
        print("FAIL rbshim exited with %d: %s" % (p.returncode, p.stderr[-400:]))
        fails += 1
    if not only:
        fails += unit()
        fails += smoke(300)
    print("%d cases, %d failed" % (len(index), fails))
    return 1 if fails else 0


if __name__ == "__main__":
    sys.exit(main(sys.argv))
