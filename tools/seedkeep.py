#!/usr/bin/env python3
"""seedkeep.py <name> <property> <caught-by text> — store a confirmed seeded change under /verif/seeded/<name>/"""
import json, os, shutil, sys, glob, re
name, prop, caught = sys.argv[1:4]
src = f"/tmp/seed/{name}/out"
dst = f"/verif/seeded/{name}"
os.makedirs(dst, exist_ok=True)
shutil.copy(f"{src}/patch.diff", dst)
for f in glob.glob(f"{src}/*.rs"):
    shutil.copy(f, dst)
notes = open(f"{src}/notes.md").read() if os.path.exists(f"{src}/notes.md") else ""
shutil.copy(f"{src}/notes.md", dst) if notes else None
m = re.search(r"(?is)(what it (?:takes|needs)[^\n]*\n.*?)(\n#|\n\*\*[A-Z]|\Z)", notes)
meta = {
    "id": name, "breaks_property": prop,
    "needs_to_manifest": (m.group(1).strip()[:1500] if m else "see notes.md"),
    "confirmed": "tools/seedtest.sh %s %s: existing suite 2315 passed / 0 failed with the change; demo fails with the change and passes without it" % (name, prop),
    "our_checks": caught,
    "apply": f"git -C /repo apply /verif/seeded/{name}/patch.diff ; ./check {prop} ; git -C /repo checkout -- .",
}
json.dump(meta, open(f"{dst}/meta.json", "w"), indent=1)
print("kept", dst)
