"""Fonts and texts for the streams that drive the SYLLABIC shapers (Indic old / new spec, Khmer, Myanmar, Universal) through
shape(): C01 `sweep-syllabic`, C03 `break-safety-syllabic`, C04 `concat-redistribution-syllabic`, C10 `prefilter-syllabic`.

Nothing about which script goes to which shaper is written down here: `shaper_table(shim)` asks the compiled crate
  * `segprops - - <cp>`            the script UnicodeBuffer::guess_segment_properties resolves for every code point of planes 0/1,
  * `scripttags <script>`          the OpenType script tags the crate looks for (new / old Indic spec, '3' = USE, ...),
  * `shaper <script> <dir> <tag>`  the shaper hb_ot_shape_complex_categorize picks for (script, chosen GSUB script tag | none),
and keeps every (script, tag) whose shaper is indic / khmer / myanmar / use (~100 scripts, ~14 000 code points).  A change of the
dispatch in ot_shaper.rs therefore moves the streams along with it.

Roles inside a script (consonant, virama / coeng, dependent vowel, ...) come from the Unicode character data of CPython (names,
combining classes, categories); for scripts newer than its Unicode version the first code points of the script stand in."""
import os, re, struct, unicodedata
import vlib, fontbuild

ZWJ, ZWNJ, DOTTED, NBSP, CGJ, SPACE = 0x200D, 0x200C, 0x25CC, 0xA0, 0x34F, 0x20
SYLLABIC_SHAPERS = ("indic", "khmer", "myanmar", "use")

# characters of script Common / Inherited that the syllabic machines give a category of their own (placeholders, joiners, Vedic
# signs, dandas, variation selectors): swept under every Indic / Khmer / Myanmar script and, in slices, under the USE scripts
COMMON_EXTRAS = ([SPACE, 0x2D, NBSP, 0xD7, CGJ, ZWNJ, ZWJ, 0x2010, 0x2011, 0x2012, 0x2013, 0x2014, 0x2015, 0x2022, 0x20F0, DOTTED,
                  0x25FB, 0x25FC, 0x25FD, 0x25FE, 0x0951, 0x0952, 0x0964, 0x0965, 0x2060, 0xFE00, 0xFE0F, 0x30, 0x41]
                 + list(range(0x1CD0, 0x1CFB)) + list(range(0xA830, 0xA83A)) + [0x11301, 0x11303, 0x1133B, 0x1133C, 0x1BCA0])


def tagnum(s):
    return struct.unpack(">I", s.encode("latin-1"))[0]


def tagstr(n):
    return struct.pack(">I", n).decode("latin-1")


_table = {}


def shaper_table(shim):
    """[{iso, cps, variants: [(ot tag | None, shaper name)]}] for every script some (script, tag) of which goes to a syllabic shaper;
    variants lists only those tags (None = a font without any matching GSUB script: chosen_script is None)"""
    if shim in _table:
        return _table[shim]
    cps = [c for c in range(0x80, 0x20000) if not (0xD800 <= c <= 0xDFFF)]
    outs = vlib.run_lines(shim, [f"segprops - - {c:x}" for c in cps])
    by = {}
    for c, o in zip(cps, outs):
        t = o.split()
        if len(t) == 2 and t[1] != "-" and len(t[1]) == 4:
            by.setdefault(t[1], []).append(c)
    names = sorted(by)
    tg = vlib.run_lines(shim, [f"scripttags {tagnum(s)}" for s in names], nproc=1)
    q, idx = [], []
    for s, o in zip(names, tg):
        tags = [int(x) for x in o.split(",")] if o not in ("-", "") and not o.startswith("panic") else []
        for t in tags + [None]:
            q.append(f"shaper {tagnum(s)} 0 {t if t is not None else '-'}"); idx.append((s, t))
    sh = vlib.run_lines(shim, q, nproc=1)
    res = {}
    for (s, t), name in zip(idx, sh):
        if name in SYLLABIC_SHAPERS:
            res.setdefault(s, []).append((tagstr(t) if t is not None else None, name))
    out = [{"iso": s, "cps": by[s], "variants": res[s]} for s in names if s in res]
    _table[shim] = out
    return out


def _cat(cp): return unicodedata.category(chr(cp))
def _ccc(cp): return unicodedata.combining(chr(cp))
def _name(cp): return unicodedata.name(chr(cp), "")


def roles(cps):
    """role representatives of a script's code points: lists (possibly empty) of consonants, RA, viramas / coengs, nuktas, dependent
    vowels, other marks, independent vowels, digits; `known` = CPython's Unicode data knows the script"""
    known = [c for c in cps if _cat(c) != "Cn"]
    letters = [c for c in known if _cat(c) in ("Lo", "Lm", "Ll", "Lu")]
    indep = [c for c in letters if re.search(r"(INDEPENDENT VOWEL|LETTER (A|AA|I|II|U|UU|E|EE|AI|O|OO|AU|VOCALIC \w+))$", _name(c))]
    cons = [c for c in letters if c not in indep] or letters
    ra = [c for c in cons if re.search(r"LETTER (RA|RO|RRA)$", _name(c))]
    marks = [c for c in known if _cat(c) in ("Mn", "Mc", "Me")]
    halant = sorted((c for c in marks if _ccc(c) == 9), key=lambda c: (not re.search(r"(VIRAMA|COENG)$", _name(c)), c))
    nukta = [c for c in marks if _ccc(c) == 7]
    matra = [c for c in marks if c not in halant and c not in nukta and re.search(r"VOWEL|SARA", _name(c))]
    other = [c for c in marks if c not in halant and c not in nukta and c not in matra]
    if not cons:
        cons = cps[:4]
    return {"cons": cons, "ra": ra, "halant": halant, "nukta": nukta, "matra": matra, "othermarks": other, "marks": marks,
            "indep": indep, "digits": [c for c in known if _cat(c) == "Nd"], "known": bool(known)}


# ------------------------------------------------------------------------------------------------
# fonts


def cache_dir():
    d = os.path.join(vlib.HARN, "target", "syllabic-fonts")
    os.makedirs(d, exist_ok=True)
    return d


def plain_recipe(cps, tag, dotted, spacejoin, rich=None):
    """cmap + hmtx over `cps` (+ Latin A-F, hyphen, NBSP, generic combining marks; U+25CC iff `dotted`; U+0020, ZWJ, ZWNJ iff
    `spacejoin`) and — unless tag is None — a GSUB whose only script record is `tag`.
    rich = None: one inert `ccmp` lookup.  rich = {"halant": [cp..], "first": [cp..], "second": [cp..]}: ligature lookups
    <x, H> -> L1 under the shaper's pre-base form features and <H, x> -> L2 under its below / post-base form features (so the
    would_substitute() probes of the Indic plan answer yes and consonants get below- / post-base positions), and an identity
    single substitution over every glyph under the presentation features (every glyph is rewritten after the reordering)."""
    extra = [0x2D, NBSP, CGJ] + list(range(0x300, 0x303)) + list(range(0x41, 0x47))
    if spacejoin: extra += [SPACE, ZWJ, ZWNJ]
    if dotted: extra.append(DOTTED)
    allc = []
    for c in list(cps) + extra:
        if c not in allc and (c != DOTTED or dotted) and (c not in (SPACE, ZWJ, ZWNJ) or spacejoin):
            allc.append(c)
    cmap = {cp: i + 1 for i, cp in enumerate(allc)}
    n = len(allc) + 1
    adv = [0 if _cat(cp) in ("Mn", "Me") else 600 for cp in [0] + allc]
    adv[0] = 600
    rec = {"num_glyphs": n + 3, "cmap": cmap, "advances": adv + [600, 610, 620]}
    if tag is None:
        return rec, cmap
    L1, L2 = n, n + 1
    if not rich or not rich.get("halant"):
        feats = [{"tag": "ccmp", "lookups": [0]}]
        lookups = [{"type": 1, "flag": 0, "subtables": [{"format": 1, "coverage": [n + 2], "delta": 0}]}]
    else:
        hs = [cmap[h] for h in rich["halant"] if h in cmap][:2]
        first = [cmap[c] for c in rich["first"] if c in cmap and cmap[c] not in hs]
        second = [cmap[c] for c in rich["second"] if c in cmap and cmap[c] not in hs]
        lookups = [
            {"type": 4, "flag": 0, "subtables": [{"coverage": first, "ligsets": [[{"components": [hs[0]], "glyph": L1}] for _ in first]}]},
            {"type": 4, "flag": 0, "subtables": [{"coverage": hs, "ligsets": [[{"components": [g], "glyph": L2} for g in second] for _ in hs]}]},
            {"type": 1, "flag": 0, "subtables": [{"format": 1, "coverage": {"ranges": [(1, n - 1)]}, "delta": 0}]},
        ]
        feats = ([{"tag": t, "lookups": [0]} for t in ("half", "rphf", "akhn", "rkrf", "cjct")]
                 + [{"tag": t, "lookups": [1]} for t in ("blwf", "pstf", "pref", "vatu", "abvf", "cfar")]
                 + [{"tag": t, "lookups": [2]} for t in ("locl", "ccmp", "nukt", "pres", "abvs", "blws", "psts", "haln", "init", "clig")])
    rec["gsub"] = {"scripts": [{"tag": tag, "default": {"required": None, "features": list(range(len(feats)))}, "langs": []}],
                   "features": feats, "lookups": lookups}
    return rec, cmap


def font_file(name, recipe):
    """writes the built font under harness/target/syllabic-fonts (only when the bytes differ) and returns the path"""
    data = fontbuild.build(recipe)
    p = os.path.join(cache_dir(), name + ".ttf")
    if not os.path.exists(p) or open(p, "rb").read() != data:
        open(p, "wb").write(data)
    return p


# ------------------------------------------------------------------------------------------------
# C01: the systematic sweep

# buffer flags that change a decision of the pipeline (bits by name, values read from the crate by the caller)
SWEEP_FLAGS = ["BEGINNING_OF_TEXT", "END_OF_TEXT", "PRESERVE_DEFAULT_IGNORABLES", "REMOVE_DEFAULT_IGNORABLES",
               "DO_NOT_INSERT_DOTTED_CIRCLE", "PRODUCE_UNSAFE_TO_CONCAT"]


def sweep_templates(x, ro, rnd):
    """texts that put code point x first, last, alone, doubled, after a space, next to a consonant, a virama / coeng, a joiner, a
    dotted circle, a dependent vowel and a random character of the same script"""
    C = ro["cons"][0]
    C2 = ro["cons"][1 % len(ro["cons"])]
    H = ro["halant"][0] if ro["halant"] else rnd
    M = (ro["matra"] or ro["othermarks"] or [rnd])[0]
    R = (ro["ra"] or [C2])[0]
    return [[x], [x, x], [x, C], [C, x], [x, H], [H, x], [x, ZWJ], [ZWJ, x], [x, ZWNJ], [ZWNJ, x], [SPACE, x], [x, SPACE],
            [C, H, x], [x, H, C], [R, H, x], [x, M], [M, x], [DOTTED, x], [x, rnd], [rnd, x], [C, H, ZWJ, x], [C, x, H, C2]]


def sweep_batches(shim, r, per_case, max_cps, flag_bits, rle, stat, batch=400000):
    """c01 request lines, in batches.  For every syllabic (script, GSUB tag) of shaper_table: fonts = {tag, no GSUB} x {with, without
    U+25CC} x {with, without space / joiner glyphs} (+ a `rich` font per tag); code points = the script's own (at most max_cps,
    evenly spaced) + COMMON_EXTRAS; every template of sweep_templates; per (code point, template) `per_case` configurations taken
    from a walk with a stride coprime to the size of the product  font variants x 64 flag subsets x directions l r t x cluster
    levels 0 1 2 x script explicit / guessed, whose dotted-circle coordinate alternates: the walk visits the product evenly"""
    table = shaper_table(shim)
    lines = []
    stat.update({"scripts": 0, "fonts": 0, "code_points": 0, "by_shaper": {}, "configurations_per_text": per_case})
    nflag = 1 << len(flag_bits)
    k = r.below(1 << 20)
    use_slice = 0
    for ent in table:
        iso, cps = ent["iso"], ent["cps"]
        ro = roles(cps)
        names = {nm for _, nm in ent["variants"]}
        if names == {"use"}:
            # USE reads its categories from one table for all scripts: the Common / Inherited extras go round in slices
            ex = COMMON_EXTRAS[use_slice % 6::6]; use_slice += 1
        else:
            ex = COMMON_EXTRAS
        own = cps
        if len(own) > max_cps:
            step = len(own) / max_cps
            off = r.below(max(1, int(step)))
            own = sorted({own[min(len(own) - 1, int(i * step) + off)] for i in range(max_cps)})
        test = own + [c for c in ex if c not in own]
        fontcps = list(cps) + COMMON_EXTRAS      # the fonts do not depend on the seed (replays name them by path)
        rich = {"halant": ro["halant"], "first": ro["cons"][:40] + ro["ra"], "second": ro["cons"][:40] + ro["ra"]}
        variants = []          # ((font path with U+25CC, without), shaper name)
        for tag, nm in ent["variants"]:
            kinds = [("p", None)] + ([("r", rich)] if tag is not None and ro["halant"] else [])
            for kn, rc in kinds:
                for sj in (1, 0):
                    pair = []
                    for dc in (1, 0):
                        rec, _ = plain_recipe(fontcps, tag, dc, sj, rc)
                        tname = (tag or "none").strip()
                        pair.append(font_file(f"{iso}-{tname}-{kn}{sj}{dc}", rec))
                        stat["fonts"] += 1
                    variants.append((pair, nm))
        stat["scripts"] += 1
        stat["code_points"] += len(test)
        N = len(variants) * nflag * 3 * 3 * 2
        stride = 7919          # prime, larger than every prime factor of N: the walk k -> k * stride mod N is a permutation
        for x in test:
            rnd = r.choice(cps)
            for text in sweep_templates(x, ro, rnd):
                t = rle(text)
                for j in range(per_case):
                    k += 1
                    c = (k * stride) % N
                    c, vi = divmod(c, len(variants))
                    c, fl = divmod(c, nflag)
                    c, di = divmod(c, 3)
                    guess, lvl = divmod(c, 3)
                    pair, nm = variants[vi]
                    path = pair[(k + j) % 2] if per_case == 1 else pair[j % 2]
                    flags = sum(b for i, b in enumerate(flag_bits) if fl >> i & 1)
                    sc = "-" if guess and x not in ex else iso
                    lines.append(f"c01 @{path}@0 {'lrt'[di]} {sc} - {flags} {lvl} - - - {t} ser=1")
                    stat["by_shaper"][nm] = stat["by_shaper"].get(nm, 0) + 1
        if len(lines) >= batch:
            yield lines
            lines = []
    if lines:
        yield lines


# ------------------------------------------------------------------------------------------------
# C03 / C10: small "feature" fonts per syllabic shaper and texts with broken clusters

SHAPER_FILES = {"indic": "ot_shaper_indic.rs", "khmer": "ot_shaper_khmer.rs", "myanmar": "ot_shaper_myanmar.rs", "use": "ot_shaper_use.rs"}
COMMON_FEATURES = ["ccmp", "locl", "rlig", "calt", "clig", "rclt"]
_feat = {}


def shaper_features(name):
    """feature tags written in the shaper's own source (in source order: basic / form features first, presentation features after
    the reordering pauses) + the horizontal features every shaper gets from ot_shape.rs"""
    if name not in _feat:
        p = os.path.join(vlib.REPO, "src", "hb", SHAPER_FILES[name])
        tags = []
        if os.path.exists(p):
            for t in re.findall(r'from_bytes\(b"([A-Za-z0-9 ]{4})"\)', open(p).read()):
                if t not in tags and t == t.lower():
                    tags.append(t)
        _feat[name] = [t for t in tags if t not in ("liga", "dflt", "latn")] + [t for t in COMMON_FEATURES if t not in tags]
    return _feat[name]


TOPOGRAPHICAL = ("isol", "init", "medi", "fina")


class SynthCase:
    pass


def _pick(r, xs, k):
    xs = list(xs)
    return r.sample(xs, min(k, len(xs))) if xs else []


def _composite(c):
    d = unicodedata.decomposition(chr(c))
    return bool(d) and not d.startswith("<")


def feature_recipe(r, ent, tag, topographical=False, mark_first_ligatures=False, composites=False):
    """a small font for one (script, GSUB tag): 2-3 consonants (RA among them), viramas / coengs, nukta, 3-4 dependent vowels, 2-3 other
    marks, an independent vowel, a digit + U+25CC, space, NBSP, ZWJ / ZWNJ (1 font in 2), 4-6 unencoded target glyphs; 2-5 lookups under
    features of the shaper's own list: SingleSubst (format 2) and LigatureSubst whose coverages are SMALL subsets of {dotted circle,
    marks, viramas, consonants} (the dotted circle over-represented), substitutes = target glyphs or other small-set glyphs.
    No multiple substitution, no deletion, no contextual lookup: what one cluster becomes depends on that cluster alone, up to the
    ligatures, which flag what they join"""
    # characters with a canonical decomposition are left out: the normalizer recomposes <RA, NUKTA> -> RRA only when SOME cluster of
    # the buffer has a mark (`all_simple`, ot_shape_normalize.rs, same in HarfBuzz), so their glyphs depend on distant text
    # (finding normalizer-all-simple)
    own = ent["cps"] if composites else [c for c in ent["cps"] if not _composite(c)]
    ro = roles(own)
    cons = _pick(r, ro["cons"], 2) + ro["ra"][:1]
    hal = ro["halant"][:2]
    chars = []
    for c in (cons + hal + ro["nukta"][:1] + _pick(r, ro["matra"], r.range(3, 4)) + _pick(r, ro["othermarks"], r.range(2, 3))
              + _pick(r, ro["indep"], 1) + _pick(r, ro["digits"], 1) + _pick(r, own, 2)):
        if c not in chars:
            chars.append(c)
    script_chars = list(chars)
    chars += [DOTTED, SPACE, NBSP] + ([ZWJ, ZWNJ] if r.chance(1, 2) else [])
    cmap = {cp: i + 1 for i, cp in enumerate(chars)}
    nt = r.range(4, 6)
    n = 1 + len(chars) + nt
    targets = list(range(1 + len(chars), n))
    dc = cmap[DOTTED]
    markg = [cmap[c] for c in script_chars if _cat(c) in ("Mn", "Mc", "Me") or not ro["known"]]
    small = [dc] * 3 + markg + [cmap[c] for c in cons]
    allg = [cmap[c] for c in script_chars] + [dc]
    feats_all = [t for t in shaper_features(ent_shaper(ent, tag)) if topographical or t not in TOPOGRAPHICAL]
    nonmark = [g for g in allg if g not in markg] or [dc]
    lookups, feats = [], []
    for li in range(r.range(2, 5)):
        k = r.below(6)
        if k == 0 or li == 0:
            cov = [dc]
        elif k < 4:
            cov = sorted(set(r.choice(small) for _ in range(r.range(1, 3))))
        else:
            cov = sorted(set([dc] + [r.choice(allg) for _ in range(r.range(1, 2))]))
        if r.chance(1, 4):
            if not mark_first_ligatures:
                # a ligature whose FIRST glyph is a mark can join a reordered (pre-base) mark with the base it was moved in front
                # of: merge_clusters renames the first component and so drops its UNSAFE_TO_BREAK (finding reordered-ligature)
                cov = sorted(set(g for g in cov if g not in markg) or {r.choice(nonmark)})
            sets = [[{"components": [r.choice(allg) for _ in range(r.choice([1, 1, 2]))], "glyph": r.choice(targets)}
                     for _ in range(r.range(1, 2))] for _ in cov]
            lookups.append({"type": 4, "flag": 0, "subtables": [{"coverage": cov, "ligsets": sets}]})
        else:
            lookups.append({"type": 1, "flag": 0, "subtables": [{"format": 2, "coverage": cov,
                                                                 "subst": [r.choice(targets + small) for _ in cov]}]})
        feats.append({"tag": r.choice(feats_all), "lookups": [li]})
    adv = [500] + [(0 if _cat(c) in ("Mn", "Me") else 400 + 13 * i) for i, c in enumerate(chars)] + [700 + 17 * i for i in range(nt)]
    rec = {"num_glyphs": n, "cmap": cmap, "advances": adv,
           "gsub": {"scripts": [{"tag": tag, "default": {"required": None, "features": list(range(len(feats)))}, "langs": []}],
                    "features": feats, "lookups": lookups}}
    return rec, ro, script_chars


def ent_shaper(ent, tag):
    return dict(ent["variants"]).get(tag)


def feature_groups(shim, r, count, prefix="Y", topographical=False, mark_first_ligatures=False, composites=False):
    """topographical / mark_first_ligatures: 1 font in 3 (of the USE fonts / of all fonts) may then carry isol / init / medi / fina
    features resp. ligatures that start with a mark — both lead to documented upstream behaviour (see known_class)"""
    """font groups (the dicts flagslib.Shaping wants): the shaper kinds take turns (indic old spec / indic new spec / khmer / myanmar /
    use incl. the Indic '3' tags); within a kind the scripts are drawn at random"""
    table = shaper_table(shim)
    kinds = {"indic-old": [], "indic-new": [], "khmer": [], "myanmar": [], "use": []}
    for ent in table:
        for tag, nm in ent["variants"]:
            if tag is None: continue
            k = nm if nm != "indic" else ("indic-new" if tag.endswith("2") else "indic-old")
            kinds[k].append((ent, tag))
    order = [k for k in ("khmer", "indic-new", "use", "myanmar", "indic-old", "use") if kinds[k]]
    groups = []
    tries = 0
    while len(groups) < count and tries < 4 * count:
        tries += 1
        kind = order[len(groups) % len(order)]
        ent, tag = r.choice(kinds[kind])
        topo = topographical and kind == "use" and r.chance(1, 3)
        mfl = mark_first_ligatures and r.chance(1, 3)
        rec, ro, chars = feature_recipe(r, ent, tag, topo, mfl, composites)
        try:
            hx = fontbuild.hexfont(rec)
        except fontbuild.FontBuildError:
            continue
        fid = f"{prefix}{len(groups)}"
        c = SynthCase()
        c.name, c.font, c.index, c.text = fid, f"synthetic:{fid}", 0, ""
        c.dir, c.script, c.lang, c.flags, c.level, c.feats = None, ent["iso"], None, 0, 0, []
        c.pre, c.post, c.extra, c.opts = "", "", [], ""
        inv = {g: cp for cp, g in rec["cmap"].items()}
        groups.append({"fid": fid, "reg": f"font {fid} {hx}", "cases": [c], "alphabet": [chr(x) for x in chars], "aat": False,
                       "synthetic": True, "profile": f"syllabic:{kind}:{ent['iso']}/{tag.strip()}", "recipe": rec, "roles": ro,
                       "chars": chars, "kind": kind, "iso": ent["iso"], "has_joiners": ZWJ in rec["cmap"],
                       "topographical": topo and any(f["tag"] in TOPOGRAPHICAL for f in rec["gsub"]["features"]),
                       "mark_first_ligature": mfl and any(lk["type"] == 4 for lk in rec["gsub"]["lookups"]),
                       "composites": any(_composite(x) for x in chars)})
    return groups


def syllable_text(r, g):
    """2-5 chunks: a well-formed syllable (C, C M, C N M, C H C, RA H C, C H ZWJ, C marks), a BROKEN cluster (dependent vowel / virama /
    coeng / nukta / other mark without a base, virama + consonant), a typed dotted circle (alone or carrying marks), a space, NBSP +
    mark, an independent vowel / digit; all drawn from the font's own small alphabet"""
    ro, chars = g["roles"], g["chars"]
    have = lambda xs: [c for c in xs if c in chars]
    cons = have(ro["cons"]) or chars[:1]
    hal, nuk = have(ro["halant"]), have(ro["nukta"])
    marks = [c for c in chars if _cat(c) in ("Mn", "Mc", "Me")] or chars[-2:]
    matra = have(ro["matra"]) or marks
    other = have(ro["indep"]) + have(ro["digits"]) or cons
    J = [ZWJ, ZWNJ] if g["has_joiners"] else []
    t = []
    for _ in range(r.range(2, 5)):
        k = r.below(16)
        C = r.choice(cons)
        if k == 0: t += [C]
        elif k == 1: t += [C, r.choice(matra)]
        elif k == 2: t += [C] + (nuk[:1] if nuk else []) + [r.choice(marks)]
        elif k == 3 and hal: t += [C, r.choice(hal), r.choice(cons)]
        elif k == 4 and hal: t += [cons[-1], hal[0], C] + ([r.choice(matra)] if r.chance(1, 2) else [])
        elif k == 5 and hal: t += [C, r.choice(hal)] + ([r.choice(J)] if J and r.chance(1, 2) else [])
        elif k == 6: t += [C, r.choice(marks), r.choice(marks)]
        elif k in (7, 8): t += [r.choice(marks)] + ([r.choice(marks)] if r.chance(1, 3) else [])          # broken
        elif k == 9 and hal: t += [r.choice(hal)] + ([C] if r.chance(1, 2) else [])                         # broken
        elif k in (10, 11): t += [DOTTED] + ([r.choice(marks)] if r.chance(2, 3) else [])
        elif k == 12: t += [SPACE]
        elif k == 13: t += [NBSP, r.choice(marks)]
        elif k == 14: t += [r.choice(other)]
        else: t += [r.choice(chars)]
    return t[:14]


def make_shaping(r, g, flags, dnidc=0x10):
    """a flagslib.Shaping over syllable_text: the script's own direction 7 times in 10 (else l / r / t / b: the forced ones fall into
    the documented class `reversed`), levels 0 / 1, strictly increasing cluster numbers (sometimes with gaps), BOT / EOT mostly on,
    DO_NOT_INSERT_DOTTED_CIRCLE 1 time in 8"""
    import flagslib as F
    s = F.Shaping()
    s.g = g
    s.case = g["cases"][0]
    s.text = "".join(chr(c) for c in syllable_text(r, g))
    s.clusters = F.rand_clusters(r, len(s.text), False)
    s.req_dir = r.choice([None] * 7 + ["l", "r", "t", "b"])
    s.dir = s.req_dir
    s.script = s.case.script
    s.flags = flags | r.choice([0, 3, 3, 3]) | (dnidc if r.chance(1, 8) else 0)
    s.level = r.choice((0, 1))
    s.extra = []
    s.pre, s.post = "", ""
    s.subset = None
    s.line = None
    return s


KNOWN_CLASSES = {
    "normalizer-all-simple": "ot_shape_normalize.rs (same in HarfBuzz hb-ot-shape-normalize.cc): the recomposition round runs only when some "
                             "cluster of the buffer contains a mark (`all_simple`); under the shapers that decompose first (Indic, USE: "
                             "COMPOSED_DIACRITICS_NO_SHORT_CIRCUIT) a precomposed letter such as U+0931 comes out as <0930,093C> when the "
                             "piece has no mark and as 0931 when a mark stands anywhere else in the text",
    "use-topographical": "Universal shaper, scripts without Arabic joining: setup_topographical_masks (ot_shaper_use.rs, same in HarfBuzz "
                         "hb-ot-shaper-use.cc) gives a syllable the isol / init / medi / fina mask according to whether the syllables "
                         "before and after it join, and flags nothing: in a font with such features every unflagged cluster start "
                         "between two adjacent syllables is unsafe",
    "reordered-ligature": "a ligature whose first component was reordered in front of a glyph with a smaller cluster value (pre-base "
                          "vowel sign + base): ligate_input -> merge_clusters renames the first component, set_cluster(.., mask 0) drops "
                          "its UNSAFE_TO_BREAK and the ligature glyph inherits the cleared mask (buffer.rs, same in HarfBuzz): the "
                          "cluster start inside the syllable comes out unflagged",
}


def known_class(s, kind="break", o=None):
    """decided from the recipe / request alone (over-approximation, as for the other synthetic streams); the two font traits exist only
    in fonts generated with the corresponding switch"""
    import flagslib as F
    if F.shaped_reversed(s): return "reversed"
    if s.g.get("topographical"): return "use-topographical"
    if s.g.get("mark_first_ligature"): return "reordered-ligature"
    if s.g.get("composites") and any(_composite(ord(c)) for c in s.text): return "normalizer-all-simple"
    return None


def registered(ctx, cls):
    """is the finding class registered in known_findings.json?  The streams generate the fonts that lead to it only then"""
    return any((k.get("signature") or {}).get("class") == cls and k.get("status") == "known" for k in ctx.kf)


RULE = ("generated fonts, one per (script, GSUB script tag) the crate sends to the Indic (old / new spec), Khmer, Myanmar or Universal "
        "shaper (dispatch read from the crate; the kinds take turns), over a small alphabet of the script (2-3 consonants incl. RA, viramas / "
        "coengs, nukta, dependent vowels, other marks, U+25CC, space, NBSP, joiners) with 2-5 SingleSubst / LigatureSubst lookups whose "
        "coverages are small subsets of {dotted circle, marks, consonants} under features of the shaper's own list (read from its "
        "source: before and after the reordering pauses) x texts of well-formed syllables, BROKEN clusters (vowel sign / virama / mark "
        "without base), typed U+25CC, spaces x the script's own direction (7 in 10) or l / r / t / b x levels 0/1 x cluster numbering "
        "with gaps x DO_NOT_INSERT_DOTTED_CIRCLE 1 in 8; ")
