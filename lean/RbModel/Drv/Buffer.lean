import RbModel.Buf
import RbModel.Drv.Util

namespace RbModel.Drv.Buffer
open RbModel RbModel.Drv

def cmds : List String := ["buf", "buft", "bufconst"]

def parseInfo (s : String) : Option Info :=
  match (splitOn1 s ':').mapM String.toNat? with
  | some [g, m, c, v1, v2] => some { gid := g, mask := m, cluster := c, var1 := v1, var2 := v2 }
  | _ => none

def parseInfos (s : String) : Option (List Info) :=
  if s == "-" then some [] else (splitOn1 s ',').mapM parseInfo

def fmtInfos (l : List Info) : String :=
  if l.isEmpty then "-" else
  ",".intercalate (l.map fun x => s!"{x.gid}:{x.mask}:{x.cluster}:{x.var1}:{x.var2}")

def parseInt (s : String) : Option Int :=
  if s.startsWith "-" then (s.drop 1).toString.toNat?.map (fun n => -(n : Int)) else s.toNat?.map (fun n => (n : Int))

def parseKV (b : Buf) (t : String) : Option Buf :=
  match splitOn1 t '=' with
  | [k, v] =>
    match k with
    | "L" => v.toNat?.map fun n => { b with level := n }
    | "F" => v.toNat?.map fun n => { b with flags := n }
    | "M" => v.toNat?.map fun n => { b with maxLen := n }
    | "O" => (parseInt v).map fun n => { b with maxOps := n }
    | "h" => some { b with haveOutput := v == "1" }
    | "s" => some { b with sepOut := v == "1" }
    | "p" => some { b with havePos := v == "1" }
    | "ok" => some { b with successful := v == "1" }
    | "i" => v.toNat?.map fun n => { b with idx := n }
    | "n" => v.toNat?.map fun n => { b with len := n }
    | "o" => v.toNat?.map fun n => { b with outLen := n }
    | "sc" => v.toNat?.map fun n => { b with scratch := n }
    | "se" => v.toNat?.map fun n => { b with serial := n }
    | "I" => (parseInfos v).map fun l => { b with info := l }
    | "U" => (parseInfos v).map fun l => { b with out := l }
    | _ => none
  | _ => none

def fmtState (b : Buf) : String :=
  s!"L={b.level} F={b.flags} M={b.maxLen} O={b.maxOps} h={b2s b.haveOutput} s={b2s b.sepOut} p={b2s b.havePos} ok={b2s b.successful} i={b.idx} n={b.len} o={b.outLen} sc={b.scratch} se={b.serial} I={fmtInfos b.info} U={fmtInfos b.out}"

/-- one primitive; returns the new buffer and the integer the hook reports (bool results as 0/1, else 1) -/
def runOp (b : Buf) (op : List String) : Option (M (Buf × Nat)) :=
  match op with
  | ["outi", x] => (parseInfo x).map fun x => do let b ← b.outputInfo x; pure (b, 1)
  | name :: args =>
    match args.mapM String.toNat? with
    | none => none
    | some a =>
      let u (i : Nat) : Nat := a.getD i 0
      let opt (i : Nat) : Option Nat := a[i]?
      let unit (m : M Buf) : Option (M (Buf × Nat)) := some (do let b ← m; pure (b, 1))
      let bool (m : M (Buf × Bool)) : Option (M (Buf × Nat)) :=
        some (do let (b, r) ← m; pure (b, if r then 1 else 0))
      match name with
      | "next" => unit b.nextGlyph
      | "nexts" => unit (b.nextGlyphs (u 0))
      | "skip" => unit (pure b.skipGlyph)
      | "copy" => unit b.copyGlyph
      | "repl" => unit (b.replaceGlyph (u 0))
      | "repls" => unit (b.replaceGlyphs (u 0) (a.drop 1))
      | "outg" => unit (b.outputGlyph (u 0))
      | "del" => unit b.deleteGlyph
      | "merge" => unit (b.mergeClusters (u 0) (u 1))
      | "mergeout" => unit (b.mergeOutClusters (u 0) (u 1))
      | "moveto" => bool (b.moveTo (u 0))
      | "sync" => bool b.sync
      | "clearout" => unit (pure b.clearOutput)
      | "utb" => unit (b.unsafeToBreak (u 0) (opt 1))
      | "utbo" => unit (b.unsafeToBreakFromOut (u 0) (opt 1))
      | "utc" => unit (b.unsafeToConcat (u 0) (opt 1))
      | "utco" => unit (b.unsafeToConcatFromOut (u 0) (opt 1))
      | "tatweel" => unit (b.safeToInsertTatweel (u 0) (opt 1))
      | "rev" => unit b.reverse
      | "revr" => unit (b.reverseRange (u 0) (u 1))
      | "revg" => unit (b.reverseGroups (u 0 != 0))
      | "sort" => unit (b.sort (u 0) (u 1))
      | "delin" => unit b.deleteGlyphsInplace
      | "setmasks" => unit (b.setMasks (u 0) (u 1) (u 2) (u 3))
      | "resetmasks" => unit (b.resetMasks (u 0))
      | "ensure" => bool (pure (b.ensure (u 0)))
      | "room" => bool (b.makeRoomFor (u 0) (u 1))
      | "shiftfwd" => unit (do let (b, _) ← b.shiftForward (u 0); pure b)
      | "enter" => unit (pure b.enter)
      | "leave" => unit (pure b.leave)
      | "clear" => unit (pure b.clear)
      | "add" => unit (b.add (u 0) (u 1))
      | _ => none
  | [] => none

/-- split a token list at ";" -/
def splitSemi (ts : List String) : List (List String) :=
  let rec go (acc : List String) (out : List (List String)) : List String → List (List String)
    | [] => (acc.reverse :: out).reverse
    | ";" :: rest => go [] (acc.reverse :: out) rest
    | t :: rest => go (t :: acc) out rest
  go [] [] ts

def panicName : Panic → String
  | .oob => "oob"
  | .assert => "assert"

def handle (ts : List String) : Option String :=
  match ts with
  | ["bufconst"] => some s!"{Gen.Buf.produceUnsafeToConcat} {Gen.Buf.produceSafeToInsertTatweel}"
  | cmd :: rest =>
    if cmd != "buf" && cmd != "buft" then none else
    match splitSemi rest with
    | [] => none
    | st :: ops => do
      let b ← st.foldlM parseKV ({} : Buf)
      let ops := ops.filter (· ≠ [])
      let rec run (b : Buf) (rets : List Nat) (states : List String) :
          List (List String) → Option (Except Panic (Buf × List Nat × List String))
        | [] => some (.ok (b, rets.reverse, states.reverse))
        | op :: more =>
          match runOp b op with
          | none => none
          | some (.error e) => some (.error e)
          | some (.ok (b, r)) => run b (r :: rets) (fmtState b :: states) more
      match ← run b [] [] ops with
      | .error e => pure s!"panic {panicName e}"
      | .ok (b, rets, states) =>
        let r := ",".intercalate (rets.map toString)
        if cmd == "buft" then pure s!"ok r={r} {" | ".intercalate states}"
        else pure s!"ok r={r} {fmtState b}"
  | _ => none

end RbModel.Drv.Buffer
