import RbModel.Arabic
import RbModel.Spec.Joining
import RbModel.Gen.Arabic
import RbModel.Drv.Util

/-! line-protocol driver of the Arabic joining model (same requests as harness/src/ops/arabic.rs) -/
namespace RbModel.Drv.Arabic
open RbModel.Arabic RbModel.Drv

def tbl := RbModel.Gen.Arabic.stateTable
def ctxLen := RbModel.Gen.Arabic.contextLength

/-- split a token list at the "/" separators -/
def splitSlash (ts : List String) : List (List String) :=
  let r := ts.foldl (fun (acc : List (List String) × List String) t =>
    if t == "/" then (acc.2.reverse :: acc.1, []) else (acc.1, t :: acc.2)) ([], [])
  (r.2.reverse :: r.1).reverse

/-- `cp:gc` -> (cp, resolved joining type) -/
def cpGc (t : String) : Option (Nat × JoiningType) :=
  match splitOn1 t ':' with
  | [c, g] => do
    let c ← c.toNat?; let g ← g.toNat?
    pure (c, getJoiningType (rawJoiningType RbModel.Gen.Arabic.joiningRanges c) g)
  | _ => none

def cpGcMask (t : String) : Option Item :=
  match splitOn1 t ':' with
  | [c, g, m] => do
    let c ← c.toNat?; let g ← g.toNat?; let m ← m.toNat?
    pure ⟨c, getJoiningType (rawJoiningType RbModel.Gen.Arabic.joiningRanges c) g, m⟩
  | _ => none

def showRes (r : Except Panic (List Nat)) : String :=
  match r with
  | .ok l => if l.isEmpty then "ok" else "ok " ++ joinNats l
  | .error _ => "panic index"

/-- class letters of the `cls` request: U L R D C T A(laph) S(= Dalath/Rish) -/
def clsWord (w : String) : Option (List RbModel.Spec.Joining.JT) :=
  if w == "-" then some [] else
  w.toList.mapM (fun c => match c with
    | 'U' => some .U | 'L' => some .L | 'R' => some .R | 'D' => some .D | 'C' => some .C
    | 'T' => some .T | 'A' => some .Alaph | 'S' => some .DalathRish | _ => none)

/-- the action number of a spec form (same numbering as `ARABIC_FEATURES`, `NONE` last) -/
def formNum : RbModel.Spec.Joining.Form → Nat
  | .isol => ISOL | .fina => FINA | .fin2 => FIN2 | .fin3 => FIN3
  | .medi => MEDI | .med2 => MED2 | .init => INIT | .none => NONE

def cmds : List String := ["arabic"]

def handle (ts : List String) : Option String :=
  match ts.drop 1 with
  | ["table"] =>
      let cols := (tbl.head?.map List.length).getD 0
      let es := tbl.flatten.map (fun e => s!"{e.1}:{e.2.1}:{e.2.2}")
      some (" ".intercalate (toString tbl.length :: toString cols :: es))
  | ["consts"] =>
      some ("actions " ++ joinNats [ISOL, FINA, FIN2, FIN3, MEDI, MED2, INIT, NONE]
        ++ " | jtypes " ++ joinNats (JoiningType.all.map JoiningType.toNat)
        ++ " | feats " ++ " ".intercalate RbModel.Gen.Arabic.features)
  | ["tgcs"] => some (joinNats ((List.range 30).filter isTransparentGc))
  | ["fvs"] => some (joinNats ((List.range 0x110000).filter isMongolianFvs))
  | ["resolve", c, g] => do
      let c ← c.toNat?; let g ← g.toNat?
      pure (toString (getJoiningType (rawJoiningType RbModel.Gen.Arabic.joiningRanges c) g).toNat)
  | "ctx" :: rest =>
      match splitSlash rest with
      | [a, b] => do
        let a ← nats a; let b ← nats b
        pure (joinNats (setPreContext ctxLen a) ++ " / " ++ joinNats (setPostContext ctxLen b))
      | _ => none
  | "join" :: rest =>
      match splitSlash rest with
      | [a, b, c] => do
        let a ← a.mapM cpGc; let b ← b.mapM cpGc; let c ← c.mapM cpGc
        pure (showRes (joinWithContext tbl ctxLen (a.map (·.2)) (b.map (·.2)) (c.map (·.2))))
      | _ => none
  | "joinraw" :: pl :: ql :: rest =>
      match splitSlash rest with
      | [a, b, c] => do
        let pl ← pl.toNat?; let ql ← ql.toNat?
        let a ← a.mapM cpGc; let b ← b.mapM cpGc; let c ← c.mapM cpGc
        -- the arrays have `ctxLen` slots: missing slots are NUL (joining type U), lengths are capped
        let nul := getJoiningType (rawJoiningType RbModel.Gen.Arabic.joiningRanges 0) 0
        let pad := fun (l : List JoiningType) => (l ++ List.replicate (ctxLen - l.length) nul).take ctxLen
        pure (showRes (arabicJoiningRaw tbl (pad (a.map (·.2))) (min pl ctxLen) (b.map (·.2))
          (pad (c.map (·.2))) (min ql ctxLen)))
      | _ => none
  | "ctxseq" :: rest => do
      let calls ← rest.mapM (fun t => match splitOn1 t ':' with
        | [k, cps] => do
          let l ← if cps.isEmpty then some [] else (cps.splitOn ",").mapM String.toNat?
          match k with
          | "p" => some (CtxCall.pre l) | "q" => some (CtxCall.post l) | "a" => some (CtxCall.add l) | _ => none
        | _ => none)
      let st := (CtxState.fresh ctxLen 0).calls calls
      pure (s!"{st.preLen} {st.postLen} / " ++ joinNats st.pre ++ " / " ++ joinNats st.post)
  | "masks" :: mong :: rest =>
      match splitSlash rest with
      | [ma, a, b, c] => do
        let ma ← nats ma
        if ma.length ≠ 8 then none
        let a ← a.mapM cpGc; let b ← b.mapM cpGcMask; let c ← c.mapM cpGc
        match setupMasks tbl ma (mong == "1") (setPreContext ctxLen (a.map (·.2))) b
            (setPostContext ctxLen (c.map (·.2))) with
        | .ok l => pure (if l.isEmpty then "ok" else "ok " ++ " ".intercalate (l.map (fun x => s!"{x.1}:{x.2}")))
        | .error _ => pure "panic index"
      | _ => none
  | ["cls", _, a, b, c] => do
      -- the SPEC as an oracle: forms of the classes, contexts kept as the API keeps them
      let a ← clsWord a; let b ← clsWord b; let c ← clsWord c
      let a := (setPreContext ctxLen a).reverse
      let c := setPostContext ctxLen c
      pure (showRes (.ok ((RbModel.Spec.Joining.forms a b c).map formNum)))
  | "mong" :: rest => do
      let items ← rest.mapM (fun t => match splitOn1 t ':' with
        | [c, a] => do let c ← c.toNat?; let a ← a.toNat?; pure (c, a)
        | _ => none)
      pure (showRes (.ok (mongolianCopy items)))
  | _ => none

end RbModel.Drv.Arabic
