/- shared helpers for the line-protocol driver (no imports beyond core) -/
namespace RbModel.Drv

def nats (ts : List String) : Option (List Nat) := ts.mapM String.toNat?

def splitOn1 (s : String) (c : Char) : List String := s.split (· == c) |>.toList.map (·.toString)

def joinNats (xs : List Nat) (sep : String := " ") : String :=
  sep.intercalate (xs.map toString)

def b2s (b : Bool) : String := if b then "1" else "0"

end RbModel.Drv
