import RbModel.GposFlag
import RbModel.Drv.Gpos
import RbModel.Drv.Util

/-! line-protocol driver for the PairPos flag model (same requests as harness/src/ops/gposflag.rs) -/
namespace RbModel.Drv.GposFlag
open RbModel RbModel.Gpos RbModel.GposFlag RbModel.Drv RbModel.Drv.Gpos

def cmds : List String := ["gpf"]

def panicStr : Panic → String
  | .oob => "panic oob" | .assert => "panic assert"

/-- gid:glyph_props:lig_props:cluster:mask -/
def parseInfo (t : String) : Option Info :=
  match nats (splitOn1 t ':') with
  | some [g, _, _, cl, m] => some { gid := g, mask := m, cluster := cl }
  | _ => none

/-- `nc` | `ns unsafe_to` | `nr j` | `rec j ux uy <8 tokens> <8 tokens>` -> (found, useX, useY) -/
def parseFound : List String → Option (PairFound × Bool × Bool)
  | ["nc"] => some (.notCovered, false, false)
  | ["ns", u] => do pure (.noSecond (← u.toNat?), false, false)
  | ["nr", j] => do pure (.noRecord (← j.toNat?), false, false)
  | "rec" :: j :: ux :: uy :: rest => do
      if rest.length ≠ 16 then none else
      let v1 ← parseVRD (rest.take 8)
      let v2 ← parseVRD (rest.drop 8)
      pure (.records (← j.toNat?) v1 v2, ux = "1", uy = "1")
  | _ => none

def handle (ts : List String) : Option String :=
  match ts with
  | "gpf" :: "val" :: _px :: _py :: _hex :: _first :: _second :: d :: rest => do
      let d ← parseDir d
      let (m, ps) := splitBar rest
      match m, ps with
      | ux :: uy :: vt, [p1, p2] =>
        if vt.length ≠ 17 then none else
        let v1 ← parseVRD (vt.take 8)
        let v2 ← parseVRD ((vt.drop 8).take 8)
        let q1 ← parsePos p1; let q2 ← parsePos p2
        if vt.drop 16 = ["0"] then pure "norecord" else
        let r1 := valueApplyToPosD v1 (ux = "1") (uy = "1") d q1
        let r2 := valueApplyToPosD v2 (ux = "1") (uy = "1") d q2
        pure s!"ok {fmtPos r1.1} {b2s r1.2} {fmtPos r2.1} {b2s r2.2}"
      | _, _ => none
  | "gpf" :: "pair" :: _px :: _py :: _hex :: _props :: d :: bflags :: level :: idx :: infos :: rest => do
      let d ← parseDir d; let bflags ← bflags.toNat?; let level ← level.toNat?; let idx ← idx.toNat?
      let infos ← (splitOn1 infos ',').mapM parseInfo
      let (m, ps) := splitBar rest
      let p ← parsePoss ps
      let (found, ux, uy) ← parseFound m
      let b : Buf := { info := infos, len := infos.length, idx := idx, level := level, flags := bflags, havePos := true }
      match pairPosApply b p found ux uy d with
      | .ok (b', q, applied) =>
        pure s!"ok {b2s applied} {b'.idx} {b'.scratch} {joinNats (b'.info.map (·.mask)) ","} {fmtPoss q}"
      | .error e => pure (panicStr e)
  | _ => none

end RbModel.Drv.GposFlag
