import RbModel.Stch
import RbModel.Drv.Util

namespace RbModel.Drv.Stch
open RbModel RbModel.Drv

def cmds : List String := ["stch"]

def parseInt (s : String) : Option Int :=
  if s.startsWith "-" then (s.drop 1).toNat?.map (fun n => -(n : Int)) else s.toNat?.map (fun n => (n : Int))

/-- item = gid:cluster:mask:act:kind:adv:width -/
def parseItem (s : String) : Option RbModel.Stch.G :=
  match splitOn1 s ':' with
  | [g, c, m, a, k, adv, w] => do
      let g ← g.toNat?; let c ← c.toNat?; let m ← m.toNat?; let a ← a.toNat?; let k ← k.toNat?
      let adv ← parseInt adv; let w ← parseInt w
      pure { gid := g, cluster := c, mask := m, act := a, word := k != 0, adv := adv, width := w }
  | _ => none

def fmt (g : RbModel.Stch.G) : String := s!"{g.gid}:{g.cluster}:{g.mask}:{g.adv}:{g.xoff}"

def panicName : Panic → String
  | .oob => "oob"
  | .assert => "assert"

def handle (ts : List String) : Option String :=
  match ts with
  | "stch" :: _font :: rtl :: level :: items => do
      let level ← level.toNat?
      let l ← items.mapM parseItem
      match RbModel.Stch.applyStch (rtl == "1") level l with
      | .ok r => pure (" ".intercalate ("ok" :: r.map fmt))
      | .error e => pure s!"panic {panicName e}"
  | _ => none

end RbModel.Drv.Stch
