import RbModel.PairFlag
import RbModel.Drv.Gpos
import RbModel.Drv.Util

/-! line-protocol driver for pair kerning / pair positioning with flags (same requests as harness/src/ops/pairflag.rs) -/
namespace RbModel.Drv.PairFlag
open RbModel RbModel.Gpos RbModel.GposFlag RbModel.PairFlag RbModel.Drv RbModel.Drv.Gpos

def cmds : List String := ["pf"]

def panicStr : Panic → String
  | .oob => "panic oob" | .assert => "panic assert"

/-- gid:mask:glyph_props:unicode_props:cluster -/
def parseInfoK (t : String) : Option Info :=
  match nats (splitOn1 t ':') with
  | some [g, m, gp, up, cl] => some { gid := g, mask := m, cluster := cl, var1 := gp, var2 := up }
  | _ => none

def parseInfosK (t : String) : Option (List Info) :=
  if t = "-" then some [] else (splitOn1 t ',').mapM parseInfoK

/-- gid:glyph_props:lig_props:cluster:mask (the infos of `gpf pair`) -/
def parseInfoP (t : String) : Option Info :=
  match nats (splitOn1 t ':') with
  | some [g, gp, lp, cl, m] => some { gid := g, mask := m, cluster := cl, var1 := gp + lp * 65536 }
  | _ => none

def fmtMasks (l : List Info) : String := if l.isEmpty then "-" else joinNats (l.map (·.mask)) ","

def replyK : RbModel.M (Buf × Array Pos × Bool) → String
  | .ok (b, q, has) => s!"ok {b2s has} {b.scratch} {fmtMasks b.info} {fmtPoss q}"
  | .error e => panicStr e

/-- `-` or `;`-separated `secondgid=t/t/…` (16 tokens: the two value records) -/
def parseRecs (t : String) : Option (List (Nat × ValueRecordD × ValueRecordD)) :=
  if t = "-" then some [] else
  (splitOn1 t ';').mapM fun e =>
    match splitOn1 e '=' with
    | [g, ts] => do
        let ts := splitOn1 ts '/'
        if ts.length ≠ 16 then none else
        pure ((← g.toNat?), (← parseVRD (ts.take 8)), (← parseVRD (ts.drop 8)))
    | _ => none

def handle (ts : List String) : Option String :=
  match ts with
  | "pf" :: "mk" :: d :: len :: mask :: cross :: bflags :: level :: pairs :: infos :: rest => do
      let d ← parseDir d; let len ← len.toNat?; let mask ← mask.toNat?; let tr ← parseTriples pairs
      let bflags ← bflags.toNat?; let level ← level.toNat?
      let infos ← parseInfosK infos
      let p ← parsePoss (splitBar rest).2
      let b : Buf := { info := infos, len := len, level := level, flags := bflags, havePos := true }
      pure (replyK (machineKernF {} b p mask d (cross = "1") (kernOfTriples tr)))
  | "pf" :: "kx" :: _hex :: _n :: d :: _feat :: mask :: cross :: bflags :: level :: pairs :: infos :: rest => do
      let d ← parseDir d; let mask ← mask.toNat?; let tr ← parseTriples pairs
      let bflags ← bflags.toNat?; let level ← level.toNat?
      let infos ← parseInfosK infos
      let p ← parsePoss (splitBar rest).2
      let b : Buf := { info := infos, len := infos.length, level := level, flags := bflags, havePos := true }
      pure (replyK (kerxSimpleF false {} b p mask d (cross = "1") (kernOfTriples tr)))
  | "pf" :: "pair" :: _px :: _py :: _hex :: props :: d :: bflags :: level :: idx :: infos :: rest => do
      let d ← parseDir d; let bflags ← bflags.toNat?; let level ← level.toNat?; let idx ← idx.toNat?
      let props ← props.toNat?
      let infos ← (splitOn1 infos ',').mapM parseInfoP
      let (m, ps) := splitBar rest
      let p ← parsePoss ps
      match m with
      | [ux, uy, cov, hs, recs] =>
        let recs ← parseRecs recs
        let first := ((infos[idx]?).map (·.gid % 65536)).getD 0
        let pd : PairData :=
          { covered := fun g => g = first && cov = "1"
            hasSet := fun g => g = first && hs = "1"
            records := fun g s => if g = first then (recs.find? (·.1 = s)).map (·.2) else none }
        let b : Buf := { info := infos, len := infos.length, idx := idx, level := level, flags := bflags, havePos := true }
        let c : Gsub.Ctx := { buf := b, font := {}, isGpos := true, lookupMask := 0x100, lookupProps := props }
        match pairPosApplyIt c p pd (ux = "1") (uy = "1") d with
        | .ok (b', q, applied) =>
          pure s!"ok {b2s applied} {b'.idx} {b'.scratch} {joinNats (b'.info.map (·.mask)) ","} {fmtPoss q}"
        | .error e => pure (panicStr e)
      | _ => none
  | _ => none

end RbModel.Drv.PairFlag
