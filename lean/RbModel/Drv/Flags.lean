import RbModel.Flags
import RbModel.Gen.Flags
import RbModel.Drv.Util
import RbModel.Drv.Buffer

namespace RbModel.Drv.Flags
open RbModel RbModel.Drv

def cmds : List String := ["flagconst", "flagw", "flagwt"]

def constLine : String :=
  let gf := [("UNSAFE_TO_BREAK", Gen.Flags.glyphUnsafeToBreak), ("UNSAFE_TO_CONCAT", Gen.Flags.glyphUnsafeToConcat),
             ("SAFE_TO_INSERT_TATWEEL", Gen.Flags.glyphSafeToInsertTatweel), ("DEFINED", Gen.Flags.glyphDefined),
             ("SCRATCH_HAS_GLYPH_FLAGS", Gen.Flags.scratchHasGlyphFlags)]
  let f (p : String × Nat) : String := s!"{p.1}={p.2}"
  "gf " ++ " ".intercalate (gf.map f) ++ " bf " ++ " ".intercalate (Gen.Flags.bufferFlags.map f)
    ++ s!" DEFINED={Gen.Flags.bufferFlagsDefined}"

/-- `propagate` is ot_shape.rs::propagate_flags; every other op is a buffer primitive (Drv/Buffer.lean) -/
def runOp (b : Buf) (op : List String) : Option (M (Buf × Nat)) :=
  match op with
  | ["propagate"] => some (do let b ← RbModel.Flags.propagateFlags b; pure (b, 1))
  | "outi" :: _ => none
  | _ => RbModel.Drv.Buffer.runOp b op

def handle (ts : List String) : Option String :=
  match ts with
  | ["flagconst"] => some constLine
  | cmd :: rest =>
    if cmd != "flagw" && cmd != "flagwt" then none else
    match RbModel.Drv.Buffer.splitSemi rest with
    | [] => none
    | st :: ops => do
      let b ← st.foldlM RbModel.Drv.Buffer.parseKV ({} : Buf)
      let ops := ops.filter (· ≠ [])
      let rec run (b : Buf) (rets : List Nat) (states : List String) :
          List (List String) → Option (Except Panic (Buf × List Nat × List String))
        | [] => some (.ok (b, rets.reverse, states.reverse))
        | op :: more =>
          match runOp b op with
          | none => none
          | some (.error e) => some (.error e)
          | some (.ok (b, r)) => run b (r :: rets) (RbModel.Drv.Buffer.fmtState b :: states) more
      match ← run b [] [] ops with
      | .error e => pure s!"panic {RbModel.Drv.Buffer.panicName e}"
      | .ok (b, rets, states) =>
        let r := ",".intercalate (rets.map toString)
        if cmd == "flagwt" then pure s!"ok r={r} {" | ".intercalate states}"
        else pure s!"ok r={r} {RbModel.Drv.Buffer.fmtState b}"
  | _ => none

end RbModel.Drv.Flags
