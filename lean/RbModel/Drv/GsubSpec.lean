import RbModel.Spec.OpenTypeSubst
import RbModel.Drv.Gsub

namespace RbModel.Drv.GsubSpec
open RbModel RbModel.Gsub RbModel.Drv RbModel.Spec.Subst

def cmds : List String := ["gsubspec"]

/-- gsubspec <fontid> <dir> <script> <lang> <feats> <substart> FONT <nums> MAPS <nums> BUF <kv…>
    → ok <n> gid:cluster,…   — the OpenType substitution model on the plain glyph list -/
def handle (ts : List String) : Option String := do
  let (_, rest) ← Gsub.splitAtTok ts "FONT"
  let (fontToks, rest) ← Gsub.splitAtTok rest "MAPS"
  let (mapToks, bufToks) ← Gsub.splitAtTok rest "BUF"
  let fnums ← fontToks.mapM String.toNat?
  let (f, _) ← Gsub.font fnums
  let mnums ← mapToks.mapM String.toNat?
  let (maps, _) ← Gsub.counted Gsub.lookupMap mnums
  let b ← bufToks.foldlM Buffer.parseKV ({} : Buf)
  let gs : List G := (b.info.take b.len).map fun x => { gid := x.gid % 65536, cluster := x.cluster, mask := x.mask }
  let out := applyAll f b.level maps gs
  let body := ",".intercalate (out.map fun g => s!"{g.gid}:{g.cluster}")
  pure s!"ok {out.length} {if out.isEmpty then "-" else body}"

end RbModel.Drv.GsubSpec
