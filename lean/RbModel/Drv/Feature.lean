import RbModel.Feature
import RbModel.Drv.Util

namespace RbModel.Drv.Feature
open RbModel.Drv

def hexVal (c : Char) : Option Nat :=
  if '0' ≤ c ∧ c ≤ '9' then some (c.toNat - 48)
  else if 'a' ≤ c ∧ c ≤ 'f' then some (c.toNat - 87)
  else if 'A' ≤ c ∧ c ≤ 'F' then some (c.toNat - 55)
  else none

def hexBytes : List Char → Option (List Nat)
  | [] => some []
  | a :: b :: r => do
      let x ← hexVal a; let y ← hexVal b
      let rest ← hexBytes r
      pure ((x * 16 + y) :: rest)
  | _ => none

def bound (s : String) : Option RbModel.Feature.Bound :=
  if s = "u" then some .unbounded
  else
    match s.toList with
    | 'i' :: r => (String.ofList r).toNat?.map .included
    | 'x' :: r => (String.ofList r).toNat?.map .excluded
    | _ => none

def render (f : RbModel.Feature.Feature) : String :=
  s!"{f.tag} {f.value} {f.start} {f.stop} {b2s (RbModel.Feature.isGlobal f)}"

def cmds : List String := ["feature"]

def handle (ts : List String) : Option String :=
  match ts.drop 1 with
  | ["new", tag, value, s, e] => do
      let tag ← tag.toNat?; let value ← value.toNat?
      let s ← bound s; let e ← bound e
      pure (render (RbModel.Feature.new tag value s e))
  | ["parse"] => pure "err"
  | ["parse", hex] => do
      let bs ← hexBytes hex.toList
      match RbModel.Feature.parse bs with
      | some f => pure ("ok " ++ render f)
      | none => pure "err"
  | ["global", tag, value, s, e] => do
      let v ← nats [tag, value, s, e]
      match v with
      | [t, v, s, e] => pure (b2s (RbModel.Feature.isGlobal ⟨t, v, s, e⟩))
      | _ => none
  | _ => none

end RbModel.Drv.Feature
