import RbModel.TagScript
import RbModel.Drv.Util

/-! line-protocol driver of `Script::from_iso15924_tag` / `Script::from_str`; syntax: `harness/src/ops/tagscript.rs`. -/

namespace RbModel.Drv.TagScript
open RbModel.TagScript RbModel.Drv

def cmds : List String := ["scriptiso", "scriptstr"]

def hexVal (c : Char) : Option Nat :=
  if '0' ≤ c ∧ c ≤ '9' then some (c.toNat - 48)
  else if 'a' ≤ c ∧ c ≤ 'f' then some (c.toNat - 87)
  else if 'A' ≤ c ∧ c ≤ 'F' then some (c.toNat - 55)
  else none

def hexBytes : List Char → Option (List Nat)
  | [] => some []
  | a :: b :: rest => do
    let x ← hexVal a; let y ← hexVal b; let r ← hexBytes rest
    pure ((x * 16 + y) :: r)
  | _ => none

def handle (ts : List String) : Option String :=
  match ts with
  | ["scriptiso", t] => do
    let t ← t.toNat?
    if t ≥ 4294967296 then none
    else pure (match fromIso15924 tree t with | none => "none" | some s => toString s)
  | ["scriptstr", s] =>
    match s.toList with
    | 'x' :: cs => do
      let b ← hexBytes cs
      pure (match fromStr tree b with | none => "err" | some s => toString s)
    | _ => none
  | _ => none

end RbModel.Drv.TagScript
