import RbModel.Tag
import RbModel.TagScript
import RbModel.Gen.Lang
import RbModel.Drv.Util

/-! line-protocol driver of the tag core; request syntax: see `harness/src/ops/tag.rs`. -/

namespace RbModel.Drv.Tag
open RbModel.Tag RbModel.Drv

def hexVal (c : Char) : Option Nat :=
  if '0' ≤ c ∧ c ≤ '9' then some (c.toNat - 48)
  else if 'a' ≤ c ∧ c ≤ 'f' then some (c.toNat - 87)
  else if 'A' ≤ c ∧ c ≤ 'F' then some (c.toNat - 55)
  else none

def hexBytes : List Char → Option (List Nat)
  | [] => some []
  | a :: b :: rest => do
    let x ← hexVal a; let y ← hexVal b; let r ← hexBytes rest
    pure ((x * 16 + y) :: r)
  | _ => none

/-- `-` = absent, `x<hex>` = string -/
def xs (t : String) : Option (Option Bytes) :=
  if t == "-" then some none
  else match t.toList with
    | 'x' :: cs => (hexBytes cs).map some
    | _ => none

def optNat (t : String) : Option (Option Nat) :=
  if t == "-" then some none else t.toNat?.map some

def list (t : String) : Option (List Nat) :=
  if t == "-" then some [] else nats (splitOn1 t ',')

def join (xs : List Nat) : String := if xs.isEmpty then "-" else joinNats xs ","

def ou (x : Option Nat) : String := match x with | some v => toString v | none => "-"

def errName : Err → String
  | .slice => "slice"
  | .oob => "oob"
  | .fuel => "fuel"

def wrap {α} (r : Except Err α) (f : α → String) : String :=
  match r with
  | .ok a => f a
  | .error e => "panic " ++ errName e

/-! abstract table syntax (one token):  `<features>|<script>|<script>…`
    features = `_`-separated tags (or empty); script = `tag:dflt:lang+lang…` ; dflt = `-` or langsys ;
    langsys = `tag.req.f_f_f` (req = `-` or index) -/

def natsSep (s : String) (c : Char) : Option (List Nat) :=
  if s.isEmpty then some [] else nats (splitOn1 s c)

def parseLangSys (s : String) : Option LangSys :=
  match splitOn1 s '.' with
  | [t, r, f] => do
    let t ← t.toNat?; let r ← optNat r; let f ← natsSep f '_'
    pure ⟨t, r, f⟩
  | _ => none

def parseScript (s : String) : Option ScriptRec :=
  match splitOn1 s ':' with
  | [t, d, ls] => do
    let t ← t.toNat?
    let d ← if d == "-" then some none else (parseLangSys d).map some
    let ls ← if ls.isEmpty then some [] else (splitOn1 ls '+').mapM parseLangSys
    pure ⟨t, d, ls⟩
  | _ => none

def parseTable (s : String) : Option (Option Table) :=
  if s == "-" then some none else
  match splitOn1 s '|' with
  | f :: scripts => do
    let f ← natsSep f '_'
    let ss ← scripts.mapM parseScript
    pure (some ⟨ss, f⟩)
  | _ => none

/-- two tables `gsub/gpos` -/
def parseTables (s : String) : Option (List (Option Table)) :=
  (splitOn1 s '/').mapM parseTable

def shaperName : Shaper → String
  | .default => "default" | .indic => "indic" | .use => "use" | .myanmar => "myanmar" | .other => "other"

def selStr (s : Option Selection) : String :=
  match s with
  | none => "0,-,-,-,-"
  | some s =>
    let req := match s.required with | some (i, t) => s!"{i}:{t}" | none => "-"
    s!"{b2s s.found},{s.scriptIndex},{s.chosen},{ou s.langIndex},{req}"

def cmds : List String :=
  ["tags", "tagslang", "langcmp", "complex", "private", "scripttags", "shaper", "tagsel", "tagfeat", "tagplan",
   "tagresolve"]

def cfg : Cfg := tree

/-- the harness hands the requested script to `Script::from_iso15924_tag` first (`none` = rejected) -/
def isoScript (sc : Option Nat) : Option (Option Nat) :=
  match sc with
  | none => some none
  | some t => (RbModel.TagScript.fromIso15924 RbModel.TagScript.tree t).map some

def handle (ts : List String) : Option String :=
  match ts with
  | ["tags", sc, l] => do
    let sc ← optNat sc; let l ← xs l
    pure (wrap (tagsApi cfg sc l) fun r => s!"ok s:{join r.1} l:{join r.2}")
  | ["tagslang", l] => do
    let l ← xs l; let l ← l
    match languageFromStr l with
    | none => pure "none"
    | some p => pure (wrap (tagsFromLanguage cfg p) fun r => s!"ok {join r}")
  | ["langcmp", a, b] => do
    let a ← xs a; let a ← a; let b ← xs b; let b ← b
    pure (wrap (langCmp cfg.v a b) fun o => match o with | .lt => "-1" | .eq => "0" | .gt => "1")
  | ["complex", l] => do
    let l ← xs l; let l ← l
    pure (wrap (complexLanguage cfg l) fun r => match r with | some t => s!"1 {join t}" | none => "0 -")
  | ["private", l, w] => do
    let l ← xs l; let w ← w.toNat?
    let r := if w == 0 then parsePrivate l HBSC toLower else parsePrivate l HBOT toUpper
    pure (wrap r fun r => match r with | some t => s!"1 {t}" | none => "0 -")
  | ["scripttags", sc] => do
    let sc ← optNat sc
    pure (join (allTagsFromScript sc))
  | ["shaper", sc, _d, g] => do
    let sc ← sc.toNat?; let g ← optNat g
    pure (shaperName (categorize sc g))
  | ["tagsel", _font, abs, t, st, lt] => do
    let tbs ← parseTables abs; let t ← t.toNat?; let st ← list st; let lt ← list lt
    match tbs[t]? with
    | none => none
    | some none => pure "notable"
    | some (some tb) =>
      pure (wrap (selectTable tb st lt) fun r => match r with
        | none => "nosel"
        | some s =>
          let req := match s.required with | some (i, t) => s!"{i}:{t}" | none => "-"
          s!"{b2s s.found} {s.scriptIndex} {s.chosen} {ou s.langIndex} {req}")
  | ["tagfeat", _font, abs, t, si, li, ft] => do
    let tbs ← parseTables abs; let t ← t.toNat?; let si ← si.toNat?; let li ← optNat li; let ft ← ft.toNat?
    match tbs[t]? with
    | none => none
    | some none => pure "notable"
    | some (some tb) => pure (ou (findLanguageFeature tb si li ft))
  | ["tagplan", _font, abs, _d, sc, l] => do
    let tbs ← parseTables abs; let sc ← optNat sc; let l ← xs l
    let lang := l.bind languageFromStr
    match isoScript sc with
    | none => pure "reject-script"
    | some sc =>
    pure (wrap (selectAll cfg tbs sc lang) fun sels =>
      let gsub := match sels[0]? with | some (some s) => some s.chosen | _ => none
      let sh := match sc with | some s => categorize s gsub | none => .default
      s!"{shaperName sh} {selStr (sels[0]?.join)} {selStr (sels[1]?.join)}")
  | ["tagresolve", _font, abs, d, sc, l, tags] => do
    let tbs ← parseTables abs; let d ← d.toNat?; let sc ← optNat sc; let l ← xs l; let tags ← list tags
    let lang := l.bind languageFromStr
    match isoScript sc with
    | none => pure "reject-script"
    | some sc =>
    pure (wrap (planFeatures cfg tbs sc lang d) fun feats =>
      " ".intercalate (tags.map fun t =>
        match feats.find? (fun f => f.tag == t) with
        | some f => s!"{ou f.index0}/{ou f.index1}"
        | none => "x"))
  | _ => none

end RbModel.Drv.Tag
