import RbModel.Morx
import RbModel.MorxPurge
import RbModel.Spec.Aat
import RbModel.Drv.Util

/-! Line-protocol driver for the morx model (same requests as harness/src/ops/morx.rs). -/
namespace RbModel.Drv.Morx
open RbModel.Morx RbModel.Drv

/-! ### recipe parser: a flat list of naturals -/

abbrev P := StateT (List Nat) Option

def nat : P Nat := fun s => match s with
  | [] => none
  | x :: xs => some (x, xs)

def rep {α : Type} (p : P α) : Nat → P (List α)
  | 0 => pure []
  | n + 1 => do let x ← p; let xs ← rep p n; pure (x :: xs)

def counted {α : Type} (p : P α) : P (List α) := do let n ← nat; rep p n

def assoc (l : List (Nat × Nat)) : Nat → Option Nat := fun g => (l.find? (·.1 == g)).map (·.2)

def arrView {α : Type} (a : Array α) : Nat → Option α := fun i => a[i]?

def pLookup : P Lookup := do
  let l ← counted (do let g ← nat; let v ← nat; pure (g, v))
  pure (assoc l)

def pMachine : P Machine := do
  let nClasses ← nat
  let cl ← pLookup
  let st ← counted nat
  let es ← counted (do let a ← nat; let b ← nat; let c ← nat; let d ← nat; pure (⟨a, b, c, d⟩ : Entry))
  pure { nClasses := nClasses, classOf := cl, stateArr := arrView st.toArray, entries := arrView es.toArray }

def pKind : P Kind := do
  let k ← nat
  match k with
  | 0 => do let m ← pMachine; pure (.rearr m)
  | 1 => do
    let m ← pMachine
    let lks ← counted pLookup
    let a := lks.toArray
    pure (.contextual m (arrView a))
  | 2 => do
    let m ← pMachine
    let acts ← counted nat
    let comps ← counted nat
    let ligs ← counted nat
    pure (.ligature m ⟨arrView acts.toArray, arrView comps.toArray, arrView ligs.toArray⟩)
  | 4 => do let l ← pLookup; pure (.noncontextual l)
  | 5 => do
    let m ← pMachine
    let gl ← counted nat
    pure (.insertion m (arrView gl.toArray))
  | _ => failure

def pSubtable : P Subtable := do
  let cov ← nat; let ff ← nat; let k ← pKind
  pure ⟨cov, ff, k⟩

def pChain : P Chain := do
  let d ← nat
  let fs ← counted (do let a ← nat; let b ← nat; let c ← nat; let d ← nat; pure (a, b, c, d))
  let sts ← counted pSubtable
  pure ⟨d, fs, sts⟩

structure Font where
  numGlyphs : Nat
  feat : Option FeatTable
  chains : List Chain

def pFont : P Font := do
  let n ← nat
  let hasFeat ← nat
  let feat : Option FeatTable ← (if hasFeat == 1 then do
      let rows ← counted (do let t ← nat; let k ← nat; let x ← nat; pure (t, k, x))
      pure (some (fun ty => (rows.find? (·.1 == ty)).map (fun r => (r.2.1, r.2.2 == 1))))
    else pure none)
  let chains ← counted pChain
  pure ⟨n, feat, chains⟩


/-! ### the same recipe, read into the declarative structures of Spec/Aat -/

namespace SpecP
open RbModel.Spec.Aat

def pTable : P StateTable := do
  let nClasses ← nat
  let cl ← pLookup
  let st ← counted nat
  let es ← counted (do let a ← nat; let b ← nat; let c ← nat; let d ← nat; pure (⟨a, b, c, d⟩ : RbModel.Spec.Aat.Entry))
  let sa := st.toArray
  let ea := es.toArray
  pure { nClasses := nClasses, classOf := cl,
         entry := fun state cls => match sa[state * nClasses + cls]? with
           | some e => ea[e]?
           | none => none }

def pSub : P Sub := do
  let k ← nat
  match k with
  | 0 => do let t ← pTable; pure (.rearr t)
  | 1 => do
    let t ← pTable
    let lks ← counted pLookup
    pure (.contextual t (arrView lks.toArray))
  | 2 => do
    let t ← pTable
    let acts ← counted nat
    let comps ← counted nat
    let ligs ← counted nat
    pure (.ligature t (arrView acts.toArray) (arrView comps.toArray) (arrView ligs.toArray))
  | 4 => do let l ← pLookup; pure (.noncontextual l)
  | 5 => do
    let t ← pTable
    let gl ← counted nat
    pure (.insertion t (arrView gl.toArray))
  | _ => failure

def pSubtable : P RbModel.Spec.Aat.Subtable := do
  let cov ← nat; let ff ← nat; let k ← pSub
  pure ⟨Coverage.ofByte cov, ff, k⟩

/-- (default flags, feature entries, subtables) -/
def pChain : P (Nat × List (Nat × Nat × Nat × Nat) × List RbModel.Spec.Aat.Subtable) := do
  let d ← nat
  let fs ← counted (do let a ← nat; let b ← nat; let c ← nat; let d ← nat; pure (a, b, c, d))
  let sts ← counted pSubtable
  pure (d, fs, sts)

def pFont : P (List (Nat × List (Nat × Nat × Nat × Nat) × List RbModel.Spec.Aat.Subtable)) := do
  let _ ← nat
  let hasFeat ← nat
  if hasFeat == 1 then
    let _ ← counted (do let t ← nat; let k ← nat; let x ← nat; pure (t, k, x))
    pure ()
  counted pChain

/-- no user features: every chain runs with its default flags -/
def run (chains : List (Nat × List (Nat × Nat × Nat × Nat) × List RbModel.Spec.Aat.Subtable))
    (rtl vertical : Bool) (xs : Array Nat) (ops : Int) : Option (Array Nat × Int) :=
  chains.foldlM (fun (p : Array Nat × Int) ch =>
    runChain ch.2.2 (chainFlagsSpec (fun _ _ => false) ch.1 ch.2.1) rtl vertical 200000 p.1 p.2) (xs, ops)

end SpecP

/-! ### inputs -/

def hexVal (c : Char) : Option Nat :=
  if '0' ≤ c && c ≤ '9' then some (c.toNat - '0'.toNat)
  else if 'a' ≤ c && c ≤ 'f' then some (c.toNat - 'a'.toNat + 10)
  else if 'A' ≤ c && c ≤ 'F' then some (c.toNat - 'A'.toNat + 10)
  else none

def hexNat (s : String) : Option Nat :=
  if s.isEmpty then none else s.toList.foldlM (fun acc c => do let v ← hexVal c; pure (acc * 16 + v)) 0

def pGlyphs (s : String) : Option (List G) :=
  if s == "-" then some [] else
  (splitOn1 s ',').mapM (fun t => match splitOn1 t ':' with
    | [g, c] => do let g ← g.toNat?; let c ← c.toNat?; pure (⟨g, c⟩ : G)
    | _ => none)

def fmtGlyphs (a : List G) : String :=
  if a.isEmpty then "-" else ",".intercalate (a.map (fun g => s!"{g.gid}:{g.cl}"))

/-- (tag, value, start, end) -/
def pFeats (s : String) : Option (List (Nat × Nat × Nat × Nat)) :=
  if s == "-" then some [] else
  (splitOn1 s ',').mapM (fun t => match splitOn1 t ':' with
    | [tg, v, a, b] => do
        let tg ← hexNat tg; let v ← v.toNat?; let a ← a.toNat?; let b ← b.toNat?; pure (tg, v, a, b)
    | _ => none)

def fmtFlags (cf : List (List Range)) : String :=
  if cf.isEmpty then "-" else
  ";".intercalate (cf.map (fun c =>
    if c.isEmpty then "-" else ",".intercalate (c.map (fun r => s!"{r.flags}/{r.first}/{r.last}"))))

def pInt (s : String) : Option Int :=
  if s.startsWith "-" then (s.drop 1).toString.toNat?.map (fun n => -(n : Int)) else s.toNat?.map (fun n => (n : Int))

/-- src: verif_hooks::make_buffer (incl. `enter()`) -/
def mkBuf (gs : List G) (level : Nat) (dir : String) : RbModel.Morx.Buf :=
  let n := gs.length
  { info := gs.toArray, out := Array.replicate n G.dflt, idx := 0, len := n, outLen := 0,
    haveOutput := false, sepOut := false, successful := true,
    maxLen := max (n * RbModel.Gen.Morx.MAX_LEN_FACTOR) RbModel.Gen.Morx.MAX_LEN_MIN,
    maxOps := max (n * RbModel.Gen.Morx.MAX_OPS_FACTOR) RbModel.Gen.Morx.MAX_OPS_MIN,
    level := level, backward := dir == "r" || dir == "b", vertical := dir == "t" || dir == "b" }

def compileFeats (f : Font) (feats : List (Nat × Nat × Nat × Nat)) : RbModel.Morx.M (List FeatRange × List (List Range)) := do
  let added ← feats.foldlM (fun acc (x : Nat × Nat × Nat × Nat) => do
    let r ← addFeature f.feat x.1 x.2.1 x.2.2.1 x.2.2.2
    pure (acc ++ r)) []
  pure (added, builderCompile f.chains added)

def panicStr (p : RbModel.Morx.Panic) : String := s!"panic {p.name}"

def splitAtI (ts : List String) : List String × List String :=
  let pre := ts.takeWhile (· != "I")
  (pre, (ts.dropWhile (· != "I")).drop 1)

def parseFont (ts : List String) : Option Font := do
  let ns ← nats ts
  let (f, rest) ← pFont.run ns
  if rest.isEmpty then some f else none

/-- text of a `shapeenv` request: `hexcp:cluster,...`; the cmap of the generated fonts maps U+E000+i to glyph i+1
    (i + 1 < numGlyphs), everything else to .notdef -/
def pText (numGlyphs : Nat) (s : String) : Option (List G) :=
  if s == "-" then some [] else
  (splitOn1 s ',').mapM (fun t => match splitOn1 t ':' with
    | [c, k] => do
        let c ← hexNat c; let k ← k.toNat?
        let gid := if 0xE000 ≤ c && c - 0xE000 + 1 < numGlyphs then c - 0xE000 + 1 else 0
        pure (⟨gid, k⟩ : G)
    | _ => none)

/-- `<gsub><gpos><gposkern><kerx><kern><gdef>/<gid>gid.…|->` -/
def pEnv (s : String) : Option Env :=
  match splitOn1 s '/' with
  | [bits, mp] => do
    let bs := bits.toList.map (· == '1')
    if bs.length != 6 then none
    let pairs ← if mp == "-" then some [] else
      (splitOn1 mp '.').mapM (fun t => match splitOn1 t '>' with
        | [a, b] => do let a ← a.toNat?; let b ← b.toNat?; pure (a, b)
        | _ => none)
    pure { gsub := bs.getD 0 false, gpos := bs.getD 1 false, gposKern := bs.getD 2 false, kerx := bs.getD 3 false,
           kern := bs.getD 4 false, gsubMap := assoc pairs }
  | _ => none

def cmds : List String := ["morx"]

def handle (ts : List String) : Option String :=
  match ts.drop 1 with
  | ["consts"] => none
  | ["rearr", flags, start, end_, idx, level, gs] => do
    let flags ← flags.toNat?; let start ← start.toNat?; let end_ ← end_.toNat?
    let idx ← idx.toNat?; let level ← level.toNat?
    let gs ← pGlyphs gs
    let b := { mkBuf gs level "l" with idx := idx }
    let cs : CS := { start := start, end_ := end_ }
    match rearrTransition cs ⟨0, flags, 0, 0⟩ b with
    | .ok (cs, b) => pure s!"ok {cs.start} {cs.end_} {fmtGlyphs (b.info.extract 0 b.len).toList}"
    | .error p => pure (panicStr p)
  | "run" :: _hex :: "R" :: rest => do
    let (rec, inp) := splitAtI rest
    let f ← parseFont rec
    match inp with
    | [dir, level, maxOps, maxLen, feats, gs] =>
      let level ← level.toNat?
      let gs ← pGlyphs gs
      let feats ← pFeats feats
      let b := mkBuf gs level dir
      let b ← if maxOps == "-" then some b else (pInt maxOps).map (fun m => { b with maxOps := m })
      let b ← if maxLen == "-" then some b else maxLen.toNat?.map (fun m => { b with maxLen := m })
      let r : RbModel.Morx.M String := do
        let (_, cf) ← compileFeats f feats
        let b ← applyChains f.chains (cf.map List.toArray) b
        pure s!"ok {b2s b.successful} {b.maxOps} {fmtGlyphs (b.info.extract 0 b.len).toList} F {fmtFlags cf}"
      match r with
      | .ok s => pure s
      | .error p => pure (panicStr p)
    | _ => none
  | ["purge", level, gs] => do
    let level ← level.toNat?
    let gs ← pGlyphs gs
    pure s!"ok {fmtGlyphs (purge level gs)}"
  | "shapeenv" :: _hex :: "R" :: rest => do
    let (rec, inp) := splitAtI rest
    let f ← parseFont rec
    match inp with
    | [env, dir, level, feats, text] =>
      let e ← pEnv env
      let level ← level.toNat?
      let gs ← pText f.numGlyphs text
      let feats ← pFeats feats
      let b := mkBuf gs level dir
      let r : RbModel.Morx.M String := do
        let (_, cf) ← compileFeats f feats
        let (ap, out) ← shapeMorx f.chains (cf.map List.toArray) e b
        pure s!"ok {fmtGlyphs out} P {b2s ap.morx}{b2s ap.gpos}{b2s ap.kerx}{b2s ap.kern}"
      match r with
      | .ok s => pure s
      | .error p => pure (panicStr p)
    | _ => none
  | ["specverb", flags, start, end_, _idx, _level, gs] => do
    -- Apple's verb table (Spec/Aat.applyVerb) on the marked range [start, end): glyph ids only
    let flags ← flags.toNat?; let start ← start.toNat?; let end_ ← end_.toNat?
    let gs ← pGlyphs gs
    let xs := gs.map (·.gid)
    let verb := flags % 16
    let out := if verb != 0 && start < end_ && end_ ≤ xs.length && end_ - start ≤ 64 then
        match RbModel.Spec.Aat.applyVerb verb ((xs.drop start).take (end_ - start)) with
        | some r => xs.take start ++ r ++ xs.drop end_
        | none => xs
      else xs
    pure ("ok " ++ (if out.isEmpty then "-" else ",".intercalate (out.map toString)))
  | "spec" :: _hex :: "R" :: rest => do
    -- the reference interpreter of Spec/Aat (no user features): glyph ids only, `undef` outside its domain
    let (rec, inp) := splitAtI rest
    let ns ← nats rec
    let (chains, rest') ← SpecP.pFont.run ns
    if !rest'.isEmpty then none
    match inp with
    | [dir, _level, maxOps, _maxLen, _feats, gs] =>
      let gs ← pGlyphs gs
      let n := gs.length
      let ops : Int ← if maxOps == "-" then
          some ((max (n * RbModel.Gen.Morx.MAX_OPS_FACTOR) RbModel.Gen.Morx.MAX_OPS_MIN : Nat) : Int)
        else pInt maxOps
      match SpecP.run chains (dir == "r" || dir == "b") (dir == "t" || dir == "b") (gs.map (·.gid)).toArray ops with
      | some (xs, _) => pure ("ok " ++ (if xs.isEmpty then "-" else ",".intercalate (xs.toList.map toString)))
      | none => pure "undef"
    | _ => none
  | "compile" :: _hex :: "R" :: rest => do
    let (rec, inp) := splitAtI rest
    let f ← parseFont rec
    match inp with
    | [feats] =>
      let feats ← pFeats feats
      match compileFeats f feats with
      | .ok (added, cf) =>
        let a := if added.isEmpty then "-" else ",".intercalate (added.map (fun r =>
          s!"{r.info.kind}:{r.info.setting}:{b2s r.info.exclusive}:{r.start}:{r.end_}"))
        pure s!"ok A {a} F {fmtFlags cf}"
      | .error p => pure (panicStr p)
    | _ => none
  | _ => none

end RbModel.Drv.Morx
