import RbModel.Hangul
import RbModel.HangulBuf
import RbModel.Gen.Hangul
import RbModel.Drv.Util

/-! line protocol of `harness/src/ops/hangul.rs`, answered by the model -/
namespace RbModel.Drv.Hangul
open RbModel.Hangul RbModel.Drv
open RbModel.Gen.Hangul

/-- one support-spec item: code points c with a ≤ c ≤ b and, if m > 0, ((c - a) % m == r) ≠ neg -/
structure Item where
  a : Nat
  b : Nat
  m : Nat
  r : Nat
  neg : Bool
  z : Bool

def Item.has (i : Item) (u : Nat) : Bool :=
  decide (i.a ≤ u) && decide (u ≤ i.b) && (i.m == 0 || (((u - i.a) % i.m == i.r) != i.neg))

/-- `a-b[%m=r|%m!r][z]` | `a[z]` -/
def parseItem (s : String) : Option Item := do
  let z := s.endsWith "z"
  let body := if z then (s.dropEnd 1).toString else s
  let (body, m, r, neg) ← match splitOn1 body '%' with
    | [b] => some (b, 0, 0, false)
    | [b, f] =>
      match splitOn1 f '=' with
      | [m, r] => do let m ← m.toNat?; let r ← r.toNat?; if m == 0 then none else pure (b, m, r, false)
      | _ => match splitOn1 f '!' with
        | [m, r] => do let m ← m.toNat?; let r ← r.toNat?; if m == 0 then none else pure (b, m, r, true)
        | _ => none
    | _ => none
  match splitOn1 body '-' with
  | [a] => do let a ← a.toNat?; pure { a := a, b := a, m := m, r := r, neg := neg, z := z }
  | [a, b] => do let a ← a.toNat?; let b ← b.toNat?; pure { a := a, b := b, m := m, r := r, neg := neg, z := z }
  | _ => none

def parseSpec (s : String) : Option (List Item) :=
  if s == "-" then some [] else (splitOn1 s ',').mapM parseItem

def specHas (items : List Item) (u : Nat) : Bool := items.any fun i => i.has u

def specZero (items : List Item) (u : Nat) : Bool := items.any fun i => i.z && i.has u

def parseText (s : String) : Option (List G) :=
  if s == "-" then some [] else
  (splitOn1 s ',').mapM fun t =>
    match splitOn1 t ':' with
    | [c, cl] => do let c ← c.toNat?; let cl ← cl.toNat?; pure { cp := c, cl := cl, tag := 0 }
    | _ => none

def predMask (u : Nat) : Nat :=
  (if isCombiningL u then 1 else 0) + (if isCombiningV u then 2 else 0) + (if isCombiningT u then 4 else 0)
  + (if isCombinedS u then 8 else 0) + (if isL u then 16 else 0) + (if isV u then 32 else 0)
  + (if isT u then 64 else 0) + (if isTone u then 128 else 0)

def showRanges (rs : List (Nat × Nat)) : String :=
  if rs.isEmpty then "-" else ",".intercalate (rs.map fun (a, b) => s!"{a}-{b}")

/-- names of `verif::shaper::shaper_name`; the index is `Shaper.code` -/
def shaperNames : List String :=
  ["default", "dumber", "hangul", "arabic", "hebrew", "indic", "khmer", "myanmar", "zawgyi", "thai", "use"]

def shaperOfName (n : String) : Option Shaper := (shaperNames.idxOf? n).map Shaper.ofCode

def dirCode : String → Option Nat
  | "l" => some 0 | "r" => some 1 | "t" => some 2 | "b" => some 3 | _ => none

def cmds : List String := ["hangul"]

def handle (ts : List String) : Option String :=
  match ts.drop 1 with
  | ["consts"] =>
      pure (joinNats [LBase, VBase, TBase, LCount, VCount, TCount, NCount, SCount, SBase, LJMO, VJMO, TJMO])
  | ["pred", u] => do let u ← u.toNat?; pure (toString (predMask u))
  | ["ranges"] =>
      pure (" ".intercalate ([combiningLRanges, combiningVRanges, combiningTRanges, combinedSRanges,
                               lRanges, vRanges, tRanges, toneRanges].map showRanges))
  | ["support", spec, u] => do
      let items ← parseSpec spec; let u ← u.toNat?
      pure s!"{b2s (specHas items u)} {b2s (specZero items u)}"
  | ["pre", level, nodc, spec, text] => do
      let level ← level.toNat?
      let items ← parseSpec spec
      let text ← parseText text
      let c : Cfg := { has := specHas items, zeroW := specZero items, noDotted := nodc == "1", level := level }
      match preprocess c text with
      | none => pure "panic"
      | some r => pure (" ".intercalate ("ok" :: r.map fun g => s!"{g.cp}:{g.cl}:{g.tag}"))
  | ["prem", level, nodc, spec, text] => do
      -- the same routine on the real buffer model, masks (glyph flags) included: HangulBuf.lean
      let level ← level.toNat?
      let items ← parseSpec spec
      let text ← parseText text
      let c : Cfg := { has := specHas items, zeroW := specZero items, noDotted := nodc == "1", level := level }
      match RbModel.HangulBuf.preprocess c (text.map fun g => (g.cp, g.cl)) with
      | .error _ => pure "panic"
      | .ok r => pure (" ".intercalate ("ok" :: r.map fun (cp, cl, tag, mask) => s!"{cp}:{cl}:{tag}:{mask}"))
  | ["plan", env, dir, _script, cat] => do
      -- env: letters of the tables the font has besides the basic ones (S GSUB, M morx, K kern, P GPOS, D GDEF)
      let letters := if env == "-" then [] else env.toList
      if letters.any (fun c => !("SMKPD".toList.contains c)) then none
      let d ← dirCode dir
      let cat ← shaperOfName cat
      let e : PlanEnv := { hasMorx := letters.contains 'M', hasGsub := letters.contains 'S', horizontal := dirHorizontal d }
      let name ← shaperNames[(planShaper cat e).code]?
      pure s!"{name} {b2s (applyMorx e)}"
  | _ => none

end RbModel.Drv.Hangul
