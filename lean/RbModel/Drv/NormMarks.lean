import RbModel.NormMarks
import RbModel.Drv.Norm

namespace RbModel.Drv.NormMarks
open RbModel.Norm RbModel.Drv RbModel.Drv.Norm

def cmds : List String := ["normsh"]

/-- the shaper records the model carries: (normalization preference, `reorder_marks` callback) -/
def shaperOf (name : String) : Option (Nat × Option ReorderMarks) :=
  if name == "default" then some (4, none)
  else if name == "arabic" then
    some (Gen.NormMarks.arabicMode,
      if Gen.NormMarks.arabicHasReorder then some (reorderMarksArabic genK genA) else none)
  else none

def handle (ts : List String) : Option String :=
  match ts.drop 1 with
  | ["run", shaper, _gposmark, level, inv, nfvs, _fonthex, cmap, uvs, text] => do
      let level ← level.toNat?
      if level > 1 then none
      let inv ← if inv == "-" then some none else inv.toNat?.map some
      let nfvs ← if nfvs == "-" then some false else nfvs.toNat?.map (fun _ => true)
      let groups ← parseCmap cmap
      let uvs ← parseUvs uvs
      let text ← parseText text
      let F : Font := { glyph := cmapGlyph groups, invisible := inv, variant := variantGlyph groups uvs, nfvs := nfvs }
      let (buf, flags) := initBuffer text 0
      match shaperOf shaper with
      | none => pure "unmodelled"
      | some (mode, cb) =>
        match normalizeWith genU F genK cb genFuel mode buf flags with
        | none => pure "unmodelled"
        | some (.error "length") => pure "unmodelled"
        | some (.error _) => pure "panic"
        | some (.ok (l, flags)) => pure (" ".intercalate (s!"ok 1 {flags}" :: l.map showInfo))
  | _ => none

end RbModel.Drv.NormMarks
