import RbModel.Norm
import RbModel.Gen.Norm
import RbModel.Drv.Util

namespace RbModel.Drv.Norm
open RbModel.Norm RbModel.Drv

/-- `start-end:gid[,...]` format-12 groups -/
def parseCmap (s : String) : Option (List (Nat × Nat × Nat)) :=
  if s == "-" then some []
  else (splitOn1 s ',').mapM fun g =>
    match splitOn1 g ':' with
    | [r, gid] => match splitOn1 r '-' with
      | [lo, hi] => do
          let lo ← lo.toNat?; let hi ← hi.toNat?; let gid ← gid.toNat?
          pure (lo, hi, gid)
      | _ => none
    | _ => none

/-- ttf-parser cmap format 12: `start_glyph_id + (c - start_char_code)`, `u16::try_from` -/
def cmapGlyph (groups : List (Nat × Nat × Nat)) (c : Nat) : Option Nat :=
  match groups.find? (fun g => g.1 ≤ c && c ≤ g.2.1) with
  | some g => let id := g.2.2 + (c - g.1); if id < 65536 then some id else none
  | none => none

/-- `vs:d:lo:hi` (default UVS range) / `vs:n:cp:gid` (non-default mapping) entries -/
def parseUvs (s : String) : Option (List (Nat × Bool × Nat × Nat)) :=
  if s == "-" then some []
  else (splitOn1 s ',').mapM fun e =>
    match splitOn1 e ':' with
    | [vs, k, a, b] => do
        let vs ← vs.toNat?; let a ← a.toNat?; let b ← b.toNat?
        if k == "d" then pure (vs, true, a, b) else if k == "n" then pure (vs, false, a, b) else none
    | _ => none

/-- ttf-parser `Face::glyph_variation_index`: the selector's default UVS ranges first (→ the nominal
    glyph of the base), then its non-default mappings -/
def variantGlyph (groups : List (Nat × Nat × Nat)) (uvs : List (Nat × Bool × Nat × Nat)) (c v : Nat) : Option Nat :=
  if uvs.any (fun e => e.1 == v && e.2.1 && e.2.2.1 ≤ c && c ≤ e.2.2.2) then cmapGlyph groups c
  else match uvs.find? (fun e => e.1 == v && !e.2.1 && e.2.2.1 == c) with
    | some e => some e.2.2.2
    | none => none

def parseText (s : String) : Option (List (Nat × Nat × Nat)) :=
  (splitOn1 s ',').mapM fun t =>
    match splitOn1 t ':' with
    | [a, b, c] => do
        let a ← a.toNat?; let b ← b.toNat?; let c ← c.toNat?
        if (0xD800 ≤ a ∧ a ≤ 0xDFFF) ∨ a > 0x10FFFF then none else pure (a, b, c)
    | _ => none

/-- the hook's buffer set-up: `init_unicode_props` per character -/
def initBuffer : List (Nat × Nat × Nat) → Nat → List Info × Nat
  | [], flags => ([], flags)
  | (cp, cl, mask) :: r, flags =>
    let (p, flags) := initProps genU genK cp flags
    let (rest, flags) := initBuffer r flags
    ({ cp := cp, mask := mask, cluster := cl, gidx := 0, props := p } :: rest, flags)

def showInfo (i : Info) : String :=
  s!"{i.cp}:{i.cluster}:{i.mask}:{i.gidx}:{i.props.cls}:{i.props.hi}:{b2s i.props.ign}:{b2s i.props.hidden}:{b2s i.props.cont}"

def optNat (o : Option Nat) : String := match o with | some x => toString x | none => "-"

/-- length of the decomposition chain of `c` (first components), `none` beyond `fuel` steps -/
def chainLen : Nat → Nat → Option Nat
  | 0, _ => none
  | fuel + 1, c =>
    match genU.decomp c with
    | none => some 0
    | some (a, _) => (chainLen fuel a).map (· + 1)

def maxDepth (lo : Nat) : Nat → Nat → Option Nat
  | 0, best => some best
  | n + 1, best =>
    let c := lo + n
    if 0xD800 ≤ c ∧ c ≤ 0xDFFF then maxDepth lo n best
    else match chainLen genFuel c with
      | none => none
      | some d => maxDepth lo n (max best d)

def cmds : List String := ["norm"]

def handle (ts : List String) : Option String :=
  match ts.drop 1 with
  | ["compose", a, b] => do
      let a ← a.toNat?; let b ← b.toNat?
      pure (optNat (genU.comp a b))
  | ["decompose", c] => do
      let c ← c.toNat?
      pure (match genU.decomp c with | some (a, b) => s!"{a} {b}" | none => "-")
  | ["depth", lo, hi] => do
      let lo ← lo.toNat?; let hi ← hi.toNat?
      pure (match maxDepth lo (hi + 1 - lo) 0 with | some d => toString d | none => "deeper-than-fuel")
  | ["props", c] => do
      let c ← c.toNat?
      pure s!"{b2s (genU.isMark c)} {b2s (genU.isSpace c)} {genU.mcc c} {b2s (genU.isDI c)} {b2s (genU.isVS c)} {genU.spaceFallback c}"
  | ["run", mode, level, inv, _fonthex, cmap, text] => do
      let mode ← mode.toNat?
      let level ← level.toNat?
      if mode > 4 ∨ level > 1 then none
      let inv ← if inv == "-" then some none else inv.toNat?.map some
      let groups ← parseCmap cmap
      let text ← parseText text
      let F : Font := { glyph := cmapGlyph groups, invisible := inv }
      let (buf, flags) := initBuffer text 0
      match normalize genU F genK genFuel mode buf flags with
      | none => pure "unmodelled"
      | some (l, flags) => pure (" ".intercalate (s!"ok 1 {flags}" :: l.map showInfo))
  | ["runv", mode, level, inv, nfvs, _fonthex, cmap, uvs, text] => do
      let mode ← mode.toNat?
      let level ← level.toNat?
      if mode > 4 ∨ level > 1 then none
      let inv ← if inv == "-" then some none else inv.toNat?.map some
      let nfvs ← if nfvs == "-" then some false else nfvs.toNat?.map (fun _ => true)
      let groups ← parseCmap cmap
      let uvs ← parseUvs uvs
      let text ← parseText text
      let F : Font := { glyph := cmapGlyph groups, invisible := inv, variant := variantGlyph groups uvs, nfvs := nfvs }
      let (buf, flags) := initBuffer text 0
      match normalize genU F genK genFuel mode buf flags with
      | none => pure "unmodelled"
      | some (l, flags) => pure (" ".intercalate (s!"ok 1 {flags}" :: l.map showInfo))
  | _ => none

end RbModel.Drv.Norm
