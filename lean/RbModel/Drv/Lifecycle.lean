import RbModel.Lifecycle
import RbModel.Drv.Util

/-! Driver for the `lc` (public-api buffer histories) and `lcrand` requests; same line protocol as
    harness/src/ops/lifecycle.rs.  The pipeline body is instantiated with the identity: the reply of a
    non-empty shape only lists the fields the life-cycle bracket owns. -/
namespace RbModel.Drv.Lifecycle
open RbModel RbModel.Drv RbModel.Life

def cmds : List String := ["lc", "lcclear", "lcrand"]

def hexDigit (c : Char) : Option Nat :=
  if '0' ≤ c ∧ c ≤ '9' then some (c.toNat - '0'.toNat)
  else if 'a' ≤ c ∧ c ≤ 'f' then some (c.toNat - 'a'.toNat + 10)
  else if 'A' ≤ c ∧ c ≤ 'F' then some (c.toNat - 'A'.toNat + 10)
  else none

def hexNat (s : String) : Option Nat :=
  if s.isEmpty then none else
  s.toList.foldlM (fun acc c => (hexDigit c).map (fun d => acc * 16 + d)) 0

def hexBytes (s : String) : Option (List Nat) :=
  let rec go : List Char → Option (List Nat)
    | [] => some []
    | [_] => none
    | a :: b :: rest => do
        let x ← hexDigit a
        let y ← hexDigit b
        let r ← go rest
        pure ((x * 16 + y) :: r)
  go s.toList

def toHex (n : Nat) : String :=
  let rec go (fuel n : Nat) (acc : List Char) : List Char :=
    match fuel with
    | 0 => acc
    | fuel + 1 =>
      let d := n % 16
      let c := if d < 10 then Char.ofNat ('0'.toNat + d) else Char.ofNat ('a'.toNat + d - 10)
      if n / 16 == 0 then c :: acc else go fuel (n / 16) (c :: acc)
  String.ofList (go 16 n [])

def hex2 (n : Nat) : String :=
  let s := toHex n
  if s.length < 2 then "0" ++ s else s

def parseCps (s : String) : Option (List Nat) :=
  if s == "-" then some [] else (splitOn1 s ',').mapM hexNat

def fmtCps (l : List Nat) : String := if l.isEmpty then "-" else ",".intercalate (l.map toHex)

def optNat : Option Nat → String
  | some n => toString n
  | none => "-"

def FNV_OFF : Nat := 0xcbf29ce484222325
def FNV_PRIME : Nat := 0x100000001b3
def fnv (h v : Nat) : Nat := ((h ^^^ v) * FNV_PRIME) % 18446744073709551616

def content (b : Buf) : String :=
  if b.len > b.info.length then "!len>vec"
  else if b.len ≤ 32 then
    (if b.len == 0 then "-" else ",".intercalate ((b.info.take b.len).map fun x => s!"{x.gid}:{x.cluster}"))
  else
    let h := (b.info.take b.len).foldl (fun h x => fnv (fnv h x.gid) x.cluster) FNV_OFF
    s!"#{h}"

def fmtLang : Option (List Nat) → String
  | some l => "x" ++ String.join (l.map hex2)
  | none => "-"

def fmtLife (u : UBuf) (kind : String) (emptyPath : Bool) : String :=
  let b := u.b
  if kind == "G" && !emptyPath then
    s!"k=G e=0 L={b.level} F={b.flags} M={b.maxLen} O={b.maxOps} se={b.serial} D={u.dir} S={optNat u.script} G={fmtLang u.lang} pre={fmtCps u.pre} post={fmtCps u.post} nf={optNat u.nfvs} inv=-"
  else
    s!"k={kind} e={b2s emptyPath} L={b.level} F={b.flags} M={b.maxLen} O={b.maxOps} h={b2s b.haveOutput} s={b2s b.sepOut} p={b2s b.havePos} ok={b2s b.successful} i={b.idx} n={b.len} o={b.outLen} sc={b.scratch} se={b.serial} il={b.info.length} pl={b.out.length} D={u.dir} S={optNat u.script} G={fmtLang u.lang} pre={fmtCps u.pre} post={fmtCps u.post} sf={b2s u.shapingFailed} nf={optNat u.nfvs} inv=- I={content b}"

def parsePairs (s : String) (hexKey : Bool) : Option (List (Nat × Nat)) :=
  (splitOn1 s ',').mapM fun e =>
    match splitOn1 e ':' with
    | [a, b] => do
        let k ← if hexKey then hexNat a else a.toNat?
        let v ← b.toNat?
        pure (k, v)
    | _ => none

def lookup (t : List (Nat × Nat)) (k : Nat) : Option Nat := (t.find? (·.1 == k)).map (·.2)

def scriptTag (s : String) : Option Nat :=
  match s.toList.map Char.toNat with
  | [a, b, c, d] => some (((a * 256 + b) * 256 + c) * 256 + d)
  | _ => none

def lower (c : Nat) : Nat := if 65 ≤ c ∧ c ≤ 90 then c + 32 else c

structure St where
  u : UBuf := {}
  kind : String := "U"
  emptyPath : Bool := false

def splitSemi (ts : List String) : List (List String) :=
  let rec go (acc : List String) (out : List (List String)) : List String → List (List String)
    | [] => (acc.reverse :: out).reverse
    | ";" :: rest => go [] (acc.reverse :: out) rest
    | t :: rest => go (t :: acc) out rest
  go [] [] ts

def panicName : Panic → String
  | .oob => "oob"
  | .assert => "assert"

/-- one public call; `none` = request not understood / not allowed in this state; `some (.error _)` = panic -/
def runOp (ud : UData) (hasFont : Bool) (st : St) (op : List String) : Option (M St) :=
  let onU (f : UBuf → Option (M UBuf)) : Option (M St) :=
    if st.kind != "U" then none else
    (f st.u).map fun m => do let u ← m; pure { st with u := u }
  let shaped (u : UBuf) : Option (M St) :=
    if st.kind != "U" || !hasFont then none else
    some (pure { u := u, kind := "G", emptyPath := st.u.b.len == 0 })
  match op with
  | ["new"] => some (pure {})
  | ["clear"] => some (pure { u := clear st.u, kind := "U", emptyPath := false })
  | ["add", c, cl] => onU fun u => do let c ← hexNat c; let cl ← cl.toNat?; pure (add u c cl)
  | ["push", s] => onU fun u => do let l ← parseCps s; pure (pushStr u l)
  | ["pushn", c, n] => onU fun u => do let c ← hexNat c; let n ← n.toNat?; pure (pushStr u (List.replicate n c))
  | ["dir", d] => onU fun u => do
      let d ← d.toNat?
      if d < 1 || d > 4 then none else pure (pure (setDirection u d))
  | ["script", s] => onU fun u => do let t ← scriptTag s; pure (pure (setScript u t))
  | ["lang", s] => onU fun u => do
      let l ← hexBytes (s.drop 1).toString
      if !s.startsWith "x" || l.isEmpty then none else pure (pure (setLanguage u (l.map lower)))
  | ["flags", f] => onU fun u => do let f ← f.toNat?; pure (pure (setFlags u f))
  | ["level", l] => onU fun u => do
      let l ← l.toNat?
      if l > 2 then none else pure (pure (setClusterLevel u l))
  | ["pre", s] => onU fun u => do let l ← parseCps s; pure (pure (setPreContext u l))
  | ["post", s] => onU fun u => do let l ← parseCps s; pure (pure (setPostContext u l))
  | ["nfvs", g] => onU fun u => do let g ← g.toNat?; pure (pure (setNfvs u g))
  | ["guess"] => onU fun u => some (pure (guess ud u))
  | ["resetcl"] => onU fun u => some (pure (resetClusters u))
  | ["mkplan", _] => if !hasFont then none else onU fun u => some (pure (guess ud u))
  | ["shape", _] =>
      shaped (shape (Plan := Unit) (Feats := Unit) ud (fun _ _ _ _ => ()) (fun _ u => u) () st.u)
  | ["plan", _] => shaped (shapeWithPlan ud (fun u => u) (guess ud st.u))
  | ["useplan"] => shaped (shapeWithPlan ud (fun u => u) st.u)
  | _ => none

def handleLc (rest : List String) : Option String :=
  match splitSemi rest with
  | [] => none
  | head :: ops => do
    let font ← head.head?
    let tT := (head.find? (·.startsWith "T=")).map (fun s => (s.drop 2).toString)
    let tD := (head.find? (·.startsWith "D=")).map (fun s => (s.drop 2).toString)
    let T ← match tT with | some s => parsePairs s true | none => some []
    let D ← match tD with | some s => parsePairs s false | none => some []
    let ud : UData := { scriptOf := fun c => lookup T c, dirOf := fun s => (lookup D s).getD 1 }
    let ops := ops.filter (· ≠ [])
    let rec run (st : St) (acc : List String) : List (List String) → Option (Except Panic (List String))
      | [] => some (.ok acc.reverse)
      | op :: more =>
        match runOp ud (font != "-") st op with
        | none => none
        | some (.error e) => some (.error e)
        | some (.ok st) => run st (fmtLife st.u st.kind st.emptyPath :: acc) more
    match ← run {} [] ops with
    | .error e => pure s!"panic {panicName e}"
    | .ok states => pure ("ok " ++ " | ".intercalate states)

def kvGet (ts : List String) (k : String) : Option String :=
  ts.findSome? fun t => if t.startsWith (k ++ "=") then some (t.drop (k.length + 1)).toString else none

def optField (s : String) : Option (Option Nat) :=
  if s == "-" then some none else s.toNat?.map some

/-- `lcclear k=v …`: a state with every field as given, then `Life.clear`; same reply as harness `lcclear`.
    The model of `clear()` leaves both context arrays as in a fresh buffer (all slots U+0000): `cx=`. -/
def handleClear (ts : List String) : Option String := do
  let num (k : String) : Option Nat := (kvGet ts k).bind String.toNat?
  let n ← num "n"
  let iS ← kvGet ts "I"
  let recs ← if iS == "-" then some [] else parsePairs iS false
  if recs.length != n then none
  let il ← num "il"
  let pl ← num "pl"
  if il < n then none
  let info : List Info := recs.map (fun (g, c) => { gid := g, cluster := c }) ++ List.replicate (il - n) ({} : Info)
  let maxOps ← (kvGet ts "O").bind String.toInt?
  let b : Buf := {
    info := info, out := List.replicate pl ({} : Info), idx := ← num "i", len := n, outLen := ← num "o",
    haveOutput := (← num "h") != 0, sepOut := (← num "s") != 0, havePos := (← num "p") != 0,
    successful := (← num "ok") != 0, level := ← num "L", flags := ← num "F", scratch := ← num "sc",
    maxLen := ← num "M", maxOps := maxOps, serial := ← num "se" }
  let gS ← kvGet ts "G"
  let lang ← if gS == "-" then some none else (hexBytes (gS.drop 1).toString).map some
  let inv ← kvGet ts "inv"
  if inv != "-" then none     -- `invisible` is not a field of the model (never written in the crate)
  let u : UBuf := {
    b := b, dir := ← num "D", script := ← (kvGet ts "S").bind optField, lang := lang,
    pre := ← (kvGet ts "pre").bind parseCps, post := ← (kvGet ts "post").bind parseCps,
    shapingFailed := (← num "sf") != 0, nfvs := ← (kvGet ts "nf").bind optField }
  pure (fmtLife (clear u) "U" false ++ " cx=0,0,0,0,0/0,0,0,0,0")

def handle (ts : List String) : Option String :=
  match ts with
  | "lc" :: rest => handleLc rest
  | "lcclear" :: rest => handleClear rest
  | ["lcrand", _, n] => do
      let n ← n.toNat?
      pure (joinNats (randomSeq randomInit n))
  | "lcrand" :: _ :: n :: texts => do
      -- an apply context created on a buffer that shaped `texts` before (recycled after each)
      let n ← n.toNat?
      pure (joinNats (randomSeq (applyCtxRandomInit texts.length) n))
  | _ => none

end RbModel.Drv.Lifecycle
