import RbModel.Cluster
import RbModel.Drv.Buffer
import RbModel.Drv.Util

/-! `clu` / `clut`: the `buf` / `buft` requests extended by the cluster pipeline ops
    (`formcl`, `revgr`, `native <dir> <script> <hor0>`, `finalrev <dir>`); see harness/src/ops/cluster.rs. -/
namespace RbModel.Drv.Cluster
open RbModel RbModel.Drv

def cmds : List String := ["clu", "clut"]

def runOp (b : Buf) (op : List String) : Option (M (Buf × Nat)) :=
  match op with
  | ["formcl"] => some (do let b ← b.formClusters; pure (b, 1))
  | ["revgr"] => some (do let b ← b.reverseGraphemes; pure (b, 1))
  | ["native", d, _, h] =>
    match d.toNat?, h.toNat? with
    | some d, some h => some (do let (b, d') ← b.ensureNativeDirection d h; pure (b, 10 * h + d'))
    | _, _ => none
  | ["finalrev", d] => d.toNat?.map fun d => do let b ← b.finalReverse d; pure (b, 1)
  | _ => Buffer.runOp b op

def handle (ts : List String) : Option String :=
  match ts with
  | cmd :: rest =>
    if cmd != "clu" && cmd != "clut" then none else
    match Buffer.splitSemi rest with
    | [] => none
    | st :: ops => do
      let b ← st.foldlM Buffer.parseKV ({} : Buf)
      let ops := ops.filter (· ≠ [])
      let rec run (b : Buf) (rets : List Nat) (states : List String) :
          List (List String) → Option (Except Panic (Buf × List Nat × List String))
        | [] => some (.ok (b, rets.reverse, states.reverse))
        | op :: more =>
          match runOp b op with
          | none => none
          | some (.error e) => some (.error e)
          | some (.ok (b, r)) => run b (r :: rets) (Buffer.fmtState b :: states) more
      match ← run b [] [] ops with
      | .error e => pure s!"panic {Buffer.panicName e}"
      | .ok (b, rets, states) =>
        let r := ",".intercalate (rets.map toString)
        if cmd == "clut" then pure s!"ok r={r} {" | ".intercalate states}"
        else pure s!"ok r={r} {Buffer.fmtState b}"
  | _ => none

end RbModel.Drv.Cluster
