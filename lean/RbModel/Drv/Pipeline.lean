import RbModel.Pipeline
import RbModel.Spec.DI
import RbModel.Gen.DI
import RbModel.Gen.Pipeline
import RbModel.Drv.Util

/-! line-protocol driver of the pipeline core; same requests as harness/src/ops/pipeline.rs
    (see the header there for the syntax). -/
namespace RbModel.Drv.Pipeline
open RbModel.Pipeline RbModel.Drv

def cmds : List String := ["pl"]

def int? (s : String) : Option Int := s.toInt?

/-- char token `cp.gc.mcc.fl.sf.mir.vert` -/
structure CharTok where
  cp : Nat
  gc : Nat
  mcc : Nat
  fl : Nat
  sf : Nat
  mir : Nat
  vert : Nat

def charTok (t : String) : Option CharTok := do
  match ← nats (splitOn1 t '.') with
  | [cp, gc, mcc, fl, sf, mir, vert] => pure ⟨cp, gc, mcc, fl, sf, mir, vert⟩
  | _ => none

/-- Unicode data of a request: what the tokens say; default-ignorability is the crate's extracted set. -/
def ucdOf (cs : List CharTok) : Ucd :=
  let find (c : Nat) : Option CharTok := cs.find? fun t => t.cp == c
  { gc := fun c => match find c with | some t => t.gc | none => 2
    mcc := fun c => match find c with | some t => t.mcc | none => 0
    isDI := genIsDI
    extPict := fun c => match find c with | some t => t.fl % 2 == 1 | none => false
    spaceFb := fun c => match find c with | some t => t.sf | none => 0
    mirror := fun c => match find c with | some t => (if t.mir == 0 then none else some t.mir) | none => none
    vert := fun c => match find c with | some t => (if t.vert == 0 then none else some t.vert) | none => none
    norm := fun c => match find c with | some t => t.fl / 2 % 2 == 1 | none => false }

/-- `gid.props.gprops:cluster` -/
def item (t : String) : Option G := do
  match splitOn1 t ':' with
  | [a, cl] =>
    let cl ← cl.toNat?
    match ← nats (splitOn1 a '.') with
    | [gid, props, gprops] => pure { cp0 := gid, gid := gid, cluster := cl, props := UProps.unpack props, var1 := gprops }
    | _ => none
  | _ => none

def items (t : String) : Option (List G) :=
  if t == "-" then some [] else (splitOn1 t ',').mapM item

def joinS (xs : List String) : String := if xs.isEmpty then "-" else " ".intercalate xs

/-! ### font recipe
  `g<ng>;u<upem>;a<asc>;d<desc>;h<adv.adv...|->;v<adv.adv...|->;o<-|default(/gid=y)*>;c<sub(/sub)*|->`
  with `sub = platform.encoding(,cp=gid)*`.  `h`/`v` list the long metrics (numberOf[HV]Metrics of them). -/

/-- ttf-parser hmtx/vmtx `advance`: `None` beyond max(numberOfMetrics, numGlyphs), the last long
    metric for glyphs past the long metrics. -/
def metricsFn (advs : List Nat) (ng : Nat) : Nat → Option Nat := fun g =>
  if g ≥ max advs.length ng then none
  else match advs[g]? with
    | some a => some a
    | none => advs.getLast?

def kv (s : String) (c : Char) : Option (String × String) :=
  match splitOn1 s c with
  | [a, b] => some (a, b)
  | _ => none

def parseSub (s : String) : Option CmapSub := do
  match splitOn1 s ',' with
  | [] => none
  | hd :: pairs =>
    let (p, e) ← kv hd '.'
    let p ← p.toNat?; let e ← e.toNat?
    let ps ← pairs.mapM fun x => do
      let (a, b) ← kv x '='
      pure ((← a.toNat?), (← b.toNat?))
    pure { platform := p, encoding := e, map := fun c => (ps.find? fun q => q.1 == c).map (·.2) }

def parseFont (r : String) : Option Font := do
  let fields := splitOn1 r ';'
  let get (k : Char) : Option String :=
    (fields.find? fun f => f.front == k).map fun f => (f.drop 1).toString
  let ng ← (← get 'g').toNat?
  let upem ← (← get 'u').toNat?
  let asc ← int? (← get 'a')
  let desc ← int? (← get 'd')
  let h ← get 'h'
  let hm ← if h == "-" then some none else (nats (splitOn1 h '.')).map some
  let v ← get 'v'
  let vm ← if v == "-" then some none else (nats (splitOn1 v '.')).map some
  let o ← get 'o'
  let vorg ← if o == "-" then some none else do
    match splitOn1 o '/' with
    | [] => none
    | d :: recs =>
      let d ← int? d
      let rs ← recs.mapM fun x => do
        let (a, b) ← kv x '='
        pure ((← a.toNat?), (← int? b))
      pure (some (fun (g : Nat) => match rs.find? fun q => q.1 == g with | some q => q.2 | none => d))
  let sb ← get 's'
  let vsbs ← if sb == "-" then some [] else (splitOn1 sb '.').mapM int?
  let b ← get 'b'
  let glyf ← if b == "-" then some none else do
    let recs ← ((splitOn1 b '/').drop 1).mapM fun x => do
      let (g, yy) ← kv x '='
      let (lo, hi) ← kv yy '.'
      pure ((← g.toNat?), ((← int? lo), (← int? hi)))
    pure (some (fun (g : Nat) => (recs.find? fun q => q.1 == g).map (·.2)))
  let c ← get 'c'
  let subs ← if c == "-" then some [] else (splitOn1 c '/').mapM parseSub
  pure { subs := subs, upem := upem,
         hmtx := hm.map fun a => metricsFn a ng,
         vmtx := vm.map fun a => metricsFn a ng,
         ascender := asc, descender := desc, vorg := vorg, glyf := glyf,
         vsb := fun g => (vsbs[g]?).getD 0 }

def parseDir : String → Option Dir
  | "l" => some .ltr | "r" => some .rtl | "t" => some .ttb | "b" => some .btt | _ => none

def natDir : String → Option (Option Dir)
  | "4" => some (some .ltr) | "5" => some (some .rtl) | "0" => some none | _ => none

def showG (g : G) : String := s!"{g.gid}:{g.cluster}:{g.xa}:{g.ya}:{g.xo}:{g.yo}"

def handle (ts : List String) : Option String :=
  match ts.drop 1 with
  | ["dispec", c] => do pure (b2s (RbModel.Spec.DI.isDI (← c.toNat?)))
  | ["digen", c] => do pure (b2s (genIsDI (← c.toNat?)))
  | ["dispecranges"] => pure (joinS (RbModel.Spec.DI.ranges.map fun r => s!"{r.1}-{r.2}"))
  | ["uinit", c] => do
      let t ← charTok c
      let r := initProps (ucdOf [t]) t.cp {}
      pure s!"{r.1.pack} {r.2.pack}"
  | ["useq", cs] => do
      let toks ← (splitOn1 cs ',').mapM charTok
      let u := ucdOf toks
      let r := setUnicodeProps u none false (initial (toks.map fun t => (t.cp, 0))) {}
      pure s!"{r.2.pack} {joinS (r.1.map fun g => toString g.props.pack)}"
  | ["fc", level, its] => do
      let level ← level.toNat?
      let l ← items its
      let c : Cfg := { dir := .ltr, nat := none, flags := 0, level := level, preLen := 0 }
      pure (joinS ((formClusters c l { nonAscii := true }).map fun g => toString g.cluster))
  | ["rg", level, its] => do
      let level ← level.toNat?
      let l ← items its
      pure (joinS ((reverseGraphemes level l).map fun g => s!"{g.gid}:{g.cluster}"))
  | ["del", level, its] => do
      let level ← level.toNat?
      let l ← items its
      let l := (List.range l.length).zipWith (fun i (g : G) => { g with xa := (i : Int) }) l
      pure (joinS ((deleteDI level l.length [] l).map fun g => s!"{g.gid}:{g.cluster}:{g.xa}"))
  | ["cmap", _hex, recipe, cps] => do
      let f ← parseFont recipe
      let cs ← nats (splitOn1 cps ',')
      let best := match bestSub f.subs with | some i => toString i | none => "-"
      pure (" ".intercalate (best :: cs.map fun c => match nominal f c with | some g => toString g | none => "-"))
  | ["metrics", _hex, recipe, gs] => do
      let f ← parseFont recipe
      let gs ← nats (splitOn1 gs ',')
      pure (" ".intercalate (gs.map fun g => s!"{hAdvance f g}:{vAdvance f g}:{hOrigin f g}:{vOrigin f g}"))
  | ["shape", _hex, recipe, dir, _script, nat, flags, level, npre, text, aux] => do
      let f ← parseFont recipe
      let dir ← parseDir dir
      let nat ← natDir nat
      let flags ← flags.toNat?; let level ← level.toNat?; let npre ← npre.toNat?
      let tcs ← if text == "-" then some [] else (splitOn1 text ',').mapM fun x => do
        let (c, cl) ← kv x ':'
        pure ((← charTok c), (← cl.toNat?))
      let auxs ← if aux == "-" then some [] else (splitOn1 aux ',').mapM charTok
      let u := ucdOf (tcs.map (·.1) ++ auxs)
      let c : Cfg := { dir := dir, nat := nat, flags := flags, level := level, preLen := npre }
      match shape u f c (tcs.map fun t => (t.1.cp, t.2)) with
      | .error .oos => pure "oos"
      | .ok out => pure (" ".intercalate (s!"ok {out.length}" :: out.map showG))
  | _ => none

end RbModel.Drv.Pipeline
