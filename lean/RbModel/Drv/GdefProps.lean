import RbModel.GdefProps
import RbModel.Drv.Util

namespace RbModel.Drv.GdefProps
open RbModel RbModel.Drv

def cmds : List String := ["gdefprops"]

def optNat (s : String) : Option (Option Nat) := if s == "-" then some none else s.toNat?.map some

/-- gdefprops <font hex> <gid:class:attach,…> → ok <props,…> -/
def handle (ts : List String) : Option String :=
  match ts with
  | [_, _, items] => do
      let ps ← (splitOn1 items ',').mapM fun it =>
        match splitOn1 it ':' with
        | [_, c, a] => do
            let c ← optNat c
            let a ← optNat a
            pure (RbModel.GdefProps.glyphProps c (a.getD 0))
        | _ => none
      pure s!"ok {joinNats ps ","}"
  | _ => none

end RbModel.Drv.GdefProps
