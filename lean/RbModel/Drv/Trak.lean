import RbModel.Trak
import RbModel.Drv.Util

/-! Line-protocol driver for the trak model (same requests as harness/src/ops/trak.rs; `trak prep` is crate-only:
    it needs Unicode data). -/
namespace RbModel.Drv.Trak
open RbModel.Trak RbModel.Pipeline RbModel.Drv

def pInt (s : String) : Option Int :=
  if s.startsWith "-" then (s.drop 1).toString.toNat?.map (fun n => -(n : Int)) else s.toNat?.map (fun n => (n : Int))

def pItems (s : String) : Option (List S) :=
  (splitOn1 s ',').mapM (fun t => match splitOn1 t '.' with
    | [k, c, o] => do
        let k ← k.toNat?
        pure (({ cluster := k, xa := 1000, ya := 1000, props := { cont := c == "1" } } : G), o == "1")
    | _ => none)

def cmds : List String := ["trak"]

def handle (ts : List String) : Option String :=
  match ts.drop 1 with
  | ["apply", _hex, _ptem, dir, _level, t, items] => do
    let t ← pInt t
    let l ← pItems items
    let out := trackAll t (dir == "l" || dir == "r") l
    pure ("ok " ++ ",".intercalate (out.map (fun s => s!"{s.1.xa}:{s.1.ya}:{s.1.xo}:{s.1.yo}")))
  | _ => none

end RbModel.Drv.Trak
