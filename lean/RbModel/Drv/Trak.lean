import RbModel.Trak
import RbModel.Gen.TrakOrder
import RbModel.Drv.Util

/-! Line-protocol driver for the trak model (same requests as harness/src/ops/trak.rs; `trak prep` is crate-only:
    it needs Unicode data). -/
namespace RbModel.Drv.Trak
open RbModel.Trak RbModel.Pipeline RbModel.Drv

def pInt (s : String) : Option Int :=
  if s.startsWith "-" then (s.drop 1).toString.toNat?.map (fun n => -(n : Int)) else s.toNat?.map (fun n => (n : Int))

def pItems (s : String) : Option (List S) :=
  (splitOn1 s ',').mapM (fun t => match splitOn1 t '.' with
    | [k, c, o] => do
        let k ← k.toNat?
        pure (({ cluster := k, xa := 1000, ya := 1000, props := { cont := c == "1" } } : G), o == "1")
    | _ => none)

/-- `cluster.props.gprops.on` (props = packed unicode_props, gprops = glyph_props); positions start as 1000 / 1000 / 0 / 0 -/
def pItemsCx (s : String) : Option (List S) :=
  (splitOn1 s ',').mapM (fun t => match splitOn1 t '.' with
    | [k, p, g, o] => do
        let k ← k.toNat?; let p ← p.toNat?; let g ← g.toNat?
        pure (({ cluster := k, xa := 1000, ya := 1000, props := UProps.unpack p, var1 := g } : G), o == "1")
    | _ => none)

def pDir (s : String) : Option Dir :=
  match s with
  | "l" => some .ltr | "r" => some .rtl | "t" => some .ttb | "b" => some .btt | _ => none

def cmds : List String := ["trak"]

def handle (ts : List String) : Option String :=
  match ts.drop 1 with
  | ["apply", _hex, _ptem, dir, _level, t, items] => do
    let t ← pInt t
    let l ← pItems items
    let out := trackAll t (dir == "l" || dir == "r") l
    pure ("ok " ++ ",".intercalate (out.map (fun s => s!"{s.1.xa}:{s.1.ya}:{s.1.xo}:{s.1.yo}")))
  | ["poscx", _hex, _ptem, dir, flags, level, scratch, t, items] => do
    let dir ← pDir dir
    let flags ← flags.toNat?; let level ← level.toNat?; let scratch ← scratch.toNat?
    let t ← pInt t
    let l ← pItemsCx items
    let c : Cfg := { dir := dir, nat := none, flags := flags, level := level, preLen := 0 }
    let s : Scratch := { hasDI := scratch / 2 % 2 == 1 }
    let out := positionComplex RbModel.Gen.TrakOrder.trackingAfterZeroing c s dir t l
    pure ("ok " ++ ",".intercalate (out.map (fun g => s!"{g.xa}:{g.ya}:{g.xo}:{g.yo}")))
  | _ => none

end RbModel.Drv.Trak
