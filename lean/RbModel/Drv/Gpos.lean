import RbModel.Gpos
import RbModel.GposMark
import RbModel.Kern
import RbModel.Drv.Util

/-! line-protocol driver for the GPOS / kern model (same requests as harness/src/ops/gpos.rs) -/
namespace RbModel.Drv.Gpos
open RbModel.Gpos RbModel.Kern RbModel.Drv

def parseDir : String → Option Dir
  | "l" => some .ltr | "r" => some .rtl | "t" => some .ttb | "b" => some .btt | "i" => some .invalid
  | _ => none

def ints (ts : List String) : Option (List Int) := ts.mapM String.toInt?

def parsePos (t : String) : Option Pos :=
  match (splitOn1 t ':').mapM String.toInt? with
  | some [xa, ya, xo, yo, c, ty] => some { xa, ya, xo, yo, chain := c, atype := ty.toNat }
  | _ => none

def parsePoss (ts : List String) : Option (Array Pos) := (ts.mapM parsePos).map List.toArray

/-- positions as the release build holds them (`i32` wrap of the unbounded model value) -/
def fmtPos (p : Pos) : String :=
  s!"{wrap32 p.xa}:{wrap32 p.ya}:{wrap32 p.xo}:{wrap32 p.yo}:{p.chain}:{p.atype}"

def fmtPoss (p : Array Pos) : String := " ".intercalate (p.toList.map fmtPos)

def errStr : Err → String
  | .oob => "panic oob" | .assert => "panic assert" | .fuel => "model-fuel"

def splitBar (ts : List String) : List String × List String :=
  (ts.takeWhile (· ≠ "|"), (ts.dropWhile (· ≠ "|")).drop 1)

def parseKInfo (t : String) : Option KInfo :=
  match nats (splitOn1 t ':') with
  | some [g, m, mk, di] => some { gid := g, mask := m, mark := mk ≠ 0, di := di ≠ 0 }
  | _ => none

def parseKInfos (t : String) : Option (Array KInfo) :=
  if t = "-" then some #[] else ((splitOn1 t ',').mapM parseKInfo).map List.toArray

def parseTriples (t : String) : Option (List (Nat × Nat × Int)) :=
  if t = "-" then some [] else
  (splitOn1 t ',').mapM fun x =>
    match splitOn1 x ':' with
    | [l, r, v] => do pure ((← l.toNat?), (← r.toNat?), (← v.toInt?))
    | _ => none

def kernOfTriples (ps : List (Nat × Nat × Int)) (l r : Nat) : Int :=
  match ps.find? (fun p => p.1 = l ∧ p.2.1 = r) with
  | some p => p.2.2
  | none => 0

def parsePairs (t : String) : Option (Array (Nat × Int)) :=
  if t = "-" then some #[] else
  ((splitOn1 t '/').mapM fun x =>
    match splitOn1 x '=' with
    | [k, v] => do pure ((← k.toNat?), (← v.toInt?))
    | _ => none).map List.toArray

def parseSub (t : String) : Option KSub :=
  match splitOn1 t ':' with
  | [v, h, c, s, ps] => do
      pure { isVariable := v = "1", horizontal := h = "1", crossStream := c = "1", stateMachine := s = "1",
             pairs := (← parsePairs ps) }
  | _ => none

def parseSubs (t : String) : Option (List KSub) :=
  if t = "-" then some [] else (splitOn1 t ';').mapM parseSub

/-- `kerx drv` infos: gid:mask:class:di, class 0 none / 1 base / 2 ligature / 3 mark -/
def parseKxInfo (t : String) : Option KInfo :=
  match nats (splitOn1 t ':') with
  | some [g, m, cls, di] => some { gid := g, mask := m, mark := cls = 3, di := di ≠ 0 }
  | _ => none

def parseKxInfos (t : String) : Option (Array KInfo) :=
  if t = "-" then some #[] else ((splitOn1 t ',').mapM parseKxInfo).map List.toArray

/-- `kerx drv` subtable: v:h:c:format:pairs — the pairs are every non-zero `glyphs_kerning` value of the subtable
    (sorted by key), whatever its format -/
def parseXSub (t : String) : Option XSub :=
  match splitOn1 t ':' with
  | [v, h, c, f, ps] => do
      let pairs ← parsePairs ps
      pure { isVariable := v = "1", horizontal := h = "1", crossStream := c = "1", format := (← f.toNat?),
             kernOf := fmt0Kerning pairs }
  | _ => none

def parseXSubs (t : String) : Option (List XSub) :=
  if t = "-" then some [] else (splitOn1 t ';').mapM parseXSub

def b01 (b : Bool) : String := if b then "1" else "0"

/-- the model side of `gp sub`: `kind-specific tokens` -/
def applyModel (d : Dir) (idx : Nat) (m : List String) (p : Array Pos) : Option String :=
  let unchanged := s!"ok 0 {idx} 0 {fmtPoss p}"
  match m with
  | ["cursive", i, j, rtl, enx, eny, exx, exy, applies] => do
      let i ← i.toNat?; let j ← j.toNat?
      let v ← ints [enx, eny, exx, exy]
      if applies = "0" then pure unchanged else
      match v with
      | [enx, eny, exx, exy] =>
        match cursiveApply p i j d (rtl = "1") enx eny exx exy with
        | .ok (some (q, _)) => pure s!"ok 1 {j + 1} 1 {fmtPoss q}"
        | .ok none => pure unchanged
        | .error e => pure (errStr e)
      | _ => none
  | ["mark", gp, mx, my, bx, byy, applies] => do
      let gp ← gp.toNat?
      let v ← ints [mx, my, bx, byy]
      if applies = "0" then pure unchanged else
      match v with
      | [mx, my, bx, byy] =>
        match markArrayApply p idx gp mx my bx byy with
        | .ok (some q) => pure s!"ok 1 {idx + 1} 1 {fmtPoss q}"
        | .ok none => pure unchanged
        | .error e => pure (errStr e)
      | _ => none
  | ["single", xp, yp, xa, ya, applies] => do
      let v ← ints [xp, yp, xa, ya]
      if applies = "0" then pure unchanged else
      match v with
      | [xp, yp, xa, ya] =>
        match valueApply { xPlacement := xp, yPlacement := yp, xAdvance := xa, yAdvance := ya } d p idx with
        | .ok (q, _) => pure s!"ok 1 {idx + 1} 0 {fmtPoss q}"
        | .error e => pure (errStr e)
      | _ => none
  | ["pair", j, a1, a2, a3, a4, b1, b2, b3, b4, applies] => do
      let j ← j.toNat?
      let v ← ints [a1, a2, a3, a4, b1, b2, b3, b4]
      if applies = "0" then pure unchanged else
      match v with
      | [a1, a2, a3, a4, b1, b2, b3, b4] =>
        let v1 : ValueRecord := { xPlacement := a1, yPlacement := a2, xAdvance := a3, yAdvance := a4 }
        let v2 : ValueRecord := { xPlacement := b1, yPlacement := b2, xAdvance := b3, yAdvance := b4 }
        match pairApply v1 v2 d p idx j with
        | .ok (q, _, _) => pure s!"ok 1 {if v2.isEmpty then j else j + 1} 0 {fmtPoss q}"
        | .error e => pure (errStr e)
      | _ => none
  | _ => none


/-- `-` = no device table, else the delta the device yields at the face's ppem -/
def parseDev (t : String) : Option (Option Int) :=
  if t = "-" then some none else t.toInt?.map some

/-- eight tokens: xPlacement yPlacement xAdvance yAdvance xPlaDevice yPlaDevice xAdvDevice yAdvDevice -/
def parseVRD : List String → Option ValueRecordD
  | [xp, yp, xa, ya, d1, d2, d3, d4] => do
      pure { xPlacement := (← xp.toInt?), yPlacement := (← yp.toInt?), xAdvance := (← xa.toInt?), yAdvance := (← ya.toInt?),
             xPlaDevice := (← parseDev d1), yPlaDevice := (← parseDev d2), xAdvDevice := (← parseDev d3),
             yAdvDevice := (← parseDev d4) }
  | _ => none

/-- the model side of `gp subd`: value records with device tables on a face with ppem (ux / uy = ppem_x / ppem_y ≠ 0) -/
def applyModelD (d : Dir) (idx : Nat) (m : List String) (p : Array Pos) : Option String :=
  let unchanged := s!"ok 0 {idx} 0 {fmtPoss p}"
  match m with
  | "singled" :: ux :: uy :: rest => do
      let (vt, applies) := (rest.take 8, rest.drop 8)
      let v ← parseVRD vt
      if applies = ["0"] then pure unchanged else
      match valueApplyD v (ux = "1") (uy = "1") d p idx with
      | .ok (q, _) => pure s!"ok 1 {idx + 1} 0 {fmtPoss q}"
      | .error e => pure (errStr e)
  | "paird" :: j :: ux :: uy :: rest => do
      let j ← j.toNat?
      let v1 ← parseVRD (rest.take 8)
      let v2 ← parseVRD ((rest.drop 8).take 8)
      if rest.drop 16 = ["0"] then pure unchanged else
      match pairApplyD v1 v2 (ux = "1") (uy = "1") d p idx j with
      | .ok (q, _, _) => pure s!"ok 1 {if v2.isEmpty then j else j + 1} 0 {fmtPoss q}"
      | .error e => pure (errStr e)
  | _ => none

/-! ### `gp pos`: the attachment lookups of a whole GPOS table on an injected buffer (model: GposMark.lean) -/
section pos
open RbModel.GposMark

/-- tiny parser over a list of integers -/
abbrev P (α : Type) := List Int → Option (α × List Int)

def pInt : P Int
  | n :: rest => some (n, rest)
  | [] => none

def pNat : P Nat := fun ts => do
  let (n, ts) ← pInt ts
  if n < 0 then none else pure (n.toNat, ts)

def pMany {α} (p : P α) : Nat → P (List α)
  | 0, ts => some ([], ts)
  | k + 1, ts => do
      let (x, ts) ← p ts
      let (xs, ts) ← pMany p k ts
      pure (x :: xs, ts)

def pCounted {α} (p : P α) : P (List α) := fun ts => do
  let (n, ts) ← pNat ts
  pMany p n ts

def pAnchor : P Anchor := fun ts => do
  let (k, ts) ← pNat ts
  if k == 0 then pure (none, ts) else do
    let (x, ts) ← pInt ts
    let (y, ts) ← pInt ts
    pure (some (x, y), ts)

def pMark : P (Nat × Int × Int) := fun ts => do
  let (c, ts) ← pNat ts
  let (x, ts) ← pInt ts
  let (y, ts) ← pInt ts
  pure ((c, x, y), ts)

def pSub (typ : Nat) : P Sub := fun ts => do
  if typ == 3 then
    let (cov, ts) ← pCounted pNat ts
    let (ee, ts) ← pMany (fun ts => do
        let (a, ts) ← pAnchor ts
        let (b, ts) ← pAnchor ts
        pure ((a, b), ts)) cov.length ts
    pure (.cursive cov ee, ts)
  else
    let (mk, ts) ← pCounted pNat ts
    let (marks, ts) ← pMany pMark mk.length ts
    let (tg, ts) ← pCounted pNat ts
    let (k, ts) ← pNat ts
    if typ == 5 then
      let (ligs, ts) ← pMany (fun ts => do
          let (rows, ts) ← pNat ts
          let (flat, ts) ← pMany pAnchor (rows * k) ts
          pure (({ rows := rows, cols := k, flat := flat } : Matrix), ts)) tg.length ts
      pure (.markLig mk tg marks ligs, ts)
    else
      let (flat, ts) ← pMany pAnchor (tg.length * k) ts
      let m : Matrix := { rows := tg.length, cols := k, flat := flat }
      if typ == 4 then pure (.markBase mk tg marks m, ts)
      else if typ == 6 then pure (.markMark mk tg marks m, ts)
      else none

def pLookup : P GposMark.Lookup := fun ts => do
  let (typ, ts) ← pNat ts
  let (props, ts) ← pNat ts
  let (subs, ts) ← pCounted (pSub typ) ts
  pure ({ props := props, subtables := subs }, ts)

def pFont : P (Gsub.Font × List GposMark.Lookup) := fun ts => do
  let (hg, ts) ← pNat ts
  let (sets, ts) ← pCounted (pCounted pNat) ts
  let (lks, ts) ← pCounted pLookup ts
  pure (({ hasGdef := hg != 0, markSets := sets }, lks), ts)

def pMap : P LookupMap := fun ts => do
  let (i, ts) ← pNat ts; let (m, ts) ← pNat ts; let (zn, ts) ← pNat ts; let (zj, ts) ← pNat ts; let (ps, ts) ← pNat ts
  pure ({ index := i, mask := m, autoZwnj := zn != 0, autoZwj := zj != 0, perSyllable := ps != 0 }, ts)

def parseGInfo (t : String) : Option Info :=
  match nats (splitOn1 t ':') with
  | some [g, m, gp, lp, up] => some { gid := g, mask := m, var1 := gp % 65536 + (lp % 256) * 65536, var2 := up % 65536 }
  | _ => none

def splitAtTok (ts : List String) (k : String) : Option (List String × List String) :=
  let i := ts.idxOf k
  if i < ts.length then some (ts.take i, ts.drop (i + 1)) else none

/-- gp pos <fontid> <dir> <finish> <infos> FONT <ints…> MAPS <ints…> | <pos…> -/
def handlePos (d finish infos : String) (rest : List String) : Option String := do
  let d ← parseDir d
  let infos ← (splitOn1 infos ',').mapM parseGInfo
  let (_, rest) ← splitAtTok rest "FONT"
  let (fontToks, rest) ← splitAtTok rest "MAPS"
  let (mapToks, ps) := splitBar rest
  let (fl, _) ← pFont (← ints fontToks)
  let (maps, _) ← pCounted pMap (← ints mapToks)
  let p ← parsePoss ps
  let c : GposMark.Ctx := { font := fl.1, info := infos, len := infos.length, pos := p, dir := d }
  match positionBuffer fl.2 maps c (finish = "1") with
  | .ok (q, has) => pure s!"ok {b01 has} {fmtPoss q}"
  | .error e => pure (errStr e)

end pos

def cmds : List String := ["gp", "kern", "kerx"]

def handle (ts : List String) : Option String :=
  match ts with
  | "gp" :: "prop" :: d :: len :: i :: ps => do
      let d ← parseDir d; let len ← len.toNat?; let i ← i.toNat?; let p ← parsePoss ps
      match propagate p len i d MAX_NESTING_LEVEL with
      | .ok (q, _) => pure s!"ok {fmtPoss q}"
      | .error e => pure (errStr e)
  | "gp" :: "propn" :: d :: len :: i :: nl :: ps => do       -- explicit nesting budget
      let d ← parseDir d; let len ← len.toNat?; let i ← i.toNat?; let nl ← nl.toNat?; let p ← parsePoss ps
      match propagate p len i d nl with
      | .ok (q, _) => pure s!"ok {fmtPoss q}"
      | .error e => pure (errStr e)
  | "gp" :: "finish" :: d :: len :: has :: ps => do
      let d ← parseDir d; let len ← len.toNat?; let p ← parsePoss ps
      match positionFinishOffsets p len d (has = "1") with
      | .ok (q, _) => pure s!"ok {fmtPoss q}"
      | .error e => pure (errStr e)
  | "gp" :: "depth" :: d :: len :: has :: ps => do          -- model only: deepest recursion
      let d ← parseDir d; let len ← len.toNat?; let p ← parsePoss ps
      match positionFinishOffsets p len d (has = "1") with
      | .ok (_, dep) => pure s!"ok {dep}"
      | .error e => pure (errStr e)
  | "gp" :: "start" :: len :: ps => do
      let len ← len.toNat?; let p ← parsePoss ps
      match positionStart p len with
      | .ok q => pure s!"ok {fmtPoss q}"
      | .error e => pure (errStr e)
  | "gp" :: "pos" :: _fid :: d :: finish :: infos :: rest => handlePos d finish infos rest
  | "gp" :: "sub" :: _kind :: _hex :: _props :: d :: idx :: _infos :: rest => do
      let d ← parseDir d; let idx ← idx.toNat?
      let (m, ps) := splitBar rest
      let p ← parsePoss ps
      applyModel d idx m p
  | "gp" :: "subd" :: _px :: _py :: _kind :: _hex :: _props :: d :: idx :: _infos :: rest => do
      let d ← parseDir d; let idx ← idx.toNat?
      let (m, ps) := splitBar rest
      let p ← parsePoss ps
      applyModelD d idx m p
  | "kern" :: "mk" :: d :: len :: mask :: cross :: pairs :: infos :: rest => do
      let d ← parseDir d; let len ← len.toNat?; let mask ← mask.toNat?
      let tr ← parseTriples pairs; let infos ← parseKInfos infos
      let (_, ps) := splitBar rest
      let p ← parsePoss ps
      match machineKern infos p len mask d (cross = "1") (kernOfTriples tr) with
      | .ok (q, f) => pure s!"ok {b01 f} {fmtPoss q}"
      | .error e => pure (errStr e)
  | "kern" :: "drv" :: _hex :: d :: _feat :: mask :: req :: subs :: infos :: rest => do
      let d ← parseDir d; let mask ← mask.toNat?
      let subs ← parseSubs subs; let infos ← parseKInfos infos
      let (_, ps) := splitBar rest
      let p ← parsePoss ps
      match kernDriver subs (req = "1") mask d (fun _ b => b) { infos, pos := p, len := infos.size } with
      | .ok b =>
        let gs := joinNats (b.infos.toList.map (·.gid)) ","
        pure s!"ok {b01 b.attach} {if gs.isEmpty then "-" else gs} {fmtPoss b.pos}"
      | .error e => pure (errStr e)
  | "kerx" :: "drv" :: _hex :: d :: _feat :: mask :: req :: subs :: infos :: rest => do
      let d ← parseDir d; let mask ← mask.toNat?
      let subs ← parseXSubs subs; let infos ← parseKxInfos infos
      let (_, ps) := splitBar rest
      let p ← parsePoss ps
      match kerxDriver subs (req = "1") mask d (fun _ b => b) { infos, pos := p, len := infos.size } with
      | .ok b =>
        let gs := joinNats (b.infos.toList.map (·.gid)) ","
        pure s!"ok {b01 b.attach} {if gs.isEmpty then "-" else gs} {fmtPoss b.pos}"
      | .error e => pure (errStr e)
  | ["kern", "f0", _hex, _n, l, r, pairs] => do
      let l ← l.toNat?; let r ← r.toNat?; let ps ← parsePairs pairs
      pure s!"ok {fmt0Kerning ps l r}"
  | _ => none

end RbModel.Drv.Gpos
