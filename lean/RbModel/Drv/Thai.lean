import RbModel.Thai
import RbModel.Drv.Util

namespace RbModel.Drv.Thai
open RbModel RbModel.Drv

def cmds : List String := ["thai"]

def hexNat (s : String) : Option Nat :=
  s.toList.foldlM (fun acc c =>
    if c.isDigit then some (acc * 16 + (c.toNat - '0'.toNat))
    else if 'a' ≤ c ∧ c ≤ 'f' then some (acc * 16 + (c.toNat - 'a'.toNat + 10))
    else if 'A' ≤ c ∧ c ≤ 'F' then some (acc * 16 + (c.toNat - 'A'.toNat + 10))
    else none) 0

/-- thai <fontid> <level> <hexcp,…> → ok gid:cluster,… -/
def handle (ts : List String) : Option String :=
  match ts with
  | [_, _, level, text] => do
      let level ← level.toNat?
      let cps ← if text == "-" then some [] else (splitOn1 text ',').mapM hexNat
      let n := cps.length
      let info : List Info := cps.mapIdx fun i c => { gid := c, cluster := i }
      let b : Buf := { info := info, out := List.replicate n {}, len := n, level := level,
                       maxLen := max 16384 (64 * n), maxOps := 16384 }
      match RbModel.Thai.preprocess b with
      | .error _ => pure "panic"
      | .ok b =>
        let body := (b.info.take b.len).map fun x => s!"{x.gid}:{x.cluster}"
        pure s!"ok {if body.isEmpty then "-" else ",".intercalate body}"
  | _ => none

end RbModel.Drv.Thai
