import RbModel.Gsub
import RbModel.Drv.Buffer

namespace RbModel.Drv.Gsub
open RbModel RbModel.Gsub RbModel.Drv

def cmds : List String := ["gsub"]

/-- tiny parser over a list of numbers -/
abbrev P (α : Type) := List Nat → Option (α × List Nat)

def num : P Nat
  | n :: rest => some (n, rest)
  | [] => none

def many {α} (p : P α) : Nat → P (List α)
  | 0, ts => some ([], ts)
  | k + 1, ts => do
      let (x, ts) ← p ts
      let (xs, ts) ← many p k ts
      pure (x :: xs, ts)

def counted {α} (p : P α) : P (List α) := fun ts => do
  let (n, ts) ← num ts
  many p n ts

def pair : P (Nat × Nat) := fun ts => do
  let (a, ts) ← num ts
  let (b, ts) ← num ts
  pure ((a, b), ts)

def cov : P Cov := counted num
def classDef : P ClassDef := counted pair

def rule : P Rule := fun ts => do
  let (inp, ts) ← counted num ts
  let (lk, ts) ← counted pair ts
  pure ({ input := inp, lookups := lk }, ts)

def chainRule : P ChainRule := fun ts => do
  let (b, ts) ← counted num ts
  let (i, ts) ← counted num ts
  let (a, ts) ← counted num ts
  let (lk, ts) ← counted pair ts
  pure ({ backtrack := b, input := i, lookahead := a, lookups := lk }, ts)

def optSet {α} (p : P α) : P (Option (List α)) := fun ts => do
  let (present, ts) ← num ts
  if present == 0 then pure (none, ts) else do
    let (rs, ts) ← counted p ts
    pure (some rs, ts)

def lig : P (List Nat × Nat) := fun ts => do
  let (comps, ts) ← counted num ts
  let (g, ts) ← num ts
  pure ((comps, g), ts)

def subtable : P Subtable := fun ts => do
  let (kind, ts) ← num ts
  match kind with
  | 1 => do let (c, ts) ← cov ts; let (d, ts) ← num ts; pure (.single1 c (d : Int), ts)
  | 2 => do let (c, ts) ← cov ts; let (s, ts) ← counted num ts; pure (.single2 c s, ts)
  | 3 => do let (c, ts) ← cov ts; let (s, ts) ← counted (counted num) ts; pure (.multiple c s, ts)
  | 4 => do let (c, ts) ← cov ts; let (s, ts) ← counted (counted num) ts; pure (.alternate c s, ts)
  | 5 => do let (c, ts) ← cov ts; let (s, ts) ← counted (counted lig) ts; pure (.ligature c s, ts)
  | 6 => do let (c, ts) ← cov ts; let (s, ts) ← counted (counted rule) ts; pure (.context1 c s, ts)
  | 7 => do
      let (c, ts) ← cov ts; let (cd, ts) ← classDef ts; let (s, ts) ← counted (optSet rule) ts
      pure (.context2 c cd s, ts)
  | 8 => do let (cs, ts) ← counted cov ts; let (lk, ts) ← counted pair ts; pure (.context3 cs lk, ts)
  | 9 => do let (c, ts) ← cov ts; let (s, ts) ← counted (counted chainRule) ts; pure (.chain1 c s, ts)
  | 10 => do
      let (c, ts) ← cov ts; let (b, ts) ← classDef ts; let (i, ts) ← classDef ts; let (a, ts) ← classDef ts
      let (s, ts) ← counted (optSet chainRule) ts
      pure (.chain2 c b i a s, ts)
  | 11 => do
      let (b, ts) ← counted cov ts; let (i, ts) ← counted cov ts; let (a, ts) ← counted cov ts
      let (lk, ts) ← counted pair ts
      pure (.chain3 b i a lk, ts)
  | 12 => do
      let (c, ts) ← cov ts; let (b, ts) ← counted cov ts; let (a, ts) ← counted cov ts
      let (s, ts) ← counted num ts
      pure (.reverse c b a s, ts)
  | _ => none

def lookup : P Lookup := fun ts => do
  let (props, ts) ← num ts
  let (subs, ts) ← counted subtable ts
  pure ({ props := props, subtables := subs }, ts)

def font : P Font := fun ts => do
  let (hg, ts) ← num ts
  let (hc, ts) ← num ts
  let (props, ts) ← counted pair ts
  let (sets, ts) ← counted (counted num) ts
  let (lks, ts) ← counted lookup ts
  pure ({ hasGdef := hg != 0, hasGlyphClasses := hc != 0, glyphProps := props, markSets := sets, lookups := lks }, ts)

def lookupMap : P LookupMap := fun ts => do
  let (i, ts) ← num ts; let (m, ts) ← num ts; let (zn, ts) ← num ts; let (zj, ts) ← num ts
  let (r, ts) ← num ts; let (ps, ts) ← num ts
  pure ({ index := i, mask := m, autoZwnj := zn != 0, autoZwj := zj != 0, random := r != 0, perSyllable := ps != 0 }, ts)

def splitAtTok (ts : List String) (k : String) : Option (List String × List String) :=
  let i := ts.idxOf k
  if i < ts.length then some (ts.take i, ts.drop (i + 1)) else none

/-- gsub <fontid> <dir> <script> <lang> <feats> <substart> FONT <nums> MAPS <nums> BUF <kv…> -/
def handle (ts : List String) : Option String := do
  let substart ← ts[6]?
  let (_, rest) ← splitAtTok ts "FONT"
  let (fontToks, rest) ← splitAtTok rest "MAPS"
  let (mapToks, bufToks) ← splitAtTok rest "BUF"
  let fnums ← fontToks.mapM String.toNat?
  let (f, _) ← font fnums
  let mnums ← mapToks.mapM String.toNat?
  let (maps, _) ← counted lookupMap mnums
  let b ← bufToks.foldlM Buffer.parseKV ({} : Buf)
  let b := if substart == "1" then setGlyphPropsAll f b else b
  let c : Ctx := { buf := b, font := f }
  -- fuel: far above any operation budget the code enforces (max_ops ≥ 16384 is set by the request itself)
  match applyLayoutTable c maps 100000 with
  | .error e => pure s!"panic {Buffer.panicName e}"
  | .ok c => pure s!"ok {Buffer.fmtState c.buf}"

end RbModel.Drv.Gsub
