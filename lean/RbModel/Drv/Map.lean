import RbModel.Map
import RbModel.FeatureGsub
import RbModel.Gen.Map
import RbModel.Drv.Util
import RbModel.Drv.Gsub

namespace RbModel.Drv.Map
open RbModel.Drv RbModel.Map

def cfg : Cfg := genCfg

def optNat (s : String) : Option (Option Nat) :=
  if s = "-" then some none else s.toNat?.map some

def showOpt : Option Nat → String
  | some n => toString n
  | none => "-"

def colon (s : String) : List String := splitOn1 s ':'

/-- split the token list at lone ";" tokens -/
def segments (ts : List String) : List (List String) :=
  let r := ts.foldl (fun (acc : List (List String) × List String) t =>
    if t = ";" then (acc.1 ++ [acc.2], []) else (acc.1, acc.2 ++ [t])) ([], [])
  r.1 ++ [r.2]

structure Facts where
  present : List Nat
  required : List (Option (Nat × Nat))
  nlookups : List Nat
  tags : List (Nat × List (Option Nat))      -- tag, [lang0, lang1, any0, any1]
  feats : List (Nat × Nat × List Nat)        -- table, feature index, lookups

def parseReq (s : String) : Option (Option (Nat × Nat)) :=
  if s = "-" then some none
  else match colon s with
    | [a, b] => do let a ← a.toNat?; let b ← b.toNat?; pure (some (a, b))
    | _ => none

def parseFacts (ts : List String) : Option Facts :=
  match ts with
  | "P" :: p0 :: p1 :: "R" :: r0 :: r1 :: "N" :: n0 :: n1 :: "T" :: rest => do
    let present ← nats [p0, p1]
    let r0 ← parseReq r0; let r1 ← parseReq r1
    let nl ← nats [n0, n1]
    let tagToks := rest.takeWhile (· ≠ "X")
    let featToks := (rest.dropWhile (· ≠ "X")).drop 1
    let tags ← tagToks.mapM (fun t => match colon t with
      | [tag, a, b, c, d] => do
          let tag ← tag.toNat?
          let xs ← [a, b, c, d].mapM optNat
          pure (tag, xs)
      | _ => none)
    let feats ← featToks.mapM (fun t => match colon t with
      | [tb, fi, ls] => do
          let tb ← tb.toNat?; let fi ← fi.toNat?
          let ls ← if ls = "-" then some [] else nats (splitOn1 ls ',')
          pure (tb, fi, ls)
      | _ => none)
    pure ⟨present, [r0, r1], nl, tags, feats⟩
  | _ => none

def Facts.font (f : Facts) : Font :=
  { present := fun t => (f.present[t]?).getD 0 == 1
    required := fun t => (f.required[t]?).getD none
    lookupCount := fun t => (f.nlookups[t]?).getD 0
    langFeature := fun t tag => match f.tags.find? (·.1 == tag) with
      | some e => (e.2[t]?).getD none
      | none => none
    anyFeature := fun t tag => match f.tags.find? (·.1 == tag) with
      | some e => (e.2[t + 2]?).getD none
      | none => none
    featureLookups := fun t fi => (f.feats.find? (fun e => e.1 == t && e.2.1 == fi)).map (·.2.2) }

def dumpFMap (f : FMap) : String :=
  s!"{f.tag}:{showOpt f.index0}:{showOpt f.index1}:{f.stage0}:{f.stage1}:{f.shift}:{f.mask}:{f.oneMask}:{b2s f.autoZwnj}:{b2s f.autoZwj}:{b2s f.random}:{b2s f.perSyllable}"

def dumpLMap (l : LMap) : String :=
  s!"{l.index}:{l.mask}:{b2s l.autoZwnj}:{b2s l.autoZwj}:{b2s l.random}:{b2s l.perSyllable}"

def words (xs : List String) : String := "".intercalate (xs.map (" " ++ ·))

def dumpMap (m : RbModel.Map.Map) : String :=
  s!"g={m.globalMask} F{words (m.features.map dumpFMap)} ; L0{words (m.lookups0.map dumpLMap)} S0{words (m.stages0.map toString)} ; L1{words (m.lookups1.map dumpLMap)} S1{words (m.stages1.map toString)}"

def dumpInfo (i : RbModel.Map.Info) : String :=
  s!"{i.tag}:{i.seq}:{i.maxValue}:{i.flags}:{i.defaultValue}:{i.stage0}:{i.stage1}"

def applyOp (b : Builder) (t : String) : Option Builder :=
  match colon t with
  | ["a", tag, fl, v] => do
      let tag ← tag.toNat?; let fl ← fl.toNat?; let v ← v.toNat?
      pure (b.addFeature cfg tag fl v)
  | ["e", tag, fl, v] => do
      let tag ← tag.toNat?; let fl ← fl.toNat?; let v ← v.toNat?
      pure (b.enableFeature cfg tag fl v)
  | ["d", tag] => do let tag ← tag.toNat?; pure (b.disableFeature cfg tag)
  | ["pg"] => pure b.pauseGsub
  | ["pp"] => pure b.pauseGpos
  | _ => none

def parseFeat (t : String) : Option RbModel.Feature.Feature :=
  match colon t with
  | [tag, v, s, e] => do
      let tag ← tag.toNat?; let v ← v.toNat?; let s ← s.toNat?; let e ← e.toNat?
      pure ⟨tag, v, s, e⟩
  | _ => none

def parseLookup (t : String) : Option (Nat × Lookup) :=
  match colon t with
  | [k, idx, body] => do
      let idx ← idx.toNat?
      let entries := if body = "-" then [] else splitOn1 body ','
      if k = "s" then do
        let m ← entries.mapM (fun e => match splitOn1 e '.' with
          | [a, b] => do let a ← a.toNat?; let b ← b.toNat?; pure (a, b)
          | _ => none)
        pure (idx, Lookup.single m)
      else if k = "t" then do
        let m ← entries.mapM (fun e => match splitOn1 e '.' with
          | [a, b] => do
              let a ← a.toNat?
              let alts ← if b = "" then some [] else nats (splitOn1 b '/')
              pure (a, alts)
          | _ => none)
        pure (idx, Lookup.alternate m)
      else none
  | _ => none

def dirOf (s : String) : Option Nat :=
  match s with
  | "l" => some 0 | "r" => some 1 | "t" => some 2 | "b" => some 3 | _ => none

def cmds : List String := ["map"]

def handle (ts : List String) : Option String :=
  match ts.drop 1 with
  | ["consts"] =>
      pure (joinNats [cfg.maxBits, cfg.maxValue, cfg.globalShift, cfg.globalBit, cfg.flagsDefined,
        RbModel.Gen.Map.glyphFlagUnsafeToBreak, RbModel.Gen.Map.glyphFlagUnsafeToConcat,
        RbModel.Gen.Map.glyphFlagSafeToInsertTatweel, cfg.fGlobal, cfg.fHasFallback, cfg.fManualZwnj,
        cfg.fManualZwj, cfg.fGlobalSearch, cfg.fRandom, cfg.fPerSyllable])
  | "font" :: _ => pure "ok"
  | "fonthex" :: _ => pure "ok"
  | "compile" :: rest =>
      match segments rest with
      | [[_, _, _, simple], facts, ops] => do
          let facts ← parseFacts facts
          let b ← ops.foldlM applyOp ({ isSimple := simple == "1" } : Builder)
          let m := b.compile cfg facts.font
          pure (dumpMap m ++ " ; I" ++ words (m.infos.map dumpInfo))
      | _ => none
  | "plan" :: rest =>
      match segments rest with
      | [[_, dir, _, _], facts, feats] => do
          let facts ← parseFacts facts
          let dir ← dirOf dir
          let user ← feats.mapM parseFeat
          let m := (planBuilder cfg dir user).compile cfg facts.font
          let us := user.map (fun f =>
            let ms := m.getMask f.tag
            s!"{f.tag}:{f.value}:{f.start}:{f.stop}:{b2s (RbModel.Feature.isGlobal f)}:{ms.1}:{ms.2}:{m.get1Mask f.tag}")
          pure (dumpMap m ++ " ; U" ++ words us)
      | _ => none
  | "setmasks" :: len :: v :: m :: s :: e :: infos => do
      let len ← len.toNat?
      let p ← nats [v, m, s, e]
      let gs ← infos.mapM (fun t => match colon t with
        | [a, b] => do let a ← a.toNat?; let b ← b.toNat?; pure (⟨0, a, b⟩ : Glyph)
        | _ => none)
      if len > gs.length then none
      else match p with
        | [v, m, s, e] => pure (joinNats ((setMasks gs len v m s e).map (·.mask)))
        | _ => none
  | "shape" :: rest =>
      match segments rest with
      | [[_], facts, lks, feats, text] => do
          let facts ← parseFacts facts
          let user ← feats.mapM parseFeat
          let text ← text.mapM (fun t => match colon t with
            | [_, g, c] => do let g ← g.toNat?; let c ← c.toNat?; pure (g, c)
            | _ => none)
          -- `G <numbers>`: the whole GSUB / GDEF of the font (tools/gsubgen.py::flatten): plan and masks from Map.lean,
          -- lookups by the interpreter model Gsub.lean (all lookup types, both drivers)
          if lks.head? == some "G" then do
            let fnums ← (lks.drop 1).mapM String.toNat?
            let (gf, _) ← RbModel.Drv.Gsub.font fnums
            match RbModel.FeatureGsub.shapeGsub cfg facts.font gf user text with
            | .error e => return s!"panic {RbModel.Drv.Buffer.panicName e}"
            | .ok out => return (s!"ok {out.length}" ++ words (out.map (fun g => s!"{g.gid}:{g.cluster}")))
          let lks ← lks.mapM parseLookup
          let out := shapeFeatures cfg facts.font (fun i => (lks.find? (·.1 == i)).map (·.2)) user text
          pure (s!"ok {out.length}" ++ words (out.map (fun g => s!"{g.gid}:{g.cluster}")))
      | _ => none
  | _ => none

end RbModel.Drv.Map
