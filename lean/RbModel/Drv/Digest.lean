import RbModel.Digest
import RbModel.Gen.Digest
import RbModel.Drv.Util

namespace RbModel.Drv.Digest
open RbModel.Digest RbModel.Drv

def shifts := RbModel.Gen.Digest.shifts

def applyOp (st : Digest × String) (op : String) : Option (Digest × String) :=
  let (d, rets) := st
  let k := op.take 1 |>.toString
  let rest := op.drop 1 |>.toString
  match k with
  | "a" => do let g ← rest.toNat?; pure (RbModel.Digest.Digest.add shifts d g, rets)
  | "r" => match splitOn1 rest '-' with
      | [a, b] => do
          let a ← a.toNat?; let b ← b.toNat?
          let r := RbModel.Digest.Digest.addRange shifts d a b
          pure (r.1, rets ++ b2s r.2)
      | _ => none
  | "A" => do
      let gs ← if rest.isEmpty then some [] else nats (splitOn1 rest ',')
      pure (RbModel.Digest.Digest.addArray shifts d gs, rets)
  | _ => none

/-- a coverage table as written in the request: format 1 `g,g,…`, format 2 `a-b,a-b,…`, `-` = empty -/
def parseCov (fmt items : String) : Option Coverage :=
  let parts := if items == "-" then [] else splitOn1 items ','
  match fmt with
  | "1" => do let gs ← nats parts; pure (.glyphs gs)
  | "2" => do
      let rs ← parts.mapM fun p => match splitOn1 p '-' with
        | [a, b] => do let a ← a.toNat?; let b ← b.toNat?; pure (a, b)
        | _ => none
      pure (.ranges rs)
  | _ => none

/-- the coverage index `Coverage::get` returns; the request gives record `i` of a format 2 table the
    startCoverageIndex `i`; `checked_add` -/
def covGet (c : Coverage) (g : Nat) : Option Nat :=
  match c, c.find g with
  | _, none => none
  | .glyphs _, some i => some i
  | .ranges rs, some i =>
    match rs[i]? with
    | some r => if i + (g - r.1) < 65536 then some (i + (g - r.1)) else none
    | none => none

/-- `<fmt> <items> <fmt> <items> …` -/
def parseCovs : List String → Option (List Coverage)
  | [] => some []
  | fmt :: items :: rest => do
      let c ← parseCov fmt items
      let cs ← parseCovs rest
      pure (c :: cs)
  | _ => none

def cmds : List String := ["digest"]

def handle (ts : List String) : Option String :=
  match ts.drop 1 with
  | ["add", s, m, g] => do
      let s ← s.toNat?; let m ← m.toNat?; let g ← g.toNat?
      pure (toString (add s m g))
  | ["range", s, m, a, b] => do
      let s ← s.toNat?; let m ← m.toNat?; let a ← a.toNat?; let b ← b.toNat?
      let r := addRange s m a b
      pure s!"{r.1} {b2s r.2}"
  | ["has", s, m, g] => do
      let s ← s.toNat?; let m ← m.toNat?; let g ← g.toNat?
      pure (b2s (mayHaveGlyph s m g))
  | "full" :: m0 :: m1 :: m2 :: ops => do
      let d ← nats [m0, m1, m2]
      let (d, rets) ← ops.foldlM applyOp (d, "")
      pure s!"{joinNats d} r{rets}"
  | ["mayhave", a0, a1, a2, b0, b1, b2] => do
      let a ← nats [a0, a1, a2]; let b ← nats [b0, b1, b2]
      pure (b2s (RbModel.Digest.Digest.mayHave a b))
  | ["hasglyph", a0, a1, a2, g] => do
      let a ← nats [a0, a1, a2]; let g ← g.toNat?
      pure (b2s (RbModel.Digest.Digest.mayHaveGlyph shifts a g))
  | ["collect", m0, m1, m2, fmt, items] => do
      let d ← nats [m0, m1, m2]
      let c ← parseCov fmt items
      pure (joinNats (collect shifts d c))
  | "lookupdigest" :: _font :: _table :: _li :: "COVS" :: covs => do
      let cs ← parseCovs covs
      pure (joinNats (lookupDigest shifts cs))
  | ["covget", fmt, items, g] => do
      let c ← parseCov fmt items
      let g ← g.toNat?
      pure (match covGet c g with | some i => toString i | none => "-")
  | ["shifts"] => pure (joinNats shifts)
  | _ => none

end RbModel.Drv.Digest
