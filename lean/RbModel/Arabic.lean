/-
  Model of the joining pass of `src/hb/ot_shaper_arabic.rs` (Arabic, Syriac, N'Ko, Mongolian, … shaper):
  `get_joining_type`, `arabic_joining` (pre-context, main loop with back-patching of the previous
  letter, post-context), `mongolian_variation_selectors`, `data_create_arabic` (mask array) and
  `setup_masks_inner`; and of `buffer.rs::set_pre_context / set_post_context`.

  Operational: one Lean function per Rust loop.  The state table, the action numbers, the feature
  list and the per-character joining-type table are *parameters* here; the driver and the theorems
  instantiate them with `RbModel.Gen.Arabic.*`, regenerated from the compiled crate on every run.
  Index operations that would panic in Rust are `Except.error`.
  Not modelled: the `unsafe_to_concat` / `safe_to_insert_tatweel` calls inside the loops (they only
  touch the glyph-flag bits 0..2 of `mask`, which belong to the buffer model, C03/C04), `stch`.
  No imports (core only) so that the line-protocol driver links as a `lean_exe`.
-/
namespace RbModel.Arabic

/-- src: ot_shaper_arabic.rs::hb_arabic_joining_type_t -/
inductive JoiningType where
  | U | L | R | D | GroupAlaph | GroupDalathRish | T | X
  deriving DecidableEq, Repr, Inhabited

/-- `this_type as usize` (the enum discriminants). -/
def JoiningType.toNat : JoiningType → Nat
  | .U => 0 | .L => 1 | .R => 2 | .D => 3 | .GroupAlaph => 4 | .GroupDalathRish => 5 | .T => 7 | .X => 8

def JoiningType.all : List JoiningType := [.U, .L, .R, .D, .GroupAlaph, .GroupDalathRish, .T, .X]

def JoiningType.ofNat? (n : Nat) : Option JoiningType :=
  JoiningType.all.find? (fun t => t.toNat == n)

inductive Panic where
  | indexOutOfBounds
  deriving DecidableEq, Repr

/-! ### action numbers (`arabic_action_t`) — checked against `Gen.Arabic.actionValues` in Props/C11 -/
def ISOL : Nat := 0
def FINA : Nat := 1
def FIN2 : Nat := 2
def FIN3 : Nat := 3
def MEDI : Nat := 4
def MED2 : Nat := 5
def INIT : Nat := 6
def NONE : Nat := 7

/-- one `STATE_TABLE` entry: (prev_action, this_action, next_state) -/
abbrev Entry := Nat × Nat × Nat
abbrev StateTable := List (List Entry)

/-- `STATE_TABLE[state][this_type as usize]` (a Rust index panic is an error value) -/
def lookup (tbl : StateTable) (state : Nat) (t : JoiningType) : Except Panic Entry :=
  match tbl[state]? with
  | none => .error .indexOutOfBounds
  | some row =>
    match row[t.toNat]? with
    | none => .error .indexOutOfBounds
    | some e => .ok e

/-- `buffer.info[prev].set_arabic_shaping_action(a)` -/
def setAt (acts : List Nat) (i a : Nat) : Except Panic (List Nat) :=
  if i < acts.length then .ok (acts.set i a) else .error .indexOutOfBounds

/-! ### joining type of a character -/

/-- General categories (rb numbering) that make a character without table entry transparent:
    FORMAT = 1, ENCLOSING_MARK = 11, NON_SPACING_MARK = 12 (checked against `Gen.Arabic.transparentGcs`). -/
def isTransparentGc (gc : Nat) : Bool := gc == 12 || gc == 11 || gc == 1

/-- src: ot_shaper_arabic.rs::get_joining_type — `raw` is `ot_shaper_arabic_table::joining_type(u)`. -/
def getJoiningType (raw : JoiningType) (gc : Nat) : JoiningType :=
  if raw ≠ .X then raw
  else if isTransparentGc gc then .T else .U

/-- src: ot_shaper_arabic_table.rs::joining_type, as data: maximal runs (start, end, discriminant);
    everything outside the runs is `X`. -/
def rawJoiningType (ranges : List (Nat × Nat × Nat)) (u : Nat) : JoiningType :=
  match ranges.find? (fun r => r.1 ≤ u && u ≤ r.2.1) with
  | none => .X
  | some r => (JoiningType.ofNat? r.2.2).getD .X

/-! ### context storage -/

/-- src: buffer.rs::set_pre_context — the last `n` characters, nearest first. -/
def setPreContext (n : Nat) (text : List α) : List α := text.reverse.take n

/-- src: buffer.rs::set_post_context — the first `n` characters. -/
def setPostContext (n : Nat) (text : List α) : List α := text.take n

/-! ### context storage on the raw arrays

`hb_buffer_t.context` is two arrays of `CONTEXT_LENGTH` slots, `context_len` two lengths.  `set_pre_context` /
`set_post_context` reset only the LENGTH (`clear_context`) and overwrite the leading slots: whatever an earlier
call stored behind the new length stays in the array.  `UnicodeBuffer::add` zeroes the post-context length and
leaves the array alone.  Readers must therefore look at the first `context_len` slots only. -/

/-- src: buffer.rs::set_pre_context / set_post_context, the array side: `new` (already in array order) overwrites
    the leading slots, the length becomes the number of characters stored. -/
def storeContext (slots new : List α) : List α × Nat :=
  let new := new.take slots.length
  (new ++ slots.drop new.length, new.length)

/-- the two context arrays with their lengths -/
structure CtxState (α : Type) where
  pre : List α
  preLen : Nat
  post : List α
  postLen : Nat
  deriving Repr

/-- src: buffer.rs::hb_buffer_t::new — all slots NUL (`nul`), lengths 0 -/
def CtxState.fresh (n : Nat) (nul : α) : CtxState α :=
  { pre := List.replicate n nul, preLen := 0, post := List.replicate n nul, postLen := 0 }

inductive CtxCall (α : Type) where
  | pre (text : List α)      -- UnicodeBuffer::set_pre_context
  | post (text : List α)     -- UnicodeBuffer::set_post_context
  | add (text : List α)      -- UnicodeBuffer::add for every character: `context_len[1] = 0`

/-- one public context call on the raw state -/
def CtxState.call (st : CtxState α) : CtxCall α → CtxState α
  | .pre t => let r := storeContext st.pre (t.reverse.take st.pre.length); { st with pre := r.1, preLen := r.2 }
  | .post t => let r := storeContext st.post (t.take st.post.length); { st with post := r.1, postLen := r.2 }
  | .add t => if t.isEmpty then st else { st with postLen := 0 }

def CtxState.calls (st : CtxState α) (cs : List (CtxCall α)) : CtxState α := cs.foldl CtxState.call st

/-! ### arabic_joining -/

/-- src: ot_shaper_arabic.rs::arabic_joining, loop "Check pre-context":
    the nearest non-transparent context character moves the automaton once; `ctx` is in array
    order (nearest first). -/
def preLoop (tbl : StateTable) : List JoiningType → Nat → Except Panic Nat
  | [], state => .ok state
  | t :: rest, state =>
    if t = .T then preLoop tbl rest state
    else do
      let e ← lookup tbl state t
      .ok e.2.2

structure LoopState where
  /-- shaping actions of `info[0..i)` (position `i` is written exactly once, by the iteration `i`) -/
  acts : List Nat
  prev : Option Nat
  state : Nat
  deriving Repr

/-- `if entry.0 != NONE && prev.is_some() { info[prev].set_arabic_shaping_action(entry.0) }` -/
def backPatch (acts : List Nat) (prev : Option Nat) (e : Entry) : Except Panic (List Nat) :=
  if e.1 ≠ NONE then
    match prev with
    | some p => setAt acts p e.1
    | none => .ok acts
  else .ok acts

/-- src: ot_shaper_arabic.rs::arabic_joining, loop `for i in 0..buffer.len` -/
def mainLoop (tbl : StateTable) : List JoiningType → Nat → LoopState → Except Panic LoopState
  | [], _, st => .ok st
  | t :: rest, i, st =>
    if t = .T then
      mainLoop tbl rest (i + 1) { st with acts := st.acts ++ [NONE] }
    else do
      let e ← lookup tbl st.state t
      let acts ← backPatch st.acts st.prev e
      mainLoop tbl rest (i + 1) { acts := acts ++ [e.2.1], prev := some i, state := e.2.2 }

/-- src: ot_shaper_arabic.rs::arabic_joining, loop over `context[1]` (only the nearest
    non-transparent post-context character is looked at) -/
def postLoop (tbl : StateTable) : List JoiningType → LoopState → Except Panic (List Nat)
  | [], st => .ok st.acts
  | t :: rest, st =>
    if t = .T then postLoop tbl rest st
    else do
      let e ← lookup tbl st.state t
      backPatch st.acts st.prev e

/-- src: ot_shaper_arabic.rs::arabic_joining.  `preCtx` / `postCtx` are the stored context arrays
    (`preCtx` nearest first), `ws` the joining types of `buffer.info[0..len)`. -/
def arabicJoining (tbl : StateTable) (preCtx ws postCtx : List JoiningType) : Except Panic (List Nat) := do
  let s ← preLoop tbl preCtx 0
  let st ← mainLoop tbl ws 0 { acts := [], prev := none, state := s }
  postLoop tbl postCtx st

/-- src: ot_shaper_arabic.rs::arabic_joining on the buffer's RAW context: the loops run over
    `0..context_len[side]`, i.e. over the first `len` slots of each array; slots behind the length are not read. -/
def arabicJoiningRaw (tbl : StateTable) (preSlots : List JoiningType) (preLen : Nat) (ws : List JoiningType)
    (postSlots : List JoiningType) (postLen : Nat) : Except Panic (List Nat) :=
  arabicJoining tbl (preSlots.take preLen) ws (postSlots.take postLen)

/-- The API view: contexts given as text in logical order, stored through
    `set_pre_context` / `set_post_context` (which keep `ctxLen` characters). -/
def joinWithContext (tbl : StateTable) (ctxLen : Nat) (pre ws post : List JoiningType) :
    Except Panic (List Nat) :=
  arabicJoining tbl (setPreContext ctxLen pre) ws (setPostContext ctxLen post)

/-! ### Mongolian free variation selectors -/

/-- `(0x180B..=0x180D).contains(&g) || g == 0x180F` -/
def isMongolianFvs (g : Nat) : Bool := (0x180B ≤ g && g ≤ 0x180D) || g == 0x180F

/-- the iterations `i ≥ 1`; `p` is the (already updated) action of `info[i-1]`.
    (Polymorphic in the action type only so that the same function can be read over forms.) -/
def mongolianGo {α : Type} : α → List (Nat × α) → List α
  | _, [] => []
  | p, (g, a) :: rest =>
    let a' := if isMongolianFvs g then p else a
    a' :: mongolianGo a' rest

/-- src: ot_shaper_arabic.rs::mongolian_variation_selectors on (code point, action) items -/
def mongolianCopy {α : Type} : List (Nat × α) → List α
  | [] => []
  | (_, a) :: rest => a :: mongolianGo a rest

/-! ### masks -/

/-- src: ot_shaper_arabic.rs::data_create_arabic — `mask_array[i] = get_1_mask(ARABIC_FEATURES[i])`,
    one extra zero slot for `NONE`. -/
def dataCreate (features : List String) (oneMask : String → Nat) : List Nat :=
  features.map oneMask ++ [0]

/-- `info.mask |= mask_array[info.arabic_shaping_action() as usize]` for every item -/
def applyMasks (maskArray : List Nat) : List (Nat × Nat) → Except Panic (List (Nat × Nat))
  | [] => .ok []
  | (a, m) :: rest =>
    match maskArray[a]? with
    | none => .error .indexOutOfBounds
    | some x => do
      let r ← applyMasks maskArray rest
      .ok ((a, m ||| x) :: r)

structure Item where
  cp : Nat
  jt : JoiningType
  mask : Nat

/-- src: ot_shaper_arabic.rs::setup_masks_inner; returns (action, mask) per item. -/
def setupMasks (tbl : StateTable) (maskArray : List Nat) (mongolian : Bool)
    (preCtx : List JoiningType) (items : List Item) (postCtx : List JoiningType) :
    Except Panic (List (Nat × Nat)) := do
  let acts ← arabicJoining tbl preCtx (items.map (·.jt)) postCtx
  let acts := if mongolian then mongolianCopy ((items.map (·.cp)).zip acts) else acts
  applyMasks maskArray (acts.zip (items.map (·.mask)))

end RbModel.Arabic
