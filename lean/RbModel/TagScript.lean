import RbModel.Gen.ScriptIso

/-!
# ISO 15924 code → `Script` (C18): `Script::from_iso15924_tag`, `<Script as FromStr>::from_str`

Operational model of `src/hb/common.rs::Script::from_iso15924_tag` and of `Script::from_str`
(`Tag::from_bytes_lossy` of ttf-parser by its code: an empty slice is the null tag, otherwise the first four
bytes, padded with spaces).  A tag is its `u32`, a `Script` is the tag it wraps, `None` is `none`.

The function is a straight line of statements; their ORDER and every constant are data (`IsoFn`), instantiated by
`tree` with `RbModel.Gen.ScriptIso` (transcribed from the Rust source on every check by `tools/gens/script_iso.py`),
so the model follows the code when a statement moves or a constant changes.
-/

namespace RbModel.TagScript

/-- one statement of `from_iso15924_tag` before its tail expression -/
inductive Step where
  /-- `if tag.is_null() { return None; }` -/
  | nullCheck
  /-- `let tag = Tag((tag.as_u32() & andM) | orM);` -/
  | adjust (andM orM : Nat)
  /-- `match &tag.to_bytes() { b"from" => return Some(to), … _ => {} }` -/
  | alias (rows : List (Nat × Nat))
deriving Repr, DecidableEq

structure IsoFn where
  pre : List Step
  /-- tail: `if tag.as_u32() & mask == value { Some(Script(tag)) } else { Some(script::UNKNOWN) }` -/
  mask : Nat
  value : Nat
  unknown : Nat
deriving Repr

/-- first arm of the `match` whose pattern equals the tag -/
def aliasLookup : List (Nat × Nat) → Nat → Option Nat
  | [], _ => none
  | (a, p) :: rest, t => if t = a then some p else aliasLookup rest t

-- src: common.rs::Script::from_iso15924_tag (the statements before the tail)
def runSteps (f : IsoFn) : List Step → Nat → Option Nat
  | [], t => if t &&& f.mask = f.value then some t else some f.unknown
  | .nullCheck :: rest, t => if t = 0 then none else runSteps f rest t
  | .adjust a o :: rest, t => runSteps f rest ((t &&& a) ||| o)
  | .alias rows :: rest, t =>
    match aliasLookup rows t with
    | some p => some p
    | none => runSteps f rest t

-- src: common.rs::Script::from_iso15924_tag
def fromIso15924 (f : IsoFn) (tag : Nat) : Option Nat := runSteps f f.pre tag

-- src: ttf-parser lib.rs::Tag::from_bytes_lossy
def tagFromBytesLossy (bytes : List Nat) : Nat :=
  match bytes with
  | [] => 0
  | _ =>
    let b := fun i => (bytes ++ [32, 32, 32]).getD i 32
    (b 0) * 16777216 + (b 1) * 65536 + (b 2) * 256 + b 3

-- src: common.rs::<Script as FromStr>::from_str   (`none` = Err("invalid script"))
def fromStr (f : IsoFn) (s : List Nat) : Option Nat := fromIso15924 f (tagFromBytesLossy s)

/-- decode one generated row; an unknown kind is not a statement the transcriber emits -/
def stepOfRow : Nat × Nat × Nat × List (Nat × Nat) → Option Step
  | (0, _, _, _) => some .nullCheck
  | (1, a, o, _) => some (.adjust a o)
  | (2, _, _, rows) => some (.alias rows)
  | _ => none

/-- the crate as compiled -/
def tree : IsoFn :=
  { pre := Gen.ScriptIso.steps.filterMap stepOfRow
    mask := Gen.ScriptIso.tailMask, value := Gen.ScriptIso.tailValue, unknown := Gen.ScriptIso.tailUnknown }

/-- "one capital letter followed by three small letters" -/
def titlecase (t : Nat) : Nat := (t &&& 0xDFDFDFDF) ||| 0x00202020

/-- the alias rows of the compiled function, in order -/
def aliasRows (f : IsoFn) : List (Nat × Nat) :=
  f.pre.flatMap fun s => match s with | .alias rows => rows | _ => []

end RbModel.TagScript
