/-
  Cluster bookkeeping outside buffer.rs, on top of the buffer model (Buf.lean):
  * `form_clusters`, `ensure_native_direction` and the final reverse of `position()` (src/hb/ot_shape.rs),
  * `_hb_ot_layout_reverse_graphemes` = `reverse_groups` with the grapheme group function (src/hb/ot_layout.rs),
  * `Buf.mapCluster` — relabelling of the cluster values of a buffer (C15).
  Operational, one definition per Rust function / loop, panics as values.  Directions are numbers
  (0 invalid, 1 ltr, 2 rtl, 3 ttb, 4 btt); the script enters only through `Direction::from_script(script)`,
  a datum of the request (`hor0`, 0 when the buffer has no script or the script has no native direction).
-/
import RbModel.Buf

namespace RbModel
namespace Buf

/-! ### relabelling -/

/-- relabel one glyph -/
def mc (f : Nat → Nat) (x : Info) : Info := { x with cluster := f x.cluster }

/-- relabel every cluster value stored in the buffer (both Vecs, slack included) -/
def mapCluster (f : Nat → Nat) (b : Buf) : Buf :=
  { b with info := b.info.map (mc f), out := b.out.map (mc f) }

/-! ### graphemes -/

def SCRATCH_HAS_NON_ASCII : Nat := 1
def UPROPS_GENERAL_CATEGORY : Nat := 0x1F
def UPROPS_CONTINUATION : Nat := 0x80

/-- src: ot_layout.rs::_hb_glyph_info_is_continuation (`unicode_props` is the low half of `var2`) -/
def isContinuation (x : Info) : Bool := x.var2 &&& UPROPS_CONTINUATION != 0

/-- `while start < len && group(&info[start-1], &info[start]) { start += 1 }` with
    `group(_, b) = is_continuation(b)` (both index expressions are evaluated) -/
def graphemeEndLoop (l : List Info) (len : Nat) : Nat → Nat → M Nat
  | i, 0 => pure i
  | i, fuel + 1 =>
      if i < len then do
        let _ ← (if i = 0 then throw .oob else get l (i - 1))
        let c ← get l i
        if isContinuation c then graphemeEndLoop l len (i + 1) fuel else pure i
      else pure i

/-- src: buffer.rs::group_end with ot_layout.rs::_hb_grapheme_group_func -/
def graphemeEnd (b : Buf) (start : Nat) : M Nat :=
  graphemeEndLoop b.info b.len (start + 1) (b.len - start)

/-- the `while start < count { body; start = end; end = group_end(start) }` loop of `foreach_grapheme!`
    with the two bodies of `form_clusters` -/
def formLoop (merge : Bool) (count : Nat) : Buf → Nat → Nat → Nat → M Buf
  | b, _, _, 0 => pure b
  | b, start, stop, fuel + 1 =>
      if start < count then do
        let b ← if merge then b.mergeClusters start stop else b.unsafeToBreak start (some stop)
        let e ← graphemeEnd b stop
        formLoop merge count b stop e fuel
      else pure b

/-- src: ot_shape.rs::form_clusters -/
def formClusters (b : Buf) : M Buf := do
  if b.scratch &&& SCRATCH_HAS_NON_ASCII == 0 then return b
  let count := b.len
  let e ← if count > 0 then graphemeEnd b 0 else pure 0
  formLoop (b.level == 0) count b 0 e (count + 1)

/-- the `while i < len` loop of `reverse_groups` with the grapheme group function -/
def revGroupsLoop (merge : Bool) : Buf → Nat → Nat → Nat → M (Buf × Nat × Nat)
  | b, start, i, 0 => pure (b, start, i)
  | b, start, i, fuel + 1 =>
      if i < b.len then do
        let _ ← (if i = 0 then throw .oob else get b.info (i - 1))
        let c ← get b.info i
        if !isContinuation c then
          let b ← if merge then mergeClusters b start i else pure b
          let b ← b.reverseRange start i
          revGroupsLoop merge b i (i + 1) fuel
        else revGroupsLoop merge b start (i + 1) fuel
      else pure (b, start, i)

/-- src: buffer.rs::reverse_groups with ot_layout.rs::_hb_grapheme_group_func -/
def reverseGroupsG (b : Buf) (merge : Bool) : M Buf := do
  if b.len == 0 then return b
  let (b, start, i) ← revGroupsLoop merge b 0 1 b.len
  let b ← if merge then mergeClusters b start i else pure b
  let b ← b.reverseRange start i
  b.reverse

/-- src: ot_layout.rs::_hb_ot_layout_reverse_graphemes -/
def reverseGraphemes (b : Buf) : M Buf := b.reverseGroupsG (b.level == 1)

/-! ### directions -/

namespace Dir
def INVALID : Nat := 0
def LTR : Nat := 1
def RTL : Nat := 2
def TTB : Nat := 3
def BTT : Nat := 4
/-- src: common.rs::Direction::is_horizontal -/
def isHorizontal (d : Nat) : Bool := d == LTR || d == RTL
/-- src: common.rs::Direction::is_vertical -/
def isVertical (d : Nat) : Bool := !isHorizontal d
/-- src: common.rs::Direction::is_forward -/
def isForward (d : Nat) : Bool := d == LTR || d == TTB
/-- src: common.rs::Direction::is_backward -/
def isBackward (d : Nat) : Bool := !isForward d
/-- src: common.rs::Direction::reverse -/
def reverse (d : Nat) : Nat :=
  if d == LTR then RTL else if d == RTL then LTR else if d == TTB then BTT else if d == BTT then TTB else d
end Dir

def GC_DECIMAL_NUMBER : Nat := 13
/-- src: unicode.rs::GeneralCategoryExt::is_letter on the numeric category (Ll Lm Lo Lt Lu = 5..9) -/
def gcIsLetter (gc : Nat) : Bool := 5 ≤ gc && gc ≤ 9

/-- the scan `for info in &buffer.info { … }` of ensure_native_direction (over the whole Vec);
    state = (found_number, found_ri); returns `none` when a letter was found (`break`).
    `from_rb` is `unreachable!()` for the category values 30 and 31. -/
def scanNumbers : List Info → Bool → Bool → M (Option (Bool × Bool))
  | [], n, r => pure (some (n, r))
  | x :: rest, n, r =>
      let gc := x.var2 &&& UPROPS_GENERAL_CATEGORY
      if gc ≥ 30 then throw .assert
      else if gc == GC_DECIMAL_NUMBER then scanNumbers rest true r
      else if gcIsLetter gc then pure none
      else if 0x1F1E6 ≤ x.gid && x.gid ≤ 0x1F1FF then scanNumbers rest n true
      else scanNumbers rest n r

/-- src: ot_shape.rs::ensure_native_direction; returns the buffer and its direction afterwards -/
def ensureNativeDirection (b : Buf) (dir hor0 : Nat) : M (Buf × Nat) := do
  let hor ← if hor0 == Dir.RTL && dir == Dir.LTR then do
      match ← scanNumbers b.info false false with
      | some (n, r) => pure (if n || r then Dir.LTR else hor0)
      | none => pure hor0
    else pure hor0
  if (Dir.isHorizontal dir && dir != hor && hor != Dir.INVALID) || (Dir.isVertical dir && dir != Dir.TTB) then
    let b ← b.reverseGraphemes
    pure (b, Dir.reverse dir)
  else pure (b, dir)

/-- src: ot_shape.rs::position — its last step `if direction.is_backward() { buffer.reverse() }` -/
def finalReverse (b : Buf) (dir : Nat) : M Buf :=
  if Dir.isBackward dir then b.reverse else pure b

end Buf
end RbModel
