/-
  The normalizer's second round WITH the shaper's `reorder_marks` callback, and the Arabic callback.

  `Norm.round2` models the round for the default shaper (`reorder_marks: None`).  `round2With` is the same loop
  with the callback slot of `hb_ot_shaper_t`; as in the source, the callback sits INSIDE the
  `if end - i <= MAX_COMBINING_MARKS` guard, next to the sort.  `reorderMarksArabic` mirrors
  `ot_shaper_arabic.rs::reorder_marks_arabic`, whose fixed scratch array of `MAX_COMBINING_MARKS` records is the reason
  the guard matters: the two places where it would panic on a longer run are values here (`Except.error`).
-/
import RbModel.Norm
import RbModel.Gen.NormMarks

namespace RbModel.Norm

/-- the constants `reorder_marks_arabic` is built from -/
structure ArabicMarks where
  /-- `MODIFIER_COMBINING_MARKS` -/
  modifiers : List Nat
  /-- `[hb_glyph_info_t::default(); MAX_COMBINING_MARKS]` -/
  scratchLen : Nat
  /-- `for cc in [220u8, 230]` with `new_cc` = `CCC22` / `CCC26` -/
  passes : List (Nat × Nat)

/-- src: ot_layout.rs::_hb_glyph_info_set_modified_combining_class (marks only) -/
def Info.setMcc (i : Info) (cc : Nat) : Info :=
  if i.isMark then { i with props := { i.props with hi := cc } } else i

/-- `buffer.merge_clusters(start, end)` on the whole buffer, no output buffer (`idx = 0`): nothing below two records -/
def mergeClustersAt (K : Consts) (buf : List Info) (start end_ : Nat) : List Info :=
  match (buf.drop start).take (end_ - start) with
  | x :: y :: ys =>
    let r := mergeClusters K (buf.take start) x (y :: ys) (buf.drop end_)
    r.1 ++ r.2.1 ++ r.2.2
  | _ => buf

/-- src: ot_shaper_arabic.rs::reorder_marks_arabic, one iteration of `for cc in [220u8, 230]`.
    State: the buffer, `start`, `i`; `end_` is fixed.  `Except.error` = the panic of the debug assertion
    `j - i <= MAX_COMBINING_MARKS` / of `temp[..j - i]` in release builds. -/
def arabicPass (K : Consts) (A : ArabicMarks) (end_ : Nat) (cc newCc : Nat) (st : List Info × Nat × Nat) :
    Except String (List Info × Nat × Nat) :=
  let (buf, start, i) := st
  -- while i < end && mcc(info[i]) < cc { i += 1 }
  let i := i + (((buf.drop i).take (end_ - i)).takeWhile (fun x => x.mcc < cc)).length
  -- if i == end { break }   (every later iteration finds `i == end` again)
  if i ≥ end_ then .ok (buf, start, i)
  else
    match buf[i]? with
    | none => .error "panic oob"          -- info[i] with i ≥ len
    | some x =>
      -- if mcc(info[i]) > cc { continue }
      if x.mcc > cc then .ok (buf, start, i)
      else
        -- while j < end && mcc(info[j]) == cc && MODIFIER_COMBINING_MARKS.contains(info[j].glyph_id) { j += 1 }
        let n := (((buf.drop i).take (end_ - i)).takeWhile
          (fun y => y.mcc == cc && A.modifiers.contains y.cp)).length
        let j := i + n
        if n = 0 then .ok (buf, start, i)
        else if n > A.scratchLen then .error "panic scratch"     -- debug_assert!(j - i <= MAX) / temp[..j - i]
        else
          -- buffer.merge_clusters(start, j)
          let buf := mergeClustersAt K buf start j
          -- temp = info[i..j]; info[start..i] moves up by j - i; info[start..][..j - i] = temp
          let moved := (buf.drop i).take n
          let kept := (buf.drop start).take (i - start)
          -- renumber the moved run
          let buf := buf.take start ++ moved.map (·.setMcc newCc) ++ kept ++ buf.drop j
          .ok (buf, start + n, j)

/-- src: ot_shaper_arabic.rs::reorder_marks_arabic(plan, buffer, start, end) -/
def reorderMarksArabic (K : Consts) (A : ArabicMarks) (buf : List Info) (start end_ : Nat) : Except String (List Info) :=
  (A.passes.foldlM (fun st p => arabicPass K A end_ p.1 p.2 st) (buf, start, start)).map (·.1)

/-- the `reorder_marks` slot of `hb_ot_shaper_t`: `(buffer, start, end) ↦ buffer` or a panic -/
abbrev ReorderMarks := List Info → Nat → Nat → Except String (List Info)

/-- src: _hb_ot_shape_normalize, "Second round, reorder (inplace)", with `ctx.plan.shaper.reorder_marks = cb`.
    ```
    if end - i <= MAX_COMBINING_MARKS {
        buffer.sort(i, end, compare_combining_class);
        if let Some(reorder_marks) = ctx.plan.shaper.reorder_marks { reorder_marks(ctx.plan, buffer, i, end); }
    }
    i = end + 1;
    ```
    `pre` = `info[0..i]`, second argument = `info[i..count]`.  A callback that changes the length of the buffer is
    outside the model (`error "length"`; no callback of the crate does). -/
def round2With (K : Consts) (cb : Option ReorderMarks) : List Info → List Info → Except String (List Info)
  | pre, [] => .ok pre
  | pre, x :: r =>
    if x.mcc = 0 then round2With K cb (pre ++ [x]) r
    else
      let n := runLen r
      let res : Except String (List Info) :=
        if n ≤ K.maxMarks then
          let sorted := sortGo K pre [] n (x :: r)
          match cb with
          | some f => f sorted pre.length (pre.length + n)
          | none => .ok sorted
        else .ok (pre ++ x :: r)
      match res with
      | .error e => .error e
      | .ok buf =>
        if h : buf.length = pre.length + (x :: r).length then
          round2With K cb (buf.take (pre.length + n + 1)) (buf.drop (pre.length + n + 1))
        else .error "length"
termination_by _ l => l.length
decreasing_by
  · simp
  · rw [List.length_drop, h]
    simp only [List.length_cons]; omega

/-- `Norm.normalize` with the callback slot (the other two rounds do not consult it) -/
def normalizeWith (U : UData) (F : Font) (K : Consts) (cb : Option ReorderMarks) (fuel : Nat) (pref : Nat)
    (buf : List Info) (flags : Nat) : Option (Except String (List Info × Nat)) :=
  if buf.isEmpty then some (.ok (buf, flags))
  else
    let mode := if pref = 4 then 2 else pref
    let always := mode == 0
    let might := always || (mode != 1 && mode != 3)
    match round1 U F K fuel might always [] buf flags true with
    | none => none
    | some (l, flags, allSimple) =>
      match (if !allSimple then round2With K cb [] l else .ok l) with
      | .error e => some (.error e)
      | .ok l =>
        let l := if flags &&& K.flagCGJ ≠ 0 then cgjRound l else l
        if !allSimple && (mode == 2 || mode == 3) then some (.ok (round3 U F K l flags))
        else some (.ok (l, flags))

/-- the crate's constants -/
def genA : ArabicMarks :=
  { modifiers := Gen.NormMarks.modifierMarks, scratchLen := Gen.NormMarks.scratchLen,
    passes := [(Gen.NormMarks.ccBelow, Gen.NormMarks.newBelow), (Gen.NormMarks.ccAbove, Gen.NormMarks.newAbove)] }

end RbModel.Norm
