/-
  `preprocess_text_hangul` on the REAL buffer model (Buf.lean), glyph flags included.

  Hangul.lean models the same routine over a list zipper without masks (the C12 theorems are about code points,
  clusters and jamo features).  C03 is about the flag bits, so this module transliterates the routine statement by
  statement over `Buf`: every `unsafe_to_break` / `unsafe_to_break_from_outbuffer` call site of the shaper is a call of
  the flag setters of Buf.lean (the ones `C03_interior` / `C03_interior_out` are proved about), `replace_glyphs`,
  `next_glyph`, `merge_out_clusters` are Buf.lean's (with `set_cluster` clearing the flag bits of a renamed glyph), the
  tone-mark move is the descending copy loop of Mem.lean.  Rust panics are values.

  `hangul_shaping_feature` lives in `Info.var2` (one of the glyph's scratch bytes in Rust; `replace_glyphs` copies the
  whole record, as here).  The font / buffer configuration is `Hangul.Cfg`.
  Tied to the crate by the `hangul-pre-flags` correspondence (hook `verif::hangul::preprocess`, which returns the masks).
  Core Lean only.
-/
import RbModel.Buf
import RbModel.Hangul

namespace RbModel
namespace HangulBuf
open RbModel.Hangul (Cfg isL isV isT isTone isCombiningL isCombiningV isCombiningT isCombinedS DOTTED_CIRCLE)
open RbModel.Gen.Hangul

/-- src: buffer.rs::cur(i) — `self.info[self.idx + i]` (indexes the Vec, not `len`) -/
def cur (b : Buf) (k : Nat) : M Info := Mem.get b.info (b.idx + k)

/-- `buffer.cur_mut(0).set_hangul_shaping_feature(t)` -/
def tagCur (b : Buf) (t : Nat) : M Buf := do
  let x ← cur b 0
  let info ← Mem.put b.info b.idx { x with var2 := t }
  pure { b with info := info }

/-- `buffer.out_info_mut()[i].set_hangul_shaping_feature(t)` -/
def tagOut (b : Buf) (i t : Nat) : M Buf := do
  let x ← Mem.get b.outArr i
  b.setOut i { x with var2 := t }

/-- the two locals `start`, `end` of the routine next to the buffer -/
structure St where
  b : Buf
  start : Nat
  end_ : Nat
deriving DecidableEq, Repr

/-- `if buffer.cluster_level == MONOTONE_GRAPHEMES { buffer.merge_out_clusters(start, end) }` -/
def mergeSyllable (b : Buf) (start end_ : Nat) : M Buf :=
  if b.level == 0 then b.mergeOutClusters start end_ else pure b

/-- **the flag call of the tone-mark branch** (the mark follows a valid syllable `out[start, out_len)`):
    `buffer.unsafe_to_break_from_outbuffer(start, idx)` — the syllable's glyphs in the out-buffer -/
def flagTone (b : Buf) (start : Nat) : M Buf := b.unsafeToBreakFromOut start (some b.idx)

-- src: preprocess_text_hangul, tone mark after a valid syllable, after the flag call: `next_glyph()`; unless the mark is
-- zero-width: `merge_out_clusters(start, end + 1)` and the move in front of the syllable
def toneTail (c : Cfg) (b : Buf) (start end_ u : Nat) : M Buf := do
  let b ← b.nextGlyph
  if !c.zeroW u then
    let b ← b.mergeOutClusters start (end_ + 1)
    let tone ← Mem.get b.outArr end_
    -- `for i in (0..end - start).rev() { out_info[i + start + 1] = out_info[i + start] }`
    let o ← Mem.copyWithinBwd b.outArr start (start + 1) (end_ - start)
    let o ← Mem.put o start tone
    pure (b.setOutArr o)
  else pure b

-- src: ot_shaper_hangul.rs::preprocess_text_hangul, branch `is_hangul_tone(u)` up to `start = end = out_len`
def stepTone (c : Cfg) (st : St) (u : Nat) : M Buf := do
  let b := st.b
  if st.start < st.end_ && st.end_ == b.outLen then
    -- Tone mark follows a valid syllable; move it in front, unless it's zero width.
    let b ← flagTone b st.start
    toneTail c b st.start st.end_ u
  else if !c.noDotted && c.has DOTTED_CIRCLE then
    b.replaceGlyphs 1 (if !c.zeroW u then [u, DOTTED_CIRCLE] else [DOTTED_CIRCLE, u])
  else b.nextGlyph

/-- **the flag call of the `<L,V,T?>` branch**: `buffer.unsafe_to_break(idx, idx + offset)`, offset = 3 if a T follows -/
def flagLVT (b : Buf) (offset : Nat) : M Buf := b.unsafeToBreak b.idx (some (b.idx + offset))

/-- **the flag call of the `<LV,T>` branch** (combining T follows an LV syllable, the font has no LVT glyph):
    `// Mark unsafe between LV and T.`  `buffer.unsafe_to_break(idx, idx + 2)` -/
def flagLVandT (b : Buf) : M Buf := b.unsafeToBreak b.idx (some (b.idx + 2))

-- src: preprocess_text_hangul, `<L,V,T?>`: `t = cur(2).glyph_id` if `idx + 2 < len` and `is_t(t)`, else 0
def trailing (b : Buf) : M Nat := do
  if b.idx + 2 < b.len then
    let g ← cur b 2
    pure (if isT g.gid then g.gid else 0)
  else pure 0

-- src: preprocess_text_hangul, `<L,V,T?>` after the flag call: compose if the font has the syllable, otherwise tag the jamo
-- and advance past them (`t` = the trailing jamo or 0)
def lvTail (c : Cfg) (b : Buf) (l v t : Nat) : M St := do
  let start := b.outLen
  let tindex := if t != 0 then t - TBase else 0
  let s := SBase + (l - LBase) * NCount + (v - VBase) * TCount + tindex
  if (isCombiningL l && isCombiningV v && (t == 0 || isCombiningT t)) && c.has s then
    let b ← b.replaceGlyphs (if t != 0 then 3 else 2) [s]
    pure { b := b, start := start, end_ := start + 1 }
  else
    let b ← tagCur b LJMO
    let b ← b.nextGlyph
    let b ← tagCur b VJMO
    let b ← b.nextGlyph
    if t != 0 then
      let b ← tagCur b TJMO
      let b ← b.nextGlyph
      let b ← mergeSyllable b start (start + 3)
      pure { b := b, start := start, end_ := start + 3 }
    else
      let b ← mergeSyllable b start (start + 2)
      pure { b := b, start := start, end_ := start + 2 }

-- src: preprocess_text_hangul, branch `is_l(u) && idx + 1 < len`, `is_v(v)` (always ends in `continue`)
def stepLV (c : Cfg) (b : Buf) (l v : Nat) : M St := do
  let t ← trailing b
  let b ← flagLVT b (if t != 0 then 3 else 2)
  lvTail c b l v t

/-- the Unicode arithmetic of a precomposed syllable: (lindex, vindex, tindex) -/
def sIndices (s : Nat) : Nat × Nat × Nat :=
  ((s - SBase) / NCount, ((s - SBase) % NCount) / TCount, ((s - SBase) % NCount) % TCount)

/-- `face.has_glyph(decomposed[0]) && face.has_glyph(decomposed[1]) && (tindex == 0 || face.has_glyph(decomposed[2]))` -/
def hasJamo (c : Cfg) (s : Nat) : Bool :=
  let (lindex, vindex, tindex) := sIndices s
  c.has (LBase + lindex) && c.has (VBase + vindex) && (tindex == 0 || c.has (TBase + tindex))

-- src: preprocess_text_hangul, branch `is_combined_s(u)`, the decomposition:
--   `replace_glyphs(1, s_len, &decomposed)`; `if has_glyph && tindex == 0 { next_glyph(); s_len += 1 }`; jamo features on
--   out_info[start ..]; merge at level 0; `continue`
def decomposeS (c : Cfg) (b : Buf) (s : Nat) : M (St × Bool) := do
  let start := b.outLen
  let (lindex, vindex, tindex) := sIndices s
  let dec := [LBase + lindex, VBase + vindex, TBase + tindex]
  let sLen := if tindex != 0 then 3 else 2
  let b ← b.replaceGlyphs 1 (dec.take sLen)
  -- a following T joins the syllable (`has_glyph && tindex == 0`)
  let (b, sLen) ← if c.has s && tindex == 0 then (do let b ← b.nextGlyph; pure (b, sLen + 1)) else pure (b, sLen)
  let end_ := start + sLen
  let b ← tagOut b start LJMO
  let b ← tagOut b (start + 1) VJMO
  let b ← if start + 2 < end_ then tagOut b (start + 2) TJMO else pure b
  let b ← mergeSyllable b start end_
  pure ({ b := b, start := start, end_ := end_ }, true)

-- src: preprocess_text_hangul, branch `is_combined_s(u)`, not decomposed: `if has_glyph { end = start + 1; next_glyph(); continue }`,
-- otherwise fall through (`false`) to the final next_glyph with this buffer
def keepS (c : Cfg) (b : Buf) (s : Nat) : M (St × Bool) := do
  let start := b.outLen
  if c.has s then
    let b ← b.nextGlyph
    pure ({ b := b, start := start, end_ := start + 1 }, true)
  else pure ({ b := b, start := start, end_ := start }, false)

-- src: preprocess_text_hangul, branch `is_combined_s(u)`; `(st, false)` = no `continue`: fall through to the final next_glyph
-- with the buffer `st.b` (which may have been flagged)
def stepS (c : Cfg) (b : Buf) (s : Nat) : M (St × Bool) := do
  let start := b.outLen
  let hasS := c.has s
  let tindex := (sIndices s).2.2
  let hasNext := decide (b.idx + 1 < b.len)
  let nx ← if hasNext then (do let g ← cur b 1; pure g.gid) else pure 0
  -- <LV,T>, try to combine
  let lvT := tindex == 0 && hasNext && isCombiningT nx
  if lvT && c.has (s + (nx - TBase)) then
    let b ← b.replaceGlyphs 2 [s + (nx - TBase)]
    pure ({ b := b, start := start, end_ := start + 1 }, true)
  else
    -- Mark unsafe between LV and T.
    let b ← if lvT then flagLVandT b else pure b
    let nextT := tindex == 0 && hasNext && isT nx
    if (!hasS || nextT) && hasJamo c s then
      -- LV is decomposed only because a non-combining T follows (the combining case was marked above)
      let b ← if hasS && tindex == 0 && !isCombiningT nx then flagLVandT b else pure b
      decomposeS c b s
    else
      -- Mark unsafe between LV and T (the jamo glyphs are missing: LV stays)
      let b ← if nextT then flagLVandT b else pure b
      keepS c b s

-- src: ot_shaper_hangul.rs::preprocess_text_hangul, one iteration of `while buffer.idx < buffer.len`
def step (c : Cfg) (st : St) : M St := do
  let b := st.b
  let g ← cur b 0
  let u := g.gid
  if isTone u then
    let b ← stepTone c st u
    pure { b := b, start := b.outLen, end_ := b.outLen }
  else
    let start := b.outLen
    -- (state, true) = the branch ended in `continue`
    let (st', done) ← if isL u && b.idx + 1 < b.len then (do
                let gv ← cur b 1
                if isV gv.gid then (do let r ← stepLV c b u gv.gid; pure (r, true))
                else pure ({ b := b, start := start, end_ := start }, false))
            else if isCombinedS u then stepS c b u
            else pure ({ b := b, start := start, end_ := start }, false)
    if done then pure st'
    else
      -- Didn't find a recognizable syllable: `end` keeps its value
      let b ← st'.b.nextGlyph
      pure { b := b, start := start, end_ := st.end_ }

/-- the `while buffer.idx < buffer.len` loop; `fuel` is the loop's own variant `len - idx` (an iteration that does not
    advance `idx` would be an endless loop in Rust: `.assert` here, never reached) -/
def loop (c : Cfg) : Nat → St → M St
  | 0, st => if st.b.idx < st.b.len then throw .assert else pure st
  | fuel + 1, st =>
    if st.b.idx < st.b.len then do
      let st' ← step c st
      loop c fuel st'
    else pure st

-- src: ot_shaper_hangul.rs::preprocess_text_hangul  (clear_output; loop; sync)
def preprocessBuf (c : Cfg) (b : Buf) : M Buf := do
  let b := b.clearOutput
  let st ← loop c b.len { b := b, start := 0, end_ := 0 }
  let (b, _) ← st.b.sync
  pure b

/-- the bare buffer of the hook `verif::hangul::preprocess`: `UnicodeBuffer::add(c, cluster)` for every character
    (glyph_id = code point, mask 0), then `cluster_level` set -/
def bareBuffer (level : Nat) (text : List (Nat × Nat)) : Buf :=
  { info := text.map fun (cp, cl) => { gid := cp, cluster := cl }
    out := text.map fun _ => {}
    len := text.length, level := level }

/-- (code point, cluster, hangul feature, mask) of every glyph after the routine -/
def preprocess (c : Cfg) (text : List (Nat × Nat)) : M (List (Nat × Nat × Nat × Nat)) := do
  let b ← preprocessBuf c (bareBuffer c.level text)
  pure ((b.info.take b.len).map fun x => (x.gid, x.cluster, x.var2, x.mask))

end HangulBuf
end RbModel
