/-
  Model of `ot_shaper_arabic.rs::apply_stch` — the Arabic shaper's `stch` post-processing (HarfBuzz
  hb-ot-shaper-arabic.cc::apply_stch).  Every glyph that was multiplied while the `stch` feature ran is a FIXED or a
  REPEATING tile (`record_stch`).  After positioning, for every maximal run of tiles `[start, end)` the routine sums the
  advances of the WORD in front of it in the buffer (`[context, start)`: glyphs that are default ignorable or of a word
  category — in a right-to-left buffer these are the characters that FOLLOW the mark in the text), computes how many extra
  copies of the repeating tiles fill that width, flags `[context, end)` unsafe_to_break, and rewrites the buffer back to
  front with the copies and their offsets.

  Operational: `cut` is the CUT pass (the MEASURE pass computes the same numbers and only sizes the Vec); the buffer is read
  from its end, so the recursion is on the prefix still to be processed; `fuel` is the code's own loop variable `i`.
  What the routine reads of a glyph is a record `G` (cluster, mask, tile kind, word category, advance, the font's advance of
  the glyph).  Integers are `Int` (Rust: i32; the correspondence stream stays far from the i32 range); `/` on i32 truncates
  (`Int.tdiv`).  The flag call is the `unsafe_to_break` of Buf.lean on the clusters / masks.  Not modelled: `ensure`
  refusing the enlarged buffer (`max_len`), then the Rust code leaves the buffer as it is.
-/
import RbModel.Buf

namespace RbModel
namespace Stch

/-- one glyph as `apply_stch` sees it -/
structure G where
  gid : Nat := 0
  cluster : Nat := 0
  mask : Nat := 0
  act : Nat := 0          -- arabic_shaping_action: 0 = anything else, 1 = STRETCHING_FIXED, 2 = STRETCHING_REPEATING
  word : Bool := false    -- `_hb_glyph_info_is_default_ignorable || is_word_category(general category)`
  adv : Int := 0          -- pos.x_advance
  xoff : Int := 0         -- pos.x_offset
  width : Int := 0        -- face.glyph_h_advance(glyph)
  deriving DecidableEq, Repr

/-- src: arabic_action_t::is_stch -/
def G.isStch (g : G) : Bool := g.act == 1 || g.act == 2

/-- the loop condition of the `context` scan: `!is_stch(..) && (default_ignorable || is_word_category)` -/
def G.isWord (g : G) : Bool := !g.isStch && g.word

def G.toInfo (g : G) : Info := { gid := g.gid, mask := g.mask, cluster := g.cluster }

/-- `buffer.unsafe_to_break(Some(s), Some(e))` on `buffer.info[0, l.length)`: the flag setter of Buf.lean on clusters / masks -/
def flagRange (level : Nat) (l : List G) (s e : Nat) : M (List G) := do
  let b ← ({ info := l.map G.toInfo, len := l.length, level := level } : Buf).unsafeToBreak s (some e)
  pure (List.zipWith (fun g x => { g with mask := x.mask }) l b.info)

/-- `while i != 0 && p(info[i - 1]) { i -= 1 }`: where a backward scan from `i` stops (`i ≤ l.length` at every call, so the
    `none` arm — an index panic in Rust — is never taken; the lemmas carry that hypothesis) -/
def scanBack (p : G → Bool) (l : List G) : Nat → Nat
  | 0 => 0
  | i + 1 =>
      match l[i]? with
      | some g => if p g then scanBack p l i else i + 1
      | none => i + 1

/-- `start`: `while i != 0 && is_stch(info[i - 1]) { i -= 1 }` from `i = end = l.length` -/
def tileStart (l : List G) : Nat := scanBack G.isStch l l.length

/-- `context`: `while context != 0 && !is_stch(info[context-1]) && (di || word)(info[context-1]) { context -= 1 }` from `start` -/
def wordStart (l : List G) : Nat := scanBack G.isWord l (tileStart l)

def sumBy (f : G → Int) (l : List G) : Int := l.foldl (fun a g => a + f g) 0

/-- the numbers of one run: (n_copies, extra_repeat_overlap, w_remaining) from w_total, w_fixed, w_repeating, n_repeating -/
def fit (wTotal wFixed wRepeating nRepeating : Int) : Int × Int × Int :=
  let wRemaining := wTotal - wFixed
  let nCopies : Int := if wRemaining > wRepeating && wRepeating > 0 then wRemaining.tdiv wRepeating - 1 else 0
  let shortfall := wRemaining - wRepeating * (nCopies + 1)
  if shortfall > 0 && nRepeating > 0 then
    let nCopies := nCopies + 1
    let excess := (nCopies + 1) * wRepeating - wRemaining
    if excess > 0 then (nCopies, excess.tdiv (nCopies * nRepeating), 0) else (nCopies, 0, wRemaining)
  else (nCopies, 0, wRemaining)

/-- `for n in 0..repeat { … }`: the copies of one tile in the order they are written (towards the buffer start),
    with the running `x_offset` -/
def copies (rtl : Bool) (overlap : Int) (t : G) : Nat → Nat → Int → List G × Int
  | 0, _, x => ([], x)
  | cnt + 1, n, x =>
      let x1 := if rtl then x - t.width + (if n > 0 then overlap else 0) else x
      let g := { t with adv := 0, xoff := x1 }
      let x2 := if rtl then x1 else x1 + t.width - (if n > 0 then overlap else 0)
      let r := copies rtl overlap t cnt (n + 1) x2
      (g :: r.1, r.2)

/-- `for k in (start + 1..=end).rev() { … }` over the tiles, last tile first; result in writing order -/
def emit (rtl : Bool) (nCopies overlap : Int) : List G → Int → List G
  | [], _ => []
  | t :: ts, x =>
      let rep : Int := if t.act == 2 then 1 + nCopies else 1
      let r := copies rtl overlap t rep.toNat 0 x
      r.1 ++ emit rtl nCopies overlap ts r.2

/-- src: ot_shaper_arabic.rs::apply_stch, the CUT pass on `buffer.info[0, l.length)` / `buffer.pos[..]`; the result is what
    the pass writes for these glyphs (in buffer order) -/
def cut (rtl : Bool) (level : Nat) : Nat → List G → M (List G)
  | 0, _ => pure []
  | fuel + 1, l =>
    match l.getLast? with
    | none => pure []
    | some last =>
      if !last.isStch then do
        let rest ← cut rtl level fuel l.dropLast
        pure (rest ++ [last])
      else do
        let start := tileStart l
        let context := wordStart l
        let tiles := l.drop start
        let wTotal := sumBy (·.adv) ((l.take start).drop context)
        let wFixed := sumBy (·.width) (tiles.filter (·.act == 1))
        let wRepeating := sumBy (·.width) (tiles.filter (·.act != 1))
        let nRepeating : Int := (tiles.filter (·.act != 1)).length
        let (nCopies, overlap, wRemaining) := fit wTotal wFixed wRepeating nRepeating
        let l' ← flagRange level l context l.length
        let written := emit rtl nCopies overlap (l'.drop start).reverse (wRemaining.tdiv 2)
        let rest ← cut rtl level fuel (l'.take start)
        pure (rest ++ written.reverse)

/-- src: ot_shaper_arabic.rs::apply_stch (`has` = the scratch flag ARABIC_HAS_STCH that record_stch sets) -/
def applyStch (rtl : Bool) (level : Nat) (l : List G) : M (List G) :=
  if !(l.any G.isStch) then pure l
  else if rtl then cut rtl level (l.length + 1) l
  else do
    let r ← cut rtl level (l.length + 1) l.reverse
    pure r.reverse

end Stch
end RbModel
