/-
  The part of `shape()` that surrounds the morx interpreter, as far as glyph ids and clusters go:
  who substitutes and who positions (the plan), the purge of AAT "deleted glyph" records
  (`hb_aat_layout_remove_deleted_glyphs` = `delete_glyphs_inplace(is_deleted_glyph)`), which runs in
  `substitute_pre` when GPOS positions and in `substitute_post` otherwise, and the final reversal of backward text.

  Scope: fonts with a morx table next to any of GSUB (without features, or one single substitution under `ccmp`),
  GPOS, kerx, kern, GDEF; text of characters that are their own graphemes, have no script and no Unicode
  decomposition (the private-use alphabet of the streams), default shaper.  Positions, masks, glyph flags and
  glyph props are not modelled (none of them is read by the steps below).

  The purge is a list recursion: `keptRev` is `info[0..j]` reversed (the records kept so far), the list argument is
  `info[i..len]`; the comments name the Rust branch of every case.
-/
import RbModel.Morx

namespace RbModel.Morx
open RbModel.Gen.Morx

/-- src: aat_layout.rs::is_deleted_glyph -/
def isDeleted (g : G) : Bool := g.gid == DELETED_GLYPH

/-- src: buffer.rs::set_cluster (the mask is not modelled) -/
def setClG (c : Nat) (g : G) : G := { g with cl := c }

/-- `i + 1 < self.len && cluster == self.info[i + 1].cluster` -/
def sameNext (g : G) : List G → Bool
  | n :: _ => g.cl == n.cl
  | [] => false

/-- "Merge cluster backward": `while k > 0 && info[k-1].cluster == old_cluster { set_cluster(info[k-1], cluster) }`
    (no test of the cluster level, as in the crate). -/
def purgeBack (c old : Nat) (keptRev : List G) : List G :=
  (keptRev.takeWhile (fun x => x.cl == old)).map (setClG c) ++ keptRev.dropWhile (fun x => x.cl == old)

/-- "Merge cluster forward": `merge_clusters(i, i + 2)` while nothing has been kept (`j == 0`); returns what
    becomes of `info[i+1..len]` (slot `i` itself is dropped; the slots before it are dead, so what "extend start"
    writes there is never read).  src: buffer.rs::merge_clusters_impl — minimum of the two clusters, "extend end"
    over the run that shares the cluster of `info[i+1]` (the guard `cluster != info[end-1].cluster` only skips a
    run that already carries the minimum), nothing at level 2. -/
def purgeFwd (level : Nat) (g : G) : List G → List G
  | [] => []
  | n :: tl =>
    if level == 2 then n :: tl
    else
      let c := min g.cl n.cl
      (n :: tl.takeWhile (fun x => x.cl == n.cl)).map (setClG c) ++ tl.dropWhile (fun x => x.cl == n.cl)

/-- src: buffer.rs::delete_glyphs_inplace(is_deleted_glyph), the `for i in 0..self.len` loop.
    `fuel` is only there for structural recursion (callers pass the length). -/
def purgeGo (level : Nat) : Nat → List G → List G → List G
  | 0, keptRev, rest => keptRev.reverse ++ rest
  | _, keptRev, [] => keptRev.reverse
  | fuel + 1, keptRev, g :: tl =>
    if isDeleted g then
      if sameNext g tl then purgeGo level fuel keptRev tl                      -- cluster survives
      else
        match keptRev with
        | last :: _ =>                                                         -- j != 0: merge cluster backward
          purgeGo level fuel (if g.cl < last.cl then purgeBack g.cl last.cl keptRev else keptRev) tl
        | [] => purgeGo level fuel [] (purgeFwd level g tl)                    -- j == 0: merge cluster forward
    else purgeGo level fuel (g :: keptRev) tl                                  -- info[j] = info[i]; j += 1

/-- src: aat_layout.rs::hb_aat_layout_remove_deleted_glyphs on `info[0..len]` -/
def purge (level : Nat) (l : List G) : List G := purgeGo level l.length [] l

/-! ### the plan: who substitutes, who positions -/

/-- the layout tables a font carries next to morx -/
structure Env where
  gsub : Bool := false
  gpos : Bool := false
  gposKern : Bool := false     -- the GPOS table has a `kern` feature
  kerx : Bool := false
  kern : Bool := false
  gsubMap : Nat → Option Nat := fun _ => none    -- the single substitution of the GSUB table (`ccmp`)

structure Appliers where
  morx : Bool
  gpos : Bool
  kerx : Bool
  kern : Bool
  deriving Repr, DecidableEq

/-- src: ot_shape.rs::hb_ot_shape_planner_t::new (apply_morx) and ::compile (apply_gpos / kerx / kern) for the
    default shaper (no `gpos_tag`), a font that has a morx table, and a GPOS whose `kern` feature is looked up
    under the tag `kern` only for horizontal text (`vkrn` otherwise; the fonts of the streams have none). -/
def appliers (e : Env) (horizontal : Bool) : Appliers :=
  let applyMorx := horizontal || !e.gsub
  let hasGsub := !applyMorx && e.gsub
  let hasGpos := e.gpos
  let hasGposKern := e.gpos && e.gposKern && horizontal
  let applyKerx0 := e.kerx && !(hasGsub && hasGpos)
  let applyGpos := !applyKerx0 && hasGpos
  let more := !applyKerx0 && (!hasGposKern || !applyGpos)
  let applyKerx := applyKerx0 || (more && e.kerx)
  let applyKern := more && !e.kerx && e.kern
  ⟨applyMorx, applyGpos, applyKerx, applyKern⟩

/-- src: ot_shape.rs::substitute_pre (after the substitution) → position (`if direction.is_backward() reverse`)
    → substitute_post, glyph ids and clusters only. -/
def finish (ap : Appliers) (level : Nat) (backward : Bool) (l : List G) : List G :=
  let l := if ap.morx && ap.gpos then purge level l else l
  let l := if backward then l.reverse else l
  if ap.morx && !ap.gpos then purge level l else l

/-- src: ot_shape.rs::ensure_native_direction when the script is unknown (no horizontal direction to compare with):
    only bottom-to-top text is reversed, and is top-to-bottom from then on.  Every character is its own grapheme, so
    `reverse_graphemes` is a plain reversal. -/
def nativeDirection (b : Buf) : M Buf :=
  if b.vertical && b.backward then do
    let r ← reverse b
    pure { r with backward := false }
  else pure b

/-- src: ot_shape.rs::hb_ot_substitute_plan: morx when the plan says so, else GSUB (here: at most one single
    substitution under `ccmp`, applied to every glyph it covers). -/
def substitutePlan (ap : Appliers) (chains : List Chain) (flags : List (Array Range)) (e : Env) (b : Buf) : M Buf :=
  if ap.morx then applyChains chains flags b
  else do
    if b.len > b.info.size then throw .oob
    pure { b with info := (b.info.extract 0 b.len).map (fun g => match e.gsubMap g.gid with
                                                                  | some v => { g with gid := v }
                                                                  | none => g)
                            ++ b.info.extract b.len b.info.size }

/-- `info[0..len]` -/
def visible (b : Buf) : M (List G) :=
  if b.len > b.info.size then throw .oob else pure (b.info.extract 0 b.len).toList

/-- src: ot_shape.rs::shape_internal for the scope of this file.  `b` is the buffer after `enter()` and
    `map_glyphs_fast` (glyph ids of the cmap, input clusters: every character is a grapheme of its own, so
    `form_clusters` changes nothing). -/
def shapeMorx (chains : List Chain) (flags : List (Array Range)) (e : Env) (b : Buf) : M (Appliers × List G) := do
  let ap := appliers e (!b.vertical)
  let b1 ← nativeDirection b
  let b2 ← substitutePlan ap chains flags e b1
  let l ← visible b2
  pure (ap, finish ap b2.level b2.backward l)

end RbModel.Morx
