def hello := "world"
