/-
  AAT tracking (`trak`): src/hb/aat_layout_trak_table.rs::apply, the part that distributes the tracking amount over the
  buffer.  The amount itself (`hor_tracking(ptem)` / `ver_tracking(ptem)`: the crate interpolates the font's per-size
  values in f32 and rounds) is a parameter `t`; the correspondence takes it from the crate.
  A slot is the pipeline's slot (cluster, grapheme-continuation bit, position) paired with `mask & trak_mask != 0`.
-/
import RbModel.Pipeline

namespace RbModel.Trak
open RbModel.Pipeline

abbrev S := G × Bool

/-- `pos[start].x_advance += tracking; pos[start].x_offset += tracking / 2` (i32 division truncates), resp. the y fields -/
def bump (t : Int) (hor : Bool) (g : G) : G :=
  if hor then { g with xa := g.xa + t, xo := g.xo + t.tdiv 2 }
  else { g with ya := g.ya + t, yo := g.yo + t.tdiv 2 }

/-- the body of the loop for the first slot of a grapheme: `if info[start].mask & trak_mask != 0 { … }` -/
def first (t : Int) (hor : Bool) (s : S) : S := if s.2 then (bump t hor s.1, s.2) else s

/-- src: aat_layout_trak_table.rs::apply — `foreach_grapheme!(buffer, start, end, { … pos[start] … })`: a group is a
    slot and the continuation slots after it (`_hb_grapheme_group_func`); `fuel` is only there for structural recursion. -/
def track (t : Int) (hor : Bool) : Nat → List S → List S
  | 0, l => l
  | _, [] => []
  | fuel + 1, s :: tl =>
    first t hor s :: (tl.takeWhile (fun x => x.1.cont) ++ track t hor fuel (tl.dropWhile (fun x => x.1.cont)))

def trackAll (t : Int) (hor : Bool) (l : List S) : List S := track t hor l.length l

end RbModel.Trak
