/-
  AAT tracking (`trak`): src/hb/aat_layout_trak_table.rs::apply, the part that distributes the tracking amount over the
  buffer.  The amount itself (`hor_tracking(ptem)` / `ver_tracking(ptem)`: the crate interpolates the font's per-size
  values in f32 and rounds) is a parameter `t`; the correspondence takes it from the crate.
  A slot is the pipeline's slot (cluster, grapheme-continuation bit, position) paired with `mask & trak_mask != 0`.
-/
import RbModel.Pipeline

namespace RbModel.Trak
open RbModel.Pipeline

abbrev S := G × Bool

/-- `pos[start].x_advance += tracking; pos[start].x_offset += tracking / 2` (i32 division truncates), resp. the y fields -/
def bump (t : Int) (hor : Bool) (g : G) : G :=
  if hor then { g with xa := g.xa + t, xo := g.xo + t.tdiv 2 }
  else { g with ya := g.ya + t, yo := g.yo + t.tdiv 2 }

/-- the body of the loop for the first slot of a grapheme: `if info[start].mask & trak_mask != 0 { … }` -/
def first (t : Int) (hor : Bool) (s : S) : S := if s.2 then (bump t hor s.1, s.2) else s

/-- src: aat_layout_trak_table.rs::apply — `foreach_grapheme!(buffer, start, end, { … pos[start] … })`: a group is a
    slot and the continuation slots after it (`_hb_grapheme_group_func`); `fuel` is only there for structural recursion. -/
def track (t : Int) (hor : Bool) : Nat → List S → List S
  | 0, l => l
  | _, [] => []
  | fuel + 1, s :: tl =>
    first t hor s :: (tl.takeWhile (fun x => x.1.cont) ++ track t hor fuel (tl.dropWhile (fun x => x.1.cont)))

def trackAll (t : Int) (hor : Bool) (l : List S) : List S := track t hor l.length l

/-- src: ot_shape.rs::position_complex for a plan compiled on a font whose only layout table is `trak` (default shaper:
    zero_marks BY_GDEF_LATE, no GPOS, fallback mark positioning on a font without outlines), on a buffer that already has its
    default positions.  The steps that write positions, in the code's order:
      position_by_plan            → `hb_aat_layout_track` (nothing else applies)
      zero_mark_widths_by_gdef    (late)
      zero_width_default_ignorables
      position_finish_offsets     (no attachment: nothing)
      position_marks              (fallback)
    `after` is the place of the tracking step relative to the default-ignorable zeroing as the CURRENT TREE has it
    (`Gen.TrakOrder.trackingAfterZeroing`, probed from the compiled crate): `false` = inside `position_by_plan` (the order
    the property needs), `true` = between the zeroing and `position_finish_offsets`. -/
def positionComplex (after : Bool) (c : Cfg) (s : Scratch) (bdir : Dir) (t : Int) (l : List S) : List G :=
  let masks := l.map (·.2)
  if after then
    let g := zeroWidthDI c s (zeroMarkWidthsByGdef bdir.isForward (l.map (·.1)))
    positionMarksFb bdir.isForward false ((trackAll t bdir.isHorizontal (g.zip masks)).map (·.1))
  else
    positionMarksFb bdir.isForward false
      (zeroWidthDI c s (zeroMarkWidthsByGdef bdir.isForward ((trackAll t bdir.isHorizontal l).map (·.1))))

end RbModel.Trak
