import RbModel.Gen.Lang
import RbModel.Map

/-!
# Tag core — script + language → OpenType tags → script / langsys records (C18, tag part of C01)

Operational model of `src/hb/tag.rs`, `src/hb/tag_table.rs`, the selection functions of
`src/hb/ot_layout.rs` (`LayoutTableExt`), `hb_ot_map_builder_t::new` and the Indic/Myanmar part of
`hb_ot_shape_complex_categorize`.

Conventions
* a Rust `str` is the list of its UTF-8 bytes (`Bytes = List Nat`, every element `< 256`); a tag is its `u32`;
* slicing a `str` (`&s[..i]`, `&s[i..]`) PANICS unless `i` is a char boundary (`str::is_char_boundary`);
  the model makes that check explicit and returns `Except.error .slice`; indexing `as_bytes()[i]` out of range is
  `.error .oob`. Nothing is defaulted;
* the language table and the decision list of `tags_from_complex_language` are data (`Cfg`), instantiated by
  `tree` with `RbModel.Gen.Lang` (regenerated from the crate on every check);
* `Variant` says which of three one-line repairs (defects D10, D10b, D14) the compiled crate contains; it is
  recovered from the crate's behaviour by `tools/gens/lang.py`, so the model follows the code.
-/

namespace RbModel.Tag

abbrev Bytes := List Nat
abbrev Tag := Nat

inductive Err where
  | slice   -- str slicing at a non-boundary / out of range
  | oob     -- index out of bounds
  | fuel    -- the model's own recursion budget ran out (proved unreachable)
deriving DecidableEq, Repr

/-- which repairs the compiled crate contains -/
structure Variant where
  /-- `lang_cmp` compares `as_bytes()` slices (D10 repaired) -/
  cmpBytes : Bool
  /-- `tag_table::strncmp` compares `as_bytes()` slices (D10b repaired) -/
  strncmpBytes : Bool
  /-- the walk limit is `LANGUAGES.len() - idx` instead of `… - idx - 1` (D14 repaired) -/
  lastRow : Bool
deriving DecidableEq, Repr

/-- one `if … { push tags; return true }` of the second part of `tags_from_complex_language` -/
structure Rule where
  first : Nat        -- the arm `b'<first>' =>` of `match language.as_bytes()[0]`
  kind : Nat         -- 1: `&language[1..] == s1`; 2: `lang_matches(&language[1..], s1)`; 3: `strncmp(&language[1..], s1, n) && subtag_matches(language, s2)`
  s1 : Bytes
  n : Nat
  s2 : Bytes
  tags : List Tag
deriving Repr

structure Cfg where
  langs : List (Bytes × Tag)          -- OPEN_TYPE_LANGUAGES
  pre : List (Bytes × List Tag)       -- `if subtag_matches(language, s) {…}` rules
  rules : List Rule
  v : Variant

/-! ## bytes, ASCII classes, tags -/

def DASH : Nat := 45
def LOWER_X : Nat := 120

-- src: core u8::to_ascii_lowercase
def toLower (b : Nat) : Nat := if 65 ≤ b ∧ b ≤ 90 then b + 32 else b
-- src: core u8::to_ascii_uppercase
def toUpper (b : Nat) : Nat := if 97 ≤ b ∧ b ≤ 122 then b - 32 else b
-- src: core u8::is_ascii_alphabetic
def isAlpha (b : Nat) : Bool := (65 ≤ b && b ≤ 90) || (97 ≤ b && b ≤ 122)
-- src: core u8::is_ascii_alphanumeric
def isAlnum (b : Nat) : Bool := isAlpha b || (48 ≤ b && b ≤ 57)

def ofStr (s : String) : Bytes := s.toUTF8.toList.map (·.toNat)

def tag4 (a b c d : Nat) : Tag := a * 16777216 + b * 65536 + c * 256 + d

-- src: ttf-parser Tag::from_bytes_lossy
def fromBytesLossy (bs : Bytes) : Tag :=
  match bs with
  | [] => 0
  | [a] => tag4 a 32 32 32
  | [a, b] => tag4 a b 32 32
  | [a, b, c] => tag4 a b c 32
  | a :: b :: c :: d :: _ => tag4 a b c d

-- src: ttf-parser Tag::to_bytes
def tagBytes (t : Tag) : Bytes := [t / 16777216 % 256, t / 65536 % 256, t / 256 % 256, t % 256]

-- src: common.rs::TagExt::to_uppercase
def tagToUpper (t : Tag) : Tag := fromBytesLossy ((tagBytes t).map toUpper)

def TAG_DFLT : Tag := tag4 68 70 76 84      -- 'DFLT' default_script
def TAG_dflt : Tag := tag4 100 102 108 116  -- 'dflt' default_language
def TAG_latn : Tag := tag4 108 97 116 110

/-! ## `str` slicing -/

/-- UTF-8 continuation byte -/
def isCont (b : Nat) : Bool := 128 ≤ b && b < 192

-- src: core str::is_char_boundary
def isBoundary (s : Bytes) (i : Nat) : Bool :=
  i == 0 || (match s[i]? with
             | some b => !isCont b
             | none => i == s.length)

/-- `&s[..i]` on a `str` -/
def strTo (s : Bytes) (i : Nat) : Except Err Bytes :=
  if isBoundary s i then .ok (s.take i) else .error .slice

/-- `&s[i..]` on a `str` -/
def strFrom (s : Bytes) (i : Nat) : Except Err Bytes :=
  if isBoundary s i then .ok (s.drop i) else .error .slice

/-- `&s.as_bytes()[..i]` -/
def bytesTo (s : Bytes) (i : Nat) : Except Err Bytes :=
  if i ≤ s.length then .ok (s.take i) else .error .slice

/-- `&s[..i]` of a `str` (`raw = false`) or of its bytes (`raw = true`) -/
def sliceTo (raw : Bool) (s : Bytes) (i : Nat) : Except Err Bytes :=
  if raw then bytesTo s i else strTo s i

/-- `s.find(pat)` for a non-empty pattern: byte offset of the first match (`k` = offset of `s` in the whole string) -/
def findSub (pat : Bytes) : Bytes → Nat → Option Nat
  | [], _ => none
  | c :: cs, k => if pat.isPrefixOf (c :: cs) then some k else findSub pat cs (k + 1)

/-- `s.find('-')` as an index (`s.len()` when absent: every use is `unwrap_or(len)` or a `Some(i)` test `i < len`) -/
def findDash (s : Bytes) : Nat := s.idxOf DASH

/-- lexicographic comparison of byte strings (`<[u8] as Ord>::cmp`, which is also `str::cmp`) -/
def cmpBytes : Bytes → Bytes → Ordering
  | [], [] => .eq
  | [], _ :: _ => .lt
  | _ :: _, [] => .gt
  | a :: as, b :: bs => if a < b then .lt else if b < a then .gt else cmpBytes as bs

/-! ## binary search (`core::slice::binary_search_by` of rustc 1.95 and ttf-parser's `LazyArray16::binary_search_by`
are the same loop) -/

-- src: core slice::binary_search_by (loop)
/-- `while size > 1 { half = size / 2; mid = base + half; base = if cmp == Greater { base } else { mid }; size -= half }`.
    The recursion is on `fuel` (initially the slice length, which bounds the number of iterations because `size`
    strictly decreases); running out of fuel is an error value of its own, proved unreachable (`bsLoop_ok`). -/
def bsLoop (probe : Nat → Except Err Ordering) : Nat → Nat → Nat → Except Err Nat
  | 0, size, base => if size > 1 then .error .fuel else .ok base
  | fuel + 1, size, base =>
    if size > 1 then do
      let half := size / 2
      let mid := base + half
      let c ← probe mid
      bsLoop probe fuel (size - half) (if c == .gt then base else mid)
    else .ok base

-- src: core slice::binary_search_by ; ttf-parser parser.rs::LazyArray16::binary_search_by
/-- `probe i` is the comparator applied to element `i` (element compared with the key) -/
def binarySearchBy (n : Nat) (probe : Nat → Except Err Ordering) : Except Err (Option Nat) :=
  if n = 0 then .ok none else do
    let base ← bsLoop probe n n 0
    let c ← probe base
    .ok (if c == .eq then some base else none)

/-! ## tag.rs -/

-- src: tag.rs::lang_cmp
def langCmp (v : Variant) (s1 s2 : Bytes) : Except Err Ordering := do
  let da := findDash s1
  let db := findDash s2
  let n := max da db
  let ea := min n s1.length
  let eb := min n s2.length
  let a ← sliceTo v.cmpBytes s1 ea
  let b ← sliceTo v.cmpBytes s2 eb
  .ok (cmpBytes a b)

-- src: tag_table.rs::subtag_matches   (`match_indices` yields non-overlapping matches, left to right)
def subtagGo (pat : Bytes) : Bytes → Nat → Bool
  | [], _ => false
  | c :: cs, skip =>
    if skip > 0 then subtagGo pat cs (skip - 1)
    else if pat.isPrefixOf (c :: cs) then
      match (c :: cs).drop pat.length with
      | [] => true
      | d :: _ => if !isAlnum d then true else subtagGo pat cs (pat.length - 1)
    else subtagGo pat cs 0

def subtagMatches (language pat : Bytes) : Bool := subtagGo pat language 0

-- src: tag_table.rs::lang_matches
def langMatches (language spec : Bytes) : Bool :=
  if spec.isPrefixOf language then
    language.length == spec.length || language[spec.length]? == some DASH
  else false

-- src: tag_table.rs::strncmp
def strncmp (v : Variant) (s1 s2 : Bytes) (n : Nat) : Except Err Bool := do
  let n1 := min n s1.length
  let n2 := min n s2.length
  let a ← sliceTo v.strncmpBytes s1 n1
  let b ← sliceTo v.strncmpBytes s2 n2
  .ok (a == b)

-- src: tag_table.rs::tags_from_complex_language (the condition of one `if` of the second part)
def ruleHit (v : Variant) (language rest : Bytes) (r : Rule) : Except Err Bool :=
  if r.kind = 1 then .ok (rest == r.s1)
  else if r.kind = 2 then .ok (langMatches rest r.s1)
  else do
    let a ← strncmp v rest r.s1 r.n
    .ok (a && subtagMatches language r.s2)

-- src: tag_table.rs::tags_from_complex_language (second part, one arm of the match)
def evalRules (v : Variant) (language rest : Bytes) : List Rule → Except Err (Option (List Tag))
  | [] => .ok none
  | r :: rs => do
    let hit ← ruleHit v language rest r
    if hit then .ok (some r.tags) else evalRules v language rest rs

-- src: tag_table.rs::tags_from_complex_language
/-- `some tags` = returned `true` after pushing `tags` onto the (empty) vector -/
def complexLanguage (cfg : Cfg) (language : Bytes) : Except Err (Option (List Tag)) :=
  match cfg.pre.find? (fun r => subtagMatches language r.1) with
  | some r => .ok (some r.2)
  | none =>
    match language with
    | [] => .error .oob                      -- language.as_bytes()[0]
    | b :: _ =>
      let arm := cfg.rules.filter (fun r => r.first == b)
      if arm.isEmpty then .ok none             -- `_ => {}`
      else do
        let rest ← strFrom language 1          -- &language[1..]
        evalRules cfg.v language rest arm

-- src: tag.rs::tags_from_language (walk back over equal languages)
def walkBack (langs : List (Bytes × Tag)) : Nat → Except Err Nat
  | 0 => .ok 0
  | idx + 1 =>
    match langs[idx + 1]?, langs[idx]? with
    | some a, some b => if a.1 == b.1 then walkBack langs idx else .ok (idx + 1)
    | _, _ => .error .oob

-- src: tag.rs::tags_from_language (`for i in 0..len`; `acc` is the tag vector, inline capacity 3)
def walkFwd (langs : List (Bytes × Tag)) (idx : Nat) : Nat → Nat → List Tag → Except Err (List Tag)
  | 0, _, acc => .ok acc
  | cnt + 1, i, acc =>
    match langs[idx + i]?, langs[idx]? with
    | some r, some r0 =>
      if r.1 != r0.1 then .ok acc
      else if r.2 == 0 then .ok acc            -- tag.is_null()
      else if acc.length == 3 then .ok acc     -- tags.is_full()
      else walkFwd langs idx cnt (i + 1) (acc ++ [r.2])
    | _, _ => .error .oob

-- src: tag.rs::tags_from_language (choice of `sublang`)
def sublangOf (language : Bytes) : Except Err Bytes := do
  let i := findDash language
  if i < language.length then                  -- Some(i) = language.find('-')
    if language.length ≥ 6 then do
      let tail ← strFrom language (i + 1)
      let j := findDash tail
      let extlang := if j < tail.length then j == 3 else language.length - i - 1 == 3
      if extlang then
        match language[i + 1]? with            -- language.as_bytes()[i + 1]
        | none => .error .oob
        | some b => if isAlpha b then strFrom language (i + 1) else .ok language
      else .ok language
    else .ok language
  else .ok language

-- src: tag.rs::tags_from_language
/-- on an empty tag vector (the only way it is called: `needs_language` means nothing was pushed) -/
def tagsFromLanguage (cfg : Cfg) (language : Bytes) : Except Err (List Tag) := do
  match ← complexLanguage cfg language with
  | some ts => .ok ts
  | none =>
    let sublang ← sublangOf language
    let n := cfg.langs.length
    let found ← binarySearchBy n (fun i =>
      match cfg.langs[i]? with
      | some r => langCmp cfg.v r.1 sublang
      | none => .error .oob)
    match found with
    | some idx =>
      let idx ← walkBack cfg.langs idx
      let len := min 3 (if cfg.v.lastRow then n - idx else n - idx - 1)
      walkFwd cfg.langs idx len 0 []
    | none =>
      if language.length == 3 then .ok [tagToUpper (fromBytesLossy language)] else .ok []

-- src: tag.rs::parse_private_use_subtag
/-- `some t` = returned `true` after pushing `t` -/
def parsePrivate (pu : Option Bytes) (pfx : Bytes) (norm : Nat → Nat) : Except Err (Option Tag) :=
  match pu with
  | none => .ok none
  | some s =>
    match findSub pfx s 0 with
    | none => .ok none
    | some idx => do
      let rest ← strFrom s (idx + pfx.length)
      let tag := ((rest.take 4).takeWhile isAlnum).map norm
      if tag.isEmpty then .ok none
      else
        let t := fromBytesLossy tag
        -- "Some bits magic from HarfBuzz": 'dflt' in any case -> 'DFLT' with the case bits flipped
        let t := if t &&& 0xDFDFDFDF == TAG_DFLT then t ^^^ 0x20202020 else t
        .ok (some t)

def HBSC : Bytes := [45, 104, 98, 115, 99]   -- "-hbsc"
def HBOT : Bytes := [45, 104, 98, 111, 116]  -- "-hbot"

-- src: tag.rs::new_tag_from_script
def newTagFromScript (script : Tag) : Option Tag :=
  if script = tag4 66 101 110 103 then some (tag4 98 110 103 50)        -- Beng -> bng2
  else if script = tag4 68 101 118 97 then some (tag4 100 101 118 50)   -- Deva -> dev2
  else if script = tag4 71 117 106 114 then some (tag4 103 106 114 50)  -- Gujr -> gjr2
  else if script = tag4 71 117 114 117 then some (tag4 103 117 114 50)  -- Guru -> gur2
  else if script = tag4 75 110 100 97 then some (tag4 107 110 100 50)   -- Knda -> knd2
  else if script = tag4 77 108 121 109 then some (tag4 109 108 109 50)  -- Mlym -> mlm2
  else if script = tag4 79 114 121 97 then some (tag4 111 114 121 50)   -- Orya -> ory2
  else if script = tag4 84 97 109 108 then some (tag4 116 109 108 50)   -- Taml -> tml2
  else if script = tag4 84 101 108 117 then some (tag4 116 101 108 50)  -- Telu -> tel2
  else if script = tag4 77 121 109 114 then some (tag4 109 121 109 50)  -- Mymr -> mym2
  else none

-- src: tag.rs::old_tag_from_script
def oldTagFromScript (script : Tag) : Tag :=
  if script = tag4 72 105 114 97 then tag4 107 97 110 97          -- Hira -> kana
  else if script = tag4 76 97 111 111 then tag4 108 97 111 32     -- Laoo -> 'lao '
  else if script = tag4 89 105 105 105 then tag4 121 105 32 32    -- Yiii -> 'yi  '
  else if script = tag4 78 107 111 111 then tag4 110 107 111 32   -- Nkoo -> 'nko '
  else if script = tag4 86 97 105 105 then tag4 118 97 105 32     -- Vaii -> 'vai '
  else script ||| 0x20000000

-- src: tag.rs::all_tags_from_script
/-- on an empty tag vector (it is only called when `-hbsc` pushed nothing) -/
def allTagsFromScript (script : Option Tag) : List Tag :=
  match script with
  | none => []
  | some s =>
    match newTagFromScript s with
    | some t =>
      -- Script::Myanmar maps to 'mym2', but there is no 'mym3'
      let pre := if t ≠ tag4 109 121 109 50 then [t / 256 * 256 + 51] else []   -- tag3[3] = b'3'
      pre ++ [t, oldTagFromScript s]
    | none => [oldTagFromScript s]

-- src: common.rs::Language::from_str
def languageFromStr (s : Bytes) : Option Bytes := if s.isEmpty then none else some (s.map toLower)

-- src: tag.rs::tags_from_script_and_language (the `while i < bytes.len()` loop; `rest = bytes[i..]`)
/-- returns (i, prefix, private_use_subtag) -/
def scan (language : Bytes) : Bytes → Nat → Bytes → Except Err (Nat × Bytes × Option Bytes)
  | [], i, pfx => .ok (i, pfx, none)
  | c :: rest, i, pfx =>
    if language[i - 1]? == some DASH && rest.head? == some DASH then
      if c == LOWER_X then do
        let pu ← strFrom language i
        let pfx ← if pfx.isEmpty then strTo language (i - 1) else pure pfx
        .ok (i, pfx, some pu)
      else do
        let pfx ← strTo language (i - 1)
        scan language rest (i + 1) pfx
    else scan language rest (i + 1) pfx

-- src: tag.rs::tags_from_script_and_language
/-- `language` is the content of a `Language` (already lower-cased, non-empty when built by `from_str`) -/
def tagsFromScriptAndLanguage (cfg : Cfg) (script : Option Tag) (language : Option Bytes) :
    Except Err (List Tag × List Tag) :=
  match language with
  | none => .ok (allTagsFromScript script, [])
  | some language => do
    let (pfx, pu) ←
      if ([LOWER_X, DASH] : Bytes).isPrefixOf language then pure (([] : Bytes), some language)
      else do
        let (i, pfx, pu) ← scan language (language.drop 1) 1 []
        let pfx ← if pfx.isEmpty then strTo language i else pure pfx
        pure (pfx, pu)
    let sc ← parsePrivate pu HBSC toLower
    let lg ← parsePrivate pu HBOT toUpper
    let languages ←
      match lg with
      | some t => pure [t]
      | none =>
        match languageFromStr pfx with
        | some p => tagsFromLanguage cfg p
        | none => pure []
    let scripts := match sc with
      | some t => [t]
      | none => allTagsFromScript script
    .ok (scripts, languages)

/-- what the public API does with a language *string*: `Language::from_str` (rejects "", lower-cases), then the above -/
def tagsApi (cfg : Cfg) (script : Option Tag) (lang : Option Bytes) : Except Err (List Tag × List Tag) :=
  tagsFromScriptAndLanguage cfg script (lang.bind languageFromStr)

/-! ## ot_layout.rs: selecting the records of a layout table (abstract font: lists of records) -/

structure LangSys where
  tag : Tag
  required : Option Nat          -- required_feature (0xFFFF = none)
  features : List Nat            -- feature indices
deriving Repr

structure ScriptRec where
  tag : Tag
  dflt : Option LangSys          -- default_language
  langs : List LangSys
deriving Repr

structure Table where
  scripts : List ScriptRec
  features : List Tag            -- FeatureList: tag of feature i
deriving Repr

-- src: ttf-parser layout_table.rs::RecordList::index
def recIndex (tags : List Tag) (t : Tag) : Except Err (Option Nat) :=
  binarySearchBy tags.length (fun i =>
    match tags[i]? with
    | some x => .ok (compare x t)
    | none => .error .oob)

/-- first tag of `cands` that `recIndex` finds, with its index -/
def firstIndexed (tags : List Tag) : List Tag → Except Err (Option (Nat × Tag))
  | [] => .ok none
  | t :: ts => do
    match ← recIndex tags t with
    | some i => .ok (some (i, t))
    | none => firstIndexed tags ts

-- src: ot_layout.rs::LayoutTableExt::select_script
def selectScript (tb : Table) (scriptTags : List Tag) : Except Err (Option (Bool × Nat × Tag)) := do
  let tags := tb.scripts.map (·.tag)
  match ← firstIndexed tags scriptTags with
  | some (i, t) => .ok (some (true, i, t))
  | none =>
    match ← firstIndexed tags [TAG_DFLT, TAG_dflt, TAG_latn] with
    | some (i, t) => .ok (some (false, i, t))
    | none => .ok none

-- src: ot_layout.rs::LayoutTableExt::select_script_language
def selectScriptLanguage (tb : Table) (scriptIndex : Nat) (langTags : List Tag) : Except Err (Option Nat) :=
  match tb.scripts[scriptIndex]? with
  | none => .ok none
  | some s => do
    let tags := s.langs.map (·.tag)
    match ← firstIndexed tags langTags with
    | some (i, _) => .ok (some i)
    | none => recIndex tags TAG_dflt

/-- the langsys a (script index, optional language index) pair designates -/
def langSysOf (tb : Table) (scriptIndex : Nat) (langIndex : Option Nat) : Option LangSys :=
  match tb.scripts[scriptIndex]? with
  | none => none
  | some s =>
    match langIndex with
    | some i => s.langs[i]?
    | none => s.dflt

-- src: ot_layout.rs::LayoutTableExt::get_required_language_feature
def requiredFeature (tb : Table) (scriptIndex : Nat) (langIndex : Option Nat) : Option (Nat × Tag) :=
  match langSysOf tb scriptIndex langIndex with
  | none => none
  | some sys =>
    match sys.required with
    | none => none
    | some idx =>
      match tb.features[idx]? with
      | none => none
      | some t => some (idx, t)

-- src: ot_layout.rs::LayoutTableExt::find_language_feature (the loop `for i in 0..sys.feature_indices.len()`)
/-- `feats` = tag of FeatureList record i; the list argument = the feature indices the language system lists that are
    still to be visited. An index that points past the FeatureList (`self.features.get(index)` = `None`: a DANGLING
    index, left behind by subsetters) fails the comparison `… == Some(feature_tag)` like a record with another tag does:
    the loop GOES ON with the next listed index (HarfBuzz: `get_feature_tag` of such an index is `HB_TAG_NONE`). -/
def findFeatureLoop (feats : List Tag) (ft : Tag) : List Nat → Option Nat
  | [] => none
  | index :: rest =>
    match feats[index]? with
    | some t => if t == ft then some index else findFeatureLoop feats ft rest
    | none => findFeatureLoop feats ft rest

-- src: ot_layout.rs::LayoutTableExt::find_language_feature
def findLanguageFeature (tb : Table) (scriptIndex : Nat) (langIndex : Option Nat) (ft : Tag) : Option Nat :=
  match langSysOf tb scriptIndex langIndex with
  | none => none
  | some sys => findFeatureLoop tb.features ft sys.features

structure Selection where
  found : Bool
  scriptIndex : Nat
  chosen : Tag
  langIndex : Option Nat
  required : Option (Nat × Tag)
deriving Repr, DecidableEq

-- src: ot_map.rs::hb_ot_map_builder_t::new (body of the per-table loop) + compile (required feature)
def selectTable (tb : Table) (scriptTags langTags : List Tag) : Except Err (Option Selection) := do
  match ← selectScript tb scriptTags with
  | none => .ok none
  | some (found, idx, tag) =>
    let li ← selectScriptLanguage tb idx langTags
    .ok (some ⟨found, idx, tag, li, requiredFeature tb idx li⟩)

-- src: ot_map.rs::hb_ot_map_builder_t::new
/-- GSUB and GPOS are treated independently, with the same tag lists -/
def selectAll (cfg : Cfg) (tables : List (Option Table)) (script : Option Tag) (language : Option Bytes) :
    Except Err (List (Option Selection)) := do
  let (st, lt) ← tagsFromScriptAndLanguage cfg script language
  tables.mapM (fun
    | none => pure none
    | some tb => selectTable tb st lt)

/-! ## ot_map.rs::collect_feature_maps on the selected records: the feature record a tag resolves to

The feature compiler itself is `Map.lean` (C14), over a font given as the answers of the accessors it calls
(`Map.Font`). Here those answers are computed from the abstract tables and the selection made above, so that the
composition is the whole path  script + language → records → feature indices of the compiled map. -/

/-- `vert`, the one tag ot_shape.rs registers with `F_GLOBAL_SEARCH` (`C18_plan_global_search_vert_only`) -/
def TAG_vert : Tag := Map.tagOf 'v' 'e' 'r' 't'

-- src: ot_map.rs::hb_ot_map_builder_t::collect_feature_maps (the F_GLOBAL_SEARCH arm; HarfBuzz: hb_ot_layout_table_find_feature)
/-- `table.features.index(tag)` — ttf-parser's binary search — and from its hit the first record carrying the tag:
    `(0..idx).find(|&i| table.features.get(i).map(|f| f.tag) == Some(tag)).unwrap_or(idx)` -/
def findTableFeature (tb : Table) (ft : Tag) : Except Err (Option Nat) := do
  match ← recIndex tb.features ft with
  | none => .ok none
  | some idx => .ok (some (((List.range idx).find? (fun i => tb.features[i]? == some ft)).getD idx))

/-- `find_language_feature(script_index, lang_index, tag)` of table `t` (0 = GSUB, 1 = GPOS) under its selection;
    `none` when the font has no such table or no script record was selected (`script_index[t]` is `None`) -/
def langFeatureAt (tables : List (Option Table)) (sels : List (Option Selection)) (t : Nat) (ft : Tag) : Option Nat :=
  match tables[t]?.join, sels[t]?.join with
  | some tb, some s => findLanguageFeature tb s.scriptIndex s.langIndex ft
  | _, _ => none

/-- the global search in table `t`. The error arm is dead: `Lemmas/Tag.lean::findTableFeature_ok`. -/
def anyFeatureAt (tables : List (Option Table)) (t : Nat) (ft : Tag) : Option Nat :=
  match tables[t]?.join with
  | some tb =>
    match findTableFeature tb ft with
    | .ok r => r
    | .error _ => none
  | none => none

/-- the font as `hb_ot_map_builder_t` reads it. Lookups are not part of this core: they come in as parameters
    (`collect_feature_maps` does not read them). -/
def mapFont (tables : List (Option Table)) (sels : List (Option Selection))
    (lookupCount : Nat → Nat) (featureLookups : Nat → Nat → Option (List Nat)) : Map.Font :=
  { present := fun t => (tables[t]?.join).isSome
    required := fun t =>
      match tables[t]?.join, sels[t]?.join with
      | some _, some s => s.required
      | _, _ => none
    lookupCount := lookupCount
    langFeature := langFeatureAt tables sels
    anyFeature := anyFeatureAt tables
    featureLookups := featureLookups }

-- src: ot_map.rs::hb_ot_map_builder_t::compile → collect_feature_maps
/-- the `feature_map_t` list compiled for the builder's feature infos against the selected records -/
def compileFeatures (c : Map.Cfg) (tables : List (Option Table)) (sels : List (Option Selection))
    (isSimple : Bool) (infos : List Map.Info) : List Map.FMap :=
  (Map.collectFeatureMaps c (mapFont tables sels (fun _ => 0) (fun _ _ => none)) isSimple infos).feats

-- src: ot_shape_plan.rs::hb_ot_shape_plan_t::new → ot_shape.rs::collect_features + ot_map.rs::compile
/-- feature maps of `ShapePlan::new(face, dir, script, language, &[])` for a shaper that registers no features of
    its own (`Map.planBuilder`); `dir`: 0 LTR, 1 RTL, 2 TTB, 3 BTT -/
def planFeatures (cfg : Cfg) (tables : List (Option Table)) (script : Option Tag) (language : Option Bytes)
    (dir : Nat) : Except Err (List Map.FMap) := do
  let sels ← selectAll cfg tables script language
  let b := Map.planBuilder Map.genCfg dir []
  .ok (compileFeatures Map.genCfg tables sels b.isSimple b.infos)

/-! ## ot_shaper.rs: shaper for the scripts with several tag generations -/

inductive Shaper where
  | default | indic | use | myanmar | other
deriving DecidableEq, Repr

def INDIC9 : List Tag :=
  [tag4 66 101 110 103, tag4 68 101 118 97, tag4 71 117 106 114, tag4 71 117 114 117, tag4 75 110 100 97,
   tag4 77 108 121 109, tag4 79 114 121 97, tag4 84 97 109 108, tag4 84 101 108 117]

-- src: ot_shaper.rs::hb_ot_shape_complex_categorize (arms of the nine Indic scripts and Myanmar; every other arm is `.other`)
def categorize (script : Tag) (gsubScript : Option Tag) : Shaper :=
  if INDIC9.contains script then
    if gsubScript == some TAG_DFLT || gsubScript == some TAG_latn then .default
    else if (match gsubScript with | some t => t % 256 == 51 | none => false) then .use   -- tag.to_bytes()[3] == b'3'
    else .indic
  else if script = tag4 77 121 109 114 then
    if gsubScript == some TAG_DFLT || gsubScript == some TAG_latn || gsubScript == some (tag4 109 121 109 114) then .default
    else .myanmar
  else .other

/-! ## the tree's configuration -/

def ruleOfTuple (t : Nat × Nat × List Nat × Nat × List Nat × List Nat) : Rule :=
  ⟨t.1, t.2.1, t.2.2.1, t.2.2.2.1, t.2.2.2.2.1, t.2.2.2.2.2⟩

/-- the variant of the compiled crate -/
def treeVariant : Variant := ⟨Gen.Lang.cmpBytes, Gen.Lang.strncmpBytes, Gen.Lang.lastRow⟩

/-- all three repairs -/
def Variant.repaired : Variant := ⟨true, true, true⟩

def cfgOf (v : Variant) : Cfg :=
  ⟨Gen.Lang.languages, Gen.Lang.preRules, Gen.Lang.branchRules.map ruleOfTuple, v⟩

/-- the crate as compiled -/
def tree : Cfg := cfgOf treeVariant

end RbModel.Tag
