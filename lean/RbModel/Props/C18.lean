import RbModel.Tag
namespace RbModel.Props.C18
open RbModel.Tag
theorem C18_placeholder : allTagsFromScript none = [] := rfl
end RbModel.Props.C18
