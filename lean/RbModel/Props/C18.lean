/-
  C18 — script and language select the font's script / language-system records; tag part of C01 (totality).
  Property theorems only; helper lemmas are in Lemmas/Tag.lean, the model in Tag.lean.

  `tree : Cfg` is the crate as compiled: the language table and the decision list of
  `tags_from_complex_language` come from `Gen/Lang.lean`, and `treeVariant` records which of the three one-line
  repairs (D10 `lang_cmp`, D10b `tag_table::strncmp`, D14 walk limit) the compiled crate contains.

  On the current tree (`treeVariant = ⟨false, false, false⟩`) two full-strength theorems are FALSE:
    * `C18_lang_complete` — the last table row (`zzj`) is unreachable (D14)        → `known_C18_lang_complete_last_row`
    * `C01_tag_total`     — `a-é` (D10) and `raé` (D10b) slice a `str` inside a char → `known_C01_tag_total_*`
  They are kept below as comments together with their one-line proofs from the general theorems
  `C18_lang_complete_of_repair` / `C01_tag_total_of_repairs`, which hold for every variant that has the repairs;
  the `_partial` versions exclude exactly the findings. After the `fix:` commits the regenerated flags flip, the
  `known_*` theorems stop checking (delete them) and the commented theorems check (uncomment them).
-/
import RbModel.Lemmas.Tag
import RbModel.Lemmas.TagScript
import RbModel.Spec.ScriptAlias

namespace RbModel.Tag

set_option maxRecDepth 100000

/-! ## obligations on the generated tables (closed by kernel evaluation) -/

/-- The compiled language table is sorted by language (non-decreasing byte order, equal languages adjacent), and
    its languages are non-empty ASCII strings whose bytes all sort after `-`. -/
theorem C18_lang_sorted : TableOk Gen.Lang.languages := ⟨by decide +kernel, by decide +kernel⟩

/-- Every rule of `tags_from_complex_language` sits under an ASCII first byte and compares with an ASCII literal
    (so `&language[1..]` and the literal side of `strncmp` never slice inside a character). -/
theorem C18_rules_ascii : rulesOk (Gen.Lang.branchRules.map ruleOfTuple) = true := by decide +kernel

/-- No multi-subtag rule fires on a language of the table itself (whatever `strncmp` variant is compiled). -/
theorem C18_lang_norule (b : Bool) : noRule b = true := by
  cases b
  · decide +kernel
  · decide +kernel

/-! ## selecting the script and language-system records -/

/-- `select_script` on a table whose script records are strictly sorted by tag (as OpenType requires): the first
    candidate tag, in the order given, that the table has — else `DFLT`, else `dflt`, else `latn`, else nothing.
    The flag says whether a candidate was found. GSUB and GPOS go through this function separately. -/
theorem C18_select_script (tb : Table) (hs : (tb.scripts.map (·.tag)).Pairwise (· < ·)) (cands : List Tag) :
    selectScript tb cands = .ok (
      let tags := tb.scripts.map (·.tag)
      match cands.find? (fun t => decide (t ∈ tags)) with
      | some t => some (true, tags.idxOf t, t)
      | none =>
        match [TAG_DFLT, TAG_dflt, TAG_latn].find? (fun t => decide (t ∈ tags)) with
        | some t => some (false, tags.idxOf t, t)
        | none => none) := by
  unfold selectScript
  simp only [bind, Except.bind, firstIndexed_spec _ hs]
  cases cands.find? (fun t => decide (t ∈ tb.scripts.map (·.tag))) with
  | some t => rfl
  | none =>
    simp only [Option.map_none]
    cases List.find? (fun t => decide (t ∈ tb.scripts.map (·.tag))) [TAG_DFLT, TAG_dflt, TAG_latn] with
    | some t => rfl
    | none => rfl

example : (([⟨TAG_DFLT, none, []⟩, ⟨TAG_latn, none, []⟩] : List ScriptRec).map (·.tag)).Pairwise (· < ·) := by
  decide

/-- `select_script_language` under the chosen script (langsys records strictly sorted by tag): the first language
    tag, in order, that the script has; else a langsys record literally tagged `dflt`; else none (= default langsys). -/
theorem C18_select_language (tb : Table) (si : Nat) (s : ScriptRec) (hsi : tb.scripts[si]? = some s)
    (hs : (s.langs.map (·.tag)).Pairwise (· < ·)) (langTags : List Tag) :
    selectScriptLanguage tb si langTags = .ok (
      let tags := s.langs.map (·.tag)
      match langTags.find? (fun t => decide (t ∈ tags)) with
      | some t => some (tags.idxOf t)
      | none => if TAG_dflt ∈ tags then some (tags.idxOf TAG_dflt) else none) := by
  unfold selectScriptLanguage
  simp only [hsi, bind, Except.bind, firstIndexed_spec _ hs, recIndex_spec _ hs]
  cases langTags.find? (fun t => decide (t ∈ s.langs.map (·.tag))) with
  | some t => rfl
  | none => rfl

example : ∃ tb : Table, ∃ s, tb.scripts[0]? = some s ∧ (s.langs.map (·.tag)).Pairwise (· < ·) :=
  ⟨⟨[⟨TAG_latn, none, [⟨1, none, []⟩, ⟨2, none, []⟩]⟩], []⟩, _, rfl, by decide⟩

/-- The required feature used for a table is the required feature of exactly the selected language system — the
    langsys found by `select_script_language`, the script's default langsys when none was found — whenever the font
    lists that feature; nothing else can become "required". (That the map compiler then applies it with the global
    mask, i.e. on every glyph, is part of the feature-map core; end to end it is covered by the `select-shape` search.) -/
theorem C18_required_on (tb : Table) (cands langTags : List Tag) (s : Selection)
    (h : selectTable tb cands langTags = .ok (some s)) :
    s.required = requiredFeature tb s.scriptIndex s.langIndex ∧
    (∀ sys i t, langSysOf tb s.scriptIndex s.langIndex = some sys → sys.required = some i →
        tb.features[i]? = some t → s.required = some (i, t)) ∧
    (∀ i t, s.required = some (i, t) →
        ∃ sys, langSysOf tb s.scriptIndex s.langIndex = some sys ∧ sys.required = some i) := by
  unfold selectTable at h
  simp only [bind, Except.bind] at h
  split at h
  · cases h
  · split at h
    · cases h
    · split at h
      · cases h
      · injection h with h; injection h with h; subst h
        refine ⟨rfl, ?_, ?_⟩
        · intro sys i t h1 h2 h3
          simp only [requiredFeature, h1, h2, h3]
        · intro i t h1
          simp only [requiredFeature] at h1
          split at h1
          · cases h1
          · rename_i sys hsys
            split at h1
            · cases h1
            · rename_i idx hidx
              split at h1
              · cases h1
              · injection h1 with h1; injection h1 with h1 h2
                exact ⟨sys, hsys, by rw [← h1]; exact hidx⟩

example : selectTable ⟨[⟨TAG_latn, some ⟨TAG_dflt, some 0, []⟩, []⟩], [7]⟩ [TAG_latn] [] =
    .ok (some ⟨true, 0, TAG_latn, none, some (0, 7)⟩) := by decide

/-- GSUB and GPOS are searched independently with the same two tag lists: what is selected in one table does not
    depend on the other table. -/
theorem C18_tables_independent (cfg : Cfg) (tables : List (Option Table)) (script : Option Tag)
    (language : Option Bytes) (st lt : List Tag)
    (h : tagsFromScriptAndLanguage cfg script language = .ok (st, lt)) :
    selectAll cfg tables script language =
      tables.mapM (fun
        | none => pure none
        | some tb => selectTable tb st lt) := by
  unfold selectAll
  simp only [bind, Except.bind, h]
  congr 1

example : tagsFromScriptAndLanguage tree (some (fromBytesLossy (asc "Deva"))) none =
    .ok ([fromBytesLossy (asc "dev3"), fromBytesLossy (asc "dev2"), fromBytesLossy (asc "deva")], []) := by
  decide +kernel

/-! ## script tags -/

/-- Scripts with several tag generations yield them newest first (`xxx3`, `xxx2`, old tag); Myanmar has no `mym3`;
    every other script yields its single old-style tag. -/
theorem C18_script_tags :
    INDIC9.map (fun s => allTagsFromScript (some s)) =
      [[asc "bng3", asc "bng2", asc "beng"], [asc "dev3", asc "dev2", asc "deva"], [asc "gjr3", asc "gjr2", asc "gujr"],
       [asc "gur3", asc "gur2", asc "guru"], [asc "knd3", asc "knd2", asc "knda"], [asc "mlm3", asc "mlm2", asc "mlym"],
       [asc "ory3", asc "ory2", asc "orya"], [asc "tml3", asc "tml2", asc "taml"], [asc "tel3", asc "tel2", asc "telu"]].map
        (fun l => l.map fromBytesLossy) ∧
    allTagsFromScript (some (fromBytesLossy (asc "Mymr"))) = [fromBytesLossy (asc "mym2"), fromBytesLossy (asc "mymr")] ∧
    (∀ s, newTagFromScript s = none → allTagsFromScript (some s) = [oldTagFromScript s]) ∧
    allTagsFromScript none = [] := by
  refine ⟨by decide +kernel, by decide +kernel, ?_, rfl⟩
  intro s h; simp [allTagsFromScript, h]

/-- The shaper follows the generation of the script tag found in GSUB: for each of the nine Indic scripts the
    `xxx3` tag goes to the universal shaper, `xxx2` and the old tag to the Indic shaper, `DFLT` / `latn` / nothing
    special to the default shaper (no tag found at all: Indic); Myanmar: `mym2` → Myanmar shaper, `mymr`, `DFLT`,
    `latn` → default. -/
theorem C18_shaper_generations :
    (∀ s ∈ INDIC9, ∀ g : Option Tag, categorize s g =
      if g = some TAG_DFLT ∨ g = some TAG_latn then .default
      else if (∃ t, g = some t ∧ t % 256 = 51) then .use else .indic) ∧
    INDIC9.map (fun s => (allTagsFromScript (some s)).map (fun t => categorize s (some t))) =
      List.replicate 9 [.use, .indic, .indic] ∧
    (allTagsFromScript (some (fromBytesLossy (asc "Mymr")))).map (fun t => categorize (fromBytesLossy (asc "Mymr")) (some t)) =
      [.myanmar, .default] := by
  refine ⟨?_, by decide +kernel, by decide +kernel⟩
  intro s hs g
  have hc : INDIC9.contains s = true := by simpa using hs
  unfold categorize
  simp only [hc, if_true]
  by_cases h1 : g = some TAG_DFLT ∨ g = some TAG_latn
  · have : (g == some TAG_DFLT || g == some TAG_latn) = true := by
      rcases h1 with h | h <;> simp [h]
    simp [this, h1]
  · have : (g == some TAG_DFLT || g == some TAG_latn) = false := by
      simp only [not_or] at h1
      simp [h1.1, h1.2]
    simp only [this, Bool.false_eq_true, if_false, h1]
    cases g with
    | none => simp
    | some t =>
      by_cases h3 : t % 256 = 51 <;> simp [h3]

/-! ## languages -/

/-- For ANY language string (as stored in a `Language`): when no multi-subtag rule matches, the tags are those of
    the first run of table rows whose language equals the first subtag of `sublang` (at most three, cut at a null
    tag; without the D14 repair the last table row is never read); when there is no such row, the upper-cased
    language itself if it has three bytes. -/
theorem C18_lang_spec (v : Variant) (language sub : Bytes) (r : List Tag)
    (hc : complexLanguage (cfgOf v) language = .ok none) (hs : sublangOf language = .ok sub)
    (h : tagsFromLanguage (cfgOf v) language = .ok r) :
    r = langSpec v Gen.Lang.languages language (firstSubtag sub) :=
  tagsFromLanguage_spec (cfgOf v) C18_lang_sorted language sub r hc hs h

example : complexLanguage tree (asc "en-us") = .ok none ∧ sublangOf (asc "en-us") = .ok (asc "en-us") ∧
    tagsFromLanguage tree (asc "en-us") = .ok [fromBytesLossy (asc "ENG ")] := by decide +kernel

/-- With the D14 repair every row of the table reaches the tag registered first for its language. -/
theorem C18_lang_complete_of_repair (v : Variant) (hv : v.lastRow = true) (i : Nat) (hi : i < Gen.Lang.languages.length) :
    ∃ ts, tagsFromLanguage (cfgOf v) Gen.Lang.languages[i].1 = .ok ts ∧
      ts.head? = firstRegistered Gen.Lang.languages Gen.Lang.languages[i].1 :=
  lang_complete v C18_lang_sorted C18_rules_ascii (C18_lang_norule _) i hi (Or.inl hv)

example : Variant.repaired.lastRow = true := rfl

/-- FULL STRENGTH (holds since the repair of D14, `Gen.Lang.lastRow = true`): every row of the language table reaches
    the tag registered first for its language. -/
theorem C18_lang_complete (i : Nat) (hi : i < Gen.Lang.languages.length) :
    ∃ ts, tagsFromLanguage tree Gen.Lang.languages[i].1 = .ok ts ∧
      ts.head? = firstRegistered Gen.Lang.languages Gen.Lang.languages[i].1 :=
  C18_lang_complete_of_repair treeVariant (by decide) i hi
example : 0 < Gen.Lang.languages.length := by decide +kernel

/-- Every row except the last one reaches the tag registered first for its language (any variant). -/
theorem C18_lang_complete_partial (i : Nat) (hi : i + 1 < Gen.Lang.languages.length) :
    ∃ ts, tagsFromLanguage tree Gen.Lang.languages[i].1 = .ok ts ∧
      ts.head? = firstRegistered Gen.Lang.languages Gen.Lang.languages[i].1 :=
  lang_complete treeVariant C18_lang_sorted C18_rules_ascii (C18_lang_norule _) i (by omega) (Or.inr hi)

example : 5 + 1 < Gen.Lang.languages.length := by decide +kernel

/-- Case does not matter: the entry point lower-cases the language (`Language::from_str`), so any re-casing of
    the ASCII letters of a string gives the same tags (or the same panic). -/
theorem C18_case_insensitive (cfg : Cfg) (script : Option Tag) (s : Bytes) :
    tagsApi cfg script (some (s.map toUpper)) = tagsApi cfg script (some s) ∧
    tagsApi cfg script (some (s.map toLower)) = tagsApi cfg script (some s) := by
  unfold tagsApi
  simp only [Option.bind_some, languageFromStr_upper, languageFromStr_lower, and_self]

/-- Private use: `x-hbot<t>` selects exactly the language tag spelled by `t` (1–4 alphanumerics, upper-cased,
    space padded) and `x-hbsc<t>` exactly the script tag spelled by `t` (lower-cased) whatever the `script`
    argument — for every continuation `rest` that does not extend the tag. -/
theorem C18_private_use (cfg : Cfg) (script : Option Tag) (t rest : Bytes)
    (h0 : t ≠ []) (h1 : ∀ x ∈ t, isAlnum x = true) (h2 : t.length ≤ 4)
    (h3 : t.length = 4 ∨ rest = [] ∨ ∃ c r, rest = c :: r ∧ isAlnum c = false) :
    (∀ r, tagsFromScriptAndLanguage cfg script (some (120 :: (HBOT ++ t ++ rest))) = .ok r → r.2 = [privTag toUpper t]) ∧
    (∀ r, tagsFromScriptAndLanguage cfg script (some (120 :: (HBSC ++ t ++ rest))) = .ok r → r.1 = [privTag toLower t]) := by
  constructor
  · intro r h
    unfold tagsFromScriptAndLanguage at h
    have hx : ([LOWER_X, DASH] : Bytes).isPrefixOf (120 :: (HBOT ++ t ++ rest)) = true := by
      simp [LOWER_X, DASH, HBOT, List.isPrefixOf]
    simp only [hx, if_true, pure, Except.pure, bind, Except.bind,
      parsePrivate_x HBOT (Or.inl rfl) toUpper t rest h0 h1 h2 h3] at h
    all_goals (try split at h)
    all_goals (try split at h)
    all_goals (cases h <;> rfl)
  · intro r h
    unfold tagsFromScriptAndLanguage at h
    have hx : ([LOWER_X, DASH] : Bytes).isPrefixOf (120 :: (HBSC ++ t ++ rest)) = true := by
      simp [LOWER_X, DASH, HBSC, List.isPrefixOf]
    simp only [hx, if_true, pure, Except.pure, bind, Except.bind,
      parsePrivate_x HBSC (Or.inr rfl) toLower t rest h0 h1 h2 h3] at h
    all_goals (try split at h)
    all_goals (try split at h)
    all_goals (try split at h)
    all_goals (try split at h)
    all_goals (cases h <;> rfl)

example := C18_private_use tree none (asc "abc") (asc "-zxc") (by decide) (by decide) (by decide)
  (Or.inr (Or.inr ⟨45, asc "zxc", rfl, rfl⟩))

example : tagsFromScriptAndLanguage tree (some (fromBytesLossy (asc "Copt"))) (some (asc "x-hbotpap0-hbsccopt")) =
    .ok ([fromBytesLossy (asc "copt")], [fromBytesLossy (asc "PAP0")]) := by decide +kernel

/-- ≈60 hand-checked BCP 47 → OpenType language-system pairs (from the OpenType language-system registry and the
    HarfBuzz test-suite), evaluated on the model of the compiled crate through the public entry point. -/
def wellknown : List (String × String) := [
  ("en", "ENG "), ("en-US", "ENG "), ("de", "DEU "), ("fr", "FRA "), ("es", "ESP "), ("it", "ITA "), ("pt", "PTG "),
  ("nl", "NLD "), ("sv", "SVE "), ("da", "DAN "), ("fi", "FIN "), ("pl", "PLK "), ("cs", "CSY "), ("sk", "SKY "),
  ("hu", "HUN "), ("ro", "ROM "), ("ro-MD", "MOL "), ("bg", "BGR "), ("ru", "RUS "), ("uk", "UKR "), ("sr", "SRB "),
  ("hr", "HRV "), ("sl", "SLV "), ("el", "ELL "), ("el-polyton", "PGR "), ("tr", "TRK "), ("az", "AZE "),
  ("he", "IWR "), ("ar", "ARA "), ("fa", "FAR "), ("ur", "URD "), ("ps", "PAS "), ("hi", "HIN "), ("mr", "MAR "),
  ("ne", "NEP "), ("bn", "BEN "), ("gu", "GUJ "), ("pa", "PAN "), ("ta", "TAM "), ("te", "TEL "), ("kn", "KAN "),
  ("ml", "MAL "), ("si", "SNH "), ("th", "THA "), ("lo", "LAO "), ("km", "KHM "), ("my", "BRM "), ("ka", "KAT "),
  ("hy", "HYE0"), ("ja", "JAN "), ("ko", "KOR "), ("vi", "VIT "), ("zh", "ZHS "), ("zh-Hans", "ZHS "),
  ("zh-Hant", "ZHT "), ("zh-TW", "ZHT "), ("zh-HK", "ZHH "), ("zh-Hant-HK", "ZHH "), ("zh-MO", "ZHTM"),
  ("yue", "ZHH "), ("id", "IND "), ("ms", "MLY "), ("sw", "SWK "), ("zu", "ZUL "), ("ga", "IRI "), ("ga-Latg", "IRT "),
  ("cy", "WEL "), ("eu", "EUQ "), ("ca", "CAT "), ("is", "ISL "), ("mt", "MTS "), ("sq", "SQI "), ("mk", "MKD "),
  ("und-fonipa", "IPPH"), ("en-fonnapa", "APPH"), ("syr-Syre", "SYRE"), ("xyz", "XYZ "), ("x-hbotabcd", "ABCD")]

def wellknownOk (ps : List (String × String)) : Bool :=
  ps.all (fun p => firstLang tree (asc p.1) == some (fromBytesLossy (asc p.2)))

theorem C18_wellknown : wellknownOk wellknown = true := by
  have h1 : wellknownOk (wellknown.take 26) = true := by decide +kernel
  have h2 : wellknownOk ((wellknown.drop 26).take 26) = true := by decide +kernel
  have h3 : wellknownOk (wellknown.drop 52) = true := by decide +kernel
  have e : wellknown = wellknown.take 26 ++ ((wellknown.drop 26).take 26 ++ wellknown.drop 52) := by
    have : wellknown.drop 52 = (wellknown.drop 26).drop 26 := by rw [List.drop_drop]
    rw [this, List.take_append_drop, List.take_append_drop]
  rw [e]
  unfold wellknownOk at *
  rw [List.all_append, List.all_append, h1, h2, h3]; rfl

/-! ## which feature record a tag resolves to (`collect_feature_maps` on the selected records)

`compileFeatures` is C14's model of the feature compiler (`Map.collectFeatureMaps`) run on the font facts computed from
the records selected above (`mapFont`): `find_language_feature` under the selected script / language system, and —
for features registered with `F_GLOBAL_SEARCH` only — the search through the whole FeatureList. A FeatureList may hold
any number of records with one tag (pan-CJK fonts: one `vert`, one `locl` per language system). -/

/-- a FeatureList of the pan-CJK kind: three `vert` records; script `DFLT` whose default language system lists no
    feature, `JAN ` lists record 1 and `KOR ` record 2 -/
def cjk : Table :=
  ⟨[⟨TAG_DFLT, some ⟨TAG_dflt, none, []⟩,
     [⟨fromBytesLossy (asc "JAN "), none, [1]⟩, ⟨fromBytesLossy (asc "KOR "), none, [2]⟩]⟩],
   [TAG_vert, TAG_vert, TAG_vert]⟩
/-- `enable_feature(vert, F_GLOBAL_SEARCH, 1)` -/
def vertInfo : Map.Info := ⟨TAG_vert, 0, 1, Map.genCfg.fGlobalSearch ||| Map.genCfg.fGlobal, 1, 0, 0⟩
/-- language `KOR ` found -/
def selKOR : Selection := ⟨false, 0, TAG_DFLT, some 1, none⟩
/-- no language record found: the default language system -/
def selDflt : Selection := ⟨false, 0, TAG_DFLT, none, none⟩
def vertMap (i : Option Nat) : Map.FMap :=
  ⟨TAG_vert, i, none, 0, 0, Map.genCfg.globalShift, Map.genCfg.globalBit, Map.genCfg.globalBit, true, true, false, false⟩

example : selectTable cjk [fromBytesLossy (asc "hani")] [fromBytesLossy (asc "KOR ")] = .ok (some selKOR) := by decide +kernel
example : selectTable cjk [fromBytesLossy (asc "hani")] [fromBytesLossy (asc "ENG ")] = .ok (some selDflt) := by decide +kernel

/-! ### `find_language_feature` on language systems as fonts really carry them

The feature-index array of a LangSys is data of the font: nothing makes its entries point into the FeatureList. Subset
and hand-edited fonts carry DANGLING indices (≥ FeatureCount), duplicates, indices of records with other tags. The
search visits the listed indices in order and takes the first one whose record EXISTS and carries the tag; an index
without a record is passed over like a record with another tag (`findFeatureLoop`; HarfBuzz reads `HB_TAG_NONE` there). -/

/-- a language system of the sloppy kind: FeatureList `ccmp, locl, liga`; the language system lists
    `7, 65535, 2, 2, 3, 1` — two indices past the FeatureList in front, a duplicate, one more dangling index in the middle -/
def sloppy : Table :=
  ⟨[⟨TAG_latn, some ⟨TAG_dflt, none, [7, 65535, 2, 2, 3, 1]⟩, []⟩],
   [fromBytesLossy (asc "ccmp"), fromBytesLossy (asc "locl"), fromBytesLossy (asc "liga")]⟩

/-- A DANGLING INDEX IS SKIPPED. An entry of the language system's feature-index array that points past the
    FeatureList does not end the search: whatever the tag, the result is that of the entries behind it. -/
theorem C18_dangling_index_skipped (tb : Table) (si : Nat) (li : Option Nat) (sys : LangSys) (ft : Tag)
    (hsys : langSysOf tb si li = some sys) (pre post : List Nat) (hl : sys.features = pre ++ post)
    (hd : ∀ j ∈ pre, tb.features[j]? = none) :
    findLanguageFeature tb si li ft = findFeatureLoop tb.features ft post := by
  unfold findLanguageFeature
  rw [hsys]
  simp only [hl]
  apply findFeatureLoop_skip
  intro j hj
  rw [hd j hj]
  intro e; cases e

example : (langSysOf sloppy 0 none).map (·.features) = some ([7, 65535] ++ [2, 2, 3, 1]) ∧
    (∀ j ∈ [7, 65535], sloppy.features[j]? = none) ∧
    findLanguageFeature sloppy 0 none (fromBytesLossy (asc "locl")) = some 1 := by decide +kernel

/-- A LISTED INDEX THAT EXISTS IN THE FEATURELIST WITH THE WANTED TAG IS FOUND, WHATEVER STANDS BEFORE IT: dangling
    indices, duplicates, indices of records with other tags (`hpre` only says that none of them is itself an existing
    record with the tag — then that one would be the first listed and win). -/
theorem C18_listed_feature_found (tb : Table) (si : Nat) (li : Option Nat) (sys : LangSys) (ft : Tag)
    (hsys : langSysOf tb si li = some sys) (pre post : List Nat) (i : Nat) (hl : sys.features = pre ++ i :: post)
    (hi : tb.features[i]? = some ft) (hpre : ∀ j ∈ pre, tb.features[j]? ≠ some ft) :
    findLanguageFeature tb si li ft = some i := by
  unfold findLanguageFeature
  rw [hsys]
  simp only [hl]
  exact findFeatureLoop_found pre post i hi hpre

/-- non-vacuity, with two dangling indices in front of the found one, and one behind another -/
example : (langSysOf sloppy 0 none).map (·.features) = some ([7, 65535] ++ 2 :: [2, 3, 1]) ∧
    sloppy.features[2]? = some (fromBytesLossy (asc "liga")) ∧
    (∀ j ∈ [7, 65535], sloppy.features[j]? ≠ some (fromBytesLossy (asc "liga"))) ∧
    sloppy.features[7]? = none ∧
    findLanguageFeature sloppy 0 none (fromBytesLossy (asc "liga")) = some 2 ∧
    findLanguageFeature sloppy 0 none (fromBytesLossy (asc "locl")) = some 1 ∧
    findLanguageFeature sloppy 0 none (fromBytesLossy (asc "ccmp")) = none := by decide +kernel

/-- … without any side condition: as soon as SOME listed index has a record with the tag, the search succeeds, with a
    listed index whose record exists and carries the tag (the first such). -/
theorem C18_listed_feature_some (tb : Table) (si : Nat) (li : Option Nat) (sys : LangSys) (ft : Tag)
    (hsys : langSysOf tb si li = some sys) (i : Nat) (hm : i ∈ sys.features) (hi : tb.features[i]? = some ft) :
    ∃ j, findLanguageFeature tb si li ft = some j ∧ tb.features[j]? = some ft ∧
      ∃ pre post, sys.features = pre ++ j :: post ∧ ∀ k ∈ pre, tb.features[k]? ≠ some ft := by
  unfold findLanguageFeature
  rw [hsys]
  simp only
  cases h : findFeatureLoop tb.features ft sys.features with
  | none => exact absurd hi (findFeatureLoop_none.1 h i hm)
  | some j => exact ⟨j, rfl, findFeatureLoop_some h⟩

example : (3 : Nat) ∈ [9, 3, 3] ∧ ([5, 5, 5, 8] : List Tag)[3]? = some 8 := by decide

/-- EXACTLY THE EXISTING LISTED FEATURES: the search fails only when no listed index has a record with the tag. -/
theorem C18_unlisted_feature_not_found (tb : Table) (si : Nat) (li : Option Nat) (sys : LangSys) (ft : Tag)
    (hsys : langSysOf tb si li = some sys) :
    findLanguageFeature tb si li ft = none ↔ ∀ i ∈ sys.features, tb.features[i]? ≠ some ft := by
  unfold findLanguageFeature
  rw [hsys]
  exact findFeatureLoop_none

/-- THE LISTED RECORDS ARE THE MAP'S INDICES. Whatever features the shaper registered
    (`infos`, any flags, `F_GLOBAL_SEARCH` included): if the language system selected in GSUB or in GPOS lists a record
    under the tag of a compiled feature map, the map's indices are exactly the records the two selected language
    systems list (first listed first) — no other record of the FeatureList takes part, however many carry the tag. -/
theorem C18_listed_indices_applied (c : Map.Cfg) (tables : List (Option Table)) (sels : List (Option Selection))
    (isSimple : Bool) (infos : List Map.Info) (f : Map.FMap) (hf : f ∈ compileFeatures c tables sels isSimple infos)
    (hl : (langFeatureAt tables sels 0 f.tag).isSome ∨ (langFeatureAt tables sels 1 f.tag).isSome) :
    f.index0 = langFeatureAt tables sels 0 f.tag ∧ f.index1 = langFeatureAt tables sels 1 f.tag := by
  obtain ⟨info, _, ht, hx⟩ := compileFeatures_index c tables sels isSimple infos f hf
  unfold resolve at hx
  rw [ht] at hx
  have : ((langFeatureAt tables sels 0 f.tag).isSome || (langFeatureAt tables sels 1 f.tag).isSome) = true := by
    rcases hl with h | h <;> simp [h]
  simp only [this, if_true] at hx
  injection hx with h0 h1
  exact ⟨h0, h1⟩

example : compileFeatures Map.genCfg [some cjk, none] [some selKOR, none] false [vertInfo] = [vertMap (some 2)] ∧
    (langFeatureAt [some cjk, none] [some selKOR, none] 0 TAG_vert).isSome = true := by decide +kernel

/-- A FEATURE LISTED BY THE SELECTED LANGUAGE SYSTEM IS THE ONE APPLIED — stated on the font's records, for feature-index
    arrays that may hold dangling indices. Table `t` (0 = GSUB, 1 = GPOS) has the selection `s`, whose language system
    `sys` lists `pre ++ i :: post`; record `i` exists and carries the tag of the compiled feature map `f`, and nothing
    in `pre` is an existing record with that tag (dangling indices, duplicates, other tags: anything else). Then `f`
    points to record `i` in table `t`, whatever features the shaper registered, whatever flags they carry — and the
    other table's index is what ITS selected language system lists. -/
theorem C18_listed_feature_applied (c : Map.Cfg) (tables : List (Option Table)) (sels : List (Option Selection))
    (isSimple : Bool) (infos : List Map.Info) (f : Map.FMap) (hf : f ∈ compileFeatures c tables sels isSimple infos)
    (t : Nat) (ht : t ≤ 1) (tb : Table) (s : Selection) (sys : LangSys)
    (htb : tables[t]?.join = some tb) (hs : sels[t]?.join = some s)
    (hsys : langSysOf tb s.scriptIndex s.langIndex = some sys)
    (pre post : List Nat) (i : Nat) (hl : sys.features = pre ++ i :: post)
    (hi : tb.features[i]? = some f.tag) (hpre : ∀ j ∈ pre, tb.features[j]? ≠ some f.tag) :
    (if t = 0 then f.index0 else f.index1) = some i ∧
      f.index0 = langFeatureAt tables sels 0 f.tag ∧ f.index1 = langFeatureAt tables sels 1 f.tag := by
  have hfound : langFeatureAt tables sels t f.tag = some i := by
    unfold langFeatureAt
    rw [htb, hs]
    exact C18_listed_feature_found tb s.scriptIndex s.langIndex sys f.tag hsys pre post i hl hi hpre
  have ht' : t = 0 ∨ t = 1 := by omega
  have hsome : (langFeatureAt tables sels 0 f.tag).isSome ∨ (langFeatureAt tables sels 1 f.tag).isSome := by
    rcases ht' with rfl | rfl
    · left; rw [hfound]; rfl
    · right; rw [hfound]; rfl
  obtain ⟨h0, h1⟩ := C18_listed_indices_applied c tables sels isSimple infos f hf hsome
  refine ⟨?_, h0, h1⟩
  rcases ht' with rfl | rfl
  · simp only [if_true]; rw [h0, hfound]
  · simp only [Nat.succ_ne_zero, if_false]; rw [h1, hfound]

/-- a `locl` feature as every shaper registers it (`enable_feature(locl, F_GLOBAL, 1)`) -/
def loclInfo : Map.Info := ⟨fromBytesLossy (asc "locl"), 0, 1, Map.genCfg.fGlobal, 1, 0, 0⟩
/-- script `latn` found, default language system -/
def selLatn : Selection := ⟨true, 0, TAG_latn, none, none⟩

/-- non-vacuity: the sloppy language system — `locl` is record 1, listed last, behind three dangling indices (7, 65535,
    3) and a duplicated `liga`; the compiled map has it -/
example : (compileFeatures Map.genCfg [some sloppy, none] [some selLatn, none] false [loclInfo]).map
      (fun f => (f.tag, f.index0, f.index1)) = [(fromBytesLossy (asc "locl"), some 1, none)] ∧
    (langSysOf sloppy selLatn.scriptIndex selLatn.langIndex).map (·.features) = some ([7, 65535, 2, 2, 3] ++ 1 :: []) ∧
    sloppy.features[1]? = some (fromBytesLossy (asc "locl")) ∧ sloppy.features[7]? = none ∧ sloppy.features[3]? = none ∧
    (∀ j ∈ [7, 65535, 2, 2, 3], sloppy.features[j]? ≠ some (fromBytesLossy (asc "locl"))) := by decide +kernel

/-- ONLY THE GLOBAL SEARCH REACHES AN UNLISTED RECORD. If a compiled feature map points to a record that the selected
    language system of that table does not list under its tag, then no selected language system (GSUB or GPOS) lists the
    tag at all, the feature was registered with `F_GLOBAL_SEARCH`, and the record is the result of the global search. -/
theorem C18_unlisted_only_by_global_search (c : Map.Cfg) (tables : List (Option Table)) (sels : List (Option Selection))
    (isSimple : Bool) (infos : List Map.Info) (f : Map.FMap) (hf : f ∈ compileFeatures c tables sels isSimple infos)
    (h : f.index0 ≠ langFeatureAt tables sels 0 f.tag ∨ f.index1 ≠ langFeatureAt tables sels 1 f.tag) :
    langFeatureAt tables sels 0 f.tag = none ∧ langFeatureAt tables sels 1 f.tag = none ∧
    f.index0 = anyFeatureAt tables 0 f.tag ∧ f.index1 = anyFeatureAt tables 1 f.tag ∧
    ∃ info ∈ Map.dedupInfos c isSimple infos, info.tag = f.tag ∧ info.flags &&& c.fGlobalSearch ≠ 0 := by
  obtain ⟨info, hi, ht, hx⟩ := compileFeatures_index c tables sels isSimple infos f hf
  unfold resolve at hx
  rw [ht] at hx
  by_cases hs : ((langFeatureAt tables sels 0 f.tag).isSome || (langFeatureAt tables sels 1 f.tag).isSome) = true
  · simp only [hs, if_true] at hx
    injection hx with h0 h1
    rcases h with h | h
    · exact absurd h0 h
    · exact absurd h1 h
  · have hn : langFeatureAt tables sels 0 f.tag = none ∧ langFeatureAt tables sels 1 f.tag = none := by
      cases h0 : langFeatureAt tables sels 0 f.tag <;> cases h1 : langFeatureAt tables sels 1 f.tag <;> simp_all
    rw [if_neg hs] at hx
    by_cases hg : info.flags &&& c.fGlobalSearch ≠ 0
    · rw [if_pos hg] at hx
      injection hx with h0 h1
      exact ⟨hn.1, hn.2, h0, h1, info, hi, ht, hg⟩
    · rw [if_neg hg] at hx
      injection hx with h0 h1
      rw [hn.1, hn.2] at h
      rcases h with h | h
      · exact absurd h0 h
      · exact absurd h1 h

example : compileFeatures Map.genCfg [some cjk, none] [some selDflt, none] false [vertInfo] = [vertMap (some 0)] ∧
    langFeatureAt [some cjk, none] [some selDflt, none] 0 TAG_vert = none := by decide +kernel

/-- EXACTLY THE LISTED RECORDS. A record reached through the selected language system is one of the feature indices
    that language system lists, and it carries the tag of the feature map. -/
theorem C18_applied_record_listed (c : Map.Cfg) (tables : List (Option Table)) (sels : List (Option Selection))
    (isSimple : Bool) (infos : List Map.Info) (f : Map.FMap) (hf : f ∈ compileFeatures c tables sels isSimple infos)
    (hl : (langFeatureAt tables sels 0 f.tag).isSome ∨ (langFeatureAt tables sels 1 f.tag).isSome)
    (t : Nat) (i : Nat) (hi : (if t = 0 then f.index0 else f.index1) = some i) (ht : t ≤ 1) :
    ∃ tb s sys, tables[t]?.join = some tb ∧ sels[t]?.join = some s ∧
      langSysOf tb s.scriptIndex s.langIndex = some sys ∧ i ∈ sys.features ∧ tb.features[i]? = some f.tag := by
  obtain ⟨h0, h1⟩ := C18_listed_indices_applied c tables sels isSimple infos f hf hl
  have : t = 0 ∨ t = 1 := by omega
  rcases this with rfl | rfl
  · simp only [if_true] at hi
    exact langFeatureAt_some (h0 ▸ hi)
  · simp only [Nat.succ_ne_zero, if_false] at hi
    exact langFeatureAt_some (h1 ▸ hi)

/-- THE GLOBAL SEARCH TAKES THE FIRST RECORD. Whatever the order of the FeatureList, the record the global search
    returns carries the tag and no earlier record does (`hb_ot_layout_table_find_feature`); on a FeatureList sorted by
    tag — tags may repeat — it finds a record whenever one exists. -/
theorem C18_global_search_first_record (tables : List (Option Table)) (t : Nat) (ft : Tag) :
    (∀ i, anyFeatureAt tables t ft = some i →
      ∃ tb, tables[t]?.join = some tb ∧ tb.features[i]? = some ft ∧ ∀ j, j < i → tb.features[j]? ≠ some ft) ∧
    (∀ tb, tables[t]?.join = some tb → tb.features.Pairwise (· ≤ ·) → anyFeatureAt tables t ft = none →
      ft ∉ tb.features) :=
  ⟨fun _ h => anyFeatureAt_some h, fun _ htb hs h => anyFeatureAt_none htb hs h⟩

example : anyFeatureAt [some cjk, none] 0 TAG_vert = some 0 ∧ cjk.features.Pairwise (· ≤ ·) := by decide +kernel

/-- Of the features `ot_shape.rs` registers for a plan (`Map.planBuilder`, constants of the compiled crate), only `vert`
    carries `F_GLOBAL_SEARCH`, and only in the two vertical directions. -/
theorem C18_plan_global_search_vert_only (dir : Nat) (info : Map.Info)
    (hi : info ∈ Map.dedupInfos Map.genCfg (Map.planBuilder Map.genCfg dir []).isSimple (Map.planBuilder Map.genCfg dir []).infos)
    (hg : info.flags &&& Map.genCfg.fGlobalSearch ≠ 0) : info.tag = TAG_vert ∧ 2 ≤ dir := by
  have key : ∀ d, d ≤ 2 → ∀ info ∈ Map.dedupInfos Map.genCfg (Map.planBuilder Map.genCfg d []).isSimple (Map.planBuilder Map.genCfg d []).infos,
      info.flags &&& Map.genCfg.fGlobalSearch ≠ 0 → info.tag = TAG_vert ∧ 2 ≤ d := by
    decide +kernel
  by_cases h : dir ≤ 2
  · exact key dir h info hi hg
  · have hd : 2 ≤ dir := by omega
    rw [planBuilder_dir _ dir hd] at hi
    exact ⟨(key 2 (Nat.le_refl 2) info hi hg).1, hd⟩

example : ∃ info ∈ Map.dedupInfos Map.genCfg (Map.planBuilder Map.genCfg 2 []).isSimple (Map.planBuilder Map.genCfg 2 []).infos,
    info.flags &&& Map.genCfg.fGlobalSearch ≠ 0 := by decide +kernel

/-- THE PLAN, END TO END. For the plan compiled from a script, a language string and a direction (selection as above,
    features of `ot_shape.rs`): every feature map other than `vert`, every feature map of a horizontal plan, and `vert`
    itself as soon as a selected language system lists it, points exactly to the records the selected language systems
    list under its tag (GSUB and GPOS independently; `none` where the language system lists none). -/
theorem C18_plan_features_listed (tables : List (Option Table)) (script : Option Tag) (language : Option Bytes)
    (dir : Nat) (feats : List Map.FMap) (h : planFeatures tree tables script language dir = .ok feats) :
    ∃ sels, selectAll tree tables script language = .ok sels ∧
      ∀ f ∈ feats, (f.tag ≠ TAG_vert ∨ dir < 2 ∨
          (langFeatureAt tables sels 0 f.tag).isSome ∨ (langFeatureAt tables sels 1 f.tag).isSome) →
        f.index0 = langFeatureAt tables sels 0 f.tag ∧ f.index1 = langFeatureAt tables sels 1 f.tag := by
  unfold planFeatures at h
  cases hs : selectAll tree tables script language with
  | error e => rw [hs] at h; cases h
  | ok sels =>
    rw [hs] at h
    simp only [bind, Except.bind] at h
    injection h with h
    subst h
    refine ⟨sels, rfl, ?_⟩
    intro f hf hcase
    by_cases hne : f.index0 ≠ langFeatureAt tables sels 0 f.tag ∨ f.index1 ≠ langFeatureAt tables sels 1 f.tag
    · obtain ⟨h0, h1, _, _, info, hi, ht, hg⟩ :=
        C18_unlisted_only_by_global_search _ tables sels _ _ f hf hne
      obtain ⟨hv, hd⟩ := C18_plan_global_search_vert_only dir info hi hg
      rcases hcase with hc | hc | hc | hc
      · exact absurd (ht ▸ hv) hc
      · omega
      · rw [h0] at hc; cases hc
      · rw [h1] at hc; cases hc
    · constructor
      · by_cases h0 : f.index0 = langFeatureAt tables sels 0 f.tag
        · exact h0
        · exact absurd (Or.inl h0) hne
      · by_cases h1 : f.index1 = langFeatureAt tables sels 1 f.tag
        · exact h1
        · exact absurd (Or.inr h1) hne

/-- … and `vert` in a vertical plan, when no selected language system lists it, is the global search's record. -/
theorem C18_plan_vert_unlisted (tables : List (Option Table)) (script : Option Tag) (language : Option Bytes)
    (dir : Nat) (feats : List Map.FMap) (sels : List (Option Selection))
    (h : planFeatures tree tables script language dir = .ok feats)
    (hs : selectAll tree tables script language = .ok sels) (f : Map.FMap) (hf : f ∈ feats) (hv : f.tag = TAG_vert)
    (h0 : langFeatureAt tables sels 0 TAG_vert = none) (h1 : langFeatureAt tables sels 1 TAG_vert = none) :
    f.index0 = anyFeatureAt tables 0 TAG_vert ∧ f.index1 = anyFeatureAt tables 1 TAG_vert := by
  unfold planFeatures at h
  rw [hs] at h
  simp only [bind, Except.bind] at h
  injection h with h
  subst h
  obtain ⟨info, hi, ht, hx⟩ := compileFeatures_index _ tables sels _ _ f hf
  have hg := plan_vert_has_global_search dir info hi (ht.trans hv)
  unfold resolve at hx
  rw [ht, hv, h0, h1] at hx
  simp only [Option.isSome_none, Bool.or_self, Bool.false_eq_true, if_false] at hx
  rw [if_pos hg] at hx
  injection hx with a b
  exact ⟨a, b⟩

/-! ## totality (tag part of C01) -/

/-- Once `lang_cmp` and `strncmp` compare bytes (D10, D10b repaired) the entry point returns for every script and
    every language string that is valid UTF-8 (all a Rust `&str` can hold). The proof only uses the weaker `Wf`
    (no continuation byte first or directly after an ASCII byte), which `Utf8.wf` derives from validity. -/
theorem C01_tag_total_of_repairs (v : Variant) (h1 : v.cmpBytes = true) (h2 : v.strncmpBytes = true)
    (script : Option Tag) (lang : Option Bytes) (hw : ∀ s, lang = some s → validUtf8 s = true) :
    ∃ r, tagsApi (cfgOf v) script lang = .ok r := by
  unfold tagsApi
  cases lang with
  | none => exact ⟨_, rfl⟩
  | some s =>
    simp only [Option.bind_some]
    unfold languageFromStr
    by_cases he : s.isEmpty = true
    · rw [if_pos he]; exact ⟨_, rfl⟩
    · rw [if_neg he]
      have hne : s.map toLower ≠ [] := by cases s <;> simp_all
      exact tagsFromScriptAndLanguage_total (cfgOf v) C18_lang_sorted C18_rules_ascii script _ hne
        ⟨(Utf8.wf s (hw s rfl)).map_toLower, Or.inl ⟨h1, h2⟩⟩

example : Variant.repaired.cmpBytes = true ∧ Variant.repaired.strncmpBytes = true ∧
    validUtf8 [97, 45, 195, 169] /- a-é -/ = true ∧ validUtf8 [114, 97, 195, 169] /- raé -/ = true := by decide

/-- FULL STRENGTH (holds since the repairs of D10 and D10b): tag selection returns for every script and every valid
    UTF-8 language string. -/
theorem C01_tag_total (script : Option Tag) (lang : Option Bytes) (hw : ∀ s, lang = some s → validUtf8 s = true) :
    ∃ r, tagsApi tree script lang = .ok r :=
  C01_tag_total_of_repairs treeVariant (by decide) (by decide) script lang hw

/-- On the tree as it is: no panic for any script and any ASCII language string. -/
theorem C01_tag_total_partial (script : Option Tag) (lang : Option Bytes) (ha : ∀ s, lang = some s → Ascii s) :
    ∃ r, tagsApi tree script lang = .ok r := by
  unfold tagsApi
  cases lang with
  | none => exact ⟨_, rfl⟩
  | some s =>
    simp only [Option.bind_some]
    unfold languageFromStr
    by_cases he : s.isEmpty = true
    · rw [if_pos he]; exact ⟨_, rfl⟩
    · rw [if_neg he]
      have hne : s.map toLower ≠ [] := by cases s <;> simp_all
      have hasc := (ha s rfl).map_toLower
      exact tagsFromScriptAndLanguage_total tree C18_lang_sorted C18_rules_ascii script _ hne
        ⟨hasc.wf, Or.inr hasc⟩

example : Ascii (asc "zh-Hant-HK") := by intro x hx; simp [asc] at hx; omega

end RbModel.Tag

/-! ## ISO 15924 code → `Script` (`Script::from_iso15924_tag`, `Script::from_str`)

`TagScript.tree` is the function as compiled: its statements in source order and its constants are transcribed from
the Rust source on every check (`Gen/ScriptIso.lean`). -/

namespace RbModel.TagScript
open RbModel.Spec.ScriptAlias (tg variants)

/-- Every generated row is a statement the model knows (nothing is dropped when `tree` is built). -/
theorem C18_gen_script_iso_decoded : (Gen.ScriptIso.steps.map stepOfRow).all Option.isSome = true := by decide +kernel

/-- The compiled function rejects the null tag, THEN adjusts the case to one capital + three small letters, THEN
    maps the variant codes; a well-formed code is itself, anything else is `Zzzz`. -/
theorem C18_gen_script_iso_order :
    tree.pre = [.nullCheck, .adjust 0xDFDFDFDF 0x00202020, .alias (aliasRows tree)] ∧
    tree.mask = 0xE0E0E0E0 ∧ tree.value = 0x40606060 ∧ tree.unknown = tg 'Z' 'z' 'z' 'z' := by
  decide +kernel

/-- The variant codes the function maps are exactly those of ISO 15924, each to the script it is a variant of. -/
theorem C18_script_alias_table : aliasRows tree = variants := by decide +kernel

/-- Script codes are case-insensitive: every non-null tag gets the answer of its title-cased spelling — in
    particular every four-letter ASCII code, variant codes included. -/
theorem C18_script_tag_case_insensitive (t : Nat) (ht : t ≠ 0) :
    fromIso15924 tree t = fromIso15924 tree (titlecase t) :=
  fromIso_adjust_first tree _ _ _ C18_gen_script_iso_order.1 (by decide) t ht

/-- … hence two spellings that differ only in letter case select the same script. -/
theorem C18_script_tag_same_case_class (t u : Nat) (ht : t ≠ 0) (hu : u ≠ 0) (h : titlecase t = titlecase u) :
    fromIso15924 tree t = fromIso15924 tree u := by
  rw [C18_script_tag_case_insensitive t ht, C18_script_tag_case_insensitive u hu, h]

example : titlecase (tg 'j' 'A' 'M' 'o') = titlecase (tg 'J' 'a' 'm' 'o') ∧ tg 'j' 'A' 'M' 'o' ≠ 0 := by decide

/-- A variant code in ANY letter case selects the script it is a variant of (`jamo`, `HANS`, `aran`, … included). -/
theorem C18_script_alias_parent (a p t : Nat) (hap : (a, p) ∈ variants) (ht : t ≠ 0) (hta : titlecase t = a) :
    fromIso15924 tree t = some p := by
  rw [C18_script_tag_case_insensitive t ht, hta]
  have hall : ∀ r ∈ variants, fromIso15924 tree r.1 = some r.2 := by decide +kernel
  exact hall (a, p) hap

example : (tg 'J' 'a' 'm' 'o', tg 'H' 'a' 'n' 'g') ∈ variants ∧ titlecase (tg 'j' 'a' 'm' 'o') = tg 'J' 'a' 'm' 'o' := by
  decide

/-- The parent of every variant code is a script constant of the crate. -/
theorem C18_script_alias_parent_known : ∀ r ∈ variants, r.2 ∈ Gen.ScriptIso.scriptConstants := by decide +kernel

/-- Every script constant of the crate is selected by its own code in ANY letter case (no constant is shadowed by a
    variant code, every constant is well-formed). -/
theorem C18_script_constant_any_case (c t : Nat) (hc : c ∈ Gen.ScriptIso.scriptConstants) (ht : t ≠ 0)
    (htc : titlecase t = c) : fromIso15924 tree t = some c := by
  rw [C18_script_tag_case_insensitive t ht, htc]
  have hall : ∀ c ∈ Gen.ScriptIso.scriptConstants, fromIso15924 tree c = some c := by decide +kernel
  exact hall c hc

example : tg 'D' 'e' 'v' 'a' ∈ Gen.ScriptIso.scriptConstants ∧ titlecase (tg 'd' 'E' 'V' 'A') = tg 'D' 'e' 'v' 'a' := by
  decide +kernel

/-- `Script::from_str` rejects exactly the empty string; otherwise it is `from_iso15924_tag` of the first four bytes
    padded with spaces. -/
theorem C18_script_from_str (s : List Nat) :
    fromStr tree s = if s = [] then none else fromIso15924 tree (tagFromBytesLossy s) := by
  cases s with
  | nil => decide +kernel
  | cons a r => simp [fromStr]

end RbModel.TagScript
