/-
  C01 — shaping is total: no panic; output length bounded.   (buffer-primitive part; see tools/props/C01.py for
  the failing-input search that carries the rest of the statement)
-/
import RbModel.Lemmas.BufZipper
import RbModel.Lemmas.Lifecycle
import RbModel.Lemmas.LifecycleBound
import RbModel.Lemmas.NormMarks

namespace RbModel.Buf

/-- The source has the grow-only `ensure` and the backwards rewind copy (probed on every run, tools/gens/buf.py);
    both are needed for the primitives not to index past a truncated Vec. -/
theorem C01_gen_buffer_variants :
    Gen.Buf.ensureGrowOnly = true ∧ Gen.Buf.moveToRewindReversed = true := by decide

/- FULL STATEMENT (not proved):
     theorem C01_no_panic_prims (b : Buf) (p : Prim) (hinv : Inv b) (hpre : Prim.pre b p) : ∃ b', Prim.run b p = .ok b'
   for all 23 primitives of `Prim` (and for sort / reverse_groups / delete_glyphs_inplace, which `Prim` does not list).
   Missing: the index arithmetic of the cluster-merging loops (`merge_clusters`, `merge_out_clusters`, `delete_glyph`,
   `replace_glyphs`) and of `_set_glyph_flags` (`unsafe_to_break*`, `unsafe_to_concat*`, `safe_to_insert_tatweel`),
   `set_masks`, `reset_masks`, `reverse*`: each needs `start ≤ end ≤ len` style contracts and per-loop lemmas that
   are not written; these 13 are covered by the correspondence streams (panic kinds compared) and by the search only. -/

/-- **No list-zipper primitive panics.**  On every buffer that satisfies the representation invariant of an open
    output pass (`Inv`: `idx ≤ len ≤ info.len()`, both Vecs equally long, `out_len` within the out-buffer, and
    `out_len ≤ idx` while the out-buffer still aliases `info`), each of the ten primitives that move glyphs across the
    cursor (`Prim.zipper`: clear_output, next_glyph(s), skip_glyph, copy_glyph, replace_glyph, output_glyph,
    output_info, move_to, sync), called within its contract (`Prim.pre`: there is a current glyph / the target
    position exists), returns normally — whatever the sizes, the contents, the output mode and the length budget
    `max_len` are (a refused growth only marks the buffer unsuccessful).
    False before the repairs D6 (`ensure` truncating the out-buffer) and D19. -/
theorem C01_no_panic_prims_partial (b : Buf) (p : Prim) (hz : p.zipper = true) (hinv : Inv b) (hpre : Prim.pre b p) :
    ∃ b', Prim.run b p = .ok b' := by
  cases p with
  | clearOutput => exact ⟨_, rfl⟩
  | next =>
    obtain ⟨b', h, _⟩ := nextGlyph_spec b hinv hpre (by decide)
    exact ⟨b', h⟩
  | nexts n =>
    obtain ⟨b', h, _⟩ := nextGlyphs_spec b n hinv hpre (by decide)
    exact ⟨b', h⟩
  | skip => exact ⟨_, rfl⟩
  | copy =>
    obtain ⟨b', h, _⟩ := copyGlyph_spec b hinv hpre.1 (by decide)
    exact ⟨b', h⟩
  | replace g =>
    obtain ⟨b', h, _⟩ := replaceGlyph_spec b g hinv hpre.1 (by decide)
    exact ⟨b', h⟩
  | outputGlyph g =>
    obtain ⟨b', h, _⟩ := outputGlyph_spec b g hinv (by decide)
    exact ⟨b', h⟩
  | outputInfo x =>
    obtain ⟨b', h, _⟩ := outputInfo_spec b x hinv (by decide)
    exact ⟨b', h⟩
  | moveTo i =>
    have hi : i ≤ total b := by
      simp only [Prim.pre, hinv.have_out, if_true] at hpre
      exact hpre
    obtain ⟨b', r, h, _⟩ := moveTo_spec b i hinv hi (by decide) (by decide)
    exact ⟨b', by simp [Prim.run, h, bind, Except.bind, pure, Except.pure]⟩
  | sync =>
    obtain ⟨b', r, h, _⟩ := sync_spec b hinv (by decide)
    exact ⟨b', by simp [Prim.run, h, bind, Except.bind, pure, Except.pure]⟩
  | _ => simp [Prim.zipper] at hz

example : ∃ b : Buf, Inv b ∧ Prim.pre b (.moveTo 1) ∧ Prim.pre b (.replace 7) := by
  refine ⟨{ info := [⟨1,0,0,0,0⟩, ⟨2,0,1,0,0⟩], out := [{}, {}], idx := 1, len := 2, outLen := 1, haveOutput := true }, ?_, ?_, ?_⟩
  · exact ⟨by decide, by decide, by decide, by decide, by decide, by decide⟩
  · simp [Prim.pre]
  · exact ⟨by decide, by decide⟩

/-- `ensure` is the only place a buffer grows, and it refuses every size above `max_len`. -/
theorem C01_ensure_budget (b : Buf) (n : Nat) (h : (b.ensure n).2 = true) : n < b.len ∨ n ≤ b.maxLen :=
  (ensure_same b n).2.2 h

/-- **One primitive keeps the budget.**  Whenever one of the 23 primitives of `Prim` (the zipper primitives,
    replace_glyphs, delete_glyph, merge_(out_)clusters, the five glyph-flag setters, set/reset_masks, reverse(_range)),
    called within its contract, returns, the
    buffer is still inside its length budget (`len ≤ max_len`, `out_len ≤ max_len`, `idx ≤ len`) and the budget
    itself is untouched — for all buffer contents, output modes and Vec sizes. -/
theorem C01_prim_keeps_budget (b b' : Buf) (p : Prim) (hpre : Prim.pre b p) (h : Prim.run b p = .ok b')
    (hb : Bnd b) : Bnd b' ∧ b'.maxLen = b.maxLen :=
  prim_bnd hpre h hb

/- FULL STATEMENT (not proved): the same for every sequence of ALL primitives of buffer.rs.  `Prim` lacks `sort`,
   `reverse_groups` and `delete_glyphs_inplace` (none of them can grow a buffer: the first two permute, the third only
   shrinks `len`); their Lean definitions recurse over the buffer and their scalar-frame lemmas are not written.
   Every primitive that calls `ensure`/`make_room_for`/`shift_forward`, i.e. every growth path, is covered. -/

/-- **Output length bound.**  Take any buffer with `n` items as `shape_with_plan` receives it (`idx = out_len = 0`),
    let `enter()` fix the budget, and run ANY sequence of the 23 primitives of `Prim` (each within its contract, none
    panicking — `Steps`): at every point reached, `len ≤ max(64·n, 16384)` and `out_len ≤ max(64·n, 16384)`.
    (Proved per primitive from `ensure`'s refusal, lifted over the sequence by induction.) -/
theorem C01_len_bound_partial (b0 : Buf) (h0 : b0.idx = 0 ∧ b0.outLen = 0) (ps : List Prim) (b' : Buf)
    (h : Steps b0.enter ps b') :
    b'.len ≤ max (64 * b0.len) 16384 ∧ b'.outLen ≤ max (64 * b0.len) 16384 := by
  have hm : b0.enter.maxLen = max (64 * b0.len) 16384 := by
    unfold enter
    simp only [MAX_LEN_FACTOR, MAX_LEN_MIN]
    split <;> simp [Nat.mul_comm]
  have hl : b0.enter.len = b0.len := by unfold enter; dsimp only; split <;> rfl
  have hi : b0.enter.idx = b0.idx := by unfold enter; dsimp only; split <;> rfl
  have ho : b0.enter.outLen = b0.outLen := by unfold enter; dsimp only; split <;> rfl
  have hb : Bnd b0.enter := by
    refine ⟨?_, ?_, ?_⟩
    · rw [hm, hl]; omega
    · rw [ho, h0.2]; exact Nat.zero_le _
    · rw [hi, h0.1]; exact Nat.zero_le _
  obtain ⟨hb', hm'⟩ := steps_bnd h hb
  rw [hm] at hm'
  exact ⟨hm' ▸ hb'.len_le, hm' ▸ hb'.out_le⟩

/-- non-vacuity: a three-glyph buffer, an output pass that inserts a glyph and ends with `sync` -/
def exBuf : Buf := { info := [⟨1,0,0,0,0⟩, ⟨2,0,1,0,0⟩, ⟨3,0,2,0,0⟩], out := [{}, {}, {}], len := 3 }

example : ∃ b', Steps exBuf.enter [.clearOutput, .next, .outputGlyph 9, .nexts 2, .sync] b' ∧ b'.len = 4 := by
  refine ⟨_, .cons (b1 := exBuf.enter.clearOutput) trivial rfl
      (.cons (b1 := _) (by decide) rfl
        (.cons (b1 := _) (by decide) rfl
          (.cons (b1 := _) (by decide) rfl
            (.cons (b1 := _) (by decide) rfl (.nil _))))), ?_⟩
  decide

end RbModel.Buf


/-! ## `reorder_marks_arabic` and its fixed scratch array (normalizer, second round)

`ot_shaper_arabic.rs::reorder_marks_arabic` copies a run of modifier combining marks into
`[hb_glyph_info_t::default(); MAX_COMBINING_MARKS]`; the only thing that bounds the run is the guard
`if end - i <= MAX_COMBINING_MARKS` around the sort AND the callback in `_hb_ot_shape_normalize`
(`Norm.round2With`, tied to the crate by the stream `norm-run-shaper` of ./check C09). -/

namespace RbModel.Norm

/-- the tree's constants: the scratch array of `reorder_marks_arabic` holds `MAX_COMBINING_MARKS` records, the cap of
    the normalizer's guard does not exceed it, and the Arabic shaper record has the callback (regenerated on every run) -/
theorem C01_gen_reorder_scratch_suffices :
    genK.maxMarks ≤ genA.scratchLen ∧ Gen.NormMarks.arabicHasReorder = true := by decide

/-- **`reorder_marks_arabic` within its scratch array.**  Called on `info[start..end]` of any buffer with
    `end ≤ len` and `end - start ≤` the size of its scratch array (whatever the marks, classes, clusters and the list of
    modifier marks are), the callback returns — neither the debug assertion `j - i <= MAX_COMBINING_MARKS` nor the slice
    `temp[..j - i]` nor an index into `info` can fail — and the buffer keeps its length. -/
theorem C01_reorder_marks_arabic_bounded (K : Consts) (A : ArabicMarks) (buf : List Info) (start end_ : Nat)
    (hend : end_ ≤ buf.length) (hfit : end_ - start ≤ A.scratchLen) :
    ∃ b, reorderMarksArabic K A buf start end_ = .ok b ∧ b.length = buf.length :=
  reorderMarksArabic_ok K A buf start end_ hend hfit

/-- non-vacuity, and the callback does something: BEH, FATHA (mcc 30), HAMZA ABOVE (230, a modifier mark) — the hamza
    moves in front of the fatha and is renumbered to `CCC26` -/
example :
    (reorderMarksArabic genK genA
      [⟨0x628, 0, 0, 0, {}⟩, ⟨0x64E, 0, 1, 0, { cls := 1, hi := 30 }⟩, ⟨0x654, 0, 2, 0, { cls := 1, hi := 230 }⟩] 1 3).toOption
    = some [⟨0x628, 0, 0, 0, {}⟩, ⟨0x654, 0, 1, 0, { cls := 1, hi := 26 }⟩, ⟨0x64E, 0, 1, 0, { cls := 1, hi := 30 }⟩] := by
  decide

/-- the hypothesis `end - start ≤ scratch` is needed: on a run of 33 HAMZA ABOVE the callback panics -/
theorem known_C01_reorder_marks_arabic_beyond_scratch :
    (reorderMarksArabic genK genA (List.replicate 33 ⟨0x654, 0, 0, 0, { cls := 1, hi := 230 }⟩) 0 33).toOption
      = none := by
  decide

/-- **The second round consults the callback only on runs of at most `MAX_COMBINING_MARKS` records**: what a callback
    would do on a longer run (or past the end of the buffer) does not influence the round. -/
theorem C01_reorder_marks_called_within_cap (K : Consts) (f g : ReorderMarks)
    (hfg : ∀ buf s e, e - s ≤ K.maxMarks → e ≤ buf.length → f buf s e = g buf s e) (pre l : List Info) :
    round2With K (some f) pre l = round2With K (some g) pre l :=
  round2With_congr K f g hfg pre l

/-- **The second round under the Arabic shaper is total**: for every buffer, with the guard around the sort and the
    callback and a scratch array of at least `MAX_COMBINING_MARKS` records, the round returns. -/
theorem C01_round2_arabic_total (K : Consts) (A : ArabicMarks) (hKA : K.maxMarks ≤ A.scratchLen) (pre l : List Info) :
    ∃ b, round2With K (some (reorderMarksArabic K A)) pre l = .ok b :=
  round2With_arabic_ok K A hKA pre l

/-- … in particular with the tree's constants -/
theorem C01_round2_arabic_total_gen (pre l : List Info) :
    ∃ b, round2With genK (some (reorderMarksArabic genK genA)) pre l = .ok b :=
  round2With_arabic_ok genK genA C01_gen_reorder_scratch_suffices.1 pre l

end RbModel.Norm
