import RbModel.Cluster
namespace RbModel.Buf
theorem C02_placeholder : Dir.reverse (Dir.reverse 1) = 1 := by decide
end RbModel.Buf
