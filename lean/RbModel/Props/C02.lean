/-
  C02 — output clusters come from the input and are monotone in the text direction.

  The theorems are about the operational model of buffer.rs (`Buf.lean`, tied to the crate by the `cluster-prims`
  correspondence stream).  `lview b` is the logical glyph sequence of a buffer (`out[0..out_len) ++ info[idx..len)`, in
  in-place mode simply `info[0..len)`), `WF b` the representation invariant (`idx ≤ len ≤ |info|`, the out-buffer fits),
  `NonDecr` / `NonIncr` "cluster values never decrease / increase along the sequence", `ValuesSubset L' L` "every
  cluster value of L' occurs in L", `IsMinCluster μ L` "μ is the smallest cluster value of L", `Coarsens L L'` "glyphs
  that shared a cluster in L share one in L'" (Lemmas/Cluster.lean).  All statements quantify over all buffers
  satisfying `WF` (any contents, both output modes) and all ranges inside the buffer.
-/
import RbModel.Lemmas.Cluster

namespace RbModel.Buf

/-- The source has HarfBuzz's guard `idx < start` in the "extend start" loop of `merge_clusters`
    (recovered from the compiled crate by a probe call on every run, tools/gens/buf.py).  With the former
    guard `end < start` (never true, defect D4) `C02_merge_monotone` is false: in the descending buffer
    `[5,5,2]` the call `merge_clusters(1,3)` gave `[5,2,2]`, separating the two glyphs of cluster 5. -/
theorem C02_gen_extend_start_guard : Gen.Buf.extendStartGuard = 1 := by decide

/-- **merge_clusters keeps a monotone buffer monotone and never splits a cluster.**
    For every well-formed buffer, every range `[s,e)` of the unconsumed input and every cluster level:
    `merge_clusters(s,e)` does not panic, moves no glyph, and on the logical sequence (out-buffer part included —
    the merge continues across the in/out boundary): cluster values ⊆ those before; non-decreasing stays
    non-decreasing, non-increasing stays non-increasing; on a monotone sequence no two glyphs of one cluster are
    separated (coarsening); at the levels 0/1 the smallest cluster value is kept. -/
theorem C02_merge_monotone (b : Buf) (s e : Nat) (hwf : WF b) (hs : b.idx ≤ s) (he : e ≤ b.len) :
    ∃ b', b.mergeClusters s e = .ok b' ∧ WF b' ∧ (lview b').length = (lview b).length ∧
      ValuesSubset (lview b') (lview b) ∧
      (NonDecr (lview b) → NonDecr (lview b')) ∧ (NonIncr (lview b) → NonIncr (lview b')) ∧
      (NonDecr (lview b) ∨ NonIncr (lview b) → Coarsens (lview b) (lview b')) ∧
      (b.level ≠ 2 → ∀ μ, IsMinCluster μ (lview b) → IsMinCluster μ (lview b')) := by
  obtain ⟨b', h, hwf', _, _, _, _, _, _, hp, hmin, _, _⟩ := mergeClusters_props b s e hwf hs he C02_gen_extend_start_guard
  exact ⟨b', h, hwf', hp.len, hp.subset, hp.nonDecr, hp.nonIncr, hp.coarsens, hmin⟩

/-- the same for `merge_out_clusters(s,e)` on a range of the out-buffer (it continues into the unconsumed input) -/
theorem C02_merge_out_monotone (b : Buf) (s e : Nat) (hwf : WF b) (he : e ≤ b.outLen) :
    ∃ b', b.mergeOutClusters s e = .ok b' ∧ WF b' ∧ (lview b').length = (lview b).length ∧
      ValuesSubset (lview b') (lview b) ∧
      (NonDecr (lview b) → NonDecr (lview b')) ∧ (NonIncr (lview b) → NonIncr (lview b')) ∧
      (NonDecr (lview b) ∨ NonIncr (lview b) → Coarsens (lview b) (lview b')) ∧
      (b.level ≠ 2 → ∀ μ, IsMinCluster μ (lview b) → IsMinCluster μ (lview b')) := by
  obtain ⟨b', h, hwf', _, _, _, _, _, _, hp, hmin⟩ := mergeOutClusters_props b s e hwf he
  exact ⟨b', h, hwf', hp.len, hp.subset, hp.nonDecr, hp.nonIncr, hp.coarsens, hmin⟩

/-- **move, then merge.**  If the logical sequence of `b` is the logical sequence `L0` of a monotone buffer with the
    records of the range permuted among themselves (`RangePerm`), then `merge_clusters` over that range (levels 0/1)
    yields a monotone sequence again, with values ⊆ and the minimum kept.  (It is a coarsening of `L0` only if no
    cluster of `L0` straddles an end of the range — `[4,4,4,2,1 | 0,1]` merged over the last two is a
    counterexample, also in HarfBuzz; cluster integrity at such sites is C08's matter.) -/
theorem C02_merge_after_perm (b : Buf) (L0 : List Info) (s e : Nat) (hwf : WF b) (hs : b.idx ≤ s) (he : e ≤ b.len)
    (hl : b.level ≠ 2) (hse : 2 ≤ e - s)
    (hp : RangePerm L0 (lview b) (b.outLen + (s - b.idx)) (b.outLen + (e - b.idx))) :
    ∃ b', b.mergeClusters s e = .ok b' ∧
      (NonDecr L0 → NonDecr (lview b')) ∧ (NonIncr L0 → NonIncr (lview b')) ∧
      ValuesSubset (lview b') L0 ∧ (∀ μ, IsMinCluster μ L0 → IsMinCluster μ (lview b')) := by
  obtain ⟨b', h, _, _, _, _, _, _, _, hm, hmin, hup, hdown⟩ := mergeClusters_props b s e hwf hs he C02_gen_extend_start_guard
  refine ⟨b', h, fun h0 => hup hl hse (hp.sandwichUp h0), fun h0 => hdown hl hse (hp.sandwichDown h0), ?_, ?_⟩
  · exact hm.subset.trans (values_subset_of_rangePerm hp)
  · intro μ hμ
    exact hmin hl μ (isMin_of_rangePerm hp hμ)

/-- **merge, then move.**  Permuting records inside a range whose clusters are all equal changes neither the
    cluster sequence nor, therefore, monotonicity (the merge-then-move sites: `sort`, Arabic mark reordering,
    Thai NIKHAHIT, Hangul tone mark, morx rearrangement). -/
theorem C02_perm_in_merged (L0 L : List Info) (S E c : Nat) (hp : RangePerm L0 L S E)
    (hu : ∀ q v, S ≤ q → q < E → cl? L0 q = some v → v = c) :
    L.map (·.cluster) = L0.map (·.cluster) ∧ (NonDecr L0 → NonDecr L) ∧ (NonIncr L0 → NonIncr L) := by
  have h := hp.cl_eq_of_uniform hu
  refine ⟨?_, nonDecr_of_cl_eq h, nonIncr_of_cl_eq h⟩
  apply List.ext_getElem?
  intro q
  have := h q
  unfold cl? at this
  rw [List.getElem?_map, List.getElem?_map]; exact this

/-! ## non-vacuity -/

/-- a two-sided state in separate-output mode: out = [c5, c5], in = [c5, c2, c1] (descending) -/
def exDesc : Buf :=
  { info := [{}, ⟨3,0,5,0,0⟩, ⟨4,0,2,0,0⟩, ⟨5,0,1,0,0⟩], out := [⟨1,0,5,0,0⟩, ⟨2,0,5,0,0⟩, {}, {}],
    idx := 1, len := 4, outLen := 2, haveOutput := true, sepOut := true, level := 0 }

example : WF exDesc := ⟨by decide, by decide, by decide, by decide⟩
example : NonIncr (lview exDesc) := nonIncr_of_pairwise _ (by decide)
/-- merging the first two unconsumed glyphs (clusters 5, 2) reaches back into the out-buffer: all of cluster 5 becomes 2 -/
example : (match exDesc.mergeClusters 1 3 with
    | .ok b' => (lview b').map (·.cluster) == [2, 2, 2, 2, 1]
    | .error _ => false) = true := by decide
/-- the second and third unconsumed glyphs swapped: an in-range permutation on logical positions [3,5) -/
example : RangePerm (lview exDesc) (lview { exDesc with info := [{}, ⟨3,0,5,0,0⟩, ⟨5,0,1,0,0⟩, ⟨4,0,2,0,0⟩] }) 3 5 :=
  RangePerm.of_take_drop (by decide) (by decide) (by decide) (by decide)

end RbModel.Buf
