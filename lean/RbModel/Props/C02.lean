/-
  C02 — output clusters come from the input and are monotone in the text direction.

  The theorems are about the operational model of buffer.rs (`Buf.lean`, tied to the crate by the `cluster-prims`
  correspondence stream).  `lview b` is the logical glyph sequence of a buffer (`out[0..out_len) ++ info[idx..len)`, in
  in-place mode simply `info[0..len)`), `WF b` the representation invariant (`idx ≤ len ≤ |info|`, the out-buffer fits),
  `NonDecr` / `NonIncr` "cluster values never decrease / increase along the sequence", `ValuesSubset L' L` "every
  cluster value of L' occurs in L", `IsMinCluster μ L` "μ is the smallest cluster value of L", `Coarsens L L'` "glyphs
  that shared a cluster in L share one in L'" (Lemmas/Cluster.lean).  `Inv` is the invariant of the in/out
  (substitution) mode (`WF` + `have_output`), `InPlace` says that nothing is on the output side (`idx = 0`,
  `out_len = 0`: the mode of sort / reverse / form_clusters).  All statements quantify over all buffers satisfying
  the invariant (any contents, both output modes), all ranges inside the buffer and all three cluster levels unless
  a level is excluded explicitly.  A primitive may refuse at the length budget (`max_len`); it then marks the buffer
  unsuccessful and the statements say nothing more about that call.
-/
import RbModel.Lemmas.Cluster

namespace RbModel.Buf

/-- The source has HarfBuzz's guard `idx < start` in the "extend start" loop of `merge_clusters`
    (recovered from the compiled crate by a probe call on every run, tools/gens/buf.py).  With the former
    guard `end < start` (never true, defect D4) `C02_merge_monotone` is false: in the descending buffer
    `[5,5,2]` the call `merge_clusters(1,3)` gave `[5,2,2]`, separating the two glyphs of cluster 5. -/
theorem C02_gen_extend_start_guard : Gen.Buf.extendStartGuard = 1 := by decide

/-- **merge_clusters keeps a monotone buffer monotone and never splits a cluster.**
    For every well-formed buffer, every range `[s,e)` of the unconsumed input and every cluster level:
    `merge_clusters(s,e)` does not panic, moves no glyph, and on the logical sequence (out-buffer part included —
    the merge continues across the in/out boundary): cluster values ⊆ those before; non-decreasing stays
    non-decreasing, non-increasing stays non-increasing; on a monotone sequence no two glyphs of one cluster are
    separated (coarsening); at the levels 0/1 the smallest cluster value is kept. -/
theorem C02_merge_monotone (b : Buf) (s e : Nat) (hwf : WF b) (hs : b.idx ≤ s) (he : e ≤ b.len) :
    ∃ b', b.mergeClusters s e = .ok b' ∧ WF b' ∧ (lview b').length = (lview b).length ∧
      ValuesSubset (lview b') (lview b) ∧
      (NonDecr (lview b) → NonDecr (lview b')) ∧ (NonIncr (lview b) → NonIncr (lview b')) ∧
      (NonDecr (lview b) ∨ NonIncr (lview b) → Coarsens (lview b) (lview b')) ∧
      (b.level ≠ 2 → ∀ μ, IsMinCluster μ (lview b) → IsMinCluster μ (lview b')) := by
  obtain ⟨b', h, hwf', _, _, _, _, _, _, hp, hmin, _, _, _⟩ := mergeClusters_props b s e hwf hs he C02_gen_extend_start_guard
  exact ⟨b', h, hwf', hp.len, hp.subset, hp.nonDecr, hp.nonIncr, hp.coarsens, hmin⟩

/-- the same for `merge_out_clusters(s,e)` on a range of the out-buffer (it continues into the unconsumed input) -/
theorem C02_merge_out_monotone (b : Buf) (s e : Nat) (hwf : WF b) (he : e ≤ b.outLen) :
    ∃ b', b.mergeOutClusters s e = .ok b' ∧ WF b' ∧ (lview b').length = (lview b).length ∧
      ValuesSubset (lview b') (lview b) ∧
      (NonDecr (lview b) → NonDecr (lview b')) ∧ (NonIncr (lview b) → NonIncr (lview b')) ∧
      (NonDecr (lview b) ∨ NonIncr (lview b) → Coarsens (lview b) (lview b')) ∧
      (b.level ≠ 2 → ∀ μ, IsMinCluster μ (lview b) → IsMinCluster μ (lview b')) := by
  obtain ⟨b', h, hwf', _, _, _, _, _, _, hp, hmin⟩ := mergeOutClusters_props b s e hwf he
  exact ⟨b', h, hwf', hp.len, hp.subset, hp.nonDecr, hp.nonIncr, hp.coarsens, hmin⟩

/-- **move, then merge.**  If the logical sequence of `b` is the logical sequence `L0` of a monotone buffer with the
    records of the range permuted among themselves (`RangePerm`), then `merge_clusters` over that range (levels 0/1)
    yields a monotone sequence again, with values ⊆ and the minimum kept.  (It is a coarsening of `L0` only if no
    cluster of `L0` straddles an end of the range — `[4,4,4,2,1 | 0,1]` merged over the last two is a
    counterexample, also in HarfBuzz; cluster integrity at such sites is C08's matter.) -/
theorem C02_merge_after_perm (b : Buf) (L0 : List Info) (s e : Nat) (hwf : WF b) (hs : b.idx ≤ s) (he : e ≤ b.len)
    (hl : b.level ≠ 2) (hse : 2 ≤ e - s)
    (hp : RangePerm L0 (lview b) (b.outLen + (s - b.idx)) (b.outLen + (e - b.idx))) :
    ∃ b', b.mergeClusters s e = .ok b' ∧
      (NonDecr L0 → NonDecr (lview b')) ∧ (NonIncr L0 → NonIncr (lview b')) ∧
      ValuesSubset (lview b') L0 ∧ (∀ μ, IsMinCluster μ L0 → IsMinCluster μ (lview b')) := by
  obtain ⟨b', h, _, _, _, _, _, _, _, hm, hmin, hup, hdown, _⟩ := mergeClusters_props b s e hwf hs he C02_gen_extend_start_guard
  refine ⟨b', h, fun h0 => hup hl hse (hp.sandwichUp h0), fun h0 => hdown hl hse (hp.sandwichDown h0), ?_, ?_⟩
  · exact hm.subset.trans (values_subset_of_rangePerm hp)
  · intro μ hμ
    exact hmin hl μ (isMin_of_rangePerm hp hμ)

/-- **merge, then move.**  Permuting records inside a range whose clusters are all equal changes neither the
    cluster sequence nor, therefore, monotonicity (the merge-then-move sites: `sort`, Arabic mark reordering,
    Thai NIKHAHIT, Hangul tone mark, morx rearrangement). -/
theorem C02_perm_in_merged (L0 L : List Info) (S E c : Nat) (hp : RangePerm L0 L S E)
    (hu : ∀ q v, S ≤ q → q < E → cl? L0 q = some v → v = c) :
    L.map (·.cluster) = L0.map (·.cluster) ∧ (NonDecr L0 → NonDecr L) ∧ (NonIncr L0 → NonIncr L) := by
  have h := hp.cl_eq_of_uniform hu
  refine ⟨?_, nonDecr_of_cl_eq h, nonIncr_of_cl_eq h⟩
  apply List.ext_getElem?
  intro q
  have := h q
  unfold cl? at this
  rw [List.getElem?_map, List.getElem?_map]; exact this

/-- the two other source variants the buffer lemmas rest on (see C06) -/
theorem C02_gen_buffer_variants : Gen.Buf.ensureGrowOnly = true ∧ Gen.Buf.moveToRewindReversed = true := by decide

/-- **No primitive invents a cluster value.**  For every primitive `op` of the buffer (streaming primitives, merges,
    deletion, replacement, flag and mask routines, sort, reversals, form_clusters — `Op`, Lemmas/Cluster.lean) applied
    within its callers' precondition: every cluster value of the logical sequence afterwards was there before, or is
    the one value handed in from outside (`output_info` only; its callers pass the current glyph's cluster). -/
theorem C02_subset (op : Op) (b b' : Buf) (hpre : op.Pre b) (h : op.run b = .ok b') :
    b'.successful = false ∨ ∀ c ∈ clusters b', c ∈ clusters b ∨ c ∈ op.supplied :=
  Op.subset op b b' hpre h C02_gen_buffer_variants.1 C02_gen_buffer_variants.2 C02_gen_extend_start_guard

/-- …and therefore no sequence of primitives does (as long as none of them hits the length budget). -/
theorem C02_subset_runs (ops : List Op) (b b' : Buf) (h : Runs b ops b') :
    ∀ c ∈ clusters b', c ∈ clusters b ∨ ∃ op ∈ ops, c ∈ op.supplied :=
  h.subset C02_gen_buffer_variants.1 C02_gen_buffer_variants.2 C02_gen_extend_start_guard

/-- **The smallest cluster value survives merging, deletion and replacement (levels 0 and 1).**
    `delete_glyph` merges the dropped glyph's cluster into a neighbour, `replace_glyphs` gives every output glyph the
    merged cluster of its inputs (at least one output glyph), the merges take the minimum of their range. -/
theorem C02_min_kept (b : Buf) (hl : b.level ≠ 2) (μ : Nat) (hμ : IsMinCluster μ (lview b)) :
    (∀ s e, WF b → b.idx ≤ s → e ≤ b.len → ∃ b', b.mergeClusters s e = .ok b' ∧ IsMinCluster μ (lview b')) ∧
    (∀ s e, WF b → e ≤ b.outLen → ∃ b', b.mergeOutClusters s e = .ok b' ∧ IsMinCluster μ (lview b')) ∧
    (WF b → b.idx < b.len → ∃ b', b.deleteGlyph = .ok b' ∧ ((lview b').length ≠ 0 → IsMinCluster μ (lview b'))) ∧
    (∀ n gs, Inv b → 1 ≤ n → b.idx + n ≤ b.len → gs ≠ [] →
        ∃ b', b.replaceGlyphs n gs = .ok b' ∧ (b'.successful = false ∨ IsMinCluster μ (lview b'))) := by
  refine ⟨?_, ?_, ?_, ?_⟩
  · intro s e hwf hs he
    obtain ⟨b', h, _, _, _, _, _, _, _, _, hmin, _⟩ := mergeClusters_props b s e hwf hs he C02_gen_extend_start_guard
    exact ⟨b', h, hmin hl μ hμ⟩
  · intro s e hwf he
    obtain ⟨b', h, _, _, _, _, _, _, _, _, hmin⟩ := mergeOutClusters_props b s e hwf he
    exact ⟨b', h, hmin hl μ hμ⟩
  · intro hwf hcur
    obtain ⟨b', h, _, _, _, _, _, _, _, _, _, _, _, hmin⟩ := deleteGlyph_props b hwf hcur C02_gen_extend_start_guard
    exact ⟨b', h, fun hne => hmin hl hne μ hμ⟩
  · intro n gs hinv hn1 hn hgs
    obtain ⟨b', h, hc⟩ := replaceGlyphs_props b n gs hinv hn1 hn C02_gen_buffer_variants.1 C02_gen_extend_start_guard
    refine ⟨b', h, ?_⟩
    rcases hc with hf | ⟨_, _, _, _, _, _, _, _, _, _, hmin⟩
    · left; rw [hf]
    · exact Or.inr (hmin hl hgs μ hμ)

/-- **sort keeps a monotone buffer monotone** (levels 0/1): the insertion sort merges the clusters over every move, so
    the records it permutes carry one cluster.  Values ⊆ and minimum kept as well. -/
theorem C02_sort_monotone (b : Buf) (s e : Nat) (hin : InPlace b) (he : e ≤ b.len) (hp : b.havePos = false) (hl : b.level ≠ 2) :
    ∃ b', b.sort s e = .ok b' ∧ InPlace b' ∧ b'.len = b.len ∧
      (NonDecr (lview b) → NonDecr (lview b')) ∧ (NonIncr (lview b) → NonIncr (lview b')) ∧
      ValuesSubset (lview b') (lview b) ∧ (∀ μ, IsMinCluster μ (lview b) → IsMinCluster μ (lview b')) := by
  obtain ⟨b', h, hin', l', hs, hk⟩ := sort_props b s e hin he hp C02_gen_extend_start_guard
  exact ⟨b', h, hin', l', (hk hl).nonDecr, (hk hl).nonIncr, hs, (hk hl).min⟩

/-- **delete_glyph keeps a monotone buffer monotone** (all levels) and removes exactly one glyph. -/
theorem C02_delete_monotone (b : Buf) (hwf : WF b) (hcur : b.idx < b.len) :
    ∃ b', b.deleteGlyph = .ok b' ∧ WF b' ∧ (lview b').length + 1 = (lview b).length ∧
      (NonDecr (lview b) → NonDecr (lview b')) ∧ (NonIncr (lview b) → NonIncr (lview b')) ∧
      ValuesSubset (lview b') (lview b) := by
  obtain ⟨b', h, hwf', _, _, _, _, _, _, hlen, hs, hu, hd, _⟩ := deleteGlyph_props b hwf hcur C02_gen_extend_start_guard
  exact ⟨b', h, hwf', hlen, hu, hd, hs⟩

/-- **replace_glyphs keeps a monotone buffer monotone** (all levels; any number of output glyphs, deletion included). -/
theorem C02_replace_monotone (b : Buf) (n : Nat) (gs : List Nat) (hinv : Inv b) (hn1 : 1 ≤ n) (hn : b.idx + n ≤ b.len) :
    ∃ b', b.replaceGlyphs n gs = .ok b' ∧
      (b' = { b with successful := false } ∨
       (WF b' ∧ b'.outLen = b.outLen + gs.length ∧
        (NonDecr (lview b) → NonDecr (lview b')) ∧ (NonIncr (lview b) → NonIncr (lview b')) ∧
        ValuesSubset (lview b') (lview b))) := by
  obtain ⟨b', h, hc⟩ := replaceGlyphs_props b n gs hinv hn1 hn C02_gen_buffer_variants.1 C02_gen_extend_start_guard
  refine ⟨b', h, ?_⟩
  rcases hc with hf | ⟨hwf', _, ho, _, _, _, _, hs, hu, hd, _⟩
  · exact Or.inl hf
  · exact Or.inr ⟨hwf', ho, hu, hd, hs⟩

/-- **Reversals.**  (1) `reverse` (and the last step of `position()` for a backward run) maps a non-decreasing cluster
    sequence to a non-increasing one and back, keeping the values.  (2) `reverse_graphemes` — `reverse_groups` with the
    grapheme group function — does the same: at level 1 because it merges every group before reversing it (whatever
    the groups are), at the other levels when every grapheme carries one cluster value (`GraphemesClosed`, what
    form_clusters establishes at level 0).  (3) `ensure_native_direction` either leaves the buffer alone or is
    `reverse_graphemes` with the direction flipped.
    (Not proved: that at levels 0/2 each grapheme keeps its internal record order — only the cluster sequence is
    characterised: it comes out exactly reversed.) -/
theorem C02_reverse (b : Buf) (hin : InPlace b) :
    (∃ b', b.reverse = .ok b' ∧ InPlace b' ∧ lview b' = (lview b).reverse ∧ FlipProps (lview b) (lview b')) ∧
    (∀ dir, ∃ b', b.finalReverse dir = .ok b' ∧
        ((Dir.isBackward dir = true ∧ FlipProps (lview b) (lview b')) ∨ (Dir.isBackward dir = false ∧ b' = b))) ∧
    ((b.level ≠ 1 → GraphemesClosed b.info b.len) →
        ∃ b', b.reverseGraphemes = .ok b' ∧ InPlace b' ∧ b'.len = b.len ∧ FlipProps (lview b) (lview b')) ∧
    (∀ dir hor0 b' d', b.ensureNativeDirection dir hor0 = .ok (b', d') →
        (b' = b ∧ d' = dir) ∨ (b.reverseGraphemes = .ok b' ∧ d' = Dir.reverse dir)) := by
  refine ⟨?_, ?_, ?_, ?_⟩
  · obtain ⟨b', h, hin', _, _, hrev⟩ := reverse_spec b hin
    exact ⟨b', h, hin', hrev, FlipProps.of_reverse hrev⟩
  · intro dir
    obtain ⟨b', h, _, _, hc⟩ := finalReverse_props b dir hin
    refine ⟨b', h, ?_⟩
    rcases hc with ⟨h1, h2⟩ | h2
    · exact Or.inl ⟨h1, FlipProps.of_reverse h2⟩
    · exact Or.inr h2
  · intro hc
    exact reverseGraphemes_props b hin hc C02_gen_extend_start_guard
  · intro dir hor0 b' d' h
    exact ensureNativeDirection_cases b dir hor0 b' d' h

/-- **form_clusters** (all levels): values ⊆, minimum kept, monotone stays monotone. -/
theorem C02_form_clusters (b : Buf) (hin : InPlace b) :
    ∃ b', b.formClusters = .ok b' ∧ InPlace b' ∧ b'.len = b.len ∧ KeepProps (lview b) (lview b') := by
  obtain ⟨b', h, hin', l', _, hk⟩ := formClusters_props b hin C02_gen_extend_start_guard
  exact ⟨b', h, hin', l', hk⟩

/-! ## non-vacuity -/

/-- a two-sided state in separate-output mode: out = [c5, c5], in = [c5, c2, c1] (descending) -/
def exDesc : Buf :=
  { info := [{}, ⟨3,0,5,0,0⟩, ⟨4,0,2,0,0⟩, ⟨5,0,1,0,0⟩], out := [⟨1,0,5,0,0⟩, ⟨2,0,5,0,0⟩, {}, {}],
    idx := 1, len := 4, outLen := 2, haveOutput := true, sepOut := true, level := 0 }

example : WF exDesc := ⟨by decide, by decide, by decide, by decide⟩
example : NonIncr (lview exDesc) := nonIncr_of_pairwise _ (by decide)
/-- merging the first two unconsumed glyphs (clusters 5, 2) reaches back into the out-buffer: all of cluster 5 becomes 2 -/
example : (match exDesc.mergeClusters 1 3 with
    | .ok b' => (lview b').map (·.cluster) == [2, 2, 2, 2, 1]
    | .error _ => false) = true := by decide
/-- the second and third unconsumed glyphs swapped: an in-range permutation on logical positions [3,5) -/
example : RangePerm (lview exDesc) (lview { exDesc with info := [{}, ⟨3,0,5,0,0⟩, ⟨5,0,1,0,0⟩, ⟨4,0,2,0,0⟩] }) 3 5 :=
  RangePerm.of_take_drop (by decide) (by decide) (by decide) (by decide)

/-- an in-place buffer with two graphemes (base + continuation mark), each carrying one cluster -/
def exGraphemes : Buf :=
  { info := [⟨1,0,0,0,7⟩, ⟨2,0,0,0,0x8C⟩, ⟨3,0,2,0,7⟩, ⟨4,0,2,0,0x8C⟩], out := [{}, {}, {}, {}], len := 4, level := 0 }

example : InPlace exGraphemes := ⟨rfl, rfl, by decide⟩
example : GraphemesClosed exGraphemes.info exGraphemes.len := by
  intro q x y h0 hq hx hy hc
  have : q = 1 ∨ q = 2 ∨ q = 3 := by have : q < 4 := hq; omega
  rcases this with h | h | h <;> subst h <;> simp [exGraphemes] at hx hy <;> subst hx <;> subst hy <;> first | rfl | (simp [isContinuation, UPROPS_CONTINUATION] at hc)
example : (match exGraphemes.reverseGraphemes with
    | .ok b' => (lview b').map (fun x => (x.gid, x.cluster)) == [(3, 2), (4, 2), (1, 0), (2, 0)]
    | .error _ => false) = true := by decide
example : Op.Pre (.merge 1 3) exDesc := ⟨⟨by decide, by decide, by decide, by decide⟩, by decide, by decide⟩
example : Runs exDesc [.skip, .skip] exDesc.skipGlyph.skipGlyph :=
  Runs.cons ⟨⟨by decide, by decide, by decide, by decide⟩, by decide⟩ rfl rfl
    (Runs.cons ⟨⟨by decide, by decide, by decide, by decide⟩, by decide⟩ rfl rfl (Runs.nil _))

end RbModel.Buf
