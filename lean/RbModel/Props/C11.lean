/-
  C11 — joining scripts follow the Unicode cursive-joining rules.
  Property theorems only (helper lemmas: Lemmas/Arabic.lean; spec: Spec/Joining.lean, written from
  Unicode ch. 9.2 R1–R7 and the OpenType Syriac forms; model: Arabic.lean; data: Gen/Arabic.lean,
  regenerated from the compiled crate on every run).

  All list-quantified theorems hold for lists of every length.  The finite facts about the generated
  `STATE_TABLE` are closed by `decide`, so a changed table entry breaks `C11_table_local`
  (and with it everything below it).
-/
import RbModel.Lemmas.Arabic
import RbModel.Gen.ArabicScripts
import RbModel.Gen.ArabicDispatch

namespace RbModel.Arabic
open RbModel.Spec.Joining
open RbModel.Gen.Arabic (stateTable features contextLength)

/-! ## generated constants agree with the model and the spec -/

/-- `arabic_action_t::{ISOL,…,NONE}`, the discriminants of `hb_arabic_joining_type_t`,
    `ARABIC_FEATURES[action]` = the OpenType feature of the spec's form with that action number, and
    the number of context characters the buffer keeps on each side (the property speaks of 5). -/
theorem C11_consts :
    RbModel.Gen.Arabic.actionValues = [ISOL, FINA, FIN2, FIN3, MEDI, MED2, INIT, NONE]
    ∧ RbModel.Gen.Arabic.jtypeValues = JoiningType.all.map JoiningType.toNat
    ∧ (∀ f ∈ [Form.isol, .fina, .fin2, .fin3, .medi, .med2, .init], features[toAction f]? = f.tag)
    ∧ features.length = NONE
    ∧ contextLength = 5 := by decide

/-- the general categories that turn a character without table entry into a transparent one -/
theorem C11_transparent_gcs : ∀ gc ∈ List.range 30,
    isTransparentGc gc = RbModel.Gen.Arabic.transparentGcs.contains gc := by decide

/-- the Mongolian free variation selectors of the crate are U+180B..U+180D and U+180F -/
theorem C11_fvs_set (g : Nat) : isMongolianFvs g = RbModel.Gen.Arabic.fvs.contains g := by
  have : RbModel.Gen.Arabic.fvs = [0x180B, 0x180C, 0x180D, 0x180F] := by decide
  rw [this]
  unfold isMongolianFvs
  rw [Bool.eq_iff_iff]
  simp
  omega

/-- `get_joining_type` never returns `X`, whatever the table entry and general category. -/
theorem C11_joining_type_resolved (raw : JoiningType) (gc : Nat) : getJoiningType raw gc ≠ .X := by
  unfold getJoiningType
  split
  · assumption
  · split <;> simp

/-- a character is transparent iff the table says so, or it has no entry and is Mn / Me / Cf -/
theorem C11_joining_type_transparent (raw : JoiningType) (gc : Nat) :
    getJoiningType raw gc = .T ↔ raw = .T ∨ (raw = .X ∧ isTransparentGc gc = true) := by
  unfold getJoiningType
  cases raw <;> simp

/-- the generated per-character table: runs are ordered, disjoint and carry a real joining type -/
def rangesOk : List (Nat × Nat × Nat) → Nat → Bool
  | [], _ => true
  | (s, e, r) :: rest, lo => decide (lo ≤ s) && decide (s ≤ e) && decide (e ≤ 0x10FFFF)
      && (JoiningType.ofNat? r).isSome && r != JoiningType.X.toNat && rangesOk rest (e + 1)

set_option maxRecDepth 100000 in
theorem C11_ranges_wellformed : rangesOk RbModel.Gen.Arabic.joiningRanges 0 = true := by decide +kernel

set_option maxRecDepth 100000 in
/-- the two Syriac groups of the table: Alaph = {U+0710}; Dalath/Rish = {U+0715, U+0716, U+072A, U+072F}
    (Joining_Group ALAPH / DALATH RISH of ArabicShaping.txt) -/
theorem C11_syriac_groups :
    RbModel.Gen.Arabic.joiningRanges.filter (fun r => r.2.2 == JoiningType.GroupAlaph.toNat)
      = [(0x710, 0x710, 4)]
    ∧ RbModel.Gen.Arabic.joiningRanges.filter (fun r => r.2.2 == JoiningType.GroupDalathRish.toNat)
      = [(0x715, 0x716, 5), (0x72A, 0x72A, 5), (0x72F, 0x72F, 5)] := by decide +kernel

/-! ## the dispatch in front of the table (`joining_type()`), read from the source -/

/-- The range tests of `joining_type()` tile `JOINING_TABLE`: going through the arms in source order with the table
    position `off` reached so far and the end `prevEnd` of the previous range — every arm starts at or after the previous
    one's end and is not empty, subtracts its own lower bound, adds exactly the position reached (so arm k's length is
    offset(k+1) − offset(k)), lies inside the `u >> shift` page it is tested in; after the last arm the position is the
    table's length. -/
def dispatchTiles (shift : Nat) : List (Nat × Nat × Nat × Nat × Nat) → Nat → Nat → Nat → Bool
  | [], off, _, len => off == len
  | (page, lo, hi, base, o) :: rest, off, prevEnd, len =>
      decide (prevEnd ≤ lo) && decide (lo < hi) && base == lo && o == off
        && (lo >>> shift) == page && ((hi - 1) >>> shift) == page && decide (hi ≤ 0x110000)
        && dispatchTiles shift rest (off + (hi - lo)) hi len

/-- maximal runs (start, end, entry) of equal non-`X` entries of a table slice whose first entry belongs to code point `u` -/
def sliceRuns : List Nat → Nat → Option (Nat × Nat × Nat) → List (Nat × Nat × Nat)
  | [], _, cur => cur.toList
  | r :: rest, u, some (s, e, r') =>
      if r = r' then sliceRuns rest (u + 1) (some (s, u, r))
      else if r = JoiningType.X.toNat then (s, e, r') :: sliceRuns rest (u + 1) none
      else (s, e, r') :: sliceRuns rest (u + 1) (some (u, u, r))
  | r :: rest, u, none =>
      if r = JoiningType.X.toNat then sliceRuns rest (u + 1) none else sliceRuns rest (u + 1) (some (u, u, r))

set_option maxRecDepth 100000 in
/-- **Every table entry is reachable and no arm is cut short**: the arms of `joining_type()` (parsed from the source on
    every run, `..` and `..=` told apart) are ascending, disjoint, each inside its page, arm k covers exactly the table
    slice between its offset constant and the next one, and the last arm ends at the table's end; every offset constant
    is the one its name (the arm's first code point) says. -/
theorem C11_dispatch_tiles_table :
    dispatchTiles RbModel.Gen.ArabicDispatch.shift RbModel.Gen.ArabicDispatch.arms 0 0
      RbModel.Gen.ArabicDispatch.table.length = true
    ∧ RbModel.Gen.ArabicDispatch.arms.map (fun a => (a.2.1, a.2.2.2.2)) = RbModel.Gen.ArabicDispatch.offsets := by
  decide +kernel

set_option maxRecDepth 100000 in
/-- The per-character table the MODEL uses (`Gen.Arabic.joiningRanges`, dumped through the compiled `joining_type()`)
    is the parsed `JOINING_TABLE` laid out by the parsed arms (arm = code points [lo, hi), table slice from its offset):
    the maximal runs of equal non-`X` entries of the slices, arm after arm, ARE the dumped runs.  Together with `C11_dispatch_tiles_table`: the model reads every entry of the table at the
    code point the table's own layout gives it. -/
theorem C11_dispatch_is_dumped_table :
    (RbModel.Gen.ArabicDispatch.arms.map (fun a =>
        sliceRuns ((RbModel.Gen.ArabicDispatch.table.drop a.2.2.2.2).take (a.2.2.1 - a.2.1)) a.2.1 none)).flatten
      = RbModel.Gen.Arabic.joiningRanges := by
  decide +kernel

/-! ## the state table -/

/-- 7 states × 6 columns; every next state is a row; every action indexes the 8-slot mask array. -/
theorem C11_table_shape :
    stateTable.length = 7 ∧
    ∀ row ∈ stateTable, row.length = 6 ∧ ∀ e ∈ row, e.1 ≤ NONE ∧ e.2.1 ≤ NONE ∧ e.2.2 < 7 := by decide

/-- The finite core of C11: in every state `s` that can follow a previous letter of type `p`, for
    every letter `t` and every following letter `n` (`none` = text boundary), the action the table
    writes for `t` — after `n`'s back-patch — is the form the spec prescribes from `(p, t, n)` alone,
    and the next state is one that can follow `t`.  Checked on the *generated* table. -/
theorem C11_table_local : ∀ p ∈ optAll, ∀ s ∈ List.range 7, ∀ t ∈ JT.all, ∀ n ∈ optAll,
    localCheck p s t n = true := table_local

/-! ## the joining pass -/

/-- `arabic_joining` cannot hit an index panic and writes exactly one action per buffer item. -/
theorem C11_no_panic (pre ws post : List JoiningType)
    (h1 : Resolved pre) (h2 : Resolved ws) (h3 : Resolved post) :
    ∃ acts, arabicJoining stateTable pre ws post = .ok acts ∧ acts.length = ws.length :=
  ⟨_, arabicJoining_eq_go pre ws post h1 h2 h3, go_length _ _ _⟩

example : Resolved [.D, .T, .GroupAlaph] := by decide
/-- non-vacuity: beh | reh, fatha, alaph | — : the reh joins the context beh, the alaph after reh is fin2 -/
example : arabicJoining stateTable [.D] [.R, .T, .GroupAlaph] [] = .ok [FINA, NONE, FIN2] := rfl

/-- **Automaton = spec.**  For all texts and all contexts of any length (as stored: the pre-context
    array is the reversed text), the actions computed by the joining pass are the forms of the
    Unicode/OpenType rule, letter by letter.  Join-causing characters are tabled as dual-joining. -/
theorem C11_automaton_eq_spec (pre ws post : List JT) :
    arabicJoining stateTable (pre.reverse.map toCode) (ws.map toCode) (post.map toCode)
      = .ok ((forms pre ws post).map toAction) :=
  arabicJoining_eq_forms pre ws post

/-- the same for every input of the model (joining types as the crate resolves them) -/
theorem C11_automaton_eq_spec_code (pre ws post : List JoiningType)
    (h1 : Resolved pre) (h2 : Resolved ws) (h3 : Resolved post) :
    arabicJoining stateTable pre.reverse ws post
      = .ok ((forms (pre.map ofCode) (ws.map ofCode) (post.map ofCode)).map toAction) := by
  have h := arabicJoining_eq_forms (pre.map ofCode) (ws.map ofCode) (post.map ofCode)
  rw [← List.map_reverse, List.map_reverse, map_toCode_ofCode h2, map_toCode_ofCode h3] at h
  rw [← h, ← List.map_reverse, map_toCode_ofCode (l := pre.reverse)]
  intro t ht; exact h1 t (List.mem_reverse.mp ht)

example : Resolved [JoiningType.L, .T] ∧ Resolved [JoiningType.GroupDalathRish, .GroupAlaph, .U] := by decide
example : forms [JT.L, .T] [JT.DalathRish, .Alaph, .U] [] = [Form.fina, .fin3, .none] := by decide

/-- Through the API (`set_pre_context` / `set_post_context` keep `contextLength` = 5 characters):
    the result is the spec on the text with the kept parts of the contexts. -/
theorem C11_api_eq_spec (pre ws post : List JT) :
    joinWithContext stateTable contextLength (pre.map toCode) (ws.map toCode) (post.map toCode)
      = .ok ((forms (lastN contextLength pre) ws (post.take contextLength)).map toAction) := by
  unfold joinWithContext
  rw [setPreContext_map, setPostContext_map]
  have h := arabicJoining_eq_forms (lastN contextLength pre) ws (post.take contextLength)
  exact h

/-- **Context as text.**  Pre- and post-context characters act exactly as if they were part of the
    text: the actions of `ws` between contexts `pre` and `post` are the middle slice of the actions
    of the text `pre ++ ws ++ post` shaped without context. -/
theorem C11_context_as_text (pre ws post : List JoiningType)
    (h1 : Resolved pre) (h2 : Resolved ws) (h3 : Resolved post) :
    arabicJoining stateTable pre.reverse ws post
      = (arabicJoining stateTable [] (pre ++ ws ++ post) []).map
          (fun all => (all.drop pre.length).take ws.length) := by
  have hall : Resolved (pre ++ ws ++ post) := by
    intro t ht
    rcases List.mem_append.mp ht with h | h
    · rcases List.mem_append.mp h with h | h
      · exact h1 t h
      · exact h2 t h
    · exact h3 t h
  rw [C11_automaton_eq_spec_code pre ws post h1 h2 h3]
  have h := C11_automaton_eq_spec_code [] (pre ++ ws ++ post) [] (by intro t ht; cases ht) hall
    (by intro t ht; cases ht)
  simp only [List.reverse_nil, List.map_nil] at h
  rw [h]
  simp only [Except.map, forms_nil]
  rw [forms_slice]
  simp [List.map_take, List.map_drop]

example : Resolved [JoiningType.D] ∧ Resolved [JoiningType.R, .T] ∧ Resolved [JoiningType.GroupAlaph] := by
  decide

/-- the API form of the same statement, for contexts that fit into the `contextLength` = 5 slots -/
theorem C11_api_context_as_text (pre ws post : List JoiningType)
    (h1 : Resolved pre) (h2 : Resolved ws) (h3 : Resolved post)
    (hp : pre.length ≤ contextLength) (hq : post.length ≤ contextLength) :
    joinWithContext stateTable contextLength pre ws post
      = (joinWithContext stateTable contextLength [] (pre ++ ws ++ post) []).map
          (fun all => (all.drop pre.length).take ws.length) := by
  unfold joinWithContext setPreContext setPostContext
  rw [List.take_of_length_le (by simpa using hp), List.take_of_length_le hq]
  exact C11_context_as_text pre ws post h1 h2 h3

example : ([JoiningType.D, .T] : List JoiningType).length ≤ contextLength := by decide

/-- Full statement that does NOT hold (contexts of any length act as text):
      ∀ pre ws post, joinWithContext stateTable contextLength pre ws post
          = (joinWithContext stateTable contextLength [] (pre ++ ws ++ post) []).map slice
    Only five context characters are kept (HarfBuzz's CONTEXT_LENGTH); five transparent characters
    between a context letter and the text hide the letter.  Proved counter-example: -/
theorem known_C11_context_truncated :
    joinWithContext stateTable contextLength [.D, .T, .T, .T, .T, .T] [.R] [] = .ok [ISOL]
    ∧ joinWithContext stateTable contextLength [] ([.D, .T, .T, .T, .T, .T] ++ [.R] ++ []) []
        = .ok [INIT, NONE, NONE, NONE, NONE, NONE, FINA] := ⟨rfl, rfl⟩

/-! ## the raw context arrays: only `context_len` slots are read, the last context call wins -/

/-- **What lies behind `context_len` is ignored.**  `set_pre_context` / `set_post_context` reset only the length and
    overwrite the leading slots, `UnicodeBuffer::add` only zeroes the post-context length: the arrays keep what earlier
    calls stored.  The joining pass (on ANY state table) gives the same actions for two buffers whose context arrays agree
    on the first `context_len` slots, whatever the other slots hold. -/
theorem C11_context_beyond_len_ignored (tbl : StateTable) (a a' b b' ws : List JoiningType) (n m : Nat)
    (ha : a.take n = a'.take n) (hb : b.take m = b'.take m) :
    arabicJoiningRaw tbl a n ws b m = arabicJoiningRaw tbl a' n ws b' m := by
  unfold arabicJoiningRaw
  rw [ha, hb]

/-- non-vacuity: a stale dual-joining letter behind an empty / all-transparent pre-context does not join the text -/
example : ([JoiningType.T, .D, .U].take 1 = [JoiningType.T, .U, .U].take 1)
    ∧ arabicJoiningRaw stateTable [.T, .D, .U, .U, .U] 1 [.R] [.D, .U, .U, .U, .U] 0 = .ok [ISOL]
    ∧ arabicJoiningRaw stateTable [.D, .D, .U, .U, .U] 0 [.R] [] 0 = .ok [ISOL] := ⟨rfl, rfl, rfl⟩

/-- a context call leaves the array length alone and shows exactly its own characters in the first `len` slots -/
theorem C11_store_context_visible {α : Type} (slots new : List α) (h : new.length ≤ slots.length) :
    (storeContext slots new).1.take (storeContext slots new).2 = new
    ∧ (storeContext slots new).1.length = slots.length := storeContext_visible slots new h

example : storeContext [1, 2, 3, 4, 5] [9] = ([9, 2, 3, 4, 5], 1) := rfl

/-- **The last context call wins, whatever the history.**  On a buffer that has seen ANY sequence of
    `set_pre_context` / `set_post_context` / `add` calls (no `clear()`), `set_pre_context p` and `set_post_context q`
    make the joining pass behave exactly as on a fresh buffer with only these two calls (`joinWithContext`, which
    `C11_api_eq_spec` ties to the Unicode rules): nothing of an earlier, longer context shows. -/
theorem C11_context_last_call_wins (tbl : StateTable) (n : Nat) (nul : JoiningType)
    (cs : List (CtxCall JoiningType)) (p q ws : List JoiningType) :
    let st := (((CtxState.fresh n nul).calls cs).call (.pre p)).call (.post q)
    arabicJoiningRaw tbl st.pre st.preLen ws st.post st.postLen = joinWithContext tbl n p ws q := by
  intro st
  have h0 := ctxCalls_lengths cs (CtxState.fresh n nul)
  have hf : (CtxState.fresh n nul).pre.length = n ∧ (CtxState.fresh n nul).post.length = n := by
    simp [CtxState.fresh]
  generalize hs1 : (CtxState.fresh n nul).calls cs = s1 at h0
  have hp : s1.pre.length = n := by omega
  have hq : s1.post.length = n := by omega
  have v1 := C11_store_context_visible s1.pre (p.reverse.take s1.pre.length) (by simp; omega)
  have v2 := C11_store_context_visible s1.post (q.take s1.post.length) (by simp; omega)
  have e : st = ((s1.call (.pre p)).call (.post q)) := by simp [st, hs1]
  unfold arabicJoiningRaw joinWithContext setPreContext setPostContext
  rw [e]
  simp only [CtxState.call]
  rw [v1.1, v2.1, hp, hq]

/-- non-vacuity: a long joining pre-context, replaced by an empty one: the text's first letter stays initial -/
example :
    let st := (((CtxState.fresh 5 JoiningType.U).calls [.pre [.D, .D, .D], .post [.D], .add [.D]]).call (.pre [])).call (.post [])
    st.pre = [.D, .D, .D, .U, .U] ∧ st.preLen = 0
    ∧ arabicJoiningRaw stateTable st.pre st.preLen [.D, .D] st.post st.postLen = .ok [INIT, FINA] := by
  intro st
  exact ⟨rfl, rfl, rfl⟩

/-! ## transparent characters (R1) -/

/-- Inserting a transparent character anywhere into the text gives it no form and changes no other
    character's form (hence neither does deleting one). -/
theorem C11_transparent (pre a b post : List JoiningType)
    (h1 : Resolved pre) (h2 : Resolved (a ++ b)) (h3 : Resolved post) :
    arabicJoining stateTable pre (a ++ .T :: b) post
      = (arabicJoining stateTable pre (a ++ b) post).map
          (fun acts => acts.take a.length ++ NONE :: acts.drop a.length) := by
  rw [arabicJoining_eq_go _ _ _ h1 (resolved_insert_T h2) h3, arabicJoining_eq_go _ _ _ h1 h2 h3]
  simp only [Except.map]
  rw [go_insert_T]

example : Resolved ([JoiningType.D] ++ [JoiningType.R]) := by decide

/-- Inserting a transparent character anywhere into the stored pre- or post-context changes nothing. -/
theorem C11_transparent_context (c d ws e f : List JoiningType)
    (h1 : Resolved (c ++ d)) (h2 : Resolved ws) (h3 : Resolved (e ++ f)) :
    arabicJoining stateTable (c ++ .T :: d) ws (e ++ .T :: f) = arabicJoining stateTable (c ++ d) ws (e ++ f) := by
  rw [arabicJoining_eq_go _ _ _ (resolved_insert_T h1) h2 (resolved_insert_T h3),
    arabicJoining_eq_go _ _ _ h1 h2 h3, preState_insert_T, go_after_insert_T]

example : Resolved ([JoiningType.D] ++ [JoiningType.T]) ∧ Resolved ([] ++ [JoiningType.R]) := by decide

/-- All at once: the result is determined by the text and contexts with every transparent
    character erased; transparent characters themselves get `NONE`. -/
theorem C11_transparent_erase (pre ws post : List JoiningType)
    (h1 : Resolved pre) (h2 : Resolved ws) (h3 : Resolved post) :
    arabicJoining stateTable pre ws post
      = (arabicJoining stateTable (pre.filter nonT) (ws.filter nonT) (post.filter nonT)).map (spread ws) := by
  rw [arabicJoining_eq_go _ _ _ h1 h2 h3,
    arabicJoining_eq_go _ _ _ (resolved_filter h1) (resolved_filter h2) (resolved_filter h3)]
  simp only [Except.map]
  rw [preState_filter, ← go_filter]

example : Resolved [JoiningType.T, .D] ∧ Resolved [JoiningType.D, .T, .T, .D, .T] ∧ Resolved [JoiningType.T, .R] := by
  decide
example : spread [JoiningType.D, .T, .T, .D, .T] [INIT, MEDI] = [INIT, NONE, NONE, MEDI, NONE] := rfl

/-! ## Mongolian free variation selectors -/

/-- After `mongolian_variation_selectors`, item 0 keeps its action, and every later item has the
    (new) action of its predecessor if it is a free variation selector, its own otherwise. -/
theorem C11_mongolian_fvs {α : Type} (l : List (Nat × α)) :
    (mongolianCopy l).length = l.length ∧
    (∀ h : 0 < l.length, (mongolianCopy l)[0]'(by rw [mongolianCopy_length]; exact h) = (l[0]).2) ∧
    ∀ (i : Nat) (h : i + 1 < l.length),
      (mongolianCopy l)[i + 1]'(by rw [mongolianCopy_length]; exact h)
        = if isMongolianFvs (l[i + 1]).1 then (mongolianCopy l)[i]'(by rw [mongolianCopy_length]; omega)
          else (l[i + 1]).2 := by
  refine ⟨mongolianCopy_length l, ?_, ?_⟩
  · intro h
    match l, h with
    | (g, a) :: rest, _ => rfl
  · intro i h
    match l, h with
    | (g, a) :: rest, h =>
      simp only [mongolianCopy, List.getElem_cons_succ]
      -- generalise over the running previous action
      have key : ∀ (rest : List (Nat × α)) (p : α) (i : Nat) (h : i < rest.length),
          (mongolianGo p rest)[i]'(by rw [mongolianGo_length]; exact h)
            = if isMongolianFvs (rest[i]).1
              then (p :: mongolianGo p rest)[i]'(by simp [mongolianGo_length]; omega)
              else (rest[i]).2 := by
        intro rest
        induction rest with
        | nil => intro p i h; cases h
        | cons x rest ih =>
          intro p i h
          obtain ⟨g, a⟩ := x
          cases i with
          | zero => simp only [mongolianGo, List.getElem_cons_zero]
          | succ j =>
            simp only [mongolianGo, List.getElem_cons_succ]
            exact ih _ j (by simpa using h)
      exact key rest a i (by simpa using h)

example : (0 : Nat) + 1 < ([(0x1820, ISOL), (0x180B, NONE)] : List (Nat × Nat)).length := by decide

/-! ## masks -/

/-- **Masks.**  With the mask array built by `data_create_arabic` from the plan's 1-masks, every item
    receives exactly the 1-mask of the feature of its spec form OR-ed into its mask (nothing for
    `none`), for every text, context and mask function. -/
theorem C11_masks (oneMask : String → Nat) (pre post : List JT) (items : List (Nat × JT × Nat)) :
    setupMasks stateTable (dataCreate features oneMask) false (pre.reverse.map toCode)
        (items.map (fun x => ⟨x.1, toCode x.2.1, x.2.2⟩)) (post.map toCode)
      = .ok (((forms pre (items.map (·.2.1)) post).zip (items.map (·.2.2))).map
          (fun x => (toAction x.1, x.2 ||| featureMask oneMask x.1))) := by
  unfold setupMasks
  have hjt : (items.map (fun x => (⟨x.1, toCode x.2.1, x.2.2⟩ : Item))).map (·.jt)
      = (items.map (·.2.1)).map toCode := by simp [List.map_map, Function.comp_def]
  have hm : (items.map (fun x => (⟨x.1, toCode x.2.1, x.2.2⟩ : Item))).map (·.mask) = items.map (·.2.2) := by
    simp [List.map_map, Function.comp_def]
  rw [hjt, hm, arabicJoining_eq_forms]
  simp only [bind, Except.bind, Bool.false_eq_true, if_false]
  have hz : ((forms pre (items.map (·.2.1)) post).map toAction).zip (items.map (·.2.2))
      = ((forms pre (items.map (·.2.1)) post).zip (items.map (·.2.2))).map (fun x => (toAction x.1, x.2)) := by
    rw [List.zip_map_left]; rfl
  rw [hz, applyMasks_forms]

/-- The same for Mongolian: a free variation selector carries the form — and hence the feature mask —
    of the character it follows (so that the font can select the variant of the positional form). -/
theorem C11_masks_mongolian (oneMask : String → Nat) (pre post : List JT) (items : List (Nat × JT × Nat)) :
    setupMasks stateTable (dataCreate features oneMask) true (pre.reverse.map toCode)
        (items.map (fun x => ⟨x.1, toCode x.2.1, x.2.2⟩)) (post.map toCode)
      = .ok (((mongolianCopy ((items.map (·.1)).zip (forms pre (items.map (·.2.1)) post))).zip
            (items.map (·.2.2))).map
          (fun x => (toAction x.1, x.2 ||| featureMask oneMask x.1))) := by
  unfold setupMasks
  have hjt : (items.map (fun x => (⟨x.1, toCode x.2.1, x.2.2⟩ : Item))).map (·.jt)
      = (items.map (·.2.1)).map toCode := by simp [List.map_map, Function.comp_def]
  have hm : (items.map (fun x => (⟨x.1, toCode x.2.1, x.2.2⟩ : Item))).map (·.mask) = items.map (·.2.2) := by
    simp [List.map_map, Function.comp_def]
  have hc : (items.map (fun x => (⟨x.1, toCode x.2.1, x.2.2⟩ : Item))).map (·.cp) = items.map (·.1) := by
    simp [List.map_map, Function.comp_def]
  rw [hjt, hm, hc, arabicJoining_eq_forms]
  simp only [bind, Except.bind, if_true]
  have hz : (items.map (·.1)).zip ((forms pre (items.map (·.2.1)) post).map toAction)
      = ((items.map (·.1)).zip (forms pre (items.map (·.2.1)) post)).map (fun x => (x.1, toAction x.2)) := by
    rw [List.zip_map_right]; rfl
  rw [hz, mongolianCopy_map, List.zip_map_left]
  exact applyMasks_forms oneMask _

/-! ## every script that owns joining letters reaches the joining analysis

The joining pass (`arabic_joining` + `setup_masks_inner`, the theorems above) runs in two places: in the Arabic
shaper, and in the Universal Shaping Engine for the scripts listed in `has_arabic_joining` (for every other script
the Universal shaper assigns isol/init/medi/fina by cluster adjacency alone, ignoring joining types and
contexts).  `Gen.ArabicScripts` (regenerated on every run) holds: the letters of the crate's joining table grouped
by their Unicode script, the shaper `hb_ot_shape_complex_categorize` picks for each such script when the font has
the script's own OpenType tag, and the `has_arabic_joining` list read from the source.  A script dropped from that
list, or sent to another shaper, makes the theorems below false. -/

open RbModel.Gen.ArabicScripts (joiningLetterRuns joiningScriptShaper useJoiningScripts)

/-- table entries of letters that take positional forms: L, R, D, Alaph, Dalath/Rish -/
def isLetterRaw (raw : Nat) : Bool :=
  [JoiningType.L, .R, .D, .GroupAlaph, .GroupDalathRish].any (fun t => t.toNat == raw)

/-- `Zyyy` (Common: U+0640 TATWEEL) and `Zinh` (Inherited: U+200D ZERO WIDTH JOINER): characters of no
    particular script, shaped with the script of the text around them -/
def neutralScript (sc : Nat) : Bool := sc == 0x5A797979 || sc == 0x5A696E68

/-- text of script `sc` (horizontal, font with the script's OpenType tag) gets the joining analysis: the crate
    picks the Arabic shaper (code 1), or the Universal shaper (code 2) and `has_arabic_joining(sc)` holds -/
def runsJoining (sc : Nat) : Bool :=
  match joiningScriptShaper.lookup sc with
  | some 1 => true
  | some 2 => useJoiningScripts.contains sc
  | _ => false

/-- `c` lies in a run of joining letters whose script is neutral or gets the joining analysis -/
def letterRouted (c : Nat) : Bool :=
  joiningLetterRuns.any (fun r => decide (r.1 ≤ c) && decide (c ≤ r.2.1) && (neutralScript r.2.2 || runsJoining r.2.2))

set_option maxRecDepth 100000 in
/-- every script that owns a joining letter of the crate's table is shaped with the joining analysis -/
theorem C11_joining_scripts_routed :
    ∀ r ∈ joiningLetterRuns, neutralScript r.2.2 = true ∨ runsJoining r.2.2 = true := by decide +kernel

set_option maxRecDepth 100000 in
/-- the finite check behind `C11_joining_letters_routed`, over the generated table -/
theorem C11_joining_letters_routed_check :
    RbModel.Gen.Arabic.joiningRanges.all (fun r =>
      !isLetterRaw r.2.2 || (List.range' r.1 (r.2.1 + 1 - r.1)).all letterRouted) = true := by decide +kernel

/-- … stated per character of the generated joining table: every code point whose table entry is a letter
    (L, R, D, Alaph, Dalath/Rish) belongs to a script for which the joining analysis runs (or to no script) -/
theorem C11_joining_letters_routed :
    ∀ r ∈ RbModel.Gen.Arabic.joiningRanges, isLetterRaw r.2.2 = true →
      ∀ c, r.1 ≤ c → c ≤ r.2.1 → letterRouted c = true := by
  intro r hr hl c h1 h2
  have h := List.all_eq_true.mp C11_joining_letters_routed_check r hr
  rw [hl] at h
  simp only [Bool.not_true, Bool.false_or] at h
  exact List.all_eq_true.mp h c (by rw [List.mem_range'_1]; omega)

/-- non-vacuity: BEH (Arabic shaper), Psalter Pahlavi ALEPH and Adlam ALIF (Universal shaper) are such letters -/
example : isLetterRaw 3 = true ∧ runsJoining 0x41726162 = true ∧ runsJoining 0x50686C70 = true
    ∧ letterRouted 0x628 = true ∧ letterRouted 0x10B80 = true ∧ letterRouted 0x1E900 = true := by decide +kernel

/-! ## … whatever script record of the font `select_script` falls back to

`hb_ot_shape_complex_categorize(script, direction, chosen GSUB script)` decides from the script tag that
`select_script` CHOSE in the font's GSUB: one of the script's own OpenType tags, or — when the font has no such
record — the fall-backs 'DFLT', 'dflt', 'latn', or nothing at all.  `Gen.ArabicScripts.joiningShaperProbe`
(regenerated from the compiled crate on every run) holds the shaper picked for every script that owns joining
letters x every direction x every such chosen tag.  The rule, as hb-ot-shaper.hh and the source comments state it:

* Arabic script: the Arabic shaper for every horizontal text, whatever was chosen ("use the Arabic shaper even if no
  OT script tag was found"): fonts that register isol/init/medi/fina under 'DFLT' only are shaped as Arabic;
* the other scripts of the Arabic shaper (Syriac): the Arabic shaper for horizontal text unless 'DFLT' was chosen
  ("the designer designed the font for the DFLT script": default shaper);
* the scripts of the Universal shaper: the Universal shaper unless 'DFLT' or 'latn' was chosen, in every direction;
* vertical text of the Arabic shaper's scripts: the default shaper.

A changed condition in `hb_ot_shape_complex_categorize` makes `C11_shaper_by_gsub_script` false. -/

open RbModel.Gen.ArabicScripts (joiningShaperProbe joiningScriptOtTags)

/-- OpenType script tags 'DFLT', 'latn'; ISO 15924 tag 'Arab' -/
def tagDFLT : Nat := 0x44464C54
def tagLatn : Nat := 0x6C61746E
def scriptArab : Nat := 0x41726162

/-- directions 0 = left-to-right, 1 = right-to-left (2 = top-to-bottom, 3 = bottom-to-top) -/
def horizontalDir (d : Nat) : Bool := d == 0 || d == 1

/-- the shaper (1 Arabic, 2 Universal, 0 other) of script `sc` for direction `dir` when `gsub` is the chosen GSUB
    script tag (0 = none), given `base`, the shaper of the script for its own tag and its own direction -/
def shaperRule (base : Option Nat) (sc dir gsub : Nat) : Nat :=
  match base with
  | some 1 => if horizontalDir dir && (gsub != tagDFLT || sc == scriptArab) then 1 else 0
  | some 2 => if gsub == tagDFLT || gsub == tagLatn then 0 else 2
  | _ => 0

set_option maxRecDepth 100000 in
/-- the crate picks the shaper of every joining script by that rule: every direction, every chosen GSUB script -/
theorem C11_shaper_by_gsub_script :
    ∀ e ∈ joiningShaperProbe, e.2.2.2 = shaperRule (joiningScriptShaper.lookup e.1) e.1 e.2.1 e.2.2.1 := by
  decide +kernel

/-- the chosen GSUB scripts the probe must cover for a script with the OpenType tags `ots`:
    none, the three fall-backs of `select_script`, the script's own tags -/
def chosenTags (ots : List Nat) : List Nat := [0, tagDFLT, 0x64666C74, tagLatn] ++ ots

/-- the probe has a row for (sc, dir, gsub) -/
def probed (sc dir gsub : Nat) : Bool :=
  joiningShaperProbe.any (fun e => e.1 == sc && e.2.1 == dir && e.2.2.1 == gsub)

set_option maxRecDepth 100000 in
/-- the probe is complete: every joining script x 4 directions x (none, DFLT, dflt, latn, each own tag), and every
    joining script has an OpenType tag -/
theorem C11_shaper_probe_complete :
    ∀ s ∈ joiningScriptShaper, ∃ ots, joiningScriptOtTags.lookup s.1 = some ots ∧ ots ≠ [] ∧
      ∀ d ∈ [0, 1, 2, 3], ∀ g ∈ chosenTags ots, probed s.1 d g = true := by decide +kernel

set_option maxRecDepth 100000 in
/-- Arabic-script text in a horizontal direction is shaped by the Arabic shaper whatever GSUB script record the
    font offered — in particular when it has only 'DFLT' -/
theorem C11_arabic_script_arabic_shaper :
    ∀ e ∈ joiningShaperProbe, e.1 = scriptArab → horizontalDir e.2.1 = true → e.2.2.2 = 1 := by
  decide +kernel

/-- does the joining analysis run for script `sc` when the crate picked shaper code `sh`? -/
def runsJoiningWith (sc sh : Nat) : Bool :=
  match sh with
  | 1 => true
  | 2 => useJoiningScripts.contains sc
  | _ => false

/-- the (script, direction, chosen GSUB script) combinations that are shaped WITHOUT the joining analysis by
    design: vertical text of the Arabic shaper's scripts; 'DFLT' chosen for any script but Arabic; 'latn' chosen
    for a script of the Universal shaper -/
def joiningExempt (base : Option Nat) (sc dir gsub : Nat) : Bool :=
  (base == some 1 && !horizontalDir dir) || (gsub == tagDFLT && sc != scriptArab) || (gsub == tagLatn && base == some 2)

set_option maxRecDepth 100000 in
/-- every joining script gets the joining analysis for every direction and every chosen GSUB script outside the
    exemptions, and only there -/
theorem C11_joining_runs_by_gsub_script :
    ∀ e ∈ joiningShaperProbe,
      runsJoiningWith e.1 e.2.2.2 = !joiningExempt (joiningScriptShaper.lookup e.1) e.1 e.2.1 e.2.2.1 := by
  decide +kernel

/-- non-vacuity: the probe has the rows (Arab, rtl, DFLT) -> Arabic shaper, (Syrc, rtl, DFLT) -> other,
    (Adlm, rtl, latn) -> other, (Adlm, rtl, none) -> Universal shaper -/
example : (0x41726162, 1, 0x44464C54, 1) ∈ joiningShaperProbe ∧ (0x53797263, 1, 0x44464C54, 0) ∈ joiningShaperProbe
    ∧ (0x41646C6D, 1, 0x6C61746E, 0) ∈ joiningShaperProbe ∧ (0x41646C6D, 1, 0, 2) ∈ joiningShaperProbe := by
  decide +kernel

end RbModel.Arabic
