/-
  C04 — glyph flags: UNSAFE_TO_CONCAT is sound; flags are clean and uniform per cluster.

  What is proved here is the flag *hygiene* half of the property, for the Lean model of `propagate_flags`
  (ot_shape.rs) and of the flag setters of buffer.rs, for every buffer (any length, any masks, any clusters):
  BREAK ⇒ CONCAT, uniform per cluster, only defined bits, opt-in bits, the tatweel reconciliation, and that the
  generated `BufferFlags` constants are distinct single bits.  The model is tied to the crate by the `flags-walks`
  correspondence stream; the redistribution sentence (soundness of UNSAFE_TO_CONCAT over all ~30 call sites) is
  carried by the search through shape() (tools/props/C04.py).

  `exposed x = x.mask & glyph_flag::DEFINED` is what `serialize(GLYPH_FLAGS)` / `GlyphInfo::unsafe_to_break()` show.
  `RunDone l l' len W s e` (Lemmas/Flags.lean): `[s, e)` is a maximal run of equal clusters of the buffer `l` and in
  `l'` every glyph of it has the mask `W (union of the run's defined flag bits)`.
-/
import RbModel.Lemmas.Flags
import RbModel.Lemmas.FlagCarry
import RbModel.Lemmas.MatchSpanFlags
import RbModel.Lemmas.PairSpanKern
import RbModel.Gen.PairFlag

namespace RbModel.Flags

/-- the glyph-flag constants the model computes with are the ones of the compiled crate -/
theorem C04_glyph_flags_gen :
    Gen.Flags.glyphUnsafeToBreak = Flag.UNSAFE_TO_BREAK ∧ Gen.Flags.glyphUnsafeToConcat = Flag.UNSAFE_TO_CONCAT ∧
    Gen.Flags.glyphSafeToInsertTatweel = Flag.SAFE_TO_INSERT_TATWEEL ∧ Gen.Flags.glyphDefined = Flag.DEFINED ∧
    Gen.Flags.scratchHasGlyphFlags = SCRATCH_HAS_GLYPH_FLAGS ∧
    Gen.Flags.produceUnsafeToConcat = Gen.Buf.produceUnsafeToConcat ∧
    Gen.Flags.produceSafeToInsertTatweel = Gen.Buf.produceSafeToInsertTatweel := by decide

def singleBit (v : Nat) : Bool := v != 0 && (v &&& (v - 1)) == 0

/-- The named `BufferFlags` constants of the compiled crate are pairwise distinct single bits inside `DEFINED`
    (so requesting one option can never switch on another).  False before the repair of D1
    (PRODUCE_SAFE_TO_INSERT_TATWEEL = PRODUCE_UNSAFE_TO_CONCAT = 0x40: `decide` refutes the statement). -/
theorem C04_buffer_flags_distinct :
    (Gen.Flags.bufferFlags.map (·.2)).Pairwise (· ≠ ·) ∧
    (∀ p ∈ Gen.Flags.bufferFlags, singleBit p.2 = true ∧ p.2 &&& Gen.Flags.bufferFlagsDefined = p.2) := by
  decide

/-- the write-back loop of `propagate_flags` runs for every cluster (not only when UNSAFE_TO_CONCAT is being cleared);
    recovered from the compiled crate by a probe call on every run (tools/gens/flags.py).  False before the repair of D2. -/
theorem C04_gen_write_back_unguarded : Gen.Flags.propagateWriteBackGuarded = false := by decide

/-- **The tatweel reconciliation.** With PRODUCE_SAFE_TO_INSERT_TATWEEL (`flip`), on the union `m` of a cluster's flag bits:
    a surviving SAFE_TO_INSERT_TATWEEL comes with UNSAFE_TO_BREAK (and with UNSAFE_TO_CONCAT unless that is being
    stripped), and a cluster that was UNSAFE_TO_BREAK never keeps SAFE_TO_INSERT_TATWEEL.  For every mask `m`
    (only its three defined bits matter) and both settings of `clear`. -/
theorem C04_tatweel_reconcile (m : Nat) (clear : Bool) :
    let r := reconcile true clear (m &&& Flag.DEFINED)
    (r &&& Flag.SAFE_TO_INSERT_TATWEEL ≠ 0 → r &&& Flag.UNSAFE_TO_BREAK ≠ 0 ∧ (clear = false → r &&& Flag.UNSAFE_TO_CONCAT ≠ 0)) ∧
    (m &&& Flag.UNSAFE_TO_BREAK ≠ 0 → r &&& Flag.SAFE_TO_INSERT_TATWEEL = 0) := by
  have key : ∀ a, a < 8 → ∀ clear : Bool,
      (reconcile true clear a &&& 4 ≠ 0 → reconcile true clear a &&& 1 ≠ 0 ∧ (clear = false → reconcile true clear a &&& 2 ≠ 0)) ∧
      (a &&& 1 ≠ 0 → reconcile true clear a &&& 4 = 0) := by decide
  have h := key (m &&& 7) (and7_lt m) clear
  have e : (m &&& 7) &&& 1 = m &&& 1 := and7_and m 1 (by decide)
  rw [e] at h
  exact h

example : reconcile true false 4 = 7 ∧ reconcile true false 5 = 1 ∧ reconcile true true 4 = 5 := by decide

/-! ### after `propagate_flags` -/

/-- Everything `propagate_flags` guarantees, for every buffer on which it runs (HAS_GLYPH_FLAGS set), in one statement:
    it does not panic, only masks change, nothing at or beyond `len` changes, and every glyph lies in a maximal run of
    equal clusters all of whose glyphs received the reconciled union of the run's flag bits as their whole mask. -/
theorem C04_propagate_runs (b : Buf) (hlen : b.len ≤ b.info.length) (hsc : b.scratch &&& SCRATCH_HAS_GLYPH_FLAGS ≠ 0) :
    ∃ info, propagateFlags b = .ok { b with info := info } ∧ SameButMasks b.info info ∧
      (∀ j, b.len ≤ j → info[j]? = b.info[j]?) ∧
      ∀ i, i < b.len → ∃ s e, s ≤ i ∧ i < e ∧
        RunDone b.info info b.len
          (reconcile (contains b.flags Gen.Buf.produceSafeToInsertTatweel) (!contains b.flags Gen.Buf.produceUnsafeToConcat)) s e :=
  propagateFlags_spec b C04_gen_write_back_unguarded hlen hsc

/-- **Uniform per cluster.** After `propagate_flags`, two neighbouring glyphs with the same cluster value expose the same flags —
    for every flag setting of the buffer, every length, every mask content.  (If the pass does not run because no flag was
    ever set, `hsc` asks that indeed no defined bit is set.)  False before the repair of D2. -/
theorem C04_uniform (b : Buf) (hlen : b.len ≤ b.info.length)
    (hsc : b.scratch &&& SCRATCH_HAS_GLYPH_FLAGS ≠ 0 ∨ ∀ i x, i < b.len → b.info[i]? = some x → exposed x = 0) :
    ∃ b', propagateFlags b = .ok b' ∧ b'.len = b.len ∧ SameButMasks b.info b'.info ∧
      ∀ i x y, i + 1 < b.len → b'.info[i]? = some x → b'.info[i + 1]? = some y → x.cluster = y.cluster →
        exposed x = exposed y := by
  by_cases hs : b.scratch &&& SCRATCH_HAS_GLYPH_FLAGS = 0
  · have hz : ∀ i x, i < b.len → b.info[i]? = some x → exposed x = 0 := by
      rcases hsc with h | h
      · exact absurd hs h
      · exact h
    refine ⟨b, propagateFlags_skip b hs, rfl, SameButMasks.refl _, ?_⟩
    intro i x y hi hx hy _
    rw [hz i x (by omega) hx, hz (i + 1) y hi hy]
  · obtain ⟨info, hr, hsb, _, hruns⟩ := C04_propagate_runs b hlen hs
    refine ⟨_, hr, rfl, hsb, ?_⟩
    intro i x y hi hx hy hc
    obtain ⟨s, e, h1, h2, ⟨_, r2, r3, _, r5, r6⟩⟩ := hruns i (by omega)
    -- i + 1 is in the same run: otherwise e = i + 1 < len and the run would not be maximal
    have hie : i + 1 < e := by
      rcases Nat.lt_or_ge (i + 1) e with h | h
      · exact h
      · exfalso
        have he : e = i + 1 := by omega
        rcases r5 with r5 | r5
        · omega
        · apply r5
          simp only at hx hy
          have c1 : clAt info i = some x.cluster := clAt_some hx
          have c2 : clAt info (i + 1) = some y.cluster := clAt_some hy
          have e1 : clAt b.info (i + 1) = clAt b.info i := by
            rw [← hsb.clAt, ← hsb.clAt i, c1, c2, hc]
          rw [he, e1]; exact r3 i h1 h2
    obtain ⟨x0, _, hx'⟩ := r6 i h1 h2
    obtain ⟨y0, _, hy'⟩ := r6 (i + 1) (by omega) hie
    simp only at hx hy
    rw [hx] at hx'; rw [hy] at hy'
    cases hx'; cases hy'
    rfl

example : ∃ b : Buf, b.len ≤ b.info.length ∧ b.scratch &&& SCRATCH_HAS_GLYPH_FLAGS ≠ 0 ∧ b.len = 2 :=
  ⟨{ info := [{ mask := 3 }, {}], len := 2, scratch := 0x20 }, by decide, by decide, rfl⟩

/-- **Uniform per cluster, monotone buffers** (the state `shape()` leaves, C02): any two glyphs with the same cluster value — not
    only neighbours — expose the same flags after `propagate_flags`. -/
theorem C04_uniform_mono (b : Buf) (hlen : b.len ≤ b.info.length)
    (hsc : b.scratch &&& SCRATCH_HAS_GLYPH_FLAGS ≠ 0 ∨ ∀ i x, i < b.len → b.info[i]? = some x → exposed x = 0)
    (hmono : MonoRange b.info 0 b.len) :
    ∃ b', propagateFlags b = .ok b' ∧
      ∀ i j x y, i < b.len → j < b.len → b'.info[i]? = some x → b'.info[j]? = some y → x.cluster = y.cluster →
        exposed x = exposed y := by
  obtain ⟨b', hr, _, hsb, hadj⟩ := C04_uniform b hlen hsc
  refine ⟨b', hr, ?_⟩
  have hm' : MonoRange b'.info 0 b.len := MonoRange.of_sameButMasks hsb hmono
  have key : ∀ d i j x y, j = i + d → j < b.len → b'.info[i]? = some x → b'.info[j]? = some y → x.cluster = y.cluster →
      exposed x = exposed y := by
    intro d
    induction d with
    | zero =>
      intro i j x y hj _ hx hy _
      subst hj
      rw [hx] at hy; cases hy; rfl
    | succ d ih =>
      intro i j x y hj hjl hx hy hc
      have hlt : i + 1 < b'.info.length := by rw [hsb.1]; omega
      have hz : b'.info[i + 1]? = some b'.info[i + 1] := List.getElem?_eq_getElem hlt
      have hcz : x.cluster = (b'.info[i + 1]).cluster := by
        rcases hm' with hm | hm
        · have a := hm i (i + 1) x _ (Nat.zero_le _) (by omega) (by omega) hx hz
          have c := hm (i + 1) j _ y (Nat.zero_le _) (by omega) hjl hz hy
          omega
        · have a := hm i (i + 1) x _ (Nat.zero_le _) (by omega) (by omega) hx hz
          have c := hm (i + 1) j _ y (Nat.zero_le _) (by omega) hjl hz hy
          omega
      rw [hadj i x _ (by omega) hx hz hcz]
      exact ih (i + 1) j _ y (by omega) hjl hz hy (by rw [← hcz]; exact hc)
  intro i j x y hi hj hx hy hc
  rcases Nat.le_total i j with h | h
  · exact key (j - i) i j x y (by omega) hj hx hy hc
  · exact (key (i - j) j i y x (by omega) hi hy hx hc.symm).symm

/-- **Only defined bits.** What the API exposes of any mask lies inside `glyph_flag::DEFINED`, which is exactly the union of the
    three flags (generated constants); and after `propagate_flags` has run the whole mask of every glyph is inside DEFINED. -/
theorem C04_defined_only :
    (∀ x : Info, exposed x ||| Flag.DEFINED = Flag.DEFINED) ∧
    Gen.Flags.glyphDefined = Gen.Flags.glyphUnsafeToBreak ||| Gen.Flags.glyphUnsafeToConcat ||| Gen.Flags.glyphSafeToInsertTatweel ∧
    (∀ (b : Buf), b.len ≤ b.info.length → b.scratch &&& SCRATCH_HAS_GLYPH_FLAGS ≠ 0 →
      ∃ b', propagateFlags b = .ok b' ∧ ∀ i x, i < b.len → b'.info[i]? = some x → x.mask < 8) := by
  refine ⟨?_, by decide, ?_⟩
  · intro x
    have : ∀ m, m < 8 → m ||| 7 = 7 := by decide
    exact this _ (and7_lt x.mask)
  · intro b hlen hs
    obtain ⟨info, hr, _, _, hruns⟩ := C04_propagate_runs b hlen hs
    refine ⟨_, hr, ?_⟩
    intro i x hi hx
    obtain ⟨s, e, h1, h2, ⟨_, _, _, _, _, r6⟩⟩ := hruns i hi
    obtain ⟨x0, _, hx'⟩ := r6 i h1 h2
    simp only at hx
    rw [hx] at hx'; cases hx'
    exact rec_lt8 _ (orSpec_lt8 _ _ _) _ _

/-- **Opt-in bits.** After `propagate_flags`: without PRODUCE_UNSAFE_TO_CONCAT no glyph exposes UNSAFE_TO_CONCAT; and
    SAFE_TO_INSERT_TATWEEL is exposed only if some glyph carried it before the pass (the setters put it there only when
    PRODUCE_SAFE_TO_INSERT_TATWEEL is requested, `C04_optin_setters`). -/
theorem C04_optin (b : Buf) (hlen : b.len ≤ b.info.length) (hs : b.scratch &&& SCRATCH_HAS_GLYPH_FLAGS ≠ 0) :
    ∃ b', propagateFlags b = .ok b' ∧
      (contains b.flags Gen.Buf.produceUnsafeToConcat = false →
        ∀ i x, i < b.len → b'.info[i]? = some x → exposed x &&& Flag.UNSAFE_TO_CONCAT = 0) ∧
      ((∀ i x, i < b.len → b.info[i]? = some x → x.mask &&& Flag.SAFE_TO_INSERT_TATWEEL = 0) →
        ∀ i x, i < b.len → b'.info[i]? = some x → exposed x &&& Flag.SAFE_TO_INSERT_TATWEEL = 0) := by
  obtain ⟨info, hr, _, _, hruns⟩ := C04_propagate_runs b hlen hs
  refine ⟨_, hr, ?_, ?_⟩
  · intro hc i x hi hx
    obtain ⟨s, e, h1, h2, ⟨_, _, _, _, _, r6⟩⟩ := hruns i hi
    obtain ⟨x0, _, hx'⟩ := r6 i h1 h2
    simp only at hx
    rw [hx] at hx'; cases hx'
    simp only [hc, Bool.not_false]
    have h8 := orSpec_lt8 b.info (e - s) s
    have := rec_no_concat _ h8 (contains b.flags Gen.Buf.produceSafeToInsertTatweel)
    rw [exposed_bit _ _ (by decide)]
    exact this
  · intro hno i x hi hx
    obtain ⟨s, e, h1, h2, ⟨_, r2, _, _, _, r6⟩⟩ := hruns i hi
    obtain ⟨x0, _, hx'⟩ := r6 i h1 h2
    simp only at hx
    rw [hx] at hx'; cases hx'
    rw [exposed_bit _ _ (by decide)]
    apply rec_no_tatweel _ (orSpec_lt8 _ _ _)
    -- the union has no TATWEEL bit because no glyph of the run has one
    have hbit := orSpec_bit b.info 4 (by decide) (e - s) s
    rcases Nat.eq_zero_or_pos (orSpec b.info s (e - s) &&& 4) with h | h
    · exact h
    · exfalso
      obtain ⟨j, y, hj1, hj2, hy, hy4⟩ := hbit.mp (by omega)
      exact hy4 (hno j y (by omega) hy)

/-- **BREAK ⇒ CONCAT is kept by `propagate_flags`** when PRODUCE_UNSAFE_TO_CONCAT is requested: if every glyph that is
    UNSAFE_TO_BREAK is also UNSAFE_TO_CONCAT before the pass (`C04_break_implies_concat_setters`: the setters keep that), then
    so it is afterwards, for all glyphs. -/
theorem C04_break_implies_concat (b : Buf) (hlen : b.len ≤ b.info.length) (hs : b.scratch &&& SCRATCH_HAS_GLYPH_FLAGS ≠ 0)
    (hreq : contains b.flags Gen.Buf.produceUnsafeToConcat = true)
    (hin : ∀ i x, i < b.len → b.info[i]? = some x → x.mask &&& Flag.UNSAFE_TO_BREAK ≠ 0 → x.mask &&& Flag.UNSAFE_TO_CONCAT ≠ 0) :
    ∃ b', propagateFlags b = .ok b' ∧
      ∀ i x, i < b.len → b'.info[i]? = some x →
        exposed x &&& Flag.UNSAFE_TO_BREAK ≠ 0 → exposed x &&& Flag.UNSAFE_TO_CONCAT ≠ 0 := by
  obtain ⟨info, hr, _, _, hruns⟩ := C04_propagate_runs b hlen hs
  refine ⟨_, hr, ?_⟩
  intro i x hi hx
  obtain ⟨s, e, h1, h2, ⟨_, r2, _, _, _, r6⟩⟩ := hruns i hi
  obtain ⟨x0, _, hx'⟩ := r6 i h1 h2
  simp only at hx
  rw [hx] at hx'; cases hx'
  simp only [hreq, Bool.not_true]
  rw [exposed_bit _ _ (by decide), exposed_bit _ _ (by decide)]
  apply rec_break_concat _ (orSpec_lt8 _ _ _)
  intro hb
  obtain ⟨j, y, hj1, hj2, hy, hy1⟩ := (orSpec_bit b.info 1 (by decide) (e - s) s).mp hb
  exact (orSpec_bit b.info 2 (by decide) (e - s) s).mpr ⟨j, y, hj1, hj2, hy, hin j y (by omega) hy hy1⟩

example : ∃ b : Buf, b.len ≤ b.info.length ∧ b.scratch &&& SCRATCH_HAS_GLYPH_FLAGS ≠ 0 ∧
    contains b.flags Gen.Buf.produceUnsafeToConcat = true ∧
    (∀ i x, i < b.len → b.info[i]? = some x → x.mask &&& Flag.UNSAFE_TO_BREAK ≠ 0 → x.mask &&& Flag.UNSAFE_TO_CONCAT ≠ 0) := by
  refine ⟨{ info := [{ mask := 3 }], len := 1, scratch := 0x20, flags := 0x40 }, by decide, by decide, by decide, ?_⟩
  intro i x hi hx
  have : i = 0 := by simp at hi; omega
  subst this
  simp at hx; subst hx
  decide

/-! ### the setters of buffer.rs -/

/-- **BREAK ⇒ CONCAT is kept by every flag setter** (`AllMask BreakHasConcat l`: every mask of `l` that has UNSAFE_TO_BREAK has
    UNSAFE_TO_CONCAT).  In-buffer calls `unsafe_to_break`, `unsafe_to_concat`, `safe_to_insert_tatweel` on any `[s, e)` inside the
    buffer, and the two `_from_outbuffer` calls on `out[s, out_len) ++ info[idx, e)`: no panic, and the invariant holds again on
    `info` and on the out-buffer — for every buffer-flag setting, level, length and content.  Together with
    `C04_break_implies_concat` (propagate_flags) this is the sentence "every glyph flagged UNSAFE_TO_BREAK is also flagged
    UNSAFE_TO_CONCAT" for everything that goes through these primitives. -/
theorem C04_break_implies_concat_setters (b : Buf) (s e : Nat)
    (hin : AllMask BreakHasConcat b.info) (hout : AllMask BreakHasConcat b.out) :
    (s ≤ e → e ≤ b.len → b.len ≤ b.info.length →
      (∀ j x, s ≤ j → j < e → b.info[j]? = some x → x.cluster ≤ U32MAX) →
      (∃ b', b.unsafeToBreak s (some e) = .ok b' ∧ AllMask BreakHasConcat b'.info ∧ b'.out = b.out) ∧
      (∃ b', b.unsafeToConcat s (some e) = .ok b' ∧ AllMask BreakHasConcat b'.info ∧ b'.out = b.out) ∧
      (∃ b', b.safeToInsertTatweel s (some e) = .ok b' ∧ AllMask BreakHasConcat b'.info ∧ b'.out = b.out)) ∧
    (b.haveOutput = true → s ≤ b.outLen → b.outLen ≤ b.outArr.length → b.idx ≤ e → e ≤ b.len → b.len ≤ b.info.length →
      (∀ j x, s ≤ j → j < b.outLen → b.outArr[j]? = some x → x.cluster ≤ U32MAX) →
      (∀ j x, b.idx ≤ j → j < e → b.info[j]? = some x → x.cluster ≤ U32MAX) →
      (s < b.outLen ∨ b.idx < e) →
      (∃ b', b.unsafeToBreakFromOut s (some e) = .ok b' ∧ AllMask BreakHasConcat b'.info ∧ AllMask BreakHasConcat b'.out) ∧
      (∃ b', b.unsafeToConcatFromOut s (some e) = .ok b' ∧ AllMask BreakHasConcat b'.info ∧ AllMask BreakHasConcat b'.out)) := by
  have p3 := breakHasConcat_or (Flag.UNSAFE_TO_BREAK ||| Flag.UNSAFE_TO_CONCAT) (Or.inl (by decide))
  have p2 := breakHasConcat_or Flag.UNSAFE_TO_CONCAT (Or.inr (Or.inl rfl))
  have p4 := breakHasConcat_or Flag.SAFE_TO_INSERT_TATWEEL (Or.inr (Or.inr rfl))
  constructor
  · intro hse he hlen hu
    have hbrk : ∃ b', b.unsafeToBreak s (some e) = .ok b' ∧ AllMask BreakHasConcat b'.info ∧ b'.out = b.out := by
      obtain ⟨b', hr, h1, h2, _⟩ := setGlyphFlags_in_allMask BreakHasConcat b _ s e true p3 hse he hlen hu hin
      exact ⟨b', hr, h1, h2⟩
    refine ⟨hbrk, ?_, ?_⟩
    · by_cases hc : (b.flags &&& Gen.Buf.produceUnsafeToConcat == 0) = true
      · exact ⟨b, by simp only [Buf.unsafeToConcat, hc, if_true]; rfl, hin, rfl⟩
      · obtain ⟨b', hr, h1, h2, _⟩ := setGlyphFlags_in_allMask BreakHasConcat b _ s e false p2 hse he hlen hu hin
        exact ⟨b', by simp only [Buf.unsafeToConcat, hc, if_false]; exact hr, h1, h2⟩
    · by_cases hc : (b.flags &&& Gen.Buf.produceSafeToInsertTatweel == 0) = true
      · obtain ⟨b', hr, h1, h2⟩ := hbrk
        exact ⟨b', by simp only [Buf.safeToInsertTatweel, hc, if_true]; exact hr, h1, h2⟩
      · obtain ⟨b', hr, h1, h2, _⟩ := setGlyphFlags_in_allMask BreakHasConcat b _ s e true p4 hse he hlen hu hin
        exact ⟨b', by simp only [Buf.safeToInsertTatweel, hc, if_false]; exact hr, h1, h2⟩
  · intro hho hs hol hie he hlen hu1 hu2 hne
    constructor
    · obtain ⟨b', hr, h1, h2, _⟩ :=
        setGlyphFlags_out_allMask BreakHasConcat b _ s e true p3 hho hs hol hie he hlen hu1 hu2 hne hin hout
      exact ⟨b', hr, h1, h2⟩
    · by_cases hc : (b.flags &&& Gen.Buf.produceUnsafeToConcat == 0) = true
      · exact ⟨b, by simp only [Buf.unsafeToConcatFromOut, hc, if_true]; rfl, hin, hout⟩
      · obtain ⟨b', hr, h1, h2, _⟩ :=
          setGlyphFlags_out_allMask BreakHasConcat b _ s e false p2 hho hs hol hie he hlen hu1 hu2 hne hin hout
        exact ⟨b', by simp only [Buf.unsafeToConcatFromOut, hc, if_false]; exact hr, h1, h2⟩

example : ∃ b : Buf, AllMask BreakHasConcat b.info ∧ AllMask BreakHasConcat b.out ∧ b.len = 1 ∧ b.len ≤ b.info.length := by
  refine ⟨{ info := [{ mask := 3 }], len := 1 }, ?_, ?_, rfl, by decide⟩
  · intro j x hx
    have : j = 0 := by
      rcases Nat.lt_or_ge j 1 with h | h
      · omega
      · have : ([({ mask := 3 } : Info)])[j]? = none := List.getElem?_eq_none_iff.mpr h
        rw [this] at hx; cases hx
    subst this
    simp at hx; subst hx
    unfold BreakHasConcat; decide
  · intro j x hx; simp at hx

/-- **SAFE_TO_INSERT_TATWEEL is opt-in at the setters**: while PRODUCE_SAFE_TO_INSERT_TATWEEL is not requested
    (`b.flags & PRODUCE_SAFE_TO_INSERT_TATWEEL == 0` — the generated constant), none of the five setters puts the
    SAFE_TO_INSERT_TATWEEL bit on any mask (`safe_to_insert_tatweel` degrades to `unsafe_to_break`).  With
    `C04_optin` (propagate_flags adds none either) no glyph exposes the bit unless it was requested. -/
theorem C04_optin_setters (b : Buf) (s e : Nat) (hreq : (b.flags &&& Gen.Buf.produceSafeToInsertTatweel == 0) = true)
    (hin : AllMask NoTatweel b.info) (hout : AllMask NoTatweel b.out) :
    (s ≤ e → e ≤ b.len → b.len ≤ b.info.length →
      (∀ j x, s ≤ j → j < e → b.info[j]? = some x → x.cluster ≤ U32MAX) →
      (∃ b', b.unsafeToBreak s (some e) = .ok b' ∧ AllMask NoTatweel b'.info ∧ b'.out = b.out ∧ b'.flags = b.flags) ∧
      (∃ b', b.unsafeToConcat s (some e) = .ok b' ∧ AllMask NoTatweel b'.info ∧ b'.out = b.out ∧ b'.flags = b.flags) ∧
      (∃ b', b.safeToInsertTatweel s (some e) = .ok b' ∧ AllMask NoTatweel b'.info ∧ b'.out = b.out ∧ b'.flags = b.flags)) ∧
    (b.haveOutput = true → s ≤ b.outLen → b.outLen ≤ b.outArr.length → b.idx ≤ e → e ≤ b.len → b.len ≤ b.info.length →
      (∀ j x, s ≤ j → j < b.outLen → b.outArr[j]? = some x → x.cluster ≤ U32MAX) →
      (∀ j x, b.idx ≤ j → j < e → b.info[j]? = some x → x.cluster ≤ U32MAX) →
      (s < b.outLen ∨ b.idx < e) →
      (∃ b', b.unsafeToBreakFromOut s (some e) = .ok b' ∧ AllMask NoTatweel b'.info ∧ AllMask NoTatweel b'.out ∧ b'.flags = b.flags) ∧
      (∃ b', b.unsafeToConcatFromOut s (some e) = .ok b' ∧ AllMask NoTatweel b'.info ∧ AllMask NoTatweel b'.out ∧ b'.flags = b.flags)) := by
  have p3 := noTatweel_or (Flag.UNSAFE_TO_BREAK ||| Flag.UNSAFE_TO_CONCAT) (Or.inl (by decide))
  have p2 := noTatweel_or Flag.UNSAFE_TO_CONCAT (Or.inr rfl)
  constructor
  · intro hse he hlen hu
    have hbrk : ∃ b', b.unsafeToBreak s (some e) = .ok b' ∧ AllMask NoTatweel b'.info ∧ b'.out = b.out ∧ b'.flags = b.flags := by
      obtain ⟨b', hr, h1, h2, h3, _⟩ := setGlyphFlags_in_allMask NoTatweel b _ s e true p3 hse he hlen hu hin
      exact ⟨b', hr, h1, h2, h3⟩
    refine ⟨hbrk, ?_, ?_⟩
    · by_cases hc : (b.flags &&& Gen.Buf.produceUnsafeToConcat == 0) = true
      · exact ⟨b, by simp only [Buf.unsafeToConcat, hc, if_true]; rfl, hin, rfl, rfl⟩
      · obtain ⟨b', hr, h1, h2, h3, _⟩ := setGlyphFlags_in_allMask NoTatweel b _ s e false p2 hse he hlen hu hin
        exact ⟨b', by simp only [Buf.unsafeToConcat, hc, if_false]; exact hr, h1, h2, h3⟩
    · obtain ⟨b', hr, h1, h2, h3⟩ := hbrk
      exact ⟨b', by simp only [Buf.safeToInsertTatweel, hreq, if_true]; exact hr, h1, h2, h3⟩
  · intro hho hs hol hie he hlen hu1 hu2 hne
    constructor
    · obtain ⟨b', hr, h1, h2, h3, _⟩ :=
        setGlyphFlags_out_allMask NoTatweel b _ s e true p3 hho hs hol hie he hlen hu1 hu2 hne hin hout
      exact ⟨b', hr, h1, h2, h3⟩
    · by_cases hc : (b.flags &&& Gen.Buf.produceUnsafeToConcat == 0) = true
      · exact ⟨b, by simp only [Buf.unsafeToConcatFromOut, hc, if_true]; rfl, hin, hout, rfl⟩
      · obtain ⟨b', hr, h1, h2, h3, _⟩ :=
          setGlyphFlags_out_allMask NoTatweel b _ s e false p2 hho hs hol hie he hlen hu1 hu2 hne hin hout
        exact ⟨b', by simp only [Buf.unsafeToConcatFromOut, hc, if_false]; exact hr, h1, h2, h3⟩

example : ∃ b : Buf, (b.flags &&& Gen.Buf.produceSafeToInsertTatweel == 0) = true ∧ AllMask NoTatweel b.info ∧ AllMask NoTatweel b.out :=
  ⟨{ flags := 0x40 }, by decide, fun j x hx => by simp at hx, fun j x hx => by simp at hx⟩


/-- **UNSAFE_TO_CONCAT survives the removal of a default ignorable** (`delete_glyphs_inplace`, "Merge cluster backward": what
    `hide_default_ignorables` runs on a font without a space glyph after the final reversal of a right-to-left run).  One
    iteration of the loop, read head `i`, write head `j`: the glyph `x = info[i]` is deleted (`var2 = 1` is the model's filter),
    is alone in its cluster and the last kept glyph `p = info[j-1]` has a larger cluster value.  Then the run `[k, j)` of kept
    glyphs that takes over `x`'s cluster value exposes UNSAFE_TO_CONCAT **iff the deleted glyph did** (likewise UNSAFE_TO_BREAK):
    the boundary at the start of `x`'s cluster is still there and keeps its flag — a span that ended exactly on the ignorable
    (a ligature attempt failing at a ZWNJ) stays visible.  If `x` satisfied BREAK ⇒ CONCAT, so do the renamed glyphs; no glyph
    outside `[k, j)` changes.  Every buffer, position, level, mask content. -/
theorem C04_delin_backward_keeps_concat (b : Buf) (i j fuel : Nat) (x p : Info) (hi : i < b.len)
    (hlen : b.len ≤ b.info.length) (hji : j ≤ i) (hj : j ≠ 0)
    (hx : b.info[i]? = some x) (hdel : x.var2 = 1) (hp : b.info[j - 1]? = some p)
    (hnext : ∀ nx, i + 1 < b.len → b.info[i + 1]? = some nx → nx.cluster ≠ x.cluster)
    (hlt : x.cluster < p.cluster) :
    ∃ info k, Buf.deleteGlyphsInplace.loop b i j (fuel + 1) = Buf.deleteGlyphsInplace.loop { b with info := info } (i + 1) j fuel ∧
      k < j ∧ (∀ q, ¬ (k ≤ q ∧ q < j) → info[q]? = b.info[q]?) ∧
      ∀ q y', k ≤ q → q < j → info[q]? = some y' →
        y'.cluster = x.cluster ∧
        (exposed y' &&& Flag.UNSAFE_TO_CONCAT ≠ 0 ↔ x.mask &&& Flag.UNSAFE_TO_CONCAT ≠ 0) ∧
        (exposed y' &&& Flag.UNSAFE_TO_BREAK ≠ 0 ↔ x.mask &&& Flag.UNSAFE_TO_BREAK ≠ 0) ∧
        (BreakHasConcat x.mask → BreakHasConcat y'.mask) := by
  obtain ⟨info, k, heq, hk, _, _, hout, _, hfl⟩ :=
    Buf.delin_backward_carries b i j fuel x p hi hlen hji hj hx hdel hp hnext hlt
  refine ⟨info, k, heq, hk, hout, ?_⟩
  intro q y' h1 h2 hy'
  obtain ⟨hc, he⟩ := hfl q y' h1 h2 hy'
  have e2 : y'.mask &&& 2 = x.mask &&& 2 := by
    have h := congrArg (· &&& 2) he
    simp only [exposed_bit _ 2 (by decide)] at h
    exact h
  have e1 : y'.mask &&& 1 = x.mask &&& 1 := by
    have h := congrArg (· &&& 1) he
    simp only [exposed_bit _ 1 (by decide)] at h
    exact h
  refine ⟨hc, ?_, ?_, ?_⟩
  · rw [exposed_bit _ _ (by decide)]; show y'.mask &&& 2 ≠ 0 ↔ x.mask &&& 2 ≠ 0; rw [e2]
  · rw [exposed_bit _ _ (by decide)]; show y'.mask &&& 1 ≠ 0 ↔ x.mask &&& 1 ≠ 0; rw [e1]
  · intro hb
    unfold BreakHasConcat at hb ⊢
    rw [e1, e2]; exact hb

example : ∃ (b : Buf) (i j : Nat) (x p : Info), i < b.len ∧ b.len ≤ b.info.length ∧ j ≤ i ∧ j ≠ 0 ∧ b.info[i]? = some x ∧
    x.var2 = 1 ∧ b.info[j - 1]? = some p ∧
    (∀ nx, i + 1 < b.len → b.info[i + 1]? = some nx → nx.cluster ≠ x.cluster) ∧ x.cluster < p.cluster := by
  refine ⟨{ info := [{ gid := 3, cluster := 3 }, { gid := 2, cluster := 2 }, { gid := 0, cluster := 1, mask := 2, var2 := 1 },
                     { gid := 1, cluster := 0, mask := 2 }], len := 4 }, 2, 2,
          { gid := 0, cluster := 1, mask := 2, var2 := 1 }, { gid := 2, cluster := 2 }, by decide, by decide, by decide, by decide,
          rfl, rfl, rfl, ?_, by decide⟩
  intro nx _ h
  simp at h
  subst h
  decide

end RbModel.Flags


/-! ### CONCAT soundness at the call sites of the GSUB matching machinery: a rule that DECLINES flags what it inspected

  Same instruments as in Props/C03.lean (`matchInputI`, `chainMatchI`: the model's matchers returning the glyphs they READ;
  `C03_match_instrumented_same`: nothing new is trusted).  When a contextual rule / a ligature declines, the reason may be any
  glyph it looked at — changing the text there can make the rule apply — so the span passed to `unsafe_to_concat*` has to cover
  the reads "up to and including the glyph that made it fail".  Proved below, path by path, for what the code does:

  * match_input fails in the skipping iterator (`why = iter`: mismatch, or the buffer / the syllable ended): `end_position` is
    the iterator's `unsafe_to` = index of the stop glyph + 1, the span `[idx, end_position)` covers every read;
  * match_input fails in the ligature-component rules (`why = ligComp`): `end_position` = index of the declining glyph + 1.
    REPAIRED: on the pinned tree the two `return false` of that block did not write `*end_position`, the callers passed the
    initial 0 and `unsafe_to_concat(idx, 0)` flagged nothing (chain rules: `max(0, idx)`, the empty span) — found here as the
    one path whose span provably did not cover its reads, reproduced on the crate (redistribution sentence violated), repaired
    by "fix: match_input left end_position unset when it declined in the ligature-component rules"; `C04_ligcomp_fail_flagged`
    is the regression witness (HarfBuzz's match_input still has the two bare returns);
  * the lookahead fails: `end_index` = the lookahead iterator's `unsafe_to`, `[idx, end_index)` covers input and lookahead reads;
  * the backtrack fails: `unsafe_to_concat_from_outbuffer(start_index, end_index)`, `start_index` = the backward iterator's
    `unsafe_from`, covers backtrack, input and lookahead reads;
  * `count > MAX_CONTEXT_LENGTH`: nothing was read.

  The flag statements need PRODUCE_UNSAFE_TO_CONCAT to be requested (otherwise `unsafe_to_concat` is a no-op by design). -/
namespace RbModel.Flags
open RbModel RbModel.Gsub

/-- **a context rule that declined flagged everything it inspected — the common form of Context formats 1, 2 and 3**
    ("match_input with `fn` over `n` further glyphs, then `contextFinish`").  When it returns `(c', false)`: match_input failed
    with reads `R.reads`, the only effect is `unsafe_to_concat(idx, end_position)`; unless it failed at the length test
    (nothing read) `idx < end_position ≤ len`, the current glyph is among the reads, and every in-buffer glyph read — the
    skipped ones and the one that stopped the matcher, in the iterator as well as in the ligature-component rules — lies in
    `[idx, end_position)` and carries UNSAFE_TO_CONCAT afterwards (`ConcatFlagged`: the old glyph with `mask |= CONCAT`).
    Every font, rule, buffer; no monotonicity needed. -/
theorem C04_contextI_fail_flags_inspected (recurse : Ctx → Nat → M (Ctx × Bool)) (c c' : Ctx) (n : Nat)
    (fn : Nat → Nat → Bool) (lookups : List Rec)
    (h : (matchInputI c n fn [0, 0, 0, 0] >>= contextFinish recurse c n lookups) = .ok (c', false))
    (hidx : c.buf.idx < c.buf.len) (hlen : c.buf.len ≤ c.buf.info.length)
    (hreq : c.buf.flags &&& Gen.Buf.produceUnsafeToConcat ≠ 0) :
    ∃ (R : MatchInI),
      matchInputI c n fn [0, 0, 0, 0] = .ok R ∧ R.r.ok = false ∧
      c.buf.unsafeToConcat c.buf.idx (some R.r.endPos) = .ok c'.buf ∧ c' = { c with buf := c'.buf } ∧
      (R.why ≠ .tooLong → c.buf.idx < R.r.endPos ∧ R.r.endPos ≤ c.buf.len ∧ Rd.inp c.buf.idx ∈ R.reads ∧
        ∀ i, Rd.inp i ∈ R.reads → c.buf.idx ≤ i ∧ i < R.r.endPos ∧
          ∃ x, c.buf.info[i]? = some x ∧ ConcatFlagged c'.buf.info i x) ∧
      (R.why = .tooLong → R.reads = []) ∧
      R.why ≠ .matched ∧ (∀ j, Rd.out j ∉ R.reads) ∧ (∀ j, Rd.lig j ∈ R.reads → j < c.buf.outLen) := by
  cases hR : matchInputI c n fn [0, 0, 0, 0] with
  | error e => simp only [hR, bind, Except.bind] at h; cases h
  | ok R =>
    simp only [hR, bind, Except.bind, contextFinish] at h
    cases hok : R.r.ok with
    | true =>
      simp only [hok, if_true] at h
      cases hb : c.buf.unsafeToBreak c.buf.idx (some R.r.endPos) with
      | error e => simp [hb] at h
      | ok b =>
        simp only [hb] at h
        cases hal : applyLookup recurse { c with buf := b } n R.r.positions R.r.endPos lookups with
        | error e => simp [hal] at h
        | ok c2 => simp [hal, pure, Except.pure] at h
    | false =>
      simp only [hok, Bool.false_eq_true, if_false] at h
      cases hb : c.buf.unsafeToConcat c.buf.idx (some R.r.endPos) with
      | error e => simp [hb] at h
      | ok b =>
        simp only [hb, pure, Except.pure, Except.ok.injEq, Prod.mk.injEq, and_true] at h
        subst h
        exact ⟨R, rfl, hok, hb, rfl, matchFail_flags c _ _ _ R b hR hok hb hidx hlen hreq⟩

/-- **a context rule that declined flagged everything it inspected** (`apply_context`, Context formats 1 and 2): the instance
    of `C04_contextI_fail_flags_inspected` for `applyContextRule`. -/
theorem C04_context_fail_flags_inspected (recurse : Ctx → Nat → M (Ctx × Bool)) (c c' : Ctx) (input : List Nat)
    (matchFn : Nat → Nat → Bool) (lookups : List Rec)
    (h : applyContextRule recurse c input matchFn lookups = .ok (c', false))
    (hidx : c.buf.idx < c.buf.len) (hlen : c.buf.len ≤ c.buf.info.length)
    (hreq : c.buf.flags &&& Gen.Buf.produceUnsafeToConcat ≠ 0) :
    ∃ (R : MatchInI),
      matchInputI c input.length (fun g i => matchFn g (input.getD i 0)) [0, 0, 0, 0] = .ok R ∧ R.r.ok = false ∧
      c.buf.unsafeToConcat c.buf.idx (some R.r.endPos) = .ok c'.buf ∧ c' = { c with buf := c'.buf } ∧
      (R.why ≠ .tooLong → c.buf.idx < R.r.endPos ∧ R.r.endPos ≤ c.buf.len ∧ Rd.inp c.buf.idx ∈ R.reads ∧
        ∀ i, Rd.inp i ∈ R.reads → c.buf.idx ≤ i ∧ i < R.r.endPos ∧
          ∃ x, c.buf.info[i]? = some x ∧ ConcatFlagged c'.buf.info i x) ∧
      (R.why = .tooLong → R.reads = []) ∧
      R.why ≠ .matched ∧ (∀ j, Rd.out j ∉ R.reads) ∧ (∀ j, Rd.lig j ∈ R.reads → j < c.buf.outLen) := by
  rw [applyContextRule_eq] at h
  exact C04_contextI_fail_flags_inspected recurse c c' _ _ lookups h hidx hlen hreq

/-- **a Context format 3 subtable that declined**: either the current glyph is not covered (nothing but the current glyph was
    looked at, nothing changes: `c' = c`), or it is the instance of `C04_contextI_fail_flags_inspected` for the inline code of
    format 3 (`C03_context3_instrumented_same`). -/
theorem C04_context3_fail_flags_inspected (recurse : Ctx → Nat → M (Ctx × Bool)) (nf : Bool) (c c' : Ctx) (cov : Cov)
    (restCovs : List Cov) (lookups : List Rec)
    (h : applySubtable recurse nf c (.context3 (cov :: restCovs) lookups) = .ok (c', false))
    (hidx : c.buf.idx < c.buf.len) (hlen : c.buf.len ≤ c.buf.info.length)
    (hreq : c.buf.flags &&& Gen.Buf.produceUnsafeToConcat ≠ 0) :
    (c' = c ∧ ∃ cur, c.buf.info[c.buf.idx]? = some cur ∧ cov.index (cur.gid % 65536) = none) ∨
    ∃ (R : MatchInI),
      matchInputI c restCovs.length (fun g i => nthCov restCovs i g) [0, 0, 0, 0] = .ok R ∧ R.r.ok = false ∧
      c.buf.unsafeToConcat c.buf.idx (some R.r.endPos) = .ok c'.buf ∧ c' = { c with buf := c'.buf } ∧
      (R.why ≠ .tooLong → c.buf.idx < R.r.endPos ∧ R.r.endPos ≤ c.buf.len ∧ Rd.inp c.buf.idx ∈ R.reads ∧
        ∀ i, Rd.inp i ∈ R.reads → c.buf.idx ≤ i ∧ i < R.r.endPos ∧
          ∃ x, c.buf.info[i]? = some x ∧ ConcatFlagged c'.buf.info i x) ∧
      (R.why = .tooLong → R.reads = []) ∧
      R.why ≠ .matched ∧ (∀ j, Rd.out j ∉ R.reads) ∧ (∀ j, Rd.lig j ∈ R.reads → j < c.buf.outLen) := by
  rw [context3_eq] at h
  cases hg : Mem.get c.buf.info c.buf.idx with
  | error e => simp only [hg, bind, Except.bind] at h; cases h
  | ok cur =>
    simp only [hg, bind, Except.bind] at h
    cases hc : cov.index (cur.gid % 65536) with
    | none =>
      simp only [hc, pure, Except.pure, Except.ok.injEq, Prod.mk.injEq, and_true] at h
      exact Or.inl ⟨h.symm, cur, Mem.get_eq_ok hg, hc⟩
    | some i =>
      simp only [hc] at h
      exact Or.inr (C04_contextI_fail_flags_inspected recurse c c' _ _ lookups h hidx hlen hreq)

-- non-vacuity: the rule "1 (marks ignored) 3" on glyphs 5 | 1 mark 2 3 declines AT glyph 2 (index 3); reads = [1, 2, 3] =
-- current glyph, skipped mark, stop glyph; all three get UNSAFE_TO_CONCAT
example : (matchInputI spanCtx 1 (fun g i => g == [3].getD i 0) [0, 0, 0, 0]).map MatchInI.view
    = .ok (false, 4, [.inp 1, .inp 2, .inp 3], .iter) := by rfl
example : ∃ c', applyContextRule spanNoRecurse spanCtx [3] (fun g v => g == v) [] = .ok (c', false) ∧
    c'.buf.info.map (·.mask) = [1, 3, 3, 3, 1] ∧
    spanCtx.buf.idx < spanCtx.buf.len ∧ spanCtx.buf.len ≤ spanCtx.buf.info.length ∧
    spanCtx.buf.flags &&& Gen.Buf.produceUnsafeToConcat ≠ 0 :=
  ⟨_, rfl, rfl, by decide, by decide, by decide⟩
example : ∃ c', applySubtable spanNoRecurse true spanCtx (.context3 [[1], [3]] []) = .ok (c', false) ∧
    c'.buf.info.map (·.mask) = [1, 3, 3, 3, 1] := ⟨_, rfl, rfl⟩

/-- **Ligature::apply, a ligature that declines** (`comps` non-empty): the same statement as for a context rule -/
theorem C04_ligature_fail_flags_inspected (c c' : Ctx) (comps : List Nat) (lig : Nat) (hne : comps.isEmpty = false)
    (h : ligatureRule c (comps, lig) = .ok (c', false))
    (hidx : c.buf.idx < c.buf.len) (hlen : c.buf.len ≤ c.buf.info.length)
    (hreq : c.buf.flags &&& Gen.Buf.produceUnsafeToConcat ≠ 0) :
    ∃ (R : MatchInI),
      matchInputI c comps.length (fun g i => g == comps.getD i 0) [0, 0, 0, 0] = .ok R ∧ R.r.ok = false ∧
      c.buf.unsafeToConcat c.buf.idx (some R.r.endPos) = .ok c'.buf ∧ c' = { c with buf := c'.buf } ∧
      (R.why ≠ .tooLong → c.buf.idx < R.r.endPos ∧ R.r.endPos ≤ c.buf.len ∧ Rd.inp c.buf.idx ∈ R.reads ∧
        ∀ i, Rd.inp i ∈ R.reads → c.buf.idx ≤ i ∧ i < R.r.endPos ∧
          ∃ x, c.buf.info[i]? = some x ∧ ConcatFlagged c'.buf.info i x) ∧
      (R.why = .tooLong → R.reads = []) ∧
      R.why ≠ .matched ∧ (∀ j, Rd.out j ∉ R.reads) ∧ (∀ j, Rd.lig j ∈ R.reads → j < c.buf.outLen) := by
  rw [ligatureRule_eq c (comps, lig) hne] at h
  cases hR : matchInputI c comps.length (fun g i => g == comps.getD i 0) [0, 0, 0, 0] with
  | error e => simp only [hR, bind, Except.bind] at h; cases h
  | ok R =>
    simp only [hR, bind, Except.bind, ligatureFinish] at h
    cases hok : R.r.ok with
    | true =>
      simp only [hok, Bool.not_true, Bool.false_eq_true, if_false] at h
      cases hl : ligateInput c (comps.length + 1) R.r.positions R.r.endPos R.r.totalComps lig with
      | error e => simp [hl] at h
      | ok c2 => simp [hl, pure, Except.pure] at h
    | false =>
      simp only [hok, Bool.not_false, if_true] at h
      cases hb : c.buf.unsafeToConcat c.buf.idx (some R.r.endPos) with
      | error e => simp [hb] at h
      | ok b =>
        simp only [hb, pure, Except.pure, Except.ok.injEq, Prod.mk.injEq, and_true] at h
        subst h
        exact ⟨R, rfl, hok, hb, rfl, matchFail_flags c _ _ _ R b hR hok hb hidx hlen hreq⟩

/-- **regression witness of the repaired ligature-component path** (was `known_C04_ligcomp_fail_unflagged`: `end_position` 0,
    masks unchanged).  Buffer x, LIG, M₁, M₂ where LIG is a ligature made earlier in the same run (lig_id 1), M₁ a mark that
    `ligate_input` attached to its first component (lig_id 1, lig_comp 1), M₂ the same mark glyph unattached; lookup flag
    IgnoreLigatures, ligature "x M -> 99", PRODUCE_UNSAFE_TO_CONCAT requested.  The matcher reads x, steps over LIG, reaches M₁
    and declines because M₁ belongs to another ligature — reads `[inp 0, inp 1, inp 2]` — and now reports `end_position` = 3:
    x, LIG and M₁ carry UNSAFE_TO_CONCAT (mask 1 -> 3), M₂ does not.  With M₁ unattached (third conjunct) the very same rule
    applies: the decision depended on glyph 2, which is flagged now.
    On the crate (fontbuild recipe `flagslib.WITNESS_FONTS["ligcomp-concat"]`: 7 glyphs, cmap a b c d -> 1 2 3 4, GDEF classes
    1:1 2:1 3:1 4:3 5:2 6:1, feature ccmp = [ligature flag 8 cov [2] comps [3] -> 5, ligature flag 4 cov [1] comps [4] -> 6];
    text `abdcd`, request `shape W0 l Latn - 64 0 - - - 61:0,62:1,64:2,63:3,64:4`): before the repair the whole text gave
    1 5 4 4 with NO glyph flag and the even text `61:0,64:4` of the redistribution gave the single glyph 6; after it the
    clusters 0 and 1 carry UNSAFE_TO_CONCAT and the redistribution experiment passes (permanent case of
    `concat-redistribution-synth`). -/
theorem C04_ligcomp_fail_flagged :
    (matchInputI (spanLigCtx (8 + 33 * 65536)) 1 (fun g i => g == [10].getD i 0) [0, 0, 0, 0]).map MatchInI.view
      = .ok (false, 3, [.inp 0, .inp 1, .inp 2], .ligComp) ∧
    (ligatureRule (spanLigCtx (8 + 33 * 65536)) ([10], 99)).map (fun r => (r.1.buf.info.map (·.mask), r.2))
      = .ok ([3, 3, 3, 1], false) ∧
    (ligatureRule (spanLigCtx 8) ([10], 99)).map (fun r => ((r.1.buf.outArr.take r.1.buf.outLen).map (·.gid), r.2))
      = .ok ([99, 20], true) ∧
    (spanLigCtx (8 + 33 * 65536)).buf.flags &&& Gen.Buf.produceUnsafeToConcat ≠ 0 :=
  ⟨rfl, rfl, rfl, by decide⟩

-- non-vacuity of C04_ligature_fail_flags_inspected, on its ligComp branch
example : ∃ c', ligatureRule (spanLigCtx (8 + 33 * 65536)) ([10], 99) = .ok (c', false) ∧
    (spanLigCtx (8 + 33 * 65536)).buf.idx < (spanLigCtx (8 + 33 * 65536)).buf.len ∧
    (spanLigCtx (8 + 33 * 65536)).buf.len ≤ (spanLigCtx (8 + 33 * 65536)).buf.info.length :=
  ⟨_, rfl, by decide, by decide⟩

/-- **a chain rule that declined flagged everything it inspected** (`apply_chain_context`, ChainContext formats 1-3; forward
    GSUB pass: `have_output`).  When the rule returns `(c', false)` the matching phase `chainMatchI` ended with one of three
    verdicts:
    * `inputFail` / `aheadFail`: the only effect is `unsafe_to_concat(idx, end_index)` with `end_index = max(end_position, idx)`
      resp. the lookahead iterator's `unsafe_to`; every glyph read by match_input and match_lookahead lies in `[idx, end_index)`
      and carries UNSAFE_TO_CONCAT afterwards (the ligature-component path of match_input included);
    * `backFail`: the only effect is `unsafe_to_concat_from_outbuffer(start_index, end_index)`; every glyph read by match_input
      and match_lookahead lies in `info[idx, end_index)`, every glyph read by match_backtrack in `out[start_index, out_len)`, and
      all of them carry UNSAFE_TO_CONCAT afterwards (both output modes).
    Every font, rule, well-formed buffer; no monotonicity needed. -/
theorem C04_chain_fail_flags_inspected (recurse : Ctx → Nat → M (Ctx × Bool)) (c c' : Ctx) (nBack nIn nAhead : Nat)
    (fBack fIn fAhead : Nat → Nat → Bool) (lookups : List Rec)
    (h : applyChainRule recurse c nBack nIn nAhead fBack fIn fAhead lookups = .ok (c', false))
    (hidx : c.buf.idx < c.buf.len) (hwf : Buf.WF c.buf) (hho : c.buf.haveOutput = true)
    (hreq : c.buf.flags &&& Gen.Buf.produceUnsafeToConcat ≠ 0) :
    ∃ (m : ChainM),
      chainMatchI c nBack nIn nAhead fBack fIn fAhead = .ok m ∧ m.verdict ≠ .matched ∧ c' = { c with buf := c'.buf } ∧
      c.buf.idx ≤ m.endIndex ∧ m.endIndex ≤ c.buf.len ∧
      (m.verdict = .inputFail ∨ m.verdict = .aheadFail →
        c.buf.unsafeToConcat c.buf.idx (some m.endIndex) = .ok c'.buf ∧
        ∀ i, Rd.inp i ∈ m.reads → c.buf.idx ≤ i ∧ i < m.endIndex ∧
          ∃ x, c.buf.info[i]? = some x ∧ ConcatFlagged c'.buf.info i x) ∧
      (m.verdict = .backFail →
        m.startIndex ≤ c.buf.outLen ∧
        c.buf.unsafeToConcatFromOut m.startIndex (some m.endIndex) = .ok c'.buf ∧
        (∀ i, Rd.inp i ∈ m.reads → c.buf.idx ≤ i ∧ i < m.endIndex ∧
            ∃ x, c.buf.info[i]? = some x ∧ ConcatFlagged c'.buf.info i x) ∧
        (∀ j, Rd.out j ∈ m.reads → m.startIndex ≤ j ∧ j < c.buf.outLen ∧
            ∃ x, c.buf.outArr[j]? = some x ∧ ConcatFlagged c'.buf.outArr j x)) ∧
      (∀ j, Rd.out j ∈ m.reads → m.verdict = .backFail) ∧
      (∀ j, Rd.lig j ∈ m.reads → j < c.buf.outLen) := by
  rw [applyChainRule_eq] at h
  cases hm : chainMatchI c nBack nIn nAhead fBack fIn fAhead with
  | error e => simp only [hm, bind, Except.bind] at h; cases h
  | ok m =>
    obtain ⟨s0, s1, s3, s4, s5, s6, s7⟩ := chainMatchI_span c _ _ _ _ _ _ m hm hidx
    simp only [hm, bind, Except.bind, chainFinish] at h
    have hbl : backtrackLen c.buf = c.buf.outLen := by simp [backtrackLen, hho]
    have hlig : ∀ j, Rd.lig j ∈ m.reads → j < c.buf.outLen := by
      intro j hj
      rcases s7 _ hj with ⟨i', a1, _⟩ | ⟨j', a1, _⟩ | ⟨j', a1, a2⟩
      · cases a1
      · cases a1
      · cases a1; exact a2
    have hout : ∀ j, Rd.out j ∈ m.reads → m.verdict = .backFail ∨ m.verdict = .matched := by
      intro j hj
      rcases s7 _ hj with ⟨i', a1, _⟩ | ⟨j', a1, a2, _⟩ | ⟨j', a1, _⟩
      · cases a1
      · exact a2
      · cases a1
    have hreq' : ¬ (c.buf.flags &&& Gen.Buf.produceUnsafeToConcat == 0) = true := by simpa using hreq
    cases hv : m.verdict with
    | inputFail | aheadFail =>
      simp only [hv] at h
      cases hb : c.buf.unsafeToConcat c.buf.idx (some m.endIndex) with
      | error e => simp [hb] at h
      | ok b =>
        simp only [hb, pure, Except.pure, Except.ok.injEq, Prod.mk.injEq, and_true] at h
        subst h
        obtain ⟨b', hb', hu, _⟩ := unsafeToConcat_span c.buf c.buf.idx m.endIndex hreq s3 s4 hwf.len_le
        rw [hb] at hb'; cases hb'
        refine ⟨m, rfl, by simp [hv], rfl, s3, s4, fun _ => ⟨hb, ?_⟩, fun hvv => ?_, fun j hj => ?_, hlig⟩
        · intro i hi
          rcases s7 _ hi with ⟨i', a1, a2, a3, a4⟩ | ⟨j, a1, _⟩ | ⟨j, a1, _⟩
          · cases a1
            have hil : i < c.buf.info.length := by have := hwf.len_le; omega
            exact ⟨a2, a4, _, List.getElem?_eq_getElem hil, ConcatFlagged.of_upd hu (List.getElem?_eq_getElem hil) a2 a4⟩
          · cases a1
          · cases a1
        · rw [hv] at hvv; cases hvv
        · have := hout j hj; rw [hv] at this; rcases this with t | t <;> cases t
    | backFail =>
      simp only [hv] at h
      have hst : m.startIndex ≤ c.buf.outLen := by rw [← hbl]; exact s6 (Or.inl hv)
      obtain ⟨b', o1, hb', U1, U2, hout', hbb⟩ :=
        setGlyphFlags_plain_out c.buf Flag.UNSAFE_TO_CONCAT m.startIndex m.endIndex hho hst hwf.out_cap s3 s4 hwf.len_le
      have hcall : c.buf.unsafeToConcatFromOut m.startIndex (some m.endIndex) = .ok b' := by
        unfold Buf.unsafeToConcatFromOut
        rw [if_neg hreq', hb']
      have hsep : b'.sepOut = c.buf.sepOut := by rw [hbb]
      obtain ⟨t1, t2⟩ := twoSided_at U1 U2 hout' hsep hwf.nosep_ok
      simp only [hcall, pure, Except.pure, Except.ok.injEq, Prod.mk.injEq, and_true] at h
      subst h
      refine ⟨m, rfl, by simp [hv], rfl, s3, s4, fun hvv => ?_, fun _ => ⟨hst, hcall, ?_, ?_⟩, fun _ _ => hv, hlig⟩
      · rw [hv] at hvv; rcases hvv with hvv | hvv <;> cases hvv
      · intro i hi
        rcases s7 _ hi with ⟨i', a1, a2, a3, a4⟩ | ⟨j, a1, _⟩ | ⟨j, a1, _⟩
        · cases a1
          have hil : i < c.buf.info.length := by have := hwf.len_le; omega
          exact ⟨a2, a4, _, List.getElem?_eq_getElem hil,
            ConcatFlagged.of_eq (t1 i _ a2 a4 (List.getElem?_eq_getElem hil))⟩
        · cases a1
        · cases a1
      · intro j hj
        rcases s7 _ hj with ⟨i', a1, _⟩ | ⟨j', a1, _, a3, a4⟩ | ⟨j', a1, _⟩
        · cases a1
        · cases a1
          rw [hbl] at a4
          have hjl : j < c.buf.outArr.length := by have := hwf.out_cap; omega
          exact ⟨a3, a4, _, List.getElem?_eq_getElem hjl,
            ConcatFlagged.of_eq (t2 j _ a3 a4 (List.getElem?_eq_getElem hjl))⟩
        · cases a1
    | matched =>
      simp only [hv] at h
      cases hb : c.buf.unsafeToBreakFromOut m.startIndex (some m.endIndex) with
      | error e => simp [hb] at h
      | ok b =>
        simp only [hb] at h
        cases hal : applyLookup recurse { c with buf := b } nIn m.R.r.positions m.R.r.endPos lookups with
        | error e => simp [hal] at h
        | ok c2 => simp [hal, pure, Except.pure] at h

-- non-vacuity: backtrack mismatch (9 wanted, 5 found): verdict backFail, span out[0, 1) ++ info[1, 5), reads = input
-- [1, 2, 3] + lookahead [4] + backtrack out[0] (the glyph that made it fail); the whole buffer gets UNSAFE_TO_CONCAT
example : (chainMatchI spanCtx 1 1 1 (fun g _ => g == 9) (fun g _ => g == 2) (fun g _ => g == 3)).map ChainM.view
    = .ok (.backFail, 0, 5, [.inp 1, .inp 2, .inp 3, .inp 4, .out 0]) := by rfl
-- lookahead mismatch: reads = input [1, 2, 3] + the lookahead glyph that made it fail [4]
example : (chainMatchI spanCtx 1 1 1 (fun g _ => g == 5) (fun g _ => g == 2) (fun g _ => g == 9)).map ChainM.view
    = .ok (.aheadFail, 0, 5, [.inp 1, .inp 2, .inp 3, .inp 4]) := by rfl
example : ∃ c', applyChainRule spanNoRecurse spanCtx 1 1 1 (fun g _ => g == 9) (fun g _ => g == 2) (fun g _ => g == 3) []
      = .ok (c', false) ∧ c'.buf.info.map (·.mask) = [3, 3, 3, 3, 3] ∧
    spanCtx.buf.idx < spanCtx.buf.len ∧ Buf.WF spanCtx.buf ∧ spanCtx.buf.haveOutput = true ∧
    spanCtx.buf.flags &&& Gen.Buf.produceUnsafeToConcat ≠ 0 :=
  ⟨_, rfl, rfl, by decide, ⟨by decide, by decide, by simp [spanCtx], by decide⟩, rfl, by decide⟩

end RbModel.Flags

/-! ### the reverse-chaining subtable that declines -/
namespace RbModel.Flags
open RbModel RbModel.Gsub

/-- **a reverse-chaining substitution that declined flagged what it inspected** (ReverseChainSingleSubst::apply after the
    coverage test, no out-buffer as for every reverse lookup; `reverseRule_eq` / `C03_ligature_reverse_instrumented_same` is the
    equation with the subtable).  When it returns `(c', false)` the only effect is
    `unsafe_to_concat_from_outbuffer(start_index, end_index)`: on a backtrack failure `start_index` is the backward iterator's
    `unsafe_from` and `end_index = idx + 1` (the lookahead is not run); on a lookahead failure `end_index` is the forward
    iterator's `unsafe_to`.  Every glyph read — current glyph, backtrack glyphs `[start_index, idx)`, lookahead glyphs
    `(idx, end_index)`, the skipped ones and the one that made it fail — carries UNSAFE_TO_CONCAT afterwards.
    No ligature-component path exists here (match_input is not used).  Every font, subtable, buffer. -/
theorem C04_reverse_fail_flags_inspected (c c' : Ctx) (back ahead : List Cov) (s : Nat)
    (h : (revMatchI c back ahead >>= revFinish c s) = .ok (c', false))
    (hidx : c.buf.idx < c.buf.len) (hlen : c.buf.len ≤ c.buf.info.length) (hho : c.buf.haveOutput = false)
    (hso : c.buf.sepOut = false)
    (hreq : c.buf.flags &&& Gen.Buf.produceUnsafeToConcat ≠ 0) :
    ∃ (st e : Nat) (rs : List Rd),
      revMatchI c back ahead = .ok (false, st, e, rs) ∧ c.buf.outArr = c.buf.info ∧ st ≤ c.buf.idx ∧ c.buf.idx < e ∧ e ≤ c.buf.len ∧
      c.buf.unsafeToConcatFromOut st (some e) = .ok c'.buf ∧ c' = { c with buf := c'.buf } ∧
      ∀ x ∈ rs, RevRead c st e (fun i y => ConcatFlagged c'.buf.info i y) x := by
  cases hm : revMatchI c back ahead with
  | error er => simp only [hm, bind, Except.bind] at h; cases h
  | ok v =>
    obtain ⟨ok, st, e, rs⟩ := v
    obtain ⟨s1, s2, s3, s4⟩ := revMatchI_span c back ahead ok st e rs hm hidx
    have hbl : backtrackLen c.buf = c.buf.idx := by simp [backtrackLen, hho]
    rw [hbl] at s1 s4
    simp only [hm, bind, Except.bind, revFinish] at h
    cases ok with
    | true =>
      simp only [if_true] at h
      cases hb : c.buf.unsafeToBreakFromOut st (some e) with
      | error er => simp [hb] at h
      | ok b =>
        simp only [hb] at h
        cases h1 : setGlyphClass { c with buf := b } s 0 false false with
        | error er => simp [h1] at h
        | ok c1 =>
          simp only [h1] at h
          cases h2 : Mem.get c1.buf.info c1.buf.idx with
          | error er => simp [h2] at h
          | ok cur =>
            simp only [h2] at h
            cases h3 : Mem.put c1.buf.info c1.buf.idx { cur with gid := s } with
            | error er => simp [h3] at h
            | ok inf => simp [h3, pure, Except.pure] at h
    | false =>
      obtain ⟨b', hb', hu, _⟩ := unsafeToConcat_span c.buf st e hreq (by omega) s3 hlen
      have hcall : c.buf.unsafeToConcatFromOut st (some e) = .ok b' := by
        have hreq' : ¬ (c.buf.flags &&& Gen.Buf.produceUnsafeToConcat == 0) = true := by simpa using hreq
        unfold Buf.unsafeToConcatFromOut
        rw [if_neg hreq', setGlyphFlags_plain_noOutput _ _ _ _ hho]
        unfold Buf.unsafeToConcat at hb'
        rw [if_neg hreq'] at hb'
        exact hb'
      simp only [Bool.false_eq_true, if_false, hcall, pure, Except.pure, Except.ok.injEq, Prod.mk.injEq, and_true] at h
      subst h
      refine ⟨st, e, rs, rfl, by simp [Buf.outArr, hso], s1, s2, s3, hcall, rfl, ?_⟩
      intro x hx
      rcases s4 x hx with ⟨i, a1, a2, a3⟩ | ⟨j, a1, a2, a3⟩
      · have hil : i < c.buf.info.length := by omega
        exact Or.inl ⟨i, _, a1, a2, a3, List.getElem?_eq_getElem hil,
          ConcatFlagged.of_upd hu (List.getElem?_eq_getElem hil) (by omega) a3⟩
      · have hjl : j < c.buf.info.length := by omega
        exact Or.inr ⟨j, _, a1, a2, a3, List.getElem?_eq_getElem hjl,
          ConcatFlagged.of_upd hu (List.getElem?_eq_getElem hjl) a2 (by omega)⟩

-- non-vacuity: the backtrack wants 9 and finds 5 (after stepping over the mark): reads = current glyph, out[1] (skipped mark),
-- out[0] (the glyph that made it fail); span [0, 3)
example : revMatchI spanRevCtx [[9]] [[3]] = .ok (false, 0, 3, [.inp 2, .out 1, .out 0]) := by rfl
example : ∃ c', (revMatchI spanRevCtx [[9]] [[3]] >>= revFinish spanRevCtx 7) = .ok (c', false) ∧
    c'.buf.info.map (·.mask) = [3, 3, 3, 1, 1] ∧
    spanRevCtx.buf.idx < spanRevCtx.buf.len ∧ spanRevCtx.buf.len ≤ spanRevCtx.buf.info.length ∧ spanRevCtx.buf.haveOutput = false ∧
    spanRevCtx.buf.sepOut = false ∧ spanRevCtx.buf.flags &&& Gen.Buf.produceUnsafeToConcat ≠ 0 :=
  ⟨_, rfl, rfl, by decide, by decide, rfl, rfl, by decide⟩

end RbModel.Flags


/-! ### a declining PairPos / a kern machine that finds no pair flags what it read (PairFlag.lean, Lemmas/PairSpan*.lean) -/
namespace RbModel.PairFlag
open RbModel RbModel.Gsub RbModel.GposFlag RbModel.Flags
open RbModel.Gpos (Pos Dir ValueRecordD pairApplyD)

/-- **(c) every path of `PairAdjustment::apply` that positions nothing, checked against the code** (PRODUCE_UNSAFE_TO_CONCAT
    requested; `rs` = the indices read, `why` = the path):
    * `uncovered` — `coverage().get(first)?`: only the current glyph was read; nothing changes, nothing is flagged (as for every
      lookup type: the coverage test of `cur(0)` is what `apply_forward` does for each subtable);
    * `noSecond` — `iter.next` fails: the call is `unsafe_to_concat(idx, unsafe_to)` with `unsafe_to` = one past the glyph
      that stopped the iterator (or `len`): EVERY glyph read — the skipped ones and the rejected one — lies in
      `[idx, unsafe_to)` and carries UNSAFE_TO_CONCAT afterwards;
    * `noRecord` — format 1: the pair is not in the PairSet; format 2: the class pair is outside the matrix: the call is
      `unsafe_to_concat(idx, j + 1)` with `j` = `iter.index()` = the inspected and rejected glyph, NOT `(idx, idx + 2)`; every
      glyph read, `j` included, is flagged;
    * `records` with no working record (empty records of a format 2 class pair, zero values: "boring"): the function returns
      `Some(())`, the call is `unsafe_to_concat(idx, j + 1)`, every glyph read is flagged, and stays flagged after `finish`;
    * `noSet` — format 1, `sets.get(coverage_index)?` fails (null / unreadable PairSet offset) AFTER the iterator ran and the
      second glyph was read: the function returns `None` and flags NOTHING although it read `(idx, j]` (HarfBuzz reads a Null
      PairSet, finds no pair and flags `[idx, j + 1)`).  Not a violation of the property: on this path nothing depends on what
      was read — whatever the other glyphs are, the result is "buffer and positions unchanged, `None`" (this conjunct), so no
      redistribution of the text can change the output; recorded in the report as a deviation from upstream, not a finding. -/
theorem C04_pairpos_fail_flags_inspected (c : Ctx) (p p' : Array Pos) (pd : PairData) (useX useY : Bool) (d : Dir)
    (b' : Buf) (ap : Bool) (h : pairPosApplyIt c p pd useX useY d = .ok (b', p', ap))
    (hidx : c.buf.idx < c.buf.len) (hlen : c.buf.len ≤ c.buf.info.length)
    (hu32 : ∀ k x, c.buf.idx ≤ k → k < c.buf.len → c.buf.info[k]? = some x → x.cluster ≤ U32MAX)
    (hreq : c.buf.flags &&& Gen.Buf.produceUnsafeToConcat ≠ 0) :
    ∃ found rs why, pairFindI c pd = .ok (found, rs, why) ∧
      pairPosApply c.buf p found useX useY d = .ok (b', p', ap) ∧
      (why = .uncovered → rs = [c.buf.idx] ∧ b' = c.buf ∧ p' = p ∧ ap = false) ∧
      (why = .noSet → b' = c.buf ∧ p' = p ∧ ap = false ∧ ∃ j, c.buf.idx < j ∧ j ∈ rs) ∧
      (why = .noSecond → ∃ u, found = .noSecond u ∧ PairSpan c u rs ∧
        c.buf.unsafeToConcat c.buf.idx (some u) = .ok b' ∧ p' = p ∧ ap = false ∧
        ∀ i ∈ rs, ∃ x, c.buf.info[i]? = some x ∧ ConcatFlagged b'.info i x) ∧
      (why = .noRecord → ∃ j, found = .noRecord j ∧ c.buf.idx < j ∧ j ∈ rs ∧ PairSpan c (j + 1) rs ∧
        c.buf.unsafeToConcat c.buf.idx (some (j + 1)) = .ok b' ∧ p' = p ∧ ap = false ∧
        ∀ i ∈ rs, ∃ x, c.buf.info[i]? = some x ∧ ConcatFlagged b'.info i x) ∧
      (why = .records → ∃ j v1 v2 f1 f2, found = .records j v1 v2 ∧ c.buf.idx < j ∧ j ∈ rs ∧ PairSpan c (j + 1) rs ∧
        liftG (pairApplyD v1 v2 useX useY d p c.buf.idx j) = .ok (p', f1, f2) ∧ ap = true ∧
        ((f1 || f2) = false →
          ∃ b1, c.buf.unsafeToConcat c.buf.idx (some (j + 1)) = .ok b1 ∧ pairFinish b1 j (!v2.isEmpty) = .ok b' ∧
            ∀ i ∈ rs, ∃ x, c.buf.info[i]? = some x ∧ ConcatFlagged b1.info i x ∧
              ∃ y, b'.info[i]? = some y ∧ y.cluster = x.cluster ∧ y.mask &&& Flag.UNSAFE_TO_CONCAT ≠ 0)) := by
  obtain ⟨found, rs, why, hF, _, hA⟩ := pairPosApplyIt_split c p p' pd useX useY d b' ap h
  obtain ⟨s1, s2, s3, s4, s5, s6, s7, s8⟩ := pairFindI_span c pd found rs why hF hidx
  refine ⟨found, rs, why, hF, hA, ?_, ?_, ?_, ?_, ?_⟩
  · intro hw
    obtain ⟨rfl, hrs⟩ := s1 hw
    obtain ⟨e1, e2, e3⟩ := pairPosApply_notCovered _ _ _ _ _ _ _ _ hA
    exact ⟨hrs, e1, e2, e3⟩
  · intro hw
    obtain ⟨rfl, j, hij, hjm, _⟩ := s3 hw
    obtain ⟨e1, e2, e3⟩ := pairPosApply_notCovered _ _ _ _ _ _ _ _ hA
    exact ⟨e1, e2, e3, j, hij, hjm⟩
  · intro hw
    obtain ⟨u, rfl, sp⟩ := s2 hw
    obtain ⟨e1, e2, e3⟩ := pairPosApply_noSecond _ _ _ _ _ _ _ _ _ hA
    exact ⟨u, rfl, sp, e1, e2, e3, (sp.concatFlagged e1 hlen hreq).2.2⟩
  · intro hw
    obtain ⟨j, rfl, hij, hjm, sp⟩ := s4 hw
    obtain ⟨e1, e2, e3⟩ := pairPosApply_noRecord _ _ _ _ _ _ _ _ _ hA
    exact ⟨j, rfl, hij, hjm, sp, e1, e2, e3, (sp.concatFlagged e1 hlen hreq).2.2⟩
  · intro hw
    obtain ⟨j, v1, v2, rfl, hij, hjm, sp⟩ := s5 hw
    obtain ⟨hap, f1, f2, hl, _, hco⟩ := pairPosApply_records _ _ _ _ _ _ _ _ _ _ _ hA
    refine ⟨j, v1, v2, f1, f2, rfl, hij, hjm, sp, hl, hap, ?_⟩
    intro hf
    obtain ⟨b1, hb1, hfin⟩ := hco hf
    obtain ⟨hb1', hg1, hfl⟩ := sp.concatFlagged hb1 hlen hreq
    have hidx1 : b1.idx = c.buf.idx := by rw [hb1']
    have hlen1 : b1.len = c.buf.len := by rw [hb1']
    obtain ⟨hg2, _⟩ := pairFinish_grown b1 b' j (!v2.isEmpty) hfin (by omega) (by have := sp.hi; omega)
      (by rw [hlen1, ← hg1.1] at *; exact hlen)
      (by rw [hidx1, hlen1]; exact hg1.u32 hu32)
    refine ⟨b1, hb1, hfin, ?_⟩
    intro i hi
    obtain ⟨x, hx, hcf⟩ := hfl i hi
    refine ⟨x, hx, hcf, ?_⟩
    obtain ⟨y, hy, hyeq, hym⟩ := hcf
    obtain ⟨z, hz, hzc, hzm⟩ := hg2.bit hy Flag.UNSAFE_TO_CONCAT hym
    exact ⟨z, hz, by rw [hzc, hyeq]; rfl, hzm⟩

-- non-vacuity: first 1 | mark | other 2 under IgnoreMarks, the PairSet has only (1, 3): the iterator steps over the mark, the
-- glyph inspected and rejected is index 2, the span is [0, 3) — all three glyphs get UNSAFE_TO_CONCAT ([0, 2) would miss it)
example : (pairPosApplyIt (spanPairCtx 64 2) spanPairPos spanPairData false false .ltr).map pairView
    = .ok ([258, 258, 258], 0, [600, 0, 500], false) := by rfl
example : (pairFindI (spanPairCtx 64 2) spanPairData).map (fun r => (r.2.1, r.2.2)) = .ok ([0, 1, 2], .noRecord) := by rfl
-- no second glyph at all (the mark is the last glyph): span [0, len)
example : (pairFindI { spanPairCtx 64 2 with buf := { (spanPairCtx 64 2).buf with len := 2 } } spanPairData).map
    (fun r => (r.2.1, r.2.2)) = .ok ([0, 1], .noSecond) := by rfl
example : (spanPairCtx 64 2).buf.idx < (spanPairCtx 64 2).buf.len ∧
    (spanPairCtx 64 2).buf.len ≤ (spanPairCtx 64 2).buf.info.length ∧
    (spanPairCtx 64 2).buf.flags &&& Gen.Buf.produceUnsafeToConcat ≠ 0 := ⟨by decide, by decide, by decide⟩

/-- **`machine_kern` flags the whole buffer UNSAFE_TO_CONCAT** (`buffer.unsafe_to_concat(None, None)` is its first
    statement; legacy kern has no per-pair concat call): when the flag is requested every glyph of `[0, len)` carries it at the
    end — in particular every glyph the iterator read on a path that kerned nothing. -/
theorem C04_kern_whole_buffer_concat (f : Font) (b : Buf) (p : Array Pos) (kernMask : Nat) (d : Dir) (cs : Bool)
    (kernOf : Nat → Nat → Int) (bF : Buf) (pF : Array Pos) (flF : Bool)
    (h : machineKernF f b p kernMask d cs kernOf = .ok (bF, pF, flF))
    (hlen : b.len ≤ b.info.length) (hu32 : ∀ q x, q < b.len → b.info[q]? = some x → x.cluster ≤ U32MAX)
    (hmono : MonoRange b.info 0 b.len) (hreq : b.flags &&& Gen.Buf.produceUnsafeToConcat ≠ 0) :
    ∀ q x, q < b.len → b.info[q]? = some x →
      ∃ y, bF.info[q]? = some y ∧ y.cluster = x.cluster ∧ y.mask &&& Flag.UNSAFE_TO_CONCAT ≠ 0 := by
  have he := machineKernFI_erase f b p kernMask d cs kernOf
  rw [h] at he
  cases hI : machineKernFI f b p kernMask d cs kernOf with
  | error e => rw [hI] at he; cases he
  | ok r =>
    obtain ⟨⟨bF', pF', flF'⟩, evs, iEnd⟩ := r
    rw [hI] at he
    simp only [Except.map, Except.ok.injEq, Prod.mk.injEq] at he
    obtain ⟨rfl, rfl, rfl⟩ := he
    unfold machineKernFI at hI
    cases h0 : b.unsafeToConcat 0 none with
    | error e => simp [h0] at hI
    | ok b0 =>
      simp only [h0] at hI
      obtain ⟨hg0, hc0⟩ := leadingConcat_spec b b0 h0 hlen
      obtain ⟨_, hg, _, _⟩ := kernEntry_spec false f kernMask _ cs kernOf b b0 p bF' pF' flF' evs iEnd hg0 hI ⟨hlen, hu32, hmono⟩
      intro q x hq hx
      obtain ⟨y, hy, hyeq, hym⟩ := hc0 hreq q x hq hx
      obtain ⟨z, hz, hzc, hzm⟩ := hg.2.bit hy Flag.UNSAFE_TO_CONCAT hym
      exact ⟨z, hz, by rw [hzc, hyeq]; rfl, hzm⟩

/-- **kerx simple formats: an iterator miss flags what it read**: `apply_simple_kerning` of aat_layout_kerx_table.rs calls
    `unsafe_to_concat(i, unsafe_to)` when `iter.next` fails; every index the iterator read lies in `(i, unsafe_to)` and every
    glyph of `[i, unsafe_to)` carries UNSAFE_TO_CONCAT at the end of the function (requested flag). -/
theorem C04_kerx_simple_miss_flags_inspected (lc : Bool) (f : Font) (b : Buf) (p : Array Pos) (kernMask : Nat) (d : Dir)
    (cs : Bool) (kernOf : Nat → Nat → Int) (bF : Buf) (pF : Array Pos) (flF : Bool) (evs : List KEvent) (iEnd : Nat)
    (h : kerxSimpleFI lc f b p kernMask d cs kernOf = .ok ((bF, pF, flF), evs, iEnd))
    (hlen : b.len ≤ b.info.length) (hu32 : ∀ q x, q < b.len → b.info[q]? = some x → x.cluster ≤ U32MAX)
    (hmono : MonoRange b.info 0 b.len) (hreq : b.flags &&& Gen.Buf.produceUnsafeToConcat ≠ 0) :
    ∀ e ∈ evs, e.found = false →
      e.kern = 0 ∧ e.i < e.stop ∧ e.stop ≤ b.len ∧ (∀ r ∈ e.reads, e.i < r ∧ r < e.stop) ∧
      ∀ q x, e.i ≤ q → q < e.stop → b.info[q]? = some x →
        ∃ y, bF.info[q]? = some y ∧ y.cluster = x.cluster ∧ y.mask &&& Flag.UNSAFE_TO_CONCAT ≠ 0 := by
  unfold kerxSimpleFI at h
  cases h0 : (if lc = true then b.unsafeToConcat 0 none else .ok b) with
  | error e => simp [h0] at h
  | ok b0 =>
    simp only [h0] at h
    have hg0 : BufGrown b b0 := by
      cases lc with
      | false => simp only [Bool.false_eq_true, if_false, Except.ok.injEq] at h0; subst h0; exact BufGrown.refl _
      | true => simp only [if_true] at h0; exact (leadingConcat_spec b b0 h0 hlen).1
    obtain ⟨_, _, _, hevs⟩ := kernEntry_spec true f kernMask _ cs kernOf b b0 p bF pF flF evs iEnd hg0 h ⟨hlen, hu32, hmono⟩
    intro e hm hf
    obtain ⟨_, a1, _⟩ := hevs e hm
    obtain ⟨c0, c1, c2, c3, c4⟩ := a1 hf
    exact ⟨c0, c1, c2, c3, c4 rfl hreq⟩

-- non-vacuity: the last base finds no partner: the event (3, [], false, 4, 0) of the examples in Props/C03.lean; here with a
-- trailing mark: the iterator reads it (index 2), runs off the buffer, and the span [1, 3) is flagged
example : (kerxSimpleFI false {}
      { info := [(1, 256, 2, 7, 0), (2, 256, 2, 7, 1), (9, 256, 8, 7, 2)].map infoK, len := 3, flags := 64 }
      #[{}, {}, {}] 256 .ltr false (fun _ _ => 0)).map kernView
    = .ok ([256, 258, 258], [0, 0, 0], [(0, [1], true, 1, 0), (1, [2], false, 3, 0), (2, [], false, 3, 0)], 3) := by rfl

/-- **the compiled crate flags the span the theorem says** (regenerated on every run, tools/gens/pairflag.py): PairPos
    format 1 on `first mark other` under IgnoreMarks, the pair not in the PairSet — the masks the crate left are the masks of
    the model, whose declining path is `noRecord j` with `j = 2` behind the skipped mark and span `[idx, j + 1)`
    (`C04_pairpos_fail_flags_inspected`); a crate that flags `[idx, idx + 2)` leaves glyph 2 without UNSAFE_TO_CONCAT. -/
theorem C04_gen_pairpos_miss_span :
    (pairPosApplyIt { spanPairCtx Gen.PairFlag.bufFlags 2 with
        buf := { (spanPairCtx Gen.PairFlag.bufFlags 2).buf with info := Gen.PairFlag.pairInfosMiss.map infoP } }
      spanPairPos spanPairData false false .ltr).map (fun r => (r.1.info.map (·.mask), r.2.2))
    = .ok (Gen.PairFlag.pairMasksMiss, Gen.PairFlag.pairAppliedMiss) ∧
    (pairFindI { spanPairCtx Gen.PairFlag.bufFlags 2 with
        buf := { (spanPairCtx Gen.PairFlag.bufFlags 2).buf with info := Gen.PairFlag.pairInfosMiss.map infoP } }
      spanPairData).map (fun r => (r.2.1, r.2.2)) = .ok ([0, 1, 2], .noRecord) := ⟨by rfl, by rfl⟩

end RbModel.PairFlag
