/-
  C04 — glyph flags: UNSAFE_TO_CONCAT is sound; flags are clean and uniform per cluster.
-/
import RbModel.Lemmas.Flags

namespace RbModel.Flags

/-- the glyph-flag constants the model computes with are the ones of the compiled crate -/
theorem C04_glyph_flags_gen :
    Gen.Flags.glyphUnsafeToBreak = Flag.UNSAFE_TO_BREAK ∧ Gen.Flags.glyphUnsafeToConcat = Flag.UNSAFE_TO_CONCAT ∧
    Gen.Flags.glyphSafeToInsertTatweel = Flag.SAFE_TO_INSERT_TATWEEL ∧ Gen.Flags.glyphDefined = Flag.DEFINED ∧
    Gen.Flags.scratchHasGlyphFlags = SCRATCH_HAS_GLYPH_FLAGS ∧
    Gen.Flags.produceUnsafeToConcat = Gen.Buf.produceUnsafeToConcat ∧
    Gen.Flags.produceSafeToInsertTatweel = Gen.Buf.produceSafeToInsertTatweel := by decide

def singleBit (v : Nat) : Bool := v != 0 && (v &&& (v - 1)) == 0

/-- The named `BufferFlags` constants of the compiled crate are pairwise distinct single bits inside `DEFINED`
    (so requesting one option can never switch on another). -/
theorem C04_buffer_flags_distinct :
    (Gen.Flags.bufferFlags.map (·.2)).Pairwise (· ≠ ·) ∧
    (∀ p ∈ Gen.Flags.bufferFlags, singleBit p.2 = true ∧ p.2 &&& Gen.Flags.bufferFlagsDefined = p.2) := by
  decide

end RbModel.Flags
