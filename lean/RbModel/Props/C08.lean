/-
  C08 — cmap-only fonts: no character is lost, duplicated or moved across clusters.
  Theorems about the record movers of the buffer model: they only permute (or delete exactly the
  requested) records.  The syllabic shapers are outside the model; for them the property rests on the
  `conservation` search of tools/props/C08.py.  The normalizer's variation-selector round
  (`handle_variation_selector_cluster`, model `Norm.vsLoop`, tied to the crate by C09's `norm-run` stream)
  keeps every record: `C08_vs_round_keeps`, `C08_vs_round_chars`.
  The shapers' own compose / decompose callbacks of the normalizer (Hebrew presentation forms, Indic / Khmer / USE
  split-matra rules), enumerated on the compiled crate, answer only with canonically equivalent characters (or
  the documented Khmer split-vowel decomposition): `C08_hebrew_compose_canonical`, `C08_shaper_callbacks_canonical`.
-/
import RbModel.Buf
import RbModel.Lemmas.Mem
import RbModel.Props.C16
import RbModel.Norm
import RbModel.Lemmas.NormVS
import RbModel.Lemmas.NormOwn
import RbModel.Spec.CanonEquiv
import RbModel.Lemmas.CanonRef
import RbModel.Gen.NormRef
import RbModel.Gen.HebrewCompose
import RbModel.Gen.ShaperCallbacks

namespace RbModel.Buf
open RbModel.Mem

theorem revSlice_perm (l r : List Info) (s e : Nat) (h : revSlice l s e = .ok r) : r.Perm l := by
  unfold revSlice at h
  by_cases h2 : (s > e || e > l.length) = true
  · simp [h2] at h
  · simp only [h2, Bool.false_eq_true, if_false, pure, Except.pure] at h
    cases h
    have h3 : ¬ s > e := by intro hh; apply h2; simp [hh]
    have h4 : ¬ e > l.length := by intro hh; apply h2; simp [hh]
    have hsplit : l = l.take s ++ (l.drop s).take (e - s) ++ l.drop e := by
      conv => lhs; rw [← List.take_append_drop s l]
      rw [List.append_assoc]
      congr 1
      conv => lhs; rw [← List.take_append_drop (e - s) (l.drop s)]
      congr 1
      rw [List.drop_drop]; congr 1; omega
    conv => rhs; rw [hsplit]
    exact List.Perm.append_right _ (List.Perm.append_left _ (List.reverse_perm _))

/-- `reverse_range` only permutes the records of the buffer. -/
theorem C08_reverse_range_perm (b b' : Buf) (s e : Nat) (h : b.reverseRange s e = .ok b') :
    b'.info.Perm b.info ∧ b'.len = b.len := by
  unfold reverseRange at h
  by_cases h1 : e - s < 2
  · simp only [h1, if_true, pure, Except.pure] at h; cases h; exact ⟨List.Perm.refl _, rfl⟩
  · simp only [h1, if_false, bind, Except.bind] at h
    cases hr : revSlice b.info s e with
    | error e => rw [hr] at h; cases h
    | ok r =>
      rw [hr] at h
      simp only [pure, Except.pure] at h
      cases h
      exact ⟨revSlice_perm _ _ _ _ hr, rfl⟩

/-- `reverse` only permutes the records of the buffer. -/
theorem C08_reverse_perm (b b' : Buf) (h : b.reverse = .ok b') : b'.info.Perm b.info ∧ b'.len = b.len := by
  unfold reverse at h
  by_cases h0 : (b.len == 0) = true
  · simp only [h0, if_true, pure, Except.pure] at h; cases h; exact ⟨List.Perm.refl _, rfl⟩
  · simp only [h0, Bool.false_eq_true, if_false] at h
    exact C08_reverse_range_perm b b' 0 b.len h

/-- The mark-shifting loop of the Thai/Lao SARA AM rule (`ot_shaper_thai.rs`): the records of
    `out[start .. start+n)` move up by one and the NIKHAHIT record `t = out[start+n]` is put at `start`.
    With the backward copy the result is exactly the rotation — no record duplicated, none lost.
    (The forward copy of the original source duplicated `out[start]`: defect D7.) -/
theorem C08_thai_rotate (out : List Info) (start n : Nat) (t : Info) (h : start + n < out.length)
    (ht : out[start + n]? = some t) :
    ∃ r, (do let l ← copyWithinBwd out start (start + 1) n; put l start t) = .ok r ∧
      r.length = out.length ∧
      ∀ q, r[q]? = if q = start then some t
                   else if start < q ∧ q ≤ start + n then out[q - 1]? else out[q]? := by
  obtain ⟨l, hl, hlen, hq⟩ := copyWithinBwd_spec start (start + 1) (by omega) n out (by omega)
  refine ⟨l.set start t, ?_, by simp [hlen], ?_⟩
  · simp only [bind, Except.bind, hl]
    exact put_ok _ (by omega)
  · intro q
    by_cases h1 : q = start
    · subst h1
      simp only [if_true]
      exact List.getElem?_set_self (by omega)
    · simp only [h1, if_false]
      rw [List.getElem?_set_ne (by omega), hq q]
      by_cases h2 : start < q ∧ q ≤ start + n
      · have : start + 1 ≤ q ∧ q < start + 1 + n := by omega
        simp only [h2, this, and_self, if_true]
        congr 1; omega
      · have : ¬ (start + 1 ≤ q ∧ q < start + 1 + n) := by omega
        simp only [h2, this, if_false]

/-- the rotated segment is a permutation of the original one: nothing lost, nothing duplicated -/
theorem C08_thai_rotate_perm (out r : List Info) (start n : Nat) (t : Info) (h : start + n < out.length)
    (ht : out[start + n]? = some t)
    (hr : (do let l ← copyWithinBwd out start (start + 1) n; put l start t) = .ok r) :
    r = out.take start ++ t :: (out.drop start).take n ++ out.drop (start + n + 1) := by
  obtain ⟨r', hr', hlen, hq⟩ := C08_thai_rotate out start n t h ht
  rw [hr] at hr'
  cases hr'
  apply List.ext_getElem?
  intro q
  rw [hq q]
  have hts : (out.take start).length = start := by simp; omega
  by_cases h1 : q < start
  · have : q ≠ start := by omega
    have h2 : ¬ (start < q ∧ q ≤ start + n) := by omega
    simp only [this, h2, if_false]
    rw [List.append_assoc, List.getElem?_append_left (by omega), List.getElem?_take]
    simp [h1]
  · rw [List.append_assoc, List.getElem?_append_right (by omega), hts]
    by_cases h2 : q = start
    · subst h2; simp
    · simp only [h2, if_false]
      have : q - start = (q - start - 1) + 1 := by omega
      rw [this, List.cons_append, List.getElem?_cons_succ]
      have htl : ((out.drop start).take n).length = n := by simp; omega
      by_cases h3 : start < q ∧ q ≤ start + n
      · simp only [h3, and_self, if_true]
        rw [List.getElem?_append_left (by omega), List.getElem?_take, List.getElem?_drop]
        have : q - start - 1 < n := by omega
        simp only [this, if_true]
        congr 1; omega
      · simp only [h3, if_false]
        rw [List.getElem?_append_right (by omega), htl, List.getElem?_drop]
        congr 1; omega

/-! non-vacuity: the D7 witness ⟨base, m1, m2, NIKHAHIT⟩ -/
example : (match (do let l ← copyWithinBwd [⟨1,0,0,0,0⟩, ⟨2,0,0,0,0⟩, ⟨3,0,0,0,0⟩, ⟨4,0,0,0,0⟩] 1 2 2
                     put l 1 (⟨4,0,0,0,0⟩ : Info) : M (List Info)) with
    | .ok r => r.map (·.gid) == [1, 4, 2, 3]
    | .error _ => false) = true := by decide

end RbModel.Buf


/-! ## The default shaper conserves characters (corollary of C16_default, Pipeline model)

For a font without layout tables and a text of plain characters that all have glyphs, the output of the whole
pipeline model (`Pipeline.shape`: cmap, clusters, direction handling, positioning) is — read as (glyph, cluster) pairs —
exactly the input's (cmap glyph, cluster) pairs, in logical order or reversed: nothing lost, nothing duplicated,
nothing moved to another cluster.  The dedicated shapers' conservation is: Hangul `C12_model_refines_spec`,
normalizer `C09_decompose_equiv` / `C09_cluster`, Thai `C08_thai_rotate_perm`; the syllabic shapers are search only. -/
namespace RbModel.Pipeline

theorem C08_default_shaper_conserves (u : Ucd) (f : Font) (c : Cfg) (text : List (Nat × Nat))
    (hscope : ∀ t ∈ text, u.norm t.1 = false ∧ u.mcc t.1 = 0)
    (hplain : ∀ t ∈ text, PlainChar u t.1)
    (hnoDI : ∀ t ∈ text, u.isDI t.1 = false)
    (hglyph : ∀ t ∈ text, (nominal f (rotCp u f c t.1)).isSome = true) :
    ∃ out, shape u f c text = .ok out ∧
      (out.map fun g => (g.gid, g.cluster)).Perm
        (text.map fun t => ((nominal f (rotCp u f c t.1)).getD 0, t.2)) ∧
      out.length = text.length := by
  refine ⟨_, C16_default u f c text hscope hplain hnoDI hglyph, ?_, ?_⟩
  · have hmap : (text.map (glyphOf u f c)).map (fun g => (g.gid, g.cluster))
        = text.map fun t => ((nominal f (rotCp u f c t.1)).getD 0, t.2) := by
      rw [List.map_map]
      apply List.map_congr_left
      intro t _
      have := C16_default_fields u f c t
      simp only [Function.comp]
      exact Prod.ext this.1 this.2.1
    by_cases hb : c.dir.isBackward = true
    · simp only [hb, if_true, List.map_reverse, hmap]
      exact List.reverse_perm _
    · simp only [hb, Bool.false_eq_true, if_false, hmap]
      exact List.Perm.refl _
  · by_cases hb : c.dir.isBackward = true <;> simp [hb]

end RbModel.Pipeline


/-! ## The variation-selector round of the normalizer keeps every record

`Norm.vsLoop` is `ot_shape_normalize.rs::handle_variation_selector_cluster` on the zipper `(out, inp)` with
`n = end - idx` records of the cluster still to go (`n ≤ inp.length`: the cluster lies inside the buffer). -/
namespace RbModel.Norm

/-- **Fonts without variation sequences** (no cmap format 14 hit — every cmap-only font of the property):
    the round appends the `n` records of the cluster to the out-buffer, each with its character, cluster and
    mask (`Info.key`) and in the input order — one or several consecutive selectors after a base, after a mark
    or at the end of the cluster alike — and leaves the rest of the input untouched.  Nothing is lost,
    duplicated or moved. -/
theorem C08_vs_round_keeps (U : UData) (F : Font) (K : Consts) (n : Nat) (out inp : List Info) (flags : Nat)
    (hn : n ≤ inp.length) (hnv : ∀ a b, F.variant a b = none) :
    (vsLoop U F K n out inp flags).1.map Info.key = out.map Info.key ++ (inp.take n).map Info.key ∧
    (vsLoop U F K n out inp flags).2.1 = inp.drop n :=
  vsLoop_keeps U F K n out inp flags hn hnv

example : ∃ F : Font, ∀ a b, F.variant a b = none := ⟨{ glyph := fun _ => none }, fun _ _ => rfl⟩

/-- the instance the text of the property is about: base, selector, selector — three records come out -/
example (U : UData) (F : Font) (K : Consts) (a v w : Info) (flags : Nat) (hnv : ∀ a b, F.variant a b = none) :
    (vsLoop U F K 3 [] [a, v, w] flags).1.map Info.key = [a.key, v.key, w.key] := by
  have := (C08_vs_round_keeps U F K 3 [] [a, v, w] flags (by simp) hnv).1
  simpa using this

/-- **Any font**, with or without variation sequences: what the round appends to the out-buffer is a sublist of
    the cluster's characters (same order, nothing added or duplicated) that contains every character which is
    not a variation selector; the only records that can disappear are selectors absorbed into the variant glyph
    of their base (`replace_glyphs(2, 1)` after a cmap format 14 hit).  The records already output and the
    records still to come keep their characters (their clusters may be merged). -/
theorem C08_vs_round_chars (U : UData) (F : Font) (K : Consts) (n : Nat) (out inp : List Info) (flags : Nat)
    (hn : n ≤ inp.length) :
    ∃ kept, (vsLoop U F K n out inp flags).1.map (·.cp) = out.map (·.cp) ++ kept ∧
      kept.Sublist ((inp.take n).map (·.cp)) ∧
      kept.filter (fun c => !U.isVS c) = ((inp.take n).map (·.cp)).filter (fun c => !U.isVS c) ∧
      (vsLoop U F K n out inp flags).2.1.map (·.cp) = (inp.drop n).map (·.cp) :=
  vsLoop_chars U F K n out inp flags hn

/-- **The decomposition step of the normalizer loses no character, in any mode.**  Whatever
    `decompose_current_character` (ot_shape_normalize.rs; `shortest` = the mode short-circuits here or not) emits for a
    record — the record itself (own glyph, space / U+2011 fallback glyph or .notdef) or the pieces `decompose` found, at
    whatever depth, with whatever subset of the pieces the font maps — is `a :: bs` where the full canonical
    decomposition of the record's character is the full decomposition of `a` followed by `bs`: every second component
    met on the way down is output, none is dropped, nothing is added.  (`FullDecomp`, Lemmas/Norm.lean: the chain of first
    components to the end, the second components appended.)  Tied to the crate by the `norm-run-lattice` stream. -/
theorem C08_decompose_current_conserves (U : UData) (F : Font) (K : Consts) (fuel : Nat) (shortest : Bool) (x : Info)
    (flags : Nat) (l : List Info) (f : Nat) (h : decomposeCurrentCharacter U F K fuel shortest x flags = some (l, f))
    (lx : List Nat) (hl : FullDecomp U x.cp lx) :
    (∃ a bs la, l.map (·.cp) = a :: bs ∧ FullDecomp U a la ∧ lx = la ++ bs) ∧
    (∀ i ∈ l, i.cluster = x.cluster ∧ i.mask = x.mask) := by
  refine ⟨dcc_conserves U F K fuel shortest x flags l f h lx hl, ?_⟩
  cases hd : (if !shortest || (F.glyph x.cp).isNone then decompose U F shortest fuel x.cp else some []) with
  | none =>
    unfold decomposeCurrentCharacter at h
    simp only [hd] at h
    cases h
  | some r =>
    cases r with
    | nil =>
      obtain ⟨g, p, f', h1, _⟩ := dcc_kept U F K fuel shortest x flags hd
      rw [h1] at h
      cases h
      intro i hi
      simp only [List.mem_singleton] at hi
      subst hi
      exact ⟨rfl, rfl⟩
    | cons p ps =>
      have h1 := dcc_decomposed U F K fuel shortest x flags (p :: ps) (by simp) hd
      rw [h1] at h
      have sp := outputChars_spec U K x (p :: ps) flags
      have hl' : l = (outputChars U K x (p :: ps) flags).1 := by
        have := congrArg (fun o => o.map Prod.fst) h
        simpa using this.symm
      rw [hl']
      exact sp.2.2

/-- non-vacuity: KANNADA VOWEL SIGN OO U+0CCB (= U+0CCA + U+0CD5, U+0CCA = U+0CC6 + U+0CC2) has the full decomposition
    `0CC6 0CC2 0CD5`; on a font with the inner pieces but without the length mark U+0CD5 a mode that does not
    short-circuit keeps the character whole -/
example : FullDecomp genU 0xCCB [0xCC6, 0xCC2, 0xCD5] ∧
    decompose genU { glyph := fun c => if c = 0xCCB ∨ c = 0xCC6 ∨ c = 0xCC2 then some 1 else none } false genFuel 0xCCB
      = some [] := by
  have d1 : genU.decomp 0xCCB = some (0xCCA, 0xCD5) := by decide +kernel
  have d2 : genU.decomp 0xCCA = some (0xCC6, 0xCC2) := by decide +kernel
  have d3 : genU.decomp 0xCC6 = none := by decide +kernel
  exact ⟨FullDecomp.node d1 (FullDecomp.node d2 (FullDecomp.leaf d3)), by decide +kernel⟩

end RbModel.Norm


/-! ## Shaper-specific compositions and decompositions are canonically equivalent

The recomposition round of the normalizer asks the shaper's `compose` callback (decomposition: `decompose`); what it
answers replaces the two characters in the buffer.  `Gen/HebrewCompose.lean` / `Gen/ShaperCallbacks.lean` hold the
answers of the callbacks of the *compiled crate* (set up the way `_hb_ot_shape_normalize` sets them up), enumerated
over every pair of characters of the scripts' blocks; `Spec/CanonEquiv.lean` is canonical equivalence written from
the standard; `Gen/NormRef.lean` is the reference data (`C09_tables_match_ref` ties it to the crate's tables);
`Lemmas/CanonRef.lean` has `equivRef` (equivalence by the reference data) and its fast evaluation `equivK`. -/
namespace RbModel.Props.C08
open RbModel.Gen RbModel.Spec.CanonEquiv RbModel.Lemmas.CanonRef

set_option maxRecDepth 100000

/-- **Hebrew presentation forms.**  `ot_shaper_hebrew.rs::compose`, asked for every pair `(a, b)` of
    U+0590–05FF ∪ U+FB1D–FB4F (26 569 pairs) with `plan.has_gpos_mark = false` (a cmap-only font) and `= true`:
    every answer `ab` is canonically equivalent to `<a, b>` — the full canonical decomposition of `ab` equals that
    of `a` followed by that of `b` up to canonical reordering.  (False before the repair of YOD + PATAH → U+FB1F,
    and for any exchange of two rows of the dagesh table.) -/
theorem C08_hebrew_compose_canonical :
    HebrewCompose.domain = [(0x0590, 0x05FF), (0xFB1D, 0xFB4F)] ∧
    (∀ e ∈ HebrewCompose.entries, equivRef e = true) ∧
    (∀ e ∈ HebrewCompose.entriesGpos, equivRef e = true) := by
  have h1 : (HebrewCompose.entries.all equivK) = true := by decide +kernel
  have h2 : (HebrewCompose.entriesGpos.all equivK) = true := by decide +kernel
  rw [equivK_eq] at h1 h2
  exact ⟨by decide, fun e he => List.all_eq_true.mp h1 e he, fun e he => List.all_eq_true.mp h2 e he⟩

-- the theorem is not vacuous: PE + DAGESH ↦ U+FB44 is offered, and the reference decides
example : (0x05E4, 0x05BC, 0xFB44) ∈ HebrewCompose.entries := by decide
example : equivK (0x05E4, 0x05BC, 0xFB44) = true := by decide +kernel
-- SHIN WITH SHIN DOT + DAGESH ↦ U+FB2C needs the canonical reordering (U+05BC has class 21, U+05C1 class 24)
example : equivK (0xFB2A, 0x05BC, 0xFB2C) = true := by decide +kernel
-- what the two slips of this table looked like: AYIN + DAGESH ↦ U+FB43 (= FINAL PE + DAGESH), YOD + PATAH ↦ U+FB1F
example : equivK (0x05E2, 0x05BC, 0xFB43) = false := by decide +kernel
example : equivK (0x05D9, 0x05B7, 0xFB1F) = false := by decide +kernel

/-- **Every shaper with callbacks of its own** (the list is asked from the crate: compose — Hebrew, Indic, Khmer,
    USE; decompose — Indic, Khmer), each callback asked over every pair / every character of the blocks of its
    scripts (2.8 million pairs in all, both values of `has_gpos_mark`):
    (1) every composition offered is canonically equivalent to its two arguments (this includes the Indic
    exception U+09AF U+09BC ↦ U+09DF, a composition exclusion);
    (2) every decomposition offered is canonically equivalent to the character, or is the documented Khmer
    split-vowel decomposition `ab ↦ <U+17C1, ab>`;
    (3) outside those blocks (every pair of a canonical mapping of the crate's table; every scalar value) no
    callback answers anything but what `unicode::compose` / `unicode::decompose` answer — it may decline. -/
theorem C08_shaper_callbacks_canonical :
    (∀ l ∈ ShaperCallbacks.composeAll, ∀ e ∈ l, equivRef e = true) ∧
    (∀ l ∈ ShaperCallbacks.decomposeAll, ∀ e ∈ l,
      (equivRef (e.2.1, e.2.2, e.1) || khmerSplit e) = true) ∧
    ShaperCallbacks.composeOutside = [] ∧ ShaperCallbacks.decomposeOutside = [] := by
  have h1 : (ShaperCallbacks.composeAll.all fun l => l.all equivK) = true := by decide +kernel
  have h2 : (ShaperCallbacks.decomposeAll.all fun l =>
      l.all fun e => equivK (e.2.1, e.2.2, e.1) || khmerSplit e) = true := by decide +kernel
  rw [equivK_eq] at h1 h2
  have h3 : ShaperCallbacks.composeOutside = [] := rfl
  have h4 : ShaperCallbacks.decomposeOutside = [] := rfl
  refine ⟨all_of_all _ _ h1, ?_, h3, h4⟩
  intro l hl e he
  exact List.all_eq_true.mp (List.all_eq_true.mp h2 l hl) e he

-- not vacuous: the callbacks are there and offer compositions / split vowels
example : ShaperCallbacks.ownCompose = ["hebrew", "indic", "khmer", "use"] ∧
    ShaperCallbacks.ownDecompose = ["indic", "khmer"] := by decide
example : (0x09AF, 0x09BC, 0x09DF) ∈ ShaperCallbacks.compose_indic := by decide
example : (0x17BE, 0x17C1, 0x17BE) ∈ ShaperCallbacks.decompose_khmer := by decide
example : khmerSplit (0x17BE, 0x17C1, 0x17BE) = true := by decide

end RbModel.Props.C08
