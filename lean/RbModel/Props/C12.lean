import RbModel.Hangul
namespace RbModel.Hangul
open RbModel.Gen.Hangul
theorem C12_ncount : NCount = VCount * TCount ∧ SCount = LCount * NCount := by decide
end RbModel.Hangul
