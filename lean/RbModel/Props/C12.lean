/-
  C12 — Hangul syllables compose / decompose by Unicode arithmetic, per font support.
  Property theorems only; helper lemmas are in Lemmas/Hangul.lean, the Unicode side in Spec/Hangul.lean.

  Reading guide.  `preprocess c text` is the model of `preprocess_text_hangul` (Hangul.lean) run on a buffer
  holding `text`; `none` would be a panic or an endless loop.  `c.has u` = the font maps code point `u`,
  `c.zeroW u` = it maps it to a zero-advance glyph, `c.level` = cluster level.  `keys r` forgets clusters:
  the list of (code point, feature) with feature 0 none / 1 ljmo / 2 vjmo / 3 tjmo.  The constants
  `LBase … SBase`, `LJMO …` and the jamo ranges behind `isL / isV / isT / isTone` are `Gen.Hangul.*`, i.e. read
  from the compiled crate on every run; the `C12_arith_*` theorems tie them to the Unicode values.
  All chunk theorems hold for every text before (`pre`) and after (`post`) the syllable; `a`, `b` are what
  `pre` and `post` are turned into when preprocessed on their own.
-/
import RbModel.Lemmas.Hangul

set_option maxRecDepth 100000
namespace RbModel.Hangul
open RbModel.Gen.Hangul
open RbModel.Spec.Hangul (K Support parse render)

/- `syllable l v t` (Lemmas/Hangul.lean) is the crate's syllable formula
   `S_BASE + (l - L_BASE) * N_COUNT + (v - V_BASE) * T_COUNT + (t - T_BASE)` (`t = TBase` = no trailing consonant);
   `partL s`, `partV s`, `partT s` are the L / V / T parts the `is_combined_s` branch computes from `s`. -/

/-! ## C12_arith — the arithmetic -/

/-- The compiled constants are those of the Unicode Standard (ch. 3.12), `N_COUNT`, `S_COUNT` are the products. -/
theorem C12_arith_constants :
    LBase = 0x1100 ∧ VBase = 0x1161 ∧ TBase = 0x11A7 ∧ SBase = 0xAC00 ∧ LCount = 19 ∧ VCount = 21 ∧ TCount = 28
    ∧ NCount = VCount * TCount ∧ SCount = LCount * NCount ∧ LJMO = 1 ∧ VJMO = 2 ∧ TJMO = 3 := by decide

/-- The compiled predicates, scanned over all code points, are the Unicode classes: Hangul_Syllable_Type L / V / T
    for `is_l / is_v / is_t`, the conjoining jamo ranges for `is_combining_*`, U+AC00..D7A3, U+302E..302F. -/
theorem C12_arith_tables :
    lRanges = [(0x1100, 0x115F), (0xA960, 0xA97C)] ∧ vRanges = [(0x1160, 0x11A7), (0xD7B0, 0xD7C6)]
    ∧ tRanges = [(0x11A8, 0x11FF), (0xD7CB, 0xD7FB)] ∧ toneRanges = [(0x302E, 0x302F)]
    ∧ combiningLRanges = [(LBase, LBase + LCount - 1)] ∧ combiningVRanges = [(VBase, VBase + VCount - 1)]
    ∧ combiningTRanges = [(TBase + 1, TBase + TCount - 1)] ∧ combinedSRanges = [(SBase, SBase + SCount - 1)] := by
  decide

/-- The model's predicates are the Unicode ones (for every code point). -/
theorem C12_arith_predicates (u : Nat) :
    isL u = Spec.Hangul.isL u ∧ isV u = Spec.Hangul.isV u ∧ isT u = Spec.Hangul.isT u
    ∧ isTone u = Spec.Hangul.isTone u ∧ isCombiningL u = Spec.Hangul.isCombiningL u
    ∧ isCombiningV u = Spec.Hangul.isCombiningV u ∧ isCombiningT u = Spec.Hangul.isCombiningT u
    ∧ isCombinedS u = Spec.Hangul.isS u :=
  ⟨isL_eq u, isV_eq u, isT_eq u, isTone_eq u, isCombiningL_eq u, isCombiningV_eq u, isCombiningT_eq u,
    isCombinedS_eq u⟩

/-- The crate's formula is the Unicode one: S = 0xAC00 + ((L − 0x1100)·21 + (V − 0x1161))·28 + (T − 0x11A7). -/
theorem C12_arith_formula (l v t : Nat) :
    syllable l v t = 0xAC00 + ((l - 0x1100) * 21 + (v - 0x1161)) * 28 + (t - 0x11A7)
    ∧ syllable l v t = Spec.Hangul.compose l v t := by
  unfold syllable Spec.Hangul.compose; hconst; omega

/-- Composition lands in the syllable block. -/
theorem C12_arith_range (l v t : Nat) (hl : isCombiningL l = true) (hv : isCombiningV v = true)
    (ht : t = TBase ∨ isCombiningT t = true) : isCombinedS (syllable l v t) = true := by
  simp only [isCombiningL, isCombiningV, isCombiningT, isCombinedS, syllable, Bool.and_eq_true, decide_eq_true_eq] at *
  hconst; omega

/-- Composition is injective on conjoining jamo. -/
theorem C12_arith_injective (l v t l' v' t' : Nat)
    (hl : isCombiningL l = true) (hv : isCombiningV v = true) (ht : t = TBase ∨ isCombiningT t = true)
    (hl' : isCombiningL l' = true) (hv' : isCombiningV v' = true) (ht' : t' = TBase ∨ isCombiningT t' = true)
    (h : syllable l v t = syllable l' v' t') : l = l' ∧ v = v' ∧ t = t' := by
  simp only [isCombiningL, isCombiningV, isCombiningT, syllable, Bool.and_eq_true, decide_eq_true_eq] at *
  hconst; omega

/-- decompose ∘ compose = id: the index arithmetic of the `is_combined_s` branch recovers L, V, T. -/
theorem C12_arith_decompose_compose (l v t : Nat) (hl : isCombiningL l = true) (hv : isCombiningV v = true)
    (ht : t = TBase ∨ isCombiningT t = true) :
    LBase + (syllable l v t - SBase) / NCount = l
    ∧ VBase + (syllable l v t - SBase) % NCount / TCount = v
    ∧ TBase + (syllable l v t - SBase) % NCount % TCount = t := by
  simp only [isCombiningL, isCombiningV, isCombiningT, syllable, Bool.and_eq_true, decide_eq_true_eq] at *
  hconst; omega

/-- compose ∘ decompose = id, and the parts of a precomposed syllable are conjoining jamo. -/
theorem C12_arith_compose_decompose (s : Nat) (hs : isCombinedS s = true) :
    syllable (LBase + (s - SBase) / NCount) (VBase + (s - SBase) % NCount / TCount)
        (TBase + (s - SBase) % NCount % TCount) = s
    ∧ isCombiningL (LBase + (s - SBase) / NCount) = true
    ∧ isCombiningV (VBase + (s - SBase) % NCount / TCount) = true
    ∧ (TBase + (s - SBase) % NCount % TCount = TBase ∨ isCombiningT (TBase + (s - SBase) % NCount % TCount) = true) := by
  simp only [isCombiningL, isCombiningV, isCombiningT, isCombinedS, syllable, Bool.and_eq_true, decide_eq_true_eq] at *
  hconst; omega

/-- `<LV,T>`: adding the T index to an LV syllable is composing its L, V with that T. -/
theorem C12_arith_lv_plus_t (s t : Nat) (hs : isCombinedS s = true) (hlv : (s - SBase) % NCount % TCount = 0)
    (ht : isCombiningT t = true) :
    s + (t - TBase) = syllable (LBase + (s - SBase) / NCount) (VBase + (s - SBase) % NCount / TCount) t := by
  simp only [isCombiningT, isCombinedS, syllable, Bool.and_eq_true, decide_eq_true_eq] at *
  hconst; omega

example : isCombiningL 0x1100 = true ∧ isCombiningV 0x1161 = true ∧ isCombiningT 0x11A8 = true
    ∧ syllable 0x1100 0x1161 0x11A8 = 0xAC01 ∧ isCombinedS 0xAC01 = true := by decide

/-! ## the model is total and is the abstract syllable parser -/

/-- **Refinement / totality.** For every font, configuration and text the model terminates without a panic
    (no index out of bounds, no failed assert, every iteration consumes input) and its output, clusters
    forgotten, is what the abstract parser `Spec.Hangul.render` produces. -/
theorem C12_model_refines_spec (c : Cfg) (text : List G) :
    ∃ r, preprocess c text = some r ∧ keys r = render (sup c) [] (keys text) :=
  preprocess_keys c text

/-! ## C12_compose -/

/-- `<L,V>` conjoining, the font has the LV syllable, no trailing jamo follows: one glyph, the syllable. -/
theorem C12_compose_LV (c : Cfg) (pre post : List G) (l v : G)
    (hl : isCombiningL l.cp = true) (hv : isCombiningV v.cp = true)
    (hpost : ∀ g ∈ post.head?, isT g.cp = false ∧ isTone g.cp = false)
    (hS : c.has (syllable l.cp v.cp TBase) = true) :
    ∃ a b r, preprocess c pre = some a ∧ preprocess c post = some b ∧
      preprocess c (pre ++ l :: v :: post) = some r ∧
      keys r = keys a ++ [(syllable l.cp v.cp TBase, l.tag)] ++ keys b := by
  have hlS : Spec.Hangul.isCombiningL l.cp = true := by rw [← isCombiningL_eq]; exact hl
  have hvS : Spec.Hangul.isCombiningV v.cp = true := by rw [← isCombiningV_eq]; exact hv
  have hL := combL_isL hlS
  have hV := combV_isV hvS
  have hx := isL_not_VT hL
  have := preprocess_chunk c pre [v] post l [(syllable l.cp v.cp TBase, l.tag)]
    ⟨by rw [isV_eq]; exact hx.1, by rw [isT_eq]; exact hx.2⟩ (by rw [isTone_eq]; exact isL_not_tone hL)
    (by
      have hn : ∀ y ∈ (keys post).head?, Spec.Hangul.isT y.1 = false :=
        head_keys (P := fun u => Spec.Hangul.isT u = false) post (by intro g hg; rw [← isT_eq]; exact (hpost g hg).1)
      have hS' : (sup c).has (Spec.Hangul.compose l.cp v.cp Spec.Hangul.TBase) = true := by
        rw [← (C12_arith_formula l.cp v.cp Spec.Hangul.TBase).2]; exact hS
      simp only [keys_cons, keys_nil, List.cons_append, List.nil_append, key]
      rw [parse_LV _ _ _ _ _ _ hL hV hn]
      simp [hlS, hvS, hS', (C12_arith_formula l.cp v.cp Spec.Hangul.TBase).2, TBase_eq])
    (by simp) (fun g hg => (hpost g hg).2)
  simpa using this


/-- `<L,V,T>` conjoining and the font has the LVT syllable: one glyph. -/
theorem C12_compose_LVT (c : Cfg) (pre post : List G) (l v t : G)
    (hl : isCombiningL l.cp = true) (hv : isCombiningV v.cp = true) (ht : isCombiningT t.cp = true)
    (hpost : ∀ g ∈ post.head?, isTone g.cp = false)
    (hS : c.has (syllable l.cp v.cp t.cp) = true) :
    ∃ a b r, preprocess c pre = some a ∧ preprocess c post = some b ∧
      preprocess c (pre ++ l :: v :: t :: post) = some r ∧
      keys r = keys a ++ [(syllable l.cp v.cp t.cp, l.tag)] ++ keys b := by
  have hlS : Spec.Hangul.isCombiningL l.cp = true := by rw [← isCombiningL_eq]; exact hl
  have hvS : Spec.Hangul.isCombiningV v.cp = true := by rw [← isCombiningV_eq]; exact hv
  have htS : Spec.Hangul.isCombiningT t.cp = true := by rw [← isCombiningT_eq]; exact ht
  have hL := combL_isL hlS
  have hx := isL_not_VT hL
  have := preprocess_chunk c pre [v, t] post l [(syllable l.cp v.cp t.cp, l.tag)]
    ⟨by rw [isV_eq]; exact hx.1, by rw [isT_eq]; exact hx.2⟩ (by rw [isTone_eq]; exact isL_not_tone hL)
    (by
      have hS' : (sup c).has (Spec.Hangul.compose l.cp v.cp t.cp) = true := by
        rw [← (C12_arith_formula l.cp v.cp t.cp).2]; exact hS
      simp only [keys_cons, keys_nil, List.cons_append, List.nil_append, key]
      rw [parse_LVT _ _ _ _ _ _ _ _ hL (combV_isV hvS) (combT_isT htS)]
      simp [hlS, hvS, htS, hS', (C12_arith_formula l.cp v.cp t.cp).2])
    (by simp) hpost
  simpa using this

/-- `<LV,T>`: a precomposed LV syllable followed by a conjoining T, the font has LVT: one glyph, `LV + (T − T_BASE)`
    (which is the syllable of L, V, T: `C12_arith_lv_plus_t`). -/
theorem C12_compose_LV_T (c : Cfg) (pre post : List G) (s t : G)
    (hs : isCombinedS s.cp = true) (hlv : (s.cp - SBase) % NCount % TCount = 0) (ht : isCombiningT t.cp = true)
    (hpost : ∀ g ∈ post.head?, isTone g.cp = false)
    (hS : c.has (s.cp + (t.cp - TBase)) = true) :
    ∃ a b r, preprocess c pre = some a ∧ preprocess c post = some b ∧
      preprocess c (pre ++ s :: t :: post) = some r ∧
      keys r = keys a ++ [(s.cp + (t.cp - TBase), s.tag)] ++ keys b := by
  have hsS : Spec.Hangul.isS s.cp = true := by rw [← isCombinedS_eq]; exact hs
  have htS : Spec.Hangul.isCombiningT t.cp = true := by rw [← isCombiningT_eq]; exact ht
  have hLV : Spec.Hangul.isLV s.cp = true := by
    unfold Spec.Hangul.isLV; rw [← tindex_eq, hlv]; rfl
  have hx := isS_not_VT hsS
  have := preprocess_chunk c pre [t] post s [(s.cp + (t.cp - TBase), s.tag)]
    ⟨by rw [isV_eq]; exact hx.1, by rw [isT_eq]; exact hx.2⟩ (by rw [isTone_eq]; exact isS_not_tone hsS)
    (by
      simp only [keys_cons, keys_nil, List.cons_append, List.nil_append, key]
      rw [parse_S_T _ _ _ _ _ _ hsS]
      have hS' : (sup c).has (s.cp + (t.cp - Spec.Hangul.TBase)) = true := hS
      simp [hLV, htS, hS', TBase_eq])
    (by simp) hpost
  simpa using this

example := C12_compose_LV ⟨fun _ => true, fun _ => false, false, 0⟩ [] [] ⟨0x1100, 0, 0⟩ ⟨0x1161, 1, 0⟩
  (by decide) (by decide) (by simp) (by decide)
example := C12_compose_LVT ⟨fun _ => true, fun _ => false, false, 0⟩ [] [] ⟨0x1100, 0, 0⟩ ⟨0x1161, 1, 0⟩ ⟨0x11A8, 2, 0⟩
  (by decide) (by decide) (by decide) (by simp) (by decide)
example := C12_compose_LV_T ⟨fun _ => true, fun _ => false, false, 0⟩ [] [] ⟨0xAC00, 0, 0⟩ ⟨0x11A8, 1, 0⟩
  (by decide) (by decide) (by decide) (by simp) (by decide)

/-! ## C12_decompose -/

/-- A precomposed syllable the font does not have, whose jamo it has, becomes L V (T) with ljmo, vjmo (, tjmo).
    (For an LV syllable the next glyph must not be a trailing jamo — that is the `<LV,T>` case below.) -/
theorem C12_decompose_S (c : Cfg) (pre post : List G) (s : G)
    (hs : isCombinedS s.cp = true) (hno : c.has s.cp = false)
    (hL : c.has (partL s.cp) = true) (hV : c.has (partV s.cp) = true)
    (hT : partT s.cp = TBase ∨ c.has (partT s.cp) = true)
    (hpost : ∀ g ∈ post.head?, (partT s.cp = TBase → isT g.cp = false) ∧ isTone g.cp = false) :
    ∃ a b r, preprocess c pre = some a ∧ preprocess c post = some b ∧
      preprocess c (pre ++ s :: post) = some r ∧
      keys r = keys a ++ ([(partL s.cp, LJMO), (partV s.cp, VJMO)] ++ if partT s.cp = TBase then [] else [(partT s.cp, TJMO)])
                ++ keys b := by
  have hsS : Spec.Hangul.isS s.cp = true := by rw [← isCombinedS_eq]; exact hs
  have hx := isS_not_VT hsS
  have := preprocess_chunk c pre [] post s _
    ⟨by rw [isV_eq]; exact hx.1, by rw [isT_eq]; exact hx.2⟩ (by rw [isTone_eq]; exact isS_not_tone hsS)
    (parse_decompose_S c post s hs hno hL hV hT (fun g hg => (hpost g hg).1)) (by simp)
    (fun g hg => (hpost g hg).2)
  simpa using this

example := C12_decompose_S ⟨fun u => decide (u < 0x2000), fun _ => false, false, 0⟩ [] [] ⟨0xAC01, 0, 0⟩
  (by decide) (by decide) (by decide) (by decide) (by decide) (by simp)


/-- `<L,V>` that is not composed — because the font lacks the syllable or because a jamo is not a conjoining
    one — stays `<L,V>`, tagged ljmo, vjmo. (`isL`, `isV`: any leading / vowel jamo, old Hangul included.) -/
theorem C12_decompose_jamo_LV (c : Cfg) (pre post : List G) (l v : G)
    (hl : isL l.cp = true) (hv : isV v.cp = true)
    (hno : ¬ (isCombiningL l.cp = true ∧ isCombiningV v.cp = true ∧ c.has (syllable l.cp v.cp TBase) = true))
    (hpost : ∀ g ∈ post.head?, isT g.cp = false ∧ isTone g.cp = false) :
    ∃ a b r, preprocess c pre = some a ∧ preprocess c post = some b ∧
      preprocess c (pre ++ l :: v :: post) = some r ∧
      keys r = keys a ++ [(l.cp, LJMO), (v.cp, VJMO)] ++ keys b := by
  have hL : Spec.Hangul.isL l.cp = true := by rw [← isL_eq]; exact hl
  have hV : Spec.Hangul.isV v.cp = true := by rw [← isV_eq]; exact hv
  have hx := isL_not_VT hL
  have := preprocess_chunk c pre [v] post l [(l.cp, LJMO), (v.cp, VJMO)]
    ⟨by rw [isV_eq]; exact hx.1, by rw [isT_eq]; exact hx.2⟩ (by rw [isTone_eq]; exact isL_not_tone hL)
    (by
      have hn : ∀ y ∈ (keys post).head?, Spec.Hangul.isT y.1 = false :=
        head_keys (P := fun u => Spec.Hangul.isT u = false) post (by intro g hg; rw [← isT_eq]; exact (hpost g hg).1)
      simp only [keys_cons, keys_nil, List.cons_append, List.nil_append, key]
      rw [parse_LV _ _ _ _ _ _ hL hV hn]
      have hc : (Spec.Hangul.isCombiningL l.cp && Spec.Hangul.isCombiningV v.cp &&
          (sup c).has (Spec.Hangul.compose l.cp v.cp Spec.Hangul.TBase)) = false := by
        rw [← isCombiningL_eq, ← isCombiningV_eq, ← (C12_arith_formula l.cp v.cp Spec.Hangul.TBase).2]
        cases h1 : isCombiningL l.cp <;> cases h2 : isCombiningV v.cp <;>
          cases h3 : (sup c).has (syllable l.cp v.cp Spec.Hangul.TBase) <;> simp
        exact hno ⟨h1, h2, h3⟩
      simp [hc, Spec.Hangul.LJMO, Spec.Hangul.VJMO, Spec.Hangul.TJMO])
    (by simp) (fun g hg => (hpost g hg).2)
  simpa using this

/-- `<L,V,T>` that is not composed stays `<L,V,T>`, tagged ljmo, vjmo, tjmo. -/
theorem C12_decompose_jamo_LVT (c : Cfg) (pre post : List G) (l v t : G)
    (hl : isL l.cp = true) (hv : isV v.cp = true) (ht : isT t.cp = true)
    (hno : ¬ (isCombiningL l.cp = true ∧ isCombiningV v.cp = true ∧ isCombiningT t.cp = true
              ∧ c.has (syllable l.cp v.cp t.cp) = true))
    (hpost : ∀ g ∈ post.head?, isTone g.cp = false) :
    ∃ a b r, preprocess c pre = some a ∧ preprocess c post = some b ∧
      preprocess c (pre ++ l :: v :: t :: post) = some r ∧
      keys r = keys a ++ [(l.cp, LJMO), (v.cp, VJMO), (t.cp, TJMO)] ++ keys b := by
  have hL : Spec.Hangul.isL l.cp = true := by rw [← isL_eq]; exact hl
  have hV : Spec.Hangul.isV v.cp = true := by rw [← isV_eq]; exact hv
  have hT : Spec.Hangul.isT t.cp = true := by rw [← isT_eq]; exact ht
  have hx := isL_not_VT hL
  have := preprocess_chunk c pre [v, t] post l [(l.cp, LJMO), (v.cp, VJMO), (t.cp, TJMO)]
    ⟨by rw [isV_eq]; exact hx.1, by rw [isT_eq]; exact hx.2⟩ (by rw [isTone_eq]; exact isL_not_tone hL)
    (by
      simp only [keys_cons, keys_nil, List.cons_append, List.nil_append, key]
      rw [parse_LVT _ _ _ _ _ _ _ _ hL hV hT]
      have hc : (Spec.Hangul.isCombiningL l.cp && Spec.Hangul.isCombiningV v.cp && Spec.Hangul.isCombiningT t.cp &&
          (sup c).has (Spec.Hangul.compose l.cp v.cp t.cp)) = false := by
        rw [← isCombiningL_eq, ← isCombiningV_eq, ← isCombiningT_eq, ← (C12_arith_formula l.cp v.cp t.cp).2]
        cases h1 : isCombiningL l.cp <;> cases h2 : isCombiningV v.cp <;> cases h4 : isCombiningT t.cp <;>
          cases h3 : (sup c).has (syllable l.cp v.cp t.cp) <;> simp
        exact hno ⟨h1, h2, h4, h3⟩
      simp [hc, Spec.Hangul.LJMO, Spec.Hangul.VJMO, Spec.Hangul.TJMO])
    (by simp) hpost
  simpa using this

example := C12_decompose_jamo_LV ⟨fun u => decide (u < 0x2000), fun _ => false, false, 0⟩ [] [] ⟨0x1100, 0, 0⟩ ⟨0x1161, 1, 0⟩
  (by decide) (by decide) (by decide) (by simp)
example := C12_decompose_jamo_LVT ⟨fun u => decide (u < 0x2000), fun _ => false, false, 0⟩ [] []
  ⟨0x1100, 0, 0⟩ ⟨0x1161, 1, 0⟩ ⟨0x11A8, 2, 0⟩ (by decide) (by decide) (by decide) (by decide) (by simp)

/-
  Full-strength statement for `<LV,T>` that cannot be one glyph (stated by the property as: the trailing jamo
  gets tjmo and shares the syllable's cluster):

    theorem C12_decompose_LV_T (c) (pre post) (s t : G)
        (hs : isCombinedS s.cp) (hlv : partT s.cp = TBase) (ht : isT t.cp)
        (hno : ¬ (isCombiningT t.cp ∧ c.has (s.cp + (t.cp - TBase))))
        (hL : c.has (partL s.cp)) (hV : c.has (partV s.cp)) (hpost : …no tone mark…) :
        … keys r = keys a ++ [(partL s.cp, LJMO), (partV s.cp, VJMO), (t.cp, TJMO)] ++ keys b

  It is FALSE of the code when the font does not have the LV syllable itself (`c.has s.cp = false`): the branch
  `if has_glyph && tindex == 0 { next_glyph(); s_len += 1 }` then leaves the T outside the syllable
  (no tjmo, own cluster, and a following tone mark gets a dotted circle). See `known_C12_LV_T_without_LV_glyph`.
  Proved below with the extra hypothesis `c.has s.cp = true`.
-/
theorem C12_decompose_LV_T_partial (c : Cfg) (pre post : List G) (s t : G)
    (hs : isCombinedS s.cp = true) (hlv : partT s.cp = TBase) (ht : isT t.cp = true)
    (hno : ¬ (isCombiningT t.cp = true ∧ c.has (s.cp + (t.cp - TBase)) = true))
    (hhas : c.has s.cp = true)
    (hL : c.has (partL s.cp) = true) (hV : c.has (partV s.cp) = true)
    (hpost : ∀ g ∈ post.head?, isTone g.cp = false) :
    ∃ a b r, preprocess c pre = some a ∧ preprocess c post = some b ∧
      preprocess c (pre ++ s :: t :: post) = some r ∧
      keys r = keys a ++ [(partL s.cp, LJMO), (partV s.cp, VJMO), (t.cp, TJMO)] ++ keys b := by
  have hsS : Spec.Hangul.isS s.cp = true := by rw [← isCombinedS_eq]; exact hs
  have hTS : Spec.Hangul.isT t.cp = true := by rw [← isT_eq]; exact ht
  have hLV : Spec.Hangul.isLV s.cp = true := by
    unfold Spec.Hangul.isLV; rw [← tindex_eq]
    have : (s.cp - SBase) % NCount % TCount = 0 := by unfold partT at hlv; omega
    rw [this]; rfl
  have hx := isS_not_VT hsS
  have hjam : jamoOf s.cp = [(partL s.cp, LJMO), (partV s.cp, VJMO)] := by
    unfold jamoOf; rw [hLV]; rfl
  have hok : jamoOK (sup c) s.cp = true := by
    unfold jamoOK; rw [hLV, ← lpart_eq, ← vpart_eq]
    simp only [sup, Bool.and_eq_true, Bool.or_eq_true]
    exact ⟨⟨hL, hV⟩, Or.inl trivial⟩
  have := preprocess_chunk c pre [t] post s ([(partL s.cp, LJMO), (partV s.cp, VJMO), (t.cp, TJMO)])
    ⟨by rw [isV_eq]; exact hx.1, by rw [isT_eq]; exact hx.2⟩ (by rw [isTone_eq]; exact isS_not_tone hsS)
    (by
      simp only [keys_cons, keys_nil, List.cons_append, List.nil_append, key]
      rw [parse_S_T _ _ _ _ _ _ hsS]
      have hc : ¬ (Spec.Hangul.isCombiningT t.cp = true ∧ (sup c).has (s.cp + (t.cp - Spec.Hangul.TBase)) = true) := by
        rw [← isCombiningT_eq]; exact hno
      have hh : (sup c).has s.cp = true := hhas
      simp [hc, hLV, hTS, hh, hok, hjam, Spec.Hangul.TJMO])
    (by simp) hpost
  simpa using this

example := C12_decompose_LV_T_partial ⟨fun u => decide (u < 0x2000 ∨ u = 0xAC00), fun _ => false, false, 0⟩ [] []
  ⟨0xAC00, 0, 0⟩ ⟨0x11A8, 1, 0⟩ (by decide) (by decide) (by decide) (by decide) (by decide) (by decide) (by decide) (by simp)


/-- **Known finding (also in HarfBuzz).** `<LV,T>` = U+AC00 U+11A8 on a font that has the jamo but neither U+AC00
    nor U+AC01: L and V get ljmo / vjmo and the cluster of the syllable, the trailing jamo gets NO tjmo and keeps
    its own cluster — the counter-example to the full-strength `C12_decompose_LV_T`. Replayed on the crate by the
    check (`finding: hangul-LV-T-without-LV-glyph`). -/
theorem known_C12_LV_T_without_LV_glyph :
    preprocess jamoFont [⟨0xAC00, 0, 0⟩, ⟨0x11A8, 1, 0⟩] = some [⟨0x1100, 0, 1⟩, ⟨0x1161, 0, 2⟩, ⟨0x11A8, 1, 0⟩] := by
  unfold preprocess
  rw [run]; simp only [reduceCtorEq, if_false, known_step1]
  simp only [List.length_cons, List.length_nil]
  rw [run]; simp only [reduceCtorEq, if_false, known_step2]
  simp only [List.length_cons, List.length_nil]
  rw [run]; simp

/-! ## C12_old_hangul — jamo outside the conjoining ranges never compose -/

/-- `<L,V>` with an old-Hangul (non-conjoining) leading or vowel jamo is never composed, whatever the font has. -/
theorem C12_old_hangul_LV (c : Cfg) (pre post : List G) (l v : G)
    (hl : isL l.cp = true) (hv : isV v.cp = true)
    (hold : isCombiningL l.cp = false ∨ isCombiningV v.cp = false)
    (hpost : ∀ g ∈ post.head?, isT g.cp = false ∧ isTone g.cp = false) :
    ∃ a b r, preprocess c pre = some a ∧ preprocess c post = some b ∧
      preprocess c (pre ++ l :: v :: post) = some r ∧
      keys r = keys a ++ [(l.cp, LJMO), (v.cp, VJMO)] ++ keys b :=
  C12_decompose_jamo_LV c pre post l v hl hv
    (by intro h; cases hold with
        | inl h1 => rw [h.1] at h1; cases h1
        | inr h2 => rw [h.2.1] at h2; cases h2) hpost

/-- `<L,V,T>` with any old-Hangul member is never composed. -/
theorem C12_old_hangul_LVT (c : Cfg) (pre post : List G) (l v t : G)
    (hl : isL l.cp = true) (hv : isV v.cp = true) (ht : isT t.cp = true)
    (hold : isCombiningL l.cp = false ∨ isCombiningV v.cp = false ∨ isCombiningT t.cp = false)
    (hpost : ∀ g ∈ post.head?, isTone g.cp = false) :
    ∃ a b r, preprocess c pre = some a ∧ preprocess c post = some b ∧
      preprocess c (pre ++ l :: v :: t :: post) = some r ∧
      keys r = keys a ++ [(l.cp, LJMO), (v.cp, VJMO), (t.cp, TJMO)] ++ keys b :=
  C12_decompose_jamo_LVT c pre post l v t hl hv ht
    (by intro h; rcases hold with h1 | h2 | h3
        · rw [h.1] at h1; cases h1
        · rw [h.2.1] at h2; cases h2
        · rw [h.2.2.1] at h3; cases h3) hpost

/-- A precomposed LV syllable followed by an old-Hangul trailing jamo is never composed with it: when the font
    has the syllable and its jamo the result is three tagged jamo (special case of `C12_decompose_LV_T_partial`). -/
theorem C12_old_hangul_LV_T (c : Cfg) (pre post : List G) (s t : G)
    (hs : isCombinedS s.cp = true) (hlv : partT s.cp = TBase) (ht : isT t.cp = true)
    (hold : isCombiningT t.cp = false) (hhas : c.has s.cp = true)
    (hL : c.has (partL s.cp) = true) (hV : c.has (partV s.cp) = true)
    (hpost : ∀ g ∈ post.head?, isTone g.cp = false) :
    ∃ a b r, preprocess c pre = some a ∧ preprocess c post = some b ∧
      preprocess c (pre ++ s :: t :: post) = some r ∧
      keys r = keys a ++ [(partL s.cp, LJMO), (partV s.cp, VJMO), (t.cp, TJMO)] ++ keys b :=
  C12_decompose_LV_T_partial c pre post s t hs hlv ht (by intro h; rw [h.1] at hold; cases hold) hhas hL hV hpost

example := C12_old_hangul_LV ⟨fun _ => true, fun _ => false, false, 0⟩ [] [] ⟨0x1113, 0, 0⟩ ⟨0x1161, 1, 0⟩
  (by decide) (by decide) (by decide) (by simp)
example := C12_old_hangul_LVT ⟨fun _ => true, fun _ => false, false, 0⟩ [] [] ⟨0x1100, 0, 0⟩ ⟨0x1161, 1, 0⟩ ⟨0x11C3, 2, 0⟩
  (by decide) (by decide) (by decide) (by decide) (by simp)
example := C12_old_hangul_LV_T ⟨fun _ => true, fun _ => false, false, 0⟩ [] [] ⟨0xAC00, 0, 0⟩ ⟨0x11C3, 1, 0⟩
  (by decide) (by decide) (by decide) (by decide) (by decide) (by decide) (by decide) (by simp)

/-! ## tone marks -/

/-- A Hangul tone mark directly after a syllable chunk `x :: tail` (any of the shapes above — `syl` is what the
    chunk is rendered as) is moved in front of the syllable, unless it is a zero-width glyph: then it stays behind. -/
theorem C12_tone_after_syllable (c : Cfg) (pre tail post : List G) (x tn : G) (syl : List K)
    (hx : isL x.cp = true ∨ isCombinedS x.cp = true)
    (hp : parse (sup c) (key x) (keys tail ++ key tn :: keys post) = (syl, tail.length)) (hsyl : syl ≠ [])
    (htn : isTone tn.cp = true) :
    ∃ a b r, preprocess c pre = some a ∧ preprocess c post = some b ∧
      preprocess c (pre ++ x :: tail ++ tn :: post) = some r ∧
      keys r = keys a ++ (if c.zeroW tn.cp = true then syl ++ [key tn] else key tn :: syl) ++ keys b := by
  have h : (isV x.cp = false ∧ isT x.cp = false) ∧ isTone x.cp = false := by
    cases hx with
    | inl h => rw [isL_eq] at h; rw [isV_eq, isT_eq, isTone_eq]; exact ⟨isL_not_VT h, isL_not_tone h⟩
    | inr h => rw [isCombinedS_eq] at h; rw [isV_eq, isT_eq, isTone_eq]; exact ⟨isS_not_VT h, isS_not_tone h⟩
  exact preprocess_chunk_tone c pre tail post x tn syl h.1 h.2 hp hsyl htn

example := C12_tone_after_syllable ⟨fun _ => true, fun _ => false, false, 0⟩ [] [⟨0x1161, 1, 0⟩] [] ⟨0x1100, 0, 0⟩
  ⟨0x302E, 2, 0⟩ [(0xAC00, 0)] (by decide) (by decide) (by simp) (by decide)


/-! ## C12_one_cluster -/

/-- **the width test is taken per mark.**  Two syllable chunks in ONE run, each followed by a tone mark (`C12_tone_after_syllable`
    twice): the first mark is placed by `zeroW` of ITS code point, the second by `zeroW` of its own — U+302E and U+302F are two
    glyphs with their own advances, so one may stay behind its syllable while the other moves in front, in either order. -/
theorem C12_tone_marks_each_by_own_width (c : Cfg) (pre tail1 tail2 post : List G) (x1 tn1 x2 tn2 : G) (syl1 syl2 : List K)
    (hx1 : isL x1.cp = true ∨ isCombinedS x1.cp = true)
    (hp1 : parse (sup c) (key x1) (keys tail1 ++ key tn1 :: keys (x2 :: tail2 ++ tn2 :: post)) = (syl1, tail1.length))
    (hs1 : syl1 ≠ []) (ht1 : isTone tn1.cp = true)
    (hx2 : isL x2.cp = true ∨ isCombinedS x2.cp = true)
    (hp2 : parse (sup c) (key x2) (keys tail2 ++ key tn2 :: keys post) = (syl2, tail2.length))
    (hs2 : syl2 ≠ []) (ht2 : isTone tn2.cp = true) :
    ∃ a b r, preprocess c pre = some a ∧ preprocess c post = some b ∧
      preprocess c (pre ++ x1 :: tail1 ++ tn1 :: (x2 :: tail2 ++ tn2 :: post)) = some r ∧
      keys r = keys a ++ (if c.zeroW tn1.cp = true then syl1 ++ [key tn1] else key tn1 :: syl1)
                      ++ (if c.zeroW tn2.cp = true then syl2 ++ [key tn2] else key tn2 :: syl2) ++ keys b := by
  obtain ⟨a, b1, r, ha, hb1, hr, hk⟩ :=
    C12_tone_after_syllable c pre tail1 (x2 :: tail2 ++ tn2 :: post) x1 tn1 syl1 hx1 hp1 hs1 ht1
  obtain ⟨a2, b, r2, ha2, hb, hr2, hk2⟩ := C12_tone_after_syllable c [] tail2 post x2 tn2 syl2 hx2 hp2 hs2 ht2
  have he : preprocess c [] = some [] := by
    unfold preprocess; rw [run]; simp
  rw [he] at ha2
  cases ha2
  rw [List.nil_append] at hr2
  rw [hr2] at hb1
  cases hb1
  refine ⟨a, b, r, ha, hb, hr, ?_⟩
  rw [hk, hk2]
  simp [keys, List.append_assoc]

example := C12_tone_marks_each_by_own_width ⟨fun _ => true, fun u => u == 0x302E, false, 1⟩ [] [] [] []
  ⟨0xAC00, 0, 0⟩ ⟨0x302E, 1, 0⟩ ⟨0xB098, 2, 0⟩ ⟨0x302F, 3, 0⟩ [(0xAC00, 0)] [(0xB098, 0)]
  (by decide) (by decide) (by simp) (by decide) (by decide) (by decide) (by simp) (by decide)

/-- **One cluster, at the iteration.** At cluster level 0 (monotone graphemes), in *any* loop state — whatever is
    already in the out-buffer and whatever follows — the iteration that recognises a syllable at the current
    glyph `x` (i.e. the abstract parser renders it with `syl ≠ []`: any of the composed / decomposed / tagged
    shapes above) appends exactly the glyphs of `syl`, and all of them carry one and the same cluster. -/
theorem C12_one_cluster_step (c : Cfg) (hlev : c.level = 0) (st : St) (x : G) (rest : List G)
    (hi : st.inp = x :: rest) (hnt : isTone x.cp = false)
    (hp : (parse (sup c) (key x) (keys rest)).1 ≠ []) :
    ∃ st', step c st = some st' ∧
      keys (st'.out.take st.out.length) = keys st.out ∧
      keys (st'.out.drop st.out.length) = (parse (sup c) (key x) (keys rest)).1 ∧
      sameCluster (st'.out.drop st.out.length) := by
  obtain ⟨st', hst, _, _, h3, _, _, h6⟩ := step_syllable c st x rest hi hnt hp
  refine ⟨st', hst, ?_, ?_, h6.1 hlev⟩
  · rw [keys_take, h3, List.take_left' (by simp)]
  · rw [keys_drop, h3, List.drop_left' (by simp)]

example := C12_one_cluster_step ⟨fun u => decide (u < 0x2000), fun _ => false, false, 0⟩ rfl
  { out := [], inp := [⟨0xAC01, 7, 0⟩], start := 0, end_ := 0 } ⟨0xAC01, 7, 0⟩ [] rfl (by decide) (by decide)


/-- **One cluster, in the result** (the property's last sentence). Cluster level 0. A syllable chunk `x :: tail`
    anywhere in a text — `syl ≠ []` is what the abstract parser renders it with: a composed syllable, the tagged
    jamo of a decomposed one, tagged conjoining or old jamo, `<LV,T>` as three jamo — ends up, in the buffer
    `preprocess_text_hangul` leaves behind, as the `syl.length` glyphs right after the rendering of the preceding
    text, and all of them carry one cluster. (No tone mark right after the chunk: then it moves in front, see
    `C12_tone_after_syllable`.) The later iterations only merge clusters (`AdjPres` in Lemmas): that is why
    the block formed by the syllable's own iteration (`C12_one_cluster_step`) survives to the end. -/
theorem C12_one_cluster (c : Cfg) (hlev : c.level = 0) (pre tail post : List G) (x : G) (syl : List K)
    (hx : isL x.cp = true ∨ isCombinedS x.cp = true)
    (hp : parse (sup c) (key x) (keys tail ++ keys post) = (syl, tail.length)) (hsyl : syl ≠ [])
    (hpost : ∀ g ∈ post.head?, isTone g.cp = false) :
    ∃ a r, preprocess c pre = some a ∧ preprocess c (pre ++ x :: tail ++ post) = some r ∧
      keys ((r.drop a.length).take syl.length) = syl ∧ sameCluster ((r.drop a.length).take syl.length) := by
  have h : (isV x.cp = false ∧ isT x.cp = false) ∧ isTone x.cp = false := by
    cases hx with
    | inl h => rw [isL_eq] at h; rw [isV_eq, isT_eq, isTone_eq]; exact ⟨isL_not_VT h, isL_not_tone h⟩
    | inr h => rw [isCombinedS_eq] at h; rw [isV_eq, isT_eq, isTone_eq]; exact ⟨isS_not_VT h, isS_not_tone h⟩
  exact one_cluster_chunk c hlev pre tail post x syl h.1 h.2 hp hsyl hpost

/-- Instance: a precomposed syllable the font lacks, decomposed into its jamo — L, V (, T) share one cluster. -/
theorem C12_one_cluster_decomposed (c : Cfg) (hlev : c.level = 0) (pre post : List G) (s : G)
    (hs : isCombinedS s.cp = true) (hno : c.has s.cp = false)
    (hL : c.has (partL s.cp) = true) (hV : c.has (partV s.cp) = true)
    (hT : partT s.cp = TBase ∨ c.has (partT s.cp) = true)
    (hpost : ∀ g ∈ post.head?, (partT s.cp = TBase → isT g.cp = false) ∧ isTone g.cp = false) :
    ∃ a r, preprocess c pre = some a ∧ preprocess c (pre ++ s :: post) = some r ∧
      sameCluster ((r.drop a.length).take (if partT s.cp = TBase then 2 else 3)) := by
  obtain ⟨a, r, ha, hr, _, hc⟩ := C12_one_cluster c hlev pre [] post s _ (Or.inr hs)
    (parse_decompose_S c post s hs hno hL hV hT (fun g hg => (hpost g hg).1)) (by simp)
    (fun g hg => (hpost g hg).2)
  refine ⟨a, r, ha, by simpa using hr, ?_⟩
  have hlen : ([(partL s.cp, LJMO), (partV s.cp, VJMO)] ++ (if partT s.cp = TBase then [] else [(partT s.cp, TJMO)])).length
      = if partT s.cp = TBase then 2 else 3 := by split <;> simp
  rwa [hlen] at hc

example := C12_one_cluster_decomposed ⟨fun u => decide (u < 0x2000), fun _ => false, false, 0⟩ rfl [] [] ⟨0xAC01, 0, 0⟩
  (by decide) (by decide) (by decide) (by decide) (by decide) (by simp)
example := C12_one_cluster ⟨fun u => decide (u < 0x2000), fun _ => false, false, 0⟩ rfl [] [⟨0x1161, 1, 0⟩, ⟨0x11A8, 2, 0⟩] []
  ⟨0x1100, 0, 0⟩ [(0x1100, 1), (0x1161, 2), (0x11A8, 3)] (by decide) (by decide) (by simp) (by simp)

/-! ## C12_planner — the Hangul shaper stays in charge unless `morx` is APPLIED

  Everything above is about `preprocess_text_hangul`, which runs only when the plan's shaper is the Hangul shaper.
  `planShaper cat e` is the planner's choice (`hb_ot_shape_planner_t::new`) from the shaper `cat` of the script and the
  environment `e` = (font has morx, font has GSUB, direction is horizontal).  The property's quantifier leaves out the
  runs that AAT shapes (`applyMorx e`: morx present and — harfbuzz#2124 — the text horizontal or no GSUB to prefer);
  on every other run the script's shaper must be kept, in particular for vertical text on a font with GSUB, morx or not,
  and whatever other tables (kern, GPOS, GDEF) the font has: they are not read (`PlanEnv` has no field for them; the
  `hangul-plan` correspondence varies them on the crate). -/

/-- the script's shaper is replaced only by the dumber shaper and only when morx is applied -/
theorem C12_planner_keeps_shaper (cat : Shaper) (e : PlanEnv) (h : applyMorx e = false) :
    planShaper cat e = cat := by
  simp [planShaper, h]

/-- morx is applied exactly on fonts with morx, for horizontal text or when there is no GSUB (harfbuzz#2124) -/
theorem C12_planner_apply_morx_iff (e : PlanEnv) :
    applyMorx e = true ↔ e.hasMorx = true ∧ (e.horizontal = true ∨ e.hasGsub = false) := by
  cases e with | mk m g h => cases m <;> cases g <;> cases h <;> simp [applyMorx]

/-- vertical text on a font with GSUB: the script's shaper is kept whether or not the font ALSO has a morx table -/
theorem C12_planner_vertical_gsub (cat : Shaper) (e : PlanEnv) (hv : e.horizontal = false) (hg : e.hasGsub = true) :
    planShaper cat e = cat := by
  apply C12_planner_keeps_shaper
  simp [applyMorx, hv, hg]

/-- no morx table: the script's shaper is kept in every direction, with or without GSUB -/
theorem C12_planner_no_morx (cat : Shaper) (e : PlanEnv) (hm : e.hasMorx = false) : planShaper cat e = cat := by
  apply C12_planner_keeps_shaper
  simp [applyMorx, hm]

/-- for Hangul both directions: the plan runs the Hangul shaper iff morx is not applied -/
theorem C12_planner_hangul_iff (e : PlanEnv) : planShaper Shaper.hangul e = Shaper.hangul ↔ applyMorx e = false := by
  cases h : applyMorx e <;> simp [planShaper, h]

/-- the only other outcome is the dumber shaper, and then the run is one the property does not speak about -/
theorem C12_planner_only_downgrade (cat : Shaper) (e : PlanEnv) :
    planShaper cat e = cat ∨
      (planShaper cat e = Shaper.dumber ∧ e.hasMorx = true ∧ (e.horizontal = true ∨ e.hasGsub = false)) := by
  cases h : applyMorx e
  · exact Or.inl (C12_planner_keeps_shaper cat e h)
  · by_cases hc : cat = Shaper.default
    · left; simp [planShaper, hc]
    · right; exact ⟨by simp [planShaper, h, hc], (C12_planner_apply_morx_iff e).1 h⟩

example := C12_planner_keeps_shaper Shaper.hangul ⟨true, true, false⟩ (by decide)
example := C12_planner_vertical_gsub Shaper.hangul ⟨true, true, false⟩ rfl rfl
example := C12_planner_no_morx Shaper.hangul ⟨false, false, true⟩ rfl
example : planShaper Shaper.hangul ⟨true, true, true⟩ = Shaper.dumber := by decide

/-- the environments × directions the compiled crate is probed on: (has GSUB, has morx, direction 0 LTR 1 RTL 2 TTB 3 BTT) -/
def plannerProbeKeys : List (Bool × Bool × Nat) :=
  [false, true].flatMap fun g => [false, true].flatMap fun m => [0, 1, 2, 3].map fun d => (g, m, d)

/-- the compiled crate's planner, probed with script Hang on all 16 (GSUB, morx) × direction combinations, picks the
shaper and the morx decision of the model (regenerated on every run: a planner keyed on anything else breaks this) -/
theorem C12_gen_planner_probe :
    Gen.Hangul.plannerProbe = plannerProbeKeys.map fun (g, m, d) =>
      let e : PlanEnv := ⟨m, g, dirHorizontal d⟩
      (g, m, d, (planShaper Shaper.hangul e).code, applyMorx e) := by
  decide

end RbModel.Hangul
