/-
  C14 — user features act on exactly their cluster range with their value
  (+ the mask-allocation invariants C04/C06 reuse).
  Property theorems only; helper lemmas live in Lemmas/{Feature,Map}.lean.
  Every theorem quantifies over all inputs (all fonts — `Font` is a record of arbitrary functions —,
  all feature lists, all buffers, all constants `Cfg` unless a hypothesis on them is stated; the `_gen`
  theorems instantiate the constants regenerated from the crate).
-/
import RbModel.Lemmas.Map
import RbModel.Lemmas.Feature
import RbModel.Lemmas.FeatureGsub

namespace RbModel.Props.C14
open RbModel.Feature RbModel.Map

/-! ## Feature::new (D15) -/

/-  FULL STATEMENT — FALSE on the current tree (defect D15), kept as the target:

    theorem C14_new_exact (t v : Nat) (s e : Bound) (i : Nat) (hi : i < Feature.U32MAX) :
        covers (Feature.new t v s e) i ↔ Bound.mem s e i

    `Feature::new` maps `a..b` to `end = b-1` and `a..=b` to `end = b`, but `end` is exclusive in
    `set_masks` (`cluster < cluster_end`), so every range with a bounded end loses its last cluster.
    It cannot be repaired in the crate because its own `parse_*` unit tests compare `from_str("kern[3:5]")`
    with `Feature::new(.., 3..=5)`.  Proved instead: the counter-example, the exact forms that are right,
    and the precise shape of the error for bounded ends. -/

/-- counter-theorem (known finding D15): `Feature::new(tag, v, 0..1)` yields the empty range `[0,0)`,
    cluster 0 is in `0..1` but the feature does not act on it. -/
theorem known_C14_feature_new (t v : Nat) :
    Feature.new t v (.included 0) (.excluded 1) = ⟨t, v, 0, 0⟩ ∧
    Bound.mem (.included 0) (.excluded 1) 0 ∧ ¬ covers (Feature.new t v (.included 0) (.excluded 1)) 0 := by
  refine ⟨rfl, by decide, by simp [covers, isGlobal, Feature.new, Feature.U32MAX]⟩

/-- the forms that are right: an unbounded end (`..`, `a..`, `(Excluded a, Unbounded)`), for every start bound,
    every tag/value and every cluster below u32::MAX. -/
theorem C14_new_partial (t v : Nat) (s : Bound) (i : Nat) (hi : i < Feature.U32MAX) :
    covers (Feature.new t v s .unbounded) i ↔ Bound.mem s .unbounded i := by
  unfold covers isGlobal Feature.new Bound.mem Feature.U32MAX at *
  cases s <;> simp <;> omega

example : ∃ i, i < Feature.U32MAX ∧ covers (Feature.new 1 1 (.included 3) .unbounded) i := ⟨5, by decide, by decide⟩

/-- what the bounded-end forms do instead: exactly one cluster short (`a..b` acts on `[a, b-1)`,
    `a..=b` on `[a, b)`), for every start bound. -/
theorem C14_new_bounded_one_short (t v : Nat) (s : Bound) (b i : Nat) (hi : i < Feature.U32MAX) :
    (covers (Feature.new t v s (.excluded b)) i ↔ Bound.mem s .unbounded i ∧ i + 1 < b) ∧
    (covers (Feature.new t v s (.included b)) i ↔ Bound.mem s .unbounded i ∧ i < b) := by
  unfold covers isGlobal Feature.new Bound.mem Feature.U32MAX at *
  cases s <;> simp <;> omega

example : ∃ i, i < Feature.U32MAX ∧ covers (Feature.new 1 1 (.included 3) (.excluded 9)) i := ⟨5, by decide, by decide⟩

/-! ## Feature::from_str -/

open RbModel.Spec.FeatureSyntax in
/-- `from_str` accepts the documented syntax and yields the documented meaning (`Spec/FeatureSyntax.meaning`:
    value from prefix / `=n` / `=on|off`, `[start,end)` with end exclusive and ∞ = u32::MAX), on the token level:
    the form is rendered as `[+-]tag[index][=value]` with every number `n` written as an arbitrary digit string
    `ds n` that is a lexed number (non-empty, digits only, decimal value `n` ≤ i32::MAX); tag = 1..4 tag bytes. -/
theorem C14_parse (ds : Nat → Bytes) (f : Form)
    (h1 : f.tag ≠ []) (h4 : f.tag.length ≤ 4) (ht : ∀ c ∈ f.tag, isTagChar c = true)
    (hn : ∀ n ∈ nums f, Lexed (ds n) n) :
    parse (render ds f) =
      some ⟨(meaning f).tag, (meaning f).value, (meaning f).start, (meaning f).stop⟩ := by
  obtain ⟨pre, tag, index, value⟩ := f
  simp only at h1 h4 ht
  -- what follows the tag is empty or starts with `[` or `=`
  have hrest : ∀ c r, renderIndex ds index ++ renderValue ds value = c :: r → c = 91 ∨ c = 61 := by
    intro c r e
    cases index <;> cases value <;> simp [renderIndex, renderValue] at e <;> omega
  have hv : ∀ c r, renderValue ds value = c :: r → c = 61 := by
    intro c r e
    cases value <;> simp [renderValue] at e <;> omega
  have hne : render ds ⟨pre, tag, index, value⟩ ≠ [] := by
    cases tag with
    | nil => exact absurd rfl h1
    | cons x xs => cases pre <;> simp [render, renderPrefix]
  have hhead := parseHead_render pre tag (renderIndex ds index ++ renderValue ds value) h1 h4 ht
    (fun c r e => by rcases hrest c r e with h | h <;> subst h <;> decide)
    (fun c r e => by rcases hrest c r e with h | h <;> subst h <;> decide)
  have hidx := parseIndices_render ds index (renderValue ds value) hv (by
    intro n h
    apply hn
    rcases h with h | ⟨b, h⟩ | ⟨a, h⟩ <;> subst h <;> simp [nums])
  have hval := fun d => parseValue_render ds d value (by
    intro n h; apply hn; subst h; simp [nums])
  unfold parse
  have : (render ds ⟨pre, tag, index, value⟩).isEmpty = false := by
    cases hr : render ds ⟨pre, tag, index, value⟩ with
    | nil => exact absurd hr hne
    | cons _ _ => rfl
  simp only [this, Bool.false_eq_true, if_false]
  simp only [render] at *
  rw [hhead]
  simp only [hidx, hval]
  cases pre <;> cases index <;> cases value <;> rfl

example : ∃ (ds : Nat → Bytes) (f : RbModel.Spec.FeatureSyntax.Form), f.tag ≠ [] ∧ f.tag.length ≤ 4 ∧
    (∀ c ∈ f.tag, isTagChar c = true) ∧ (∀ n ∈ nums f, Lexed (ds n) n) ∧
    parse (render ds f) = some ⟨1633774708, 2, 3, 5⟩ := by
  refine ⟨fun n => [48 + n], ⟨.none, [97, 97, 108, 116], .range (some 3) (some 5), .num 2⟩, by decide, by decide,
    by decide, ?_, by decide⟩
  intro n hn
  simp [nums] at hn
  rcases hn with h | h | h <;> subst h <;> exact ⟨by decide, by decide, by decide, by decide⟩

/-! ## set_masks -/

/-- `set_masks(value, mask, start, end)`: the buffer keeps its length, glyph ids and clusters; bit `k` of glyph `i`
    becomes bit `k` of `value` iff `mask` has bit `k`, `i < len` and the glyph's cluster lies in `[start,end)`
    (or the pair is the global one); every other bit of every glyph is unchanged. -/
theorem C14_set_masks_exact (gs : List Glyph) (len value mask cs ce : Nat)
    (hm : mask < W32) (hg : ∀ g ∈ gs, g.mask < W32) :
    (setMasks gs len value mask cs ce).length = gs.length ∧
    ∀ i g, gs[i]? = some g →
      ∃ g', (setMasks gs len value mask cs ce)[i]? = some g' ∧ g'.gid = g.gid ∧ g'.cluster = g.cluster ∧
        ∀ k, g'.mask.testBit k =
          if mask.testBit k = true ∧ i < len ∧ ((cs = 0 ∧ ce = Feature.U32MAX) ∨ (cs ≤ g.cluster ∧ g.cluster < ce))
          then value.testBit k else g.mask.testBit k := by
  unfold setMasks
  by_cases h0 : mask = 0
  · subst h0
    simp only [if_true]
    refine ⟨by trivial, fun i g hi => ⟨g, hi, rfl, rfl, fun k => by simp⟩⟩
  · simp only [h0, if_false]
    by_cases hgl : cs = 0 ∧ ce = Feature.U32MAX
    · simp only [hgl, and_self, if_true]
      refine ⟨length_mapPrefix _ _ _, fun i g hi => ?_⟩
      rw [getElem?_mapPrefix, hi]
      have hgm := hg g (List.mem_of_getElem? hi)
      by_cases hl : i < len
      · refine ⟨setMask1 value mask g, by simp [hl], rfl, rfl, fun k => ?_⟩
        rw [testBit_setMask1 value mask g hm hgm]
        by_cases hk : mask.testBit k = true <;> simp [hk, hl]
      · exact ⟨g, by simp [hl], rfl, rfl, fun k => by simp [hl]⟩
    · simp only [hgl, if_false]
      refine ⟨length_mapPrefix _ _ _, fun i g hi => ?_⟩
      rw [getElem?_mapPrefix, hi]
      have hgm := hg g (List.mem_of_getElem? hi)
      by_cases hl : i < len
      · by_cases hr : cs ≤ g.cluster ∧ g.cluster < ce
        · refine ⟨setMask1 value mask g, by simp [hl, hr], rfl, rfl, fun k => ?_⟩
          rw [testBit_setMask1 value mask g hm hgm]
          by_cases hk : mask.testBit k = true <;> simp [hk, hl, hr]
        · refine ⟨g, by simp [hl, hr], rfl, rfl, fun k => ?_⟩
          have : ¬ ((cs = 0 ∧ ce = Feature.U32MAX) ∨ (cs ≤ g.cluster ∧ g.cluster < ce)) := by
            intro h; rcases h with h | h
            · exact hgl h
            · exact hr h
          rw [if_neg (fun h => hr (by simpa [hgl] using h.2.2))]
      · exact ⟨g, by simp [hl], rfl, rfl, fun k => by simp [hl]⟩

example : ∃ (gs : List Glyph) (mask : Nat), mask < W32 ∧ (∀ g ∈ gs, g.mask < W32) ∧ gs[0]? = some ⟨1, 7, 0⟩ :=
  ⟨[⟨1, 7, 0⟩], 48, by decide, by simp [W32], rfl⟩

/-! ## bit allocation (collect_feature_maps) -/

/-- Masks of distinct map entries never overlap, except that entries of global value-1 features all share the
    global bit; an entry that does not use the global bit avoids it, owns `b = min MAX_BITS (bit_storage max_value)`
    contiguous bits (1 ≤ b) starting at its shift, above the first feature bit and below the global bit, and was made
    for an info of the input list.  Holds for every font, every info list (deduplicated or not) and both sort modes,
    also when the 28-bit budget runs out: nothing is ever aliased. -/
theorem C14_bits_disjoint (c : Cfg) (font : Font) (isSimple : Bool) (infos : List Map.Info) (hb : 0 < c.maxBits) :
    let r := collectFeatureMaps c font isSimple infos
    r.feats.Pairwise (fun f g => IsGlobalBit c f ∨ IsGlobalBit c g ∨ f.mask &&& g.mask = 0) ∧
    ∀ f ∈ r.feats, IsGlobalBit c f ∨
      (f.mask &&& c.globalBit = 0 ∧ ∃ b, OwnBits c f b ∧ FromInfo c (dedupInfos c isSimple infos) f b) := by
  have inv := Inv.allocAll c font (dedupInfos c isSimple infos) hb
  have own : ∀ f ∈ (allocAll c font (dedupInfos c isSimple infos)).feats, IsGlobalBit c f ∨
      (f.mask &&& c.globalBit = 0 ∧ ∃ b, OwnBits c f b ∧ FromInfo c (dedupInfos c isSimple infos) f b) := by
    intro f hf
    rcases inv.ok f hf with h | ⟨b, ho, _, hfi⟩
    · exact Or.inl h
    · refine Or.inr ⟨?_, b, ho, hfi⟩
      rw [ho.2.2.2.2]
      exact maskRange_and_pow (Nat.le_of_lt ho.2.2.2.1)
  unfold collectFeatureMaps
  cases isSimple
  · exact ⟨inv.pw, own⟩
  · simp only [if_true]
    have hp := List.mergeSort_perm (allocAll c font (dedupInfos c true infos)).feats (fun a b => decide (a.tag ≤ b.tag))
    refine ⟨(hp.pairwise_iff (fun h => Disj.symm h)).2 inv.pw, fun f hf => own f (hp.mem_iff.1 hf)⟩

example : (0 : Nat) < genCfg.maxBits := by decide

/-- Whenever user features are present (`is_simple = false`: the infos are sorted before the merge), the deduplicated
    infos and the map entries have strictly increasing — hence pairwise distinct — tags: one entry per tag, which is
    what `get_mask`'s binary search relies on (and what makes "the mask of a feature" well defined). -/
theorem C14_feature_tags_distinct (c : Cfg) (font : Font) (infos : List Map.Info) :
    (dedupInfos c false infos).Pairwise (fun a b => a.tag < b.tag) ∧
    (collectFeatureMaps c font false infos).feats.Pairwise (fun f g => f.tag < g.tag) := by
  refine ⟨dedupInfos_sorted c infos, ?_⟩
  obtain ⟨extra, he, hs⟩ := feats_sublist (c := c) font (dedupInfos c false infos) (Alloc.init c)
  have hp : ((dedupInfos c false infos).map (·.tag)).Pairwise (· < ·) :=
    List.pairwise_map.2 (dedupInfos_sorted c infos)
  have hq := List.pairwise_map.1 (hp.sublist hs)
  unfold collectFeatureMaps allocAll
  simp only [Bool.false_eq_true, if_false]
  rw [he]
  simpa [Alloc.init] using hq

/-- The value written by `setup_masks` (`value << shift`, masked) is read back from the glyph as `value mod 2^b`
    by `(glyph_mask & mask) >> shift`, whatever the glyph's other bits were; in particular every value up to
    `max_value` that is below `2^MAX_BITS` comes back unchanged.  (Values ≥ 2^b wrap — this is what the code does;
    it does NOT saturate: see the final report, `value-wraps-mod-256`.) -/
theorem C14_value_recoverable (c : Cfg) (f : FMap) (b v : Nat) (g : Glyph) (hc : c.globalShift ≤ 32)
    (ho : OwnBits c f b) :
    ((setMask1 ((v <<< f.shift) % W32) f.mask g).mask &&& f.mask) >>> f.shift = v % 2 ^ b ∧
    (v < 2 ^ b → ((setMask1 ((v <<< f.shift) % W32) f.mask g).mask &&& f.mask) >>> f.shift = v) := by
  have h32 : f.shift + b ≤ 32 := by have := ho.2.2.2.1; omega
  have e := recover_value f.shift b v g h32
  rw [← ho.2.2.2.2] at e
  exact ⟨e, fun hv => by rw [e, Nat.mod_eq_of_lt hv]⟩

example : OwnBits genCfg ⟨1, none, none, 0, 0, 4, 48, 16, true, true, false, false⟩ 2 := by
  refine ⟨by decide, by decide, by decide, by decide, by decide⟩

/-- `max_value < 2^(bit_storage max_value)`: with `b` as allocated, every `v ≤ max_value` below the 8-bit cap is exact. -/
theorem C14_value_fits (c : Cfg) (info : Map.Info) (v : Nat) (hv : v ≤ info.maxValue) (hcap : v < 2 ^ c.maxBits) :
    v < 2 ^ (min c.maxBits (bitStorage info.maxValue)) := by
  by_cases h : c.maxBits ≤ bitStorage info.maxValue
  · rw [Nat.min_eq_left h]; exact hcap
  · rw [Nat.min_eq_right (by omega)]
    unfold bitStorage
    by_cases h0 : info.maxValue = 0
    · simp [h0]; omega
    · simp only [h0, if_false]
      exact Nat.lt_of_le_of_lt hv Nat.lt_log2_self

example : (3 : Nat) ≤ (⟨1, 0, 5, 0, 0, 0, 0⟩ : Map.Info).maxValue ∧ 3 < 2 ^ genCfg.maxBits := by decide

/-- budget exhaustion (and `max_value = 0`) drops the feature entirely: when the loop reaches an info for which
    `max_value == 0 || next_bit + bits_needed >= GLOBAL_BIT_SHIFT`, the compiled result is the one obtained without
    that info — no entry, no bit, no change of the global mask; later (smaller) features are still served. -/
theorem C14_budget_drop (c : Cfg) (font : Font) (pre post : List Map.Info) (info : Map.Info)
    (h : skipped c (allocAll c font pre) info = true) :
    allocAll c font (pre ++ info :: post) = allocAll c font (pre ++ post) :=
  foldl_drop pre post info (allocStep_skipped h)

example : skipped genCfg (allocAll genCfg ⟨fun _ => false, fun _ => none, fun _ => 0, fun _ _ => none, fun _ _ => none,
    fun _ _ => none⟩ []) ⟨1, 0, 0, 0, 0, 0, 0⟩ = true := by decide

/-- C04's invariant: every allocated mask (and the global mask `reset_masks` writes into every glyph) avoids the
    glyph-flag bits, and every shift is at or above the first feature bit — so `info.mask |= feature_mask` and
    `set_masks` with a feature mask can never touch a flag bit. -/
theorem C04_feature_bits_above_flags (c : Cfg) (font : Font) (isSimple : Bool) (infos : List Map.Info)
    (hb : 0 < c.maxBits) (hflags : c.flagsDefined < 2 ^ c.firstBit) (hfirst : c.firstBit ≤ c.globalShift) :
    let r := collectFeatureMaps c font isSimple infos
    (∀ f ∈ r.feats, f.mask &&& c.flagsDefined = 0 ∧ c.firstBit ≤ f.shift) ∧
    r.globalMask &&& c.flagsDefined = 0 := by
  have inv := Inv.allocAll c font (dedupInfos c isSimple infos) hb
  have hf : ∀ f ∈ (allocAll c font (dedupInfos c isSimple infos)).feats,
      f.mask &&& c.flagsDefined = 0 ∧ c.firstBit ≤ f.shift := by
    intro f hf
    rcases inv.ok f hf with h | ⟨b, ho, _, _⟩
    · rw [h.1, h.2]; exact ⟨pow_and_low hflags hfirst, hfirst⟩
    · rw [ho.2.2.2.2]
      exact ⟨maskRange_and_low (Nat.lt_of_lt_of_le hflags (Nat.pow_le_pow_right (by decide) ho.2.2.1)), ho.2.2.1⟩
  have hg : (allocAll c font (dedupInfos c isSimple infos)).globalMask &&& c.flagsDefined = 0 := by
    apply Nat.eq_of_testBit_eq
    intro k
    rw [Nat.testBit_and, Nat.zero_testBit]
    cases hk : (allocAll c font (dedupInfos c isSimple infos)).globalMask.testBit k
    · simp
    · have hge : c.firstBit ≤ k := by
        rcases inv.gm k hk with h | h
        · omega
        · exact h.1
      simp [testBit_false_of_lt hflags hge]
  unfold collectFeatureMaps
  cases isSimple
  · exact ⟨hf, hg⟩
  · simp only [if_true]
    have hp := List.mergeSort_perm (allocAll c font (dedupInfos c true infos)).feats (fun a b => decide (a.tag ≤ b.tag))
    exact ⟨fun f h => hf f (hp.mem_iff.1 h), hg⟩

/-- the same for the constants of the compiled crate: `mask & 7 = 0`, `shift ≥ 4`, for every font and feature list. -/
theorem C04_feature_bits_above_flags_gen (font : Font) (isSimple : Bool) (infos : List Map.Info) :
    let r := collectFeatureMaps genCfg font isSimple infos
    (∀ f ∈ r.feats, f.mask &&& 7 = 0 ∧ 4 ≤ f.shift) ∧ r.globalMask &&& 7 = 0 :=
  C04_feature_bits_above_flags genCfg font isSimple infos (by decide) (by decide) (by decide)

/-! ## alternates, absent features, value 0 -/

/-- alternate_set.rs: for a lookup whose mask is the mask of an entry owning `b` bits, the index extracted from a
    glyph on which `setup_masks` wrote value `v` is `v mod 2^b`, and the (non-random) alternate chosen is
    `alternates[v mod 2^b - 1]` — none for 0 (feature off) and for an index past the set. -/
theorem C14_alt_index (c : Cfg) (f : FMap) (b v : Nat) (g : Glyph) (alts : List Nat) (rs : Nat)
    (hc : c.globalShift ≤ 32) (hmb : c.maxBits ≤ 16) (ho : OwnBits c f b) (hne : alts ≠ []) :
    let g' := setMask1 ((v <<< f.shift) % W32) f.mask g
    altIndex f.mask g'.mask = v % 2 ^ b ∧
    altApply c alts f.mask g'.mask false rs = (if v % 2 ^ b = 0 then none else alts[v % 2 ^ b - 1]?, rs) := by
  have h32 : f.shift + b ≤ 32 := by have := ho.2.2.2.1; omega
  have hidx : altIndex f.mask (setMask1 ((v <<< f.shift) % W32) f.mask g).mask = v % 2 ^ b := by
    unfold altIndex
    rw [ho.2.2.2.2, trailingZeros_maskRange f.shift b ho.1 h32, Nat.and_comm]
    have e := recover_value f.shift b v g h32
    exact e
  refine ⟨hidx, ?_⟩
  unfold altApply
  have hl : alts.length ≠ 0 := by cases alts <;> simp_all
  have hlt : v % 2 ^ b < 65536 := by
    have h1 : v % 2 ^ b < 2 ^ b := Nat.mod_lt _ (Nat.pow_pos (by decide))
    have h2 : 2 ^ b ≤ 2 ^ 16 := Nat.pow_le_pow_right (by decide) (by have := ho.2.1; omega)
    omega
  simp only [hl, if_false, hidx, Bool.false_eq_true, and_false]
  by_cases h0 : v % 2 ^ b = 0
  · simp [h0]
  · have h1 : ¬ (65535 < v % 2 ^ b) := by omega
    simp [h0, h1]

example : ∃ alts : List Nat, alts ≠ [] := ⟨[1], by simp⟩

/-- a feature the font does not answer to (no language-system or global-search hit, no fallback, not the required
    feature's tag) costs nothing: the allocation is the one obtained without it (no bit is spent, other masks do not
    move), no map entry carries a tag all of whose infos are absent, and `setup_masks` for such a tag
    (`get_mask` = (0,0) ⇒ `set_masks` with mask 0) leaves the buffer as it is. -/
theorem C14_absent_feature_noop (c : Cfg) (font : Font) (pre post : List Map.Info) (info : Map.Info)
    (h : Absent c font info) :
    allocAll c font (pre ++ info :: post) = allocAll c font (pre ++ post) ∧
    (∀ infos : List Map.Info, (∀ i ∈ infos, i.tag = info.tag → Absent c font i) →
      ∀ f ∈ (allocAll c font infos).feats, f.tag ≠ info.tag) ∧
    (∀ (m : Map) (uf : RbModel.Feature.Feature) (gs : List Glyph),
      (∀ f ∈ m.features, f.tag ≠ uf.tag) → setupMasks m [uf] gs = gs) := by
  refine ⟨foldl_drop pre post info allocStep_absent_eq, ?_, ?_⟩
  · intro infos hall f hf htag
    obtain ⟨i, hi, ht, hna⟩ := feats_from font infos infos (Alloc.init c) (fun _ h => h)
      (by intro f hf; simp [Alloc.init] at hf) f hf
    exact hna (hall i hi (ht.trans htag))
  · intro m uf gs hno
    unfold setupMasks
    simp only [List.foldl_cons, List.foldl_nil]
    split
    · rfl
    · have : m.features.find? (fun x => x.tag == uf.tag) = none := by
        rw [List.find?_eq_none]
        intro x hx; simp; exact hno x hx
      simp [Map.getMask, this, setMasks]
where
  allocStep_absent_eq {c : Cfg} {font : Font} {pre : List Map.Info} {info : Map.Info} (h : Absent c font info := by assumption) :
      allocStep c font (allocAll c font pre) info = allocAll c font pre := allocStep_absent h

example : Absent genCfg ⟨fun _ => false, fun _ => none, fun _ => 0, fun _ _ => none, fun _ _ => none,
    fun _ _ => none⟩ ⟨1, 0, 1, 0, 0, 0, 0⟩ := by
  refine ⟨by decide, by decide, ?_⟩
  intro t ht; simp at ht

/-- value 0 disables: (a) an info whose `max_value` is 0 gets no map entry (hence no lookups) whatever the font says,
    and a later global `feat=0` overrides every earlier setting of the same tag in the dedup merge;
    (b) writing value 0 over a range clears all bits of the feature's mask on those glyphs, and a lookup whose mask
    does not meet the glyph mask is not applied there. -/
theorem C14_zero_disables (c : Cfg) (font : Font) :
    (∀ (st : Alloc) (info : Map.Info), info.maxValue = 0 → allocStep c font st info = st) ∧
    (∀ (j i : Map.Info), i.flags &&& c.fGlobal ≠ 0 → i.maxValue = 0 → (mergeInfo c j i).maxValue = 0) ∧
    (∀ (mask : Nat) (g : Glyph), mask < W32 → g.mask < W32 → (setMask1 0 mask g).mask &&& mask = 0) ∧
    (∀ (lk : Lookup) (lm : LMap) (g : Glyph) (rs : Nat), g.mask &&& lm.mask = 0 → applyGlyph c lk lm g rs = (g, rs)) := by
  refine ⟨?_, ?_, ?_, ?_⟩
  · intro st info h0
    exact allocStep_skipped (by simp [skipped, h0])
  · intro j i hg h0
    simp [mergeInfo, hg, h0]
  · intro mask g hm hg
    apply Nat.eq_of_testBit_eq
    intro k
    rw [Nat.testBit_and, testBit_setMask1 0 mask g hm hg, Nat.zero_testBit]
    cases h : mask.testBit k <;> simp
  · intro lk lm g rs h
    simp [applyGlyph, h]

/-! ## lookups shared between features (collect_lookup_stages) -/

/-- A lookup referenced by several features of one stage (salt/ss01, ljmo/vjmo/tjmo, a default-on feature and a user
    feature, the required feature and any other, …) is kept ONCE, and the mask of the kept entry is the UNION of the
    masks of the referencing features — the global bit for the required feature.  For every font, every table, every
    list of map entries and every stage, the lookups the stage appends to the map
    (a) are strictly increasing in the lookup index (one entry per index),
    (b) are exactly the indices some feature of the stage (or the required feature) references,
    (c) have bit `k` in their mask iff a referencing feature has bit `k` in its mask, hence
    (d) act on a glyph (`glyph_mask & lookup_mask ≠ 0`, ot_layout.rs::apply_forward) iff ANY referencing feature is
        on for that glyph.  (With `&=` in place of `|=` in the merge loop the kept mask is the intersection: a lookup
        shared by two features with different bits never fires — seeds C14c / C12c; the map-compile correspondence
        ties this model to the crate.) -/
theorem C14_shared_lookup_mask_union (c : Cfg) (font : Font) (t : Nat) (feats : List FMap) (reqStage : Nat)
    (pauses : List Nat) (st : StageState) (stage : Nat) :
    ∃ added : List LMap,
      (stageStep c font t feats reqStage pauses st stage).lookups = st.lookups ++ added ∧
      added.Pairwise (fun a b => a.index < b.index) ∧
      (∀ i, (RequiredRefs font t reqStage stage i ∨ ∃ f ∈ feats, FeatureRefs font t stage f i) ↔
          ∃ m ∈ added, m.index = i) ∧
      ∀ m ∈ added,
        (∀ k, m.mask.testBit k = true ↔
          (RequiredRefs font t reqStage stage m.index ∧ c.globalBit.testBit k = true) ∨
          ∃ f ∈ feats, FeatureRefs font t stage f m.index ∧ f.mask.testBit k = true) ∧
        (∀ gmask, gmask &&& m.mask ≠ 0 ↔
          (RequiredRefs font t reqStage stage m.index ∧ gmask &&& c.globalBit ≠ 0) ∨
          ∃ f ∈ feats, FeatureRefs font t stage f m.index ∧ gmask &&& f.mask ≠ 0) := by
  obtain ⟨hpw, hmask, _, hsurv⟩ := sortMergeTail_spec (stageTail c font t feats reqStage stage)
  -- membership in the unsorted tail, in terms of the referencing features
  have hmem : ∀ l : LMap, l ∈ stageTail c font t feats reqStage stage ↔
      (RequiredRefs font t reqStage stage l.index ∧ l = ⟨l.index, true, true, false, c.globalBit, false⟩) ∨
      ∃ f ∈ feats, FeatureRefs font t stage f l.index ∧
        l = ⟨l.index, f.autoZwnj, f.autoZwj, f.random, f.mask, f.perSyllable⟩ := by
    intro l
    unfold stageTail
    rw [List.mem_append, List.mem_flatMap, mem_stageReqLookups]
    constructor
    · rintro (h | ⟨f, hf, h⟩)
      · exact Or.inl h
      · exact Or.inr ⟨f, hf, mem_stageFeatLookups.1 h⟩
    · rintro (h | ⟨f, hf, h⟩)
      · exact Or.inl h
      · exact Or.inr ⟨f, hf, mem_stageFeatLookups.2 h⟩
  have hbits : ∀ m ∈ sortMergeTail (stageTail c font t feats reqStage stage), ∀ k, m.mask.testBit k = true ↔
      (RequiredRefs font t reqStage stage m.index ∧ c.globalBit.testBit k = true) ∨
      ∃ f ∈ feats, FeatureRefs font t stage f m.index ∧ f.mask.testBit k = true := by
    intro m hm k
    rw [hmask m hm k]
    constructor
    · rintro ⟨l, hl, hidx, hb⟩
      rcases (hmem l).1 hl with ⟨hr, he⟩ | ⟨f, hf, hr, he⟩
      · refine Or.inl ⟨hidx ▸ hr, ?_⟩
        rw [he] at hb; exact hb
      · refine Or.inr ⟨f, hf, hidx ▸ hr, ?_⟩
        rw [he] at hb; exact hb
    · rintro (⟨hr, hb⟩ | ⟨f, hf, hr, hb⟩)
      · exact ⟨⟨m.index, true, true, false, c.globalBit, false⟩, (hmem _).2 (Or.inl ⟨hr, rfl⟩), rfl, hb⟩
      · exact ⟨⟨m.index, f.autoZwnj, f.autoZwj, f.random, f.mask, f.perSyllable⟩,
          (hmem _).2 (Or.inr ⟨f, hf, hr, rfl⟩), rfl, hb⟩
  refine ⟨sortMergeTail (stageTail c font t feats reqStage stage), ?_, hpw, ?_, ?_⟩
  · unfold stageStep
    simp only []
    split
    · split <;> rfl
    · rfl
  · intro i
    constructor
    · rintro (hr | ⟨f, hf, hr⟩)
      · exact hsurv ⟨i, true, true, false, c.globalBit, false⟩ ((hmem _).2 (Or.inl ⟨hr, rfl⟩))
      · exact hsurv ⟨i, f.autoZwnj, f.autoZwj, f.random, f.mask, f.perSyllable⟩
          ((hmem _).2 (Or.inr ⟨f, hf, hr, rfl⟩))
    · rintro ⟨m, hm, rfl⟩
      -- an entry of the merged list has an index of the tail: the merge never invents one
      exact (sortMergeTail_index_from (stageTail c font t feats reqStage stage) m hm).elim (fun l hl =>
        match (hmem l).1 hl.1 with
        | Or.inl ⟨hr, _⟩ => Or.inl (hl.2 ▸ hr)
        | Or.inr ⟨f, hf, hr, _⟩ => Or.inr ⟨f, hf, hl.2 ▸ hr⟩)
  · intro m hm
    refine ⟨hbits m hm, fun gmask => ?_⟩
    rw [and_ne_zero_iff]
    constructor
    · rintro ⟨k, hg, hk⟩
      rcases (hbits m hm k).1 hk with ⟨hr, hb⟩ | ⟨f, hf, hr, hb⟩
      · exact Or.inl ⟨hr, (and_ne_zero_iff _ _).2 ⟨k, hg, hb⟩⟩
      · exact Or.inr ⟨f, hf, hr, (and_ne_zero_iff _ _).2 ⟨k, hg, hb⟩⟩
    · rintro (⟨hr, hne⟩ | ⟨f, hf, hr, hne⟩)
      · obtain ⟨k, hg, hb⟩ := (and_ne_zero_iff _ _).1 hne
        exact ⟨k, hg, (hbits m hm k).2 (Or.inl ⟨hr, hb⟩)⟩
      · obtain ⟨k, hg, hb⟩ := (and_ne_zero_iff _ _).1 hne
        exact ⟨k, hg, (hbits m hm k).2 (Or.inr ⟨f, hf, hr, hb⟩)⟩

/-- the seed's shape in one line: `ss01` (bit 4) and `ss02` (bit 5) both reference lookup 0 and a third feature
    references lookup 1 — the merge loop (on the sorted list) keeps one entry for lookup 0, mask = 16 ||| 32 (not
    16 &&& 32 = 0). -/
example : mergeLookups ⟨0, true, true, false, 16, false⟩ [⟨0, true, true, false, 32, false⟩,
    ⟨1, true, true, false, 64, false⟩] = [⟨0, true, true, false, 48, false⟩, ⟨1, true, true, false, 64, false⟩] := by
  decide

/-- … and on the seed's font (GSUB only; `ss01` = feature 0 and `ss02` = feature 1 both list lookup 0): both map entries
    reference lookup 0 in stage 0, and the unsorted stage tail holds it twice, once with each feature's mask. -/
example :
    let font : Font := ⟨fun t => t == 0, fun _ => none, fun _ => 1, fun _ _ => none, fun _ _ => none,
      fun t fi => if t = 0 ∧ fi < 2 then some [0] else none⟩
    let f1 : FMap := ⟨1, some 0, none, 0, 0, 4, 16, 16, true, true, false, false⟩
    let f2 : FMap := ⟨2, some 1, none, 0, 0, 5, 32, 32, true, true, false, false⟩
    FeatureRefs font 0 0 f1 0 ∧ FeatureRefs font 0 0 f2 0 ∧
    stageTail genCfg font 0 [f1, f2] 0 0 = [⟨0, true, true, false, 16, false⟩, ⟨0, true, true, false, 32, false⟩] :=
  ⟨⟨rfl, rfl, 0, [0], rfl, rfl, by simp, by decide⟩, ⟨rfl, rfl, 1, [0], rfl, rfl, by simp, by decide⟩,
   by decide +kernel⟩

/-! ## findings of this check, as counter-theorems about the model (replayed on the crate by the search) -/

/-- finding `value-wraps-mod-256`: a value is NOT clamped to the feature's bit width; `2^b` (256 for the 8-bit cap)
    is written as 0, i.e. `aalt=256` / `smcp[0:3]=256` switch the feature off. -/
theorem known_C14_value_wraps (c : Cfg) (f : FMap) (b : Nat) (g : Glyph) (hc : c.globalShift ≤ 32)
    (ho : OwnBits c f b) :
    ((setMask1 ((2 ^ b <<< f.shift) % W32) f.mask g).mask &&& f.mask) >>> f.shift = 0 := by
  rw [(C14_value_recoverable c f b (2 ^ b) g hc ho).1, Nat.mod_self]

/-- finding `ranged-then-global-same-tag`: when a ranged entry `j` of a tag is followed by a global entry `i` of the
    same tag with value 1, the merged info is "global with max_value 1", so its map entry is the shared GLOBAL bit;
    `setup_masks` then writes the ranged entry's value into that bit, and an even value clears it — after which no
    lookup whose mask is the global bit (every default-on feature) applies to that glyph. -/
theorem known_C14_global_bit_alias (c : Cfg) (j i : Map.Info) (v : Nat) (g : Glyph) (lk : Lookup) (lm : LMap) (rs : Nat)
    (hs : c.globalShift < 32) (hg : g.mask < W32)
    (hi : i.flags &&& c.fGlobal ≠ 0) (h1 : i.maxValue = 1) (hv : v % 2 = 0) (hlm : lm.mask = c.globalBit) :
    usesGlobalBit c (mergeInfo c j i) = true ∧
    let g' := setMask1 ((v <<< c.globalShift) % W32) c.globalBit g
    g'.mask &&& c.globalBit = 0 ∧ applyGlyph c lk lm g' rs = (g', rs) := by
  have hgb : c.globalBit < W32 := by
    unfold Cfg.globalBit W32
    exact Nat.lt_of_lt_of_le (Nat.pow_lt_pow_right (by decide) hs) (by decide)
  have hclr : (setMask1 ((v <<< c.globalShift) % W32) c.globalBit g).mask &&& c.globalBit = 0 := by
    apply Nat.eq_of_testBit_eq
    intro k
    rw [Nat.testBit_and, testBit_setMask1 _ _ g hgb hg, Nat.zero_testBit]
    unfold Cfg.globalBit
    rw [Nat.testBit_two_pow]
    by_cases hk : c.globalShift = k
    · subst hk
      have e32 : W32 = 2 ^ 32 := by decide
      have h0 : v.testBit 0 = false := by
        rw [Nat.testBit_zero]; simp [hv]
      have hb : ((v <<< c.globalShift) % W32).testBit c.globalShift = false := by
        rw [e32, Nat.testBit_mod_two_pow, Nat.testBit_shiftLeft, Nat.sub_self, h0]; simp
      simp [hb]
    · simp [hk]
  refine ⟨?_, hclr, ?_⟩
  · have hor : ∀ x y : Nat, (x ||| c.fGlobal ||| y) &&& c.fGlobal = c.fGlobal := by
      intro x y
      apply Nat.eq_of_testBit_eq
      intro k
      simp only [Nat.testBit_and, Nat.testBit_or]
      cases c.fGlobal.testBit k <;> simp
    have hne : c.fGlobal ≠ 0 := by
      intro h0; apply hi; rw [h0]; simp
    simp [usesGlobalBit, mergeInfo, hi, h1, hor, hne]
  · exact (C14_zero_disables c ⟨fun _ => false, fun _ => none, fun _ => 0, fun _ _ => none, fun _ _ => none,
      fun _ _ => none⟩).2.2.2 lk lm _ rs (by rw [hlm]; exact hclr)

example : genCfg.globalShift < 32 ∧ (⟨1, 1, 1, 1, 1, 0, 0⟩ : Map.Info).flags &&& genCfg.fGlobal ≠ 0 := by decide

/-- finding `shared-alternate-lookup` (alternate_set.rs: "This breaks badly if two features enabled this lookup together"):
    when an ALTERNATE lookup is referenced by two features that own the bit fields `[sA, sA+bA)` and `[sB, sB+bB)` (A below
    B), its mask is the union of both (`C14_shared_lookup_mask_union`) and the alternate index is read from that union
    shifted by the LOWER field's shift: on a glyph where only B is on, with value `v`, the index is `v · 2^(sB-sA)`, not
    `v` — `salt[0:1]=1, ss01[2:3]=1` on one alternate lookup picks alternate 2 at cluster 2.  Same in HarfBuzz. -/
theorem known_C14_shared_alternate_index (sA bA sB bB v : Nat) (hA : 1 ≤ bA) (hAB : sA + bA ≤ sB) (hB : sB + bB ≤ 32)
    (hv : v < 2 ^ bB) (h0 : v ≠ 0) :
    altIndex (maskRange sA bA ||| maskRange sB bB) (v <<< sB) = v <<< (sB - sA) ∧
    altIndex (maskRange sA bA ||| maskRange sB bB) (v <<< sB) ≠ v := by
  have hlm : maskRange sA bA ||| maskRange sB bB < W32 := by
    have h1 : maskRange sA bA < 2 ^ 32 := maskRange_lt sA bA 32 (by omega)
    have h2 : maskRange sB bB < 2 ^ 32 := maskRange_lt sB bB 32 hB
    exact Nat.or_lt_two_pow h1 h2
  have hne : (maskRange sA bA ||| maskRange sB bB) % W32 ≠ 0 := by
    rw [Nat.mod_eq_of_lt hlm]
    intro hz
    have : (maskRange sA bA ||| maskRange sB bB).testBit sA = true := by
      rw [Nat.testBit_or, testBit_maskRange]; simp; omega
    rw [hz, Nat.zero_testBit] at this
    exact absurd this (by decide)
  have htz : trailingZeros (maskRange sA bA ||| maskRange sB bB) = sA := by
    unfold trailingZeros
    simp only [hne, if_false]
    apply trailingZeros_go_lowest sA 32 _ (by omega)
    · intro k hk
      rw [Nat.testBit_or, testBit_maskRange, testBit_maskRange]
      have h1 : ¬ sA ≤ k := by omega
      have h2 : ¬ sB ≤ k := by omega
      simp [h1, h2]
    · rw [Nat.testBit_or, testBit_maskRange]; simp; omega
  have hidx : altIndex (maskRange sA bA ||| maskRange sB bB) (v <<< sB) = v <<< (sB - sA) := by
    unfold altIndex
    rw [htz]
    apply Nat.eq_of_testBit_eq
    intro j
    simp only [Nat.testBit_shiftRight, Nat.testBit_and, Nat.testBit_or, testBit_maskRange, Nat.testBit_shiftLeft]
    by_cases h1 : sB ≤ sA + j
    · have e : sA + j - sB = j - (sB - sA) := by omega
      have h2 : sB - sA ≤ j := by omega
      by_cases h3 : sA + j < sB + bB
      · simp [h1, h2, h3, e]
      · have : v.testBit (j - (sB - sA)) = false := testBit_false_of_lt hv (by omega)
        simp [h1, h2, e, this]
    · have h2 : ¬ sB - sA ≤ j := by omega
      simp [h1, h2]
  refine ⟨hidx, ?_⟩
  rw [hidx, Nat.shiftLeft_eq]
  have hp : 2 ≤ 2 ^ (sB - sA) := by
    have : 2 ^ 1 ≤ 2 ^ (sB - sA) := Nat.pow_le_pow_right (by decide) (by omega)
    simpa using this
  intro he
  have : v * 2 ≤ v * 2 ^ (sB - sA) := Nat.mul_le_mul_left v hp
  omega

example : (1 : Nat) ≤ 1 ∧ 4 + 1 ≤ 5 ∧ 5 + 1 ≤ 32 ∧ (1 : Nat) < 2 ^ 1 ∧ (1 : Nat) ≠ 0 := by decide

/-! ## the lookup drivers honour the feature masks: reverse chaining lookups (`apply_backward`) -/

/-- `apply_string` on a lookup made of ReverseChainSingleSubst subtables (the only lookups `apply_backward` drives), for every
    font, lookup flag, buffer content and position budget: the buffer keeps its length, and the glyph id of a position
    changes ONLY IF the glyph that stood there carries a bit of the lookup mask — i.e. only where the feature that owns the
    lookup is on.  `K` is any lookup mask that avoids the glyph-flag bits (`C04_feature_bits_above_flags`: every mask the
    feature map hands out does); the matching code ORs such flag bits into neighbouring masks as it goes, which is why the
    statement is about the masks the glyphs had when the lookup started. -/
theorem C14_reverse_lookup_respects_mask (K : Nat) (hflag : RbModel.Flag.DEFINED &&& K = 0)
    (l : RbModel.Gsub.Lookup) (hrev : l.reverse = true) (c c' : RbModel.Gsub.Ctx) (fuel : Nat)
    (hmask : c.lookupMask = K) (h : RbModel.Gsub.applyString c l fuel = .ok c') :
    c'.buf.info.length = c.buf.info.length ∧ c'.buf.len = c.buf.len ∧
    ∀ (j : Nat) (x x' : RbModel.Info), c.buf.info[j]? = some x → c'.buf.info[j]? = some x' →
      x'.gid ≠ x.gid → x.mask &&& K ≠ 0 := by
  have hall : l.subtables.all RbModel.Gsub.Subtable.isReverse = true := by
    unfold RbModel.Gsub.Lookup.reverse at hrev
    simp only [Bool.and_eq_true] at hrev
    exact hrev.2
  unfold RbModel.Gsub.applyString at h
  simp only [hrev] at h
  split at h
  · cases h
    refine ⟨rfl, rfl, ?_⟩
    intro j x x' hx hx' hne
    rw [hx] at hx'; cases hx'; exact absurd rfl hne
  · simp only [Bool.not_true, Bool.false_eq_true, if_false] at h
    split at h
    · cases h
    · have key := RbModel.Gsub.applyBackward_respects_mask K hflag l hall _ _ c' (by exact hmask) h
      exact key


/-- non-vacuity, and the statement at work: a reverse chaining lookup `1 → 2` (no context) with lookup mask 16 on the
    glyphs 1 1 1 of which only the middle one carries bit 16 (the feature ranged over cluster 1): exactly that glyph is
    substituted.  (With the mask test of `apply_backward` gone, all three would be.) -/
example :
    let l : RbModel.Gsub.Lookup := { props := 0, subtables := [.reverse [1] [] [] [2]] }
    let c : RbModel.Gsub.Ctx := { buf := { info := [⟨1, 0, 0, 0, 3⟩, ⟨1, 16, 1, 0, 3⟩, ⟨1, 0, 2, 0, 3⟩], out := [{}, {}, {}], len := 3 },
                                   font := { lookups := [l] }, lookupMask := 16 }
    l.reverse = true ∧ RbModel.Flag.DEFINED &&& c.lookupMask = 0 ∧
      (match RbModel.Gsub.applyString c l 100 with
       | .ok c' => c'.buf.info.map (·.gid)
       | .error _ => []) = [1, 2, 1] := by decide

/-- The composition with `set_masks`: a feature that is off by default (no glyph carries a bit of its mask `K` after
    `reset_masks(global_mask)`) is given a value on the cluster range `[cs, ce)` (not the global pair); a reverse chaining
    lookup that belongs to that feature alone (lookup mask `K`) then leaves every glyph whose cluster lies OUTSIDE the
    range with its glyph id — whatever the value, the font, the lookup's coverages and contexts. -/
theorem C14_reverse_lookup_acts_inside_range (gs : List Glyph) (value K cs ce : Nat) (hK : K < W32)
    (hg : ∀ g ∈ gs, g.mask < W32) (hoff : ∀ g ∈ gs, g.mask &&& K = 0) (hflag : RbModel.Flag.DEFINED &&& K = 0)
    (hr : ¬ (cs = 0 ∧ ce = Feature.U32MAX))
    (l : RbModel.Gsub.Lookup) (hrev : l.reverse = true) (c c' : RbModel.Gsub.Ctx) (fuel : Nat) (hmask : c.lookupMask = K)
    (hbuf : c.buf.info.map (fun x => (x.mask, x.cluster)) =
            (setMasks gs gs.length value K cs ce).map (fun g => (g.mask, g.cluster)))
    (h : RbModel.Gsub.applyString c l fuel = .ok c') :
    c'.buf.info.length = c.buf.info.length ∧
    ∀ (j : Nat) (x x' : RbModel.Info), c.buf.info[j]? = some x → c'.buf.info[j]? = some x' →
      ¬ (cs ≤ x.cluster ∧ x.cluster < ce) → x'.gid = x.gid := by
  obtain ⟨hlen, _, hgid⟩ := C14_reverse_lookup_respects_mask K hflag l hrev c c' fuel hmask h
  refine ⟨hlen, ?_⟩
  intro j x x' hx hx' hout
  apply Classical.byContradiction
  intro hne
  apply hgid j x x' hx hx' hne
  -- the glyph at j after set_masks
  obtain ⟨hl, hex⟩ := C14_set_masks_exact gs gs.length value K cs ce hK hg
  have hj : ((c.buf.info.map (fun x => (x.mask, x.cluster)))[j]?) = some (x.mask, x.cluster) := by
    rw [List.getElem?_map, hx]; rfl
  rw [hbuf, List.getElem?_map] at hj
  cases hs : (setMasks gs gs.length value K cs ce)[j]? with
  | none => rw [hs] at hj; cases hj
  | some g' =>
    rw [hs] at hj
    simp only [Option.map_some, Option.some.injEq, Prod.mk.injEq] at hj
    obtain ⟨hm, hc⟩ := hj
    have hjl : j < gs.length := by
      rw [← hl]; exact (List.getElem?_eq_some_iff.1 hs).1
    obtain ⟨g'', hg'', _, hcl, hbits⟩ := hex j gs[j] (List.getElem?_eq_getElem hjl)
    rw [hs] at hg''; cases hg''
    have hg0 := hoff gs[j] (List.getElem_mem hjl)
    apply Nat.eq_of_testBit_eq
    intro k
    rw [← hm, Nat.testBit_and, hbits k, Nat.zero_testBit]
    have hnot : ¬ (K.testBit k = true ∧ j < gs.length ∧ ((cs = 0 ∧ ce = Feature.U32MAX) ∨ (cs ≤ gs[j].cluster ∧ gs[j].cluster < ce))) := by
      intro hh
      rcases hh.2.2 with h1 | h1
      · exact hr h1
      · apply hout; rw [← hc, hcl]; exact h1
    rw [if_neg hnot]
    have := congrArg (fun n => n.testBit k) hg0
    simpa [Nat.testBit_and] using this

example : ∃ (gs : List Glyph) (K : Nat), K < W32 ∧ (∀ g ∈ gs, g.mask < W32) ∧ (∀ g ∈ gs, g.mask &&& K = 0) ∧
    RbModel.Flag.DEFINED &&& K = 0 ∧ gs ≠ [] :=
  ⟨[⟨1, 2147483648, 0⟩], 16, by decide, by simp [W32], by simp, by decide, by simp⟩

end RbModel.Props.C14
