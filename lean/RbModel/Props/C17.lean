import RbModel.Morx
namespace RbModel.Morx
theorem C17_stub : True := trivial
end RbModel.Morx
