/-
  C17 — AAT morx subtables run as the extended state-machine model prescribes.
  Property theorems only; helper lemmas are in Lemmas/Morx.lean, the declarative side in Spec/Aat.lean.
-/
import RbModel.Lemmas.Morx

namespace RbModel.Morx
open RbModel.Spec.Aat

/-! ## rearrangement -/

/-- **C17_rearrange.** For every one of the 16 verbs, every choice of the glyph records `A B C D`, every
    middle run `x` (any length, any content) and every surrounding context, the nibble-driven code of
    `RearrangementCtx::transition` (decoded `MAP[verb]`, the `buf[4]` juggling and the two directional
    copy loops) turns a marked range that matches the left pattern of Apple's verb table into the right
    pattern — and the result is a permutation of the records of the range.
    A range that instantiates the left pattern is exactly a range that is "long enough" for the verb
    (`l + r ≤ end - start`, third conjunct). The MAP table is the one regenerated from the Rust source
    (`Gen.Morx.rearrMap`), so a changed nibble breaks this theorem. -/
theorem C17_rearrange (v : Nat) (hv : v < 16) (σ : Asg G) (pre post : List G) :
    rearrangeCore (pre ++ inst σ (verbTable v).1 ++ post).toArray pre.length
        (pre.length + (inst σ (verbTable v).1).length)
        (verbParams v).1 (verbParams v).2.1 (verbParams v).2.2.1 (verbParams v).2.2.2
      = .ok (pre ++ inst σ (verbTable v).2 ++ post).toArray
    ∧ (inst σ (verbTable v).2).Perm (inst σ (verbTable v).1)
    ∧ (verbParams v).1 + (verbParams v).2.1 ≤ (inst σ (verbTable v).1).length :=
  ⟨rearrange_table σ pre post v hv, inst_perm_table σ v hv, inst_long_enough σ v hv⟩

/-- non-vacuity / sanity: verb 11 (`ABxD ⇒ DxBA`) on a concrete buffer with a 3-glyph middle. -/
example :
    rearrangeCore #[⟨9, 0⟩, ⟨1, 1⟩, ⟨2, 2⟩, ⟨5, 3⟩, ⟨6, 4⟩, ⟨7, 5⟩, ⟨4, 6⟩, ⟨8, 7⟩] 1 7
        (verbParams 11).1 (verbParams 11).2.1 (verbParams 11).2.2.1 (verbParams 11).2.2.2
      = .ok #[⟨9, 0⟩, ⟨4, 6⟩, ⟨5, 3⟩, ⟨6, 4⟩, ⟨7, 5⟩, ⟨2, 2⟩, ⟨1, 1⟩, ⟨8, 7⟩] := by rfl

/-- the executable form of the verb table (used by the search oracle) agrees with the pattern form. -/
theorem C17_rearrange_applyVerb (v : Nat) (hv : v < 16) (σ : Asg G) :
    applyVerb v (inst σ (verbTable v).1) = some (inst σ (verbTable v).2) :=
  applyVerb_inst σ v hv

/-! ## the driver terminates -/

/-- **C17_drive_terminates** (in-place subtables: rearrangement and contextual).
    `driveLoopO` is defined by well-founded recursion on `psi` = the code's own budget (remaining `max_ops`,
    look-ahead), with a guard that returns `none` if an iteration fails to decrease it. For every state
    table, every lookup, every buffer in the in-place mode (`have_output = false`, `idx ≤ len`) the guard
    never fires, and the loop performs at most `(len - idx) + max(max_ops, 0) + 1` iterations:
    an iteration either consumes a glyph or — only with DONT_ADVANCE — one unit of `max_ops`, and once
    `max_ops ≤ 0` it always consumes a glyph. -/
theorem C17_drive_terminates (m : Machine) (rf : Array Range) (sf : Nat) (b : Buf) (cs : CS) (st : Nat)
    (lr : Option Nat) (steps : Nat) (ho : b.haveOutput = false) (hi : b.idx ≤ b.len) :
    (driveLoopO m rearrCtx rf sf b cs st lr steps ≠ .ok none ∧
      ∀ b' k, driveLoopO m rearrCtx rf sf b cs st lr steps = .ok (some (b', k)) →
        k ≤ steps + (b.len - b.idx) + b.maxOps.toNat + 1) ∧
    (∀ lks : Nat → Option Lookup,
      driveLoopO m (ctxCtx lks) rf sf b cs st lr steps ≠ .ok none ∧
      ∀ b' k, driveLoopO m (ctxCtx lks) rf sf b cs st lr steps = .ok (some (b', k)) →
        k ≤ steps + (b.len - b.idx) + b.maxOps.toNat + 1) := by
  constructor
  · have := driveLoop_inplace (m := m) rearr_keepsCtl rf sf (mu b) b cs st lr steps (Nat.le_refl _) ho hi
    exact ⟨this.1, fun b' k h => by have := this.2 b' k h; simp only [mu] at this; omega⟩
  · intro lks
    have := driveLoop_inplace (m := m) (ctx_keepsCtl lks) rf sf (mu b) b cs st lr steps (Nat.le_refl _) ho hi
    exact ⟨this.1, fun b' k h => by have := this.2 b' k h; simp only [mu] at this; omega⟩

/-- non-vacuity of the hypotheses: the state `drive` starts an in-place subtable in. -/
example : ∃ b : Buf, b.haveOutput = false ∧ b.idx ≤ b.len ∧ b.len = 3 ∧ b.maxOps = 16384 :=
  ⟨{ info := #[⟨1, 0⟩, ⟨2, 1⟩, ⟨3, 2⟩], out := #[], idx := 0, len := 3, outLen := 0,
     haveOutput := false, sepOut := false, successful := true, maxLen := 16384, maxOps := 16384,
     level := 0, backward := false, vertical := false }, rfl, by decide, rfl, rfl⟩

end RbModel.Morx
