/-
  C17 — AAT morx subtables run as the extended state-machine model prescribes.
  Property theorems only; helper lemmas are in Lemmas/Morx.lean, the declarative side in Spec/Aat.lean.
-/
import RbModel.Lemmas.Morx
import RbModel.Lemmas.MorxPurge
import RbModel.Lemmas.MorxOffRange
import RbModel.Lemmas.MorxIns
import RbModel.Lemmas.MorxLig

namespace RbModel.Morx
open RbModel.Spec.Aat

/-! ## rearrangement -/

/-- **C17_rearrange.** For every one of the 16 verbs, every choice of the glyph records `A B C D`, every
    middle run `x` (any length, any content) and every surrounding context, the nibble-driven code of
    `RearrangementCtx::transition` (decoded `MAP[verb]`, the `buf[4]` juggling and the two directional
    copy loops) turns a marked range that matches the left pattern of Apple's verb table into the right
    pattern — and the result is a permutation of the records of the range.
    A range that instantiates the left pattern is exactly a range that is "long enough" for the verb
    (`l + r ≤ end - start`, third conjunct). The MAP table is the one regenerated from the Rust source
    (`Gen.Morx.rearrMap`), so a changed nibble breaks this theorem. -/
theorem C17_rearrange (v : Nat) (hv : v < 16) (σ : Asg G) (pre post : List G) :
    rearrangeCore (pre ++ inst σ (verbTable v).1 ++ post).toArray pre.length
        (pre.length + (inst σ (verbTable v).1).length)
        (verbParams v).1 (verbParams v).2.1 (verbParams v).2.2.1 (verbParams v).2.2.2
      = .ok (pre ++ inst σ (verbTable v).2 ++ post).toArray
    ∧ (inst σ (verbTable v).2).Perm (inst σ (verbTable v).1)
    ∧ (verbParams v).1 + (verbParams v).2.1 ≤ (inst σ (verbTable v).1).length :=
  ⟨rearrange_table σ pre post v hv, inst_perm_table σ v hv, inst_long_enough σ v hv⟩

/-- non-vacuity / sanity: verb 11 (`ABxD ⇒ DxBA`) on a concrete buffer with a 3-glyph middle. -/
example :
    rearrangeCore #[⟨9, 0⟩, ⟨1, 1⟩, ⟨2, 2⟩, ⟨5, 3⟩, ⟨6, 4⟩, ⟨7, 5⟩, ⟨4, 6⟩, ⟨8, 7⟩] 1 7
        (verbParams 11).1 (verbParams 11).2.1 (verbParams 11).2.2.1 (verbParams 11).2.2.2
      = .ok #[⟨9, 0⟩, ⟨4, 6⟩, ⟨5, 3⟩, ⟨6, 4⟩, ⟨7, 5⟩, ⟨2, 2⟩, ⟨1, 1⟩, ⟨8, 7⟩] := by rfl

/-- the executable form of the verb table (used by the search oracle) agrees with the pattern form. -/
theorem C17_rearrange_applyVerb (v : Nat) (hv : v < 16) (σ : Asg G) :
    applyVerb v (inst σ (verbTable v).1) = some (inst σ (verbTable v).2) :=
  applyVerb_inst σ v hv

/-- **C17_rearrange_transition** (`_partial`: cluster level 2). The whole `RearrangementCtx::transition`
    for an entry whose flags are just a verb, on a buffer at cluster level CHARACTERS (where `merge_clusters`
    leaves the records alone): the marked range is rewritten exactly as Apple's table says and nothing
    else changes. At levels 0/1 the same holds for the records *after* the two `merge_clusters` calls
    (`C17_rearrange` is stated on the vector, whatever its cluster values); that the merges keep glyph ids
    and positions is covered by the correspondence only. -/
theorem C17_rearrange_transition_partial (v : Nat) (hv : v < 16) (hv0 : v ≠ 0) (σ : Asg G) (pre post : List G)
    (b : Buf) (cs : CS) (ns x1 x2 : Nat)
    (hinfo : b.info = (pre ++ inst σ (verbTable v).1 ++ post).toArray) (hlvl : b.level = 2)
    (hs : cs.start = pre.length) (he : cs.end_ = pre.length + (inst σ (verbTable v).1).length)
    (hlen : (inst σ (verbTable v).1).length ≤ RbModel.Gen.Morx.MAX_CONTEXT_LENGTH)
    (hne : 0 < (inst σ (verbTable v).1).length) :
    rearrTransition cs ⟨ns, v, x1, x2⟩ b =
      .ok (cs, { b with info := (pre ++ inst σ (verbTable v).2 ++ post).toArray }) :=
  rearrTransition_level2 v hv hv0 σ pre post b cs ns x1 x2 hinfo hlvl hs he hlen hne

example : ∃ (σ : Asg G), 0 < (inst σ (verbTable 3).1).length ∧
    (inst σ (verbTable 3).1).length ≤ RbModel.Gen.Morx.MAX_CONTEXT_LENGTH :=
  ⟨⟨⟨1, 0⟩, ⟨2, 1⟩, ⟨3, 2⟩, ⟨4, 3⟩, [⟨5, 4⟩, ⟨6, 5⟩]⟩, by decide, by decide⟩

/-! ## the driver terminates -/

/-- **C17_drive_terminates** (`_partial`: the in-place subtables, rearrangement and contextual; full statement below).
    `driveLoopO` is defined by well-founded recursion on `psi` = the code's own budget (remaining `max_ops`,
    look-ahead), with a guard that returns `none` if an iteration fails to decrease it. For every state
    table, every lookup, every buffer in the in-place mode (`have_output = false`, `idx ≤ len`) the guard
    never fires, and the loop performs at most `(len - idx) + max(max_ops, 0) + 1` iterations:
    an iteration either consumes a glyph or — only with DONT_ADVANCE — one unit of `max_ops`, and once
    `max_ops ≤ 0` it always consumes a glyph. -/
theorem C17_drive_terminates_partial (m : Machine) (rf : Array Range) (sf : Nat) (b : Buf) (cs : CS) (st : Nat)
    (lr : Option Nat) (steps : Nat) (ho : b.haveOutput = false) (hi : b.idx ≤ b.len) :
    (driveLoopO m rearrCtx rf sf b cs st lr steps ≠ .ok none ∧
      ∀ b' k, driveLoopO m rearrCtx rf sf b cs st lr steps = .ok (some (b', k)) →
        k ≤ steps + (b.len - b.idx) + b.maxOps.toNat + 1) ∧
    (∀ lks : Nat → Option Lookup,
      driveLoopO m (ctxCtx lks) rf sf b cs st lr steps ≠ .ok none ∧
      ∀ b' k, driveLoopO m (ctxCtx lks) rf sf b cs st lr steps = .ok (some (b', k)) →
        k ≤ steps + (b.len - b.idx) + b.maxOps.toNat + 1) := by
  constructor
  · have := driveLoop_inplace (m := m) rearr_keepsCtl rf sf (mu b) b cs st lr steps (Nat.le_refl _) ho hi
    exact ⟨this.1, fun b' k h => by have := this.2 b' k h; simp only [mu] at this; omega⟩
  · intro lks
    have := driveLoop_inplace (m := m) (ctx_keepsCtl lks) rf sf (mu b) b cs st lr steps (Nat.le_refl _) ho hi
    exact ⟨this.1, fun b' k h => by have := this.2 b' k h; simp only [mu] at this; omega⟩

/-- non-vacuity of the hypotheses: the state `drive` starts an in-place subtable in. -/
example : ∃ b : Buf, b.haveOutput = false ∧ b.idx ≤ b.len ∧ b.len = 3 ∧ b.maxOps = 16384 :=
  ⟨{ info := #[⟨1, 0⟩, ⟨2, 1⟩, ⟨3, 2⟩], out := #[], idx := 0, len := 3, outLen := 0,
     haveOutput := false, sepOut := false, successful := true, maxLen := 16384, maxOps := 16384,
     level := 0, backward := false, vertical := false }, rfl, by decide, rfl, rfl⟩

/- Full statement of C17_drive_terminates for the two subtable types that use the out-buffer
   (ligature, insertion):
     ∀ m t b …, driveLoopO m (ligCtx t) rf sf b cs st lr steps ≠ .ok none   (same for insCtx)
   Not proved here: it needs the zipper refinement of move_to / make_room_for / shift_forward for this
   file's buffer representation (the shared buffer model has it: Lemmas/BufZipper.lean, valid for the repaired
   variants). The guard is monitored instead: it never fired in the `morx-run` correspondence streams (the
   driver turns it into `panic budget`). History: before the fix "morx insertion subtable inserts nothing when
   the glyph list reaches past the insertion table" the linear budget was *not* an invariant of the insertion
   subtable (the early return left the buffer rewound at the mark) and a 3-glyph text could take cubic time;
   the lexicographic `psi` still decreased. -/

/-! ## feature flags -/

/-- **C17_flags** (which subtables run). In a chain whose compiled flags are a single range `r`
    (no user feature with a sub-range), for every subtable action `act`:
    a subtable is skipped iff `feature_flags & flags = 0`; otherwise — if its orientation fits the text —
    `act` runs exactly once, between the two `reverse()` calls when the coverage asks for it. -/
theorem C17_flags (act : Subtable → Array Range → Buf → M Buf) (s : Subtable) (r : Range) (b : Buf) :
    (s.featureFlags &&& r.flags = 0 → applySubtableBracket act s #[r] b = .ok b) ∧
    (s.featureFlags &&& r.flags ≠ 0 → (s.isAllDirections || b.vertical == s.isVertical) = true →
      applySubtableBracket act s #[r] b =
        if subtableReverse s b then (do let b ← reverse b; let b ← act s #[r] b; reverse b)
        else act s #[r] b) := by
  constructor
  · intro h
    simp [applySubtableBracket, subtableRuns_single, h]; rfl
  · intro h hd
    have : subtableRuns s #[r] b = true := by
      rw [subtableRuns_single, hd]; simp [h]
    simp only [applySubtableBracket, this, Bool.not_true, Bool.false_eq_true, if_false]
    cases subtableReverse s b <;> simp [bind, Except.bind, pure, Except.pure]
    all_goals (cases act s #[r] b <;> rfl)

/-- non-vacuity: flags 0x4 & 0x6 ≠ 0, all-directions subtable. -/
example : ∃ (s : Subtable) (r : Range) (b : Buf), s.featureFlags &&& r.flags ≠ 0 ∧
    (s.isAllDirections || b.vertical == s.isVertical) = true :=
  ⟨⟨0x20, 4, .noncontextual (fun _ => none)⟩, ⟨6, 0, 0xFFFFFFFF⟩, default, by decide, by decide⟩

/-- **C17_flags_compile.** The loop of `compile_flags` over a chain's feature entries is Apple's rule:
    start from the default flags; for every entry whose (type, setting) is requested,
    `flags = (flags & disable_flags) | enable_flags` — where "requested" is membership in the sorted
    current features, plus the deprecated small-caps stand-in (letter case, small caps) for
    (lower case, small caps). -/
theorem C17_flags_compile (cur : List FeatInfo) (d : Nat) (fs : List (Nat × Nat × Nat × Nat)) :
    chainFlags cur d fs = chainFlagsSpec (requestedOf cur) d fs := chainFlags_spec cur fs d

open RbModel.Gen.Morx in
/-- **C17_compile_flags_order.** For every entry list the compiled chain flags are the left fold, in table order, of ONE
    operation — if the entry is requested then `(flags &&& disable) ||| enable` (clear first, then set) else `flags` — and the
    deprecated small-caps stand-in goes through the same operation as an entry that is requested directly: appending the entry
    (Letter Case 3, Small Caps 3) when (Lower Case 37, Small Caps 1) is requested, or any entry whose own (type, selector) is
    requested, to any entry list gives `(flags so far &&& disable) ||| enable`.  With exclusive-group masks (`disable` clears
    the whole group, the selector's own bit included) the two masks do not commute: the selector's bit must survive. -/
theorem C17_compile_flags_order (cur : List FeatInfo) (d : Nat) (fs : List (Nat × Nat × Nat × Nat)) :
    chainFlags cur d fs =
      fs.foldl (fun flags f => if requestedOf cur f.1 f.2.1 then (flags &&& f.2.2.2) ||| f.2.2.1 else flags) d
    ∧ (∀ en dis, hasFeature cur FEATURE_TYPE_LOWER_CASE FEATURE_SELECTOR_LOWER_CASE_SMALL_CAPS = true →
        chainFlags cur d (fs ++ [(FEATURE_TYPE_LETTER_CASE, FEATURE_SELECTOR_SMALL_CAPS, en, dis)])
          = (chainFlags cur d fs &&& dis) ||| en)
    ∧ (∀ ty s en dis, hasFeature cur ty s = true →
        chainFlags cur d (fs ++ [(ty, s, en, dis)]) = (chainFlags cur d fs &&& dis) ||| en) := by
  refine ⟨?_, ?_, ?_⟩
  · rw [chainFlags_spec]
    induction fs generalizing d with
    | nil => rfl
    | cons f fs ih =>
      obtain ⟨ty, s, en, dis⟩ := f
      simp only [chainFlagsSpec, List.foldl_cons]
      exact ih _
  · intro en dis h
    unfold chainFlags
    rw [List.foldl_append]
    generalize List.foldl _ d fs = x
    simp only [List.foldl_cons, List.foldl_nil]
    by_cases h2 : hasFeature cur FEATURE_TYPE_LETTER_CASE FEATURE_SELECTOR_SMALL_CAPS = true
    · simp [h2]
    · simp [h2, h]
  · intro ty s en dis h
    unfold chainFlags
    rw [List.foldl_append]
    generalize List.foldl _ d fs = x
    simp [h]

open RbModel.Gen.Morx in
/-- the exclusive-group case the order decides: default flags 0x1 (normal case), legacy small-caps entry with enable 0x2 and
    disable ~0x3, `smcp` requested → flags 0x2 (only the small-caps subtable runs); the other order would give 0. -/
example : chainFlags [⟨FEATURE_TYPE_LOWER_CASE, FEATURE_SELECTOR_LOWER_CASE_SMALL_CAPS, true⟩] 1
    [(FEATURE_TYPE_LETTER_CASE, FEATURE_SELECTOR_SMALL_CAPS, 2, 0xFFFFFFFC)] = 2 ∧ (((1 : Nat) ||| 2) &&& 0xFFFFFFFC) = 0 := by decide

/-- **C17_flags_default.** Without user features every chain gets one range [0, u32::MAX] carrying its
    default flags: a subtable then runs iff `feature_flags & default_flags ≠ 0` (by `C17_flags`). -/
theorem C17_flags_default (chains : List Chain) :
    builderCompile chains [] = chains.map (fun ch => [⟨ch.defaultFlags, 0, 0xFFFFFFFF⟩]) :=
  builderCompile_default chains

/-- **C17_flags_user.** A user feature `tag=value` over the whole text whose tag is in the mapping table
    and whose AAT type the font's `feat` table exposes is compiled to: selector = `selector_to_enable`
    if value ≠ 0 else `selector_to_disable`; one range [0, u32::MAX]; flags by Apple's rule with exactly
    that (type, selector) requested. -/
theorem C17_flags_user (chains : List Chain) (ft : FeatTable) (tag value ty en dis n : Nat) (excl : Bool)
    (htag : tag ≠ 0x61616C74)
    (hfind : RbModel.Gen.Morx.featureMappings.find? (fun r => r.1 == tag) = some (tag, ty, en, dis))
    (hft : ft ty = some (n, excl)) (hn : n ≠ 0) :
    (addFeature (some ft) tag value 0 0xFFFFFFFF).map (builderCompile chains) =
      .ok (chains.map (fun ch =>
        [⟨chainFlagsSpec (requestedOf [⟨ty, if value ≠ 0 then en else dis, excl⟩]) ch.defaultFlags ch.features,
          0, 0xFFFFFFFF⟩])) := by
  rw [addFeature_mapped ft tag value 0 0xFFFFFFFF ty en dis n excl htag hfind hft hn]
  simp only [Except.map, builderCompile_global, chainFlags_spec]

/-- non-vacuity: 'smcp' maps to (lower case = 37, small caps = 1, default = 0) in the generated table. -/
example : RbModel.Gen.Morx.featureMappings.find? (fun r => r.1 == 0x736D6370) = some (0x736D6370, 37, 1, 0) := by
  decide +kernel

/-- **C17_flags_range.** A user feature restricted to the clusters [s, e) yields three ranges: default
    flags before and after, the feature's flags inside, with the boundaries the code computes. -/
theorem C17_flags_range (chains : List Chain) (f : FeatInfo) (s e : Nat)
    (hs : 0 < s) (hse : s < e) (he : e < 0xFFFFFFFF) :
    builderCompile chains [⟨f, s, e⟩] =
      chains.map (fun ch => [⟨ch.defaultFlags, 0, s - 1⟩,
                             ⟨chainFlagsSpec (requestedOf [f]) ch.defaultFlags ch.features, s, e - 1⟩,
                             ⟨ch.defaultFlags, e, 0xFFFFFFFF⟩]) := by
  rw [builderCompile_range chains f s e hs hse he]
  simp only [chainFlags_spec]

example : ∃ s e : Nat, 0 < s ∧ s < e ∧ e < 0xFFFFFFFF := ⟨2, 5, by decide, by decide, by decide⟩

/-- the OpenType-tag → AAT mapping table is strictly sorted by tag: the `binary_search_by` of
    `add_feature` finds a tag iff the table has it (table regenerated from the crate). -/
theorem C17_feature_mappings_sorted :
    (RbModel.Gen.Morx.featureMappings.map (·.1)).Pairwise (· < ·) := featureMappings_sorted

/-- the flag bits and limits the crate uses are the ones of Apple's manual (regenerated constants). -/
theorem C17_constants :
    RbModel.Gen.Morx.REARR_MARK_FIRST = fSetMark ∧ RbModel.Gen.Morx.REARR_DONT_ADVANCE = fDontAdvance ∧
    RbModel.Gen.Morx.REARR_MARK_LAST = fMarkLast ∧ RbModel.Gen.Morx.REARR_VERB = fVerb ∧
    RbModel.Gen.Morx.CTX_SET_MARK = fSetMark ∧ RbModel.Gen.Morx.CTX_DONT_ADVANCE = fDontAdvance ∧
    RbModel.Gen.Morx.LIG_SET_COMPONENT = fSetMark ∧ RbModel.Gen.Morx.LIG_DONT_ADVANCE = fDontAdvance ∧
    RbModel.Gen.Morx.LIG_PERFORM_ACTION = fPerformAction ∧ RbModel.Gen.Morx.LIG_ACTION_LAST = ligLast ∧
    RbModel.Gen.Morx.LIG_ACTION_STORE = ligStore ∧ RbModel.Gen.Morx.LIG_ACTION_OFFSET = ligOffset ∧
    RbModel.Gen.Morx.INS_SET_MARK = fSetMark ∧ RbModel.Gen.Morx.INS_DONT_ADVANCE = fDontAdvance ∧
    RbModel.Gen.Morx.INS_CURRENT_INSERT_BEFORE = fCurrentInsertBefore ∧
    RbModel.Gen.Morx.INS_MARKED_INSERT_BEFORE = fMarkedInsertBefore ∧
    RbModel.Gen.Morx.INS_CURRENT_INSERT_COUNT = fCurrentInsertCount ∧
    RbModel.Gen.Morx.INS_MARKED_INSERT_COUNT = fMarkedInsertCount ∧
    RbModel.Gen.Morx.CLASS_END_OF_TEXT = classEndOfText ∧ RbModel.Gen.Morx.CLASS_OUT_OF_BOUNDS = classOutOfBounds ∧
    RbModel.Gen.Morx.CLASS_DELETED_GLYPH = classDeletedGlyph ∧ RbModel.Gen.Morx.START_OF_TEXT = 0 := by
  decide

/-! ## non-contextual -/

/-- **C17_noncontextual.** The non-contextual subtable maps a glyph through the lookup iff the subtable is
    switched on for *that glyph's* cluster — always, when the chain has a single compiled range (the chain
    loop has already tested it); otherwise iff the range containing the glyph's cluster has
    `flags & subtable_flags ≠ 0`. Glyphs the lookup does not cover stay; nothing else changes (clusters, order,
    length, the rest of the vector). `Tiles rf hi`: the ranges tile [0, hi] as `compile` produces them.
    (Before the repair of D17 the range of `cur(0)` was used for every glyph and this was false.) -/
theorem C17_noncontextual (lk : Lookup) (rf : Array Range) (sf hi : Nat) (b : Buf) (hb : b.len ≤ b.info.size)
    (hrf : rf.size ≤ 1 ∨ (Tiles rf hi ∧ ∀ (i : Nat) (g : G), i < b.len → b.info[i]? = some g → g.cl ≤ hi)) :
    ∃ info', nonContextual lk rf sf b = .ok { b with info := info' } ∧ info'.size = b.info.size ∧
      ∀ i, info'[i]? =
        if i < b.len then (b.info[i]?).map (fun g => ncMap lk (decide (rf.size ≤ 1) || enabledAt rf sf g.cl) g)
        else b.info[i]? := by
  by_cases h1 : rf.size ≤ 1
  · obtain ⟨info', e, hs, hk⟩ := nc_loop lk rf sf b b.len hb
    refine ⟨info', ?_, hs, ?_⟩
    · have : ¬ rf.size > 1 := by omega
      simp [nonContextual, this, e, bind, Except.bind, pure, Except.pure]
    · intro i; rw [hk]; simp [h1, ncMap]
  · rcases hrf with h | ⟨ht, hcl⟩
    · exact absurd h h1
    · obtain ⟨info', lr, e, _, hs, hk⟩ := nc_loop_ranges lk rf sf hi b ht hcl b.len (Nat.le_refl _) hb 0 (by omega)
      refine ⟨info', ?_, hs, ?_⟩
      · have : rf.size > 1 := by omega
        simp [nonContextual, this, e, bind, Except.bind, pure, Except.pure]
      · intro i; rw [hk]; simp [h1]

/-- non-vacuity: the three ranges `C17_flags_range` produces tile [0, u32::MAX]. -/
theorem C17_flags_range_tiles (d f s e : Nat) (hs : 0 < s) (hse : s < e) (he : e < 0xFFFFFFFF) :
    Tiles #[⟨d, 0, s - 1⟩, ⟨f, s, e - 1⟩, ⟨d, e, 0xFFFFFFFF⟩] 0xFFFFFFFF := by
  constructor
  · simp
  · intro r h; simp at h; subst h; rfl
  · intro k r h
    match k, h with
    | 0, h => simp at h; subst h; simp
    | 1, h => simp at h; subst h; simp; omega
    | 2, h => simp at h; subst h; simp; omega
    | k + 3, h => simp at h
  · intro k r r' h h'
    match k, h, h' with
    | 0, h, h' => simp at h h'; subst h; subst h'; simp; omega
    | 1, h, h' => simp at h h'; subst h; subst h'; simp; omega
    | k + 2, h, h' => simp at h'
  · intro r h; simp at h; subst h; rfl

example : ∃ (rf : Array Range) (b : Buf), Tiles rf 0xFFFFFFFF ∧ 1 < rf.size ∧ b.len ≤ b.info.size ∧ b.len = 2 ∧
    ∀ (i : Nat) (g : G), i < b.len → b.info[i]? = some g → g.cl ≤ 0xFFFFFFFF :=
  ⟨#[⟨0, 0, 1⟩, ⟨1, 2, 4⟩, ⟨0, 5, 0xFFFFFFFF⟩], { (default : Buf) with info := #[⟨3, 0⟩, ⟨4, 3⟩], len := 2 },
   C17_flags_range_tiles 0 1 2 5 (by decide) (by decide) (by decide), by decide, by decide, rfl,
   by intro i g hi h
      match i, hi, h with
      | 0, _, h => simp at h; subst h; decide
      | 1, _, h => simp at h; subst h; decide⟩

/-! ## the walk that finds the feature range of a cluster (`drive` and the non-contextual subtable) -/

/-- **C17_range_walk_inclusive.** The block "find the range of this cluster" — the code's two loops
    `while cluster < range_flags[range].cluster_first { range -= 1 }` and
    `while cluster > range_flags[range].cluster_last { range += 1 }`, run from whatever range the loop remembers (`lr`) —
    on every range list that tiles `[0, hi]` (what `compile` produces, `hi = u32::MAX`) and for every cluster `c ≤ hi`:
    it does not index past either end of the list, and it returns THE range with `cluster_first ≤ c ≤ cluster_last`
    (both bounds inclusive; the index is the only one whose range contains `c`). -/
theorem C17_range_walk_inclusive (rf : Array Range) (hi : Nat) (ht : Tiles rf hi) (c : Nat) (hc : c ≤ hi)
    (lr : Nat) (hlr : lr < rf.size) :
    ∃ (k : Nat) (r : Range), findRange rf lr c = .ok k ∧ k < rf.size ∧ rf[k]? = some r ∧ r.first ≤ c ∧ c ≤ r.last ∧
      ∀ (k' : Nat) (r' : Range), rf[k']? = some r' → r'.first ≤ c → c ≤ r'.last → k' = k := by
  obtain ⟨k, ek, hk, hkc⟩ := findRange_spec ht c hc lr hlr
  have hr : rf[k]? = some rf[k] := by simp [hk]
  obtain ⟨h1, h2⟩ := hkc rf[k] hr
  refine ⟨k, rf[k], ek, hk, hr, h1, h2, ?_⟩
  intro k' r' hr' h1' h2'
  exact tiles_unique ht c k' k r' rf[k] hr' hr ⟨h1', h2'⟩ ⟨h1, h2⟩

/-- **C17_range_walk_boundaries.** The boundary clusters of every range belong to that range: for the range at index `k`,
    the walk started anywhere answers `k` for `cluster_first` and for `cluster_last` (an exclusive reading of `cluster_last`
    would answer `k + 1`); and the greatest cluster `hi` (= `u32::MAX` = `HB_FEATURE_GLOBAL_END`) is answered by the last
    index of the list, never by one past it. -/
theorem C17_range_walk_boundaries (rf : Array Range) (hi : Nat) (ht : Tiles rf hi) (lr : Nat) (hlr : lr < rf.size) :
    (∀ (k : Nat) (r : Range), rf[k]? = some r → r.last ≤ hi →
        findRange rf lr r.first = .ok k ∧ findRange rf lr r.last = .ok k) ∧
    findRange rf lr hi = .ok (rf.size - 1) := by
  constructor
  · intro k r hr hle
    have ho := ht.ordered k r hr
    constructor
    · obtain ⟨k0, r0, e, _, _, _, _, hu⟩ := C17_range_walk_inclusive rf hi ht r.first (by omega) lr hlr
      rw [e, hu k r hr (Nat.le_refl _) ho]
    · obtain ⟨k0, r0, e, _, _, _, _, hu⟩ := C17_range_walk_inclusive rf hi ht r.last hle lr hlr
      rw [e, hu k r hr ho (Nat.le_refl _)]
  · obtain ⟨k0, r0, e, _, _, _, _, hu⟩ := C17_range_walk_inclusive rf hi ht hi (Nat.le_refl _) lr hlr
    have hn := ht.nonempty
    have hl : rf[rf.size - 1]? = some rf[rf.size - 1] := by simp
    have hlast := ht.lastHi _ hl
    have ho := ht.ordered _ _ hl
    rw [e, hu (rf.size - 1) _ hl (by omega) (by omega)]

/-- **C17_range_block_total.** The range block at the top of every iteration of `drive` (the copy of the walk the state-table
    subtables use): for a tiling range list, a remembered range inside the list and a current glyph whose cluster is at most
    `hi`, it does not fail, it answers "switched off" exactly when the range containing the glyph's cluster has
    `flags & subtable_flags = 0`, and the range it remembers for the next iteration is again inside the list. -/
theorem C17_range_block_total (rf : Array Range) (hi : Nat) (ht : Tiles rf hi) (sf : Nat) (b : Buf) (lr : Nat)
    (hlr : lr < rf.size) (hlt : b.idx < b.len) (hsz : b.len ≤ b.info.size)
    (hc : (b.info[b.idx]'(by omega)).cl ≤ hi) :
    ∃ k, k < rf.size ∧
      rangeBlock rf sf b (some lr) = .ok (!enabledAt rf sf (b.info[b.idx]'(by omega)).cl, some k) :=
  rangeBlock_off ht sf b lr hlr hlt hsz hc

/-- non-vacuity and the boundary values on concrete lists: a glyph on `cluster_last` of the middle range stays in the middle
    range, `u32::MAX` is answered by the last range, from every remembered range. -/
example : findRange #[⟨0, 0, 1⟩, ⟨1, 2, 4⟩, ⟨0, 5, 0xFFFFFFFF⟩] 0 4 = .ok 1 ∧
    findRange #[⟨0, 0, 1⟩, ⟨1, 2, 4⟩, ⟨0, 5, 0xFFFFFFFF⟩] 2 4 = .ok 1 ∧
    findRange #[⟨0, 0, 1⟩, ⟨1, 2, 4⟩, ⟨0, 5, 0xFFFFFFFF⟩] 0 0xFFFFFFFF = .ok 2 ∧
    findRange #[⟨0, 0, 1⟩, ⟨1, 2, 4⟩, ⟨0, 5, 0xFFFFFFFF⟩] 2 0 = .ok 0 := by decide

/-! ## a subtable switched off on a stretch of the text (ranged user features) -/

/-- **C17_drive_restarts_after_off_range** (every state-table subtable type: any machine `m`, any driver context `c` —
    rearrangement, contextual, ligature, insertion). The loop of `drive` stands at a glyph, in any state `st`, and the
    next `k + 1` glyphs lie in ranges that switch the subtable off (`skipOff`: each iteration's range block says
    "off", the glyph is copied through with `next_glyph`; `b'` is the buffer behind the stretch). Then the rest of the
    run *is* the run that starts behind the stretch in START_OF_TEXT: the stretch is kept as it is and the state the
    machine was in before it is forgotten — so (second statement) the result does not depend on that state at all.
    Driving over prefix ++ switched-off middle ++ suffix is driving over the prefix, keeping the middle, and driving
    over the suffix from START_OF_TEXT. What is *not* reset are the registers of the driver context `cs` (mark, marked
    range, component stack): the code, like HarfBuzz, resets the state only. -/
theorem C17_drive_restarts_after_off_range (m : Machine) (c : Ctx) (rf : Array Range) (sf : Nat) (cs : CS)
    (k : Nat) (b b' : Buf) (st : Nat) (lr lr' : Option Nat) (steps : Nat)
    (h : skipOff rf sf (k + 1) b lr = some (b', lr')) :
    driveLoopO m c rf sf b cs st lr steps = driveLoopO m c rf sf b' cs RbModel.Gen.Morx.START_OF_TEXT lr' (steps + (k + 1)) ∧
    (∀ st', driveLoopO m c rf sf b cs st lr steps = driveLoopO m c rf sf b cs st' lr steps) ∧
    driveLoop m c rf sf b cs st lr steps = driveLoop m c rf sf b' cs RbModel.Gen.Morx.START_OF_TEXT lr' (steps + (k + 1)) := by
  have e := fun s => driveLoopO_off m c rf sf cs k b b' s lr lr' steps h
  refine ⟨e st, fun st' => by rw [e st, e st'], ?_⟩
  unfold driveLoop; rw [e st]

/-- non-vacuity: `f x i` with the subtable off on the `x` — three ranges, the loop at the second glyph, one glyph skipped. -/
example : ∃ (rf : Array Range) (b b' : Buf) (lr' : Option Nat), skipOff rf 1 1 b (some 0) = some (b', lr') ∧ b'.idx = 2 :=
  ⟨#[⟨1, 0, 0⟩, ⟨0, 1, 1⟩, ⟨1, 2, 0xFFFFFFFF⟩],
   { (default : Buf) with info := #[⟨1, 0⟩, ⟨2, 1⟩, ⟨3, 2⟩], len := 3, idx := 1, successful := true },
   { (default : Buf) with info := #[⟨1, 0⟩, ⟨2, 1⟩, ⟨3, 2⟩], len := 3, idx := 2, successful := true }, some 1,
   by decide +kernel, rfl⟩

/-- **C17_drive_restarts_after_off_range_inplace** (the subtable types that work in place: rearrangement and
    contextual, `have_output = false`). The hypothesis of the theorem above in terms of the text: the compiled
    ranges tile the clusters (`Tiles`, what `compile` produces — `C17_flags_range_tiles`), and the `k + 1` glyphs from
    the cursor on have clusters at which the subtable is not enabled (`enabledAt … = false`). Then the loop, from
    whatever state and whatever range it remembers, continues exactly as the loop started in START_OF_TEXT at the
    first glyph behind the stretch, on the *same* buffer (only the cursor has moved). -/
theorem C17_drive_restarts_after_off_range_inplace (m : Machine) (c : Ctx) {rf : Array Range} {hi : Nat}
    (ht : Tiles rf hi) (sf : Nat) (cs : CS) (k : Nat) (b : Buf) (st lr0 steps : Nat)
    (ho : b.haveOutput = false) (hs : b.successful = true) (hk : b.idx + (k + 1) ≤ b.len)
    (hsz : b.len ≤ b.info.size) (hlr : lr0 < rf.size)
    (hoff : ∀ (j : Nat) (g : G), j < k + 1 → b.info[b.idx + j]? = some g → g.cl ≤ hi ∧ enabledAt rf sf g.cl = false) :
    ∃ lr', lr' < rf.size ∧
      driveLoopO m c rf sf b cs st (some lr0) steps =
        driveLoopO m c rf sf { b with idx := b.idx + (k + 1) } cs RbModel.Gen.Morx.START_OF_TEXT (some lr') (steps + (k + 1)) := by
  obtain ⟨lr', hlr', e⟩ := skipOff_of_disabled ht sf (k + 1) b lr0 ho hs hk hsz hlr hoff
  exact ⟨lr', hlr', driveLoopO_off m c rf sf cs k b _ st (some lr0) (some lr') steps e⟩

/-- non-vacuity of the hypotheses: ranges on / off / on, three glyphs, the cursor on the middle one. -/
example : ∃ (rf : Array Range) (b : Buf), Tiles rf 0xFFFFFFFF ∧ b.haveOutput = false ∧ b.successful = true ∧
    b.idx + 1 ≤ b.len ∧ b.len ≤ b.info.size ∧ 0 < rf.size ∧
    ∀ (j : Nat) (g : G), j < 1 → b.info[b.idx + j]? = some g → g.cl ≤ 0xFFFFFFFF ∧ enabledAt rf 1 g.cl = false :=
  ⟨#[⟨1, 0, 0⟩, ⟨0, 1, 1⟩, ⟨1, 2, 0xFFFFFFFF⟩],
   { (default : Buf) with info := #[⟨1, 0⟩, ⟨2, 1⟩, ⟨3, 2⟩], len := 3, idx := 1, successful := true },
   C17_flags_range_tiles 1 0 1 2 (by decide) (by decide) (by decide), rfl, rfl, by decide, by decide, by decide,
   by intro j g hj h
      have : j = 0 := by omega
      subst this
      simp at h; subst h; exact ⟨by decide, by simp [enabledAt]⟩⟩

/-! ## the reverse bracket -/

/-- **C02_bracket_morx.** For every list of chains, every compiled flags and every text direction: if the
    subtable action keeps the order of the records' clusters (it may rewrite glyph ids in place), then so
    does the whole chain loop — each `reverse()` before a subtable is matched by one after it, whatever
    the coverage bits (logical / descending / vertical / all-directions) and the flags say.
    Instantiated with the real action for chains of non-contextual subtables (second statement). -/
theorem C02_bracket_morx (act : Subtable → Array Range → Buf → M Buf) (P : Subtable → Prop)
    (ha : KeepsOrder act P) (chains : List Chain) (flags : List (Array Range)) (b b' : Buf)
    (hP : ∀ ch ∈ chains, ∀ s ∈ ch.subtables, P s) (hb : b.len ≤ b.info.size) (ho : b.haveOutput = false)
    (h : applyChainsWith act chains flags b = .ok b') :
    b'.clusters = b.clusters :=
  (applyChainsWith_keeps ha chains flags b b' hP hb ho h).2

/-- the real subtable actions: every chain list made of non-contextual and contextual subtables (any state
    tables, lookups, coverage bits, flags, ranges) leaves the cluster sequence of the buffer as it was. -/
theorem C02_bracket_morx_inplace (chains : List Chain) (flags : List (Array Range)) (b b' : Buf)
    (hP : ∀ ch ∈ chains, ∀ s ∈ ch.subtables, s.isInPlaceSubst) (hb : b.len ≤ b.info.size)
    (ho : b.haveOutput = false) (h : applyChains chains flags b = .ok b') :
    b'.clusters = b.clusters :=
  C02_bracket_morx realAct _ realAct_keeps_subst chains flags b b' hP hb ho h

/-- non-vacuity: a right-to-left buffer and a descending layout-order subtable. -/
example : ∃ (chains : List Chain) (b : Buf),
    (∀ ch ∈ chains, ∀ s ∈ ch.subtables, s.isInPlaceSubst) ∧ b.len ≤ b.info.size ∧ b.haveOutput = false ∧
    b.clusters = [2, 1, 0] :=
  ⟨[⟨1, [], [⟨0x40, 1, .noncontextual (fun _ => some 7)⟩]⟩],
   { (default : Buf) with info := #[⟨3, 2⟩, ⟨4, 1⟩, ⟨5, 0⟩], len := 3, backward := true },
   by intro ch hc s hs; simp at hc; subst hc; simp at hs; subst hs; exact Or.inl ⟨_, rfl⟩,
   by decide, rfl, by rfl⟩

/-! ## in/out subtables refine list operations -/

/-- **C17_inplace_zipper** (`_partial`: the current-insertion block of the insertion subtable).
    `InsS.insCurrentBody` — `[copy_glyph]; output_glyph × c; [skip_glyph]; move_to(end | end + c)` on the in/out
    buffer of the shared model — is a list insertion: for every buffer satisfying the representation invariant
    and holding at least one glyph, every insertion list whose `c` glyphs are present, both placements and both
    cursor rules, there is no panic and either an allocation was refused (buffer marked unsuccessful) or the
    logical glyph sequence `out[0..out_len) ++ info[idx..len)` is the old one with the `c` glyphs inserted before
    / after the current glyph, each inheriting the current glyph's record; nothing lost or duplicated.
    Uses the zipper specs of Lemmas/BufZipper.lean; the two generated variants of buffer.rs it needs
    (`ensureGrowOnly`, `moveToRewindReversed` — the repairs of D6 and D5) are discharged by `decide` here, so a
    regression of either breaks this theorem.
    The same for the marked-insertion block (`InsS.insMarked`: `move_to(mark)` first) is
    `C17_insertion_marked_is_list_insertion`, and for the ligature transition (`LigS.ligLoop`: `move_to` to each
    component, `replace_glyph`, deletions) `C17_ligature_stack_discipline` / `C17_ligature_store` below. -/
theorem C17_inplace_zipper_partial (glyphs : Nat → Option Nat) (start c : Nat) (before dontAdvance : Bool)
    (b : RbModel.Buf) (hinv : RbModel.Buf.Inv b) (hne : 0 < RbModel.Buf.total b)
    (hgl : ∀ k, k < c → (glyphs (start + k)).isSome = true) :
    ∃ b' x, RbModel.Buf.srcOf b = some x ∧ InsS.insCurrentBody glyphs start c before dontAdvance b = .ok b' ∧
      (b'.successful = false ∨
       (RbModel.Buf.Inv b' ∧ b'.successful = b.successful ∧ RbModel.Buf.total b' = RbModel.Buf.total b + c ∧
        b'.outLen = (if dontAdvance then b.outLen else b.outLen + c) ∧
        ∀ q, RbModel.Buf.seq b' q =
          RbModel.Buf.insertedAt b (if b.idx < b.len ∧ before = false then b.outLen + 1 else b.outLen)
            glyphs start c x q)) :=
  RbModel.Buf.insCurrentBody_zipper glyphs start c before dontAdvance b hinv hne hgl (by decide) (by decide)

/-- non-vacuity: two glyphs, one already on the output side, in place (no separate output yet). -/
example : ∃ b : RbModel.Buf, RbModel.Buf.Inv b ∧ 0 < RbModel.Buf.total b ∧ b.idx < b.len :=
  ⟨{ info := [{ gid := 1 }, { gid := 2, cluster := 1 }], out := [{}, {}], idx := 1, len := 2, outLen := 1,
     haveOutput := true },
   ⟨by decide, by decide, by decide, (fun h => by simp at h), (fun _ => by decide), rfl⟩, by decide, by decide⟩

/-- **C17_insertion_marked_is_list_insertion.** The marked-insertion block of `InsertionCtx::transition`
    (`InsS.insMarked`: charge `max_ops` with the count, `move_to(mark)`, `[copy_glyph]; output_glyph × c; [skip_glyph]`,
    `move_to(end + c)`, the glyph-flag bookkeeping) on the in/out buffer of the shared model is Apple's marked insertion
    as a list insertion. For every buffer satisfying the representation invariant and holding at least one glyph, every
    mark that is not behind the output cursor, every entry with a marked-insert index, an operation budget that the
    count does not exhaust and an insertion list whose `c = flags & MARKED_INSERT_COUNT` glyphs are present: no panic;
    the transition goes on (`true`); and either an allocation was refused (buffer marked unsuccessful) or
      * the logical glyph sequence `out[0..out_len) ++ info[idx..len)` is the old one with exactly the `c` glyphs
        `glyphs[x2], …, glyphs[x2 + c - 1]`, in that order, inserted before the MARKED glyph (`MARKED_INSERT_BEFORE`
        set, or the mark at the end of the text) or after it — each a copy of the marked glyph's record with the glyph
        id replaced (`markedSrc`: the marked glyph, at the end of the text the last glyph);
      * nothing is lost or duplicated (`total` grows by `c`);
      * the output cursor has moved on by `c`: it stands behind the same glyphs as before the insertion, so the current
        glyph is still the current glyph. The mark register itself is not touched by this block (it is a parameter;
        `InsS.transition` afterwards sets it to the *old* output cursor when SET_MARK is on, as HarfBuzz does).
    The two generated variants of buffer.rs it needs (`ensureGrowOnly`, `moveToRewindReversed` — the repairs of D6
    and D5) are discharged by `decide`, so a regression of either breaks this theorem. -/
theorem C17_insertion_marked_is_list_insertion (glyphs : Nat → Option Nat) (mark : Nat) (e : Entry) (b : RbModel.Buf)
    (hinv : RbModel.Buf.Inv b) (hne : 0 < RbModel.Buf.total b) (hmark : mark ≤ b.outLen) (hx2 : e.x2 ≠ 0xFFFF)
    (hops : 0 < b.maxOps - ((e.flags &&& RbModel.Gen.Morx.INS_MARKED_INSERT_COUNT : Nat) : Int))
    (hgl : ∀ k, k < (e.flags &&& RbModel.Gen.Morx.INS_MARKED_INSERT_COUNT) → (glyphs (e.x2 + k)).isSome = true) :
    ∃ b' x, RbModel.Buf.markedSrc b mark = some x ∧ InsS.insMarked glyphs mark e b = .ok (b', true) ∧
      (b'.successful = false ∨
       (RbModel.Buf.Inv b' ∧ b'.successful = b.successful ∧
        RbModel.Buf.total b' = RbModel.Buf.total b + (e.flags &&& RbModel.Gen.Morx.INS_MARKED_INSERT_COUNT) ∧
        b'.outLen = b.outLen + (e.flags &&& RbModel.Gen.Morx.INS_MARKED_INSERT_COUNT) ∧
        ∀ q, RbModel.Buf.seq b' q =
          RbModel.Buf.insertedAt b
            (if mark < RbModel.Buf.total b ∧ bit e.flags RbModel.Gen.Morx.INS_MARKED_INSERT_BEFORE = false
             then mark + 1 else mark)
            glyphs e.x2 (e.flags &&& RbModel.Gen.Morx.INS_MARKED_INSERT_COUNT) x q)) :=
  RbModel.Buf.insMarked_zipper glyphs mark e b hinv hne hmark hx2 hops hgl (by decide) (by decide)

/-- non-vacuity: three glyphs `1 2 3`, two already on the output side, the mark on the first; an entry that inserts
    two glyphs (20, 21) AFTER the marked glyph: the hypotheses hold and the model computes `1 20 21 2 3` with the
    output cursor behind `2` again (4 = 2 + 2 glyphs on the output side). -/
example : ∃ (glyphs : Nat → Option Nat) (e : Entry) (b : RbModel.Buf),
    RbModel.Buf.Inv b ∧ 0 < RbModel.Buf.total b ∧ 0 ≤ b.outLen ∧ e.x2 ≠ 0xFFFF ∧
    0 < b.maxOps - ((e.flags &&& RbModel.Gen.Morx.INS_MARKED_INSERT_COUNT : Nat) : Int) ∧
    (∀ k, k < (e.flags &&& RbModel.Gen.Morx.INS_MARKED_INSERT_COUNT) → (glyphs (e.x2 + k)).isSome = true) ∧
    (InsS.insMarked glyphs 0 e b).toOption.map
      (fun r => (r.2, r.1.outLen, (List.range 6).map (fun q => (RbModel.Buf.seq r.1 q).map (·.gid)))) =
      some (true, 4, [some 1, some 20, some 21, some 2, some 3, none]) :=
  ⟨fun k => some (20 + k), ⟨0, 2, 0xFFFF, 0⟩,
   { info := [{ gid := 1 }, { gid := 2, cluster := 1 }, { gid := 3, cluster := 2 }], out := [{}, {}, {}], idx := 2, len := 3,
     outLen := 2, haveOutput := true, maxOps := 100 },
   ⟨by decide, by decide, by decide, (fun h => by simp at h), (fun _ => by decide), rfl⟩, by decide, by decide, by decide,
   by decide, (fun k _ => rfl), by decide +kernel⟩

/-! ## the ligature subtable: the component stack and the action list -/

/-- the ring of remembered component positions has the size the reference interpreter's convention names
    (HB_MAX_CONTEXT_LENGTH = 64; regenerated constant), and a depth is stored in the slot `depth mod 64` -/
theorem C17_ligature_ring_size :
    RbModel.Gen.Morx.LIGATURE_MAX_MATCHES = ligStackKept ∧ ∀ i, posIdx i = i % ligStackKept := ⟨by decide, fun _ => rfl⟩

/-- **C17_ligature_push** (SET_COMPONENT). `Rep cs st lo`: the code's stack `cs` — a depth counter that is never
    capped and a ring of 64 positions indexed by depth modulo 64 — represents the list `st` of the positions pushed
    since the last reset, oldest first, newest last, of which the entries of depth ≥ `lo` are still remembered
    (`length ≤ lo + 64`). For every such state and every output cursor `p`: the SET_COMPONENT block does not panic
    and leaves a stack that represents `st` with `p` pushed on top — unless `p` is the top already ("never mark the
    same index twice", DONT_ADVANCE loops), then `st` itself. The depth grows by one without any cap; the window of
    remembered entries stays `lo` while fewer than 64 are remembered and otherwise moves up by one: the oldest
    remembered position is overwritten, exactly as the ring does. (The side condition excludes only a stack all of
    whose remembered entries were popped while older ones remain below — there the code compares with a stale slot.) -/
theorem C17_ligature_push (cs : CS) (st : List Nat) (lo p : Nat) (h : Rep cs st lo)
    (hne : st.length = 0 ∨ lo < st.length) :
    ∃ cs', LigS.ligPush cs p = .ok cs' ∧ Rep cs' (pushed st p) (pushedLo st lo p) ∧
      (pushed st p = if st.getLast? = some p then st else st ++ [p]) ∧
      (pushedLo st lo p = if st.getLast? = some p then lo else if st.length - lo < 64 then lo else lo + 1) := by
  obtain ⟨cs', e, hr⟩ := ligPush_rep cs st lo p h hne
  exact ⟨cs', e, hr, rfl, rfl⟩

/-- non-vacuity, at the cap: a stack of depth 64 whose ring is full (positions 0..63) takes a 65th position; the depth
    becomes 65 and the window moves to [1, 65). -/
example : ∃ (cs : CS) (st : List Nat), Rep cs st 0 ∧ st.length = 64 ∧ (pushed st 64).length = 65 ∧ pushedLo st 0 64 = 1 :=
  ⟨{ matchLen := 64, matchPos := (List.range 64).toArray }, List.range 64,
   ⟨by simp, by simp, by simp, by simp, by
      intro k _ hk
      simp at hk
      have : k % 64 = k := Nat.mod_eq_of_lt hk
      simp [this, hk]⟩, by simp, by decide, by decide⟩

/-- **C17_ligature_store** (one Store / Last action of PERFORM_ACTION). The stack represents `st`, the action loop has
    popped down to depth `m` (`lo ≤ m < length`: a remembered entry) and the output cursor stands on that component
    (`out_len = st[m]`); the positions on the stack do not decrease with the depth (`Sorted`: they are output cursors of
    successive moments) and the ones above `m` lie inside the text; the buffer is an in/out buffer in good standing
    (`Good`: representation invariant, no allocation refused, the text fits `max_len`). Then the Store block
    (`replace_glyph(lig)`, the loop that deletes the later components, `move_to(lig_end)`, `merge_out_clusters`) does
    not panic and
      * the ligature glyph is written at the position popped by this action, `st[m]`;
      * the positions popped before it — exactly the entries of `st` above depth `m` (`Above st m`) — become the
        deleted glyph 0xFFFF;
      * no other position of the logical glyph sequence changes its glyph id (no position is written that was not
        on the stack), the number of glyphs is unchanged;
      * the stack is cut back to `st.take (m + 1)`: the popped components are gone, the ligature stays on it. -/
theorem C17_ligature_store (lig m lo : Nat) (st : List Nat) (cs : CS) (b : RbModel.Buf)
    (hrep : Rep cs st lo) (hlo : lo ≤ m) (hm : m < st.length) (hsorted : Sorted st)
    (hg : Good b) (hout : b.outLen = st[m]) (hcur : b.outLen < RbModel.Buf.total b)
    (hpos : ∀ j x, m < j → st[j]? = some x → x < RbModel.Buf.total b) :
    ∃ cs' b', LigS.ligStore lig m cs b = .ok (cs', b') ∧ Rep cs' (st.take (m + 1)) lo ∧ Good b' ∧
      RbModel.Buf.total b' = RbModel.Buf.total b ∧
      (∀ q, Above st m q → gv b' q = some 0xFFFF) ∧
      (∀ q, ¬ Above st m q → gv b' q = if q = st[m] then some lig else gv b q) := by
  obtain ⟨cs', b', e, h1, h2, h3, _, h5, h6⟩ := ligStore_spec lig m lo st cs b hrep hlo hm hsorted hg hout hcur hpos
  exact ⟨cs', b', e, h1, h2, h3, h5, h6⟩

/-- **C17_ligature_stack_discipline.** `LigatureCtx::transition` (SET_COMPONENT push, PERFORM_ACTION loop over the
    ligature action list, on the code's ring stack and the in/out buffer of the shared buffer model) refines the
    ligature action of the reference interpreter written from Apple's manual (`Spec.Aat.ligAct`: a list as component
    stack, a plain glyph vector), for all tables, entries, stacks and buffers.
    `Rlig cs b st lo s` ties a state of the code to a state `s` of the reference: the code's stack represents `st`
    with the window `[lo, length)` remembered (`Rep`), the reference's stack is that remembered part, newest first,
    its `lost` is `lo`; the positions on the stack do not decrease and are not behind the output cursor; the glyph ids
    of the logical glyph sequence are the reference's glyph vector; the reference's cursor is `out_len`; the buffer is in
    good standing. Whenever the reference interpreter's action is defined on `s` (every action / component / ligature
    index inside its table, no component popped that is older than the newest 64), the code does not panic and ends
    in a state tied in the same way to the reference's result `s'`. Hence
      * the component stack holds exactly the positions pushed by SET_COMPONENT entries since the last reset, newest
        last — as deep as the run makes it, the newest 64 remembered (`C17_ligature_push`);
      * PERFORM_ACTION pops from the top, one position per action; a Store / Last action writes the ligature selected
        by the accumulated component values at the position it popped, the positions popped before it become deleted
        glyphs (0xFFFF), every other glyph keeps its id (`Sim`: all glyph ids equal the reference's, which writes
        only those positions) — `C17_ligature_store` states this for one Store in the code's own terms;
      * afterwards the stack is a prefix `st'.take n` of what it was (after the push): only popping happened, the
        ligature stays on it; on underflow it is empty;
      * the output cursor is back where it was (`move_to(end)`), the number of glyphs is unchanged.
    Side conditions: the component table holds u16 values (so the u32 accumulator cannot wrap within 64 pops) and the
    action index is not within 64 of the u16 range's end (the code's index wraps there). -/
theorem C17_ligature_stack_discipline (t : LigTable) (hcomp : ∀ i v, t.components i = some v → v < 65536)
    (cs : CS) (e : Entry) (b : RbModel.Buf) (st : List Nat) (lo : Nat) (s s' : St)
    (hr : Rlig cs b st lo s) (hx1 : e.x1 + 64 ≤ 65535)
    (h : ligAct t.actions t.components t.ligatures ⟨e.newState, e.flags, e.x1, e.x2⟩ s = some s') :
    ∃ cs' b' st' lo', LigS.transition t cs e b = .ok (cs', b') ∧ Rlig cs' b' st' lo' s' ∧ b'.outLen = b.outLen ∧
      RbModel.Buf.total b' = RbModel.Buf.total b ∧
      (∃ n, st' = (if bit e.flags RbModel.Gen.Morx.LIG_SET_COMPONENT then pushed st b.outLen else st).take n) ∧
      lo' = (if bit e.flags RbModel.Gen.Morx.LIG_SET_COMPONENT then pushedLo st lo b.outLen else lo) :=
  ligTransition_sim t hcomp cs e b st lo s s' hr hx1 h

/-- non-vacuity: three glyphs `5 6 7`, the first on the stack, the cursor on the second; an entry with SET_COMPONENT and
    PERFORM_ACTION whose action list pops two components (the second action is Last): the hypotheses hold, the
    reference forms the ligature 9 at position 0 and deletes position 1, and so does the code. -/
example : Rlig exLigCS exLigBuf [0] 0 exLigSt ∧
    (∀ i v, exLigTable.components i = some v → v < 65536) ∧
    (ligAct exLigTable.actions exLigTable.components exLigTable.ligatures ⟨0, 0xA000, 0, 0⟩ exLigSt).map
      (fun s => (s.xs.toList, s.stack, s.lost)) = some ([9, 0xFFFF, 7], [0], 0) ∧
    (LigS.transition exLigTable exLigCS ⟨0, 0xA000, 0, 0⟩ exLigBuf).toOption.map
      (fun r => (r.1.matchLen, r.2.outLen, (List.range 4).map (gv r.2))) =
      some (1, 1, [some 9, some 0xFFFF, some 7, none]) :=
  ⟨exLig_rlig, by intro i v h; simp [exLigTable] at h; omega, by decide +kernel, by decide +kernel⟩

/-- non-vacuity of `C17_ligature_store`'s hypotheses: the same buffer with the cursor moved to position 0, the stack
    `[0, 1]` popped down to depth 0. -/
example : ∃ (cs : CS) (b : RbModel.Buf), Rep cs [0, 1] 0 ∧ Sorted [0, 1] ∧ Good b ∧ b.outLen = [0, 1][0] ∧
    b.outLen < RbModel.Buf.total b ∧ (∀ j x, 0 < j → [0, 1][j]? = some x → x < RbModel.Buf.total b) :=
  ⟨{ matchLen := 2, matchPos := (Array.replicate 64 0).set! 1 1 },
   { info := [{ gid := 5 }, { gid := 6, cluster := 1 }, { gid := 7, cluster := 2 }], out := [{}, {}, {}], idx := 0, len := 3,
     outLen := 0, haveOutput := true, maxLen := 100 },
   ⟨rfl, rfl, by decide, by decide, by
      intro k _ hk
      have : k = 0 ∨ k = 1 := by simp at hk; omega
      rcases this with h | h <;> subst h <;> rfl⟩,
   by
      intro i j x y hij hx hy
      have hj : j = 0 ∨ j = 1 := by
        rcases Nat.lt_or_ge j 2 with h | h
        · omega
        · rw [List.getElem?_eq_none (by simp; omega)] at hy; cases hy
      rcases hj with h | h <;> subst h
      · have : i = 0 := by omega
        subst this; simp at hx hy; omega
      · rcases Nat.eq_zero_or_pos i with h | h
        · subst h; simp at hx hy; omega
        · have : i = 1 := by omega
          subst this; simp at hx hy; omega,
   ⟨⟨by decide, by decide, by decide, (fun h => by simp at h), (fun _ => by decide), rfl⟩, rfl, by decide⟩, rfl, by decide,
   by
      intro j x hj hx
      have : j = 1 := by
        rcases Nat.lt_or_ge j 2 with h | h
        · omega
        · rw [List.getElem?_eq_none (by simp; omega)] at hx; cases hx
      subst this; simp at hx; subst hx; decide⟩

/-! ## deleted glyphs are purged, whoever positions -/

/-- **C17_purge.** `hb_aat_layout_remove_deleted_glyphs` (the model of `delete_glyphs_inplace(is_deleted_glyph)`) at
    every cluster level, on every glyph string: the glyph ids that remain are exactly those of the records that are
    not the deleted glyph 0xFFFF, in their order; no record that remains is a deleted glyph; and every cluster value
    that comes out is a cluster value that went in (the purge only merges). -/
theorem C17_purge (level : Nat) (l : List G) :
    (purge level l).map (·.gid) = (l.filter (fun g => g.gid != RbModel.Gen.Morx.DELETED_GLYPH)).map (·.gid) ∧
    (∀ g ∈ purge level l, g.gid ≠ RbModel.Gen.Morx.DELETED_GLYPH) ∧
    (∀ g ∈ purge level l, ∃ x ∈ l, g.cl = x.cl) := by
  refine ⟨?_, ?_, ?_⟩
  · have h := purge_gids level l
    have hf : notDel = (fun g => g.gid != RbModel.Gen.Morx.DELETED_GLYPH) := by
      funext g; simp [notDel, isDeleted, bne]
    rw [← hf]; exact h
  · intro g hg hd
    have := purge_notDel level l g hg
    simp [isDeleted, hd] at this
  · exact purge_cl (fun c => ∃ x ∈ l, c = x.cl) level l (fun g hg => ⟨g, hg, rfl⟩)

/-- the purge does delete: `A_E_D, deleted, deleted` with the ligature's cluster on all three becomes the ligature alone;
    a leading deleted glyph hands its smaller cluster forward, a trailing one backward. -/
example : purge 0 [⟨10, 0⟩, ⟨65535, 0⟩, ⟨65535, 0⟩] = [⟨10, 0⟩] ∧
    purge 0 [⟨65535, 0⟩, ⟨4, 1⟩, ⟨5, 1⟩, ⟨6, 2⟩] = [⟨4, 0⟩, ⟨5, 0⟩, ⟨6, 2⟩] ∧
    purge 1 [⟨4, 3⟩, ⟨5, 3⟩, ⟨65535, 2⟩] = [⟨4, 2⟩, ⟨5, 2⟩] := by decide

/-- **C17_shape_purged.** The modelled slice of `shape()` around the morx interpreter (plan → native direction →
    substitution → purge in `substitute_pre` when GPOS positions, in `substitute_post` otherwise → final reversal),
    for every morx table, every chain-flag map, every combination of accompanying tables (GSUB, GPOS with or
    without `kern`, kerx, kern), every direction, level and glyph string: whenever the plan applies morx and the run
    does not panic, the glyph ids that come out are exactly the glyph ids `hb_aat_layout_substitute` left in the
    buffer, without the deleted glyphs, in visual order — the same whoever positions afterwards; no deleted glyph
    is left; no cluster value is invented. -/
theorem C17_shape_purged (chains : List Chain) (flags : List (Array Range)) (e : Env) (b : Buf)
    (ap : Appliers) (out : List G) (h : shapeMorx chains flags e b = .ok (ap, out)) (hm : ap.morx = true) :
    ∃ b1 b2 l, nativeDirection b = .ok b1 ∧ applyChains chains flags b1 = .ok b2 ∧ visible b2 = .ok l ∧
      out.map (·.gid) = ((if b2.backward then l.reverse else l).filter
          (fun g => g.gid != RbModel.Gen.Morx.DELETED_GLYPH)).map (·.gid) ∧
      (∀ g ∈ out, g.gid ≠ RbModel.Gen.Morx.DELETED_GLYPH) ∧
      (∀ g ∈ out, ∃ x ∈ l, g.cl = x.cl) := by
  unfold shapeMorx at h
  cases h1 : nativeDirection b with
  | error p => simp [h1, bind, Except.bind] at h
  | ok b1 =>
    cases h2 : substitutePlan (appliers e (!b.vertical)) chains flags e b1 with
    | error p => simp [h1, h2, bind, Except.bind] at h
    | ok b2 =>
      cases h3 : visible b2 with
      | error p => simp [h1, h2, h3, bind, Except.bind] at h
      | ok l =>
        simp only [h1, h2, h3, bind, Except.bind, pure, Except.pure, Except.ok.injEq, Prod.mk.injEq] at h
        obtain ⟨hap, hout⟩ := h
        subst hap
        have h2' : applyChains chains flags b1 = .ok b2 := by
          unfold substitutePlan at h2; rw [if_pos hm] at h2; exact h2
        have hf : notDel = (fun g => g.gid != RbModel.Gen.Morx.DELETED_GLYPH) := by
          funext g; simp [notDel, isDeleted, bne]
        refine ⟨b1, b2, l, rfl, h2', h3, ?_, ?_, ?_⟩
        · rw [← hout, finish_gids _ _ _ _ hm, hf]
        · intro g hg hd
          rw [← hout] at hg
          have := finish_notDel _ _ _ _ hm g hg
          simp [isDeleted, hd] at this
        · intro g hg
          rw [← hout] at hg
          exact finish_cl (fun c => ∃ x ∈ l, c = x.cl) _ _ _ l (fun g hg => ⟨g, hg, rfl⟩) g hg

/-- non-vacuity: a font with morx + GPOS (the plan applies both), a non-contextual subtable that deletes glyph 7,
    right-to-left text: the slice runs, applies morx, and the deleted glyph is gone. -/
example : ∃ ap out, shapeMorx [⟨1, [], [⟨0x20, 1, .noncontextual (fun g => if g == 7 then some 65535 else none)⟩]⟩]
      [#[⟨1, 0, 0xFFFFFFFF⟩]] { gpos := true }
      { (default : Buf) with info := #[⟨3, 0⟩, ⟨7, 1⟩, ⟨5, 2⟩], len := 3, backward := true, successful := true,
                             maxOps := 100, maxLen := 100 } = .ok (ap, out) ∧
    ap.morx = true ∧ ap.gpos = true ∧ out = [⟨5, 2⟩, ⟨3, 0⟩] := by
  exact ⟨⟨true, true, false, false⟩, [⟨5, 2⟩, ⟨3, 0⟩], by decide +kernel, rfl, rfl, rfl⟩

end RbModel.Morx
