/-
  C16 — no layout tables ⇒ cmap + metrics; axis discipline.
  Property theorems only; helper lemmas are in Lemmas/Pipeline.lean (default shaper pipeline), Lemmas/GposDevice.lean and
  Lemmas/NormOwn.lean (the normalizer in every mode: when a mapped character keeps its own glyph).
-/
import RbModel.Lemmas.Pipeline
import RbModel.Lemmas.GposDevice
import RbModel.Lemmas.NormOwn

namespace RbModel.Pipeline
open RbModel.Gen.Pipeline

/-- C16_axis: for every font without layout tables, every Unicode data, every configuration and every
    in-scope text, the result of the model pipeline has y_advance = 0 on every glyph when the
    direction is horizontal and x_advance = 0 when it is vertical.  (Invariant of every modelled
    positioning step: position_default, fallback spaces, mark zeroing by class and by fallback,
    default-ignorable zeroing, the final reversal, hiding / deleting default ignorables.) -/
theorem C16_axis (u : Ucd) (f : Font) (c : Cfg) (text : List (Nat × Nat)) (out : List G)
    (h : shape u f c text = .ok out) :
    ∀ g ∈ out, (c.dir.isHorizontal = true → g.ya = 0) ∧ (c.dir.isHorizontal = false → g.xa = 0) := by
  obtain ⟨_, h | h⟩ := shape_ok_cases h
  · subst h; simp
  · subst h
    unfold shapeCore
    simp only
    rw [← prepare_horizontal u f c (initial text)]
    exact finish_axis _ _ _ _ _ _ (position_axis _ _ _ _ _)


example : ∃ u f c text out, shape u f c text = .ok out ∧ out ≠ [] :=
  ⟨⟨fun _ => 7, fun _ => 0, fun _ => false, fun _ => false, fun _ => 0, fun _ => none, fun _ => none, fun _ => false⟩,
   ⟨[], 1000, none, none, 800, -200, none, none, fun _ => 0⟩, ⟨.ttb, none, 0, 0, 0⟩, [(0x41, 0)], _, rfl, by decide⟩

/-- C16_gid16: when the parsed cmap can only return 16-bit glyph ids (ttf-parser's `GlyphId(u16)`), every
    glyph id in the result of the model pipeline — cmap glyphs, .notdef, the space glyph used for
    fallback spaces and hidden default ignorables, the dotted circle — is below 2^16. -/
theorem C16_gid16 (u : Ucd) (f : Font) (c : Cfg) (text : List (Nat × Nat)) (out : List G)
    (hf : ∀ s ∈ f.subs, ∀ cp g, s.map cp = some g → g < 65536)
    (h : shape u f c text = .ok out) : ∀ g ∈ out, g.gid < 65536 := by
  obtain ⟨_, h | h⟩ := shape_ok_cases h
  · subst h; simp
  · subst h; exact shapeCore_gid16 u f c text hf

example : ∃ f : Font, f.subs ≠ [] ∧ ∀ s ∈ f.subs, ∀ cp g, s.map cp = some g → g < 65536 :=
  ⟨⟨[⟨3, 1, fun c => if c == 0x41 then some 1 else none⟩], 1000, none, none, 800, -200, none, none, fun _ => 0⟩, by simp,
   by intro s hs cp g h; simp at hs; subst hs; simp at h; omega⟩

/-- C16_cmap_pref: the chosen cmap subtable is the first subtable (in table order) carrying the first
    (platform, encoding) pair of the documented preference order that occurs in the font at all;
    no subtable is chosen iff none of the ten pairs occurs. -/
theorem C16_cmap_pref (subs : List CmapSub) :
    (∀ i, bestSub subs = some i →
      ∃ before pe after, cmapPreference = before ++ pe :: after ∧
        (∀ pe' ∈ before, ∀ s ∈ subs, ¬ (s.platform = pe'.1 ∧ s.encoding = pe'.2)) ∧
        (∃ s, subs[i]? = some s ∧ s.platform = pe.1 ∧ s.encoding = pe.2) ∧
        (∀ j, j < i → ∀ s, subs[j]? = some s → ¬ (s.platform = pe.1 ∧ s.encoding = pe.2))) ∧
    (bestSub subs = none → ∀ pe ∈ cmapPreference, ∀ s ∈ subs, ¬ (s.platform = pe.1 ∧ s.encoding = pe.2)) := by
  rw [bestSub_eq]
  constructor
  · intro i h
    rw [List.findSome?_eq_some_iff] at h
    obtain ⟨before, pe, after, hsplit, hpe, hbefore⟩ := h
    refine ⟨before, pe, after, hsplit, ?_, (findSub_some subs _ _ i hpe).1, (findSub_some subs _ _ i hpe).2⟩
    intro pe' hpe' s hs
    exact findSub_none subs _ _ (hbefore pe' hpe') s hs
  · intro h pe hpe s hs
    rw [List.findSome?_eq_none_iff] at h
    exact findSub_none subs _ _ (h pe hpe) s hs


/-- C16_gen_cmap_consts: the numeric constants of `get_nominal_glyph` in the compiled crate (recovered by behavioural
    probes on a symbol-only and a MacRoman-only font, `tools/gens/cmap.py` → `Gen/Cmap.lean`; the model's `nominal` reads
    them): the symbol alias covers exactly U+0000..U+00FF and re-looks-up U+F000 + c; MacRoman transcoding starts above
    U+007F.  A tree with another bound (e.g. `c < 0x00FF`) regenerates another value and this theorem fails. -/
theorem C16_gen_cmap_consts :
    RbModel.Gen.Cmap.symbolAliasMax = 0xFF ∧ RbModel.Gen.Cmap.symbolAliasBase = 0xF000 ∧
    RbModel.Gen.Cmap.macAsciiMax = 0x7F := by decide

/-- C16_symbol_preferred: a font that has a Windows Symbol (3,0) subtable at all gets the FIRST such subtable chosen,
    whatever other subtables it has and wherever they stand. -/
theorem C16_symbol_preferred (subs : List CmapSub) (h : ∃ s ∈ subs, s.platform = 3 ∧ s.encoding = 0) :
    ∃ i s, bestSub subs = some i ∧ subs[i]? = some s ∧ s.platform = 3 ∧ s.encoding = 0 ∧
      ∀ j, j < i → ∀ s', subs[j]? = some s' → ¬ (s'.platform = 3 ∧ s'.encoding = 0) := by
  cases hb : bestSub subs with
  | none =>
    obtain ⟨s, hs, hp, he⟩ := h
    exact absurd ⟨hp, he⟩ ((C16_cmap_pref subs).2 hb (3, 0) (by simp [cmapPreference]) s hs)
  | some i =>
    obtain ⟨before, pe, after, hsplit, hbefore, ⟨s, hs, hp, he⟩, hfirst⟩ := (C16_cmap_pref subs).1 i hb
    cases before with
    | nil =>
      have hpe : pe = (3, 0) := by
        simp only [cmapPreference, List.nil_append, List.cons.injEq] at hsplit
        exact hsplit.1.symm
      subst hpe
      exact ⟨i, s, rfl, hs, hp, he, hfirst⟩
    | cons b rest =>
      have hb0 : b = (3, 0) := by
        simp only [cmapPreference, List.cons_append, List.cons.injEq] at hsplit
        exact hsplit.1.symm
      subst hb0
      obtain ⟨s0, hs0, hp0, he0⟩ := h
      exact absurd ⟨hp0, he0⟩ (hbefore (3, 0) (by simp) s0 hs0)

/-- C16_symbol_alias: for a font whose chosen cmap subtable is Windows Symbol (3,0) — by C16_symbol_preferred every font
    that has one — the glyph of a code point `c` is
      * the subtable's own mapping of `c` when it has one (a direct mapping wins over the alias);
      * otherwise, for every `c ≤ U+00FF`, what the subtable maps `U+F000 + c` to (no glyph when that is unmapped too);
      * otherwise (`c > U+00FF`) no glyph: nothing above U+00FF is ever aliased. -/
theorem C16_symbol_alias (f : Font) (i : Nat) (s : CmapSub)
    (hbest : bestSub f.subs = some i) (hs : f.subs[i]? = some s) (hp : s.platform = 3) (he : s.encoding = 0) (c : Nat) :
    (∀ g, s.map c = some g → nominal f c = some g) ∧
    (s.map c = none → c ≤ 0xFF → nominal f c = s.map (0xF000 + c)) ∧
    (s.map c = none → 0xFF < c → nominal f c = none) := by
  obtain ⟨hmax, hbase, _⟩ := C16_gen_cmap_consts
  rw [nominal_of_best f i s hbest hs c]
  unfold nominalIn
  rw [hmax, hbase]
  simp only [hp, he, show ((3 : Nat) == 1) = false from rfl, Bool.false_and, Bool.false_eq_true, if_false,
    beq_self_eq_true, Bool.true_and]
  refine ⟨?_, ?_, ?_⟩
  · intro g hg; simp [hg]
  · intro hn hc; simp [hn, hc]
  · intro hn hc; simp [hn]; omega

/-- non-vacuity of C16_symbol_alias, all three cases on one font: a (3,1) subtable first, the (3,0) subtable second and
    chosen; U+0041 mapped directly AND at U+F041 (direct wins), U+00FF only at U+F0FF (aliased), U+0100 only at U+F100
    (not aliased), U+00FE nowhere -/
example :
    let f : Font := ⟨[⟨3, 1, fun c => if c == 0xFF then some 9 else none⟩,
                      ⟨3, 0, fun c => if c == 0x41 then some 1 else if c == 0xF041 then some 2 else if c == 0xF0FF then some 3
                                      else if c == 0xF100 then some 4 else none⟩],
                     1000, none, none, 800, -200, none, none, fun _ => 0⟩
    bestSub f.subs = some 1 ∧ nominal f 0x41 = some 1 ∧ nominal f 0xFF = some 3 ∧ nominal f 0x100 = none ∧
    nominal f 0xFE = none ∧ nominal f 0xF100 = some 4 := by decide

/-- C16_nominal_plain: for every chosen subtable that is neither Windows Symbol nor Macintosh the glyph of `c` is the
    subtable's own mapping, nothing else: no aliasing, no transcoding. -/
theorem C16_nominal_plain (f : Font) (i : Nat) (s : CmapSub)
    (hbest : bestSub f.subs = some i) (hs : f.subs[i]? = some s) (hmac : s.platform ≠ 1)
    (hsym : ¬ (s.platform = 3 ∧ s.encoding = 0)) (c : Nat) : nominal f c = s.map c := by
  rw [nominal_of_best f i s hbest hs c]
  unfold nominalIn
  have h1 : (s.platform == 1) = false := by simpa using hmac
  have h2 : (s.platform == 3 && s.encoding == 0) = false := by
    cases h3 : (s.platform == 3 && s.encoding == 0) with
    | false => rfl
    | true =>
      simp only [Bool.and_eq_true, beq_iff_eq] at h3
      exact absurd h3 hsym
  simp only [h1, h2, Bool.false_and, Bool.false_eq_true, if_false]
  cases s.map c <;> rfl

/-- C16_nominal_mac: a chosen Macintosh subtable is indexed by the code point itself up to U+007F and by the MacRoman
    byte of the code point above (byte 0 when MacRoman has no such character). -/
theorem C16_nominal_mac (f : Font) (i : Nat) (s : CmapSub)
    (hbest : bestSub f.subs = some i) (hs : f.subs[i]? = some s) (hmac : s.platform = 1) (c : Nat) :
    (c ≤ 0x7F → nominal f c = s.map c) ∧ (0x7F < c → nominal f c = s.map (toMacRoman c)) := by
  obtain ⟨_, _, hascii⟩ := C16_gen_cmap_consts
  rw [nominal_of_best f i s hbest hs c]
  unfold nominalIn
  rw [hascii]
  simp only [hmac, beq_self_eq_true, Bool.true_and, show ((1 : Nat) == 3) = false from rfl, Bool.false_and,
    Bool.false_eq_true, if_false]
  constructor
  · intro hc
    have : ¬ c > 0x7F := by omega
    simp only [this, decide_false, Bool.false_eq_true, if_false]
    cases s.map c <;> rfl
  · intro hc
    have : c > 0x7F := hc
    simp only [this, decide_true, if_true]
    cases s.map (toMacRoman c) <;> rfl

example : ∃ (f : Font) (i : Nat) (s : CmapSub), bestSub f.subs = some i ∧ f.subs[i]? = some s ∧ s.platform = 1 ∧
    nominal f 0x7F = some 5 ∧ nominal f 0xC4 = some 7 :=
  ⟨⟨[⟨1, 0, fun c => if c == 0x7F then some 5 else if c == 0x80 then some 7 else none⟩],
     1000, none, none, 800, -200, none, none, fun _ => 0⟩, 0, _, by decide, rfl, rfl, by decide, by decide⟩


/-- C16_default: for every font without layout tables, every Unicode data, all four directions (any
    native direction of the script, any flags, any cluster level, any input clusters), a text whose
    characters are in scope, are neither marks nor default-ignorable, cannot become grapheme
    continuations (emoji modifiers, regional indicators, halfwidth sound marks, ZWJ, tags) and
    have a glyph in the chosen cmap subtable (after mirroring / vertical-form rotation, `rotCp`):
    the result is, character by character (`glyphOf`), the cmap glyph with the input cluster and
      horizontally  x_advance = hmtx advance (units-per-em without hmtx), y_advance = 0, offsets 0;
      vertically    x_advance = 0, y_advance = −(vmtx advance, or ascender − descender),
                    x_offset = −(h_advance / 2), y_offset = −(VORG origin, or the ascender);
    in logical order for LTR / TTB and in reverse order for RTL / BTT. -/
theorem C16_default (u : Ucd) (f : Font) (c : Cfg) (text : List (Nat × Nat))
    (hscope : ∀ t ∈ text, u.norm t.1 = false ∧ u.mcc t.1 = 0)
    (hplain : ∀ t ∈ text, PlainChar u t.1)
    (hnoDI : ∀ t ∈ text, u.isDI t.1 = false)
    (hglyph : ∀ t ∈ text, (nominal f (rotCp u f c t.1)).isSome = true) :
    shape u f c text = .ok
      (if c.dir.isBackward then (text.map (glyphOf u f c)).reverse else text.map (glyphOf u f c)) :=
  shape_plain u f c text hscope hplain hglyph (Or.inl fun t ht => by rw [hnoDI t ht, Bool.and_false])

/-- the fields of `glyphOf`, spelled out (what C16_default says about one glyph) -/
theorem C16_default_fields (u : Ucd) (f : Font) (c : Cfg) (t : Nat × Nat) :
    let g := glyphOf u f c t
    let gl := (nominal f (rotCp u f c t.1)).getD 0
    g.gid = gl ∧ g.cluster = t.2 ∧
    (c.dir.isHorizontal = true → g.xa = hAdvance f gl ∧ g.ya = 0 ∧ g.xo = 0 ∧ g.yo = 0) ∧
    (c.dir.isHorizontal = false →
      g.xa = 0 ∧ g.ya = vAdvance f gl ∧ g.xo = -(hOrigin f gl) ∧ g.yo = -(vOrigin f gl)) := by
  unfold glyphOf
  cases c.dir.isHorizontal <;> simp

/-- hypotheses of C16_default are satisfiable: "AB" right-to-left on a two-glyph font -/
example : ∃ (u : Ucd) (f : Font) (c : Cfg) (text : List (Nat × Nat)),
    (∀ t ∈ text, u.norm t.1 = false ∧ u.mcc t.1 = 0) ∧ (∀ t ∈ text, PlainChar u t.1) ∧
    (∀ t ∈ text, u.isDI t.1 = false) ∧ (∀ t ∈ text, (nominal f (rotCp u f c t.1)).isSome = true) ∧ text ≠ [] :=
  ⟨⟨fun _ => 9, fun _ => 0, fun _ => false, fun _ => false, fun _ => 0, fun _ => none, fun _ => none, fun _ => false⟩,
   ⟨[⟨3, 1, fun c => if c == 0x41 then some 1 else if c == 0x42 then some 2 else none⟩], 1000,
      some (fun _ => some 500), none, 800, -200, none, none, fun _ => 0⟩,
   ⟨.rtl, some .ltr, 0, 0, 0⟩, [(0x41, 0), (0x42, 1)],
   by intro t _; exact ⟨rfl, rfl⟩,
   by
     intro t ht
     simp only [List.mem_cons, List.not_mem_nil, or_false] at ht
     rcases ht with rfl | rfl <;> exact ⟨by decide, by decide⟩,
   by intro t _; rfl,
   by
     intro t ht
     simp only [List.mem_cons, List.not_mem_nil, or_false] at ht
     rcases ht with rfl | rfl <;> decide,
   by simp⟩

/-- C16_v_origin: the vertical origin the offsets of C16_default refer to.
    VORG wins.  Without VORG, for an outline glyph with vertical extent `[yMin, yMax]`:
    with `vmtx` the origin is the top of the box plus the top side bearing; without it the box is centred in the
    line `ascender - descender`, and an odd remainder is rounded DOWN (HarfBuzz's `diff >> 1`), i.e.
    `2·(origin − yMax) ≤ (ascender − descender) − (yMax − yMin) < 2·(origin − yMax) + 2`.
    Without outlines the origin is the ascender. -/
theorem C16_v_origin (f : Font) (g : Nat) :
    (∀ y, f.vorg = some y → vOrigin f g = y g) ∧
    (f.vorg = none → f.glyf = none → vOrigin f g = f.ascender) ∧
    (∀ bb ymin ymax, f.vorg = none → f.glyf = some bb → bb g = some (ymin, ymax) →
      (f.vmtx.isSome = true → vOrigin f g = ymax + f.vsb g) ∧
      (f.vmtx.isSome = false →
        2 * (vOrigin f g - ymax) ≤ (f.ascender - f.descender) - (ymax - ymin) ∧
        (f.ascender - f.descender) - (ymax - ymin) < 2 * (vOrigin f g - ymax) + 2)) ∧
    (∀ bb, f.vorg = none → f.glyf = some bb → bb g = none →
      (f.vmtx.isSome = true → vOrigin f g = f.vsb g) ∧
      (f.vmtx.isSome = false → 2 * vOrigin f g ≤ f.ascender - f.descender ∧
        f.ascender - f.descender < 2 * vOrigin f g + 2)) := by
  refine ⟨?_, ?_, ?_, ?_⟩
  · intro y h; simp [vOrigin, h]
  · intro h1 h2; simp [vOrigin, h1, glyphExtentsY, h2]
  · intro bb ymin ymax h1 h2 h3
    refine ⟨?_, ?_⟩
    · intro hv; simp [vOrigin, h1, glyphExtentsY, h2, h3, hv]
    · intro hv
      have : vOrigin f g = ymax + ((f.ascender - f.descender) + (ymin - ymax)) / 2 := by
        simp [vOrigin, h1, glyphExtentsY, h2, h3, hv]
      rw [this]; omega
  · intro bb h1 h2 h3
    refine ⟨?_, ?_⟩
    · intro hv; simp [vOrigin, h1, glyphExtentsY, h2, h3, hv]
    · intro hv
      have : vOrigin f g = 0 + ((f.ascender - f.descender) + 0) / 2 := by
        simp [vOrigin, h1, glyphExtentsY, h2, h3, hv]
      rw [this]; omega

/-- non-vacuity and the rounding direction on a concrete glyph: box taller than the line by an odd amount
    (ascender 800, descender −200, yMin −301, yMax 800: diff = −101, origin = 800 − 51 = 749, not 750) -/
example : vOrigin ⟨[], 1000, none, none, 800, -200, none, some (fun _ => some (-301, 800)), fun _ => 0⟩ 1 = 749 := by decide

end RbModel.Pipeline

/-! ## axis discipline of GPOS value records (SinglePos / PairPos), device and variation deltas included -/
namespace RbModel.Gpos

/-- C16_axis for value records: whatever the record holds — all eight value-format bits, any device / variation
    deltas, any ppem / variation state of the face — applying it in a horizontal run leaves `y_advance` untouched and
    applying it in a vertical run leaves `x_advance` untouched.  (`YAdvance` / `YAdvDevice` are vertical-layout
    quantities, `XAdvance` / `XAdvDevice` horizontal ones.) -/
theorem C16_axis_value_record (v : ValueRecordD) (useX useY : Bool) (d : Dir) (q : Pos) :
    (d.isHorizontal = true → (valueApplyToPosD v useX useY d q).1.ya = q.ya) ∧
    (d.isHorizontal = false → (valueApplyToPosD v useX useY d q).1.xa = q.xa) := by
  rw [valueApplyToPosD_exact]
  constructor <;> intro h <;> simp [h]

/-- non-vacuity: a record with every field and every device active does change the glyph, on the run's own axis only -/
example :
    let v : ValueRecordD := {
      xPlacement := 1, yPlacement := 2, xAdvance := 3, yAdvance := 4,
      xPlaDevice := some 5, yPlaDevice := some 6, xAdvDevice := some 7, yAdvDevice := some 8 }
    (valueApplyToPosD v true true .rtl { xa := 100, ya := 0 }).1 = { xa := 110, ya := 0, xo := 6, yo := 8 } ∧
    (valueApplyToPosD v true true .ttb { xa := 0, ya := -100 }).1 = { xa := 0, ya := -112, xo := 6, yo := 8 } := by
  decide

/-- the same for the buffer: a SinglePos / PairPos application (`ValueRecord::apply` on one glyph, `bail` of PairPos on
    two) keeps the off-axis advance of EVERY glyph of the buffer -/
theorem C16_axis_value_apply (v : ValueRecordD) (useX useY : Bool) (d : Dir) (p q : Array Pos) (idx : Nat) (w : Bool)
    (h : valueApplyD v useX useY d p idx = .ok (q, w)) (k : Nat) :
    (d.isHorizontal = true → (q[k]?.map (·.ya)) = (p[k]?.map (·.ya))) ∧
    (d.isHorizontal = false → (q[k]?.map (·.xa)) = (p[k]?.map (·.xa))) := by
  unfold valueApplyD at h
  simp only [bind, Except.bind] at h
  split at h
  · cases h
  · rename_i q0 hq0
    simp only [Except.ok.injEq, Prod.mk.injEq] at h
    obtain ⟨rfl, _⟩ := h
    have hget : p[idx]? = some q0 := by
      unfold get at hq0
      split at hq0
      · rename_i x hx; simp only [Except.ok.injEq] at hq0; rw [hx, hq0]
      · cases hq0
    have hax := C16_axis_value_record v useX useY d q0
    by_cases hk : k = idx
    · subst hk
      have hlt : k < p.size := by
        by_cases hlt : k < p.size
        · exact hlt
        · rw [Array.getElem?_eq_none (by omega)] at hget; cases hget
      unfold put
      rw [Array.getElem?_setIfInBounds_self_of_lt hlt, hget]
      constructor <;> intro hd
      · simp [hax.1 hd]
      · simp [hax.2 hd]
    · unfold put
      rw [Array.getElem?_setIfInBounds_ne (Ne.symm hk)]
      exact ⟨fun _ => rfl, fun _ => rfl⟩

theorem C16_axis_pair_apply (v1 v2 : ValueRecordD) (useX useY : Bool) (d : Dir) (p q : Array Pos) (i j : Nat) (f1 f2 : Bool)
    (h : pairApplyD v1 v2 useX useY d p i j = .ok (q, f1, f2)) (k : Nat) :
    (d.isHorizontal = true → (q[k]?.map (·.ya)) = (p[k]?.map (·.ya))) ∧
    (d.isHorizontal = false → (q[k]?.map (·.xa)) = (p[k]?.map (·.xa))) := by
  unfold pairApplyD at h
  simp only [bind, Except.bind] at h
  have one : ∀ (v : ValueRecordD) (a b : Array Pos) (t : Nat) (g : Bool), valueApplyD v useX useY d a t = .ok (b, g) →
      (d.isHorizontal = true → (b[k]?.map (·.ya)) = (a[k]?.map (·.ya))) ∧
      (d.isHorizontal = false → (b[k]?.map (·.xa)) = (a[k]?.map (·.xa))) :=
    fun v a b t g hv => C16_axis_value_apply v useX useY d a b t g hv k
  split at h
  · split at h
    · cases h
    · rename_i r1 hr1
      obtain ⟨p1, g1⟩ := r1
      have s1 := one v1 p p1 i g1 hr1
      split at h
      · split at h
        · cases h
        · rename_i r2 hr2
          obtain ⟨p2, g2⟩ := r2
          simp only [Except.ok.injEq, Prod.mk.injEq] at h
          obtain ⟨rfl, _, _⟩ := h
          have s2 := one v2 p1 p2 j g2 hr2
          exact ⟨fun hd => (s2.1 hd).trans (s1.1 hd), fun hd => (s2.2 hd).trans (s1.2 hd)⟩
      · simp only [Except.ok.injEq, Prod.mk.injEq] at h
        obtain ⟨rfl, _, _⟩ := h
        exact s1
  · split at h
    · split at h
      · cases h
      · rename_i r2 hr2
        obtain ⟨p2, g2⟩ := r2
        simp only [Except.ok.injEq, Prod.mk.injEq] at h
        obtain ⟨rfl, _, _⟩ := h
        exact one v2 p p2 j g2 hr2
    · simp only [Except.ok.injEq, Prod.mk.injEq] at h
      obtain ⟨rfl, _, _⟩ := h
      exact ⟨fun _ => rfl, fun _ => rfl⟩

example : ∃ q f1 f2, pairApplyD { yAdvDevice := some 3 } { xAdvance := 2 } true true .ltr #[{ xa := 10 }, { xa := 20 }] 0 1 = .ok (q, f1, f2) :=
  ⟨_, _, _, rfl⟩

end RbModel.Gpos

/-! ## a character the font maps keeps its own glyph — in every normalization mode

`Pipeline.lean` models the default shaper only (normalization mode COMPOSED_DIACRITICS, which short-circuits on a
supported character).  The first sentence of C16 is about every shaper; the part of it that depends on the shaper is
`decompose_current_character` (ot_shape_normalize.rs), reached with `shortest = false` under the Indic / Khmer / Myanmar /
USE shapers (mode COMPOSED_DIACRITICS_NO_SHORT_CIRCUIT) and, under every normalizing shaper, for a character that is
directly followed by a combining mark.  These theorems are about `Norm.lean` (all five modes), tied to the crate by the
`norm-run-mapped` stream of tools/props/C16.py. -/

namespace RbModel.Norm

/-- **C16, every mode: a character the font maps is rendered with its own glyph unless the mode prefers its
    decomposition, and the mode prefers the decomposition exactly when it does not short-circuit and the font supports a
    decomposition candidate** (`Cand U F c k out`, Lemmas/Norm.lean: following `k` links of the chain of first components
    reaches a character the font maps, every second component on the way being mapped).
    (1) own glyph: record, unicode props and scratch flags untouched — neither the space fallback nor the
        U+2011 → U+2010 fallback nor .notdef is reached;
    (2) otherwise the output is the deepest supported candidate, every piece with the glyph the font assigns to it. -/
theorem C16_mapped_character_own_glyph (U : UData) (F : Font) (K : Consts) (fuel : Nat) (shortest : Bool)
    (x : Info) (flags g : Nat) (hg : F.glyph x.cp = some g) (hfuel : (decompose U F false fuel x.cp).isSome) :
    ((shortest = true ∨ ∀ k out, ¬Cand U F x.cp k out) →
      decomposeCurrentCharacter U F K fuel shortest x flags = some ([{ x with gidx := g }], flags)) ∧
    (shortest = false → (∃ k out, Cand U F x.cp k out) →
      ∃ k l f, decomposeCurrentCharacter U F K fuel shortest x flags = some (l, f) ∧ Cand U F x.cp k (l.map (·.cp)) ∧
        (∀ i ∈ l, F.glyph i.cp = some i.gidx ∧ i.cluster = x.cluster ∧ i.mask = x.mask) ∧
        (∀ k' out', Cand U F x.cp k' out' → k' ≤ k)) := by
  obtain ⟨r, hr⟩ := Option.isSome_iff_exists.mp hfuel
  have sh := decompose_full U F fuel x.cp r hr
  refine ⟨fun h => ?_, fun hs hex => ?_⟩
  · apply dcc_own U F K fuel shortest x flags g hg
    rcases h with h | h
    · exact Or.inl h
    · refine Or.inr ?_
      have h0 : r = [] := by
        apply Classical.byContradiction
        intro hne
        obtain ⟨k, hk1, _, _⟩ := sh.1 hne
        exact h _ _ hk1
      rw [hr, h0]
  · subst hs
    have hne : r ≠ [] := by
      intro h0
      obtain ⟨k, out, hc⟩ := hex
      exact sh.2 h0 k out hc
    obtain ⟨k, hk1, hk2, hk3⟩ := sh.1 hne
    cases r with
    | nil => exact absurd rfl hne
    | cons p ps =>
      have sp := outputChars_spec U K x (p :: ps) flags
      refine ⟨k, (outputChars U K x (p :: ps) flags).1, (outputChars U K x (p :: ps) flags).2,
        dcc_prefers U F K fuel x flags p ps hr, by rw [sp.1]; exact hk1, ?_, hk3⟩
      have hz := zip_mem (outputChars U K x (p :: ps) flags).1 (·.cp) (·.gidx) (p :: ps) sp.1 sp.2.1
      intro i hi
      exact ⟨hk2 _ (hz i hi), sp.2.2 i hi⟩

/-- non-vacuity of (2): U+00C5 in a font that has U+00C5, A and the ring: the candidate `A, U+030A` exists, so a mode
    that does not short-circuit decomposes the mapped character -/
example : let F : Font := { glyph := fun c => if c = 0xC5 ∨ c = 0x41 ∨ c = 0x30A then some 1 else none }
    F.glyph 0xC5 = some 1 ∧ Cand genU F 0xC5 1 [0x41, 0x30A] ∧ (decompose genU F false genFuel 0xC5).isSome := by
  intro F
  have d1 : genU.decomp 0xC5 = some (0x41, 0x30A) := by decide +kernel
  exact ⟨by decide, Cand.base d1 (by decide) (Or.inr (by decide)), by decide +kernel⟩

/-- **C16, whole runs**: a run of characters the font maps, none of which the mode decomposes, goes through the
    first round (`decompose_current_character` one by one, and the `might_short_circuit` fast path) as itself with the
    font's glyphs; the scratch flags do not change. -/
theorem C16_mapped_run_own_glyphs (U : UData) (F : Font) (K : Consts) (fuel : Nat) (shortest : Bool) (G : Nat → Nat)
    (xs : List Info) (flags : Nat)
    (h : ∀ x ∈ xs, F.glyph x.cp = some (G x.cp) ∧ (shortest = true ∨ decompose U F false fuel x.cp = some [])) :
    decomposeRun U F K fuel shortest xs flags = some (xs.map (own G), flags) ∧
    simpleRun U F K fuel shortest xs flags = some (xs.map (own G), flags) :=
  ⟨decomposeRun_own U F K fuel shortest G xs flags h, simpleRun_own U F K fuel shortest G xs flags h⟩

example : ∃ (F : Font) (xs : List Info), xs ≠ [] ∧
    ∀ x ∈ xs, F.glyph x.cp = some 7 ∧ (false = true ∨ decompose genU F false genFuel x.cp = some []) :=
  ⟨{ glyph := fun _ => some 7 }, [{ cp := 0x2011, mask := 0, cluster := 0, gidx := 0, props := {} }], by simp,
    by intro x hx; simp at hx; subst hx; exact ⟨rfl, Or.inr (by decide +kernel)⟩⟩

/-- **C16, a one-character buffer under every normalization preference** (0 none … 4 auto): a mapped character for
    which the font supports no decomposition candidate — in particular every character without a canonical
    decomposition, U+2011 included — comes out of `_hb_ot_shape_normalize` as itself with its own glyph; under the
    preferences that may short-circuit this holds whatever the font supports. -/
theorem C16_mapped_single_every_mode (U : UData) (F : Font) (K : Consts) (fuel pref : Nat) (x : Info) (flags g : Nat)
    (hg : F.glyph x.cp = some g)
    (h : mightPref pref ∨ decompose U F false fuel x.cp = some []) :
    normalize U F K fuel pref [x] flags = some ([{ x with gidx := g }], flags) := by
  rw [normalize_single]
  have hd := dcc_own U F K fuel
    ((if pref = 4 then 2 else pref) == 0 || ((if pref = 4 then 2 else pref) != 1 && (if pref = 4 then 2 else pref) != 3))
    x flags g hg (by
      rcases h with h | h
      · exact Or.inl (might_of pref h)
      · exact Or.inr h)
  rw [hd]
  simp only [cgjRound_single, ite_self]

/-- U+2011 NON-BREAKING HYPHEN has no canonical decomposition in the crate's tables: with a glyph of its own it never
    reaches the U+2010 fallback, in any mode (instance of the theorem above; the fallback is for fonts that lack it) -/
theorem C16_nb_hyphen_own_glyph (F : Font) (K : Consts) (pref : Nat) (x : Info) (flags g : Nat)
    (hx : x.cp = 0x2011) (hg : F.glyph 0x2011 = some g) :
    normalize genU F K genFuel pref [x] flags = some ([{ x with gidx := g }], flags) := by
  apply C16_mapped_single_every_mode genU F K genFuel pref x flags g (by rw [hx]; exact hg)
  refine Or.inr ?_
  rw [hx]
  have hd : genU.decomp 0x2011 = none := by decide +kernel
  exact decompose_none genU F false 7 0x2011 hd

end RbModel.Norm
