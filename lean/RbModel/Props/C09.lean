import RbModel.Norm
namespace RbModel.Props.C09
end RbModel.Props.C09
