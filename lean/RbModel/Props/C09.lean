/-
  C09 — normalization picks composed/decomposed forms per font support
  (and the normalizer part of C08: decomposition and reordering keep canonical equivalence).

  Model: RbModel/Norm.lean (ot_shape_normalize.rs, unicode.rs).  Unicode data: RbModel/Gen/Norm.lean
  (dumped from the compiled crate), reference: RbModel/Gen/NormRef.lean (CPython unicodedata).
  Font support is an arbitrary function `F.glyph : Nat → Option Nat`.
-/
import RbModel.Norm
import RbModel.Lemmas.Norm
import RbModel.Lemmas.NormBlock
import RbModel.Gen.Norm
import RbModel.Gen.NormRef
import RbModel.Lemmas.NormMarks

namespace RbModel.Props.C09
open RbModel.Norm RbModel.Gen

set_option maxRecDepth 100000

/-! ## generated tables -/

/-- The crate's tables restricted to characters assigned in the reference's Unicode version are the
    reference's: the decomposition table is the key-ordered merge of CPython's canonical mappings with
    the rows of characters unassigned there; the composition table is the merge of CPython's primary
    composites (canonical pair mappings that are not composition-excluded) with the rows of unassigned
    characters.  (Before the repair of COMPOSITION_TABLE the four non-starter pairs U+0308 U+0301,
    U+0F71 U+0F72/0F74/0F80 were in the table and this held only without them.) -/
theorem C09_tables_match_ref :
    Norm.decompTable = mergeKeys 3000 NormRef.decompTable NormRef.newDecomp ∧
    Norm.compTable = mergeKeys 2000 NormRef.compTable NormRef.newComp := by
  have h1 : (Norm.decompTable == mergeKeys 3000 NormRef.decompTable NormRef.newDecomp) = true := by
    decide +kernel
  have h2 : (Norm.compTable == mergeKeys 2000 NormRef.compTable NormRef.newComp) = true := by
    decide +kernel
  exact ⟨eq_of_beq h1, eq_of_beq h2⟩

/-- Consistency of the crate's tables: both are strictly sorted by key, hence the binary searches of
    `unicode::compose` / `unicode::decompose` return the row with that key, if any (generic lemma
    `bsearchGo_eq_lookup`); and composition is the inverse of decomposition: a table hit
    `compose(a, b) = c` implies the table row `decompose(c) = (a, b)`. -/
theorem C09_tables_consistent :
    sortedKeys Norm.decompTable = true ∧ sortedKeys Norm.compTable = true ∧
    (∀ k, bsearch Norm.decompTable.toArray k = lookup Norm.decompTable k) ∧
    (∀ k, bsearch Norm.compTable.toArray k = lookup Norm.compTable k) ∧
    (∀ a b c, b < 2 ^ 32 → lookup Norm.compTable (a * 2 ^ 32 + b) = some c →
      lookup Norm.decompTable c = some (a, b)) := by
  refine ⟨decompTable_sorted, compTable_sorted, ?_, ?_, ?_⟩
  · intro k
    exact bsearchGo_eq_lookup _ (sortedKeys_pairwise decompTable_sorted) k _ 0 _ (by simp) (by simp)
      (fun i hi _ => ⟨Nat.zero_le _, by simpa using hi⟩)
  · intro k
    exact bsearchGo_eq_lookup _ (sortedKeys_pairwise compTable_sorted) k _ 0 _ (by simp) (by simp)
      (fun i hi _ => ⟨Nat.zero_le _, by simpa using hi⟩)
  · intro a b c hb h
    have hm := lookup_mem h
    have h1 : (c, (a * 2 ^ 32 + b) / 2 ^ 32, (a * 2 ^ 32 + b) % 2 ^ 32) ∈
        Norm.compTable.map (fun r => (r.2, r.1 / 2 ^ 32, r.1 % 2 ^ 32)) :=
      List.mem_map.mpr ⟨_, hm, rfl⟩
    have h2 := isSubseq_mem comp_rows_in_decomp _ ((mem_msort _ _ _).mpr h1)
    have h3 := lookup_of_mem_sorted decompTable_sorted h2
    have e1 : (a * 2 ^ 32 + b) / 2 ^ 32 = a := by omega
    have e2 : (a * 2 ^ 32 + b) % 2 ^ 32 = b := by omega
    rw [e1, e2] at h3
    exact h3

example : lookup Norm.compTable (0x41 * 2 ^ 32 + 0x300) = some 0xC0 := by decide +kernel

/-! ## combining classes -/

/-- (1) The crate's canonical combining classes are CPython's on the characters assigned there (merge
    with the per-character list of classes of characters unassigned in the reference).
    (2) `CharExt::modified_combining_class` is, for every character with a non-zero class, the three
    per-character overrides (U+1A60, U+0FC6 → 254, U+0F39 → 127) or else `MODIFIED_COMBINING_CLASS[ccc]`,
    and it is 0 on every character with class 0 (`expandRanges` lists the characters of a range table
    with their non-zero value; `classVals` = the classes in use with their modified value).
    (3) The modification is injective on the classes in use, except for the classes it zeroes, and
    (4) it zeroes only 84 and 91 (the Telugu length marks, deliberately): so sorting by modified class
    never ties two marks of different canonical classes — the reorder round identifies exactly the
    canonically equivalent mark orders (up to those two classes). -/
theorem C09_mcc_classes :
    expandRanges Norm.cccRanges = mergeKeys 2000 (expandRanges NormRef.cccRanges) NormRef.newCcc ∧
    mccExpected classVals (expandRanges Norm.cccRanges) = some (expandRanges Norm.mccRanges) ∧
    (∀ p ∈ classVals, ∀ q ∈ classVals, p.1 ≠ q.1 → p.2 = q.2 → p.2 = 0) ∧
    (∀ p ∈ classVals, p.2 = 0 → p.1 = 84 ∨ p.1 = 91) := by
  refine ⟨?_, mcc_from_ccc_check, ?_, ?_⟩
  · have h : (expandRanges Norm.cccRanges == mergeKeys 2000 (expandRanges NormRef.cccRanges) NormRef.newCcc) = true := by
      decide +kernel
    exact eq_of_beq h
  · intro p hp q hq hne heq
    have h := List.all_eq_true.mp (List.all_eq_true.mp classVals_inj_check p hp) q hq
    simp only [Bool.or_eq_true, beq_iff_eq, bne_iff_ne, ne_eq] at h
    rcases h with (h | h) | h
    · exact absurd h hne
    · exact absurd heq h
    · exact h
  · intro p hp h0
    have h := List.all_eq_true.mp classVals_zero_check p hp
    simp only [Bool.or_eq_true, bne_iff_ne, ne_eq, beq_iff_eq] at h
    rcases h with (h | h) | h
    · exact absurd h0 h
    · exact Or.inl h
    · exact Or.inr h

/-! ## Hangul arithmetic (unicode.rs::compose_hangul / decompose_hangul) -/

/-- Every Hangul decomposition composes back, and every Hangul composition decomposes back to its two
    arguments (all values; `compose_hangul` requires `T_BASE < v` since the repair). -/
theorem C09_hangul_roundtrip :
    (∀ s a b, s < 2 ^ 32 → decomposeHangul genH s = some (a, b) → composeHangul genH a b = some s) ∧
    (∀ a b s, composeHangul genH a b = some s → decomposeHangul genH s = some (a, b)) :=
  ⟨fun s a b hs h => hangul_rt1 genH genH_std s a b hs h,
   fun a b s h => hangul_rt2 genH genH_std a b s h⟩

example : decomposeHangul genH 0xAC01 = some (0xAC00, 0x11A8) ∧ composeHangul genH 0xAC00 0x11A8 = some 0xAC01 ∧
    composeHangul genH 0xAC00 0x11A7 = none := by
  decide +kernel

/-! ## one-character buffers -/

/-- **C09, one-character buffers.**  `Cand U F c k out` (Lemmas/Norm.lean): following `k` links of the
    decomposition chain of `c` reaches a character the font maps, all second components on the way are
    mapped, and `out` is that character followed by the second components. -/
theorem C09_single (U : UData) (F : Font) (K : Consts) (fuel pref : Nat) (x : Info) (flags : Nat) :
    -- (1) short-circuiting modes leave a supported character alone
    (mightPref pref → ∀ g, F.glyph x.cp = some g →
      normalize U F K fuel pref [x] flags = some ([{ x with gidx := g }], flags)) ∧
    -- (2) unsupported character, some candidate exists: the candidate of least depth is output
    (mightPref pref → F.glyph x.cp = none → (decompose U F true fuel x.cp).isSome →
      (∃ k out, Cand U F x.cp k out) →
      ∃ k l f, normalize U F K fuel pref [x] flags = some (l, f) ∧ Cand U F x.cp k (l.map (·.cp)) ∧
        (∀ i ∈ l, F.glyph i.cp = some i.gidx ∧ i.cluster = x.cluster ∧ i.mask = x.mask) ∧
        (∀ k' out', Cand U F x.cp k' out' → k ≤ k')) ∧
    -- (3) unsupported character, no candidate: the character is kept (fallback glyph or .notdef)
    (mightPref pref → F.glyph x.cp = none → (decompose U F true fuel x.cp).isSome →
      (∀ k out, ¬Cand U F x.cp k out) →
      ∃ g p f, normalize U F K fuel pref [x] flags = some ([{ x with gidx := g, props := p }], f)) ∧
    -- (4) never-short-circuiting modes: the deepest candidate is output, supported or not
    (fullPref pref → (decompose U F false fuel x.cp).isSome → (∃ k out, Cand U F x.cp k out) →
      ∃ k l f, normalize U F K fuel pref [x] flags = some (l, f) ∧ Cand U F x.cp k (l.map (·.cp)) ∧
        (∀ i ∈ l, F.glyph i.cp = some i.gidx ∧ i.cluster = x.cluster ∧ i.mask = x.mask) ∧
        (∀ k' out', Cand U F x.cp k' out' → k' ≤ k)) ∧
    -- (5) never-short-circuiting modes, no candidate: kept, with the font's glyph if it has one
    (fullPref pref → (decompose U F false fuel x.cp).isSome → (∀ k out, ¬Cand U F x.cp k out) →
      ∃ g p f, normalize U F K fuel pref [x] flags = some ([{ x with gidx := g, props := p }], f) ∧
        (∀ g', F.glyph x.cp = some g' → g = g' ∧ p = x.props ∧ f = flags)) := by
  refine ⟨?_, ?_, ?_, ?_, ?_⟩
  · intro hp g hg
    obtain ⟨g0, p, f, h1, h2⟩ := normalize_single_kept U F K fuel pref x flags true (might_of pref hp)
      (by simp [hg])
    obtain ⟨e1, e2, e3⟩ := h2 g hg
    rw [h1, e1, e2, e3]
  · intro hp hg hfu hex
    obtain ⟨r, hr⟩ := Option.isSome_iff_exists.mp hfu
    have sh := decompose_shortest U F fuel x.cp r hr
    have hne : r ≠ [] := by
      intro h0
      obtain ⟨k, out, hc⟩ := hex
      exact sh.2 h0 k out hc
    obtain ⟨k, hk1, hk2, hk3⟩ := sh.1 hne
    obtain ⟨l, f, h1, h2, h3⟩ := normalize_single_decomposed U F K fuel pref x flags true (might_of pref hp) r hne
      (by simp [hg, hr]) hk2
    exact ⟨k, l, f, h1, by rw [h2]; exact hk1, h3, hk3⟩
  · intro hp hg hfu hno
    obtain ⟨r, hr⟩ := Option.isSome_iff_exists.mp hfu
    have sh := decompose_shortest U F fuel x.cp r hr
    have h0 : r = [] := by
      apply Classical.byContradiction
      intro hne
      obtain ⟨k, hk1, _, _⟩ := sh.1 hne
      exact hno _ _ hk1
    subst h0
    obtain ⟨g, p, f, h1, _⟩ := normalize_single_kept U F K fuel pref x flags true (might_of pref hp)
      (by simp [hg, hr])
    exact ⟨g, p, f, h1⟩
  · intro hp hfu hex
    obtain ⟨r, hr⟩ := Option.isSome_iff_exists.mp hfu
    have sh := decompose_full U F fuel x.cp r hr
    have hne : r ≠ [] := by
      intro h0
      obtain ⟨k, out, hc⟩ := hex
      exact sh.2 h0 k out hc
    obtain ⟨k, hk1, hk2, hk3⟩ := sh.1 hne
    obtain ⟨l, f, h1, h2, h3⟩ := normalize_single_decomposed U F K fuel pref x flags false (full_of pref hp) r hne
      (by simp [hr]) hk2
    exact ⟨k, l, f, h1, by rw [h2]; exact hk1, h3, hk3⟩
  · intro hp hfu hno
    obtain ⟨r, hr⟩ := Option.isSome_iff_exists.mp hfu
    have sh := decompose_full U F fuel x.cp r hr
    have h0 : r = [] := by
      apply Classical.byContradiction
      intro hne
      obtain ⟨k, hk1, _, _⟩ := sh.1 hne
      exact hno _ _ hk1
    subst h0
    exact normalize_single_kept U F K fuel pref x flags false (full_of pref hp) (by simp [hr])


/-- non-vacuity: U+1EA4 (Â with acute) in a font that has only A, the circumflex and the acute has the
    depth-2 candidate `A, U+0302, U+0301`, and no candidate of depth 1 -/
example : let F : Font := { glyph := fun c => if c = 0x41 ∨ c = 0x302 ∨ c = 0x301 then some 1 else none }
    Cand genU F 0x1EA4 2 [0x41, 0x302, 0x301] ∧ (decompose genU F true genFuel 0x1EA4).isSome := by
  intro F
  have d1 : genU.decomp 0x1EA4 = some (0xC2, 0x301) := by decide +kernel
  have d2 : genU.decomp 0xC2 = some (0x41, 0x302) := by decide +kernel
  refine ⟨?_, by decide +kernel⟩
  exact Cand.step d1 (Or.inr (by decide)) (Cand.base d2 (by decide) (Or.inr (by decide)))

/-! ## the reorder round -/

/-- **The second round is the canonical ordering algorithm.**  `strip` forgets cluster and mask (the
    round merges clusters while it moves records); `canonReorder` (Lemmas/Norm.lean) is UAX #15's
    canonical ordering with the crate's modified classes and its cap: every maximal run of records with
    non-zero modified ccc that has at most `MAX_COMBINING_MARKS` records is replaced by `insertAll [] run`,
    longer runs are left alone.  (2) says `insertAll [] run` is *the* stable sort of `run` by modified ccc:
    a permutation, sorted, and the records of each class keep their relative order.
    (3) is the C08 part: the round only permutes the records. -/
theorem C09_sort_canonical (K : Consts) :
    (∀ l, (round2 K [] l).map strip = canonReorder K.maxMarks (l.map strip)) ∧
    (∀ run, (insertAll [] run).Perm run ∧ SortedMcc (insertAll [] run) ∧
      ∀ c, (insertAll [] run).filter (fun y => y.mcc == c) = run.filter (fun y => y.mcc == c)) ∧
    (∀ l, ((round2 K [] l).map strip).Perm (l.map strip)) := by
  refine ⟨fun l => by simpa using round2_strip K [] l, ?_, ?_⟩
  · intro run
    refine ⟨by simpa using insertAll_perm [] run, insertAll_sorted [] run List.Pairwise.nil, ?_⟩
    intro c
    simpa using insertAll_stable [] run c
  · intro l
    rw [round2_strip]
    simpa using canonReorder_perm _ _

/-- the cap of the reorder round is HarfBuzz's `HB_OT_SHAPE_MAX_COMBINING_MARKS` -/
theorem C09_max_combining_marks : genK.maxMarks = 32 := rfl

/-- the sort does reorder: acute (230) before dot below (220) is swapped, and the clusters are merged -/
example :
    let mk (cp cl ccc : Nat) : Info := { cp := cp, mask := 0, cluster := cl, gidx := 0, props := { cls := 1, hi := ccc } }
    sortGo genK [] [] 2 [mk 0x301 1 230, mk 0x323 2 220] = [mk 0x323 1 220, mk 0x301 1 230] := by
  decide

/-- with the repaired "extend start" loop of `merge_clusters_impl` (D4; `Gen.Buf.extendStartGuard = 1`)
    the merge also reaches back to the base that shares the cluster of the first moved mark -/
example (h : Gen.Buf.extendStartGuard = 1) :
    let mk (cp cl ccc : Nat) : Info := { cp := cp, mask := 0, cluster := cl, gidx := 0, props := { cls := 1, hi := ccc } }
    let b : Info := { cp := 0x61, mask := 0, cluster := 2, gidx := 0, props := {} }
    sortGo genK [b] [] 2 [mk 0x301 2 230, mk 0x323 1 220] =
      [{ b with cluster := 1 }, mk 0x323 1 220, mk 0x301 1 230] := by
  intro mk b
  simp [sortGo, sortStep, mergeClusters, extendStart, h, rotateRight1, setCluster, minCluster, lastOf,
    Info.mcc, Info.isMark, mk, b, genK]

/-! ## the recomposition round -/

/-- **Third round on `starter + marks`** (every mark has a non-zero modified ccc, so the starter never
    moves): the output code points are the final starter followed by the marks that were not absorbed,
    as computed by `recomposeSpec` (Lemmas/Norm.lean) from code points and classes alone: going left to
    right, a mark `m` is absorbed into the current starter `a` iff it is not blocked (no mark kept so
    far, or the last kept mark has a smaller class), `comp a m` is defined and the font maps the result
    (see `C09_recompose_step` for this reading of the spec). -/
theorem C09_recompose (U : UData) (F : Font) (K : Consts) (s : Info) (marks : List Info) (flags : Nat)
    (hm : ∀ m ∈ marks, m.isMark = true ∧ m.mcc ≠ 0) :
    (round3 U F K (s :: marks) flags).1.map (·.cp) =
      (recomposeSpec U.comp F.has s.cp [] (marks.map cm)).1 ::
        (recomposeSpec U.comp F.has s.cp [] (marks.map cm)).2.map (·.1) := by
  have := round3Go_spec U F K marks [] s [] flags hm
  simpa [round3] using this

example : ∃ marks : List Info, marks ≠ [] ∧ ∀ m ∈ marks, m.isMark = true ∧ m.mcc ≠ 0 :=
  ⟨[{ cp := 0x301, mask := 0, cluster := 1, gidx := 0, props := { cls := 1, hi := 230 } }], by simp, by
    intro m hm; simp only [List.mem_singleton] at hm; subst hm; decide⟩

/-- the spec, one mark at a time: absorbed iff unblocked, `comp` defined, result mapped by the font -/
theorem C09_recompose_step (comp : Nat → Nat → Option Nat) (has : Nat → Bool) (a : Nat)
    (kept : List (Nat × Nat)) (m : Nat × Nat) (ms : List (Nat × Nat)) :
    (∀ c, unblockedCm kept m = true → comp a m.1 = some c → has c = true →
      recomposeSpec comp has a kept (m :: ms) = recomposeSpec comp has c kept ms) ∧
    ((unblockedCm kept m = false ∨ comp a m.1 = none ∨ (∃ c, comp a m.1 = some c ∧ has c = false)) →
      recomposeSpec comp has a kept (m :: ms) = recomposeSpec comp has a (kept ++ [m]) ms) := by
  constructor
  · intro c h1 h2 h3
    simp [recomposeSpec, h1, h2, h3]
  · intro h
    rcases h with h | h | ⟨c, h1, h2⟩
    · simp [recomposeSpec, h]
    · rw [recomposeSpec]
      split <;> simp_all
    · rw [recomposeSpec]
      split <;> simp_all

/-! ## the recomposition round on every buffer, and its blocking side -/

/-- **Third round, any buffer** (no hypothesis on the records): the output code points are
    `recomposeFull` (Lemmas/NormBlock.lean) of the code points, mark bits and modified classes.  Going left to
    right with a current starter `a` and the records kept after it: a record is absorbed into `a` iff it is a
    mark, is not blocked, `comp a m` is defined and the font maps it (`absorbs`); a record that is not absorbed
    and has modified class 0 — a base character, but also an enclosing mark, U+034F, a spacing mark … —
    becomes the new starter and everything before it is final (`recomposeFull_done`).  On `starter + marks of
    non-zero class` this is `recomposeSpec` of `C09_recompose` (second part). -/
theorem C09_recompose_all (U : UData) (F : Font) (K : Consts) (x : Info) (rest : List Info) (flags : Nat) :
    (round3 U F K (x :: rest) flags).1.map (·.cp) =
      recomposeFull U.comp F.has [] x.cp [] (rest.map Info.view) ∧
    ((∀ m ∈ rest, m.isMark = true ∧ m.mcc ≠ 0) →
      recomposeFull U.comp F.has [] x.cp [] (rest.map Info.view) =
        (recomposeSpec U.comp F.has x.cp [] (rest.map cm)).1 ::
          (recomposeSpec U.comp F.has x.cp [] (rest.map cm)).2.map (·.1)) := by
  refine ⟨round3_full U F K x rest flags, fun h => ?_⟩
  have := recomposeFull_eq_spec U.comp F.has [] x.cp [] (rest.map Info.view) (by
    intro m hm
    obtain ⟨i, hi, rfl⟩ := List.mem_map.mp hm
    exact h i hi)
  have hcm : (fun i : Info => (i.cp, i.mcc)) = cm := rfl
  simpa [List.map_map, Function.comp_def, Info.view, hcm] using this

/-- **Recomposition never crosses a character of combining class 0.**  Let the buffer be
    `x :: l1 ++ z :: l2` where `z` has modified class 0 and cannot be absorbed itself (it is not a mark, or the
    font maps no composite that has `z` as its second component — every base letter, every enclosing mark,
    U+034F).  Then the third round gives the result of the round on `x :: l1` followed by the result of the
    round on `z :: l2`, each computed on its own: no record after `z` is composed with the starter before `z`
    (or with anything else before `z`), whatever its class, and whatever the font maps.  The scratch flags do
    not matter for the code points, so they are arbitrary on the right. -/
theorem C09_recompose_never_crosses_ccc0 (U : UData) (F : Font) (K : Consts) (x : Info) (l1 : List Info)
    (z : Info) (l2 : List Info) (flags f1 f2 : Nat)
    (hz : z.mcc = 0)
    (hna : z.isMark = false ∨ ∀ a c, U.comp a z.cp = some c → F.has c = false) :
    (round3 U F K (x :: (l1 ++ z :: l2)) flags).1.map (·.cp) =
      (round3 U F K (x :: l1) f1).1.map (·.cp) ++ (round3 U F K (z :: l2) f2).1.map (·.cp) := by
  rw [round3_full, round3_full, round3_full, List.map_append, List.map_cons]
  exact recomposeFull_split U.comp F.has [] x.cp [] (l1.map Info.view) z.view (l2.map Info.view) hz hna

/-- non-vacuity: U+20DD COMBINING ENCLOSING CIRCLE is a mark of class 0 that is the second component of no
    row of the crate's composition table, so the hypotheses hold for every font -/
example : let z : Info := { cp := 0x20DD, mask := 0, cluster := 1, gidx := 0, props := { cls := 1, hi := 0 } }
    z.isMark = true ∧ z.mcc = 0 ∧ (Norm.compTable.all fun r => r.1 % 2 ^ 32 != 0x20DD) = true := by
  intro z
  exact ⟨by decide, by decide, by decide +kernel⟩

/-- **The same from every state of the loop, for a blocked class-0 record**: when something is kept after
    the starter (`mid ≠ []`, e.g. a mark the font has no composite for), a record `z` of class 0 is never
    composed with the starter — even if it is a mark and `comp s z` is defined and mapped — because
    `mcc(prev) < mcc(z) = 0` is false; it becomes the starter, and the out-buffer `pre ++ s :: mid` is
    final. -/
theorem C09_recompose_ccc0_becomes_starter (U : UData) (F : Font) (K : Consts) (pre : List Info) (s : Info)
    (mid : List Info) (z : Info) (rest : List Info) (flags f2 : Nat) (hz : z.mcc = 0) (hmid : mid ≠ []) :
    (round3Go U F K (z :: rest) pre s mid flags).1.map (·.cp) =
      (pre ++ s :: mid).map (·.cp) ++ (round3 U F K (z :: rest) f2).1.map (·.cp) := by
  rw [round3Go_full, round3_full, List.map_cons]
  rw [recomposeFull_split_after_kept U.comp F.has _ s.cp (mid.map cm) z.view (rest.map Info.view) hz
    (by simpa using hmid)]
  have hzc : z.view.cp = z.cp := rfl
  simp [cm, List.map_map, Function.comp_def, hzc]

/-- the seed class, computed on the crate's tables with a font that maps everything: `a U+20DD U+0301` stays
    as it is (U+00E1 is not formed across the enclosing circle), while `a U+0301 U+20DD` composes -/
example :
    let mk (cp ccc : Nat) : Info := { cp := cp, mask := 0, cluster := 0, gidx := 0, props := { cls := 1, hi := ccc } }
    let a : Info := { cp := 0x61, mask := 0, cluster := 0, gidx := 0, props := {} }
    let F : Font := { glyph := fun c => some c }
    (round3 genU F genK [a, mk 0x20DD 0, mk 0x301 230] 0).1.map (·.cp) = [0x61, 0x20DD, 0x301] ∧
    (round3 genU F genK [a, mk 0x301 230, mk 0x20DD 0] 0).1.map (·.cp) = [0xE1, 0x20DD] := by
  decide +kernel

/-! ## one cluster, all three rounds -/

/-- **A buffer that is one cluster `base + marks`** (no variation selector): every record is decomposed
    by `decompose_current_character` (fully, unless the mode is NONE; `C09_single` / `decompose_*` say what
    that outputs per character), the result is reordered (`C09_sort_canonical`), CGJs are unhidden, and in
    the composing modes the third round runs (`C09_recompose`).  This is the composition of the rounds the
    other theorems describe one by one; in particular a supported precomposed base is *not* kept as is
    when marks follow, it is decomposed and recomposed as far as the font allows. -/
theorem C09_cluster (U : UData) (F : Font) (K : Consts) (fuel pref : Nat)
    (s m : Info) (ms : List Info) (flags : Nat)
    (hm : ∀ x ∈ m :: ms, x.isMark = true) (hvs : ∀ x ∈ s :: m :: ms, U.isVS x.cp = false) :
    normalize U F K fuel pref (s :: m :: ms) flags =
      match decomposeRun U F K fuel (pref == 0) (s :: m :: ms) flags with
      | none => none
      | some (o, f) =>
        if pref = 2 ∨ pref = 3 ∨ pref = 4 then
          some (round3 U F K (if f &&& K.flagCGJ ≠ 0 then cgjRound (round2 K [] o) else round2 K [] o) f)
        else some (if f &&& K.flagCGJ ≠ 0 then cgjRound (round2 K [] o) else round2 K [] o, f) :=
  normalize_cluster U F K fuel pref s m ms flags hm hvs

example : let m : Info := { cp := 0x301, mask := 0, cluster := 1, gidx := 0, props := { cls := 1, hi := 230 } }
    let s : Info := { cp := 0x41, mask := 0, cluster := 0, gidx := 0, props := {} }
    (∀ x ∈ [m], x.isMark = true) ∧ (∀ x ∈ [s, m], genU.isVS x.cp = false) := by
  intro m s
  constructor
  · intro x hx; simp only [List.mem_singleton] at hx; subst hx; decide
  · intro x hx
    simp only [List.mem_cons, List.not_mem_nil, or_false] at hx
    rcases hx with hx | hx <;> subst hx <;> decide +kernel

/-! ## clusters are normalized independently of what follows them -/

/-- **A cluster without a variation selector is decomposed regardless of what follows it in the buffer.**
    From every state of the first round (`out` already output, any flags): if the input starts with a cluster
    `s + marks` (at least one mark) that contains no variation selector, then — whatever `tl` holds after it
    (`tl` is empty or starts with a non-mark; it may contain variation selectors anywhere) — every record of the
    cluster goes through `decompose_current_character`, the results are appended to the out-buffer and the round
    continues with `tl` untouched.  `decompose_multi_char_cluster` gives up on normalization
    (`handle_variation_selector_cluster`) only for a selector inside the cluster itself. -/
theorem C09_cluster_regardless_of_rest (U : UData) (F : Font) (K : Consts) (fuel : Nat) (might always : Bool)
    (out : List Info) (s m : Info) (ms tl : List Info) (flags : Nat) (as : Bool)
    (hm : ∀ x ∈ m :: ms, x.isMark = true) (htl : ∀ z ∈ tl.head?, z.isMark = false)
    (hvs : ∀ x ∈ s :: m :: ms, U.isVS x.cp = false) :
    round1 U F K fuel might always out (s :: m :: (ms ++ tl)) flags as =
      match decomposeRun U F K fuel always (s :: m :: ms) flags with
      | none => none
      | some (o, f) => round1 U F K fuel might always (out ++ o) tl f false :=
  round1_cluster_then U F K fuel might always out s m ms tl flags as hm htl hvs

/-- non-vacuity: `a U+0308` followed by the unrelated cluster `x U+FE00` (a variation selector later in the buffer) -/
example : let m : Info := { cp := 0x308, mask := 0, cluster := 1, gidx := 0, props := { cls := 1, hi := 230 } }
    let s : Info := { cp := 0x61, mask := 0, cluster := 0, gidx := 0, props := {} }
    let x : Info := { cp := 0x78, mask := 0, cluster := 2, gidx := 0, props := {} }
    let v : Info := { cp := 0xFE00, mask := 0, cluster := 3, gidx := 0, props := { cls := 1, ign := true, cont := true } }
    (∀ y ∈ [m], y.isMark = true) ∧ (∀ z ∈ [x, v].head?, z.isMark = false) ∧
      (∀ y ∈ [s, m], genU.isVS y.cp = false) ∧ genU.isVS v.cp = true := by
  intro m s x v
  refine ⟨?_, ?_, ?_, by decide +kernel⟩
  · intro y hy; simp only [List.mem_singleton] at hy; subst hy; decide
  · intro z hz; simp only [List.head?_cons, Option.mem_def, Option.some.injEq] at hz; subst hz; decide
  · intro y hy
    simp only [List.mem_cons, List.not_mem_nil, or_false] at hy
    rcases hy with hy | hy <;> subst hy <;> decide +kernel

/-! ## C08, normalizer part: the first two rounds keep canonical equivalence -/

/-- Whatever `decompose` outputs for `c` (either mode), decomposed to the end, is the full canonical
    decomposition of `c` (`FullDecomp`: the chain of first components with the second components
    appended): the output is `a :: bs` with `full(c) = full(a) ++ bs`.  Together with (3) of
    `C09_sort_canonical` (the reorder round permutes inside runs of non-starters) this is the committed
    part of C08's `norm_equiv`; the recomposition round is characterised by `C09_recompose` but its
    canonical equivalence (which needs `C09_tables_consistent` for the data) is not proved here. -/
theorem C09_decompose_equiv (U : UData) (F : Font) (shortest : Bool) (fuel c : Nat) (r : List (Nat × Nat))
    (h : decompose U F shortest fuel c = some r) (hr : r ≠ []) (l : List Nat) (hl : FullDecomp U c l) :
    ∃ a bs la, r.map (·.1) = a :: bs ∧ FullDecomp U a la ∧ l = la ++ bs := by
  cases shortest with
  | true =>
    obtain ⟨k, hk, _, _⟩ := (decompose_shortest U F fuel c r h).1 hr
    exact hk.full hl
  | false =>
    obtain ⟨k, hk, _, _⟩ := (decompose_full U F fuel c r h).1 hr
    exact hk.full hl

example : ∃ r, decompose genU { glyph := fun c => if c = 0x41 ∨ c = 0x300 then some 1 else none } true genFuel 0xC0 = some r ∧
    r ≠ [] := ⟨[(0x41, 1), (0x300, 1)], by decide +kernel, by simp⟩

/-- **The round with the shaper's `reorder_marks` slot** (`NormMarks.round2With`, the model the stream
    `norm-run-shaper` compares with the crate under the Arabic shaper record) is, for a shaper without a callback, the
    round `Norm.round2` the theorems above are about. -/
theorem C09_round2_callback_slot (K : Norm.Consts) (pre l : List Norm.Info) :
    Norm.round2With K none pre l = .ok (Norm.round2 K pre l) :=
  Norm.round2With_none K pre l

end RbModel.Props.C09
