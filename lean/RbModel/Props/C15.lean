/-
  C15 — cluster values are opaque labels.

  `Buf.mapCluster f b` relabels every cluster value stored in a buffer (both Vecs, slack included) by `f`.
  For every strictly increasing `f` (`SMono f`) each primitive of buffer.rs and each cluster step of the pipeline
  commutes with the relabelling:   p (b.mapCluster f) = Buf.mapCluster f <$> p b
  — same panics, same scalar results, same glyphs, masks and flags; clusters relabelled.  This holds for all buffers
  (no invariant is needed: the two runs take the same branches because clusters are only compared with ==, < and min
  and copied).  Two places are not pure comparisons and carry an explicit hypothesis:
  * the flag routines start a running minimum from the sentinel `u32::MAX`: `Bounded f b` says that the cluster values
    of the buffer and their images are 32-bit (the Rust type guarantees the first half);
  * `Vec::resize` pads with zero records, which are not relabelled: for the primitives that may grow a Vec the exact
    statement needs `f 0 = 0` or enough room already (`Cap`); these theorems are named `…_partial`.  The full statement —
    commutation up to the contents of dead slots — is what the `prims-relabel` search stream checks on the crate.
  The theorems are about the operational model (Buf.lean, Cluster.lean), tied to the crate by the
  `cluster-prims-relabelled` correspondence stream.
-/
import RbModel.Lemmas.ClusterRelabel

namespace RbModel.Buf

/-- **Merging, deleting.**  `merge_clusters`, `merge_out_clusters`, `delete_glyph` (all levels; at level 2
    `merge_clusters` is `unsafe_to_break`, hence the boundedness clause). -/
theorem C15_relabel_merge (f : Nat → Nat) (hf : SMono f) (b : Buf) (hb : b.level = 2 → Bounded f b) (s e : Nat) :
    (b.mapCluster f).mergeClusters s e = Buf.mapCluster f <$> b.mergeClusters s e ∧
    (b.mapCluster f).mergeOutClusters s e = Buf.mapCluster f <$> b.mergeOutClusters s e ∧
    (b.mapCluster f).deleteGlyph = Buf.mapCluster f <$> b.deleteGlyph :=
  ⟨mergeClusters_map hf b hb s e, mergeOutClusters_map hf b s e, deleteGlyph_map hf b hb⟩

/-- **Glyph flags.**  `unsafe_to_break`, `unsafe_to_break_from_outbuffer`, `unsafe_to_concat`,
    `unsafe_to_concat_from_outbuffer`, `safe_to_insert_tatweel` (all levels, all ranges, `end = None` included). -/
theorem C15_relabel_flags (f : Nat → Nat) (hf : SMono f) (b : Buf) (hb : Bounded f b) (s : Nat) (e : Option Nat) :
    (b.mapCluster f).unsafeToBreak s e = Buf.mapCluster f <$> b.unsafeToBreak s e ∧
    (b.mapCluster f).unsafeToBreakFromOut s e = Buf.mapCluster f <$> b.unsafeToBreakFromOut s e ∧
    (b.mapCluster f).unsafeToConcat s e = Buf.mapCluster f <$> b.unsafeToConcat s e ∧
    (b.mapCluster f).unsafeToConcatFromOut s e = Buf.mapCluster f <$> b.unsafeToConcatFromOut s e ∧
    (b.mapCluster f).safeToInsertTatweel s e = Buf.mapCluster f <$> b.safeToInsertTatweel s e :=
  ⟨unsafeToBreak_map hf b hb s e, unsafeToBreakFromOut_map hf b hb s e, unsafeToConcat_map hf b hb s e,
   unsafeToConcatFromOut_map hf b hb s e, safeToInsertTatweel_map hf b hb s e⟩

/-- **Masks.**  `set_masks(value, mask, cs, ce)` on the relabelled buffer with the bounds relabelled by the same map
    does what it did before — for a ranged feature (`(cs, ce) ≠ (0, u32::MAX)`, also after relabelling; a global
    feature is passed through unchanged, second conjunct) — and `reset_masks` does not look at clusters at all. -/
theorem C15_relabel_set_masks (f : Nat → Nat) (hf : SMono f) (b : Buf) (v m cs ce : Nat) :
    (¬ (cs = 0 ∧ ce = U32MAX) → ¬ (f cs = 0 ∧ f ce = U32MAX) →
      (b.mapCluster f).setMasks v m (f cs) (f ce) = Buf.mapCluster f <$> b.setMasks v m cs ce) ∧
    (b.mapCluster f).setMasks v m 0 U32MAX = Buf.mapCluster f <$> b.setMasks v m 0 U32MAX ∧
    (b.mapCluster f).resetMasks m = Buf.mapCluster f <$> b.resetMasks m := by
  refine ⟨fun h1 h2 => setMasks_map f b v m cs ce _ _ (fun x _ => maskSel_map hf cs ce x.cluster h1 h2), ?_,
    resetMasks_map f b m⟩
  exact setMasks_map f b v m 0 U32MAX 0 U32MAX (fun x _ => by simp [maskSel])

/-- **In-place rearrangements.**  `reverse`, `reverse_range`, `reverse_groups` (cluster groups, with and without
    merging), `sort`; `delete_glyphs_inplace` at the levels 0/1.  (`BoundedIf2`: boundedness is needed only at level 2,
    where the merges inside are flag updates.) -/
theorem C15_relabel_inplace (f : Nat → Nat) (hf : SMono f) (b : Buf) (hb : BoundedIf2 f b) (s e : Nat) (merge : Bool) :
    (b.mapCluster f).reverse = Buf.mapCluster f <$> b.reverse ∧
    (b.mapCluster f).reverseRange s e = Buf.mapCluster f <$> b.reverseRange s e ∧
    (b.mapCluster f).reverseGroups merge = Buf.mapCluster f <$> b.reverseGroups merge ∧
    (b.mapCluster f).sort s e = Buf.mapCluster f <$> b.sort s e ∧
    (b.level ≠ 2 → (b.mapCluster f).deleteGlyphsInplace = Buf.mapCluster f <$> b.deleteGlyphsInplace) :=
  ⟨reverse_map f b, reverseRange_map f b s e, reverseGroups_map hf b hb merge, sort_map hf b hb s e,
   fun hl => deleteGlyphsInplace_map hf b hl⟩

/-- **Cluster steps of the pipeline.**  `form_clusters` (boundedness where it flags instead of merging),
    `reverse_graphemes`, `ensure_native_direction` (same direction afterwards), the final reverse. -/
theorem C15_relabel_pipeline (f : Nat → Nat) (hf : SMono f) (b : Buf) (hb : Bounded f b) (dir hor0 : Nat) :
    (b.mapCluster f).formClusters = Buf.mapCluster f <$> b.formClusters ∧
    (b.mapCluster f).reverseGraphemes = Buf.mapCluster f <$> b.reverseGraphemes ∧
    (b.mapCluster f).ensureNativeDirection dir hor0 =
      (fun r : Buf × Nat => (Buf.mapCluster f r.1, r.2)) <$> b.ensureNativeDirection dir hor0 ∧
    (b.mapCluster f).finalReverse dir = Buf.mapCluster f <$> b.finalReverse dir :=
  ⟨formClusters_map hf b (fun _ => hb), reverseGraphemes_map hf b (fun _ => hb),
   ensureNativeDirection_map hf b (fun _ => hb) dir hor0, finalReverse_map f b dir⟩

/-- **Cursor moves and life cycle that never touch a Vec's length.** -/
theorem C15_relabel_cursor (f : Nat → Nat) (b : Buf) :
    (b.mapCluster f).skipGlyph = Buf.mapCluster f b.skipGlyph ∧
    (b.mapCluster f).clearOutput = Buf.mapCluster f b.clearOutput ∧
    (b.mapCluster f).enter = Buf.mapCluster f b.enter ∧ (b.mapCluster f).leave = Buf.mapCluster f b.leave ∧
    (b.mapCluster f).clear = Buf.mapCluster f b.clear :=
  ⟨skipGlyph_map f b, clearOutput_map f b, enter_map f b, leave_map f b, clear_map f b⟩

/-  Full statement for the streaming primitives (FALSE as an equation of representations: `Vec::resize` pads with
    zero records, e.g. `ensure` on the relabelled buffer pads with cluster 0, not `f 0`; see `C15_padding_example`):
      ∀ f, SMono f → p (b.mapCluster f) = Buf.mapCluster f <$> p b
    for p ∈ {next_glyph, next_glyphs n, copy_glyph, replace_glyph g, replace_glyphs n gs, output_glyph g,
    output_info x ↦ output_info (mc f x), move_to i, sync, add}.  Proved below: the same equation when no padding
    can occur (`f 0 = 0`, or the Vecs already have the room the primitive asks for).  What is missing is the weaker
    conclusion "equal up to the contents of dead slots" without that hypothesis. -/

/-- streaming primitives, part 1 (one output slot needed) -/
theorem C15_relabel_stream_partial (f : Nat → Nat) (b : Buf) (g : Nat) (x : Info)
    (hz : f 0 = 0 ∨ Cap b (b.outLen + 1)) :
    (b.mapCluster f).nextGlyph = Buf.mapCluster f <$> b.nextGlyph ∧
    (b.mapCluster f).copyGlyph = Buf.mapCluster f <$> b.copyGlyph ∧
    (b.mapCluster f).replaceGlyph g = Buf.mapCluster f <$> b.replaceGlyph g ∧
    (b.mapCluster f).outputGlyph g = Buf.mapCluster f <$> b.outputGlyph g ∧
    (b.mapCluster f).outputInfo (mc f x) = Buf.mapCluster f <$> b.outputInfo x :=
  ⟨nextGlyph_map b hz, copyGlyph_map b hz, replaceGlyph_map b g hz, outputGlyph_map b g hz, outputInfo_map b x hz⟩

/-- streaming primitives, part 2 (`n` output slots: `next_glyphs`, `replace_glyphs` at the levels 0/1, `sync`) -/
theorem C15_relabel_stream_n_partial (f : Nat → Nat) (hf : SMono f) (b : Buf) (n numIn : Nat) (gs : List Nat) :
    ((f 0 = 0 ∨ Cap b (b.outLen + n)) → (b.mapCluster f).nextGlyphs n = Buf.mapCluster f <$> b.nextGlyphs n) ∧
    (b.level ≠ 2 → (f 0 = 0 ∨ Cap b (b.outLen + gs.length)) →
      (b.mapCluster f).replaceGlyphs numIn gs = Buf.mapCluster f <$> b.replaceGlyphs numIn gs) ∧
    ((f 0 = 0 ∨ Cap b (b.outLen + (b.len - b.idx))) →
      (b.mapCluster f).sync = (fun r : Buf × Bool => (Buf.mapCluster f r.1, r.2)) <$> b.sync) :=
  ⟨fun hz => nextGlyphs_map b n hz, fun hl hz => replaceGlyphs_map hf b numIn gs hl hz, fun hz => sync_map b hz⟩

/-- `move_to(i)` (no shift of the unconsumed input needed, or `f 0 = 0`) and `add(codepoint, cluster)` -/
theorem C15_relabel_move_add_partial (f : Nat → Nat) (b : Buf) (i cp cluster : Nat) :
    ((f 0 = 0 ∨ (Cap b i ∧ Cap b b.len ∧ b.outLen - i ≤ b.idx)) →
      (b.mapCluster f).moveTo i = (fun r : Buf × Bool => (Buf.mapCluster f r.1, r.2)) <$> b.moveTo i) ∧
    ((f 0 = 0 ∨ Cap b (b.len + 1)) → (b.mapCluster f).add cp (f cluster) = Buf.mapCluster f <$> b.add cp cluster) :=
  ⟨fun hz => moveTo_map b i hz, fun hz => add_map b cp cluster hz⟩

/-  C15_noninterference — full statement: with `b ≈ b'` meaning "equal up to cluster values, glyph-flag bits and the
    cluster level", every primitive and pipeline step maps ≈-related buffers to ≈-related buffers (so gids and
    positions never depend on cluster numbering or level).  Proved below is the part that carries the argument in the
    model: (1) the only routines that consult the level or compare clusters — the two merges, the five flag routines,
    form_clusters — never move a glyph or change a glyph identity, whatever the level and the cluster values;
    (2) the streaming primitives do not look at cluster values at all: they commute with *every* map of cluster
    values (`C15_relabel_stream_partial` has no monotonicity hypothesis), in particular with the map that erases all
    clusters.  Not proved: the lifting of (1)+(2) to a ≈-simulation for sort / delete_glyphs_inplace /
    replace_glyphs (their glyph movement is decided by `var1` / `var2` / positions only, by inspection of Buf.lean),
    and everything outside the buffer (the shapers and lookup interpreters read clusters only through these
    primitives: site inventory + the `shape-levels` search stream). -/

/-- (1) the level- and cluster-dependent routines leave the glyph sequence (`glyphs` = gid, var1, var2 of every
    glyph of the logical sequence, in order) untouched — at every cluster level -/
theorem C15_noninterference_partial (b : Buf) (s e : Nat) :
    (WF b → b.idx ≤ s → e ≤ b.len → ∃ b', b.mergeClusters s e = .ok b' ∧ glyphs b' = glyphs b) ∧
    (WF b → e ≤ b.outLen → ∃ b', b.mergeOutClusters s e = .ok b' ∧ glyphs b' = glyphs b) ∧
    (InPlace b → ∃ b', b.formClusters = .ok b' ∧ glyphs b' = glyphs b) ∧
    (∀ (s : Nat) (e : Option Nat) (b' : Buf),
      (b.unsafeToBreak s e = .ok b' ∨ b.unsafeToBreakFromOut s e = .ok b' ∨ b.unsafeToConcat s e = .ok b' ∨
       b.unsafeToConcatFromOut s e = .ok b' ∨ b.safeToInsertTatweel s e = .ok b') → glyphs b' = glyphs b) := by
  refine ⟨fun hwf hs he => mergeClusters_glyphs b s e hwf hs he (by decide),
    fun hwf he => mergeOutClusters_glyphs b s e hwf he,
    fun hin => formClusters_glyphs b hin (by decide), ?_⟩
  intro s e b' h
  rcases h with h | h | h | h | h
  · exact (unsafeToBreak_flagsOnly h).glyphs_eq
  · exact (unsafeToBreakFromOut_flagsOnly h).glyphs_eq
  · exact (unsafeToConcat_flagsOnly h).glyphs_eq
  · exact (unsafeToConcatFromOut_flagsOnly h).glyphs_eq
  · exact (safeToInsertTatweel_flagsOnly h).glyphs_eq

/-- (2) the streaming primitives ignore cluster values: erasing every cluster first or afterwards is the same -/
theorem C15_noninterference_stream (b : Buf) (g : Nat) (x : Info) (n : Nat) :
    (b.mapCluster (fun _ => 0)).nextGlyph = Buf.mapCluster (fun _ => 0) <$> b.nextGlyph ∧
    (b.mapCluster (fun _ => 0)).nextGlyphs n = Buf.mapCluster (fun _ => 0) <$> b.nextGlyphs n ∧
    (b.mapCluster (fun _ => 0)).copyGlyph = Buf.mapCluster (fun _ => 0) <$> b.copyGlyph ∧
    (b.mapCluster (fun _ => 0)).replaceGlyph g = Buf.mapCluster (fun _ => 0) <$> b.replaceGlyph g ∧
    (b.mapCluster (fun _ => 0)).outputGlyph g = Buf.mapCluster (fun _ => 0) <$> b.outputGlyph g ∧
    (b.mapCluster (fun _ => 0)).outputInfo (mc (fun _ => 0) x) = Buf.mapCluster (fun _ => 0) <$> b.outputInfo x ∧
    (b.mapCluster (fun _ => 0)).moveTo n = (fun r : Buf × Bool => (Buf.mapCluster (fun _ => 0) r.1, r.2)) <$> b.moveTo n ∧
    (b.mapCluster (fun _ => 0)).sync = (fun r : Buf × Bool => (Buf.mapCluster (fun _ => 0) r.1, r.2)) <$> b.sync :=
  ⟨nextGlyph_map b (Or.inl rfl), nextGlyphs_map b n (Or.inl rfl), copyGlyph_map b (Or.inl rfl),
   replaceGlyph_map b g (Or.inl rfl), outputGlyph_map b g (Or.inl rfl), outputInfo_map b x (Or.inl rfl),
   moveTo_map b n (Or.inl rfl), sync_map b (Or.inl rfl)⟩

/-! ## non-vacuity and the padding example -/

example : SMono (fun c => 3 * c + 7) := fun a b h => by show 3 * a + 7 < 3 * b + 7; omega
example : SMono (fun c => c + 1048576) := fun a b h => by show a + 1048576 < b + 1048576; omega

def exRelabel : Buf :=
  { info := [⟨1,0,5,0,0⟩, ⟨2,0,5,0,0⟩, ⟨3,0,2,0,0⟩], out := [{}, {}, {}], len := 3, level := 1 }

example : Bounded (fun c => 3 * c + 7) exRelabel := by
  constructor
  · intro x hx
    simp only [exRelabel, List.mem_cons, List.not_mem_nil, or_false] at hx
    rcases hx with h | h | h <;> subst h <;> decide
  · intro x hx
    simp only [exRelabel, List.mem_cons, List.not_mem_nil, or_false] at hx
    rcases hx with h | h | h <;> subst h <;> decide
example : Cap exRelabel (exRelabel.outLen + 1) := ⟨by decide, by decide⟩
example : ((exRelabel.mapCluster (fun c => 3 * c + 7)).mergeClusters 1 3).toOption.map (fun b => b.info.map (·.cluster))
    = some [13, 13, 13] := by decide

/-- the padding that `Vec::resize` adds is not relabelled: growing the relabelled buffer pads with cluster 0,
    relabelling the grown buffer gives `f 0` there -/
theorem C15_padding_example :
    ((exRelabel.mapCluster (· + 1)).ensure 4).1.info.map (·.cluster) = [6, 6, 3, 0] ∧
    (Buf.mapCluster (· + 1) (exRelabel.ensure 4).1).info.map (·.cluster) = [6, 6, 3, 1] := by decide

example : InPlace exRelabel := ⟨rfl, rfl, by decide⟩
example : WF exRelabel := ⟨by decide, by decide, by decide, by decide⟩

end RbModel.Buf
