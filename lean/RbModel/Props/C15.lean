import RbModel.Cluster
namespace RbModel.Buf
theorem C15_placeholder : mc id ({} : Info) = {} := by decide
end RbModel.Buf
