/-
  C15 — cluster values are opaque labels.

  `Buf.mapCluster f b` relabels every cluster value stored in a buffer (both Vecs, slack included) by `f`.
  For every strictly increasing `f` (`SMono f`) each primitive of buffer.rs and each cluster step of the pipeline
  commutes with the relabelling:   p (b.mapCluster f) = Buf.mapCluster f <$> p b
  — same panics, same scalar results, same glyphs, masks and flags; clusters relabelled.  This holds for all buffers
  (no invariant is needed: the two runs take the same branches because clusters are only compared with ==, < and min
  and copied).  Two places are not pure comparisons and carry an explicit hypothesis:
  * the flag routines start a running minimum from the sentinel `u32::MAX`: `Bounded f b` says that the cluster values
    of the buffer and their images are 32-bit (the Rust type guarantees the first half);
  * `Vec::resize` pads with zero records, which are not relabelled: for the primitives that may grow a Vec the exact
    statement needs `f 0 = 0` or enough room already (`Cap`); these theorems are named `…_partial`.  The full statement —
    commutation up to the contents of dead slots — is what the `prims-relabel` search stream checks on the crate.
  The theorems are about the operational model (Buf.lean, Cluster.lean), tied to the crate by the
  `cluster-prims-relabelled` correspondence stream.
-/
import RbModel.Lemmas.ClusterRelabel
import RbModel.Lemmas.ClusterFeat
import RbModel.Lemmas.Hangul
import RbModel.Props.C17
import RbModel.Lemmas.MorxRelabel
import RbModel.Lemmas.Trak

namespace RbModel.Buf

/-- **Merging, deleting.**  `merge_clusters`, `merge_out_clusters`, `delete_glyph` (all levels; at level 2
    `merge_clusters` is `unsafe_to_break`, hence the boundedness clause). -/
theorem C15_relabel_merge (f : Nat → Nat) (hf : SMono f) (b : Buf) (hb : b.level = 2 → Bounded f b) (s e : Nat) :
    (b.mapCluster f).mergeClusters s e = Buf.mapCluster f <$> b.mergeClusters s e ∧
    (b.mapCluster f).mergeOutClusters s e = Buf.mapCluster f <$> b.mergeOutClusters s e ∧
    (b.mapCluster f).deleteGlyph = Buf.mapCluster f <$> b.deleteGlyph :=
  ⟨mergeClusters_map hf b hb s e, mergeOutClusters_map hf b s e, deleteGlyph_map hf b hb⟩

/-- **Glyph flags.**  `unsafe_to_break`, `unsafe_to_break_from_outbuffer`, `unsafe_to_concat`,
    `unsafe_to_concat_from_outbuffer`, `safe_to_insert_tatweel` (all levels, all ranges, `end = None` included). -/
theorem C15_relabel_flags (f : Nat → Nat) (hf : SMono f) (b : Buf) (hb : Bounded f b) (s : Nat) (e : Option Nat) :
    (b.mapCluster f).unsafeToBreak s e = Buf.mapCluster f <$> b.unsafeToBreak s e ∧
    (b.mapCluster f).unsafeToBreakFromOut s e = Buf.mapCluster f <$> b.unsafeToBreakFromOut s e ∧
    (b.mapCluster f).unsafeToConcat s e = Buf.mapCluster f <$> b.unsafeToConcat s e ∧
    (b.mapCluster f).unsafeToConcatFromOut s e = Buf.mapCluster f <$> b.unsafeToConcatFromOut s e ∧
    (b.mapCluster f).safeToInsertTatweel s e = Buf.mapCluster f <$> b.safeToInsertTatweel s e :=
  ⟨unsafeToBreak_map hf b hb s e, unsafeToBreakFromOut_map hf b hb s e, unsafeToConcat_map hf b hb s e,
   unsafeToConcatFromOut_map hf b hb s e, safeToInsertTatweel_map hf b hb s e⟩

/-- **Masks.**  `set_masks(value, mask, cs, ce)` on the relabelled buffer with the bounds relabelled by the same map
    does what it did before — for a ranged feature (`(cs, ce) ≠ (0, u32::MAX)`, also after relabelling; a global
    feature is passed through unchanged, second conjunct) — and `reset_masks` does not look at clusters at all. -/
theorem C15_relabel_set_masks (f : Nat → Nat) (hf : SMono f) (b : Buf) (v m cs ce : Nat) :
    (¬ (cs = 0 ∧ ce = U32MAX) → ¬ (f cs = 0 ∧ f ce = U32MAX) →
      (b.mapCluster f).setMasks v m (f cs) (f ce) = Buf.mapCluster f <$> b.setMasks v m cs ce) ∧
    (b.mapCluster f).setMasks v m 0 U32MAX = Buf.mapCluster f <$> b.setMasks v m 0 U32MAX ∧
    (b.mapCluster f).resetMasks m = Buf.mapCluster f <$> b.resetMasks m := by
  refine ⟨fun h1 h2 => setMasks_map f b v m cs ce _ _ (fun x _ => maskSel_map hf cs ce x.cluster h1 h2), ?_,
    resetMasks_map f b m⟩
  exact setMasks_map f b v m 0 U32MAX 0 U32MAX (fun x _ => by simp [maskSel])

/-- **In-place rearrangements.**  `reverse`, `reverse_range`, `reverse_groups` (cluster groups, with and without
    merging), `sort`; `delete_glyphs_inplace` at the levels 0/1.  (`BoundedIf2`: boundedness is needed only at level 2,
    where the merges inside are flag updates.) -/
theorem C15_relabel_inplace (f : Nat → Nat) (hf : SMono f) (b : Buf) (hb : BoundedIf2 f b) (s e : Nat) (merge : Bool) :
    (b.mapCluster f).reverse = Buf.mapCluster f <$> b.reverse ∧
    (b.mapCluster f).reverseRange s e = Buf.mapCluster f <$> b.reverseRange s e ∧
    (b.mapCluster f).reverseGroups merge = Buf.mapCluster f <$> b.reverseGroups merge ∧
    (b.mapCluster f).sort s e = Buf.mapCluster f <$> b.sort s e ∧
    (b.level ≠ 2 → (b.mapCluster f).deleteGlyphsInplace = Buf.mapCluster f <$> b.deleteGlyphsInplace) :=
  ⟨reverse_map f b, reverseRange_map f b s e, reverseGroups_map hf b hb merge, sort_map hf b hb s e,
   fun hl => deleteGlyphsInplace_map hf b hl⟩

/-- **Cluster steps of the pipeline.**  `form_clusters` (boundedness where it flags instead of merging),
    `reverse_graphemes`, `ensure_native_direction` (same direction afterwards), the final reverse. -/
theorem C15_relabel_pipeline (f : Nat → Nat) (hf : SMono f) (b : Buf) (hb : Bounded f b) (dir hor0 : Nat) :
    (b.mapCluster f).formClusters = Buf.mapCluster f <$> b.formClusters ∧
    (b.mapCluster f).reverseGraphemes = Buf.mapCluster f <$> b.reverseGraphemes ∧
    (b.mapCluster f).ensureNativeDirection dir hor0 =
      (fun r : Buf × Nat => (Buf.mapCluster f r.1, r.2)) <$> b.ensureNativeDirection dir hor0 ∧
    (b.mapCluster f).finalReverse dir = Buf.mapCluster f <$> b.finalReverse dir :=
  ⟨formClusters_map hf b (fun _ => hb), reverseGraphemes_map hf b (fun _ => hb),
   ensureNativeDirection_map hf b (fun _ => hb) dir hor0, finalReverse_map f b dir⟩

/-- **Cursor moves and life cycle that never touch a Vec's length.** -/
theorem C15_relabel_cursor (f : Nat → Nat) (b : Buf) :
    (b.mapCluster f).skipGlyph = Buf.mapCluster f b.skipGlyph ∧
    (b.mapCluster f).clearOutput = Buf.mapCluster f b.clearOutput ∧
    (b.mapCluster f).enter = Buf.mapCluster f b.enter ∧ (b.mapCluster f).leave = Buf.mapCluster f b.leave ∧
    (b.mapCluster f).clear = Buf.mapCluster f b.clear :=
  ⟨skipGlyph_map f b, clearOutput_map f b, enter_map f b, leave_map f b, clear_map f b⟩

/-  Full statement for the streaming primitives (FALSE as an equation of representations: `Vec::resize` pads with
    zero records, e.g. `ensure` on the relabelled buffer pads with cluster 0, not `f 0`; see `C15_padding_example`):
      ∀ f, SMono f → p (b.mapCluster f) = Buf.mapCluster f <$> p b
    for p ∈ {next_glyph, next_glyphs n, copy_glyph, replace_glyph g, replace_glyphs n gs, output_glyph g,
    output_info x ↦ output_info (mc f x), move_to i, sync, add}.  Proved below: the same equation when no padding
    can occur (`f 0 = 0`, or the Vecs already have the room the primitive asks for).  What is missing is the weaker
    conclusion "equal up to the contents of dead slots" without that hypothesis. -/

/-- streaming primitives, part 1 (one output slot needed) -/
theorem C15_relabel_stream_partial (f : Nat → Nat) (b : Buf) (g : Nat) (x : Info)
    (hz : f 0 = 0 ∨ Cap b (b.outLen + 1)) :
    (b.mapCluster f).nextGlyph = Buf.mapCluster f <$> b.nextGlyph ∧
    (b.mapCluster f).copyGlyph = Buf.mapCluster f <$> b.copyGlyph ∧
    (b.mapCluster f).replaceGlyph g = Buf.mapCluster f <$> b.replaceGlyph g ∧
    (b.mapCluster f).outputGlyph g = Buf.mapCluster f <$> b.outputGlyph g ∧
    (b.mapCluster f).outputInfo (mc f x) = Buf.mapCluster f <$> b.outputInfo x :=
  ⟨nextGlyph_map b hz, copyGlyph_map b hz, replaceGlyph_map b g hz, outputGlyph_map b g hz, outputInfo_map b x hz⟩

/-- streaming primitives, part 2 (`n` output slots: `next_glyphs`, `replace_glyphs` at the levels 0/1, `sync`) -/
theorem C15_relabel_stream_n_partial (f : Nat → Nat) (hf : SMono f) (b : Buf) (n numIn : Nat) (gs : List Nat) :
    ((f 0 = 0 ∨ Cap b (b.outLen + n)) → (b.mapCluster f).nextGlyphs n = Buf.mapCluster f <$> b.nextGlyphs n) ∧
    (b.level ≠ 2 → (f 0 = 0 ∨ Cap b (b.outLen + gs.length)) →
      (b.mapCluster f).replaceGlyphs numIn gs = Buf.mapCluster f <$> b.replaceGlyphs numIn gs) ∧
    ((f 0 = 0 ∨ Cap b (b.outLen + (b.len - b.idx))) →
      (b.mapCluster f).sync = (fun r : Buf × Bool => (Buf.mapCluster f r.1, r.2)) <$> b.sync) :=
  ⟨fun hz => nextGlyphs_map b n hz, fun hl hz => replaceGlyphs_map hf b numIn gs hl hz, fun hz => sync_map b hz⟩

/-- `move_to(i)` (no shift of the unconsumed input needed, or `f 0 = 0`) and `add(codepoint, cluster)` -/
theorem C15_relabel_move_add_partial (f : Nat → Nat) (b : Buf) (i cp cluster : Nat) :
    ((f 0 = 0 ∨ (Cap b i ∧ Cap b b.len ∧ b.outLen - i ≤ b.idx)) →
      (b.mapCluster f).moveTo i = (fun r : Buf × Bool => (Buf.mapCluster f r.1, r.2)) <$> b.moveTo i) ∧
    ((f 0 = 0 ∨ Cap b (b.len + 1)) → (b.mapCluster f).add cp (f cluster) = Buf.mapCluster f <$> b.add cp cluster) :=
  ⟨fun hz => moveTo_map b i hz, fun hz => add_map b cp cluster hz⟩

/-  C15_noninterference — full statement: with `b ≈ b'` meaning "equal up to cluster values, glyph-flag bits and the
    cluster level", every primitive and pipeline step maps ≈-related buffers to ≈-related buffers (so gids and
    positions never depend on cluster numbering or level).  Proved below is the part that carries the argument in the
    model: (1) the only routines that consult the level or compare clusters — the two merges, the five flag routines,
    form_clusters — never move a glyph or change a glyph identity, whatever the level and the cluster values;
    (2) the streaming primitives do not look at cluster values at all: they commute with *every* map of cluster
    values (`C15_relabel_stream_partial` has no monotonicity hypothesis), in particular with the map that erases all
    clusters.  Not proved: the lifting of (1)+(2) to a ≈-simulation for sort / delete_glyphs_inplace /
    replace_glyphs (their glyph movement is decided by `var1` / `var2` / positions only, by inspection of Buf.lean),
    and everything outside the buffer (the shapers and lookup interpreters read clusters only through these
    primitives: site inventory + the `shape-levels` search stream). -/

/-- (1) the level- and cluster-dependent routines leave the glyph sequence (`glyphs` = gid, var1, var2 of every
    glyph of the logical sequence, in order) untouched — at every cluster level -/
theorem C15_noninterference_partial (b : Buf) (s e : Nat) :
    (WF b → b.idx ≤ s → e ≤ b.len → ∃ b', b.mergeClusters s e = .ok b' ∧ glyphs b' = glyphs b) ∧
    (WF b → e ≤ b.outLen → ∃ b', b.mergeOutClusters s e = .ok b' ∧ glyphs b' = glyphs b) ∧
    (InPlace b → ∃ b', b.formClusters = .ok b' ∧ glyphs b' = glyphs b) ∧
    (∀ (s : Nat) (e : Option Nat) (b' : Buf),
      (b.unsafeToBreak s e = .ok b' ∨ b.unsafeToBreakFromOut s e = .ok b' ∨ b.unsafeToConcat s e = .ok b' ∨
       b.unsafeToConcatFromOut s e = .ok b' ∨ b.safeToInsertTatweel s e = .ok b') → glyphs b' = glyphs b) := by
  refine ⟨fun hwf hs he => mergeClusters_glyphs b s e hwf hs he (by decide),
    fun hwf he => mergeOutClusters_glyphs b s e hwf he,
    fun hin => formClusters_glyphs b hin (by decide), ?_⟩
  intro s e b' h
  rcases h with h | h | h | h | h
  · exact (unsafeToBreak_flagsOnly h).glyphs_eq
  · exact (unsafeToBreakFromOut_flagsOnly h).glyphs_eq
  · exact (unsafeToConcat_flagsOnly h).glyphs_eq
  · exact (unsafeToConcatFromOut_flagsOnly h).glyphs_eq
  · exact (safeToInsertTatweel_flagsOnly h).glyphs_eq

/-- (2) the streaming primitives ignore cluster values: erasing every cluster first or afterwards is the same -/
theorem C15_noninterference_stream (b : Buf) (g : Nat) (x : Info) (n : Nat) :
    (b.mapCluster (fun _ => 0)).nextGlyph = Buf.mapCluster (fun _ => 0) <$> b.nextGlyph ∧
    (b.mapCluster (fun _ => 0)).nextGlyphs n = Buf.mapCluster (fun _ => 0) <$> b.nextGlyphs n ∧
    (b.mapCluster (fun _ => 0)).copyGlyph = Buf.mapCluster (fun _ => 0) <$> b.copyGlyph ∧
    (b.mapCluster (fun _ => 0)).replaceGlyph g = Buf.mapCluster (fun _ => 0) <$> b.replaceGlyph g ∧
    (b.mapCluster (fun _ => 0)).outputGlyph g = Buf.mapCluster (fun _ => 0) <$> b.outputGlyph g ∧
    (b.mapCluster (fun _ => 0)).outputInfo (mc (fun _ => 0) x) = Buf.mapCluster (fun _ => 0) <$> b.outputInfo x ∧
    (b.mapCluster (fun _ => 0)).moveTo n = (fun r : Buf × Bool => (Buf.mapCluster (fun _ => 0) r.1, r.2)) <$> b.moveTo n ∧
    (b.mapCluster (fun _ => 0)).sync = (fun r : Buf × Bool => (Buf.mapCluster (fun _ => 0) r.1, r.2)) <$> b.sync :=
  ⟨nextGlyph_map b (Or.inl rfl), nextGlyphs_map b n (Or.inl rfl), copyGlyph_map b (Or.inl rfl),
   replaceGlyph_map b g (Or.inl rfl), outputGlyph_map b g (Or.inl rfl), outputInfo_map b x (Or.inl rfl),
   moveTo_map b n (Or.inl rfl), sync_map b (Or.inl rfl)⟩

/-! ## feature bits travel with the glyph

  The cluster level decides WHICH glyphs a merge rewrites (which glyphs share a cluster value).  For the level to change
  "clusters and flags only", a merge may write nothing else into the glyphs it touches.  A mask holds the three glyph flags
  (`glyph_flag::DEFINED`) and, above them, the feature bits `set_masks` gave the glyph — they select the lookups that
  act on it.  `featKey x` = (glyph id, mask bits outside DEFINED, var1, var2);  `KeepFeat b b'` (Lemmas/ClusterFeat.lean):
  every scalar field but `scratch_flags` is the same and the two Vecs agree on `featKey` position by position. -/

/-- **`set_cluster` writes a cluster value and glyph flags, whatever mask it is handed** — in particular when
    `delete_glyph` / `delete_glyphs_inplace` hand it the whole mask of the deleted glyph, feature bits included. -/
theorem C15_set_cluster_keeps_feature_bits (x : Info) (cluster mask : Nat) :
    featKey (setCluster x cluster mask) = featKey x ∧ (setCluster x cluster mask).cluster = cluster :=
  ⟨featKey_setCluster x cluster mask, rfl⟩

/-- **No primitive of the cluster / flag bookkeeping changes a mask bit outside `glyph_flag::DEFINED` of any glyph**
    (nor a glyph id), at any cluster level, in any buffer, for all arguments: `merge_clusters`, `merge_out_clusters`,
    the five flag routines and `form_clusters` leave every record of both Vecs in place with its `featKey`;
    `delete_glyph` does the same and then skips the current glyph; after `delete_glyphs_inplace` the unmarked glyphs
    stand in their old order with their `featKey`s.  (Stated for every run that does not panic; no invariant needed.) -/
theorem C15_prims_keep_feature_bits (b b' : Buf) (s e : Nat) (eo : Option Nat) :
    ((b.mergeClusters s e = .ok b' ∨ b.mergeOutClusters s e = .ok b' ∨ b.unsafeToBreak s eo = .ok b' ∨
      b.unsafeToBreakFromOut s eo = .ok b' ∨ b.unsafeToConcat s eo = .ok b' ∨ b.unsafeToConcatFromOut s eo = .ok b' ∨
      b.safeToInsertTatweel s eo = .ok b' ∨ b.formClusters = .ok b') → KeepFeat b b') ∧
    (b.deleteGlyph = .ok b' → ∃ b1, KeepFeat b b1 ∧ b' = b1.skipGlyph) ∧
    (b.deleteGlyphsInplace = .ok b' →
      (b'.info.take b'.len).map featKey = ((b.info.take b.len).filter (fun x => !(x.var2 == 1))).map featKey) := by
  refine ⟨?_, deleteGlyph_keepFeat, deleteGlyphsInplace_feat⟩
  intro h
  rcases h with h | h | h | h | h | h | h | h
  · exact mergeClusters_keepFeat h
  · exact mergeOutClusters_keepFeat h
  · exact unsafeToBreak_keepFeat h
  · exact unsafeToBreakFromOut_keepFeat h
  · exact unsafeToConcat_keepFeat h
  · exact unsafeToConcatFromOut_keepFeat h
  · exact safeToInsertTatweel_keepFeat h
  · exact formClusters_keepFeat h

/-- what `KeepFeat` means for the logical glyph sequence `out[0..out_len) ++ info[idx..len)` a lookup sees: same
    length, same glyph ids, same feature bits, in the same order -/
theorem C15_keepFeat_sequence (b b' : Buf) (h : KeepFeat b b') :
    (lview b').map featKey = (lview b).map featKey ∧ b'.idx = b.idx ∧ b'.len = b.len ∧ b'.outLen = b.outLen ∧
    b'.level = b.level := by
  refine ⟨h.lview, ?_, ?_, ?_, ?_⟩ <;> rw [h.1]

/-- non-vacuity / witness: the backward merge of `delete_glyph` at the three levels.  Out-buffer: a base (cluster 5,
    feature bit 8) and its mark (cluster 5 at the levels 0/1, 6 at level 2; feature bit 8); current glyph: cluster 2,
    feature bit 0x100 and UNSAFE_TO_BREAK.  The flag is carried to the glyphs that take over the cluster — both at the
    levels 0/1, the mark alone at level 2 — and the feature bit 0x100 reaches none of them. -/
def exDelete (level markCluster : Nat) : Buf :=
  { info := [⟨1, 8, 5, 0, 0⟩, ⟨2, 8, markCluster, 0, 0⟩, ⟨3, 0x101, 2, 0, 0⟩, ⟨4, 0, 1, 0, 0⟩], out := [{}, {}, {}, {}],
    idx := 2, len := 4, outLen := 2, haveOutput := true, level := level }

theorem C15_delete_backward_witness :
    ((exDelete 0 5).deleteGlyph.toOption.map fun b => b.info.map fun x => (x.cluster, x.mask)) =
      some [(2, 9), (2, 9), (2, 0x101), (1, 0)] ∧
    ((exDelete 1 5).deleteGlyph.toOption.map fun b => b.info.map fun x => (x.cluster, x.mask)) =
      some [(2, 9), (2, 9), (2, 0x101), (1, 0)] ∧
    ((exDelete 2 6).deleteGlyph.toOption.map fun b => b.info.map fun x => (x.cluster, x.mask)) =
      some [(5, 8), (2, 9), (2, 0x101), (1, 0)] := by decide

/-! ## non-vacuity and the padding example -/

example : SMono (fun c => 3 * c + 7) := fun a b h => by show 3 * a + 7 < 3 * b + 7; omega
example : SMono (fun c => c + 1048576) := fun a b h => by show a + 1048576 < b + 1048576; omega

def exRelabel : Buf :=
  { info := [⟨1,0,5,0,0⟩, ⟨2,0,5,0,0⟩, ⟨3,0,2,0,0⟩], out := [{}, {}, {}], len := 3, level := 1 }

example : Bounded (fun c => 3 * c + 7) exRelabel := by
  constructor
  · intro x hx
    simp only [exRelabel, List.mem_cons, List.not_mem_nil, or_false] at hx
    rcases hx with h | h | h <;> subst h <;> decide
  · intro x hx
    simp only [exRelabel, List.mem_cons, List.not_mem_nil, or_false] at hx
    rcases hx with h | h | h <;> subst h <;> decide
example : Cap exRelabel (exRelabel.outLen + 1) := ⟨by decide, by decide⟩
example : ((exRelabel.mapCluster (fun c => 3 * c + 7)).mergeClusters 1 3).toOption.map (fun b => b.info.map (·.cluster))
    = some [13, 13, 13] := by decide

/-- the padding that `Vec::resize` adds is not relabelled: growing the relabelled buffer pads with cluster 0,
    relabelling the grown buffer gives `f 0` there -/
theorem C15_padding_example :
    ((exRelabel.mapCluster (· + 1)).ensure 4).1.info.map (·.cluster) = [6, 6, 3, 0] ∧
    (Buf.mapCluster (· + 1) (exRelabel.ensure 4).1).info.map (·.cluster) = [6, 6, 3, 1] := by decide

example : InPlace exRelabel := ⟨rfl, rfl, by decide⟩
example : WF exRelabel := ⟨by decide, by decide, by decide, by decide⟩

end RbModel.Buf

/-! ## Shaper-level pieces that compare clusters: Hangul preprocessing, morx feature ranges

  The primitives above are what every shaper goes through; two pieces of shaper code look at clusters or at the
  cluster level themselves and are modelled (Hangul.lean, Morx.lean).  For them the property is stated directly. -/

namespace RbModel.Hangul

/-- **Hangul preprocessing is blind to cluster values and to the cluster level.**  Composition, decomposition, jamo
    tagging, tone-mark reordering and dotted-circle insertion (`preprocess_text_hangul`) produce the same code points with
    the same jamo features in the same order for any two configurations that agree on the font (`has`, `zeroW`) and on
    the dotted-circle flag — whatever their cluster levels — and any two texts that agree on the code points — whatever
    their cluster values (no monotonicity needed).  Both runs terminate without a panic. -/
theorem C15_hangul_levels_and_labels (c c' : Cfg) (text text' : List G)
    (hhas : c'.has = c.has) (hz : c'.zeroW = c.zeroW) (hd : c'.noDotted = c.noDotted)
    (hk : keys text' = keys text) :
    ∃ r r', preprocess c text = some r ∧ preprocess c' text' = some r' ∧ keys r' = keys r := by
  obtain ⟨r, h1, k1⟩ := preprocess_keys c text
  obtain ⟨r', h2, k2⟩ := preprocess_keys c' text'
  refine ⟨r, r', h1, h2, ?_⟩
  have hs : sup c' = sup c := by simp [sup, hhas, hz, hd]
  rw [k1, k2, hs, hk]

/-- non-vacuity: level 0 against level 2, clusters 0,1,2 against 10,20,30 (an `<L,V>` of old jamo and a tone mark). -/
example : ∃ (c c' : Cfg) (text text' : List G), c.level = 0 ∧ c'.level = 2 ∧ c'.has = c.has ∧ c'.zeroW = c.zeroW ∧
    c'.noDotted = c.noDotted ∧ keys text' = keys text ∧ text'.map (·.cl) ≠ text.map (·.cl) :=
  ⟨⟨fun _ => true, fun _ => false, false, 0⟩, ⟨fun _ => true, fun _ => false, false, 2⟩,
   [⟨0x1113, 0, 0⟩, ⟨0x1161, 1, 0⟩, ⟨0x302E, 2, 0⟩], [⟨0x1113, 10, 0⟩, ⟨0x1161, 20, 0⟩, ⟨0x302E, 30, 0⟩],
   rfl, rfl, rfl, rfl, rfl, by decide, by decide⟩

end RbModel.Hangul

namespace RbModel.Morx

-- `relabG f g` / `relabel f b` (Lemmas/MorxRelabel.lean): the cluster of one record / of every record of the buffer (dead
-- slots included) mapped by `f`.

/-- **The compiled feature ranges see only the order of cluster values.**  `rf` are the ranges compiled for a chain from
    the user features, `rf'` those compiled from the relabelled features: same flags, and a cluster lies left of /
    inside / right of range `k` iff its image does for range `k` of `rf'` (for `[s, e)` ↦ `[f s, f e)` this is strict
    monotonicity of `f`; note that `cluster_last = e - 1` is NOT mapped to `f (e - 1)` but to `f e - 1`).  Then "the
    range of this cluster switches the subtable on" has the same answer for `c` and for `f c`. -/
theorem C15_enabledAt_relabel (f : Nat → Nat) (rf rf' : Array Range) (sf hi hi' c : Nat)
    (ht : Tiles rf hi) (ht' : Tiles rf' hi') (hc : c ≤ hi) (hsz : rf'.size = rf.size)
    (hrel : ∀ (k : Nat) (r r' : Range), rf[k]? = some r → rf'[k]? = some r' →
      r'.flags = r.flags ∧ (r.first ≤ c ↔ r'.first ≤ f c) ∧ (c ≤ r.last ↔ f c ≤ r'.last)) :
    enabledAt rf' sf (f c) = enabledAt rf sf c := by
  obtain ⟨k, _, hk, hin⟩ := findRange_spec ht c hc 0 ht.nonempty
  have h1 : rf[k]? = some rf[k] := by simp [hk]
  have hk' : k < rf'.size := by omega
  have h2 : rf'[k]? = some rf'[k] := by simp [hk']
  obtain ⟨hfl, hfi, hla⟩ := hrel k rf[k] rf'[k] h1 h2
  have hc1 := hin rf[k] h1
  rw [enabledAt_eq ht sf c k rf[k] h1 hc1, enabledAt_eq ht' sf (f c) k rf'[k] h2 ⟨hfi.mp hc1.1, hla.mp hc1.2⟩, hfl]

/-- non-vacuity: the ranges of a feature on `[2, 5)` and of the same feature on `[4, 10)` under `c ↦ 2 c`. -/
example : ∀ c, c ≤ 1000 → ∀ (k : Nat) (r r' : Range),
    (#[⟨0, 0, 1⟩, ⟨2, 2, 4⟩, ⟨0, 5, 0xFFFFFFFF⟩] : Array Range)[k]? = some r →
    (#[⟨0, 0, 3⟩, ⟨2, 4, 9⟩, ⟨0, 10, 0xFFFFFFFF⟩] : Array Range)[k]? = some r' →
    r'.flags = r.flags ∧ (r.first ≤ c ↔ r'.first ≤ 2 * c) ∧ (c ≤ r.last ↔ 2 * c ≤ r'.last) := by
  intro c hc k r r' h h'
  match k, h, h' with
  | 0, h, h' => simp at h h'; subst h; subst h'; simp; omega
  | 1, h, h' => simp at h h'; subst h; subst h'; simp; omega
  | 2, h, h' => simp at h h'; subst h; subst h'; simp; omega
  | k + 3, h, h' => simp at h

/-- **C15 for the non-contextual subtable with ranged features.**  With more than one compiled range the subtable looks
    every glyph's range up by its cluster (the block seed-tested as "Keep in sync" with `drive`).  If the two range
    vectors answer alike on the clusters of the buffer and their images (`C15_enabledAt_relabel`), the run on the
    relabelled buffer is the relabelled run: same glyph ids, clusters mapped by `f`, nothing else changed, no panic. -/
theorem C15_relabel_noncontextual (f : Nat → Nat) (lk : Lookup) (rf rf' : Array Range) (sf hi hi' : Nat) (b : Buf)
    (hb : b.len ≤ b.info.size) (ht : Tiles rf hi) (ht' : Tiles rf' hi') (h1 : 1 < rf.size) (h1' : 1 < rf'.size)
    (hcl : ∀ (i : Nat) (g : G), i < b.len → b.info[i]? = some g →
      g.cl ≤ hi ∧ f g.cl ≤ hi' ∧ enabledAt rf' sf (f g.cl) = enabledAt rf sf g.cl) :
    ∃ info', nonContextual lk rf sf b = .ok { b with info := info' } ∧
      nonContextual lk rf' sf (relabel f b) = .ok (relabel f { b with info := info' }) := by
  obtain ⟨info1, e1, s1, k1⟩ := C17_noncontextual lk rf sf hi b hb
    (Or.inr ⟨ht, fun i g hi hg => (hcl i g hi hg).1⟩)
  have hb' : (relabel f b).len ≤ (relabel f b).info.size := by simpa [relabel] using hb
  have hcl' : ∀ (i : Nat) (g : G), i < (relabel f b).len → (relabel f b).info[i]? = some g → g.cl ≤ hi' := by
    intro i g hi hg
    simp only [relabel, Array.getElem?_map, Option.map_eq_some_iff] at hg
    obtain ⟨g0, hg0, rfl⟩ := hg
    exact (hcl i g0 hi hg0).2.1
  obtain ⟨info2, e2, s2, k2⟩ := C17_noncontextual lk rf' sf hi' (relabel f b) hb' (Or.inr ⟨ht', hcl'⟩)
  refine ⟨info1, e1, ?_⟩
  rw [e2]
  have : info2 = info1.map (relabG f) := by
    apply Array.ext_getElem?
    intro i
    rw [k2, Array.getElem?_map, k1]
    have hn : ¬ rf.size ≤ 1 := by omega
    have hn' : ¬ rf'.size ≤ 1 := by omega
    simp only [relabel, Array.getElem?_map, hn, hn', decide_false, Bool.false_or]
    by_cases hi : i < b.len
    · simp only [hi, if_true]
      cases hg : b.info[i]? with
      | none => simp
      | some g =>
        simp only [Option.map_some]
        rw [show (relabG f g).cl = f g.cl from rfl, (hcl i g hi hg).2.2, ncMap_relabG]
    · simp [hi]
  simp [relabel, this]

end RbModel.Morx

namespace RbModel.Trak
open RbModel.Pipeline

/-- **C15_trak_opaque.** AAT tracking (`aat_layout_trak_table.rs::apply`, model `trackAll`) never looks at a cluster
    value: for every tracking amount, both axes, every buffer and EVERY replacement of the cluster values (any function
    of the slot — not even monotone), tracking the relabelled buffer gives the relabelled result; advances, offsets,
    continuation bits and masks are the same. -/
theorem C15_trak_opaque (t : Int) (hor : Bool) (f : G → Nat) (l : List S)
    (hf : ∀ g, f (bump t hor g) = f g) :
    trackAll t hor (l.map (reC f)) = (trackAll t hor l).map (reC f) := by
  rw [trackAll_flat, trackAll_flat]
  have h1 : ∀ s : S, first t hor (reC f s) = reC f (first t hor s) := by
    intro s
    unfold first reC
    by_cases h : s.2 = true
    · simp only [h, if_true]
      rw [bump_reC, hf]
    · simp [h]
  cases l with
  | nil => rfl
  | cons s tl =>
    simp only [flat, List.map_cons, List.map_map, h1]
    congr 1
    apply List.map_congr_left
    intro x _
    simp only [Function.comp]
    by_cases hc : x.1.cont = true
    · have : (reC f x).1.cont = true := hc
      simp [hc, this]
    · have : ¬ (reC f x).1.cont = true := hc
      simp [hc, this, h1]

/-- **C15_trak_levels.** The three cluster levels differ, when tracking runs, only in the cluster values `form_clusters`
    left in the buffer; the positions tracking produces are therefore the same at every level: for every text, scratch
    state, mask assignment, amount and axis, the tracked buffers of two configurations agree once clusters are erased. -/
theorem C15_trak_levels (t : Int) (hor : Bool) (c c' : Cfg) (l : List G) (s : Scratch) (masks : List Bool) :
    (trackAll t hor ((formClusters c l s).zip masks)).map (reC fun _ => 0) =
    (trackAll t hor ((formClusters c' l s).zip masks)).map (reC fun _ => 0) := by
  rw [← C15_trak_opaque t hor (fun _ => 0) _ (fun _ => rfl), ← C15_trak_opaque t hor (fun _ => 0) _ (fun _ => rfl)]
  congr 1
  have key : ∀ a : List G, (a.zip masks).map (reC fun _ => 0) = (a.map eC).zip masks := by
    intro a
    induction a generalizing masks with
    | nil => simp
    | cons g tl ih =>
      cases masks with
      | nil => simp
      | cons m ms => simp [reC, eC, ih]
  rw [key, key, formClusters_eC, formClusters_eC]

/-- tracking does something: a regional-indicator pair (the second slot is a continuation) between two letters, all with the
    `trak` bit on, amount -157 on the horizontal axis: three group starts are moved, the continuation is not. -/
example : (trackAll (-157) true
    [({ cluster := 0, xa := 1000 }, true), ({ cluster := 1, xa := 1000 }, true),
     ({ cluster := 2, xa := 1000, props := { cont := true } }, true), ({ cluster := 3, xa := 1000 }, true)]).map
      (fun s => (s.1.xa, s.1.xo)) = [(843, -78), (843, -78), (1000, 0), (843, -78)] := by decide

end RbModel.Trak

