import RbModel.Lemmas.Gpos
namespace RbModel.Gpos
theorem C07_placeholder : wrap16 0 = 0 := by decide
end RbModel.Gpos
