/-
  C07 — GPOS/kern: attached anchors coincide; adjustments equal the font's values.
  (also: the kern-driver part of C02 — the reverse bracket, defect D3 — and the depth part of C01 — D13.)
  Property theorems only; helper lemmas are in Lemmas/Gpos.lean.

  Pen model: `penOrigin out k` = Σ advances of the output glyphs before `k` + offset of `k`;
  `visible q len d` = what the client receives (first `len` positions, reversed for backward directions);
  `outIdx d len i` = where buffer index `i` ends up in it.  All theorems are for every array length,
  every value (unbounded `Int`), every chain shape that satisfies the stated hypotheses.
-/
import RbModel.Lemmas.Gpos
import RbModel.Lemmas.GposMark
import RbModel.Lemmas.Kerx
import RbModel.Lemmas.GposDevice
import RbModel.Gen.Gpos
import RbModel.Gen.GposLigComp
import RbModel.Lemmas.PairSpanBridge
import RbModel.Lemmas.KernChain

namespace RbModel.Gpos

/-- The constants the model fixes are the crate's (regenerated from the compiled crate on every run):
    the two attach types, and the fact the kern iterator's "marks are skipped" rests on — the GDEF mark
    class bit of `glyph_props` is the `IGNORE_MARKS` lookup-flag bit and lies inside `IGNORE_FLAGS`. -/
theorem C07_consts :
    ATTACH_MARK = RbModel.Gen.Gpos.attachMark ∧ ATTACH_CURSIVE = RbModel.Gen.Gpos.attachCursive ∧
    MAX_NESTING_LEVEL = RbModel.Gen.Gpos.maxNestingLevel ∧
    RbModel.Gen.Gpos.gpMark = RbModel.Gen.Gpos.ignoreMarks ∧
    RbModel.Gen.Gpos.ignoreMarks &&& RbModel.Gen.Gpos.ignoreFlags = RbModel.Gen.Gpos.ignoreMarks ∧
    RbModel.Gen.Gpos.gpBaseGlyph &&& RbModel.Gen.Gpos.ignoreMarks = 0 := by
  decide

/-! ## attachment propagation (with HarfBuzz's nesting budget, `MAX_NESTING_LEVEL` = 64) -/

/-- Every mark's anchor lands on the anchor of the glyph it is attached to: after
    `position_finish_offsets` (and the final reverse), in all directions, for every acyclic attachment
    structure — marks and cursive links mixed — whose chains are at most `MAX_NESTING_LEVEL` (64) links
    long (`rank` = any height function: it decreases along every link and is ≤ 64) and whose marks attach
    backwards (what `MarkArray::apply` produces).  `a.xo/a.yo` is what `MarkArray::apply` stored:
    base anchor − mark anchor (theorem `C07_mark_apply_exact`). -/
theorem C07_mark_coincide (d : Dir) (o : Array Pos) (len : Nat) (rank : Nat → Nat) (hlen : len ≤ o.size)
    (hacyc : ∀ (k : Nat) (a : Pos) (j : Nat), o[k]? = some a → a.chain ≠ 0 → target k a.chain len = some j →
      rank j < rank k)
    (hdepth : ∀ k, k < len → rank k ≤ MAX_NESTING_LEVEL)
    (hmark : ∀ (k : Nat) (a : Pos) (j : Nat), o[k]? = some a → a.chain ≠ 0 → a.atype = ATTACH_MARK →
      target k a.chain len = some j → j < k) :
    ∃ q dm, positionFinishOffsets o len d true = .ok (q, dm) ∧ dm ≤ MAX_NESTING_LEVEL + 1 ∧
      ∀ (i : Nat) (a : Pos) (j : Nat), i < len → o[i]? = some a → a.chain ≠ 0 → a.atype = ATTACH_MARK →
        target i a.chain len = some j →
        penOrigin (visible q len d) (outIdx d len i) =
          ((penOrigin (visible q len d) (outIdx d len j)).1 + a.xo,
           (penOrigin (visible q len d) (outIdx d len j)).2 + a.yo) :=
  mark_coincide d o len rank _ hlen hacyc hmark (needOK_of_rank o len rank hacyc hdepth)

/-- non-vacuity: base, mark on the base, mark on that mark (rank = index ≤ 64) -/
example : ∃ (o : Array Pos) (rank : Nat → Nat),
    (∀ (k : Nat) (a : Pos) (j : Nat), o[k]? = some a → a.chain ≠ 0 → target k a.chain 3 = some j → rank j < rank k) ∧
    (∀ k, k < 3 → rank k ≤ MAX_NESTING_LEVEL) ∧
    (∀ (k : Nat) (a : Pos) (j : Nat), o[k]? = some a → a.chain ≠ 0 → a.atype = ATTACH_MARK →
      target k a.chain 3 = some j → j < k) ∧ (∃ a, o[2]? = some a ∧ a.chain ≠ 0 ∧ a.atype = ATTACH_MARK) := by
  refine ⟨#[{ xa := 10 }, { xa := 5, xo := 3, chain := -1, atype := 1 }, { xa := 7, xo := 2, chain := -1, atype := 1 }],
    id, ?_, (fun k hk => by simp [MAX_NESTING_LEVEL]; omega), ?_, ⟨_, rfl, by decide, rfl⟩⟩
  all_goals
    intro k a j hk hc
    have hk3 : k < 3 := lt_of_get? hk
    have : k = 0 ∨ k = 1 ∨ k = 2 := by omega
    rcases this with rfl | rfl | rfl <;> simp at hk <;> subst hk <;>
      first | (exfalso; exact hc rfl) | (simp [target]; intros; omega)

/-- The same without any depth restriction when every link points backwards (every mark forest, however
    deep the mark-on-mark stacks are): the loop of `position_finish_offsets` runs left to right, so the glyph a
    link points to is already resolved and one frame of the budget is enough. -/
theorem C07_mark_coincide_forest (d : Dir) (o : Array Pos) (len : Nat) (hlen : len ≤ o.size)
    (hforest : ∀ (k : Nat) (a : Pos) (j : Nat), o[k]? = some a → a.chain ≠ 0 → target k a.chain len = some j →
      a.atype = ATTACH_MARK ∧ j < k) :
    ∃ q dm, positionFinishOffsets o len d true = .ok (q, dm) ∧ dm ≤ MAX_NESTING_LEVEL + 1 ∧
      ∀ (i : Nat) (a : Pos) (j : Nat), i < len → o[i]? = some a → a.chain ≠ 0 →
        target i a.chain len = some j →
        penOrigin (visible q len d) (outIdx d len i) =
          ((penOrigin (visible q len d) (outIdx d len j)).1 + a.xo,
           (penOrigin (visible q len d) (outIdx d len j)).2 + a.yo) := by
  obtain ⟨q, dm, h1, h2, h3⟩ := mark_coincide d o len id _ hlen
    (fun k a j hk hc ht => (hforest k a j hk hc ht).2) (fun k a j hk hc _ ht => (hforest k a j hk hc ht).2)
    (needOK_of_backward o len (fun k a j hk hc ht => (hforest k a j hk hc ht).2))
  exact ⟨q, dm, h1, h2, fun i a j hi hoi hc ht => h3 i a j hi hoi hc (hforest i a j hoi hc ht).1 ht⟩

/-- `MarkArray::apply` attaches only glyphs at most `i16::MAX` positions apart (D13, second half, fixed), and then
    stores exactly `base anchor − mark anchor` and an exact link to the glyph it was given. -/
theorem C07_mark_apply_exact {p q : Array Pos} {idx gp : Nat} {mx my bx byy : Int} {a : Pos}
    (h : markArrayApply p idx gp mx my bx byy = .ok (some q)) (ha : p[idx]? = some a) (hgp : gp < idx) :
    idx - gp ≤ CHAIN_MAX ∧
    q = put p idx { a with xo := bx - mx, yo := byy - my, atype := ATTACH_MARK, chain := (gp : Int) - (idx : Int) } ∧
    target idx ((gp : Int) - (idx : Int)) p.size = some gp :=
  markArrayApply_spec h ha hgp

example : (markArrayApply #[{}, {}] 1 0 3 4 10 20).toOption = some (some #[{}, { xo := 7, yo := 16, chain := -1, atype := 1 }]) := by
  decide +kernel

/-- No wrapped link is ever stored (was: `known_C01_attach_chain_wraps`): if every `attach_chain` of the buffer
    is a genuine distance (|chain| ≤ `i16::MAX`, true after `position_start`), it still is after
    `MarkArray::apply` … -/
theorem C01_attach_chain_mark {p q : Array Pos} {idx gp : Nat} {mx my bx byy : Int}
    (h : markArrayApply p idx gp mx my bx byy = .ok (some q)) (hp : ChainOK p) : ChainOK q :=
  markArrayApply_chainOK h hp

/-- … and after a cursive attachment, including the re-rooting of an existing chain by
    `reverse_cursive_minor_offset` (whose `i16` negation therefore never overflows). -/
theorem C01_attach_chain_cursive {p q : Array Pos} {i j dep : Nat} {d : Dir} {f : Bool} {enX enY exX exY : Int}
    (h : cursiveApply p i j d f enX enY exX exY = .ok (some (q, dep))) (hp : ChainOK p) : ChainOK q :=
  cursiveApply_chainOK h hp

/-- a base 32 768 or more glyphs before the mark is not attached at all (no link, no offset) -/
theorem C01_attach_chain_far (p : Array Pos) (idx gp : Nat) (mx my bx byy : Int) (h : gp + CHAIN_MAX < idx) :
    markArrayApply p idx gp mx my bx byy = .ok none := by
  unfold markArrayApply
  have : ((gp : Int) - (idx : Int)).natAbs > CHAIN_MAX := by omega
  simp [this]

example : ChainOK #[{}, { chain := -1, atype := 1 }] := by
  intro k b hk
  have : k < 2 := lt_of_get? hk
  have : k = 0 ∨ k = 1 := by omega
  rcases this with rfl | rfl <;> simp at hk <;> subst hk <;> simp [CHAIN_MAX]

/-- Cursive attachment, cross axis, and what `position_finish_offsets` leaves alone (chains of at most 64
    links): advances never change, unattached glyphs keep their offsets, a cursively attached glyph keeps its
    main-axis offset and sits `a.yo` (horizontal; `a.xo` vertical) away from its parent's final cross-axis
    offset, where `a.yo` is the `±(entry − exit)` stored by the lookup. -/
theorem C07_cursive_cross (d : Dir) (o : Array Pos) (len : Nat) (rank : Nat → Nat) (hlen : len ≤ o.size)
    (hacyc : ∀ (k : Nat) (a : Pos) (j : Nat), o[k]? = some a → a.chain ≠ 0 → target k a.chain len = some j →
      rank j < rank k)
    (hdepth : ∀ k, k < len → rank k ≤ MAX_NESTING_LEVEL)
    (hmark : ∀ (k : Nat) (a : Pos) (j : Nat), o[k]? = some a → a.chain ≠ 0 → a.atype = ATTACH_MARK →
      target k a.chain len = some j → j < k) :
    ∃ q dm, positionFinishOffsets o len d true = .ok (q, dm) ∧ q.size = o.size ∧
      (∀ (k : Nat) (a : Pos), o[k]? = some a → ∃ b, q[k]? = some b ∧ b.xa = a.xa ∧ b.ya = a.ya) ∧
      (∀ (k : Nat) (a : Pos), k < len → o[k]? = some a → a.chain = 0 → ∃ b, q[k]? = some b ∧ b.xo = a.xo ∧ b.yo = a.yo) ∧
      (∀ (i : Nat) (a : Pos) (j : Nat), i < len → o[i]? = some a → a.chain ≠ 0 → a.atype = ATTACH_CURSIVE →
        target i a.chain len = some j → ∃ b c, q[i]? = some b ∧ q[j]? = some c ∧
          (if d.isHorizontal then b.xo = a.xo ∧ b.yo = c.yo + a.yo else b.yo = a.yo ∧ b.xo = c.xo + a.xo)) :=
  cursive_cross d o len rank _ hlen hacyc hmark (needOK_of_rank o len rank hacyc hdepth)

/-- non-vacuity: three glyphs joined by forward cursive links (`rank k = 3 - k`), no marks -/
example : ∃ (o : Array Pos) (rank : Nat → Nat),
    (∀ (k : Nat) (a : Pos) (j : Nat), o[k]? = some a → a.chain ≠ 0 → target k a.chain 3 = some j → rank j < rank k) ∧
    (∀ k, k < 3 → rank k ≤ MAX_NESTING_LEVEL) ∧
    (∀ (k : Nat) (a : Pos) (j : Nat), o[k]? = some a → a.chain ≠ 0 → a.atype = ATTACH_MARK →
      target k a.chain 3 = some j → j < k) ∧ (∃ a, o[0]? = some a ∧ a.chain ≠ 0 ∧ a.atype = ATTACH_CURSIVE) := by
  refine ⟨#[{ xa := 10, yo := 3, chain := 1, atype := 2 }, { xa := 5, yo := -2, chain := 1, atype := 2 }, { xa := 7 }],
    fun k => 3 - k, ?_, (fun k _ => by simp [MAX_NESTING_LEVEL]; omega), ?_, ⟨_, rfl, by decide, rfl⟩⟩
  all_goals
    intro k a j hk hc
    have hk3 : k < 3 := lt_of_get? hk
    have : k = 0 ∨ k = 1 ∨ k = 2 := by omega
    rcases this with rfl | rfl | rfl <;> simp at hk <;> subst hk <;>
      first | (exfalso; exact hc rfl) | (simp [target, ATTACH_MARK]; try (intros; omega))

/-! ## cursive attachment, main axis: entry anchor of `j` = exit anchor of `i` right after the lookup applied
    (`position_finish_offsets` does not touch these fields: `C07_cursive_cross`).  `hz`: the glyphs the
    lookup skipped between `i` and `j` have no advance. -/

theorem C07_cursive_coincide_ltr {p q : Array Pos} {i j len dep : Nat} {f : Bool} {enX enY exX exY : Int}
    (h : cursiveApply p i j .ltr f enX enY exX exY = .ok (some (q, dep))) (hij : i < j) (hj : j < len) (hl : len ≤ p.size)
    (hz : ∀ (k : Nat) (b : Pos), i < k → k < j → p[k]? = some b → b.xa = 0) :
    (penOrigin (visible q len .ltr) (outIdx .ltr len j)).1 + enX =
      (penOrigin (visible q len .ltr) (outIdx .ltr len i)).1 + exX :=
  cursive_coincide_ltr h hij hj hl hz

theorem C07_cursive_coincide_rtl {p q : Array Pos} {i j len dep : Nat} {f : Bool} {enX enY exX exY : Int}
    (h : cursiveApply p i j .rtl f enX enY exX exY = .ok (some (q, dep))) (hij : i < j) (hj : j < len) (hl : len ≤ p.size)
    (hz : ∀ (k : Nat) (b : Pos), i < k → k < j → p[k]? = some b → b.xa = 0) :
    (penOrigin (visible q len .rtl) (outIdx .rtl len j)).1 + enX =
      (penOrigin (visible q len .rtl) (outIdx .rtl len i)).1 + exX :=
  cursive_coincide_rtl h hij hj hl hz

theorem C07_cursive_coincide_ttb {p q : Array Pos} {i j len dep : Nat} {f : Bool} {enX enY exX exY : Int}
    (h : cursiveApply p i j .ttb f enX enY exX exY = .ok (some (q, dep))) (hij : i < j) (hj : j < len) (hl : len ≤ p.size)
    (hz : ∀ (k : Nat) (b : Pos), i < k → k < j → p[k]? = some b → b.ya = 0) :
    (penOrigin (visible q len .ttb) (outIdx .ttb len j)).2 + enY =
      (penOrigin (visible q len .ttb) (outIdx .ttb len i)).2 + exY :=
  cursive_coincide_ttb h hij hj hl hz

/- Full statement for bottom-to-top (FALSE of the code, see `known_C07_cursive_btt`):
   theorem C07_cursive_coincide_btt … (same hypotheses) :
     (penOrigin (visible q len .btt) (outIdx .btt len j)).2 + enY
       = (penOrigin (visible q len .btt) (outIdx .btt len i)).2 + exY
   The code sets `pos[j].y_advance = entry_y` without `+ pos[j].y_offset` (RTL has the term), so the anchors
   are `pos[j].y_offset` apart.  Proved: the exact error term, and the coincidence when that offset is 0. -/
theorem C07_cursive_coincide_btt_partial {p q : Array Pos} {i j len dep : Nat} {f : Bool} {enX enY exX exY : Int}
    {pj : Pos} (h : cursiveApply p i j .btt f enX enY exX exY = .ok (some (q, dep))) (hij : i < j) (hj : j < len)
    (hl : len ≤ p.size) (hz : ∀ (k : Nat) (b : Pos), i < k → k < j → p[k]? = some b → b.ya = 0)
    (hpj : p[j]? = some pj) :
    (penOrigin (visible q len .btt) (outIdx .btt len j)).2 + enY =
      (penOrigin (visible q len .btt) (outIdx .btt len i)).2 + exY + pj.yo :=
  cursive_coincide_btt h hij hj hl hz hpj

/-- witness: two glyphs, the entry-side glyph carries `y_offset = 5` (in vertical text `position_default`
    subtracts the vertical origin, so this is the normal case): the anchors end up 5 units apart. -/
theorem known_C07_cursive_btt :
    ∃ q dep, cursiveApply #[{ ya := -100 }, { ya := -100, yo := 5 }] 0 1 .btt true 0 30 0 40 = .ok (some (q, dep)) ∧
      (penOrigin (visible q 2 .btt) (outIdx .btt 2 1)).2 + 30 ≠ (penOrigin (visible q 2 .btt) (outIdx .btt 2 0)).2 + 40 := by
  refine ⟨_, _, rfl, ?_⟩
  decide +kernel

/-- non-vacuity of the four cursive theorems (one application on two glyphs succeeds in every direction) -/
example : ∀ d : Dir, ∃ q dep, cursiveApply #[{ xa := 10, ya := 3 }, { xa := 20, xo := 4, yo := 1 }] 0 1 d false 1 2 3 4 = .ok (some (q, dep)) := by
  intro d; cases d <;> exact ⟨_, _, rfl⟩

/-! ## value records -/

/-- Single / pair adjustments add exactly the record's values: placements always, the advance only on the
    axis of the direction (y advances are subtracted: "grow downward"), nothing else changes. -/
theorem C07_value_exact (v : ValueRecord) (d : Dir) (q : Pos) :
    let r := (valueApplyToPos v d q).1
    r.xo = q.xo + v.xPlacement ∧ r.yo = q.yo + v.yPlacement ∧
    r.xa = (if d.isHorizontal then q.xa + v.xAdvance else q.xa) ∧
    r.ya = (if d.isHorizontal then q.ya else q.ya - v.yAdvance) ∧
    r.chain = q.chain ∧ r.atype = q.atype := by
  unfold valueApplyToPos
  cases d.isHorizontal <;>
    by_cases h1 : v.xPlacement = 0 <;> by_cases h2 : v.yPlacement = 0 <;>
    by_cases h3 : v.xAdvance = 0 <;> by_cases h4 : v.yAdvance = 0 <;> simp [h1, h2, h3, h4]

/-- `valueApply` writes only the glyph it is given -/
theorem C07_value_frame {v : ValueRecord} {d : Dir} {p q : Array Pos} {idx : Nat} {w : Bool}
    (h : valueApply v d p idx = .ok (q, w)) :
    q.size = p.size ∧ ∀ k, k ≠ idx → q[k]? = p[k]? := by
  unfold valueApply at h
  simp only [bind, Except.bind] at h
  split at h
  · cases h
  · simp only [Except.ok.injEq, Prod.mk.injEq] at h
    obtain ⟨rfl, _⟩ := h
    exact ⟨by simp, fun k hk => put_get?_ne _ _ (Ne.symm hk)⟩

/-- The same with the record's device / variation tables: each delta is added to exactly its own field — placements
    whenever the face state enables that axis' devices (`useX` / `useY`: a ppem on that axis or variation coordinates),
    the X advance delta only in horizontal runs, the Y advance delta (subtracted) only in vertical runs; attachment
    fields untouched.  The deltas themselves are the font's (external data). -/
theorem C07_value_exact_device (v : ValueRecordD) (useX useY : Bool) (d : Dir) (q : Pos) :
    let r := (valueApplyToPosD v useX useY d q).1
    r.xo = q.xo + v.xPlacement + devDelta useX v.xPlaDevice ∧
    r.yo = q.yo + v.yPlacement + devDelta useY v.yPlaDevice ∧
    r.xa = (if d.isHorizontal then q.xa + v.xAdvance + devDelta useX v.xAdvDevice else q.xa) ∧
    r.ya = (if d.isHorizontal then q.ya else q.ya - v.yAdvance - devDelta useY v.yAdvDevice) ∧
    r.chain = q.chain ∧ r.atype = q.atype := by
  simp [valueApplyToPosD_exact]

/-- without device tables (or with the face in its default state) this is the plain record -/
theorem C07_value_device_off (v : ValueRecordD) (d : Dir) (q : Pos) :
    (valueApplyToPosD v false false d q).1 = (valueApplyToPos v.toValueRecord d q).1 := by
  rw [valueApplyToPosD_exact, valueApplyToPos_exact]
  simp [devDelta]

/-! ## recursion depth (C01; D13 fixed: `nesting_level` budget) -/

/-- One `propagate_attachment_offsets` call with budget `nl` nests at most `nl + 1` frames — for EVERY array
    (cycles, out-of-range links and all); it never grows the array or the number of pending links. -/
theorem C01_propagate_depth (p q : Array Pos) (len i nl dep : Nat) (d : Dir)
    (h : propagate p len i d nl = .ok (q, dep)) :
    dep ≤ nl + 1 ∧ dep ≤ nz p + 1 ∧ nz q ≤ nz p ∧ q.size = p.size := by
  obtain ⟨h1, h2, _, h4, h5, _⟩ := propagate_basic len d _ _ _ _ _ h
  exact ⟨h5, h4, h2, h1⟩

example : ∃ q dep, propagate #[{}, { chain := -1, atype := 1 }] 2 1 .ltr 64 = .ok (q, dep) := ⟨_, _, rfl⟩

/-- `position_finish_offsets` never nests deeper than `MAX_NESTING_LEVEL + 1` = 65 frames, whatever the buffer
    holds (was false before the fix: `known_C01_propagate_unbounded`). -/
theorem C01_depth_bound (p q : Array Pos) (len dm : Nat) (d : Dir) (fl : Bool)
    (h : positionFinishOffsets p len d fl = .ok (q, dm)) : dm ≤ MAX_NESTING_LEVEL + 1 ∧ q.size = p.size := by
  unfold positionFinishOffsets at h
  split at h
  · have := finishLoop_depth len d _ _ _ _ _ _ h
    exact ⟨by omega, this.2⟩
  · simp only [Except.ok.injEq, Prod.mk.injEq] at h
    obtain ⟨rfl, rfl⟩ := h
    exact ⟨by omega, rfl⟩

example : ∃ q dm, positionFinishOffsets #[{}, { chain := -1, atype := 1 }] 2 .ltr true = .ok (q, dm) := ⟨_, _, rfl⟩

/-- `reverse_cursive_minor_offset` no longer recurses: it is two loops over a heap work list.  The loops compute
    exactly what the recursion computed, on EVERY input — cyclic chains, out-of-range links, foreign attach
    types — including which panic is raised and the length of the walk (so every theorem above, proved about
    the recursive formulation, is a theorem about the loops). -/
theorem C01_reverse_cursive_loop_exact (fuel : Nat) (p : Array Pos) (i : Nat) (d : Dir) (np : Nat) :
    reverseCursiveMinorOffset fuel p i d np = reverseCursiveRec fuel p i d np :=
  reverseCursive_eq fuel p i d np

/-- The work list never holds more entries than there are pending links (so the first loop terminates and the
    heap use is linear in the buffer); stack use is constant.  Together with `C01_depth_bound` nothing in this
    core nests deeper than 65 frames any more (was: `known_C01_reverse_cursive_unbounded`). -/
theorem C01_reverse_cursive_worklist (p q : Array Pos) (i np dep : Nat) (d : Dir)
    (h : reverseCursiveMinorOffset (fuelFor p) p i d np = .ok (q, dep)) :
    dep ≤ nz p + 1 ∧ dep ≤ p.size + 1 ∧ q.size = p.size := by
  rw [reverseCursive_eq] at h
  obtain ⟨h1, h2⟩ := reverseCursive_main d np _ _ _ _ _ h
  have := nz_le_size p
  exact ⟨h2, by omega, h1.1⟩

example : ∃ q dep, reverseCursiveMinorOffset (fuelFor #[{ chain := 1, atype := 2 }, {}]) #[{ chain := 1, atype := 2 }, {}] 0 .ltr 5
    = .ok (q, dep) := ⟨_, _, rfl⟩

end RbModel.Gpos

namespace RbModel.GposMark
open RbModel.Gpos

/-! ## which glyph a mark is attached to (model: GposMark.lean — the `last_base` cache, MarkToBase / MarkToLigature,
    the forward driver; tied to the crate by the `gpos-lookup` stream through the real `apply_layout_table`)

    `lastOk p n` is the specification: the nearest position before `n` whose glyph is admissible (`p`). -/

/-- `lastOk` is "the nearest admissible glyph before `n`", or `-1` when there is none. -/
theorem C07_target_nearest (p : Nat → Bool) (n : Nat) :
    (lastOk p n = -1 ∧ ∀ j, j < n → p j = false) ∨
    (∃ k : Nat, lastOk p n = (k : Int) ∧ k < n ∧ p k = true ∧ ∀ j, k < j → j < n → p j = false) := by
  have hge := lastOk_ge p n
  by_cases h : lastOk p n = -1
  · exact Or.inl ⟨h, lastOk_none h⟩
  · have h0 : 0 ≤ lastOk p n := by omega
    have hk : lastOk p n = ((lastOk p n).toNat : Int) := (Int.toNat_of_nonneg h0).symm
    exact Or.inr ⟨_, hk, lastOk_some hk⟩

example : lastOk (fun j => j == 1 || j == 3) 3 = 1 ∧ lastOk (fun j => j == 1 || j == 3) 5 = 3 ∧
    lastOk (fun j => j == 1 || j == 3) 1 = -1 := by decide

/-- The `last_base` / `last_base_until` cache of MarkToBase and MarkToLigature is an optimisation only.  For every
    admissibility test `ok` (total on the glyphs before `idx`, with pure reading `p`), every `idx` and every
    consistent cache state — `last_base` is the nearest admissible glyph before `last_base_until`, whatever
    `last_base_until` is: behind `idx`, at `idx`, or beyond it (stale: revisited position, nested lookup) — the cached
    search returns the nearest admissible glyph before `idx` and leaves the consistent cache `(that glyph, idx)`.
    The fresh cache `(-1, 0)` that `set_lookup_mask` installs before every lookup is consistent (`lastOk p 0 = -1`). -/
theorem C07_target_cache (ok : Nat → GM Bool) (p : Nat → Bool) (idx untl : Nat)
    (hok : ∀ j, j < idx → ok j = .ok (p j)) :
    lastBaseSearch ok idx (lastOk p untl) untl = .ok (lastOk p idx, idx) ∧ lastOk p 0 = -1 :=
  ⟨lastBaseSearch_eq idx untl hok, rfl⟩

/-- non-vacuity: cache behind (scan of the new stretch only), stale cache (reset and full scan) -/
example : (lastBaseSearch (fun j => .ok (j == 1 || j == 3)) 5 1 2).toOption = some (3, 5) ∧
    (lastBaseSearch (fun j => .ok (j == 1 || j == 3)) 3 3 4).toOption = some (1, 3) := by decide

/-- Which glyphs the backward search stops at: not a mark by the GDEF class held in `glyph_props` (the subtable's
    coverages play no part), inside the lookup's feature range, and not a default ignorable the GPOS iterator passes
    over (every one, except ZWJ under manual-ZWJ features). -/
theorem C07_target_admissible (c : Ctx) (x : Info) :
    (baseIt c).match_ c.font x = .matched ↔
      (Gsub.isMark x = false ∧ x.mask &&& c.lookupMask ≠ 0 ∧
        ¬ (Gsub.isDefaultIgnorable x = true ∧ (c.autoZwj = true ∨ Gsub.isZwj x = false))) :=
  base_match_iff c x

/-- One MarkToLigature application, from any consistent cache: a consistent cache is left; nothing else changes
    when it does not apply; when it applies, the glyph at `idx` is linked to the NEAREST admissible glyph before it,
    with offset = (anchor of the component `ligComponent` chooses, for the mark's class) − (the mark's anchor). -/
theorem C07_mark_lig_call {c c' : Ctx} {mc lc : Gsub.Cov} {marks : MarkArray} {ligs : List Matrix} {applied : Bool}
    (h : markLigApply c mc lc marks ligs = .ok (c', applied))
    (hps : c.perSyllable = false) (hlen : c.idx < c.info.length) (hinv : CacheOk (ligAdm c) c) :
    Frame c c' ∧ CacheOk (ligAdm c) c' ∧
    (applied = false → c'.pos = c.pos ∧ c'.idx = c.idx ∧ c'.hasAttach = c.hasAttach) ∧
    (applied = true → c'.idx = c.idx + 1 ∧ c'.hasAttach = true ∧
       ∃ (t : Nat) (cur lig : Info) (mi : Nat) (M : Matrix) (cls : Nat) (mx my bx byy : Int),
         lastOk (ligAdm c) c.idx = (t : Int) ∧ c.info[c.idx]? = some cur ∧ c.info[t]? = some lig ∧
         Gsub.Cov.index mc (cur.gid % 65536) = some mi ∧ marks[mi]? = some (cls, mx, my) ∧
         (Gsub.Cov.index lc (lig.gid % 65536)).bind (fun k => ligs[k]?) = some M ∧
         M.get (ligComponent lig cur M.rows) cls = some (bx, byy) ∧
         AttachedTo c c' t mx my bx byy) :=
  markLigApply_spec h hps hlen hinv

/-- non-vacuity: ligature L (3 components, ligature id 1), a mark of component 2 (same id) and a trailing mark
    without id: the first lands on component 2, the second on the last component, both linked to L -/
example : ((applyForward [.markLig [7] [4] [(0, 1, 1)] [{ rows := 3, cols := 1, flat := [some (10, 0), some (20, 0), some (30, 0)] }]]
      3 { font := {}, info := [{ gid := 4, mask := 1, var1 := 0x24 + (32 + 16 + 3) * 65536 },
                                { gid := 7, mask := 1, var1 := 8 + (32 + 2) * 65536 }, { gid := 7, mask := 1, var1 := 8 }],
          len := 3, pos := #[{ xa := 900 }, {}, {}] }).toOption.map (·.pos)) =
    some #[{ xa := 900 }, { xo := 19, yo := -1, chain := -1, atype := 1 }, { xo := 29, yo := -1, chain := -2, atype := 1 }] := by
  decide +kernel

/-- The component: the mark's own component number when mark and ligature carry the same non-zero ligature id
    (clamped to the components the font describes), otherwise the last component. -/
theorem C07_lig_component (lig cur : Info) (n : Nat) (hn : 0 < n) :
    ligComponent lig cur n < n ∧
    ((Gsub.ligId lig ≠ 0 ∧ Gsub.ligId lig = Gsub.ligId cur ∧ 0 < Gsub.ligComp cur) →
      ligComponent lig cur n = min (Gsub.ligComp cur) n - 1) ∧
    (¬ (Gsub.ligId lig ≠ 0 ∧ Gsub.ligId lig = Gsub.ligId cur ∧ 0 < Gsub.ligComp cur) → ligComponent lig cur n = n - 1) := by
  unfold ligComponent ligComponentSel
  refine ⟨?_, ?_, ?_⟩
  · split <;> omega
  · rintro ⟨h1, h2, h3⟩
    simp [h1, h2, h3]
    rw [← h2]; simp [h1]
  · intro h
    split
    · rename_i hc
      simp only [Bool.and_eq_true, bne_iff_ne, ne_eq, beq_iff_eq, decide_eq_true_eq] at hc
      exact absurd ⟨hc.1.1, hc.1.2, hc.2⟩ h
    · rfl

/-- The component computation is total: for EVERY ligature id, component number and component count ≥ 1 (the code turns
    `comp_count == 0` away first) the u16 value the code subtracts 1 from is between 1 and the component count, so `- 1`
    never underflows — neither the trap of the overflow-checked build nor the wrapped index 65535 of the release build can
    occur — and the chosen component is one the font describes.  The case that needs the code's `mark_comp > 0` test: a
    glyph with component number 0 (a glyph that is itself a ligature base — every output of a MultipleSubst applied to a
    ligature glyph keeps the ligature's id and is one) is attached to the LAST component, whatever the two ids are. -/
theorem C07_marklig_component_total (lig cur : Info) (n : Nat) (hn : 0 < n) :
    1 ≤ ligComponentSel lig cur n ∧ ligComponentSel lig cur n ≤ n ∧
    ligComponent lig cur n + 1 = ligComponentSel lig cur n ∧ ligComponent lig cur n < n ∧
    (Gsub.ligComp cur = 0 → ligComponent lig cur n = n - 1) ∧
    (Gsub.ligatedInternal cur = true → ligComponent lig cur n = n - 1) := by
  have hsel : 1 ≤ ligComponentSel lig cur n ∧ ligComponentSel lig cur n ≤ n := by
    unfold ligComponentSel
    split
    · rename_i hc
      simp only [Bool.and_eq_true, decide_eq_true_eq] at hc
      omega
    · omega
  have h0 : Gsub.ligComp cur = 0 → ligComponent lig cur n = n - 1 := by
    intro hz
    unfold ligComponent ligComponentSel
    simp [hz]
  refine ⟨hsel.1, hsel.2, ?_, ?_, h0, ?_⟩
  · unfold ligComponent; omega
  · unfold ligComponent; omega
  · intro hb
    apply h0
    unfold Gsub.ligComp
    simp [hb]

/-- non-vacuity / the case itself: ligature L (id 1, two components) expanded by a MultipleSubst into <L, X>: X keeps id 1 and
    is a ligature base (component number 0); a MarkToLigature lookup with X in its mark coverage attaches X to the LAST
    component of L (anchor 400) -/
example : ((applyForward [.markLig [7] [4] [(0, 50, 0)] [{ rows := 2, cols := 1, flat := [some (100, 700), some (400, 700)] }]]
      2 { font := {}, info := [{ gid := 4, mask := 1, var1 := 0x62 + (32 + 16 + 2) * 65536 },
                                { gid := 7, mask := 1, var1 := 0x52 + (32 + 16 + 2) * 65536 }],
          len := 2, pos := #[{ xa := 600 }, { xa := 600 }] }).toOption.map (·.pos)) =
    some #[{ xa := 600 }, { xa := 600, xo := 350, yo := 700, chain := -1, atype := 1 }] := by
  decide +kernel

/-- The compiled crate chooses the component the model chooses: `Gen.GposLigComp.rows` is regenerated on every run by
    running the real `MarkToLigatureAdjustment::apply` on <ligature, mark> for every relation of the two ligature ids
    (equal, different, zero on either side) x all 32 values of the low five bits of the mark's lig_props (every component
    number, with and without the ligature-base bit) x component counts 1, 2, 3, 4, 15, 16, 17; each row records the component
    whose anchor the mark received (0 = the lookup did not apply).  Every probe must apply, on the model's component. -/
theorem C07_gen_marklig_component :
    RbModel.Gen.GposLigComp.rows.all (fun (l, m, n, got) =>
      got == ligComponent { gid := 1, var1 := 4 + l * 65536 } { gid := 2, var1 := 8 + m * 65536 } n + 1) = true := by
  decide +kernel

/-- the table is not empty and reaches the case of `C07_marklig_component_total`: equal non-zero ids, the mark a ligature
    base (component number 0), more than one component -/
theorem C07_gen_marklig_component_covers :
    RbModel.Gen.GposLigComp.rows.length = 1344 ∧
    RbModel.Gen.GposLigComp.rows.any (fun (l, m, n, _) => l / 32 == m / 32 && l / 32 != 0 && m &&& 16 != 0 && n > 1) = true ∧
    RbModel.Gen.GposLigComp.rows.any (fun (l, m, n, _) => l / 32 == m / 32 && l / 32 != 0 && m % 32 == 0 && n > 1) = true := by
  decide +kernel

/-- One MarkToBase application: the same with the base anchor of the mark's class. -/
theorem C07_mark_base_call {c c' : Ctx} {mc bc : Gsub.Cov} {marks : MarkArray} {anchors : Matrix} {applied : Bool}
    (h : markBaseApply c mc bc marks anchors = .ok (c', applied))
    (hps : c.perSyllable = false) (hlen : c.idx < c.info.length) (hinv : CacheOk (baseAdm c bc) c) :
    Frame c c' ∧ CacheOk (baseAdm c bc) c' ∧
    (applied = false → c'.pos = c.pos ∧ c'.idx = c.idx ∧ c'.hasAttach = c.hasAttach) ∧
    (applied = true → c'.idx = c.idx + 1 ∧ c'.hasAttach = true ∧
       ∃ (t : Nat) (cur base : Info) (mi bi : Nat) (cls : Nat) (mx my bx byy : Int),
         lastOk (baseAdm c bc) c.idx = (t : Int) ∧ c.info[c.idx]? = some cur ∧ c.info[t]? = some base ∧
         Gsub.Cov.index mc (cur.gid % 65536) = some mi ∧ marks[mi]? = some (cls, mx, my) ∧
         Gsub.Cov.index bc (base.gid % 65536) = some bi ∧ anchors.get bi cls = some (bx, byy) ∧
         AttachedTo c c' t mx my bx byy) :=
  markBaseApply_spec h hps hlen hinv

/-- a MarkToBase target is in particular a glyph the iterator stops at (`C07_target_admissible`) -/
theorem C07_base_is_admissible {c : Ctx} {bc : Gsub.Cov} {j : Nat} (h : baseAdm c bc j = true) :
    ∃ x, c.info[j]? = some x ∧ (baseIt c).match_ c.font x = .matched := by
  have := baseAdm_lig h
  unfold ligAdm at this
  split at this
  · rename_i x hx; exact ⟨x, hx, by simpa using this⟩
  · cases this

/-- The seed scenario as a model run (B = GDEF base; S = GDEF base listed in the mark AND the base coverage;
    M = GDEF mark): S is linked to B, M to S (the nearest non-mark), not to the older cache entry B. -/
example : ((applyForward [.markBase [2, 3] [1, 2] [(0, 0, 0), (0, 50, 20)] { rows := 2, cols := 1, flat := [some (800, 100), some (300, 650)] }]
      3 { font := {}, info := [{ gid := 1, mask := 1, var1 := 2 }, { gid := 2, mask := 1, var1 := 2 }, { gid := 3, mask := 1, var1 := 8 }],
          len := 3, pos := #[{ xa := 1000 }, { xa := 600 }, {}] }).toOption.map (·.pos)) =
    some #[{ xa := 1000 }, { xa := 600, xo := 800, yo := 100, chain := -1, atype := 1 },
           { xo := 250, yo := 630, chain := -1, atype := 1 }] := by
  decide +kernel

/-- A whole forward pass (`apply_forward`) of a lookup whose subtables search with one admissibility predicate `p`
    (MarkToLigature subtables; MarkToBase with `baseAdm … = p`), from a consistent cache: the cache stays
    consistent through every call, and every glyph is either untouched or linked — as a mark, with its advance
    untouched — to the NEAREST admissible glyph before it.  (`apply_layout_table` starts every lookup with the
    fresh cache: `C07_pass_starts_fresh`.) -/
theorem C07_mark_pass_targets {p : Nat → Bool} {subs : List Sub} (fuel : Nat) {c r : Ctx}
    (h : applyForward subs fuel c = .ok r) (hs : SubsAdm c p subs)
    (hps : c.perSyllable = false) (hlen : c.len ≤ c.info.length) (hinv : CacheOk p c) :
    Frame c r ∧ CacheOk p r ∧ r.pos.size = c.pos.size ∧
    ∀ i, r.pos[i]? = c.pos[i]? ∨
      (c.idx ≤ i ∧ i < c.len ∧ ∃ (t : Nat) (a b : Pos), lastOk p i = (t : Int) ∧ c.pos[i]? = some a ∧ r.pos[i]? = some b ∧
        b.atype = ATTACH_MARK ∧ b.chain = (t : Int) - (i : Int) ∧ i - t ≤ CHAIN_MAX ∧ b.xa = a.xa ∧ b.ya = a.ya) :=
  applyForward_targets fuel h hs hps hlen hinv

/- Full statement without the `SubsAdm` hypothesis (FALSE of the code, see `known_C07_base_cache_shared`): "every
   MarkToBase subtable links the glyph to the nearest glyph admissible under ITS OWN base coverage".  The subtables
   of one lookup share the cache, and `baseAdm` depends on the subtable's base coverage for the later glyphs of a
   MultipleSubst sequence (harfbuzz#4124): a subtable called at the same `idx` after another one reuses the base
   found under the other one's coverage.  HarfBuzz's `c->last_base` is shared in the same way. -/

/-- witness: `<6 6 5>` where `6 6` is a MultipleSubst sequence and 5 a mark; subtable 2 (base coverage {6}) alone
    links the mark to the second 6 (its nearest admissible glyph); preceded by subtable 1 (base coverage {1}: never
    applies here) it links the mark to the first 6. -/
theorem known_C07_base_cache_shared :
    let info : List Info := [{ gid := 6, mask := 1, var1 := 0x52 }, { gid := 6, mask := 1, var1 := 0x52 + 65536 }, { gid := 5, mask := 1, var1 := 8 }]
    let c : Ctx := { font := {}, info := info, len := 3, pos := #[{ xa := 500 }, { xa := 500 }, {}] }
    let sub1 : Sub := .markBase [5] [1] [(0, 0, 0)] { rows := 1, cols := 1, flat := [some (111, 111)] }
    let sub2 : Sub := .markBase [5] [6] [(0, 10, 20)] { rows := 1, cols := 1, flat := [some (300, 400)] }
    ((applyForward [sub2] 3 c).toOption.map (fun r => r.pos.map (·.chain))) = some #[0, 0, -1] ∧
    ((applyForward [sub1, sub2] 3 c).toOption.map (fun r => r.pos.map (·.chain))) = some #[0, 0, -2] ∧
    lastOk (baseAdm c [6]) 2 = 1 := by
  decide +kernel

/-- non-vacuity of `SubsAdm` / `CacheOk`: a MarkToLigature lookup and the fresh cache -/
example : ∃ (c : Ctx) (p : Nat → Bool), SubsAdm c p [.markLig [3] [1] [(0, 0, 0)] []] ∧ CacheOk p c ∧ c.perSyllable = false :=
  ⟨{ font := {}, info := [], len := 0, pos := #[] }, _,
    fun s hs => Or.inl ⟨_, _, _, _, List.mem_singleton.mp hs, rfl⟩, rfl, rfl⟩

/-- `apply_layout_table` hands every lookup the fresh cache and cursor 0 (`set_lookup_mask`, `apply_string`). -/
theorem C07_pass_starts_fresh (lookups : List Lookup) (c : Ctx) (m : LookupMap) (rest : List LookupMap) (l : Lookup)
    (hl : lookups[m.index]? = some l) (hne : c.len ≠ 0) (hm : m.mask ≠ 0) :
    applyLayoutTable lookups c (m :: rest) =
      match applyForward l.subtables c.len
          { c with lookupMask := m.mask, lastBase := -1, lastBaseUntil := 0, autoZwj := m.autoZwj,
                   perSyllable := m.perSyllable, lookupProps := l.props, idx := 0 } with
      | .error e => .error e
      | .ok c' => applyLayoutTable lookups c' rest := by
  simp [applyLayoutTable, hl, applyString, hne, hm]
  rfl

/-- End to end for such a lookup: from `position_start` (no links) through the forward pass to
    `position_finish_offsets`, in every direction: every glyph the pass linked lies, in final pen coordinates,
    exactly its stored offset (= target anchor − own anchor, `C07_mark_lig_call` / `C07_mark_base_call`) away from
    the nearest admissible glyph `t` before it — `t` is admissible and nothing between `t` and the glyph is. -/
theorem C07_mark_pass_coincide (d : Dir) {p : Nat → Bool} {subs : List Sub} {c r : Ctx}
    (h : applyForward subs c.len c = .ok r) (hidx : c.idx = 0) (hs : SubsAdm c p subs)
    (hps : c.perSyllable = false) (hlen : c.len ≤ c.info.length) (hpl : c.len ≤ c.pos.size)
    (hfresh : c.lastBase = -1 ∧ c.lastBaseUntil = 0)
    (hstart : ∀ (k : Nat) (a : Pos), c.pos[k]? = some a → a.chain = 0) :
    ∃ q dm, positionFinishOffsets r.pos c.len d true = .ok (q, dm) ∧
      ∀ (i : Nat) (b : Pos), i < c.len → r.pos[i]? = some b → b.chain ≠ 0 →
        ∃ t : Nat, lastOk p i = (t : Int) ∧ t < i ∧ p t = true ∧ (∀ j, t < j → j < i → p j = false) ∧
          penOrigin (visible q c.len d) (outIdx d c.len i) =
            ((penOrigin (visible q c.len d) (outIdx d c.len t)).1 + b.xo,
             (penOrigin (visible q c.len d) (outIdx d c.len t)).2 + b.yo) :=
  pass_coincide d h hidx hs hps hlen hpl hfresh hstart

/-- non-vacuity of `C07_mark_pass_coincide`: the context of the seed scenario satisfies every hypothesis -/
example : ∃ (c : Ctx) (p : Nat → Bool) (subs : List Sub), c.idx = 0 ∧ SubsAdm c p subs ∧ c.perSyllable = false ∧
    c.len ≤ c.info.length ∧ c.len ≤ c.pos.size ∧ (c.lastBase = -1 ∧ c.lastBaseUntil = 0) ∧
    (∀ (k : Nat) (a : Pos), c.pos[k]? = some a → a.chain = 0) ∧ (applyForward subs c.len c).toOption.isSome = true := by
  refine ⟨{ font := {}, info := [{ gid := 1, mask := 1, var1 := 2 }, { gid := 2, mask := 1, var1 := 2 }, { gid := 3, mask := 1, var1 := 8 }],
            len := 3, pos := #[{ xa := 1000 }, { xa := 600 }, {}] }, _,
    [.markBase [2, 3] [1, 2] [(0, 0, 0), (0, 50, 20)] { rows := 2, cols := 1, flat := [some (800, 100), some (300, 650)] }],
    rfl, fun s hs => Or.inr ⟨_, _, _, _, List.mem_singleton.mp hs, rfl⟩, rfl, by decide, by decide, ⟨rfl, rfl⟩, ?_, by decide +kernel⟩
  intro k a hk
  have hk3 : k < 3 := lt_of_get? hk
  have : k = 0 ∨ k = 1 ∨ k = 2 := by omega
  rcases this with rfl | rfl | rfl <;> simp at hk <;> subst hk <;> rfl

end RbModel.GposMark

namespace RbModel.Kern
open RbModel.Gpos

/-! ## kern -/

/-- One kerned pair: `kern1 + kern2 = kern` with `kern1 = ⌊kern/2⌋`; in the non-cross-stream case the left
    glyph's advance grows by `kern1`, the right glyph's advance AND offset by `kern2` (so the right glyph's
    origin moves by exactly `kern` relative to the left one, and the pen after the pair by `kern` too);
    cross-stream sets the right glyph's cross-axis offset; no other position changes. -/
theorem C07_kern_exact {p q : Array Pos} {i j : Nat} {kern : Int} {h cs fl : Bool} {pi pj : Pos}
    (hk : kernPair p i j kern h cs = .ok (q, fl)) (hij : i ≠ j) (hpi : p[i]? = some pi) (hpj : p[j]? = some pj) :
    kern / 2 + (kern - kern / 2) = kern ∧
    q.size = p.size ∧ fl = cs ∧ (∀ k, k ≠ i → k ≠ j → q[k]? = p[k]?) ∧
    q[i]? = some (if cs then pi else if h then { pi with xa := pi.xa + kern / 2 } else { pi with ya := pi.ya + kern / 2 }) ∧
    q[j]? = some (if cs then (if h then { pj with yo := kern } else { pj with xo := kern })
                  else if h then { pj with xa := pj.xa + (kern - kern / 2), xo := pj.xo + (kern - kern / 2) }
                  else { pj with ya := pj.ya + (kern - kern / 2), yo := pj.yo + (kern - kern / 2) }) :=
  ⟨kern_split kern, kernPair_spec hk hij hpi hpj⟩

example : (kernPair #[{ xa := 10 }, { xa := 7 }] 0 1 (-5) true false).toOption
    = some (#[{ xa := 7 }, { xa := 5, xo := -2 }], false) := by decide +kernel

/-- The pair partner is the next glyph that is neither a mark nor a default ignorable (`IGNORE_MARKS`
    iterator), and it carries the kern mask; everything in between is skipped. -/
theorem C07_kern_next (infos : Array KInfo) (mask : Nat) (n idx j : Nat)
    (h : iterNext infos mask idx n = .ok (some j)) :
    idx < j ∧ j ≤ idx + n ∧ (∃ g, infos[j]? = some g ∧ g.mask &&& mask ≠ 0 ∧ g.mark = false ∧ g.di = false) ∧
    ∀ k, idx < k → k < j → ∃ g, infos[k]? = some g ∧ (g.mark = true ∨ g.di = true) := by
  obtain ⟨h1, h2, ⟨g, hg, hm⟩, h4⟩ := iterNext_spec infos mask n idx j h
  refine ⟨h1, h2, ⟨g, hg, matchKind_one hm⟩, ?_⟩
  intro k hk1 hk2
  obtain ⟨g', hg', hm'⟩ := h4 k hk1 hk2
  refine ⟨g', hg', ?_⟩
  unfold matchKind at hm'
  split at hm'
  · left; assumption
  · simp only at hm'
    split at hm'
    · right; assumption
    · split at hm' <;> omega

example : (iterNext #[{ mask := 1 }, { mask := 1, mark := true }, { mask := 1 }] 1 0 2).toOption = some (some 2) := by
  decide +kernel

/-- Only glyphs inside the kern feature's range are touched: a glyph whose mask lacks the kern bit keeps
    its position through the whole `machine_kern` pass. -/
theorem C07_kern_frame (infos : Array KInfo) (p q : Array Pos) (len mask : Nat) (d : Dir) (cs fl : Bool)
    (kernOf : Nat → Nat → Int) (h : machineKern infos p len mask d cs kernOf = .ok (q, fl)) :
    q.size = p.size ∧ ∀ (k : Nat) (g : KInfo), infos[k]? = some g → g.mask &&& mask = 0 → q[k]? = p[k]? :=
  machineKernLoop_frame infos len mask _ cs kernOf _ _ _ _ _ _ h

example : (machineKern #[{ gid := 1, mask := 1 }, { gid := 2, mask := 0 }] #[{ xa := 10 }, { xa := 7 }] 2 1 .ltr false
    (fun _ _ => -5)).toOption = some (#[{ xa := 10 }, { xa := 7 }], false) := by decide +kernel

/-- the loop bound the model hands to `machine_kern` is not a restriction: any larger fuel gives the same result -/
theorem C07_kern_fuel (infos : Array KInfo) (p : Array Pos) (len mask : Nat) (d : Dir) (cs : Bool)
    (kernOf : Nat → Nat → Int) (extra : Nat) :
    machineKernLoop infos len mask d.isHorizontal cs kernOf (len + 1 + extra) 0 p false =
      machineKern infos p len mask d cs kernOf :=
  machineKernLoop_fuel_any infos len mask _ cs kernOf 0 p false (len + 1) extra (by omega)

/-- With an empty kern mask (kerning switched off) `machine_kern` is the identity. -/
theorem C07_kern_off_mask (infos : Array KInfo) (p : Array Pos) (len : Nat) (d : Dir) (cs : Bool)
    (kernOf : Nat → Nat → Int) (hlen : len ≤ infos.size) :
    machineKern infos p len 0 d cs kernOf = .ok (p, false) :=
  machineKernLoop_mask_off infos len _ cs kernOf hlen _ _ _ _

example : (3 : Nat) ≤ (#[({} : KInfo), {}, {}] : Array KInfo).size := by decide

/-- A format-0 subtable whose pairs are sorted (as the spec demands) yields exactly the stored value … -/
theorem C07_kern_fmt0_hit (pairs : Array (Nat × Int)) (l r : Nat) (v : Int) (t : Nat)
    (hs : SortedKeys (pairs.map (·.1))) (ht : pairs[t]? = some (l * 65536 + r, v)) :
    fmt0Kerning pairs l r = v :=
  fmt0Kerning_hit pairs l r v t hs ht

example : SortedKeys ((#[(65538, -10), (65539, 4)] : Array (Nat × Int)).map (·.1)) := by
  intro a b x y hab ha hb
  have hb2 : b < 2 := by
    by_cases h : b < 2
    · exact h
    · rw [Array.getElem?_eq_none (by simp; omega)] at hb; cases hb
  have : a = 0 ∧ b = 1 := by omega
  obtain ⟨rfl, rfl⟩ := this
  simp at ha hb; omega

/-- … and 0 for every pair that is not listed. -/
theorem C07_kern_fmt0_miss (pairs : Array (Nat × Int)) (l r : Nat)
    (hm : ∀ (t : Nat) (k : Nat) (v : Int), pairs[t]? = some (k, v) → k ≠ l * 65536 + r) :
    fmt0Kerning pairs l r = 0 :=
  fmt0Kerning_miss pairs l r hm

example : ∀ (t : Nat) (k : Nat) (v : Int), (#[(65538, -10)] : Array (Nat × Int))[t]? = some (k, v) → k ≠ 1 * 65536 + 3 := by
  intro t k v h
  have : t = 0 := by
    by_cases h0 : t = 0
    · exact h0
    · rw [Array.getElem?_eq_none (by simp; omega)] at h; cases h
  subst this; simp at h; omega

/-- Kerning not requested, no state-machine subtable: the whole `kern` pass changes neither the glyph order
    nor any advance / offset — in every direction (needed D3 fixed). -/
theorem C07_kern_off (subs : List KSub) (mask : Nat) (d : Dir) (sm : KSub → KBuf → KBuf) (b b' : KBuf)
    (hs : ∀ s ∈ subs, s.stateMachine = false)
    (h : kernDriver subs false mask d sm b = .ok b') :
    b'.infos = b.infos ∧ b'.len = b.len ∧ b'.pos.map metrics = b.pos.map metrics := by
  unfold kernDriver at h
  split at h
  · cases h
  · rename_i st hst
    simp only [Except.ok.injEq] at h; subst h
    exact kernDriver_off mask d sm subs false b st hs hst

/-- the former D3 witness (right-to-left, `kern` switched off, one format-0 subtable) now keeps the order -/
example : (kernDriver [{ horizontal := true, pairs := #[(65538, -10)] }] false 0 .rtl (fun _ b => b)
    { infos := #[{ gid := 1, mask := 1 }, { gid := 2, mask := 1 }], pos := #[{ xa := 10 }, { xa := 20 }], len := 2 }).toOption.map
      (fun b => (b.infos.toList.map (·.gid), b.pos)) = some ([1, 2], #[{ xa := 10 }, { xa := 20 }]) := by
  decide +kernel

/-! ## the reverse bracket of `hb_ot_layout_kern` (C02; D3 fixed) -/

/-- The kern driver returns the glyphs in the order it received them: the two `buffer.reverse()` calls always
    come in pairs (for every subtable list, direction, kerning on or off, any order-preserving state machine). -/
theorem C02_bracket (subs : List KSub) (requested : Bool) (mask : Nat) (d : Dir) (sm : KSub → KBuf → KBuf)
    (b b' : KBuf) (hsm : ∀ s b, (sm s b).infos = b.infos ∧ (sm s b).len = b.len) (hlen : b.len ≤ b.infos.size)
    (h : kernDriver subs requested mask d sm b = .ok b') :
    b'.infos = b.infos ∧ b'.len = b.len := by
  unfold kernDriver at h
  split at h
  · cases h
  · rename_i st hst
    simp only [Except.ok.injEq] at h; subst h
    exact kernDriver_infos requested mask d sm hsm subs false b st hlen hst

/-- non-vacuity: the identity is an order-preserving state machine; requested kerning on RTL text -/
example : (∀ (s : KSub) (b : KBuf), ((fun (_ : KSub) (b : KBuf) => b) s b).infos = b.infos ∧
    ((fun (_ : KSub) (b : KBuf) => b) s b).len = b.len) ∧
    (kernDriver [{ pairs := #[(65538, -10)] }] true 1 .rtl (fun _ b => b)
      { infos := #[{ gid := 1, mask := 1 }, { gid := 2, mask := 1 }], pos := #[{ xa := 10 }, { xa := 20 }], len := 2 }).toOption.map
        (fun b => b.infos.toList.map (·.gid)) = some [1, 2] := by
  refine ⟨fun _ _ => ⟨rfl, rfl⟩, ?_⟩
  decide +kernel

/-! ## the `kerx` subtable driver (aat_layout_kerx_table.rs::apply): the same two statements -/

/-- The `kerx` driver returns the glyphs in the order it received them: for every subtable list (formats 0 / 2 / 6 with
    any kerning values, state machines that keep the order), every direction, kerning on or off.  The match arms of
    formats 0 / 2 / 6 `continue` from between the two reverses when kerning is not requested; the theorem holds because
    the same test sits before the first reverse (`kerxStep`). -/
theorem C02_bracket_kerx (subs : List XSub) (requested : Bool) (mask : Nat) (d : Dir) (sm : XSub → KBuf → KBuf)
    (b b' : KBuf) (hsm : ∀ s b, (sm s b).infos = b.infos ∧ (sm s b).len = b.len) (hlen : b.len ≤ b.infos.size)
    (h : kerxDriver subs requested mask d sm b = .ok b') :
    b'.infos = b.infos ∧ b'.len = b.len := by
  unfold kerxDriver at h
  split at h
  · cases h
  · rename_i st hst
    simp only [Except.ok.injEq] at h; subst h
    exact kerxDriver_infos requested mask d sm hsm subs false b st hlen hst

/-- non-vacuity: right-to-left, kerning requested, a format-0 and a format-6 subtable around an (identity) state machine -/
example : (∀ (s : XSub) (b : KBuf), ((fun (_ : XSub) (b : KBuf) => b) s b).infos = b.infos ∧
    ((fun (_ : XSub) (b : KBuf) => b) s b).len = b.len) ∧
    (kerxDriver [{ kernOf := fun l r => if l = 1 ∧ r = 2 then -10 else 0 }, { format := 1 },
                 { format := 6, kernOf := fun _ _ => 4 }] true 1 .rtl (fun _ b => b)
      { infos := #[{ gid := 1, mask := 1 }, { gid := 2, mask := 1 }], pos := #[{ xa := 10 }, { xa := 20 }], len := 2 }).toOption.map
        (fun b => b.infos.toList.map (·.gid)) = some [1, 2] := by
  refine ⟨fun _ _ => ⟨rfl, rfl⟩, ?_⟩
  decide +kernel

/-- Kerning not requested, only format 0 / 2 / 6 subtables: the whole `kerx` pass changes neither the glyph order nor
    any advance / offset — in every direction, for any number of subtables: turning kerning off removes the kerning
    amounts and nothing else. -/
theorem C07_kerx_off (subs : List XSub) (mask : Nat) (d : Dir) (sm : XSub → KBuf → KBuf) (b b' : KBuf)
    (hs : ∀ s ∈ subs, s.isSimple = true)
    (h : kerxDriver subs false mask d sm b = .ok b') :
    b'.infos = b.infos ∧ b'.len = b.len ∧ b'.pos.map metrics = b.pos.map metrics := by
  unfold kerxDriver at h
  split at h
  · cases h
  · rename_i st hst
    simp only [Except.ok.injEq] at h; subst h
    exact kerxDriver_off mask d sm subs false b st hs hst

/-- non-vacuity, and the shape of the seeded failure: right-to-left, `kern` switched off, ONE format-0 subtable (an odd
    number of simple subtables) — order and advances stay -/
example : (kerxDriver [{ kernOf := fun l r => if l = 1 ∧ r = 2 then -10 else 0 }] false 0 .rtl (fun _ b => b)
    { infos := #[{ gid := 1, mask := 1 }, { gid := 2, mask := 1 }], pos := #[{ xa := 10 }, { xa := 20 }], len := 2 }).toOption.map
      (fun b => (b.infos.toList.map (·.gid), b.pos)) = some ([1, 2], #[{ xa := 10 }, { xa := 20 }]) := by
  decide +kernel

/-- With kerning requested, a format 0 / 2 / 6 `kerx` subtable that applies is exactly `machine_kern` over the
    subtable's values between two reverses (so `C07_kern_*` — pair walk, kern1 / kern2 split, frame — carry over). -/
theorem C07_kerx_simple_is_machine_kern (mask : Nat) (d : Dir) (sm : XSub → KBuf → KBuf) (seen : Bool) (b : KBuf) (s : XSub)
    (hs : s.isSimple = true) (hv : s.isVariable = false) (hh : d.isHorizontal = s.horizontal) (hc : s.crossStream = false) :
    kerxStep true mask d sm (seen, b) s =
      (let b1 := if d.isBackward then b.reverse else b
       match machineKern b1.infos b1.pos b1.len mask d false s.kernOf with
       | .error e => .error e
       | .ok (p, f) =>
         let b2 := { b1 with pos := p, attach := b1.attach || f }
         .ok (seen, if d.isBackward then b2.reverse else b2)) := by
  rw [kerxStep_eq]
  simp only [hs, hv, hh, hc, xAttach, Bool.false_eq_true, if_false, ne_eq, not_true_eq_false, Bool.not_true,
    Bool.and_false, Bool.and_self, if_true]
  generalize (if d.isBackward = true then b.reverse else b) = b1
  cases machineKern b1.infos b1.pos b1.len mask d false s.kernOf with
  | error e => rfl
  | ok r => rfl

example : ∃ s : XSub, s.isSimple = true ∧ s.isVariable = false ∧ Dir.rtl.isHorizontal = s.horizontal ∧ s.crossStream = false :=
  ⟨{ format := 2 }, by decide, rfl, rfl, rfl⟩

end RbModel.Kern


/-! ### the kern model with glyph flags (PairFlag.lean) computes the positions these theorems are about

  `Kern.machineKern` (above: pairing, kerning exactness, frame, the driver brackets) runs on `KInfo` views with a specialised
  iterator and has no glyph flags.  `PairFlag.machineKernF` / `kerxSimpleF` are the same loops on the buffer model with the REAL
  skipping iterator (`Gsub.It`) and every `unsafe_to_break` / `unsafe_to_concat` call (what `C03_kern_*` / `C04_kern_*` talk
  about; tied to the crate by the streams kern-machine-flags / kerx-simple-flags, positions included).  Their positions and
  attachment flag are those of `machineKern` on the view of the buffer — for every font, buffer, kerning function and
  direction — provided the kern feature's mask has none of the two flag bits `UNSAFE_TO_BREAK | UNSAFE_TO_CONCAT`
  (the flag calls write those bits into `info.mask`, which the loop reads as `mask & kern_mask`;
  `C04_feature_bits_above_flags_gen` shows `mask &&& 7 = 0` for every feature of every compiled map). -/
namespace RbModel.PairFlag
open RbModel RbModel.Gsub RbModel.GposFlag RbModel.Flags RbModel.Kern
open RbModel.Gpos (Pos Dir)

/-- **`machine_kern` with flags = `machine_kern` without, on positions** (legacy `kern`), panics included.  Hypotheses: the
    buffer invariants the flag setters need (`len` within the Vec, u32 clusters, monotone clusters). -/
theorem C07_kern_flag_model_positions (f : Font) (b : Buf) (p : Array Pos) (kernMask : Nat) (d : Dir) (cs : Bool)
    (kernOf : Nat → Nat → Int) (hm : kernMask &&& 3 = 0) (hlen : b.len ≤ b.info.length)
    (hu32 : ∀ q x, q < b.len → b.info[q]? = some x → x.cluster ≤ U32MAX) (hmono : MonoRange b.info 0 b.len) :
    (machineKernF f b p kernMask d cs kernOf).map (fun r => (r.2.1, r.2.2)) =
      liftG (machineKern (b.info.map kinfoOf).toArray p b.len kernMask d cs kernOf) :=
  machineKernF_positions f b p kernMask d cs kernOf hm ⟨hlen, hu32, hmono⟩

/-- **the kerx copy likewise** (`apply_simple_kerning` of aat_layout_kerx_table.rs is a copy of the loop, not a call:
    `C07_kerx_simple_is_machine_kern` is a statement about the driver MODEL, which uses `machineKern` for formats 0 / 2 / 6; this
    theorem is what justifies it: the copy — with its extra `unsafe_to_concat` on an iterator miss, with or without the
    repeated `unsafe_to_concat(None, None)` of format 2 — computes the positions of `machineKern`). -/
theorem C07_kerx_flag_model_positions (lc : Bool) (f : Font) (b : Buf) (p : Array Pos) (kernMask : Nat) (d : Dir) (cs : Bool)
    (kernOf : Nat → Nat → Int) (hm : kernMask &&& 3 = 0) (hlen : b.len ≤ b.info.length)
    (hu32 : ∀ q x, q < b.len → b.info[q]? = some x → x.cluster ≤ U32MAX) (hmono : MonoRange b.info 0 b.len) :
    (kerxSimpleF lc f b p kernMask d cs kernOf).map (fun r => (r.2.1, r.2.2)) =
      liftG (machineKern (b.info.map kinfoOf).toArray p b.len kernMask d cs kernOf) :=
  kerxSimpleF_positions lc f b p kernMask d cs kernOf hm ⟨hlen, hu32, hmono⟩

-- non-vacuity: base mark mark base, the pair kerned by -50 (both sides evaluate to the same positions)
example : (machineKernF {} (spanKernBuf 64 256) spanKernPos 256 .ltr false spanKernOf).map (fun r => r.2.1.toList.map (·.xa))
    = .ok [575, 0, 0, 475] ∧
    (liftG (machineKern ((spanKernBuf 64 256).info.map kinfoOf).toArray spanKernPos 4 256 .ltr false spanKernOf)).map
      (fun r => r.1.toList.map (·.xa)) = .ok [575, 0, 0, 475] ∧ (256 : Nat) &&& 3 = 0 := ⟨by rfl, by rfl, by decide⟩
-- the hypothesis is not idle: with kern mask 2 (= UNSAFE_TO_CONCAT) the leading `unsafe_to_concat(None, None)` puts every glyph
-- into the "kern range": the flag model kerns a pair of glyphs whose masks did not have the bit, the plain model does not
example : (machineKernF {} { info := [(1, 0, 2, 7, 0), (2, 0, 2, 7, 1)].map infoK, len := 2, flags := 64 } #[{ xa := 600 }, { xa := 500 }]
      2 .ltr false spanKernOf).map (fun r => r.2.1.toList.map (·.xa)) = .ok [575, 475] ∧
    (liftG (machineKern (([(1, 0, 2, 7, 0), (2, 0, 2, 7, 1)].map infoK).map kinfoOf).toArray #[{ xa := 600 }, { xa := 500 }]
      2 2 .ltr false spanKernOf)).map (fun r => r.1.toList.map (·.xa)) = .ok [600, 500] := ⟨by rfl, by rfl⟩

/-! ### the pairs the kern machine selects form a chain

  `machine_kern` ends an iteration that found a second glyph `j` with `i = j;`: the next pair starts AT the right glyph of the
  previous pair (or, when that glyph is outside the kern feature's range, further right) — never at one of the glyphs the
  skipping iterator stepped over between `i` and `j`.  A GDEF mark or a default ignorable between two kerned letters is
  therefore never the LEFT glyph of a pair of its own, whatever the font's pair table says about it; continuing at `i + 1`
  instead would kern `(skipped glyph, j)` as well and move `j` twice.  Stated on the event list of `machineKernFI` /
  `kerxSimpleFI` (one event per iteration that reached the iterator, in loop order; `C03_kern_events_erase`: dropping the
  events gives the model functions the `kern-machine-flags` / `kerx-simple-flags` correspondences run).  No hypotheses: every
  buffer, every mask, every pair table, panics included (a panicking run has no events). -/

/-- **legacy `kern`**: for any two iterations `e1` before `e2` of one run of `machine_kern`: `e2` starts right of `e1`; and when
    `e1` found its second glyph `j = e1.stop`, `e2` starts at `j` or later — so none of the glyphs `e1`'s iterator read and
    stepped over (`e1.reads` without `j`, all within `(e1.i, j)`) is `e2`'s left glyph. -/
theorem C07_kern_pairs_chain (f : Font) (b : Buf) (p : Array Pos) (kernMask : Nat) (d : Dir) (cs : Bool)
    (kernOf : Nat → Nat → Int) (r : Buf × Array Pos × Bool) (evs : List KEvent) (iEnd : Nat)
    (h : machineKernFI f b p kernMask d cs kernOf = .ok (r, evs, iEnd)) :
    machineKernF f b p kernMask d cs kernOf = .ok r ∧
    (∀ e ∈ evs, e.found = true → e.i < e.stop ∧ e.stop ∈ e.reads ∧ ∀ q ∈ e.reads, e.i < q ∧ q ≤ e.stop) ∧
    evs.Pairwise (fun e1 e2 => e1.i < e2.i ∧
      (e1.found = true → e1.stop ≤ e2.i ∧ ∀ q ∈ e1.reads, q ≠ e1.stop → q ≠ e2.i)) := by
  have he := machineKernFI_erase f b p kernMask d cs kernOf
  rw [h] at he
  unfold machineKernFI at h
  cases h0 : b.unsafeToConcat 0 none with
  | error e => simp [h0] at h
  | ok b0 =>
    simp only [h0] at h
    obtain ⟨lb, pw⟩ := machineKernLoopFI_chain false f kernMask _ cs kernOf _ _ _ _ _ _ _ _ h
    refine ⟨he.symm, fun e hm => (lb e hm).2, pw.imp_of_mem ?_⟩
    intro e1 e2 h1 _ hn
    refine ⟨hn.1, fun hf => ⟨hn.2 hf, ?_⟩⟩
    intro q hq hne
    have h3 := ((lb e1 h1).2 hf).2.2 q hq
    have h4 := hn.2 hf
    omega

/-- **the kerx copy of the loop** (`apply_simple_kerning` of aat_layout_kerx_table.rs, formats 0 / 2 / 6) likewise -/
theorem C07_kerx_pairs_chain (lc : Bool) (f : Font) (b : Buf) (p : Array Pos) (kernMask : Nat) (d : Dir) (cs : Bool)
    (kernOf : Nat → Nat → Int) (r : Buf × Array Pos × Bool) (evs : List KEvent) (iEnd : Nat)
    (h : kerxSimpleFI lc f b p kernMask d cs kernOf = .ok (r, evs, iEnd)) :
    kerxSimpleF lc f b p kernMask d cs kernOf = .ok r ∧
    (∀ e ∈ evs, e.found = true → e.i < e.stop ∧ e.stop ∈ e.reads ∧ ∀ q ∈ e.reads, e.i < q ∧ q ≤ e.stop) ∧
    evs.Pairwise (fun e1 e2 => e1.i < e2.i ∧
      (e1.found = true → e1.stop ≤ e2.i ∧ ∀ q ∈ e1.reads, q ≠ e1.stop → q ≠ e2.i)) := by
  have he := kerxSimpleFI_erase lc f b p kernMask d cs kernOf
  rw [h] at he
  unfold kerxSimpleFI at h
  cases h0 : (if lc = true then b.unsafeToConcat 0 none else .ok b) with
  | error e => simp [h0] at h
  | ok b0 =>
    simp only [h0] at h
    obtain ⟨lb, pw⟩ := machineKernLoopFI_chain true f kernMask _ cs kernOf _ _ _ _ _ _ _ _ h
    refine ⟨he.symm, fun e hm => (lb e hm).2, pw.imp_of_mem ?_⟩
    intro e1 e2 h1 _ hn
    refine ⟨hn.1, fun hf => ⟨hn.2 hf, ?_⟩⟩
    intro q hq hne
    have h3 := ((lb e1 h1).2 hf).2.2 q hq
    have h4 := hn.2 hf
    omega

-- non-vacuity: base 1 | GDEF mark 9 | base 2, all inside the kern range, pairs (1, 2) = -100 AND (9, 2) = -40: the run has the two
-- events (0 → 2: -100) and (2 → end: nothing); the mark at 1 was read and stepped over and starts no pair: the right base moves by
-- -50 once (500 → 450), the mark's advance stays 0
example : (machineKernFI {} chainKernBuf chainKernPos 256 .ltr false chainKernOf).map kernView
    = .ok ([256, 259, 259], [550, 0, 450], [(0, [1, 2], true, 2, -100), (2, [], false, 3, 0)], 3) := by rfl
example : (kerxSimpleFI true {} chainKernBuf chainKernPos 256 .ltr false chainKernOf).map kernView
    = .ok ([256, 259, 259], [550, 0, 450], [(0, [1, 2], true, 2, -100), (2, [], false, 3, 0)], 3) := by rfl
-- the statement is not idle: an iteration started AT the skipped mark (what `i += 1` would do next) finds the same right base and
-- kerns the pair (9, 2): the mark gets -20, the right base another -20
example : (kernStepFI false {} 256 true false chainKernOf 1 chainKernBuf chainKernPos false).map
      (fun r => (r.1.1, r.1.2.2.1.toList.map (·.xa), r.2.map KEvent.view))
    = .ok (2, [600, -20, 480], some (1, [2], true, 2, -40)) := by rfl

end RbModel.PairFlag
