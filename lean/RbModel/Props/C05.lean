/-
  C05 — shaping is a pure function: repeatable, buffer / plan reuse and threads are safe.

  Model: RbModel/Lifecycle.lean (the public buffer api, `shape`, `shape_with_plan`, the enter/leave bracket of
  `shape_internal`; the pipeline between enter and leave is an arbitrary function `body`) and RbModel/Sched.lean
  (interleavings of N threads sharing read-only data).  Tied to the crate by the `lifecycle` correspondence
  stream (public-api histories, every field read back through the rb_verif hook `verif::buffer::life_*`) and by
  the generated knob `Gen.Lifecycle.leaveAtEnd` (behavioural probe through the public api).

  All theorems quantify over every pipeline behaviour `body`, every Unicode-data assignment `ud`, every history.
-/
import RbModel.Lemmas.Lifecycle

namespace RbModel.Life

/-- The crate gives a buffer its default limits back on every path out of `shape_with_plan`, the empty-buffer
    path included.  (Probe through the public api on every run: shape an empty buffer, `GlyphBuffer::clear`,
    `push_str` of 20 000 characters — false before the repair of D9: the recycled buffer stayed empty.) -/
theorem C05_gen_leave_at_end : Gen.Lifecycle.leaveAtEnd = true := by decide

/-- **clear() gives a fresh buffer.**  For every state a public buffer can reach — any history of
    add / push_str / set_* / guess / reset_clusters / clear / shape, with ANY behaviour of the shaping pipeline
    in those shapes (limits hit, allocation failures, positions produced, other directions / levels / flags) —
    `clear` makes every field that shaping reads equal to that of `UnicodeBuffer::new()`: content, `Vec`s,
    `idx`, `len`, `out_len`, `have_output`, `have_separate_output`, `have_positions`, `successful`,
    `cluster_level`, `scratch_flags`, `serial`, `max_len`, `max_ops`, direction, script, language, both
    contexts and the not-found-variation-selector glyph.  (`flags` is a caller-owned input that `clear` keeps,
    `shaping_failed` is overwritten by `enter()`; `observe` blanks exactly these two.)
    FALSE before D9 (`max_len`/`max_ops` stayed 16384 after shaping an empty buffer). -/
theorem C05_clear_fresh (ud : UData) (u : UBuf) (h : Reach ud u) : observe (clear u) = observe new :=
  observe_clear u (reach_limits C05_gen_leave_at_end ud u h)

example : ∃ ud u, Reach ud u ∧ u ≠ new ∧ u.b.len = 0 :=
  ⟨⟨fun _ => none, fun _ => 1⟩, shapeWithPlan ⟨fun _ => none, fun _ => 1⟩ (fun u => u) new,
    Reach.shape _ Reach.new, by decide, by decide⟩

/-! ### "cleared ≡ fresh" over the FULL field list of `hb_buffer_t`

  `Life.Field` has one constructor per field of the Rust struct; `Life.read` reads each off the model.  The three
  generated facts below tie the list, and what `clear()` does to each member, to the working tree. -/

/-- the model's field list is the field list of `pub struct hb_buffer_t` (parsed from src/hb/buffer.rs on every
    run): a field added to — or removed from — the struct breaks this until the model follows -/
theorem C05_gen_buffer_fields : Field.all.map Field.name = Gen.Lifecycle.bufferFields := by decide

/-- `Field.all` lists every constructor (so quantifying over `Field` is quantifying over the struct's fields) -/
theorem C05_fields_all (f : Field) : f ∈ Field.all := by cases f <;> decide

/-- what the compiled `hb_buffer_t::clear()` leaves different from `hb_buffer_t::new()` on a buffer whose EVERY
    field was made different (hook `clear_probe`, every field read back) is exactly the model's kept set:
    flags, invisible, shaping_failed, max_len, max_ops.  A `clear()` that forgets a field adds it to the generated list. -/
theorem C05_gen_clear_keeps :
    (Field.all.filter Field.keptByClear).map Field.name = Gen.Lifecycle.clearKeeps := by decide

/-- `invisible` — the one field the model does not carry — has no writer outside the hook modules (counted in
    src/hb/*.rs on every run); with no public setter it is `None` in every buffer a caller can hold -/
theorem C05_gen_invisible_never_written : Gen.Lifecycle.invisibleWriters = 0 := by decide

/-- **clear() resets every field it is meant to reset, from ANY state** (not only reachable ones): for every field of
    the struct, either it is one of the five kept fields or `clear` gives it the value of a fresh buffer — cursor,
    lengths, both `Vec`s, both contexts and their lengths, serial, scratch flags, cluster level, segment properties,
    not-found glyph, the four status booleans. -/
theorem C05_clear_every_field (u : UBuf) (f : Field) :
    f.keptByClear = true ∨ read (clear u) f = read new f := by
  cases f <;> first | (left; rfl) | (right; rfl)

theorem read_observe (x : UBuf) (f : Field) (h1 : f ≠ .flags) (h2 : f ≠ .shaping_failed) :
    read (observe x) f = read x f := by
  cases f <;> first | rfl | contradiction

/-- **… and for every reachable state every field but `flags` / `shaping_failed` / `invisible` is fresh**: the
    limits too, because every way out of `shape_with_plan` restores them (D9).  Quantified over the full field list. -/
theorem C05_clear_fresh_every_field (ud : UData) (u : UBuf) (h : Reach ud u) (f : Field) :
    f ∈ [Field.flags, Field.shaping_failed, Field.invisible] ∨ read (clear u) f = read new f := by
  by_cases h1 : f = .flags
  · subst h1; left; decide
  by_cases h2 : f = .shaping_failed
  · subst h2; left; decide
  right
  rw [← read_observe (clear u) f h1 h2, ← read_observe new f h1 h2, C05_clear_fresh ud u h]

/-- a state in which every resettable field differs from a fresh buffer -/
def dirtyBuf : Buf :=
  { info := [{}], out := [{}], idx := 1, len := 1, outLen := 1, haveOutput := true, sepOut := true,
    havePos := true, successful := false, level := 1, scratch := 1, serial := 1 }
def dirty : UBuf :=
  { b := dirtyBuf, dir := 1, script := some 1, lang := some [], pre := [1], post := [1], nfvs := some 1 }

/-- non-vacuity: `clear` has something to do on every field it resets -/
example : ∀ f : Field, f.keptByClear = false → f ≠ .invisible → read dirty f ≠ read new f := by
  intro f hk hi
  cases f <;> first | (exact absurd rfl hi) | (exact absurd hk (by decide)) | decide

/-- **History independence.**  The same request (characters, clusters, contexts, direction, script, language,
    flags, cluster level, not-found glyph — what harness `fill` sets) shaped through a buffer recycled with
    `clear()` after ANY earlier use gives exactly the buffer that shaping it through a fresh one gives — for every
    pipeline behaviour, including a panic while filling (same `Except` value on both sides). -/
theorem C05_history_independent (ud : UData) (u : UBuf) (h : Reach ud u) (r : Req) (body : UBuf → UBuf) :
    (applyReq r (clear u)).map (shapeWithPlan ud body) = (applyReq r new).map (shapeWithPlan ud body) := by
  have h1 := eq_of_observe_eq (C05_clear_fresh ud u h)
  rw [h1, applyReq_frame]
  cases applyReq r new with
  | error e => rfl
  | ok x => simp only [Except.map]; rw [shapeWithPlan_sf]

example : ∃ r : Req, ∃ x, applyReq r new = .ok x ∧ x.b.len = 2 :=
  ⟨{ text := [(0x61, 0), (0x62, 1)], flags := 3 }, _, rfl, by decide⟩

/-- **shape = shape_with_plan** with the plan built from the buffer's guessed direction, script and language
    (the content is that `guess_segment_properties` is idempotent: `shape_with_plan` guesses again). -/
theorem C05_shape_eq_plan {Plan Feats : Type} (ud : UData)
    (mkPlan : Nat → Option Nat → Option (List Nat) → Feats → Plan) (exec : Plan → UBuf → UBuf) (feats : Feats)
    (u : UBuf) :
    shape ud mkPlan exec feats u =
      shapeWithPlan ud (exec (mkPlan (guess ud u).dir (guess ud u).script (guess ud u).lang feats)) u := by
  unfold shape
  exact shapeWithPlan_guess ud _ u

/-- history independence for `shape` itself: the plan is a function of the request's guessed properties, which
    agree on the recycled and the fresh buffer -/
theorem C05_history_independent_shape {Plan Feats : Type} (ud : UData) (u : UBuf) (h : Reach ud u) (r : Req)
    (mkPlan : Nat → Option Nat → Option (List Nat) → Feats → Plan) (exec : Plan → UBuf → UBuf) (feats : Feats) :
    (applyReq r (clear u)).map (shape ud mkPlan exec feats) = (applyReq r new).map (shape ud mkPlan exec feats) := by
  have h1 := eq_of_observe_eq (C05_clear_fresh ud u h)
  rw [h1, applyReq_frame]
  cases applyReq r new with
  | error e => rfl
  | ok x =>
    simp only [Except.map]
    -- `guess` and `enter` never read `shapingFailed`, `enter` overwrites it: both sides reduce to the same term
    congr 1

/-- repeating a call on equal inputs gives equal outputs, and the second guess changes nothing -/
theorem C05_guess_idempotent (ud : UData) (u : UBuf) : guess ud (guess ud u) = guess ud u := guess_idem ud u

/-- **The `rand` feature is a function of the request.**  A fresh apply context starts its PRNG at 1 whatever
    buffer it is created on (value generated from the crate through the hook `random_sequence`), so the
    numbers drawn during one table application depend only on how many were drawn before. -/
theorem C05_random_state : randomInit = 1 ∧ ∀ n, randomSeq randomInit n = randomSeq 1 n := by
  have h : randomInit = 1 := by decide
  exact ⟨h, fun n => by rw [h]⟩

example : randomSeq randomInit 3 = [1, 48271, 182605794, 1291390782] := by decide

/-- **The PRNG restarts with every table application, on a recycled buffer too.**  The state an apply context starts from
    on a buffer that has been through earlier shape() calls which drew random alternates (probed from the crate through the
    public api + hook `random_sequence_on`, `Gen.Lifecycle.randomSeedRecycled`) is the state of a fresh one: the numbers drawn in
    a shaping call do not depend on how many an earlier use of the same buffer object drew. -/
theorem C05_random_state_restarts (earlier n : Nat) :
    applyCtxRandomInit earlier = 1 ∧ randomSeq (applyCtxRandomInit earlier) n = randomSeq (applyCtxRandomInit 0) n := by
  have h0 : randomInit = 1 := by decide
  have h1 : Gen.Lifecycle.randomSeedRecycled = 1 := by decide
  have h : ∀ k, applyCtxRandomInit k = 1 := by
    intro k; unfold applyCtxRandomInit; split <;> assumption
  exact ⟨h earlier, by rw [h earlier, h 0]⟩

end RbModel.Life

namespace RbModel.Sched

variable {Sh G B Rq Rs : Type}

/-- **Schedule independence** (frame argument).  If a shaping call never writes shared state (`Frame`: the crate
    has no statics, interior mutability or thread-locals — site inventory), then under EVERY schedule that lets
    all threads finish, every thread ends with exactly the results of processing its request list alone, in order. -/
theorem C05_schedule_independent (exec : Exec Sh G B Rq Rs) (hf : Frame exec) (sh : Sh) (s : State G B Rq Rs)
    (sched : List Nat) (hc : Complete s sched) (i : Nat) (t : Thread B Rq Rs) (h : s.threads[i]? = some t) :
    ∃ t', (run exec sh s sched).threads[i]? = some t' ∧ t'.todo = [] ∧
      t'.done = t.done ++ runAlone exec sh s.g t.buf t.todo := by
  obtain ⟨_, ht⟩ := run_thread exec hf sh sched s i t h
  obtain ⟨h1, h2⟩ := advance_done exec sh s.g (sched.count i) t (hc i t h)
  exact ⟨_, ht, h1, h2⟩

/-- two complete schedules agree on every thread -/
theorem C05_schedules_agree (exec : Exec Sh G B Rq Rs) (hf : Frame exec) (sh : Sh) (s : State G B Rq Rs)
    (s1 s2 : List Nat) (h1 : Complete s s1) (h2 : Complete s s2) (i : Nat) (t : Thread B Rq Rs)
    (h : s.threads[i]? = some t) :
    ((run exec sh s s1).threads[i]?).map (·.done) = ((run exec sh s s2).threads[i]?).map (·.done) := by
  obtain ⟨a, ha, _, hda⟩ := C05_schedule_independent exec hf sh s s1 h1 i t h
  obtain ⟨b, hb, _, hdb⟩ := C05_schedule_independent exec hf sh s s2 h2 i t h
  rw [ha, hb]; simp [hda, hdb]

/-- the shaping entry point of the model as a call of the scheduler: recycle the thread's buffer, fill it with
    the request, shape with the shared (face, plan) — it satisfies the frame premise by construction -/
def shapeExec (ud : Life.UData) (pipeline : Sh → Life.UBuf → Life.UBuf) :
    Exec Sh G Life.UBuf Life.Req (M Life.UBuf) :=
  fun sh g r b =>
    match Life.applyReq r (Life.clear b) with
    | .ok u => (g, Life.shapeWithPlan ud (pipeline sh) u, .ok (Life.shapeWithPlan ud (pipeline sh) u))
    | .error e => (g, b, .error e)

theorem C05_shape_frame (ud : Life.UData) (pipeline : Sh → Life.UBuf → Life.UBuf) :
    Frame (shapeExec (G := G) ud pipeline) := by
  intro sh g r b
  unfold shapeExec
  cases Life.applyReq r (Life.clear b) <;> rfl

/-- concurrent shaping in the model: threads sharing (face, plan) data `sh`, each recycling its own buffer, end — under
    every complete schedule — with the results of shaping their requests alone, one after the other -/
theorem C05_threads_shape (ud : Life.UData) (pipeline : Sh → Life.UBuf → Life.UBuf) (sh : Sh)
    (s : State G Life.UBuf Life.Req (M Life.UBuf)) (sched : List Nat) (hc : Complete s sched) (i : Nat)
    (t : Thread Life.UBuf Life.Req (M Life.UBuf)) (h : s.threads[i]? = some t) :
    ∃ t', (run (shapeExec ud pipeline) sh s sched).threads[i]? = some t' ∧ t'.todo = [] ∧
      t'.done = t.done ++ runAlone (shapeExec ud pipeline) sh s.g t.buf t.todo :=
  C05_schedule_independent _ (C05_shape_frame ud pipeline) sh s sched hc i t h

/-! non-vacuity: two threads, two requests each, two different complete schedules; and the premise is needed —
    a call that bumps a shared counter gives schedule-dependent results -/
def exExec : Exec Unit Nat Nat Nat Nat := fun _ g r b => (g, b + r, b + r)
def exState : State Nat Nat Nat Nat := { g := 0, threads := [{ buf := 0, todo := [1, 2] }, { buf := 10, todo := [5, 6] }] }
example : Frame exExec := fun _ _ _ _ => rfl
example : Complete exState [0, 1, 1, 0] ∧ Complete exState [1, 0, 0, 1, 1] := by
  constructor <;> intro i t h <;>
    (match i, h with
     | 0, h => (simp [exState] at h; subst h; decide)
     | 1, h => (simp [exState] at h; subst h; decide)
     | n + 2, h => (simp [exState] at h))
example : ((run exExec () exState [0, 1, 1, 0]).threads.map (·.done)) = [[1, 3], [15, 21]] := by decide

def badExec : Exec Unit Nat Nat Nat Nat := fun _ g r b => (g + 1, b + r, b + r + g)
example : ((run badExec () exState [0, 1, 1, 0]).threads.map (·.done)) ≠
          ((run badExec () exState [1, 1, 0, 0]).threads.map (·.done)) := by decide

end RbModel.Sched
