/-
  C03 — a cluster start without UNSAFE_TO_BREAK is a safe place to break the text.
-/
import RbModel.Lemmas.Flags

namespace RbModel.Flags

theorem C03_placeholder : Flag.UNSAFE_TO_BREAK = 1 := rfl

end RbModel.Flags
